(* C05, stage 2c of the pop-on refinement: a single load with ONE row that may contain MID-ROW CODES (item Mid a,
   a in 0..15: 14 / 15 switch italics on, every other one switches italics off; on the 608 screen the code occupies
   one blank cell, Opt), together with basic / special / extended characters and backspaces, any preamble style,
   control codes single or doubled.  The node list the decoder builds depends on many cases (style already set, text
   before the code, punctuation after it, ...), so the result is stated THROUGH THE ORACLE: the caption returned by
   `read`, observed as the harness observes it, satisfies ok_c05 (popon_stage2c_ok), and `read` does return exactly
   one caption with the load's times and the row's address (popon_stage2c_reads).

   Method: `render` turns a node list into the (character, italic) sequence it shows.  An invariant `Rep` ties the
   decoder's buffer to an abstract sequence `rend`; every decoder step (characters, special / extended characters,
   backspace, mid-row code) is described on `rend`; `J` relates `rend` to the cells of the 608 screen by the oracle's
   own `match_cells`.  The seven passes of format_italics keep `render` up to blanks at the end (sections 2, 3), the
   caption builder and the observation turn `render` into the oracle's `obs_lines` (section 4). *)
From Coq Require Import List ZArith QArith Qabs Lia Bool ZifyBool.
From PV Require Import lib.Sx lib.Str lib.Result model.GenScc model.SccLen model.SccTime model.SccStash model.SccDecoder model.SccLayout
                       spec.Spec608 spec.SpecScc05 spec.SpecSccLen proofs.SccTableFacts proofs.SccTableFixFacts proofs.SccDoubleFacts
                       proofs.SccLenFacts proofs.SccStashFacts proofs.SccItalicsFacts proofs.SccPoponStage1 proofs.SccPoponStage2
                       proofs.SccPoponStage3.
Import ListNotations. Open Scope Z_scope.

(* performance only (see stage 1): the conversion must never evaluate the filter inside basic_code on a variable *)
Local Strategy 1000 [basic_code is_basic].

(* any in-domain row: all five item kinds, any preamble style *)
Definition mid_row (r : row) : bool := row_ok r.

(* ---- 1. what a node list shows ------------------------------------------------------------------------------- *)
Definition tag (b : bool) (s : str) : list (Z * bool) := map (fun c => (c, b)) s.

(* the characters of the text nodes, each with the italics state at that point *)
Fixpoint render (b : bool) (l : list inode) : list (Z * bool) :=
  match l with
  | [] => []
  | n :: t => match i_kind n with
              | IText => tag b (i_text n) ++ render b t
              | IItalOn => render true t
              | IItalOff => render false t
              | _ => render b t
              end
  end.

(* the italics state after the list *)
Fixpoint fin (b : bool) (l : list inode) : bool :=
  match l with
  | [] => b
  | n :: t => match i_kind n with IItalOn => fin true t | IItalOff => fin false t | _ => fin b t end
  end.

Definition simple_kind (k : ikind) : bool := match k with IText | IItalOn | IItalOff => true | _ => false end.
(* no break, no reposition *)
Definition simple (l : list inode) : Prop := forallb simple_kind (map i_kind l) = true.
(* every text node is at p *)
Definition tpos (p : pos) (l : list inode) : Prop := Forall (fun n => is_text n = true -> i_pos n = p) l.

Lemma tag_app : forall b s t, tag b (s ++ t) = tag b s ++ tag b t.
Proof. intros. unfold tag. apply map_app. Qed.

Lemma render_app : forall l1 l2 b, render b (l1 ++ l2) = render b l1 ++ render (fin b l1) l2.
Proof.
  induction l1 as [|n t IH]; intros l2 b; [reflexivity|].
  destruct n as [k x q]; destruct k; cbn [app render fin i_kind i_text]; rewrite ?IH, ?app_assoc; reflexivity.
Qed.

Lemma fin_app : forall l1 l2 b, fin b (l1 ++ l2) = fin (fin b l1) l2.
Proof.
  induction l1 as [|n t IH]; intros l2 b; [reflexivity|].
  destruct n as [k x q]; destruct k; cbn [app fin i_kind]; apply IH.
Qed.

Lemma simple_app : forall l1 l2, simple (l1 ++ l2) <-> simple l1 /\ simple l2.
Proof. intros l1 l2. unfold simple. rewrite map_app, forallb_app, andb_true_iff. reflexivity. Qed.

Lemma simple_cons : forall n l, simple (n :: l) <-> simple_kind (i_kind n) = true /\ simple l.
Proof. intros n l. unfold simple. cbn [map forallb]. rewrite andb_true_iff. reflexivity. Qed.

Lemma tpos_app : forall p l1 l2, tpos p (l1 ++ l2) <-> tpos p l1 /\ tpos p l2.
Proof. intros. unfold tpos. apply Forall_app. Qed.

(* ---- 2. the passes of format_italics keep what is shown ------------------------------------------------------------ *)
Lemma sio_true : forall l, skip_initial_off l true = l.
Proof.
  induction l as [|n t IH]; [reflexivity|].
  destruct n as [k x q]; destruct k; cbn [skip_initial_off is_on is_off i_kind]; rewrite IH; reflexivity.
Qed.

Lemma sio_render : forall l, render false (skip_initial_off l false) = render false l.
Proof.
  induction l as [|n t IH]; [reflexivity|].
  destruct n as [k x q]; destruct k; cbn [skip_initial_off is_on is_off i_kind render i_text]; rewrite ?IH, ?sio_true; reflexivity.
Qed.

Lemma set_render : forall l b, render b (skip_empty_text l) = render b l.
Proof.
  induction l as [|n t IH]; intros b; [reflexivity|].
  destruct n as [k x q]; destruct k; unfold skip_empty_text in *; cbn [filter is_text i_kind i_text andb negb render]; rewrite ?IH; try reflexivity.
  destruct x as [|c x']; cbn [nonempty negb render i_kind i_text]; rewrite IH; reflexivity.
Qed.

Lemma sr_render : forall l s, render (st_on s) (skip_redundant l s) = render (st_on s) l.
Proof.
  induction l as [|n t IH]; intros s; [reflexivity|].
  destruct n as [k x q]; destruct k; cbn [skip_redundant is_on is_off i_kind orb render i_text]; rewrite ?IH; try reflexivity.
  - destruct s as [[|]|]; cbn [Bool.eqb st_on render i_kind].
    + exact (IH (Some true)).
    + exact (IH (Some true)).
    + exact (IH (Some true)).
  - destruct s as [[|]|]; cbn [Bool.eqb st_on render i_kind].
    + exact (IH (Some false)).
    + exact (IH (Some false)).
    + exact (IH (Some false)).
Qed.

Lemma cbr_simple : forall l op, simple l -> close_before_repos l op = l.
Proof.
  induction l as [|n t IH]; intros op H; [reflexivity|]. apply simple_cons in H. destruct H as [Hk H].
  destruct n as [k x q]; destruct k; try discriminate Hk; cbn [close_before_repos is_on is_off is_repos i_kind i_pos];
    rewrite (IH _ H); reflexivity.
Qed.

Lemma roo_render : forall l,
  (forall on, chk on l = true -> render on (remove_on_off l None) = render on l) /\
  (forall p, is_on p = true -> chk true l = true -> render false (remove_on_off l (Some p)) = render true l).
Proof.
  induction l as [|n t [IH1 IH2]]; split.
  - reflexivity.
  - reflexivity.
  - intros on H. destruct n as [k x q]; destruct k; cbn [chk remove_on_off is_on is_off is_repos i_kind render i_text] in *.
    + rewrite (IH1 _ H). reflexivity.
    + exact (IH1 _ H).
    + apply andb_true_iff in H. destruct H as [H1 H2]. destruct on; [discriminate|].
      exact (IH2 (mkI IItalOn x q) eq_refl H2).
    + apply andb_true_iff in H. destruct H as [H1 H2]. exact (IH1 _ H2).
    + apply andb_true_iff in H. destruct H as [H1 H2]. destruct on; [discriminate|]. exact (IH1 _ H2).
  - intros p Hp H.
    assert (Hk : i_kind p = IItalOn) by (unfold is_on in Hp; destruct (i_kind p); try discriminate; reflexivity).
    destruct n as [k x q]; destruct k; cbn [chk remove_on_off is_on is_off is_repos i_kind render i_text] in *; rewrite ?Hk.
    + rewrite (IH1 _ H). reflexivity.
    + exact (IH1 _ H).
    + discriminate H.
    + exact (IH1 _ H).
    + discriminate H.
Qed.

Lemma rof_render : forall l,
  (forall on, chk on l = true -> render on (remove_off_on l None) = render on l) /\
  (forall p, is_off p = true -> chk false l = true -> render true (remove_off_on l (Some p)) = render false l).
Proof.
  induction l as [|n t [IH1 IH2]]; split.
  - reflexivity.
  - intros p Hp _.
    assert (Hk : i_kind p = IItalOff) by (unfold is_off in Hp; destruct (i_kind p); try discriminate; reflexivity).
    cbn [remove_off_on render]. rewrite Hk. reflexivity.
  - intros on H. destruct n as [k x q]; destruct k; cbn [chk remove_off_on is_on is_off is_repos i_kind render i_text] in *.
    + rewrite (IH1 _ H). reflexivity.
    + exact (IH1 _ H).
    + apply andb_true_iff in H. destruct H as [H1 H2]. exact (IH1 _ H2).
    + apply andb_true_iff in H. destruct H as [H1 H2]. destruct on; [|discriminate].
      exact (IH2 (mkI IItalOff x q) eq_refl H2).
    + apply andb_true_iff in H. destruct H as [H1 H2]. destruct on; [discriminate|]. exact (IH1 _ H2).
  - intros p Hp H.
    assert (Hk : i_kind p = IItalOff) by (unfold is_off in Hp; destruct (i_kind p); try discriminate; reflexivity).
    destruct n as [k x q]; destruct k; cbn [chk remove_off_on is_on is_off is_repos i_kind render i_text] in *; rewrite ?Hk.
    + rewrite (IH1 _ H). reflexivity.
    + exact (IH1 _ H).
    + exact (IH1 _ H).
    + discriminate H.
    + exact (IH1 _ H).
Qed.

Lemma forallb_map_kind : forall (f : ikind -> bool) l, forallb f (map i_kind l) = forallb (fun n => f (i_kind n)) l.
Proof. intros f. induction l as [|n t IH]; [reflexivity|]. cbn [map forallb]. rewrite IH. reflexivity. Qed.

Lemma simple_in : forall l, simple l <-> forall n, In n l -> simple_kind (i_kind n) = true.
Proof. intros l. unfold simple. rewrite forallb_map_kind, forallb_forall. reflexivity. Qed.

Lemma passes16_simple : forall l, simple l -> simple (passes16 l).
Proof.
  intros l H. apply simple_in. intros n Hn. destruct (plain n) eqn:Ep.
  - assert (Hin : In n (filter plain (passes16 l))) by (apply filter_In; split; assumption).
    rewrite passes16_keep_plain in Hin. apply filter_In in Hin. destruct Hin as [Hin _].
    exact (proj1 (simple_in l) H n Hin).
  - unfold plain in Ep. apply negb_false_iff in Ep. unfold is_on, is_off in Ep. destruct (i_kind n); try discriminate; reflexivity.
Qed.

Lemma passes16_tpos : forall p l, tpos p l -> tpos p (passes16 l).
Proof.
  intros p l H. unfold tpos in *. rewrite Forall_forall in *. intros n Hn Ht.
  assert (Ep : plain n = true) by (unfold plain, is_on, is_off, is_text in *; destruct (i_kind n); try discriminate; reflexivity).
  assert (Hin : In n (filter plain (passes16 l))) by (apply filter_In; split; assumption).
  rewrite passes16_keep_plain in Hin. apply filter_In in Hin. destruct Hin as [Hin _]. exact (H n Hin Ht).
Qed.

Lemma passes16_render : forall l, simple l -> render false (passes16 l) = render false l.
Proof.
  intros l H. unfold passes16.
  set (l3 := skip_redundant (skip_empty_text (skip_initial_off l false)) None).
  assert (S3 : simple l3).
  { apply simple_in. intros n Hn. destruct (plain n) eqn:Ep.
    - assert (Hin : In n (filter plain l3)) by (apply filter_In; split; assumption).
      unfold l3 in Hin. rewrite sr_plain in Hin. unfold skip_empty_text in Hin.
      rewrite filter_comm, sio_plain in Hin. apply filter_In in Hin. destruct Hin as [Hin _].
      apply filter_In in Hin. destruct Hin as [Hin _]. exact (proj1 (simple_in l) H n Hin).
    - unfold plain in Ep. apply negb_false_iff in Ep. unfold is_on, is_off in Ep. destruct (i_kind n); try discriminate; reflexivity. }
  rewrite (cbr_simple l3 None S3).
  assert (C5 : chk false (ensure_final_closes l3) = true).
  { rewrite <- (cbr_simple l3 None S3). rewrite ensure_final_closes_eq.
    apply (final_chk _ None). apply (close_chkr _ None). apply (skip_redundant_alt _ None). }
  rewrite (proj1 (rof_render _) false (proj1 (remove_on_off_chk _) false C5)).
  rewrite (proj1 (roo_render _) false C5).
  rewrite ensure_final_closes_eq, render_app.
  assert (E : forall b, render b (match final_on_pos l3 None with Some p => [mkI IItalOff [] p] | None => [] end) = []).
  { intros b. destruct (final_on_pos l3 None); reflexivity. }
  rewrite E, app_nil_r. unfold l3. rewrite (sr_render _ None). cbn [st_on]. rewrite set_render. apply sio_render.
Qed.

(* pass 7 only removes blanks at the end *)
Definition blanks (sp : list (Z * bool)) : Prop := forallb (fun x => is_space (fst x)) sp = true.

Lemma lstrip_split : forall f l, exists sp, l = sp ++ lstrip_by f l /\ forallb f sp = true.
Proof.
  intros f. induction l as [|c t [sp [E F]]]; [exists []; split; reflexivity|].
  cbn [lstrip_by]. destruct (f c) eqn:Ec.
  - exists (c :: sp). split; [cbn [app]; rewrite <- E; reflexivity|cbn [forallb]; rewrite Ec; exact F].
  - exists []. split; reflexivity.
Qed.

Lemma rstrip_split : forall s, exists sp, s = rstrip s ++ sp /\ forallb is_space sp = true.
Proof.
  intros s. unfold rstrip, rstrip_by. destruct (lstrip_split is_space (rev s)) as [sp [E F]].
  exists (rev sp). split.
  - rewrite <- rev_app_distr, <- E, rev_involutive. reflexivity.
  - apply forallb_forall. intros x Hx. apply in_rev in Hx. exact (proj1 (forallb_forall _ _) F x Hx).
Qed.

Lemma blanks_tag : forall b sp, forallb is_space sp = true -> blanks (tag b sp).
Proof.
  intros b. induction sp as [|c t IH]; intros H; [reflexivity|]. cbn [forallb] in H. apply andb_true_iff in H.
  destruct H as [H1 H2]. unfold blanks, tag in *. cbn [map forallb fst]. rewrite H1. exact (IH H2).
Qed.

(* in a list without break / reposition nodes, "the next plain node is a separator" means that only italics nodes
   follow: nothing more is shown *)
Lemma npis_render_nil : forall l, simple l -> next_plain_is_sep l = true ->
  forall b, render b l = [] /\ render b (strip_line_ends l) = [].
Proof.
  induction l as [|n t IH]; intros H Hs b; [split; reflexivity|].
  apply simple_cons in H. destruct H as [Hk H]. rewrite sle_cons2.
  destruct n as [k x q]; destruct k; try discriminate Hk;
    cbn [next_plain_is_sep is_on is_off is_break is_repos is_text i_kind orb andb] in Hs |- *; try discriminate Hs;
    cbn [render i_kind]; apply (IH H Hs).
Qed.

Lemma sle_render : forall l b, simple l -> exists sp, render b l = render b (strip_line_ends l) ++ sp /\ blanks sp.
Proof.
  induction l as [|n t IH]; intros b H; [exists []; split; reflexivity|].
  apply simple_cons in H. destruct H as [Hk H]. rewrite sle_cons2.
  destruct n as [k x q]; destruct k; try discriminate Hk; cbn [is_text i_kind andb].
  - destruct (next_plain_is_sep t) eqn:Es; cbn [render i_kind i_text rstrip_node].
    + destruct (npis_render_nil t H Es b) as [E1 E2]. rewrite E1, E2, !app_nil_r.
      destruct (rstrip_split x) as [sp [E F]]. exists (tag b sp). split; [|exact (blanks_tag b sp F)].
      rewrite E at 1. apply tag_app.
    + destruct (IH b H) as [sp [E F]]. exists sp. split; [rewrite E, app_assoc; reflexivity|exact F].
  - cbn [render i_kind]. exact (IH true H).
  - cbn [render i_kind]. exact (IH false H).
Qed.

Lemma sle_simple : forall l, simple l -> simple (strip_line_ends l).
Proof. intros l H. unfold simple. rewrite strip_line_ends_kinds. exact H. Qed.

Lemma sle_tpos : forall p l, tpos p l -> tpos p (strip_line_ends l).
Proof.
  intros p. induction l as [|n t IH]; intros H; [constructor|]. inversion H as [|? ? Hn Ht]; subst.
  assert (Hr : is_text (rstrip_node n) = true -> i_pos (rstrip_node n) = p) by exact Hn.
  rewrite sle_cons2. constructor; [|exact (IH Ht)]. destruct (is_text n && next_plain_is_sep t); assumption.
Qed.

Lemma format_render : forall p l, simple l -> tpos p l ->
  simple (format_italics l) /\ tpos p (format_italics l) /\
  exists sp, render false l = render false (format_italics l) ++ sp /\ blanks sp.
Proof.
  intros p l H Hp. rewrite format_italics_is. split; [|split].
  - apply sle_simple, passes16_simple, H.
  - apply sle_tpos, passes16_tpos, Hp.
  - rewrite <- (passes16_render l H). apply sle_render, passes16_simple, H.
Qed.

(* ---- 3. the oracle's line comparison ---------------------------------------------------------------------------------- *)
Lemma match_cells_app : forall a o1 b o2, match_cells a o1 = true -> match_cells b o2 = true ->
  match_cells (a ++ b) (o1 ++ o2) = true.
Proof.
  induction a as [|c a IH]; intros o1 b o2 H1 H2.
  - destruct o1; [exact H2|discriminate H1].
  - destruct c as [ch it|]; cbn [app match_cells] in *.
    + destruct o1 as [|[c' it'] o1']; [discriminate H1|]. cbn [app]. apply andb_true_iff in H1. destruct H1 as [H1 H3].
      rewrite H1. cbn [andb]. exact (IH _ _ _ H3 H2).
    + apply orb_true_iff in H1. destruct H1 as [H1|H1].
      * rewrite (IH _ _ _ H1 H2). reflexivity.
      * destruct o1 as [|[c' it'] o1']; [discriminate H1|]. apply andb_true_iff in H1. destruct H1 as [H1 H3].
        cbn [app]. rewrite H1, (IH _ _ _ H3 H2). cbn [andb]. apply orb_true_r.
Qed.

Lemma match_len : forall a o, match_cells a o = true -> (length o <= length a)%nat.
Proof.
  induction a as [|c a IH]; intros o H.
  - destruct o; [cbn; lia|discriminate H].
  - destruct c as [ch it|]; cbn [match_cells] in H.
    + destruct o as [|[c' it'] o']; [cbn; lia|]. apply andb_true_iff in H. destruct H as [_ H]. specialize (IH _ H). cbn [length]. lia.
    + apply orb_true_iff in H. destruct H as [H|H].
      * specialize (IH _ H). cbn [length]. lia.
      * destruct o as [|[c' it'] o']; [discriminate H|]. apply andb_true_iff in H. destruct H as [_ H].
        specialize (IH _ H). cbn [length]. lia.
Qed.

Lemma match_nil_vis : forall cs, match_cells cs [] = true -> existsb cell_vis cs = false.
Proof.
  induction cs as [|c cs IH]; intros H; [reflexivity|]. destruct c as [ch it|]; cbn [match_cells] in H; [discriminate H|].
  rewrite orb_false_r in H. cbn [existsb cell_vis orb]. exact (IH H).
Qed.

Lemma match_rstrip_nil : forall cs, match_cells (rstrip_cells cs) [] = true -> rstrip_cells cs = [].
Proof.
  induction cs as [|c cs IH]; intros H; [reflexivity|]. cbn [rstrip_cells] in *.
  destruct (rstrip_cells cs) as [|x t] eqn:E.
  - destruct c as [ch it|]; cbn [cell_blank] in *; [|reflexivity]. destruct (is_space ch); [reflexivity|discriminate H].
  - destruct c as [ch it|]; cbn [match_cells] in H; [discriminate H|]. rewrite orb_false_r in H. discriminate (IH H).
Qed.

(* trailing blanks are ignored on both sides *)
Lemma match_rstrip : forall cs o, match_cells cs o = true -> match_cells (rstrip_cells cs) (rstrip_obs o) = true.
Proof.
  induction cs as [|c cs IH]; intros o H.
  - destruct o; [reflexivity|discriminate H].
  - destruct c as [ch it|]; cbn [match_cells] in H.
    + destruct o as [|[c' it'] o']; [discriminate H|]. apply andb_true_iff in H. destruct H as [H1 H2].
      specialize (IH _ H2). apply andb_true_iff in H1. destruct H1 as [H0 H1]. apply Z.eqb_eq in H0. subst c'.
      cbn [rstrip_cells rstrip_obs fst cell_blank].
      destruct (rstrip_cells cs) as [|x t] eqn:E; destruct (rstrip_obs o') as [|y u] eqn:F.
      * destruct (is_space ch) eqn:Es; [reflexivity|]. cbn [match_cells]. rewrite Z.eqb_refl, Es. cbn [orb andb] in *.
        rewrite H1. reflexivity.
      * discriminate IH.
      * rewrite <- E in IH. apply match_rstrip_nil in IH. congruence.
      * cbn [match_cells]. rewrite Z.eqb_refl, H1. exact IH.
    + cbn [rstrip_cells cell_blank]. apply orb_true_iff in H. destruct H as [H|H].
      * specialize (IH _ H). destruct (rstrip_cells cs) as [|x t] eqn:E; [exact IH|].
        change (match_cells (x :: t) (rstrip_obs o) || match rstrip_obs o with
                 | (c', _) :: o' => is_space c' && match_cells (x :: t) o' | [] => false end = true).
        rewrite IH. reflexivity.
      * destruct o as [|[c' it'] o']; [discriminate H|]. apply andb_true_iff in H. destruct H as [Hs H].
        specialize (IH _ H). cbn [rstrip_obs fst]. rewrite Hs.
        destruct (rstrip_cells cs) as [|x t] eqn:E; destruct (rstrip_obs o') as [|y u] eqn:F.
        -- reflexivity.
        -- discriminate IH.
        -- change (match_cells (x :: t) [] || false = true). rewrite IH. reflexivity.
        -- change (match_cells (x :: t) ((c', it') :: y :: u) || (is_space c' && match_cells (x :: t) (y :: u)) = true).
           rewrite Hs, IH. apply orb_true_r.
Qed.

Lemma rstrip_obs_blanks : forall y, blanks y -> rstrip_obs y = [].
Proof.
  induction y as [|a y IH]; intros H; [reflexivity|]. unfold blanks in *. cbn [forallb] in H. apply andb_true_iff in H.
  destruct H as [H1 H2]. cbn [rstrip_obs]. rewrite (IH H2), H1. reflexivity.
Qed.

Lemma rstrip_obs_app_blanks : forall x y, blanks y -> rstrip_obs (x ++ y) = rstrip_obs x.
Proof.
  induction x as [|a x IH]; intros y H; [exact (rstrip_obs_blanks y H)|]. cbn [app rstrip_obs]. rewrite (IH y H). reflexivity.
Qed.

(* ---- 4. from the node list to the observed caption ----------------------------------------------------------------------- *)
Definition cn1 (n : inode) : list cnode :=
  match i_kind n with
  | IText => if nonempty (i_text n) then [CText (i_text n) (i_pos n)] else []
  | IBreak => [CBreak (i_pos n)]
  | IItalOn => [CStyle true (i_pos n)]
  | IItalOff => [CStyle false (i_pos n)]
  | IRepos => []
  end.
Definition cn (l : list inode) : list cnode := flat_map cn1 l.
(* the address of the last non-empty text node *)
Fixpoint lay (l : list inode) (o : option pos) : option pos :=
  match l with
  | [] => o
  | n :: t => lay t (if is_text n && nonempty (i_text n) then Some (i_pos n) else o)
  end.

Lemma build_simple : forall l s e done cur, simple l ->
  build_captions l s e done cur = done ++ [mkPre (pc_start cur) (pc_end cur) (pc_nodes cur ++ cn l) (lay l (pc_layout cur))].
Proof.
  induction l as [|n t IH]; intros s e done cur H.
  - cbn [build_captions cn flat_map lay]. rewrite app_nil_r. destruct cur; reflexivity.
  - apply simple_cons in H. destruct H as [Hk H].
    destruct n as [k x q]; destruct k; try discriminate Hk; cbn [build_captions i_kind i_text i_pos].
    + destruct x as [|c x']; cbn [nonempty]; rewrite (IH _ _ _ _ H).
      * reflexivity.
      * cbn [pc_start pc_end pc_nodes pc_layout cn flat_map cn1 i_kind i_text i_pos nonempty lay is_text andb app].
        rewrite <- app_assoc. reflexivity.
    + rewrite (IH _ _ _ _ H). unfold add_node.
      cbn [pc_start pc_end pc_nodes pc_layout cn flat_map cn1 i_kind i_pos lay is_text andb app]. rewrite <- app_assoc. reflexivity.
    + rewrite (IH _ _ _ _ H). unfold add_node.
      cbn [pc_start pc_end pc_nodes pc_layout cn flat_map cn1 i_kind i_pos lay is_text andb app]. rewrite <- app_assoc. reflexivity.
Qed.

Lemma obs_render : forall l cur it, simple l -> obs_lines (map onode_of (cn l)) cur it = [cur ++ render it l].
Proof.
  induction l as [|n t IH]; intros cur it H.
  - cbn. rewrite app_nil_r. reflexivity.
  - apply simple_cons in H. destruct H as [Hk H].
    destruct n as [k x q]; destruct k; try discriminate Hk; unfold cn in *; cbn [flat_map cn1 i_kind i_text i_pos render].
    + destruct x as [|c x']; cbn [nonempty app map onode_of obs_lines tag]; rewrite (IH _ _ H).
      * reflexivity.
      * rewrite <- app_assoc. reflexivity.
    + cbn [app map onode_of obs_lines]. exact (IH _ _ H).
    + cbn [app map onode_of obs_lines]. exact (IH _ _ H).
Qed.

Lemma fst_tag : forall b s, map fst (tag b s) = s.
Proof. intros b s. unfold tag. rewrite map_map. cbn [fst]. apply map_id. Qed.

Lemma cap_text_render : forall l b, simple l -> concat (map node_text (cn l)) = map fst (render b l).
Proof.
  induction l as [|n t IH]; intros b H; [reflexivity|]. apply simple_cons in H. destruct H as [Hk H].
  destruct n as [k x q]; destruct k; try discriminate Hk; unfold cn in *; cbn [flat_map cn1 i_kind i_text i_pos render].
  - rewrite (map_app fst), fst_tag.
    destruct x as [|c x']; cbn [nonempty app map node_text concat]; rewrite (IH b H); reflexivity.
  - cbn [app map node_text concat]. exact (IH true H).
  - cbn [app map node_text concat]. exact (IH false H).
Qed.

Lemma lay_some : forall p l, tpos p l -> lay l (Some p) = Some p.
Proof.
  intros p. induction l as [|n t IH]; intros H; [reflexivity|]. inversion H as [|? ? Hn Ht]; subst. cbn [lay].
  destruct (is_text n) eqn:E; cbn [andb]; [|exact (IH Ht)]. destruct (nonempty (i_text n)); [rewrite (Hn eq_refl)|]; exact (IH Ht).
Qed.

Lemma lay_none : forall p l b, tpos p l -> render b l <> [] -> lay l None = Some p.
Proof.
  intros p. induction l as [|n t IH]; intros b H Hr; [exfalso; apply Hr; reflexivity|]. inversion H as [|? ? Hn Ht]; subst. cbn [lay].
  destruct n as [k x q]; destruct k; cbn [is_text i_kind andb render i_text i_pos] in *; try exact (IH _ Ht Hr).
  destruct x as [|c x']; cbn [nonempty].
  - exact (IH _ Ht Hr).
  - rewrite (Hn eq_refl). exact (lay_some p t Ht).
Qed.

Lemma cchk_balanced : forall l on, cchk on l = balanced (map onode_of l) on.
Proof.
  induction l as [|n t IH]; intros on; [reflexivity|].
  destruct n as [s q|q|[|] q]; cbn [cchk map onode_of balanced]; rewrite ?IH; reflexivity.
Qed.

Lemma render_cn : forall l b, render b l <> [] -> cn l <> [].
Proof.
  induction l as [|n t IH]; intros b H; [exfalso; apply H; reflexivity|].
  destruct n as [k x q]; destruct k; unfold cn in *; cbn [flat_map cn1 i_kind i_text render] in *; try discriminate.
  - destruct x as [|c x']; cbn [nonempty]; [exact (IH _ H)|discriminate].
  - exact (IH _ H).
Qed.

Lemma render_not_empty : forall l b s, render b l <> [] -> cr_is_empty (mkCr l s) = false.
Proof.
  intros l b s H. unfold cr_is_empty. cbn [cr_nodes]. apply negb_false_iff. revert b H.
  induction l as [|n t IH]; intros b H; [exfalso; apply H; reflexivity|].
  destruct n as [k x q]; destruct k; cbn [existsb i_text render i_kind] in *;
    try (destruct x; cbn [nonempty orb]; [exact (IH _ H)|reflexivity]).
Qed.

(* ---- 5. the decoder's steps on the buffer, seen through render ------------------------------------------------------ *)
Definition is_son (s : istyle) : bool := match s with SOn => true | _ => false end.

(* the buffer (nodes, sty) shows rend; ital is the italics state at its end, and the style flag agrees with it *)
Definition Rep (p : pos) (nodes : list inode) (sty : istyle) (rend : list (Z * bool)) (ital : bool) : Prop :=
  simple nodes /\ tpos p nodes /\ render false nodes = rend /\ fin false nodes = ital /\ is_son sty = ital.

Lemma map_last_snoc : forall A (f : A -> A) l x, map_last f (l ++ [x]) = l ++ [f x].
Proof.
  intros A f. induction l as [|a l IH]; intros x; [reflexivity|]. destruct l as [|b l']; [reflexivity|].
  change (a :: map_last f ((b :: l') ++ [x]) = a :: (b :: l') ++ [f x]). rewrite IH. reflexivity.
Qed.

Lemma add_chars_rep : forall p dflt nodes sty rend ital s, Rep p nodes sty rend ital ->
  exists nodes', add_chars (mkTk [p] None false dflt) (mkCr nodes sty) s = (mkTk [p] None false dflt, mkCr nodes' sty)
                 /\ Rep p nodes' sty (rend ++ tag ital s) ital.
Proof.
  intros p dflt nodes sty rend ital s (Hs & Hp & Hr & Hf & Hy).
  unfold add_chars. cbn [current_position tk_pos cr_nodes cr_style break_required tk_break tk_repos negb].
  destruct nodes as [|a0 t0].
  - exists [mkI IText s p]. split; [reflexivity|]. cbn [render fin] in Hr, Hf. subst rend ital.
    repeat split; try assumption.
    + constructor; [intros _; reflexivity|constructor].
    + cbn [render i_kind i_text app]. apply app_nil_r.
  - destruct (exists_last (l := a0 :: t0) ltac:(discriminate)) as (l & n & E). rewrite E in *. clear E a0 t0.
    rewrite last_some_app. apply simple_app in Hs. destruct Hs as [Hs1 Hs2]. apply tpos_app in Hp. destruct Hp as [Hp1 Hp2].
    rewrite render_app in Hr. rewrite fin_app in Hf. apply simple_cons in Hs2. destruct Hs2 as [Hk _].
    inversion Hp2 as [|? ? Hn _]; subst.
    destruct n as [k x q]; destruct k; try discriminate Hk; cbn [is_text i_kind andb].
    + exists (l ++ [mkI IText (x ++ s) q]). split; [rewrite map_last_snoc; reflexivity|].
      cbn [render fin i_kind i_text] in *. repeat split.
      * apply simple_app. split; [exact Hs1|reflexivity].
      * apply tpos_app. split; [exact Hp1|]. constructor; [intros _; exact (Hn eq_refl)|constructor].
      * rewrite render_app. cbn [render i_kind i_text]. rewrite !app_nil_r, tag_app, app_assoc. reflexivity.
      * rewrite fin_app. reflexivity.
      * exact Hy.
    + exists ((l ++ [mkI IItalOn x q]) ++ [mkI IText s p]). split; [rewrite map_last_snoc; reflexivity|].
      cbn [render fin i_kind i_text] in *. rewrite app_nil_r. repeat split.
      * apply simple_app. split; [apply simple_app; split; [exact Hs1|reflexivity]|reflexivity].
      * apply tpos_app. split; [apply tpos_app; split; assumption|]. constructor; [intros _; reflexivity|constructor].
      * rewrite render_app, render_app, fin_app. cbn [render fin i_kind i_text]. rewrite !app_nil_r. reflexivity.
      * rewrite fin_app, fin_app. reflexivity.
      * exact Hy.
    + exists ((l ++ [mkI IItalOff x q]) ++ [mkI IText s p]). split; [rewrite map_last_snoc; reflexivity|].
      cbn [render fin i_kind i_text] in *. rewrite app_nil_r. repeat split.
      * apply simple_app. split; [apply simple_app; split; [exact Hs1|reflexivity]|reflexivity].
      * apply tpos_app. split; [apply tpos_app; split; assumption|]. constructor; [intros _; reflexivity|constructor].
      * rewrite render_app, render_app, fin_app. cbn [render fin i_kind i_text]. rewrite !app_nil_r. reflexivity.
      * rewrite fin_app, fin_app. reflexivity.
      * exact Hy.
Qed.

(* the last text node with text, and the nodes after it *)
Definition quiet (l : list inode) : Prop := forallb (fun n => negb (is_text n && nonempty (i_text n))) l = true.

Lemma prev_rev_cases : forall r bs,
  (quiet r /\ prev_text_rev r bs = None /\ forall f, upd_prev_text_rev f r = r) \/
  (exists r2 n r1, r = r2 ++ n :: r1 /\ quiet r2 /\ is_text n = true /\ i_text n <> [] /\
     prev_text_rev r bs = Some (i_text n, bs || existsb is_break r2) /\
     forall f, upd_prev_text_rev f r = r2 ++ mkI (i_kind n) (f (i_text n)) (i_pos n) :: r1).
Proof.
  induction r as [|n t IH]; intros bs; [left; repeat split|].
  cbn [prev_text_rev upd_prev_text_rev]. destruct (is_text n && nonempty (i_text n)) eqn:E.
  - right. exists [], n, t. apply andb_true_iff in E. destruct E as [E1 E2]. cbn [app existsb]. rewrite orb_false_r.
    repeat split; try assumption; try reflexivity. intros X. rewrite X in E2. discriminate.
  - destruct (IH (bs || is_break n)) as [(Q & P & U)|(r2 & m & r1 & -> & Q & T & N & P & U)].
    + left. repeat split; [unfold quiet; cbn [forallb]; rewrite E; exact Q|exact P|intros f; rewrite U; reflexivity].
    + right. exists (n :: r2), m, r1. repeat split; try assumption.
      * unfold quiet. cbn [forallb]. rewrite E. exact Q.
      * rewrite P. cbn [existsb]. rewrite orb_assoc. reflexivity.
      * intros f. rewrite U. reflexivity.
Qed.

Lemma forallb_rev : forall A (f : A -> bool) l, forallb f l = true -> forallb f (rev l) = true.
Proof. intros A f l H. apply forallb_forall. intros x Hx. apply in_rev in Hx. exact (proj1 (forallb_forall _ _) H x Hx). Qed.

Lemma simple_no_break : forall l, simple l -> existsb is_break l = false.
Proof.
  induction l as [|n t IH]; intros H; [reflexivity|]. apply simple_cons in H. destruct H as [Hk H]. cbn [existsb].
  rewrite (IH H). unfold is_break. destruct (i_kind n); try discriminate; reflexivity.
Qed.

Lemma prev_cases : forall nodes, simple nodes ->
  (quiet nodes /\ prev_text nodes = None /\ forall f, upd_prev_text f nodes = nodes) \/
  (exists l1 n l2, nodes = l1 ++ n :: l2 /\ quiet l2 /\ is_text n = true /\ i_text n <> [] /\
     prev_text nodes = Some (i_text n, false) /\
     forall f, upd_prev_text f nodes = l1 ++ mkI IText (f (i_text n)) (i_pos n) :: l2).
Proof.
  intros nodes H. unfold prev_text, upd_prev_text.
  destruct (prev_rev_cases (rev nodes) false) as [(Q & P & U)|(r2 & n & r1 & E & Q & T & N & P & U)].
  - left. repeat split; [|exact P|intros f; rewrite U; apply rev_involutive].
    rewrite <- (rev_involutive nodes). exact (forallb_rev _ _ _ Q).
  - right. exists (rev r1), n, (rev r2).
    assert (En : nodes = rev r1 ++ n :: rev r2).
    { rewrite <- (rev_involutive nodes), E, rev_app_distr. cbn [rev]. rewrite <- app_assoc. reflexivity. }
    assert (Hb : existsb is_break r2 = false).
    { apply simple_no_break. rewrite En in H. apply simple_app in H. destruct H as [_ H]. apply simple_cons in H.
      destruct H as [_ H]. apply simple_in. intros x Hx. apply in_rev in Hx. exact (proj1 (simple_in _) H x Hx). }
    assert (Hk : i_kind n = IText) by (unfold is_text in T; destruct (i_kind n); try discriminate; reflexivity).
    repeat split; try assumption.
    + exact (forallb_rev _ _ _ Q).
    + rewrite P, Hb. reflexivity.
    + intros f. rewrite U, rev_app_distr. cbn [rev]. rewrite <- app_assoc, Hk. reflexivity.
Qed.

Lemma quiet_render : forall l b, quiet l -> render b l = [].
Proof.
  induction l as [|n t IH]; intros b H; [reflexivity|]. unfold quiet in *. cbn [forallb] in H. apply andb_true_iff in H.
  destruct H as [H1 H2]. destruct n as [k x q]; destruct k; cbn [render i_kind i_text is_text andb negb] in *; try exact (IH _ H2).
  destruct x; [exact (IH _ H2)|discriminate H1].
Qed.

(* Rep after the text of that node is replaced *)
Lemma prev_rep : forall p nodes sty rend ital, Rep p nodes sty rend ital ->
  (rend = [] /\ prev_text nodes = None) \/
  (exists txt bb R0, prev_text nodes = Some (txt, false) /\ txt <> [] /\ rend = R0 ++ [(last_char txt, bb)] /\
     Rep p (upd_prev_text drop_last nodes) sty R0 ital /\
     Rep p (upd_prev_text (fun s => s ++ [32]) nodes) sty (rend ++ [(32, bb)]) ital).
Proof.
  intros p nodes sty rend ital (Hs & Hp & Hr & Hf & Hy).
  destruct (prev_cases nodes Hs) as [(Q & P & U)|(l1 & n & l2 & E & Q & T & N & P & U)].
  - left. split; [|exact P]. rewrite <- Hr. exact (quiet_render _ _ Q).
  - right. subst nodes. set (bb := fin false l1).
    assert (Hk : i_kind n = IText) by (unfold is_text in T; destruct (i_kind n); try discriminate; reflexivity).
    apply simple_app in Hs. destruct Hs as [Hs1 Hs2]. apply simple_cons in Hs2. destruct Hs2 as [_ Hs2].
    apply tpos_app in Hp. destruct Hp as [Hp1 Hp2]. inversion Hp2 as [|? ? Hn Hp3]; subst.
    assert (G : forall txt', Rep p (l1 ++ mkI IText txt' (i_pos n) :: l2) sty (render false l1 ++ tag bb txt') (fin false (l1 ++ n :: l2))).
    { intros txt'. repeat split.
      - apply simple_app. split; [exact Hs1|]. apply simple_cons. split; [reflexivity|exact Hs2].
      - apply tpos_app. split; [exact Hp1|]. constructor; [intros _; exact (Hn T)|exact Hp3].
      - rewrite render_app. cbn [render i_kind i_text]. fold bb. rewrite (quiet_render _ _ Q), app_nil_r. reflexivity.
      - rewrite !fin_app. cbn [fin i_kind]. rewrite Hk. reflexivity.
      - exact Hy. }
    assert (Er : render false (l1 ++ n :: l2) = render false l1 ++ tag bb (i_text n)).
    { rewrite render_app. cbn [render]. rewrite Hk. fold bb. rewrite (quiet_render _ _ Q), app_nil_r. reflexivity. }
    exists (i_text n), bb, (render false l1 ++ tag bb (removelast (i_text n))).
    assert (Et : render false (l1 ++ n :: l2) = (render false l1 ++ tag bb (removelast (i_text n))) ++ [(last_char (i_text n), bb)]).
    { rewrite Er. rewrite (app_removelast_last 0 N) at 1. rewrite tag_app, app_assoc. reflexivity. }
    split; [exact P|]. split; [exact N|]. split; [exact Et|]. split.
    + rewrite U. exact (G _).
    + rewrite U. rewrite Er, <- app_assoc. change [(32, bb)] with (tag bb [32]). rewrite <- tag_app. exact (G _).
Qed.

Lemma hb_bs_rep : forall p nodes sty rend ital, Rep p nodes sty rend ital ->
  exists nodes', handle_backspace w_bs (mkCr nodes sty) = mkCr nodes' sty /\ Rep p nodes' sty (removelast rend) ital.
Proof.
  intros p nodes sty rend ital H. unfold handle_backspace. cbn [cr_nodes cr_style].
  destruct (prev_rep p nodes sty rend ital H) as [[-> P]|(txt & bb & R0 & P & N & -> & G & _)]; rewrite P.
  - exists nodes. split; [reflexivity|exact H].
  - rewrite Z.eqb_refl, orb_true_r. exists (upd_prev_text drop_last nodes). split; [reflexivity|]. rewrite removelast_last. exact G.
Qed.

Lemma hb_ext_rep : forall p nodes sty o c b ital w x, Rep p nodes sty (o ++ [(c, b)]) ital ->
  extended_of w = Some x -> is_extended_value c = false ->
  exists nodes', handle_backspace w (mkCr nodes sty) = mkCr nodes' sty /\ Rep p nodes' sty o ital.
Proof.
  intros p nodes sty o c b ital w x H He Hc. unfold handle_backspace. cbn [cr_nodes cr_style].
  destruct (prev_rep p nodes sty _ ital H) as [[E P]|(txt & bb & R0 & P & N & E & G & _)].
  - destruct o; discriminate E.
  - apply app_inj_tail in E. destruct E as [<- E]. injection E as E1 E2. rewrite P, He, <- E1, Hc. cbn [andb negb orb].
    exists (upd_prev_text drop_last nodes). split; [reflexivity|exact G].
Qed.

(* a mid-row code: the style step, then the spacing step *)
Definition stylestep (cur : pos) (c : creator) (it : bool) : creator :=
  if it then match cr_style c with SOn => c | _ => mkCr (cr_nodes c ++ [mkI IItalOn [] cur]) SOn end
  else match cr_style c with SOn => mkCr (cr_nodes c ++ [mkI IItalOff [] cur]) SOff | _ => c end.

Definition spacing (tk : tracker) (c : creator) (np : bool) : tracker * creator :=
  match prev_text (cr_nodes c) with
  | Some (txt, brk) =>
      if true && negb brk && negb (is_space (last_char txt)) && negb false && negb np
      then match cr_style c with
           | SOff => add_chars tk c [32]
           | _ => (tk, mkCr (upd_prev_text (fun s => s ++ [32]) (cr_nodes c)) (cr_style c))
           end
      else (tk, c)
  | None => (tk, c)
  end.

Definition next_punct (n : option Z) : bool := match n with Some nw => is_punct_hi (hi nw) | None => false end.

Lemma interp_mid : forall tk c w n it, break_required tk = false -> tab_of w = None -> pac_pos w = None -> (w =? w_bs) = false ->
  memz w scc_background_color_codes = false -> memz w scc_style_setting_commands = true ->
  memz w scc_italics_commands = it -> memz w scc_mid_row_codes = true ->
  interpret_command tk c w n = (let '(t, c') := spacing tk (stylestep (current_position tk) c it) (next_punct n) in (t, c', None)).
Proof.
  intros tk c w n it Hbr Ht Hp Hbs Hbg Hst Hit Hmid. unfold interpret_command, update_positioning. cbv zeta.
  rewrite Ht, Hp, Hbs, Hbg, Hst, Hit, Hmid. cbv beta iota. rewrite Hbr.
  destruct c as [nodes sty]. destruct it, sty; reflexivity.
Qed.

Lemma stylestep_rep : forall p cur nodes sty rend ital it, Rep p nodes sty rend ital ->
  exists nodes1 sty1, stylestep cur (mkCr nodes sty) it = mkCr nodes1 sty1 /\ Rep p nodes1 sty1 rend it.
Proof.
  intros p cur nodes sty rend ital it (Hs & Hp & Hr & Hf & Hy). unfold stylestep. cbn [cr_style cr_nodes].
  assert (On : Rep p (nodes ++ [mkI IItalOn [] cur]) SOn rend true).
  { repeat split.
    - apply simple_app. split; [exact Hs|reflexivity].
    - apply tpos_app. split; [exact Hp|]. constructor; [intros X; discriminate X|constructor].
    - rewrite render_app. cbn [render i_kind]. rewrite app_nil_r. exact Hr.
    - rewrite fin_app. reflexivity. }
  assert (Off : Rep p (nodes ++ [mkI IItalOff [] cur]) SOff rend false).
  { repeat split.
    - apply simple_app. split; [exact Hs|reflexivity].
    - apply tpos_app. split; [exact Hp|]. constructor; [intros X; discriminate X|constructor].
    - rewrite render_app. cbn [render i_kind]. rewrite app_nil_r. exact Hr.
    - rewrite fin_app. reflexivity. }
  destruct it, sty; cbn [is_son] in Hy; subst ital;
    first [eexists _, _; split; [reflexivity|exact On] | eexists _, _; split; [reflexivity|exact Off]
          | eexists _, _; split; [reflexivity|repeat split; first [assumption|reflexivity|symmetry; assumption]]].
Qed.

Lemma spacing_rep : forall p dflt nodes sty rend ital np, Rep p nodes sty rend ital ->
  exists nodes' rend', spacing (mkTk [p] None false dflt) (mkCr nodes sty) np = (mkTk [p] None false dflt, mkCr nodes' sty) /\
                       Rep p nodes' sty rend' ital /\ (rend' = rend \/ exists b, rend' = rend ++ [(32, b)]).
Proof.
  intros p dflt nodes sty rend ital np H. unfold spacing. cbn [cr_nodes cr_style].
  destruct (prev_rep p nodes sty rend ital H) as [[E P]|(txt & bb & R0 & P & N & E & _ & G)]; rewrite P.
  - exists nodes, rend. split; [reflexivity|split; [exact H|left; reflexivity]].
  - destruct (true && negb false && negb (is_space (last_char txt)) && negb false && negb np).
    + assert (U : exists nodes' rend', (mkTk [p] None false dflt, mkCr (upd_prev_text (fun s => s ++ [32]) nodes) sty)
                    = (mkTk [p] None false dflt, mkCr nodes' sty) /\ Rep p nodes' sty rend' ital /\
                    (rend' = rend \/ exists b, rend' = rend ++ [(32, b)])).
      { eexists _, _. split; [reflexivity|split; [exact G|right; exists bb; reflexivity]]. }
      destruct sty; try exact U.
      destruct (add_chars_rep p dflt nodes SOff rend ital [32] H) as (nodes' & Ea & Ga).
      exists nodes', (rend ++ tag ital [32]). split; [exact Ea|split; [exact Ga|right; exists ital; reflexivity]].
    + exists nodes, rend. split; [reflexivity|split; [exact H|left; reflexivity]].
Qed.

(* ---- 6. the mid-row code words (computed over the complete tables) ------------------------------------------------------- *)
Lemma mid_facts : forall a, 0 <= a < 16 ->
  tab_of (midrow_word a) = None /\ pac_pos (midrow_word a) = None /\ (midrow_word a =? w_bs) = false /\
  memz (midrow_word a) scc_background_color_codes = false /\ is_cue_start (midrow_word a) = false /\
  memz (midrow_word a) ctl_words = false /\ (midrow_word a =? w_eoc) = false /\ hi (midrow_word a) = 145.
Proof.
  intros a Ha.
  pose proof (map_eq_pointwise
    (fun a => (tab_of (midrow_word a), pac_pos (midrow_word a), midrow_word a =? w_bs,
               memz (midrow_word a) scc_background_color_codes, is_cue_start (midrow_word a),
               memz (midrow_word a) ctl_words, midrow_word a =? w_eoc, hi (midrow_word a)))
    (fun _ => (None, None, false, false, false, false, false, 145)) (zrange 0 16) ltac:(vmr) a ltac:(inrange)) as E.
  split_pairs E. repeat split; assumption.
Qed.

Lemma midrow_word_inj : forall a b, 0 <= a < 16 -> 0 <= b < 16 -> midrow_word a = midrow_word b -> a = b.
Proof.
  intros a b Ha Hb E.
  pose proof (map_eq_pointwise2 (fun i j => (midrow_word i =? midrow_word j)) (fun i j => (i =? j)) (zrange 0 16) (zrange 0 16)
                ltac:(vmr) a b ltac:(inrange) ltac:(inrange)) as F.
  cbv beta in F. rewrite E, Z.eqb_refl in F. symmetry in F. apply Z.eqb_eq in F. exact F.
Qed.

Lemma special_ne_mid : forall i a, 0 <= i < 16 -> 0 <= a < 16 -> special_word i <> midrow_word a.
Proof.
  intros i a Hi Ha E.
  pose proof (map_eq_pointwise2 (fun i j => (special_word i =? midrow_word j)) (fun _ _ => false) (zrange 0 16) (zrange 0 16)
                ltac:(vmr) i a ltac:(inrange) ltac:(inrange)) as F.
  cbv beta in F. rewrite E, Z.eqb_refl in F. discriminate F.
Qed.

Lemma mid_class : forall a, 0 <= a < 16 -> cclass (midrow_word a) /\ ~ In (midrow_word a) ctl_words.
Proof.
  intros a Ha. destruct (mid_facts a Ha) as (Ht & Hp & _ & _ & Hq & Hn & He & _).
  destruct (midrow_classes a Ha) as (_ & Hc & _).
  assert (Hpac : is_pac (midrow_word a) = false) by (unfold is_pac; rewrite Hp; reflexivity).
  split; [split; try assumption; left; rewrite Hc; reflexivity|].
  intros X. apply (memz_In _ ctl_words) in X. congruence.
Qed.

(* ---- 7. single words on the pop-on buffer ----------------------------------------------------------------------------------- *)
Definition ksemr (k : kind) (ital : bool) (rend : list (Z * bool)) : list (Z * bool) :=
  match k with
  | KSp ch => rend ++ [(ch, ital)]
  | KExt ch => removelast rend ++ [(ch, ital)]
  | KBs => removelast rend
  end.
Definition kprer (k : kind) (rend : list (Z * bool)) : Prop :=
  match k with KExt _ => exists o c b, rend = o ++ [(c, b)] /\ is_extended_value c = false | _ => True end.

Section RunC.
Variables (st : stash) (p dflt : pos) (d : bool) (pa ro : creator) (q : option (creator * Q)) (tm : Q) (tc : str) (off : Q).

Definition GSc (l : lastcmd) (nodes : list inode) (sty : istyle) (fr : Z) : rstate :=
  mkR st (mkTk [p] None false dflt) l d (mkCr nodes sty) pa ro MPop q tm tc fr off None.

Lemma tw_char_c : forall l nodes sty rend ital fr w a b n,
  char_of (hi w) = Some a -> char_of (lo w) = Some b -> Rep p nodes sty rend ital ->
  exists nodes', translate_word (GSc l nodes sty fr) w n = GSc (LWord w) nodes' sty (fr + 1) /\
                 Rep p nodes' sty (rend ++ tag ital (a ++ b)) ital.
Proof.
  intros l nodes sty rend ital fr w a b n Ha Hb Hh.
  destruct (add_chars_rep p dflt nodes sty rend ital (a ++ b) Hh) as (nodes' & Ea & Ga).
  exists nodes'. split; [|exact Ga]. unfold GSc.
  destruct (char_word_class w a b Ha Hb) as (Hc & Hp & Hs & He & Ht & Hq & Hbs).
  unfold translate_word. proj_red. unfold handle_double. proj_red. rewrite Hc, Hp, Hs, He, Ht, Hq.
  proj_red. rewrite ?andb_false_r. proj_red. rewrite Ha, Hb. unfold add_to_buf. proj_red.
  rewrite Ea. proj_red. reflexivity.
Qed.

(* the first copy of a special / extended character or a backspace *)
Lemma tw_code_c : forall w k l nodes sty rend ital fr, kind_ok w k -> kprer k rend -> last_is l w = false ->
  Rep p nodes sty rend ital ->
  exists nodes', (forall n, translate_word (GSc l nodes sty fr) w n = GSc (LWord w) nodes' sty (fr + 1)) /\
                 Rep p nodes' sty (ksemr k ital rend) ital.
Proof.
  intros w k l nodes sty rend ital fr Hk Hp Hl Hh. destruct (kind_class w k Hk) as [Cp Ct Cq _ _].
  destruct k as [ch|ch|]; cbn [kind_ok kprer ksemr] in *.
  - assert (X : special_of w <> None) by congruence.
    destruct classes_disjoint as (D & _). destruct (D w X) as (Hc & _).
    destruct (add_chars_rep p dflt nodes sty rend ital [ch] Hh) as (nodes' & Ea & Ga).
    exists nodes'. split; [|exact Ga].
    intros n. unfold GSc, translate_word. proj_red. rewrite (hd_code _ _ _ _ _ _ _ _ _ _ _ _ _ Cp Ct Cq Hl). proj_red.
    rewrite Hc, Cp. proj_red. rewrite Hk. unfold add_to_buf. proj_red. rewrite Ea. proj_red. reflexivity.
  - assert (X : extended_of w <> None) by congruence.
    destruct classes_disjoint as (D1 & D & _). destruct (D w X) as (Hc & _).
    assert (Hs : special_of w = None).
    { destruct (special_of w) eqn:E; [|reflexivity]. exfalso.
      assert (Y : special_of w <> None) by congruence. destruct (D1 w Y) as (_ & _ & Z0 & _). congruence. }
    destruct Hp as (o & c & b & -> & Hlast).
    destruct (hb_ext_rep p nodes sty o c b ital w [ch] Hh Hk Hlast) as (nodes1 & E1 & G1).
    destruct (add_chars_rep p dflt nodes1 sty o ital [ch] G1) as (nodes' & Ea & Ga).
    exists nodes'. split; [|rewrite removelast_last; exact Ga].
    intros n. unfold GSc, translate_word. proj_red. rewrite (hd_code _ _ _ _ _ _ _ _ _ _ _ _ _ Cp Ct Cq Hl). proj_red.
    rewrite Hc, Cp. proj_red. rewrite Hs, Hk. unfold add_to_buf. proj_red. rewrite E1, Ea. proj_red. reflexivity.
  - subst w. destruct bs_facts as (Hc & _ & _ & _ & _ & _ & _ & _ & _ & _ & Hn).
    destruct (hb_bs_rep p nodes sty rend ital Hh) as (nodes' & E & Hh').
    exists nodes'. split; [|exact Hh'].
    intros n. unfold GSc, translate_word. proj_red. rewrite (hd_code _ _ _ _ _ _ _ _ _ _ _ _ _ Cp Ct Cq Hl). proj_red.
    rewrite Hc. proj_red. rewrite (translate_command_other _ w_bs n Hn). unfold do_interpret. proj_red.
    rewrite interp_bs, E. proj_red. reflexivity.
Qed.

Lemma dt_code_c : forall w k l nodes sty fr, kind_ok w k -> d = true -> doubled_type (GSc l nodes sty fr) w = true.
Proof.
  intros w k l nodes sty fr Hk _. unfold doubled_type.
  destruct k as [ch|ch|]; cbn [kind_ok] in Hk.
  - rewrite Hk. rewrite orb_true_r. reflexivity.
  - rewrite Hk. apply orb_true_r.
  - subst w. vm_compute. reflexivity.
Qed.

Lemma d_cases_c : d = true \/ d = false.
Proof. case d; auto. Qed.

(* a code word of the three kinds, sent once or twice *)
Lemma code_run_c : forall w k pc l nodes sty rend ital fr nx, kind_ok w k -> kprer k rend -> pc <> Some w ->
  Rep p nodes sty rend ital -> linv l pc ->
  exists l' nodes', tws (GSc l nodes sty fr) (ctl d w) nx = GSc l' nodes' sty (fr + Z.of_nat (length (ctl d w))) /\
                    Rep p nodes' sty (ksemr k ital rend) ital /\ linv l' (Some w).
Proof.
  intros w k pc l nodes sty rend ital fr nx Hk Hp Hpc Hh [Hg _]. pose proof (kind_class w k Hk) as C.
  assert (Hl : last_is l w = false) by (apply Hg; [exact (cc_code w C)|exact (cc_pac w C)|exact Hpc]).
  destruct (tw_code_c w k l nodes sty rend ital fr Hk Hp Hl Hh) as (nodes' & E1 & Hh').
  destruct d_cases_c as [Ed|Ed]; rewrite Ed; cbn [ctl tws length].
  - exists LNone, nodes'. split; [|split; [exact Hh'|apply linv_none]].
    rewrite E1. rewrite tw_second; [|reflexivity|reflexivity|exact (dt_code_c w k _ _ _ _ Hk Ed)].
    rewrite (cc_cue w C). unfold GSc, bump, set_dbl, set_clock. proj_red. f_equal. lia.
  - exists (LWord w), nodes'. split; [|split; [exact Hh'|exact (linv_code w C)]].
    rewrite E1. reflexivity.
Qed.

(* a mid-row code that is executed: the style may change, one blank may be added *)
Lemma mid_exec : forall a l nodes sty rend ital fr n, 0 <= a < 16 -> last_is l (midrow_word a) = false ->
  Rep p nodes sty rend ital ->
  exists nodes' sty' rend', translate_word (GSc l nodes sty fr) (midrow_word a) n = GSc (LWord (midrow_word a)) nodes' sty' (fr + 1) /\
    Rep p nodes' sty' rend' (is_italic_attr a) /\ (rend' = rend \/ exists b, rend' = rend ++ [(32, b)]).
Proof.
  intros a l nodes sty rend ital fr n Ha Hl Hh. set (w := midrow_word a) in *.
  destruct (mid_facts a Ha) as (Ht & Hp & Hbs & Hbg & Hq & _ & _ & _). fold w in Ht, Hp, Hbs, Hbg, Hq.
  destruct (midrow_classes a Ha) as (Hmid & Hc & Hit & Hst). fold w in Hmid, Hc, Hit, Hst.
  destruct (mid_class a Ha) as [C Hn]. fold w in C, Hn.
  destruct (stylestep_rep p p nodes sty rend ital (is_italic_attr a) Hh) as (nodes1 & sty1 & E1 & G1).
  destruct (spacing_rep p dflt nodes1 sty1 rend (is_italic_attr a) (next_punct n) G1) as (nodes' & rend' & E2 & G2 & Hr).
  exists nodes', sty1, rend'. split; [|split; assumption]. unfold GSc.
  apply (tw_cmd _ _ _ _ _ _ _ _ _ _ _ _ w n (LWord w)).
  - rewrite Hc. reflexivity.
  - exact Hn.
  - exact (hd_code _ _ _ _ _ _ _ _ _ _ _ _ _ (cc_pac w C) Ht Hq Hl).
  - rewrite (interp_mid (mkTk [p] None false dflt) (mkCr nodes sty) w n (is_italic_attr a) eq_refl Ht Hp Hbs Hbg Hst Hit Hmid).
    cbn [current_position tk_pos]. rewrite E1, E2. reflexivity.
Qed.

(* the copy that repeats the remembered word is dropped *)
Lemma mid_skip : forall a nodes sty fr n, 0 <= a < 16 ->
  translate_word (GSc (LWord (midrow_word a)) nodes sty fr) (midrow_word a) n = GSc LNone nodes sty (fr + 1).
Proof.
  intros a nodes sty fr n Ha. destruct (mid_facts a Ha) as (_ & _ & Hbs & _ & Hq & _). destruct (midrow_classes a Ha) as (_ & Hc & _).
  rewrite tw_second; [|reflexivity|reflexivity|].
  - rewrite Hq. reflexivity.
  - unfold doubled_type. rewrite Hc. reflexivity.
Qed.

Lemma mid_run : forall a pc l nodes sty rend ital fr nx, 0 <= a < 16 -> (pc = Some (midrow_word a) -> ital = is_italic_attr a) ->
  Rep p nodes sty rend ital -> linv l pc ->
  exists l' nodes' sty' rend',
    tws (GSc l nodes sty fr) (ctl d (midrow_word a)) nx = GSc l' nodes' sty' (fr + Z.of_nat (length (ctl d (midrow_word a)))) /\
    Rep p nodes' sty' rend' (is_italic_attr a) /\ (rend' = rend \/ exists b, rend' = rend ++ [(32, b)]) /\
    linv l' (Some (midrow_word a)).
Proof.
  intros a pc l nodes sty rend ital fr nx Ha Hpc Hh [Hg _]. set (w := midrow_word a) in *.
  destruct (mid_class a Ha) as [C _]. fold w in C.
  destruct (last_is l w) eqn:Hl.
  - assert (El : l = LWord w).
    { destruct l as [|x|x y]; try discriminate Hl. cbn [last_is] in Hl. apply Z.eqb_eq in Hl. subst x. reflexivity. }
    assert (Ei : ital = is_italic_attr a).
    { apply Hpc. destruct pc as [x|].
      - destruct (Z.eq_dec x w) as [->|Hne]; [reflexivity|]. exfalso.
        assert (F : last_is l w = false) by (apply Hg; [exact (cc_code w C)|exact (cc_pac w C)|congruence]). congruence.
      - exfalso. assert (F : last_is l w = false) by (apply Hg; [exact (cc_code w C)|exact (cc_pac w C)|discriminate]). congruence. }
    subst l ital. destruct d_cases_c as [Ed|Ed]; rewrite Ed; cbn [ctl tws length].
    + unfold w at 1 2. rewrite (mid_skip a nodes sty fr _ Ha). fold w.
      destruct (mid_exec a LNone nodes sty rend _ (fr + 1) nx Ha eq_refl Hh) as (nodes' & sty' & rend' & E & G & Hr). fold w in E.
      exists (LWord w), nodes', sty', rend'. split; [|split; [exact G|split; [exact Hr|exact (linv_code w C)]]].
      rewrite E. f_equal. lia.
    + unfold w at 1 2. rewrite (mid_skip a nodes sty fr _ Ha).
      exists LNone, nodes, sty, rend. split; [reflexivity|split; [exact Hh|split; [left; reflexivity|apply linv_none]]].
  - destruct d_cases_c as [Ed|Ed]; rewrite Ed; cbn [ctl tws length].
    + destruct (mid_exec a l nodes sty rend ital fr (Some w) Ha Hl Hh) as (nodes' & sty' & rend' & E & G & Hr). fold w in E.
      rewrite E. unfold w at 1 2. rewrite (mid_skip a nodes' sty' (fr + 1) _ Ha).
      exists LNone, nodes', sty', rend'. split; [|split; [exact G|split; [exact Hr|apply linv_none]]]. f_equal. lia.
    + destruct (mid_exec a l nodes sty rend ital fr nx Ha Hl Hh) as (nodes' & sty' & rend' & E & G & Hr). fold w in E.
      exists (LWord w), nodes', sty', rend'. split; [exact E|split; [exact G|split; [exact Hr|exact (linv_code w C)]]].
Qed.
End RunC.

(* ---- 8. abstract tokens; the run over the items of a row ------------------------------------------------------------------- *)
Inductive mtok : Type := MCh (b c : Z) | MCode (w : Z) (k : kind) | MMid (a : Z).

Fixpoint mpack (d : bool) (ts : list mtok) (pend : option Z) : list Z :=
  match ts with
  | [] => flush pend
  | MCh b _ :: t => match pend with
                    | None => mpack d t (Some b)
                    | Some b0 => (b0 * 256 + b) :: mpack d t None
                    end
  | MCode w _ :: t => flush pend ++ ctl d w ++ mpack d t None
  | MMid a :: t => flush pend ++ ctl d (midrow_word a) ++ mpack d t None
  end.

(* the cells of the 608 screen, token by token *)
Fixpoint csem (ts : list mtok) (acc : list cell) (ital : bool) : list cell :=
  match ts with
  | [] => acc
  | MCh _ c :: t => csem t (acc ++ [Cell c ital]) ital
  | MCode _ (KSp ch) :: t => csem t (acc ++ [Cell ch ital]) ital
  | MCode _ (KExt ch) :: t => csem t (removelast acc ++ [Cell ch ital]) ital
  | MCode _ KBs :: t => csem t (removelast acc) ital
  | MMid a :: t => csem t (acc ++ [Opt]) (is_italic_attr a)
  end.

(* well-formed token lists. pc: the code word sent last if the last token was a code word; lc: the character the last
   token put on the screen, if it did; ital: the italics state of the screen *)
Fixpoint mok (ts : list mtok) (pc lc : option Z) (ital : bool) : Prop :=
  match ts with
  | [] => True
  | MCh b c :: t => carries b c /\ gcharb c = true /\ mok t None (Some c) ital
  | MCode w k :: t =>
      pc <> Some w /\ kind_ok w k /\
      match k with
      | KSp ch => gcharb ch = true /\ mok t (Some w) (Some ch) ital
      | KExt ch => gcharb ch = true /\ (exists c, lc = Some c /\ is_extended_value c = false) /\ mok t (Some w) (Some ch) ital
      | KBs => lc <> None /\ mok t (Some w) None ital
      end
  | MMid a :: t => 0 <= a < 16 /\ (pc = Some (midrow_word a) -> ital = is_italic_attr a) /\
                   mok t (Some (midrow_word a)) None (is_italic_attr a)
  end.

(* what is shown matches the cells so far (the oracle's own comparison); when the last token put the character c on the
   screen, both sides end with it *)
Definition gch (x : Z * bool) : Prop := gcharb (fst x) = true.
Definition J (lc : option Z) (acc : list cell) (rend : list (Z * bool)) : Prop :=
  match_cells acc rend = true /\ Forall gch rend /\
  match lc with
  | Some c => exists cs0 o0 it, acc = cs0 ++ [Cell c it] /\ rend = o0 ++ [(c, it)] /\ match_cells cs0 o0 = true
  | None => True
  end.

Lemma J_weak : forall lc acc rend, J lc acc rend -> J None acc rend.
Proof. intros lc acc rend (H1 & H2 & _). repeat split; assumption. Qed.

Lemma J_char : forall lc acc rend c it, J lc acc rend -> gcharb c = true -> J (Some c) (acc ++ [Cell c it]) (rend ++ [(c, it)]).
Proof.
  intros lc acc rend c it (H1 & H2 & _) Hc. repeat split.
  - apply match_cells_app; [exact H1|]. cbn [match_cells]. rewrite Z.eqb_refl, eqb_reflx, orb_true_r. reflexivity.
  - apply Forall_app. split; [exact H2|]. constructor; [|constructor]. exact Hc.
  - exists acc, rend, it. repeat split. exact H1.
Qed.

Lemma J_pop : forall c acc rend, J (Some c) acc rend ->
  exists o b, rend = o ++ [(c, b)] /\ J None (removelast acc) o.
Proof.
  intros c acc rend (H1 & H2 & cs0 & o0 & it & -> & -> & H3). exists o0, it. split; [reflexivity|].
  rewrite removelast_last. apply Forall_app in H2. destruct H2 as [H2 _]. repeat split; assumption.
Qed.

Lemma J_mid : forall lc acc rend rend', J lc acc rend -> rend' = rend \/ (exists b, rend' = rend ++ [(32, b)]) ->
  J None (acc ++ [Opt]) rend'.
Proof.
  intros lc acc rend rend' (H1 & H2 & _) [->|[b ->]]; repeat split.
  - rewrite <- (app_nil_r rend). apply match_cells_app; [exact H1|reflexivity].
  - exact H2.
  - apply match_cells_app; [exact H1|reflexivity].
  - apply Forall_app. split; [exact H2|]. constructor; [|constructor]. reflexivity.
Qed.

Section RunD.
Variables (st : stash) (p dflt : pos) (d : bool) (pa ro : creator) (q : option (creator * Q)) (tm : Q) (tc : str) (off : Q).
Notation G := (GSc st p dflt d pa ro q tm tc off).

Definition mgoal (l : lastcmd) (nodes : list inode) (sty : istyle) (fr : Z) (nx : option Z) (ws : list Z) (cells : list cell) : Prop :=
  exists l' nodes' sty' rend' ital',
    tws (G l nodes sty fr) ws nx = G l' nodes' sty' (fr + Z.of_nat (length ws)) /\
    Rep p nodes' sty' rend' ital' /\ J None cells rend' /\ last_is l' w_eoc = false.

Lemma mgoal_step : forall l nodes sty fr nx a rest cells l1 nodes1 sty1,
  tws (G l nodes sty fr) a (nxt rest nx) = G l1 nodes1 sty1 (fr + Z.of_nat (length a)) ->
  mgoal l1 nodes1 sty1 (fr + Z.of_nat (length a)) nx rest cells -> mgoal l nodes sty fr nx (a ++ rest) cells.
Proof.
  intros l nodes sty fr nx a rest cells l1 nodes1 sty1 E (l' & nodes' & sty' & rend' & ital' & E' & Hh & Hj & Hl).
  exists l', nodes', sty', rend', ital'. rewrite tws_app, E, E'. split; [|split; [exact Hh|split; [exact Hj|exact Hl]]].
  f_equal. rewrite app_length. lia.
Qed.

(* one word of characters, then the rest *)
Lemma mgoal_char : forall l nodes sty rend ital fr nx w a b rest cells,
  char_of (hi w) = Some a -> char_of (lo w) = Some b -> Rep p nodes sty rend ital ->
  (forall l1 nodes1 fr1, Rep p nodes1 sty (rend ++ tag ital (a ++ b)) ital -> linv l1 None -> mgoal l1 nodes1 sty fr1 nx rest cells) ->
  mgoal l nodes sty fr nx (w :: rest) cells.
Proof.
  intros l nodes sty rend ital fr nx w a b rest cells Ha Hb Hh K.
  destruct (tw_char_c st p dflt d pa ro q tm tc off l nodes sty rend ital fr w a b (nxt rest nx) Ha Hb Hh) as (nodes' & E & Gn).
  apply (mgoal_step l nodes sty fr nx [w] rest cells (LWord w) nodes' sty).
  - cbn [tws length]. exact E.
  - apply K; [exact Gn|exact (linv_char w a b Ha Hb)].
Qed.

Lemma mtoks_run : forall nx ts,
  (forall acc ital lc pc rend l nodes sty fr, mok ts pc lc ital -> Rep p nodes sty rend ital -> J lc acc rend -> linv l pc ->
     mgoal l nodes sty fr nx (mpack d ts None) (csem ts acc ital)) /\
  (forall b0 c0 acc ital lc rend l nodes sty fr, carries b0 c0 -> gcharb c0 = true -> mok ts None (Some c0) ital ->
     Rep p nodes sty rend ital -> J lc acc rend ->
     mgoal l nodes sty fr nx (mpack d ts (Some b0)) (csem ts (acc ++ [Cell c0 ital]) ital)).
Proof.
  intros nx.
  (* a pending byte is flushed with the filler, then the tokens run without a pending byte *)
  assert (FL : forall ts,
     (forall acc ital lc pc rend l nodes sty fr, mok ts pc lc ital -> Rep p nodes sty rend ital -> J lc acc rend -> linv l pc ->
        mgoal l nodes sty fr nx (mpack d ts None) (csem ts acc ital)) ->
     forall b0 c0 acc ital lc rend l nodes sty fr, carries b0 c0 -> gcharb c0 = true -> mok ts None (Some c0) ital ->
        Rep p nodes sty rend ital -> J lc acc rend ->
        mgoal l nodes sty fr nx ((b0 * 256 + 128) :: mpack d ts None) (csem ts (acc ++ [Cell c0 ital]) ital)).
  { intros ts A1 b0 c0 acc ital lc rend l nodes sty fr [Rg0 Hc0] Hg0 Hok Hh Hj.
    assert (Ha : char_of (hi (b0 * 256 + 128)) = Some [c0]) by (rewrite hi_word by lia; exact Hc0).
    assert (Hl : char_of (lo (b0 * 256 + 128)) = Some []) by (rewrite lo_word by lia; exact char_of_pad).
    apply (mgoal_char l nodes sty rend ital fr nx _ [c0] [] _ _ Ha Hl Hh).
    intros l1 nodes1 fr1 Hh1 Hl1.
    exact (A1 _ ital (Some c0) None _ l1 nodes1 sty fr1 Hok Hh1 (J_char lc acc rend c0 ital Hj Hg0) Hl1). }
  induction ts as [|tk ts [IHa IHb]].
  - assert (A1 : forall acc ital lc pc rend l nodes sty fr, mok [] pc lc ital -> Rep p nodes sty rend ital -> J lc acc rend -> linv l pc ->
                   mgoal l nodes sty fr nx (mpack d [] None) (csem [] acc ital)).
    { intros acc ital lc pc rend l nodes sty fr _ Hh Hj [_ Hl]. exists l, nodes, sty, rend, ital. cbn [mpack flush tws length csem].
      rewrite Z.add_0_r. split; [reflexivity|split; [exact Hh|split; [exact (J_weak _ _ _ Hj)|exact Hl]]]. }
    split; [exact A1|]. exact (FL [] A1).
  - destruct tk as [b c|w k|a].
    + split.
      * intros acc ital lc pc rend l nodes sty fr (Hc & Hg & Hok) Hh Hj _. cbn [mpack csem].
        exact (IHb b c acc ital lc rend l nodes sty fr Hc Hg Hok Hh Hj).
      * intros b0 c0 acc ital lc rend l nodes sty fr [Rg0 Hc0] Hg0 ([Rg Hc] & Hg & Hok) Hh Hj. cbn [mpack csem].
        assert (Ha : char_of (hi (b0 * 256 + b)) = Some [c0]) by (rewrite hi_word by exact Rg; exact Hc0).
        assert (Hl : char_of (lo (b0 * 256 + b)) = Some [c]) by (rewrite lo_word by exact Rg; exact Hc).
        apply (mgoal_char l nodes sty rend ital fr nx _ [c0] [c] _ _ Ha Hl Hh).
        intros l1 nodes1 fr1 Hh1 Hl1.
        apply (IHa _ ital (Some c) None ((rend ++ [(c0, ital)]) ++ [(c, ital)]) l1 nodes1 sty fr1 Hok).
        -- cbn [app tag map] in Hh1. rewrite <- app_assoc. exact Hh1.
        -- apply (J_char (Some c0)); [|exact Hg]. exact (J_char lc acc rend c0 ital Hj Hg0).
        -- exact Hl1.
    + assert (A1 : forall acc ital lc pc rend l nodes sty fr, mok (MCode w k :: ts) pc lc ital -> Rep p nodes sty rend ital ->
                     J lc acc rend -> linv l pc ->
                     mgoal l nodes sty fr nx (mpack d (MCode w k :: ts) None) (csem (MCode w k :: ts) acc ital)).
      { intros acc ital lc pc rend l nodes sty fr (Hpc & Hk & Hrest) Hh Hj Hl. cbn [mpack flush app].
        assert (Hpre : kprer k rend).
        { destruct k as [ch|ch|]; cbn [kprer]; try exact I. destruct Hrest as (_ & (c & -> & Hx) & _).
          destruct (J_pop c acc rend Hj) as (o & b & -> & _). exists o, c, b. split; [reflexivity|exact Hx]. }
        destruct (code_run_c st p dflt d pa ro q tm tc off w k pc l nodes sty rend ital fr (nxt (mpack d ts None) nx) Hk Hpre Hpc Hh Hl)
          as (l1 & nodes1 & E1 & Hh1 & Hl1).
        apply (mgoal_step l nodes sty fr nx (ctl d w) _ _ l1 nodes1 sty E1).
        destruct k as [ch|ch|]; cbn [csem ksemr] in *.
        - destruct Hrest as (Hg & Hok). exact (IHa _ ital (Some ch) (Some w) _ l1 nodes1 sty _ Hok Hh1 (J_char lc acc rend ch ital Hj Hg) Hl1).
        - destruct Hrest as (Hg & (c & -> & Hx) & Hok). destruct (J_pop c acc rend Hj) as (o & b & -> & Hj').
          rewrite removelast_last in Hh1.
          exact (IHa _ ital (Some ch) (Some w) _ l1 nodes1 sty _ Hok Hh1 (J_char None _ o ch ital Hj' Hg) Hl1).
        - destruct Hrest as (Hlc & Hok). destruct lc as [c|]; [|congruence]. destruct (J_pop c acc rend Hj) as (o & b & -> & Hj').
          rewrite removelast_last in Hh1.
          exact (IHa _ ital None (Some w) _ l1 nodes1 sty _ Hok Hh1 Hj' Hl1). }
      split; [exact A1|]. exact (FL (MCode w k :: ts) A1).
    + assert (A1 : forall acc ital lc pc rend l nodes sty fr, mok (MMid a :: ts) pc lc ital -> Rep p nodes sty rend ital ->
                     J lc acc rend -> linv l pc ->
                     mgoal l nodes sty fr nx (mpack d (MMid a :: ts) None) (csem (MMid a :: ts) acc ital)).
      { intros acc ital lc pc rend l nodes sty fr (Ha & Hpc & Hok) Hh Hj Hl. cbn [mpack flush app csem].
        destruct (mid_run st p dflt d pa ro q tm tc off a pc l nodes sty rend ital fr (nxt (mpack d ts None) nx) Ha Hpc Hh Hl)
          as (l1 & nodes1 & sty1 & rend1 & E1 & Hh1 & Hr1 & Hl1).
        apply (mgoal_step l nodes sty fr nx (ctl d (midrow_word a)) _ _ l1 nodes1 sty1 E1).
        exact (IHa _ _ None (Some (midrow_word a)) _ l1 nodes1 sty1 _ Hok Hh1 (J_mid lc acc rend rend1 Hj Hr1) Hl1). }
      split; [exact A1|]. exact (FL (MMid a :: ts) A1).
Qed.
End RunD.

(* ---- 9. the items of a row as tokens ----------------------------------------------------------------------------------------- *)
Definition mtoks_of_item (it : item) : list mtok :=
  match it with
  | Ch c => [MCh (bc c) c]
  | Sp i => [MCode (special_word i) (KSp (nth (Z.to_nat i) special_608 0))]
  | Ext s g i => [MCh (bc s) s; MCode (ext_word g i) (KExt (ext_char g i))]
  | Mid a => [MMid a]
  | Bs => [MCode w_bs KBs]
  end.

Lemma pack_mpack : forall d its pend, pack d (flat_map toks_of_item its) pend = mpack d (flat_map mtoks_of_item its) pend.
Proof.
  intros d. induction its as [|it t IH]; intros pend; [reflexivity|].
  destruct it; cbn [flat_map toks_of_item mtoks_of_item app pack mpack].
  - destruct pend; rewrite IH; reflexivity.
  - rewrite IH. reflexivity.
  - destruct pend; cbn [flush app]; rewrite IH; reflexivity.
  - rewrite IH. reflexivity.
  - rewrite IH. reflexivity.
Qed.

Definition pc_of_c (prev : option item) : option Z :=
  match prev with
  | Some (Sp j) => Some (special_word j)
  | Some (Ext _ g i) => Some (ext_word g i)
  | Some (Mid a) => Some (midrow_word a)
  | Some Bs => Some w_bs
  | _ => None
  end.
Definition prev_inv (prev : option item) (lc : option Z) (ital : bool) : Prop :=
  match prev with
  | Some (Sp j) => 0 <= j < 16 /\ lc <> None
  | Some (Ch _) | Some (Ext _ _ _) => lc <> None
  | Some (Mid a) => 0 <= a < 16 /\ ital = is_italic_attr a
  | _ => True
  end.

Lemma items_ok_mid : forall a t prev, items_ok (Mid a :: t) prev = true -> 0 <= a < 16.
Proof.
  intros a t prev H. cbn [items_ok] in H. apply andb_true_iff in H. destruct H as [H _].
  apply andb_true_iff in H. destruct H as [H _]. apply andb_true_iff in H. destruct H as [H1 H2]. lia.
Qed.

Lemma hi_mid : forall a, 0 <= a < 16 -> hi (midrow_word a) = 145.
Proof. intros a Ha. destruct (mid_facts a Ha) as (_ & _ & _ & _ & _ & _ & _ & H). exact H. Qed.

(* the items of a row, seen as tokens, are well formed and compute the cells of the 608 screen *)
Lemma items_mok : forall its prev acc ital lc, items_ok its prev = true -> prev_inv prev lc ital ->
  mok (flat_map mtoks_of_item its) (pc_of_c prev) lc ital /\
  csem (flat_map mtoks_of_item its) acc ital = row_cells its acc ital.
Proof.
  induction its as [|it t IH]; intros prev acc ital lc Hok Hg; [split; [exact I|reflexivity]|].
  destruct (items_ok_inv it t prev Hok) as [Hok' Hit].
  destruct it as [c|i|s g i|a|]; cbn [flat_map mtoks_of_item app mok csem row_cells].
  - assert (P : prev_inv (Some (Ch c)) (Some c) ital) by (cbn [prev_inv]; discriminate).
    destruct (IH (Some (Ch c)) (acc ++ [Cell c ital]) ital (Some c) Hok' P) as [A B]. cbn [pc_of_c] in A.
    split; [split; [exact (carries_bc c Hit)|split; [exact (gchar_basic c Hit)|exact A]]|exact B].
  - destruct Hit as [Hi' Hne]. set (ch := nth (Z.to_nat i) special_608 0).
    assert (P : prev_inv (Some (Sp i)) (Some ch) ital) by (cbn [prev_inv]; split; [exact Hi'|discriminate]).
    destruct (IH (Some (Sp i)) (acc ++ [Cell ch ital]) ital (Some ch) Hok' P) as [A B]. cbn [pc_of_c] in A.
    split; [|exact B]. cbn [kind_ok]. split; [|split; [exact (special_match_608 i Hi')|split; [exact (gchar_special i Hi')|exact A]]].
    destruct prev as [[c|j|s g j|a|]|]; cbn [pc_of_c prev_inv] in *; try discriminate.
    + intros E. injection E as E. apply (Hne j eq_refl). symmetry. exact (special_word_inj j i (proj1 Hg) Hi' E).
    + apply word_neq_hi. rewrite hi_special. destruct (hi_ext g j) as [->| ->]; discriminate.
    + intros E. injection E as E. exact (special_ne_mid i a Hi' (proj1 Hg) (eq_sym E)).
    + apply word_neq_hi. rewrite hi_special, hi_bs. discriminate.
  - destruct Hit as [Hs Hi'].
    assert (P : prev_inv (Some (Ext s g i)) (Some (ext_char g i)) ital) by (cbn [prev_inv]; discriminate).
    destruct (IH (Some (Ext s g i)) (acc ++ [Cell (ext_char g i) ital]) ital (Some (ext_char g i)) Hok' P) as [A B].
    cbn [pc_of_c] in A. cbn [kind_ok]. rewrite removelast_last.
    split; [|exact B]. split; [exact (carries_bc s Hs)|]. split; [exact (gchar_basic s Hs)|]. split; [discriminate|].
    split; [exact (ext_word_ok g i Hi')|]. split; [exact (gchar_ext g i Hi')|]. split; [|exact A].
    exists s. split; [reflexivity|exact (basic_not_extended s Hs)].
  - pose proof (items_ok_mid a t prev Hok) as Ha.
    assert (P : prev_inv (Some (Mid a)) None (is_italic_attr a)) by (cbn [prev_inv]; split; [exact Ha|reflexivity]).
    destruct (IH (Some (Mid a)) (acc ++ [Opt]) (is_italic_attr a) None Hok' P) as [A B]. cbn [pc_of_c] in A.
    split; [|exact B]. split; [exact Ha|]. split; [|exact A].
    destruct prev as [[c|j|s g j|a'|]|]; cbn [pc_of_c prev_inv] in *; try discriminate.
    + intros E. injection E as E. exfalso. exact (special_ne_mid j a (proj1 Hg) Ha E).
    + intros E. exfalso. revert E. apply word_neq_hi. rewrite (hi_mid a Ha). destruct (hi_ext g j) as [->| ->]; discriminate.
    + intros E. injection E as E. destruct Hg as [Ha' ->]. rewrite (midrow_word_inj a' a Ha' Ha E). reflexivity.
    + intros E. exfalso. revert E. apply word_neq_hi. rewrite (hi_mid a Ha), hi_bs. discriminate.
  - assert (P : prev_inv (Some Bs) None ital) by exact I.
    destruct (IH (Some Bs) (removelast acc) ital None Hok' P) as [A B]. cbn [pc_of_c] in A. cbn [kind_ok].
    split; [|exact B]. split; [|split; [reflexivity|split; [|exact A]]].
    + destruct Hit as [[c ->]|[[j ->]|[s [g [i ->]]]]]; cbn [pc_of_c]; try discriminate.
      * apply word_neq_hi. rewrite hi_special, hi_bs. discriminate.
      * apply word_neq_hi. rewrite hi_bs. destruct (hi_ext g i) as [->| ->]; discriminate.
    + destruct Hit as [[c ->]|[[j ->]|[s [g [i ->]]]]]; cbn [prev_inv] in Hg; [exact Hg|exact (proj2 Hg)|exact Hg].
Qed.

(* ---- 10. the whole load --------------------------------------------------------------------------------------------------- *)
Lemma emit_load_one_c : forall d r,
  emit_load d [r] = (ctl d (ctrl_word 46) ++ ctl d (ctrl_word 32)) ++ pac_unit d r
                    ++ mpack d (flat_map mtoks_of_item (rw_items r)) None ++ ctl d (ctrl_word 47).
Proof. intros d r. unfold emit_load, emit_row. cbn [flat_map]. rewrite pack_mpack, app_nil_r, <- !app_assoc. reflexivity. Qed.

(* the preamble part of stage 2 is stated for rows without mid-row codes: apply it to the row with the same preamble *)
Definition rich_of (r : row) : row := mkRow (rw_row r) (rw_indent r) (rw_tab r) (rw_style r) [Ch 65].

Lemma is_basic_65 : is_basic 65 = true.
Proof. vm_compute. reflexivity. Qed.

Lemma rich_of_ok : forall r, row_ok r = true -> rich_row_any (rich_of r) = true.
Proof.
  intros r H. destruct (row_ok_parts r H) as (Hr & Hm & Ht & _ & Hv & _ & Hn). destruct (row_ok_style r H) as [Hs1 Hs2].
  assert (Hlen : (1 <= length (cells_of r))%nat) by (destruct (cells_of r); [discriminate Hv|cbn [length]; lia]).
  unfold rich_row_any, row_ok, rich_of, cells_of. cbv zeta.
  cbn [rw_row rw_indent rw_tab rw_style rw_items row_cells app items_ok forallb rich_item existsb cell_vis last cell_space length].
  rewrite is_basic_65, Hm.
  replace (1 <=? rw_row r) with true by lia. replace (rw_row r <=? 15) with true by lia.
  replace (0 <=? rw_tab r) with true by lia. replace (rw_tab r <=? 3) with true by lia.
  replace (0 <=? rw_style r) with true by lia. replace (rw_style r <? 18) with true by lia.
  replace ((rw_indent r =? 0) || (rw_style r <=? 1)) with true by lia.
  replace (rw_indent r + rw_tab r + Z.of_nat 1 <=? 32) with true by lia. reflexivity.
Qed.

Lemma rep_init : forall r, Rep (row_pos r) (pre_of r) (sty_of r) [] (rw_ital r).
Proof.
  intros r. unfold pre_of, sty_of. destruct (rw_ital r); repeat split; try reflexivity; try constructor.
  - intros X. discriminate X.
  - constructor.
Qed.

Lemma match_vis_in : forall cs o, match_cells cs o = true -> existsb cell_vis cs = true -> exists x, In x o /\ fst x <> 32.
Proof.
  induction cs as [|c cs IH]; intros o H Hv; [discriminate Hv|]. destruct c as [ch it|]; cbn [match_cells existsb cell_vis] in *.
  - destruct o as [|[c' it'] o']; [discriminate H|]. apply andb_true_iff in H. destruct H as [H1 H2].
    apply andb_true_iff in H1. destruct H1 as [H0 _]. apply Z.eqb_eq in H0. subst c'.
    destruct (ch =? 32) eqn:E; cbn [negb orb] in Hv.
    + destruct (IH _ H2 Hv) as (x & Hx & Hne). exists x. split; [right; exact Hx|exact Hne].
    + exists (ch, it'). split; [left; reflexivity|]. cbn [fst]. apply Z.eqb_neq. exact E.
  - cbn [orb] in Hv. apply orb_true_iff in H. destruct H as [H|H].
    + exact (IH _ H Hv).
    + destruct o as [|[c' it'] o']; [discriminate H|]. apply andb_true_iff in H. destruct H as [_ H].
      destruct (IH _ H Hv) as (x & Hx & Hne). exists x. split; [right; exact Hx|exact Hne].
Qed.

Lemma blanks_in : forall sp x, blanks sp -> In x sp -> is_space (fst x) = true.
Proof. intros sp x H Hx. exact (proj1 (forallb_forall _ _) H x Hx). Qed.

(* the part of what is shown that survives trailing blanks is not empty *)
Lemma shown_nonempty : forall cs rend o sp, J None cs rend -> existsb cell_vis cs = true -> rend = o ++ sp -> blanks sp -> o <> [].
Proof.
  intros cs rend o sp (H1 & H2 & _) Hv -> Hb E. subst o. cbn [app] in *.
  destruct (match_vis_in cs sp H1 Hv) as (x & Hx & Hne). apply Hne.
  rewrite Forall_forall in H2. exact (proj2 (gcharb_parts _ (H2 x Hx)) (blanks_in sp x Hb Hx)).
Qed.

Lemma stage2c_state : forall d r off tc nx t, row_ok r = true ->
  get_time tc (Z.of_nat (length (emit_load d [r])) - (if d then 2 else 1)) off = Ok t ->
  exists l ds nodes sty rend ital,
   tws (start_state off tc) (emit_load d [r]) nx =
     mkR stash0 (mkTk [row_pos r] None false (row_pos r)) l ds creator0 creator0 creator0 MPop
         (Some (mkCr nodes sty, t)) t tc (Z.of_nat (length (emit_load d [r]))) off None
   /\ last_is l w_edm = false /\ Rep (row_pos r) nodes sty rend ital /\ J None (cells_of r) rend.
Proof.
  intros d r off tc nx t H Hg. pose proof (rich_of_ok r H) as Hrich.
  destruct (row_ok_parts r H) as (_ & _ & _ & Hio & Hv & _).
  destruct (items_mok (rw_items r) None [] (rw_ital r) None Hio I) as [Hok Hsem]. cbn [pc_of_c] in Hok. fold (cells_of r) in Hsem.
  rewrite (emit_load_one_c d r) in *.
  set (toks := mpack d (flat_map mtoks_of_item (rw_items r)) None) in *.
  rewrite !app_length, !Nat2Z.inj_add, !ctl_length in *.
  rewrite (tws_app (ctl d (ctrl_word 46) ++ ctl d (ctrl_word 32))), (tws_app (pac_unit d r)), (tws_app toks).
  destruct (prologue_run2 d off tc (nxt (pac_unit d r ++ toks ++ ctl d (ctrl_word 47)) nx)) as (l0 & -> & Hl0).
  destruct (pac_row_facts2 (rich_of r) Hrich) as (_ & _ & _ & C & _).
  change (pac_word (rw_row (rich_of r)) (pac_attr (rich_of r))) with (pac_word (rw_row r) (pac_attr r)) in C.
  assert (Hc0 : last_contains l0 (pac_word (rw_row r) (pac_attr r)) = false).
  { destruct Hl0 as [->| ->]; [reflexivity|]. cbn [last_contains]. apply Z.eqb_neq. intros E. apply (cf_ctl _ C).
    rewrite <- E. unfold ctl_words. cbn [In]. tauto. }
  destruct (pac_unit_run2 (rich_of r) Hrich stash0 d creator0 creator0 None 0%Q tc off d (14, 0) l0 (if d then 4 else 2)
              (nxt (toks ++ ctl d (ctrl_word 47)) nx) Hc0) as (l1 & E1 & Hl1).
  unfold SQ in E1.
  change (pac_unit d (rich_of r)) with (pac_unit d r) in E1. change (pre_of (rich_of r)) with (pre_of r) in E1.
  change (sty_of (rich_of r)) with (sty_of r) in E1. change (row_pos (rich_of r)) with (row_pos r) in E1.
  unfold tracker0. rewrite E1.
  destruct (proj1 (mtoks_run stash0 (row_pos r) (row_pos r) d creator0 creator0 None 0%Q tc off
                     (nxt (ctl d (ctrl_word 47)) nx) (flat_map mtoks_of_item (rw_items r)))
              [] (rw_ital r) None None [] l1 (pre_of r) (sty_of r) ((if d then 4 else 2) + Z.of_nat (length (pac_unit d r)))
              Hok (rep_init r) (conj eq_refl (conj (Forall_nil _) I)) Hl1)
    as (l2 & nodes2 & sty2 & rend2 & ital2 & E2 & Hh2 & Hj2 & Hl2).
  unfold GSc in E2. fold toks in E2. rewrite E2. rewrite Hsem in Hj2.
  set (fr := (if d then 4 else 2) + Z.of_nat (length (pac_unit d r)) + Z.of_nat (length toks)) in *.
  replace ((if d then 2 else 1) + (if d then 2 else 1) + (Z.of_nat (length (pac_unit d r)) +
           (Z.of_nat (length toks) + (if d then 2 else 1))) - (if d then 2 else 1)) with fr in Hg
    by (unfold fr; destruct d; lia).
  assert (Hemp : cr_is_empty (mkCr nodes2 sty2) = false).
  { apply (render_not_empty nodes2 false). destruct Hh2 as (_ & _ & -> & _).
    apply (shown_nonempty (cells_of r) rend2 rend2 [] Hj2 Hv); [symmetry; apply app_nil_r|reflexivity]. }
  destruct (eoc_run_g d stash0 (mkTk [row_pos r] None false (row_pos r)) l2 d _ creator0 creator0 0%Q tc fr off nx t
              Hemp Hl2 Hg) as (l3 & ds3 & E3 & Hl3).
  exists l3, ds3, nodes2, sty2, rend2, ital2. split; [|split; [exact Hl3|split; [exact Hh2|exact Hj2]]].
  rewrite E3. f_equal. unfold fr. generalize (Z.of_nat (length (pac_unit d r))) (Z.of_nat (length toks)).
  clear. intros a b. destruct d; lia.
Qed.

(* ---- 11. the read-level theorem and the oracle -------------------------------------------------------------------------------- *)
Lemma row_no_overflow : forall r rend o sp (k : str), row_ok r = true -> J None (cells_of r) rend -> rend = o ++ sp ->
  offending [(k, map fst o)] = [].
Proof.
  intros r rend o sp k H (H1 & H2 & _) E.
  destruct (row_ok_parts r H) as (_ & Hm & Ht & _ & _ & _ & Hn). apply mem_In in Hm.
  assert (H0 : 0 <= rw_indent r) by (unfold indents_608 in Hm; cbn [In] in Hm; lia).
  pose proof (match_len _ _ H1) as Hlen. rewrite E, app_length in Hlen.
  unfold offending. cbn [map snd concat]. unfold spec_lines, split_ch. rewrite split_no_sep.
  - cbn [rev app filter]. unfold spec_long. rewrite map_length.
    replace (32 <? Z.of_nat (length o)) with false by lia. reflexivity.
  - intros c Hc Ec. apply in_map_iff in Hc. destruct Hc as (x & <- & Hx). rewrite Forall_forall in H2.
    assert (Hin : In x rend) by (rewrite E; apply in_or_app; left; exact Hx).
    pose proof (proj1 (gcharb_parts _ (H2 x Hin))). lia.
Qed.

(* what `read` returns: one caption built from the formatted node list F, which shows the cells of the row *)
Lemma read_core : forall d r off tc tc2 t1 t2, row_ok r = true ->
  get_time tc (Z.of_nat (length (emit_load d [r])) - (if d then 2 else 1)) off = Ok t1 ->
  get_time tc2 0 off = Ok t2 -> Qeq_bool t2 0 = false -> is_flash (mkPre t1 t2 [] None) = false ->
  exists F, read off [(tc, emit_load d [r]); (tc2, emit_clear d)] = ROk [mkPre t1 t2 (cn F) (Some (row_pos r))] /\
            simple F /\ cchk false (cn F) = true /\
            match_line (cells_of r) (render false F) = true.
Proof.
  intros d r off tc tc2 t1 t2 H Hg1 Hg2 Hz Hfl.
  destruct (stage2c_state d r off tc None t1 H Hg1) as (l & ds & nodes & sty & rend & ital & E & Hl & Hh & Hj).
  destruct (row_ok_parts r H) as (_ & _ & _ & _ & Hv & _).
  destruct Hh as (Hs & Hp & Hr & _).
  destruct (format_render (row_pos r) nodes Hs Hp) as (SF & PF & sp & Er & Bl). rewrite Hr in Er.
  set (F := format_italics nodes) in *.
  pose proof (shown_nonempty _ _ _ _ Hj Hv Er Bl) as Hne.
  exists F.
  assert (Hbuild : build_captions F t1 t2 [] (mkPre t1 t2 [] None) = [mkPre t1 t2 (cn F) (Some (row_pos r))]).
  { rewrite (build_simple F t1 t2 [] _ SF). cbn [app pc_start pc_end pc_nodes pc_layout].
    rewrite (lay_none (row_pos r) F false PF Hne). reflexivity. }
  split; [|split; [exact SF|split]].
  - destruct (edm_run d stash0 (mkTk [row_pos r] None false (row_pos r)) l ds creator0 creator0
                (mkCr nodes sty) t1 t1 tc2 0 off t2 Hl Hg2) as (l' & ds' & fr' & E2).
    assert (S1 : translate_line (rstate0 off) (tc, emit_load d [r]) = translate_words (start_state off tc) (emit_load d [r]))
      by reflexivity.
    rewrite tws_words, E in S1.
    unfold read, run_lines. cbn [fold_left]. rewrite S1. unfold translate_line, set_clock.
    cbn [r_err fst snd r_stash r_tk r_last r_dstart r_pop r_paint r_roll r_active r_queue r_time r_tc r_frames r_offset].
    unfold emit_clear. rewrite E2. cbn [r_err flush_implicit r_active r_queue r_stash].
    unfold create_and_store.
    rewrite (render_not_empty nodes false sty) by (rewrite Hr, Er; intros X; apply app_eq_nil in X; destruct X; congruence).
    cbn [cr_nodes]. fold F. rewrite Hbuild, stash_extend0.
    assert (Hcn : cn F <> []) by exact (render_cn F false Hne).
    assert (Hhas : has_nodes (mkPre t1 t2 (cn F) (Some (row_pos r))) = true).
    { unfold has_nodes. cbn [pc_nodes]. destruct (cn F); [congruence|reflexivity]. }
    cbn [filter]. rewrite Hhas. cbn [length].
    unfold finish_read. cbn [st_caps map]. unfold to_lcap, cap_text. cbn [pc_start pc_nodes].
    rewrite (cap_text_render F false SF).
    match goal with |- context [length_check ?x] => assert (Hlc : length_check x = None) end.
    { apply length_check_none_iff. exact (row_no_overflow r rend (render false F) sp _ H Hj Er). }
    rewrite Hlc. cbn [existsb]. change (is_flash (mkPre t1 t2 (cn F) (Some (row_pos r))))
      with (is_flash (mkPre t1 t2 [] None)). rewrite Hfl. cbn [orb].
    rewrite fix_last_ended; [reflexivity|]. intros c [<-|[]]. exact Hz.
  - pose proof (captions_balanced nodes t1 t2) as B. fold F in B. rewrite Hbuild in B.
    inversion B as [|? ? B1 _]; subst. exact B1.
  - unfold match_line. rewrite <- (rstrip_obs_app_blanks (render false F) sp Bl), <- Er.
    destruct Hj as (Hm & _). exact (match_rstrip _ _ Hm).
Qed.

Lemma pos_times_nonzero : forall t1 t2 : Q, (0 < t1)%Q -> (t1 < t2)%Q -> Qeq_bool t2 0 = false.
Proof.
  intros t1 t2 H1 H2. destruct (Qeq_bool t2 0) eqn:E; [|reflexivity]. apply Qeq_bool_iff in E. exfalso.
  rewrite E in H2. exact (Qlt_irrefl 0 (Qlt_trans _ _ _ H1 H2)).
Qed.

(* STAGE 2c: `read` returns one caption with the load's times, placed at the row's cursor address *)
Theorem popon_stage2c_reads : forall d r off tc tc2 t1 t2, row_ok r = true ->
  get_time tc (Z.of_nat (length (emit_load d [r])) - (if d then 2 else 1)) off = Ok t1 ->
  get_time tc2 0 off = Ok t2 -> (0 < t1)%Q -> (t1 < t2)%Q -> is_flash (mkPre t1 t2 [] None) = false ->
  exists c, read off [(tc, emit_load d [r]); (tc2, emit_clear d)] = ROk [c] /\
            pc_start c = t1 /\ pc_end c = t2 /\ pc_layout c = Some (row_pos r).
Proof.
  intros d r off tc tc2 t1 t2 H Hg1 Hg2 H0 Hlt Hfl.
  destruct (read_core d r off tc tc2 t1 t2 H Hg1 Hg2 (pos_times_nonzero t1 t2 H0 Hlt) Hfl) as (F & E & _).
  exists (mkPre t1 t2 (cn F) (Some (row_pos r))). repeat split. exact E.
Qed.

(* ... and that caption, observed as the harness observes it, is the CEA-608 screen of the row *)
Theorem popon_stage2c_ok : forall d r off tc tc2 t1 t2 caps, row_ok r = true ->
  get_time tc (Z.of_nat (length (emit_load d [r])) - (if d then 2 else 1)) off = Ok t1 ->
  get_time tc2 0 off = Ok t2 -> (0 < t1)%Q -> (t1 < t2)%Q -> is_flash (mkPre t1 t2 [] None) = false ->
  read off [(tc, emit_load d [r]); (tc2, emit_clear d)] = ROk caps ->
  ok_c05 (mkProg d [[r]]) (Ok (map observe caps)) = true.
Proof.
  intros d r off tc tc2 t1 t2 caps H Hg1 Hg2 H0 Hlt Hfl Hread.
  destruct (read_core d r off tc tc2 t1 t2 H Hg1 Hg2 (pos_times_nonzero t1 t2 H0 Hlt) Hfl) as (F & E & SF & Hbal & Hm).
  rewrite E in Hread. injection Hread as <-.
  destruct (row_ok_parts r H) as (Hr & Hin & Hk & _ & Hv & _ & Hn). apply mem_In in Hin.
  assert (Hlen : (1 <= length (cells_of r))%nat) by (destruct (cells_of r); [discriminate Hv|cbn [length]; lia]).
  assert (Hi0 : 0 <= rw_indent r) by (unfold indents_608 in Hin; cbn [In] in Hin; lia).
  assert (Hg : In (row_pos r) grid_positions) by (apply grid_positions_complete; [exact Hr|lia]).
  destruct (layout_linear_exhaustive _ Hg) as (Lx & Ly & _).
  assert (Hcap : cap_ok (mkE (rw_row r) (rw_indent r + rw_tab r) [cells_of r])
                        (observe (mkPre t1 t2 (cn F) (Some (row_pos r)))) = true).
  { unfold cap_ok, observe. cbn [e_lines e_row e_col o_nodes o_xy o_start o_end pc_start pc_end pc_nodes pc_layout option_map].
    rewrite (obs_render F [] false SF), <- cchk_balanced, Hbal. cbn [app match_lines]. rewrite Hm.
    unfold row_pos in *. cbn [fst snd] in Lx, Ly.
    destruct (layout_of_pos (rw_row r, rw_indent r + rw_tab r)) as [x y].
    destruct (layout_608 (rw_row r) (rw_indent r + rw_tab r)) as [ex ey]. cbn [fst snd] in Lx, Ly.
    rewrite (q_near9_eq _ _ Lx), (q_near9_eq _ _ Ly).
    destruct (Qle_bool t2 t1) eqn:Eq; [|reflexivity].
    apply Qle_bool_iff in Eq. exfalso. exact (Qlt_not_le _ _ Hlt Eq). }
  unfold ok_c05. cbn [map pg_loads loads_ok expected_load group_rows load_ok]. rewrite Hcap.
  cbn [andb load_ok o_start o_end observe loads_ok]. reflexivity.
Qed.

(* both together, in the form of stage 3 *)
Corollary popon_stage2c : forall d r off tc tc2 t1 t2, mid_row r = true ->
  get_time tc (Z.of_nat (length (emit_load d [r])) - (if d then 2 else 1)) off = Ok t1 ->
  get_time tc2 0 off = Ok t2 -> (0 < t1)%Q -> (t1 < t2)%Q -> is_flash (mkPre t1 t2 [] None) = false ->
  exists c, read off [(tc, emit_load d [r]); (tc2, emit_clear d)] = ROk [c] /\
            pc_start c = t1 /\ pc_end c = t2 /\ pc_layout c = Some (row_pos r) /\
            ok_c05 (mkProg d [[r]]) (Ok [observe c]) = true.
Proof.
  intros d r off tc tc2 t1 t2 H Hg1 Hg2 H0 Hlt Hfl. unfold mid_row in H.
  destruct (popon_stage2c_reads d r off tc tc2 t1 t2 H Hg1 Hg2 H0 Hlt Hfl) as (c & E & Hs & He & Hy).
  exists c. repeat split; try assumption.
  exact (popon_stage2c_ok d r off tc tc2 t1 t2 [c] H Hg1 Hg2 H0 Hlt Hfl E).
Qed.

(* ---- 12. the stages (A) and (B) of the plan are instances; non-vacuity ------------------------------------------------------ *)
(* (B) plain white preamble, basic characters and any number of mid-row codes;
   (A) exactly one mid-row code between two non-empty runs of basic characters *)
Definition chmid_item (it : item) : bool := match it with Ch _ | Mid _ => true | _ => false end.
Definition midB_row (r : row) : bool := row_ok r && (rw_style r =? 0) && forallb chmid_item (rw_items r).
Definition midA_row (r : row) : bool :=
  midB_row r &&
  match filter (fun it => negb (basic_item it)) (rw_items r) with
  | [Mid _] => basic_item (hd Bs (rw_items r)) && basic_item (last (rw_items r) Bs)
  | _ => false
  end.

Lemma midA_midB : forall r, midA_row r = true -> midB_row r = true.
Proof. intros r H. unfold midA_row in H. apply andb_true_iff in H. exact (proj1 H). Qed.

Lemma midB_mid : forall r, midB_row r = true -> mid_row r = true.
Proof.
  intros r H. unfold midB_row in H. apply andb_true_iff in H. destruct H as [H _]. apply andb_true_iff in H. exact (proj1 H).
Qed.

Corollary popon_stage2c_B : forall d r off tc tc2 t1 t2 caps, midB_row r = true ->
  get_time tc (Z.of_nat (length (emit_load d [r])) - (if d then 2 else 1)) off = Ok t1 ->
  get_time tc2 0 off = Ok t2 -> (0 < t1)%Q -> (t1 < t2)%Q -> is_flash (mkPre t1 t2 [] None) = false ->
  read off [(tc, emit_load d [r]); (tc2, emit_clear d)] = ROk caps ->
  ok_c05 (mkProg d [[r]]) (Ok (map observe caps)) = true.
Proof. intros d r off tc tc2 t1 t2 caps H. exact (popon_stage2c_ok d r off tc tc2 t1 t2 caps (midB_mid r H)). Qed.

Corollary popon_stage2c_A : forall d r off tc tc2 t1 t2 caps, midA_row r = true ->
  get_time tc (Z.of_nat (length (emit_load d [r])) - (if d then 2 else 1)) off = Ok t1 ->
  get_time tc2 0 off = Ok t2 -> (0 < t1)%Q -> (t1 < t2)%Q -> is_flash (mkPre t1 t2 [] None) = false ->
  read off [(tc, emit_load d [r]); (tc2, emit_clear d)] = ROk caps ->
  ok_c05 (mkProg d [[r]]) (Ok (map observe caps)) = true.
Proof. intros d r off tc tc2 t1 t2 caps H. exact (popon_stage2c_B d r off tc tc2 t1 t2 caps (midA_midB r H)). Qed.

(* the domains are inhabited: every mid-row attribute between two words; several codes; all item kinds with a coloured
   underlined indented preamble and with an italic preamble, mid-row codes first, last, repeated and after a backspace *)
Definition wit_row : row :=
  mkRow 3 4 2 1 [Ch 97; Sp 3; Mid 14; Ext 101 1 5; Bs; Ch 98; Mid 15; Sp 1; Mid 2; Ch 99; Mid 14; Mid 14].

Example stage2c_domains_inhabited :
  forallb (fun a => midA_row (mkRow 1 0 0 0 [Ch 97; Ch 98; Mid a; Ch 99; Ch 46])) (zrange 0 16) = true /\
  midB_row (mkRow 15 24 2 0 [Mid 1; Ch 97; Mid 14; Mid 0; Ch 98; Mid 15]) = true /\
  mid_row wit_row = true /\
  mid_row (mkRow 9 0 0 15 [Mid 0; Ch 97; Mid 14; Mid 0; Mid 14; Ch 98; Bs; Mid 3]) = true /\
  cells_of wit_row = [Cell 97 false; Cell 191 false; Opt; Cell 98 true; Opt; Cell 176 true; Opt; Cell 99 false; Opt; Opt].
Proof. vm_compute. repeat split. Qed.

(* the hypotheses of the theorems are satisfiable together: the theorem applied to a concrete doubled stream *)
Example stage2c_instance : exists c,
  read 0 [(lit "00:00:01;00", emit_load true [wit_row]); (lit "00:00:05;00", emit_clear true)] = ROk [c] /\
  pc_layout c = Some (3, 6) /\ ok_c05 (mkProg true [[wit_row]]) (Ok [observe c]) = true.
Proof.
  destruct (popon_stage2c true wit_row 0 (lit "00:00:01;00") (lit "00:00:05;00") 2000000 5000000) as (c & E & _ & _ & Hy & Hok);
    try (vm_compute; reflexivity).
  exists c. split; [exact E|split; [exact Hy|exact Hok]].
Qed.

(* OPEN (not covered here): loads of several rows with mid-row codes, several loads.
   No in-domain row was found that fails the oracle in the model: besides the theorem, all 1929 in-domain rows of up to four
   items over {a, blank, '.', a special, an extended character, Mid 14, Mid 0, backspace} pass by computation (single codes
   with a plain preamble; doubled codes with an italic preamble). *)
