(* The pop-on refinement theorems at the level of the SCC TEXT: tokeniser (model/SccTokenise.v) + line-layout invariance
   (proofs/SccLineLayoutFacts.v) + popon_refines_608 / popon_times (proofs/SccPoponStage9.v) composed. *)
From Coq Require Import List ZArith QArith Bool.
From PV Require Import lib.Sx lib.Str lib.Result model.SccTime model.SccStash model.SccDecoder model.SccPopon model.SccTokenise.
From PV Require Import spec.Spec608 spec.SpecScc05 spec.SpecSccTime.
From PV Require Import proofs.SccPoponFacts proofs.SccPoponStage3 proofs.SccPoponStage4 proofs.SccPoponStage6 proofs.SccPoponStage7
                       proofs.SccPoponStage8 proofs.SccPoponStage9 proofs.SccLineLayoutFacts proofs.SccTokeniseFacts.
Import ListNotations.
Open Scope Z_scope.

(* the canonical text (lower- or upper-case hex, LF / CRLF / CR line ends) of ANY line layout ls' of the word sequence of a
   well-formed pop-on program, with the same instant per word, is read - tokeniser included - into captions that satisfy
   the CEA-608 screen oracle *)
Theorem popon_refines_608_text : forall d off segs evs spans ls' up eol,
  forallb pseg_ok8 segs = true -> res_map (pseg_event d off) segs = Ok evs -> positive evs -> after_show None evs ->
  expected_with join_threshold evs = Ok spans ->
  relayout off (map (pseg_line d) segs) ls' -> Forall wf_sline ls' -> good_eol eol ->
  exists caps, read off (tokenise (render_gen up eol ls')) = ROk caps /\
               ok_c05 (mkProg d (ploads_of segs)) (Ok (map observe caps)) = true /\
               dom_c05 (mkProg d (ploads_of segs)) = true.
Proof.
  intros d off segs evs spans ls' up eol H1 H2 H3 H4 H5 HL HW HE.
  rewrite (read_tokenise_render_gen off up eol ls' HE HW).
  exact (popon_refines_608_layout d off segs evs spans ls' H1 H2 H3 H4 H5 HL).
Qed.

Theorem popon_times_text : forall d off segs evs ls' up eol,
  forallb pseg_ok8 segs = true -> res_map (pseg_event d off) segs = Ok evs -> positive evs ->
  relayout off (map (pseg_line d) segs) ls' -> Forall wf_sline ls' -> good_eol eol ->
  spans_of (read off (tokenise (render_gen up eol ls')))
  = rmap (fun spans => flat_map bspans (combine (ploads_of segs) spans)) (expected_with join_threshold evs).
Proof.
  intros d off segs evs ls' up eol H1 H2 H3 HL HW HE.
  rewrite (read_tokenise_render_gen off up eol ls' HE HW).
  exact (popon_times_layout d off segs evs ls' H1 H2 H3 HL).
Qed.

(* non-vacuity: the split layout of SccLineLayoutFacts.ex_split, upper-case hex, CRLF line ends *)
Example popon_refines_608_text_instance :
  exists caps, read 0 (tokenise (render_gen true eol_crlf ex_split)) = ROk caps /\
               ok_c05 (mkProg false [ex_load]) (Ok (map observe caps)) = true.
Proof.
  destruct (popon_refines_608_text false 0 ex_segs [Show 1201200; Clear 3003000] [(1201200%Q, 3003000%Q)] ex_split true eol_crlf)
    as (caps & R & K & _).
  - vm_compute. reflexivity.
  - vm_compute. reflexivity.
  - intros e [<-|[<-|[]]]; reflexivity.
  - cbn. repeat split.
  - vm_compute. reflexivity.
  - rewrite ex_is_pseg_stream. apply ex_relayout.
  - repeat constructor; vm_compute; try reflexivity; intuition discriminate.
  - right; left; reflexivity.
  - exists caps. split; assumption.
Qed.
Print Assumptions popon_refines_608_text.
Print Assumptions popon_times_text.
