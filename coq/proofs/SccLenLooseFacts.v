(* C15: the weakest reading of "naming each offending line" (the message contains the line's text) follows from the
   exact message format; and non-vacuity of the whole-reader theorem (read yields both outcomes on concrete streams). *)
From Coq Require Import List ZArith QArith Lia Bool.
From PV Require Import lib.Sx lib.Str lib.Result model.SccLen model.SccStash model.SccDecoder spec.SpecSccLen.
From PV Require Import proofs.SccLenFacts.
Import ListNotations.
Open Scope Z_scope.

Lemma is_prefix_app_l : forall a b s, is_prefix (a ++ b) s = true -> is_prefix a s = true.
Proof.
  induction a as [|x a IH]; intros b s H; [reflexivity|].
  destruct s as [|y s]; simpl in *; [discriminate|].
  apply andb_true_iff in H. destruct H as [H1 H2]. rewrite H1. simpl. exact (IH _ _ H2).
Qed.

Lemma is_infix_app_part : forall a b s, is_infix (a ++ b) s = true -> is_infix a s = true.
Proof.
  intros a b s. induction s as [|y s IH]; intros H.
  - rewrite is_infix_unfold in H. rewrite orb_false_r in H. rewrite is_infix_unfold.
    rewrite (is_prefix_app_l _ _ _ H). reflexivity.
  - rewrite is_infix_unfold in H. apply orb_true_iff in H. rewrite is_infix_unfold. destruct H as [H|H].
    + rewrite (is_prefix_app_l _ _ _ H). reflexivity.
    + rewrite (IH H). apply orb_true_r.
Qed.

Lemma names_mentions : forall msg l, names msg l = true -> mentions msg l = true.
Proof. intros msg l H. unfold names in H. unfold mentions. exact (is_infix_app_part _ _ _ H). Qed.

Theorem ok_c15_implies_loose : forall caps out, ok_c15 caps out = true -> ok_c15_loose caps out = true.
Proof.
  intros caps [msg|] H; [|exact H]. unfold ok_c15 in H. unfold ok_c15_loose.
  apply andb_true_iff in H. destruct H as [H1 H2]. rewrite H1. simpl.
  apply forallb_forall. intros l Hl. apply names_mentions. exact (proj1 (forallb_forall _ _) H2 l Hl).
Qed.

Theorem length_check_meets_loose_oracle : forall caps, ok_c15_loose caps (length_check caps) = true.
Proof. intros caps. apply ok_c15_implies_loose. apply length_check_meets_oracle. Qed.

(* read on concrete streams: ENM RCL PAC(row 15) text EOC / EDM with a row of 33 and of 32 characters *)
Definition row_stream (n : nat) : list sline :=
  [(lit "00:00:01:00", [38062; 37920; 38000] ++ repeat 24929 n ++ [37935]); (lit "00:00:05:00", [37932])].

Example read_raises_on_34 : exists m, read 0 (row_stream 17) = RLen m.
Proof. eexists. vm_compute. reflexivity. Qed.
Example read_returns_32 : exists c, read 0 (row_stream 16) = ROk [c] /\ length (cap_text c) = 32%nat.
Proof. eexists. split; vm_compute; reflexivity. Qed.
