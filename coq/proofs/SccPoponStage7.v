(* C05 / C06, stage 7 of the pop-on refinement.
   A. LIFTING, generic in the class of loads (Section Lift): whatever is known about ONE load of a class, in the form
        H_line : a load line, run from any between-lines state B, pops the queue and queues a creator `cr` with
                 `lc_good ld cr`,
        H_good : storing such a creator extends the stash by ONE batch of captions with the given times, short lines
                 and the per-load oracle (for every end the stash may later give them),
                 (plus any further fact `lc_caps` one wants carried through to the conclusions),
        H_wf   : the loads of the class are well formed,
      is lifted to WHOLE PROGRAMS: several loads of the class, each on its own line, Erase-Displayed-Memory lines
      anywhere in between, control codes single or doubled (the streams `pseg` of stage 6): the captions of load i carry
      the i-th span of the display events (lift_read_batches), C06 (lift_spans_mult, lift_spans), C05 (lift_ok, lift).
   B. INSTANCES: the rich loads of stage 5b (any characters, backspaces, any preamble style including italics):
      popon_stage7_read_batches, popon_stage7_read (load i is read as `caps5b` with span i), popon_stage7_observe,
      popon_stage7_spans_mult, popon_stage7_spans, popon_stage7_ok, popon_stage7;
      and the basic loads of stage 6 again, as a second instance (popon_stage6_again).
   All final theorems: Print Assumptions = Closed under the global context. *)
From Coq Require Import List ZArith QArith Qabs Lia Bool ZifyBool Lqa.
From PV Require Import lib.Sx lib.Str lib.Result model.GenScc model.SccLen model.SccTime model.SccStash model.SccDecoder model.SccLayout
                       model.SccPopon spec.Spec608 spec.SpecScc05 spec.SpecSccLen spec.SpecSccTime proofs.SccTableFacts
                       proofs.SccTableFixFacts proofs.SccDoubleFacts proofs.SccLenFacts proofs.SccStashFacts proofs.SccTimeFacts
                       proofs.SccPoponFacts proofs.SccPoponStage1 proofs.SccPoponStage2 proofs.SccPoponStage3 proofs.SccPoponStage4
                       proofs.SccPoponStage5 proofs.SccPoponStage6.
Import ListNotations. Open Scope Z_scope.

(* performance only (see stage 1) *)
Local Strategy 1000 [basic_code is_basic].
Local Arguments stash_extend : simpl never.

(* ---- 0. captions whose end is reset -------------------------------------------------------------------------------- *)
Lemma set_end_id : forall c, set_end (pc_end c) c = c.
Proof. intros [s e n l]. reflexivity. Qed.

Lemma set_end_set_end : forall e e' c, set_end e' (set_end e c) = set_end e' c.
Proof. reflexivity. Qed.

Lemma map_set_end_id : forall e caps, Forall (fun c => pc_end c = e) caps -> map (set_end e) caps = caps.
Proof.
  intros e caps F. induction F as [|c caps Hc F IH]; [reflexivity|]. cbn [map]. rewrite IH, <- Hc, set_end_id. reflexivity.
Qed.

Lemma has_nodes_set_end : forall e c, has_nodes (set_end e c) = has_nodes c.
Proof. reflexivity. Qed.

Lemma filter_all : forall A (f : A -> bool) l, Forall (fun x => f x = true) l -> filter f l = l.
Proof. intros A f l F. induction F as [|x l Hx F IH]; [reflexivity|]. cbn [filter]. rewrite Hx, IH. reflexivity. Qed.

(* the oracle consumes one observed caption per expected caption *)
Lemma load_ok_length : forall es os sp rest sp', load_ok es os sp = Some (rest, sp') -> length os = (length es + length rest)%nat.
Proof.
  induction es as [|e es IH]; intros os sp rest sp' H.
  - cbn [load_ok] in H. inversion H. reflexivity.
  - cbn [load_ok] in H. destruct os as [|o os]; [discriminate|].
    destruct (cap_ok e o && _); [|discriminate]. apply IH in H. cbn [length]. lia.
Qed.

Section Lift.
  Variable lc_ok : load -> bool.                     (* the class of loads *)
  Variable lc_good : load -> creator -> Prop.        (* what is known about the creator queued for a load of the class *)
  (* anything else one wants to know about the batch stored for a load shown at t0 (carried through to the conclusions,
     not used by the lifting; `fun _ _ _ => True` if nothing) *)
  Variable lc_caps : load -> Q -> list precap -> Prop.

  (* a load line, from ANY between-lines state *)
  Hypothesis H_line : forall d off ld st tk l ds q tm tc fr tc' t,
    lc_ok ld = true -> last_is l w_enm = false ->
    get_time tc' (Z.of_nat (length (emit_load d ld)) - (if d then 2 else 1)) off = Ok t ->
    exists cr tk' l' ds' fr',
      translate_line (B off st tk l ds q tm tc fr) (tc', emit_load d ld)
        = B off (popped st q t) tk' l' ds' (Some (cr, t)) t tc' fr'
      /\ lc_good ld cr /\ last_is l' w_edm = false /\ last_is l' w_enm = false.

  (* storing such a creator: one batch of captions with the given times, short lines, and the per-load oracle; the stash
     may later reset the END of the captions of a batch (update_last_batch, fix_last): the oracle clause is about the
     captions with any end e after their start *)
  Hypothesis H_good : forall ld cr st t0 t1, lc_ok ld = true -> lc_good ld cr ->
    exists caps, create_and_store st cr t0 t1 = stash_extend st caps /\ caps <> [] /\
      Forall (fun c => pc_start c = t0 /\ pc_end c = t1 /\ has_nodes c = true) caps /\
      (forall c ln, In c caps -> In ln (lines_of (cap_text c)) -> (length ln <= 32)%nat) /\
      (forall e, (t0 < e)%Q -> forall rest,
         load_ok (expected_load ld) (map observe (map (set_end e) caps) ++ rest) None = Some (rest, Some (t0, e))) /\
      lc_caps ld t0 caps.

  Hypothesis H_wf : forall ld, lc_ok ld = true -> load_wf ld = true.

  Definition gseg_ok (s : pseg) : bool := match s with PLoad _ l => lc_ok l | PClear _ => true end.

  (* ---- 1. batches: a load, captions (their end is irrelevant), and the (start, end) they carry in the stash ---------- *)
  Definition gbatch : Type := ((load * list precap) * (Q * Q))%type.
  Definition gkey (b : gbatch) : batch := (fst (fst b), snd b).
  Definition gcaps (b : gbatch) : list precap := map (set_end (snd (snd b))) (snd (fst b)).
  Definition gext (st : stash) (b : gbatch) : stash := stash_extend st (gcaps b).

  (* independent of the end *)
  Definition bgood (b : gbatch) : Prop :=
    let ld := fst (fst b) in let caps := snd (fst b) in let s := fst (snd b) in
    caps <> [] /\ Forall (fun c => pc_start c = s /\ has_nodes c = true) caps /\
    (forall c ln, In c caps -> In ln (lines_of (cap_text c)) -> (length ln <= 32)%nat) /\
    (forall e, (s < e)%Q -> forall rest,
       load_ok (expected_load ld) (map observe (map (set_end e) caps) ++ rest) None = Some (rest, Some (s, e))) /\
    lc_caps ld s caps.

  Definition reend (b : gbatch) (e : Q) : gbatch := (fst b, (fst (snd b), e)).
  Lemma bgood_reend : forall b e, bgood b -> bgood (reend b e).
  Proof. intros [[ld caps] [s e0]] e H. exact H. Qed.

  Lemma store_gbatch : forall ld cr st t0 t1, lc_ok ld = true -> lc_good ld cr ->
    exists caps, create_and_store st cr t0 t1 = gext st ((ld, caps), (t0, t1)) /\ bgood ((ld, caps), (t0, t1)).
  Proof.
    intros ld cr st t0 t1 Hok Hg. destruct (H_good ld cr st t0 t1 Hok Hg) as (caps & E & Hne & F & Hs & Ho & Hc).
    exists caps. unfold gext, gcaps, bgood. cbn [fst snd]. rewrite map_set_end_id.
    - split; [exact E|]. split; [exact Hne|]. split; [|split; [exact Hs|split; [exact Ho|exact Hc]]].
      rewrite Forall_forall in *. intros c Hc0. destruct (F c Hc0) as (A & _ & C). split; assumption.
    - rewrite Forall_forall in *. intros c Hc0. apply (F c Hc0).
  Qed.

  Lemma bgood_length : forall b, bgood b -> length (snd (fst b)) = length (expected_load (fst (fst b))).
  Proof.
    intros [[ld caps] [s e]] (_ & _ & _ & Ho & _). cbn [fst snd] in *.
    assert (Hlt : (s < s + 1)%Q) by lra. specialize (Ho _ Hlt []). apply load_ok_length in Ho.
    rewrite app_nil_r, !map_length in Ho. cbn [length] in Ho. lia.
  Qed.

  Lemma bgood_expected : forall b, bgood b -> expected_load (fst (fst b)) <> [].
  Proof.
    intros b H E. pose proof (bgood_length b H) as L. rewrite E in L. destruct H as (Hne & _).
    destruct (snd (fst b)); [congruence|discriminate].
  Qed.

  (* ---- 2. the run of the reader: queue with the load it came from -------------------------------------------------- *)
  Definition aq7 : Type := option ((load * creator) * Q).
  Definition qreal7 (q : aq7) : option (creator * Q) := match q with Some ((_, cr), t) => Some (cr, t) | None => None end.
  Definition qabs7 (q : aq7) : aq6 := match q with Some ((l, _), t) => Some (l, t) | None => None end.
  Definition q_ok7 (q : aq7) : Prop := match q with Some ((l, cr), _) => lc_ok l = true /\ lc_good l cr | None => True end.
  Definition inv7 (l : lastcmd) (q : aq7) : Prop :=
    last_is l w_enm = false /\ (q = None \/ last_is l w_edm = false) /\ q_ok7 q.

  (* the lines of the stream from a between-lines state, followed by the final flush of the queue: the stash is
     extended by one good batch per queued load, with the times `braw` of stage 6 *)
  Lemma run_gsegs : forall d off segs its st tk l ds q tm tc fr,
    forallb gseg_ok segs = true -> res_map (pseg_item d off) segs = Ok its -> inv7 l q ->
    exists bl st' tk' l' ds' q' tm' tc' fr',
      fold_left translate_line (map (pseg_line d) segs) (B off st tk l ds (qreal7 q) tm tc fr)
      = B off st' tk' l' ds' (qreal7 q') tm' tc' fr'
      /\ popped st' (qreal7 q') 0 = fold_left gext bl st
      /\ Forall bgood bl /\ map gkey bl = braw its (qabs7 q).
  Proof.
    intros d off. induction segs as [|s segs IH]; intros its st tk l ds q tm tc fr Hok Hi (Hl1 & Hl2 & Hq).
    - inversion Hi. cbn [map fold_left]. destruct q as [[[l0 cr0] t0]|].
      + destruct Hq as [Hq1 Hq2]. destruct (store_gbatch l0 cr0 st t0 0%Q Hq1 Hq2) as (caps & E & Hb).
        exists [((l0, caps), (t0, 0%Q))], st, tk, l, ds, (Some ((l0, cr0), t0)), tm, tc, fr.
        split; [reflexivity|]. split; [exact E|]. split; [constructor; [exact Hb|constructor]|reflexivity].
      + exists [], st, tk, l, ds, None, tm, tc, fr. repeat split. constructor.
    - destruct (res_map_cons _ _ _ _ _ _ Hi) as (it & its' & Hit & Hi' & ->).
      rewrite forallb_cons in Hok. apply andb_true_iff in Hok. destruct Hok as [Hs Hok].
      cbn [map fold_left]. destruct s as [tc1 ld|tc1]; cbn [pseg_item gseg_ok pseg_line] in *.
      + destruct (get_time tc1 _ off) as [t|x] eqn:Eg; [|discriminate]. inversion Hit. subst it.
        destruct (H_line d off ld st tk l ds (qreal7 q) tm tc fr tc1 t Hs Hl1 Eg)
          as (cr & tk' & l' & ds' & fr' & E & Hg & Hl' & Hl'').
        rewrite E.
        destruct (IH its' (popped st (qreal7 q) t) tk' l' ds' (Some ((ld, cr), t)) t tc1 fr' Hok Hi')
          as (bl & st2 & tk2 & l2 & ds2 & q2 & tm2 & tc2 & fr2 & E2 & Ep & Fb & Ek).
        { split; [exact Hl''|split; [right; exact Hl'|split; assumption]]. }
        destruct q as [[[l0 cr0] t0]|].
        * destruct Hq as [Hq1 Hq2]. destruct (store_gbatch l0 cr0 st t0 t Hq1 Hq2) as (caps & Es & Hb).
          exists (((l0, caps), (t0, t)) :: bl), st2, tk2, l2, ds2, q2, tm2, tc2, fr2.
          split; [exact E2|]. split; [|split; [constructor; assumption|]].
          -- cbn [fold_left]. rewrite <- Es. exact Ep.
          -- cbn [map braw qabs7 gkey fst snd app]. cbn [qabs7] in Ek. rewrite Ek. reflexivity.
        * exists bl, st2, tk2, l2, ds2, q2, tm2, tc2, fr2. split; [exact E2|]. split; [exact Ep|]. split; [exact Fb|].
          cbn [braw qabs7 fst snd app]. exact Ek.
      + destruct (get_time tc1 0 off) as [t|x] eqn:Eg; [|discriminate]. inversion Hit. subst it.
        destruct q as [[[l0 cr0] t0]|].
        * destruct Hl2 as [X|Hl2]; [discriminate|]. cbn [qreal7]. destruct Hq as [Hq1 Hq2].
          destruct (clear_line_some d off st tk l ds cr0 t0 tm tc fr tc1 t Hl2 Eg) as (l' & ds' & fr' & E & Hl').
          rewrite E. destruct (store_gbatch l0 cr0 st t0 t Hq1 Hq2) as (caps & Es & Hb).
          destruct (IH its' (create_and_store st cr0 t0 t) tk l' ds' None tm tc1 fr' Hok Hi')
            as (bl & st2 & tk2 & l2 & ds2 & q2 & tm2 & tc2 & fr2 & E2 & Ep & Fb & Ek).
          { split; [exact Hl'|split; [left; reflexivity|exact I]]. }
          exists (((l0, caps), (t0, t)) :: bl), st2, tk2, l2, ds2, q2, tm2, tc2, fr2.
          split; [exact E2|]. split; [|split; [constructor; assumption|]].
          -- cbn [fold_left]. rewrite <- Es. exact Ep.
          -- cbn [map braw qabs7 gkey fst snd app]. cbn [qabs7] in Ek. rewrite Ek. reflexivity.
        * cbn [qreal7].
          destruct (clear_line_none d off st tk l ds tm tc fr tc1) as (l' & ds' & fr' & E & Hl').
          rewrite E.
          destruct (IH its' st tk l' ds' None tm tc1 fr' Hok Hi')
            as (bl & st2 & tk2 & l2 & ds2 & q2 & tm2 & tc2 & fr2 & E2 & Ep & Fb & Ek).
          { split; [exact Hl'|split; [left; reflexivity|exact I]]. }
          exists bl, st2, tk2, l2, ds2, q2, tm2, tc2, fr2. split; [exact E2|]. split; [exact Ep|]. split; [exact Fb|].
          cbn [braw qabs7 fst snd app]. exact Ek.
  Qed.

  (* read-level: the whole stream is read as the tail of read() applied to a fold of good batches *)
  Theorem read_gsegs : forall d off segs its,
    forallb gseg_ok segs = true -> res_map (pseg_item d off) segs = Ok its ->
    exists bl, read off (map (pseg_line d) segs) = finish_read (fold_left gext bl stash0)
               /\ Forall bgood bl /\ map gkey bl = braw its None.
  Proof.
    intros d off segs its Hok Hi.
    destruct (run_gsegs d off segs its stash0 tracker0 LNone false None 0%Q (lit "00:00:00;00") 0 Hok Hi)
      as (bl & st & tk & l & ds & q & tm & tc & fr & E & Ep & Fb & Ek).
    { split; [reflexivity|split; [left; reflexivity|exact I]]. }
    exists bl. split; [|split; assumption].
    unfold read, run_lines. change (rstate0 off) with (B off stash0 tracker0 LNone false (qreal7 None) 0%Q (lit "00:00:00;00") 0).
    rewrite E. rewrite <- Ep. unfold B. cbn [r_err]. unfold flush_implicit. cbn [r_active r_queue].
    destruct q as [[[l0 cr0] t0]|]; cbn [qreal7 popped].
    - unfold pop_on. cbn [r_queue]. unfold store, set_queue, set_stash. cbn [r_err r_stash]. reflexivity.
    - reflexivity.
  Qed.

  (* ---- 3. the stash in closed form -------------------------------------------------------------------------------- *)
  (* the lookahead form (closeB of stage 6, the captions carried along) *)
  Fixpoint closeG (l : list gbatch) : list gbatch :=
    match l with
    | [] => []
    | b :: r =>
        reend b (match r with
                 | b' :: _ => if Qeq_bool (snd (snd b)) 0 || negb (Qle_bool join_threshold (fst (snd b') - snd (snd b)))
                              then fst (snd b') else snd (snd b)
                 | [] => snd (snd b)
                 end) :: closeG r
    end.

  Lemma closeG_key : forall l, map gkey (closeG l) = closeB (map gkey l).
  Proof.
    induction l as [|[[ld caps] [s e]] r IH]; [reflexivity|]. cbn [closeG map]. rewrite IH.
    destruct r as [|[[ld' caps'] [s' e']] r']; reflexivity.
  Qed.

  Lemma closeG_good : forall l, Forall bgood l -> Forall bgood (closeG l).
  Proof. intros l F. induction F as [|b l Hb F IH]; [constructor|]. cbn [closeG]. constructor; [apply bgood_reend; exact Hb|exact IH]. Qed.

  Lemma gcaps_filter : forall b, bgood b -> filter has_nodes (gcaps b) = gcaps b.
  Proof.
    intros [[ld caps] [s e]] (_ & F & _). unfold gcaps. cbn [fst snd] in *. apply filter_all.
    rewrite Forall_forall in *. intros c Hc. apply in_map_iff in Hc. destruct Hc as (x & <- & Hx). apply (F x Hx).
  Qed.

  Lemma gcaps_nonempty : forall b, bgood b -> gcaps b <> [].
  Proof. intros [[ld caps] [s e]] (Hne & _). unfold gcaps. cbn [fst snd] in *. destruct caps; [congruence|discriminate]. Qed.

  Lemma gext_first : forall b, bgood b -> gext stash0 b = mkStash ([] ++ gcaps b) (length (gcaps b)).
  Proof. intros b Hb. unfold gext. rewrite stash_extend0, (gcaps_filter b Hb). reflexivity. Qed.

  (* storing the next batch decides the end of the whole previous batch *)
  Lemma gext_snoc : forall acc b b', bgood b -> bgood b' ->
    gext (mkStash (acc ++ gcaps b) (length (gcaps b))) b' =
    mkStash ((acc ++ gcaps (reend b (if Qeq_bool (snd (snd b)) 0 || negb (Qle_bool join_threshold (fst (snd b') - snd (snd b)))
                                     then fst (snd b') else snd (snd b)))) ++ gcaps b') (length (gcaps b')).
  Proof.
    intros acc b b' Hb Hb'. unfold gext, stash_extend. rewrite (gcaps_filter b' Hb'). f_equal. f_equal.
    unfold update_last_batch. cbn [st_caps st_batch]. rewrite skipn_app_len.
    destruct b as [[ld caps] [s e]], b' as [[ld' caps'] [s' e']]. destruct Hb as (Hne & _). destruct Hb' as (Hne' & F' & _).
    unfold gcaps, reend. cbn [fst snd] in *. rewrite last_map_some.
    destruct (last_some_ne _ _ Hne) as [x ->]. cbn [option_map].
    destruct caps' as [|c0 cs']; [congruence|]. cbn [map].
    change (pc_end (set_end e x)) with e. change (pc_start (set_end e' c0)) with (pc_start c0).
    destruct (Forall_inv F') as [Hs0 _]. rewrite Hs0.
    destruct (Qeq_bool e 0 || negb (Qle_bool join_threshold (s' - e))); [|reflexivity].
    rewrite map_tail_app_len, map_map. reflexivity.
  Qed.

  Lemma fold_gext : forall r acc b, bgood b -> Forall bgood r ->
    st_caps (fold_left gext r (mkStash (acc ++ gcaps b) (length (gcaps b)))) = acc ++ flat_map gcaps (closeG (b :: r)).
  Proof.
    induction r as [|b' r IH]; intros acc b Hb Hr.
    - cbn [fold_left st_caps closeG flat_map]. rewrite app_nil_r. destruct b as [[ld caps] [s e]]. reflexivity.
    - inversion Hr as [|? ? Hb' Hr']; subst. cbn [fold_left]. rewrite (gext_snoc acc b b' Hb Hb').
      rewrite IH by assumption. rewrite <- app_assoc. reflexivity.
  Qed.

  Lemma fold_gext0 : forall l, Forall bgood l -> st_caps (fold_left gext l stash0) = flat_map gcaps (closeG l).
  Proof.
    intros [|b r] H; [reflexivity|]. inversion H as [|? ? Hb Hr]; subst. cbn [fold_left].
    rewrite (gext_first b Hb), fold_gext by assumption. reflexivity.
  Qed.

  (* ---- 4. the tail of read() on batches ------------------------------------------------------------------------------ *)
  Lemma filter_none : forall A (f : A -> bool) l, (forall x, In x l -> f x = false) -> filter f l = [].
  Proof.
    intros A f. induction l as [|x l IH]; intros H; [reflexivity|]. cbn [filter]. rewrite (H x (or_introl eq_refl)).
    apply IH. intros y Hy. apply H. right. exact Hy.
  Qed.

  Lemma caps_short : forall e caps, (forall c ln, In c caps -> In ln (lines_of (cap_text c)) -> (length ln <= 32)%nat) ->
    offending (map to_lcap (map (set_end e) caps)) = [].
  Proof.
    intros e. induction caps as [|c caps IH]; intros H; [reflexivity|]. unfold offending in *. cbn [map concat].
    rewrite IH by (intros c0 ln H0 H1; apply (H c0 ln); [right; exact H0|exact H1]). rewrite app_nil_r.
    apply filter_none. intros ln Hln. unfold spec_long.
    assert (L : (length ln <= 32)%nat) by (apply (H c ln); [left; reflexivity|exact Hln]). lia.
  Qed.

  Lemma gbatches_not_long : forall bl, Forall bgood bl -> offending (map to_lcap (flat_map gcaps bl)) = [].
  Proof.
    intros bl F. induction F as [|b bl Hb F IH]; [reflexivity|].
    cbn [flat_map]. rewrite map_app, offending_app, IH, app_nil_r. destruct Hb as (_ & _ & Hs & _).
    unfold gcaps. apply caps_short. exact Hs.
  Qed.

  Lemma gbatch_flash : forall b, bgood b -> existsb is_flash (gcaps b) = flash (snd b).
  Proof.
    intros [[ld caps] [s e]] (Hne & F & _). unfold gcaps. cbn [fst snd] in *.
    induction F as [|c caps [Hc _] F IH]; [congruence|]. cbn [map existsb].
    assert (E : is_flash (set_end e c) = flash (s, e)).
    { unfold is_flash, flash. cbn [set_end pc_start pc_end fst snd]. rewrite Hc. reflexivity. }
    rewrite E. destruct caps as [|c' caps']; [apply orb_false_r|]. rewrite IH by discriminate. apply orb_diag.
  Qed.

  Lemma gbatches_flash : forall bl, Forall bgood bl -> existsb is_flash (flat_map gcaps bl) = existsb flash (map snd bl).
  Proof.
    intros bl F. induction F as [|b bl Hb F IH]; [reflexivity|].
    cbn [flat_map map existsb]. rewrite existsb_app, IH, (gbatch_flash b Hb). reflexivity.
  Qed.

  Lemma finish_read_gbatches : forall st bl, Forall bgood bl -> st_caps st = flat_map gcaps bl ->
    finish_read st = if existsb flash (map snd bl) then RErr ETiming
                     else match bl with [] => RErr ENoCaptions | _ => ROk (fix_last (flat_map gcaps bl)) end.
  Proof.
    intros st bl F E. unfold finish_read. rewrite E.
    rewrite (proj2 (length_check_none_iff _) (gbatches_not_long bl F)), (gbatches_flash bl F).
    destruct (existsb flash (map snd bl)); [reflexivity|]. destruct bl as [|b bl']; [reflexivity|].
    inversion F as [|? ? Hb F']; subst. pose proof (gcaps_nonempty b Hb) as Hne. cbn [flat_map] in *.
    destruct (gcaps b) as [|c0 cs]; [congruence|]. reflexivity.
  Qed.

  Lemma gcaps_ended : forall bl, Forall pos_end (map snd bl) -> forall c, In c (flat_map gcaps bl) -> Qeq_bool (pc_end c) 0 = false.
  Proof.
    intros bl H c Hc. apply in_flat_map in Hc. destruct Hc as ([[ld caps] [s e]] & Hb & Hc).
    unfold gcaps in Hc. cbn [fst snd] in Hc. apply in_map_iff in Hc. destruct Hc as (x & <- & _).
    change (pc_end (set_end e x)) with e. apply Qeq_bool_pos_false.
    rewrite Forall_forall in H. apply (H (s, e)). change (s, e) with (snd ((ld, caps), (s, e))). apply in_map. exact Hb.
  Qed.

  Lemma map_snd_snoc_inv : forall A X (bl : list (A * X)) l p, map snd bl = l ++ [p] ->
    exists bl1 a, bl = bl1 ++ [(a, p)] /\ map snd bl1 = l.
  Proof.
    intros A X bl l p H. induction bl as [|b0 bl0 _] using rev_ind.
    - destruct l; discriminate.
    - rewrite map_app in H. cbn [map] in H. apply app_inj_tail in H. destruct H as [H1 H2]. destruct b0 as [a p0]. cbn [snd] in H2.
      subst p0. exists bl0, a. split; [reflexivity|exact H1].
  Qed.

  (* ---- 5. the read theorem: the captions of load i carry the i-th span of the display events ---------------------- *)
  Definition gload (b : gbatch) : load := fst (fst b).

  Theorem lift_read_batches : forall d off segs evs,
    forallb gseg_ok segs = true -> res_map (pseg_event d off) segs = Ok evs -> positive evs ->
    match expected_with join_threshold evs with
    | Ok spans => exists bl, Forall bgood bl /\ map gload bl = ploads_of segs /\ map snd bl = spans /\
                             read off (map (pseg_line d) segs) = ROk (flat_map gcaps bl)
    | Err e => read off (map (pseg_line d) segs) = RErr e
    end.
  Proof.
    intros d off segs evs Hok He Hp. destruct (pseg_items d off segs evs He) as (its & Hi & Hm & Hr).
    destruct (read_gsegs d off segs its Hok Hi) as (bl0 & -> & Fb & Ek).
    pose proof (closeG_good _ Fb) as Fc.
    rewrite (finish_read_gbatches _ (closeG bl0) Fc (fold_gext0 _ Fb)).
    assert (Ef : map gload (closeG bl0) = ploads_of segs).
    { change gload with (fun b => fst (gkey b)). rewrite <- (map_map gkey fst), closeG_key, closeB_fst, Ek, braw_fst. exact Hr. }
    assert (Es : map snd (closeG bl0) = closeM (map deflt (raw_spans evs None))).
    { change (@snd (load * list precap) (Q * Q)) with (fun b : gbatch => snd (gkey b)).
      rewrite <- (map_map gkey snd), closeG_key, closeB_snd, Ek, braw_snd, Hm. reflexivity. }
    revert Fc Ef Es. generalize (closeG bl0). intros bl Fc Ef Es.
    assert (G : good (raw_spans evs None)) by (apply raw_spans_good; [exact Hp|intros s Hs; discriminate]).
    unfold expected_with. cbv zeta.
    destruct (close_shape _ G) as [[HF HE]|[l [s [HF [Hs [HE HG]]]]]].
    - rewrite HE in Es. rewrite <- Es in *. destruct (existsb flash (map snd bl)); [reflexivity|].
      destruct bl as [|b bl']; [reflexivity|]. cbn [map]. exists (b :: bl'). split; [exact Fc|]. split; [exact Ef|split; [reflexivity|]].
      rewrite fix_last_ended; [reflexivity|]. apply gcaps_ended. exact HF.
    - rewrite HE in Es. rewrite HG. destruct (map_snd_snoc_inv _ _ bl l (s, 0%Q) Es) as (bl1 & [ld caps] & -> & E1).
      rewrite map_app, !existsb_app. cbn [map existsb snd].
      change (flash (s, 0%Q)) with (is_flash (cue s 0)). rewrite (pending_not_flash s Hs), four_s_not_flash. rewrite E1.
      destruct (existsb flash l); [reflexivity|]. cbn [orb].
      assert (X : forall (A : Type) (x : A) (k : list A) (R : Type) (a b : R),
                     match k ++ [x] with [] => a | _ :: _ => b end = b) by (intros A x [|y k] R a b; reflexivity).
      rewrite !X. exists (bl1 ++ [((ld, caps), (s, (s + four_s)%Q))]). rewrite !map_app in *. cbn [map fst snd] in *.
      apply Forall_app in Fc. destruct Fc as [Fc1 Fc2]. pose proof (Forall_inv Fc2) as Hb.
      split; [apply Forall_app; split; [exact Fc1|constructor; [exact (bgood_reend _ (s + four_s)%Q Hb)|constructor]]|].
      split; [exact Ef|split; [rewrite E1; reflexivity|]].
      rewrite !flat_map_app. cbn [flat_map]. rewrite !app_nil_r. rewrite fix_last_spec_all.
      + f_equal. f_equal. unfold gcaps. cbn [fst snd]. rewrite map_map. destruct Hb as (_ & F & _). cbn [fst snd] in F.
        apply map_ext_in. intros c Hc. rewrite Forall_forall in F. destruct (F c Hc) as [Hsc _].
        unfold set_end. cbn [pc_start pc_end pc_nodes pc_layout]. rewrite Hsc. reflexivity.
      + intros c Hc. unfold gcaps in Hc. cbn [fst snd] in Hc. apply in_map_iff in Hc. destruct Hc as (x & <- & _). reflexivity.
      + apply gcaps_ended. rewrite E1. exact HF.
  Qed.

  Lemma combine_map2 : forall A X Y (f : A -> X) (g : A -> Y) l, combine (map f l) (map g l) = map (fun a => (f a, g a)) l.
  Proof. intros A X Y f g. induction l as [|a l IH]; [reflexivity|]. cbn [map combine]. rewrite IH. reflexivity. Qed.

  (* the same, with the batches written out: the captions of load i are a batch of the class with the i-th span *)
  Corollary lift_read : forall d off segs evs,
    forallb gseg_ok segs = true -> res_map (pseg_event d off) segs = Ok evs -> positive evs ->
    match expected_with join_threshold evs with
    | Ok spans => length spans = length (ploads_of segs) /\
                  exists capss, length capss = length spans /\
                    Forall bgood (combine (combine (ploads_of segs) capss) spans) /\
                    read off (map (pseg_line d) segs) = ROk (flat_map gcaps (combine (combine (ploads_of segs) capss) spans))
    | Err e => read off (map (pseg_line d) segs) = RErr e
    end.
  Proof.
    intros d off segs evs Hok He Hp. pose proof (lift_read_batches d off segs evs Hok He Hp) as H.
    destruct (expected_with join_threshold evs) as [spans|e]; [|exact H].
    destruct H as (bl & Fb & <- & <- & ->). rewrite !map_length. split; [reflexivity|].
    exists (map (fun b : gbatch => snd (fst b)) bl). rewrite map_length. split; [reflexivity|].
    unfold gload. rewrite combine_map2.
    assert (E : combine (map (fun a : gbatch => (fst (fst a), snd (fst a))) bl) (map snd bl) = bl).
    { rewrite combine_map2. rewrite <- (map_id bl) at 2. apply map_ext. intros [[ld caps] [s e]]. reflexivity. }
    rewrite E. split; [exact Fb|reflexivity].
  Qed.

  (* ---- 6. C06: the times ----------------------------------------------------------------------------------------------- *)
  Lemma map_const_repeat : forall A X (x : X) (l : list A), map (fun _ => x) l = repeat x (length l).
  Proof. intros A X x. induction l as [|a l IH]; [reflexivity|]. cbn [map length repeat]. rewrite IH. reflexivity. Qed.

  Lemma spans_gbatches : forall bl, Forall bgood bl ->
    map (fun c => (pc_start c, pc_end c)) (flat_map gcaps bl) = flat_map bspans (map gkey bl).
  Proof.
    intros bl F. induction F as [|b bl Hb F IH]; [reflexivity|]. cbn [flat_map map]. rewrite map_app, IH. f_equal.
    pose proof (bgood_length b Hb) as L. destruct b as [[ld caps] [s e]]. destruct Hb as (_ & Fs & _).
    unfold bspans, gcaps, gkey. cbn [fst snd] in *. rewrite <- L, map_map, <- map_const_repeat. apply map_ext_in. intros c Hc.
    rewrite Forall_forall in Fs. destruct (Fs c Hc) as [Hsc _]. cbn [set_end pc_start pc_end]. rewrite Hsc. reflexivity.
  Qed.

  (* multiplicity version of C06: exactly the expected spans, the span of load i repeated once per caption of its batch,
     that is length (expected_load l_i) times *)
  Theorem lift_spans_mult : forall d off segs evs,
    forallb gseg_ok segs = true -> res_map (pseg_event d off) segs = Ok evs -> positive evs ->
    spans_of (read off (map (pseg_line d) segs))
    = rmap (fun spans => flat_map bspans (combine (ploads_of segs) spans)) (expected_with join_threshold evs).
  Proof.
    intros d off segs evs Hok He Hp. pose proof (lift_read_batches d off segs evs Hok He Hp) as H.
    destruct (expected_with join_threshold evs) as [spans|e]; cbn [rmap].
    - destruct H as (bl & Fb & <- & <- & ->). cbn [spans_of]. rewrite (spans_gbatches bl Fb). unfold gload. rewrite combine_map2. reflexivity.
    - rewrite H. reflexivity.
  Qed.

  Lemma screens_batches_gen : forall bl : list batch, Forall (fun b => expected_load (fst b) <> []) bl ->
    screens (flat_map bspans bl) = screens (map snd bl).
  Proof.
    intros bl F. induction F as [|b bl Hne F IH]; [reflexivity|].
    cbn [flat_map map]. unfold bspans at 1.
    destruct (expected_load (fst b)) as [|e0 es]; [congruence|]. cbn [length]. rewrite screens_repeat.
    apply screens_cons_hd; [|exact IH].
    destruct F as [|b' bl' Hne' F']; [reflexivity|].
    cbn [flat_map map hd_error]. unfold bspans at 1. destruct (expected_load (fst b')) as [|e1 es']; [congruence|]. reflexivity.
  Qed.

  (* C06 *)
  Theorem lift_spans : forall d off segs evs,
    forallb gseg_ok segs = true -> res_map (pseg_event d off) segs = Ok evs -> positive evs ->
    rmap screens (spans_of (read off (map (pseg_line d) segs))) = rmap screens (expected_with join_threshold evs).
  Proof.
    intros d off segs evs Hok He Hp. pose proof (lift_read_batches d off segs evs Hok He Hp) as H.
    destruct (expected_with join_threshold evs) as [spans|e]; cbn [rmap].
    - destruct H as (bl & Fb & Hf & <- & ->). cbn [spans_of rmap]. rewrite (spans_gbatches bl Fb), screens_batches_gen.
      + rewrite map_map. reflexivity.
      + rewrite Forall_forall in *. intros b Hb. apply in_map_iff in Hb. destruct Hb as (g & <- & Hg).
        exact (bgood_expected g (Fb g Hg)).
    - rewrite H. reflexivity.
  Qed.

  (* ---- 7. C05: the property oracle -------------------------------------------------------------------------------------- *)
  Lemma loads_ok_gbatches : forall bl prev, Forall bgood bl -> wf_spans prev (map snd bl) ->
    loads_ok (map gload bl) (map observe (flat_map gcaps bl)) prev = true.
  Proof.
    intros bl prev F. revert prev. induction F as [|[[ld caps] [s e]] bl Hb F IH]; intros prev W; [reflexivity|].
    cbn [map snd wf_spans] in W. destruct W as (Hlo & Hlt & W). destruct Hb as (_ & _ & _ & Ho & _). cbn [fst snd] in Ho.
    cbn [map gload fst flat_map loads_ok]. rewrite map_app. unfold gcaps at 1. cbn [fst snd].
    rewrite (Ho e Hlt). rewrite (IH (Some s) W), andb_true_r.
    destruct prev as [p|]; [|reflexivity]. cbn [lt_opt] in Hlo.
    destruct (Qle_bool s p) eqn:E; [|reflexivity]. apply Qle_bool_iff in E. exfalso. exact (Qlt_not_le _ _ Hlo E).
  Qed.

  Lemma ploads_class : forall segs, forallb gseg_ok segs = true -> Forall (fun l => lc_ok l = true) (ploads_of segs).
  Proof.
    induction segs as [|s segs IH]; intros H; [constructor|].
    rewrite forallb_cons in H. apply andb_true_iff in H. destruct H as [Hs Ht]. unfold ploads_of in *. cbn [flat_map].
    destruct s as [tc l|tc]; cbn [app]; [constructor; [exact Hs|]|]; exact (IH Ht).
  Qed.

  (* C05: the whole program, as the harness observes it, satisfies the property oracle *)
  Theorem lift_ok : forall d off segs evs caps,
    forallb gseg_ok segs = true -> res_map (pseg_event d off) segs = Ok evs -> positive evs -> after_show None evs ->
    read off (map (pseg_line d) segs) = ROk caps ->
    ok_c05 (mkProg d (ploads_of segs)) (Ok (map observe caps)) = true.
  Proof.
    intros d off segs evs caps Hok He Hp Ha Hread. pose proof (lift_read_batches d off segs evs Hok He Hp) as H.
    destruct (expected_with join_threshold evs) as [spans|e] eqn:Ee; [|rewrite H in Hread; discriminate].
    destruct H as (bl & Fb & Hf & Hs & Hr). rewrite Hr in Hread. inversion Hread. subst caps.
    unfold ok_c05. cbn [pg_loads]. rewrite <- Hf. apply loads_ok_gbatches; [exact Fb|].
    rewrite Hs. exact (expected_wf _ evs spans Ha Ee).
  Qed.

  (* with the read outcome made explicit: a stream whose expected spans contain no flash is read, and meets the oracle *)
  Corollary lift : forall d off segs evs spans,
    forallb gseg_ok segs = true -> res_map (pseg_event d off) segs = Ok evs -> positive evs -> after_show None evs ->
    expected_with join_threshold evs = Ok spans ->
    exists caps, read off (map (pseg_line d) segs) = ROk caps /\
                 ok_c05 (mkProg d (ploads_of segs)) (Ok (map observe caps)) = true /\
                 dom_c05 (mkProg d (ploads_of segs)) = true.
  Proof.
    intros d off segs evs spans Hok He Hp Ha Ee. pose proof (lift_read_batches d off segs evs Hok He Hp) as H.
    rewrite Ee in H. destruct H as (bl & Fb & Hf & Hs & Hr). exists (flat_map gcaps bl). split; [exact Hr|split].
    - exact (lift_ok d off segs evs _ Hok He Hp Ha Hr).
    - unfold dom_c05. cbn [pg_loads]. pose proof (ploads_class segs Hok) as Fl.
      destruct (ploads_of segs) as [|l0 ls] eqn:El.
      + exfalso. destruct bl as [|b bl']; [|discriminate Hf]. cbn [map] in Hs. subst spans.
        unfold expected_with in Ee. cbv zeta in Ee. destruct (existsb flash _); [discriminate|].
        destruct (close_gaps _ _); discriminate.
      + apply forallb_forall. intros l Hl. rewrite Forall_forall in Fl. exact (H_wf l (Fl l Hl)).
  Qed.
End Lift.


(* ==== B. the rich loads of stage 5b as an instance ===================================================================== *)
(* ---- 8. the load line of stage 5b from any between-lines state ------------------------------------------------------- *)
(* the prologue ENM RCL from any pop-on state; the doubled RCL sets double_starter, a single RCL unsets it: r_dstart = d *)
Lemma prologue_gen7 : forall d st tk l ds c pa ro q tm tc fr off nx, last_is l w_enm = false ->
  exists l0, tws (mkR st tk l ds c pa ro MPop q tm tc fr off None) (ctl d (ctrl_word 46) ++ ctl d (ctrl_word 32)) nx
   = mkR st (tracker_reset tk) l0 d creator0 pa ro MPop q tm tc (fr + (if d then 4 else 2)) off None
   /\ (l0 = LNone \/ l0 = LWord w_rcl).
Proof.
  intros d st tk l ds c pa ro q tm tc fr off nx Hl. change (ctrl_word 46) with w_enm. change (ctrl_word 32) with w_rcl.
  destruct d; cbn [ctl app tws].
  - exists LNone. split; [|left; reflexivity].
    rewrite (tw_enm st tk l ds c pa ro q tm tc fr off _ Hl).
    rewrite (tw_second _ w_enm); [|reflexivity|reflexivity|reflexivity]. unfold bump, set_dbl, set_clock. proj_red.
    change (is_cue_start w_enm) with false. cbv iota.
    rewrite tw_rcl by reflexivity.
    rewrite (tw_second _ w_rcl); [|reflexivity|reflexivity|reflexivity]. unfold bump, set_dbl, set_clock. proj_red.
    change (is_cue_start w_rcl) with true. cbv iota. f_equal. lia.
  - exists (LWord w_rcl). split; [|right; reflexivity].
    rewrite (tw_enm st tk l ds c pa ro q tm tc fr off _ Hl). rewrite tw_rcl by reflexivity. f_equal. lia.
Qed.

(* End-Of-Caption on any non-empty buffer of any style, with or without a queued cue *)
Lemma tw_eoc7 : forall st tk l ds c pa ro q tm tc fr off n t, cr_is_empty c = false ->
  last_is l w_eoc = false -> get_time tc fr off = Ok t ->
  translate_word (mkR st tk l ds c pa ro MPop q tm tc fr off None) w_eoc n
  = mkR (popped st q t) tk (LWord w_eoc) ds creator0 pa ro MPop (Some (c, t)) t tc (fr + 1) off None.
Proof.
  intros st tk l ds c pa ro q tm tc fr off n t Hne Hl Hg.
  unfold translate_word. proj_red. rewrite (hd_eoc _ _ _ _ _ _ _ _ _ _ _ _ Hl). proj_red.
  replace (is_command w_eoc || is_pac w_eoc) with true by (vm_compute; reflexivity).
  rewrite translate_command_eoc. unfold with_time. proj_red. rewrite Hg. cbv zeta.
  destruct q as [[c1 t1]|]; proj_red.
  - unfold pop_on. proj_red. unfold store. proj_red. rewrite Hne. proj_red. reflexivity.
  - rewrite Hne. proj_red. reflexivity.
Qed.

Lemma eoc_gen7 : forall d st tk l ds c pa ro q tm tc fr off nx t, cr_is_empty c = false ->
  last_is l w_eoc = false -> get_time tc fr off = Ok t ->
  exists l' ds', tws (mkR st tk l ds c pa ro MPop q tm tc fr off None) (ctl d (ctrl_word 47)) nx
   = mkR (popped st q t) tk l' ds' creator0 pa ro MPop (Some (c, t)) t tc (fr + (if d then 2 else 1)) off None
   /\ (l' = LNone \/ l' = LWord w_eoc).
Proof.
  intros d st tk l ds c pa ro q tm tc fr off nx t Hne Hl Hg. change (ctrl_word 47) with w_eoc.
  destruct (ctl_pair d w_eoc nx _ _ (fun n => tw_eoc7 st tk l ds c pa ro q tm tc fr off n t Hne Hl Hg) eq_refl eq_refl eq_refl)
    as (l1 & ds1 & E1 & Hl1).
  red_in E1. rewrite E1. exists l1, ds1. split; [|exact Hl1]. f_equal. destruct d; lia.
Qed.

(* what is known about the creator queued for a rich load: the nodes of stage 5b, some style *)
Definition good7 (ld : load) (cr : creator) : Prop := exists sty, cr = mkCr (load_nodes5b ld) sty.

Lemma load_line7 : forall d off ld st tk l ds q tm tc fr tc' t, rich_load_any ld = true -> last_is l w_enm = false ->
  get_time tc' (Z.of_nat (length (emit_load d ld)) - (if d then 2 else 1)) off = Ok t ->
  exists cr tk' l' ds' fr',
    translate_line (B off st tk l ds q tm tc fr) (tc', emit_load d ld)
    = B off (popped st q t) tk' l' ds' (Some (cr, t)) t tc' fr'
    /\ good7 ld cr /\ last_is l' w_edm = false /\ last_is l' w_enm = false.
Proof.
  intros d off ld st tk l ds q tm tc fr tc' t H Hl Hg. rewrite translate_line_B. unfold B.
  destruct (rich_load_any_parts ld H) as (r & rest & -> & Hrow & Frest & Hch).
  destruct (rich_facts r Hrow) as (_ & _ & Hk & _ & _ & _ & _ & _ & _ & Hne & _).
  assert (El : emit_load d (r :: rest) = (ctl d (ctrl_word 46) ++ ctl d (ctrl_word 32)) ++ emit_row d r
               ++ flat_map (emit_row d) rest ++ ctl d (ctrl_word 47)).
  { unfold emit_load. cbn [flat_map]. rewrite <- !app_assoc. reflexivity. }
  rewrite El in *. rewrite !app_length, !Nat2Z.inj_add, !ctl_length in Hg.
  rewrite (tws_app (ctl d (ctrl_word 46) ++ ctl d (ctrl_word 32))), (tws_app (emit_row d r)),
          (tws_app (flat_map (emit_row d) rest)).
  destruct (prologue_gen7 d st tk l ds creator0 creator0 creator0 q tm tc' 0 off
              (nxt (emit_row d r ++ flat_map (emit_row d) rest ++ ctl d (ctrl_word 47)) None) Hl)
    as (l0 & -> & Hl0).
  destruct (pac_row_facts2 r Hrow) as (_ & _ & _ & C & _).
  assert (Hc0 : last_contains l0 (pac_word (rw_row r) (pac_attr r)) = false).
  { destruct Hl0 as [->| ->]; [reflexivity|]. cbn [last_contains]. apply Z.eqb_neq. intros E. apply (cf_ctl _ C).
    rewrite <- E. unfold ctl_words. cbn [In]. tauto. }
  assert (R1 : exists l1, tws (RS st d SNone creator0 creator0 q tm tc' off (tracker_reset tk) l0 [] (0 + (if d then 4 else 2))) (emit_row d r)
                 (nxt (flat_map (emit_row d) rest ++ ctl d (ctrl_word 47)) None)
               = RS st d (sty_of r) creator0 creator0 q tm tc' off (mkTk [row_pos r] None false (row_pos r)) l1
                    (pre_of r ++ [nTxt (rich_text r) (row_pos r)]) (0 + (if d then 4 else 2) + Z.of_nat (length (emit_row d r)))
               /\ rowlast l1 /\ last_is l1 w_eoc = false).
  { unfold pre_of, sty_of, tracker_reset. destruct (rw_ital r) eqn:Hit.
    - edestruct (row_run5b st d creator0 creator0 q tm tc' off r SNone (mkTk [] None false (tk_default tk)) l0 [] (0 + (if d then 4 else 2))
                   (nxt (flat_map (emit_row d) rest ++ ctl d (ctrl_word 47)) None)) as (l1 & E1 & Hl1).
      { exact Hrow. }
      { rewrite tracker_first, Hit. reflexivity. }
      { exact Hc0. }
      { apply pac_ready_reset. reflexivity. }
      { unfold tab_eff. cbn [app has_break_before rev has_break_before_rev is_text is_break i_kind current_position tk_pos].
        rewrite <- (tracker_first (tk_default tk)). apply tracker_new. exact Hk. }
      { intros s. apply (add_chars_fresh (row_pos r) [] (row_pos r) SOn []). reflexivity. }
      { intros txt0 s. apply add_chars_plain5. }
      exists l1. split; [exact E1|exact Hl1].
    - edestruct (row_run5b st d creator0 creator0 q tm tc' off r SNone (mkTk [] None false (tk_default tk)) l0 [] (0 + (if d then 4 else 2))
                   (nxt (flat_map (emit_row d) rest ++ ctl d (ctrl_word 47)) None)) as (l1 & E1 & Hl1).
      { exact Hrow. }
      { rewrite tracker_first, Hit. reflexivity. }
      { exact Hc0. }
      { apply pac_ready_reset. reflexivity. }
      { unfold tab_eff. cbn [has_break_before rev has_break_before_rev].
        rewrite <- (tracker_first (tk_default tk)). apply tracker_new. exact Hk. }
      { intros s. apply add_chars_first5. }
      { intros txt s. apply (add_chars_plain5 SNone (row_pos r) [] (row_pos r) []). }
      exists l1. split; [exact E1|exact Hl1]. }
  destruct R1 as (l1 & E1 & Hl1 & Hle1). unfold RS in E1. fold creator0 in E1. rewrite E1.
  destruct (rows_run5b st d creator0 creator0 q tm tc' off rest Frest (nxt (ctl d (ctrl_word 47)) None)
              (pre_of r) (rich_text r) (row_pos r) [] (rw_row r) (rw_indent r + rw_tab r) (row_pos r) l1
              (0 + (if d then 4 else 2) + Z.of_nat (length (emit_row d r))) (sty_of r) (rp0 r) (rp0 r) Hch Hl1 Hle1 eq_refl)
    as (tk2 & l2 & sty2 & E2 & Hl2).
  unfold RS in E2. rewrite E2.
  replace (son (sty_of r)) with (rw_ital r) by (unfold sty_of; destruct (rw_ital r); reflexivity).
  set (f := 0 + (if d then 4 else 2) + Z.of_nat (length (emit_row d r)) + Z.of_nat (length (flat_map (emit_row d) rest))) in *.
  replace ((if d then 2 else 1) + (if d then 2 else 1) + (Z.of_nat (length (emit_row d r)) +
           (Z.of_nat (length (flat_map (emit_row d) rest)) + (if d then 2 else 1))) - (if d then 2 else 1)) with f in Hg
    by (unfold f; destruct d; lia).
  destruct (eoc_gen7 d st tk2 l2 d
              (mkCr (pre_of r ++ nTxt (rich_text r) (row_pos r) :: tailS SA false rest (row_pos r) (rw_row r) (rw_ital r) (rp0 r) (rp0 r)) sty2)
              creator0 creator0 q tm tc' f off None t) as (l3 & ds3 & E3 & Hl3).
  { unfold cr_is_empty. cbn [cr_nodes]. rewrite existsb_app. cbn [existsb i_text].
    destruct (rich_text r); [congruence|]. cbn [nonempty orb]. rewrite orb_true_r. reflexivity. }
  { exact Hl2. }
  { exact Hg. }
  eexists _, tk2, l3, ds3, (f + (if d then 2 else 1)). split; [exact E3|].
  split; [exists sty2; reflexivity|]. destruct Hl3 as [->| ->]; split; reflexivity.
Qed.

(* ---- 9. what is stored for a rich load: the batch caps5b, whatever the stash holds ----------------------------------- *)
Lemma store_load7 : forall st t1 t2 r t sty, rich_row_any r = true -> Forall (fun r => rich_row_any r = true) t ->
  create_and_store st (mkCr (load_nodes5b (r :: t)) sty) t1 t2 = stash_extend st (caps5b t1 t2 (r :: t)).
Proof.
  intros st t1 t2 r t sty Hrow F. destruct (rich_facts r Hrow) as (_ & _ & _ & _ & _ & _ & _ & _ & _ & Hne & _).
  unfold create_and_store.
  assert (E : cr_is_empty (mkCr (load_nodes5b (r :: t)) sty) = false).
  { unfold cr_is_empty. cbn [cr_nodes load_nodes5b]. rewrite existsb_app. cbn [existsb i_text].
    destruct (rich_text r); [congruence|]. cbn [nonempty orb]. rewrite orb_true_r. reflexivity. }
  rewrite E. cbn [cr_nodes]. rewrite (format_load5b r t Hrow F). reflexivity.
Qed.

(* captions that observe as the expected ones of stage 5b *)
Lemma obs_forall2 : forall t1 t2 caps es, map observe caps = map (ocap5b t1 t2) es -> Forall good_ecap5b es ->
  Forall2 (fun c e => observe c = ocap5b t1 t2 e /\ good_ecap5b e) caps es.
Proof.
  intros t1 t2. induction caps as [|c caps IH]; intros [|e es] Ho F; try discriminate Ho; [constructor|].
  cbn [map] in Ho. apply cons_eq_inv in Ho. destruct Ho as [H1 H2]. inversion F; subst. constructor; [split; assumption|].
  apply IH; assumption.
Qed.

Lemma filter_nil_all : forall A (f : A -> bool) l x, filter f l = [] -> In x l -> f x = false.
Proof.
  intros A f. induction l as [|a l IH]; intros x H Hx; [destruct Hx|]. cbn [filter] in H.
  destruct (f a) eqn:E; [discriminate|]. destruct Hx as [<-|Hx]; [exact E|exact (IH x H Hx)].
Qed.

Lemma obs_caps_facts : forall t1 t2 caps es, Forall2 (fun c e => observe c = ocap5b t1 t2 e /\ good_ecap5b e) caps es ->
  Forall (fun c => pc_start c = t1 /\ pc_end c = t2 /\ has_nodes c = true) caps /\
  (forall c ln, In c caps -> In ln (lines_of (cap_text c)) -> (length ln <= 32)%nat).
Proof.
  intros t1 t2 caps es F2. induction F2 as [|c e caps es [H G] F2 [IH1 IH2]]; [split; [constructor|intros c ln []]|].
  split.
  - constructor; [|exact IH1]. pose proof H as H'. unfold observe, ocap5b in H'. injection H' as A1 A2 A3 _.
    split; [exact A1|split; [exact A2|]]. unfold has_nodes. destruct (pc_nodes c) eqn:E; [|reflexivity].
    exfalso. cbn [map] in A3. destruct G as (_ & _ & Hne & _). symmetry in A3. exact (onodes5b_nonempty _ Hne A3).
  - intros c0 ln [<-|Hc] Hln; [|exact (IH2 c0 ln Hc Hln)].
    pose proof (obs_not_long t1 t2 c e H G) as N. pose proof (filter_nil_all _ _ _ ln N Hln) as L. unfold spec_long in L. lia.
Qed.

(* the oracle on the expected observation, followed by the rest of the observation *)
Lemma load_ok_rest5b : forall t1 t2 es rest, Forall good_ecap5b es -> (t1 < t2)%Q -> forall span,
  span = None \/ span = Some (t1, t2) ->
  load_ok es (map (ocap5b t1 t2) es ++ rest) span = Some (rest, match es with [] => span | _ => Some (t1, t2) end).
Proof.
  intros t1 t2 es rest F Hlt. induction F as [|e es He F IH]; intros span Hs; [reflexivity|].
  cbn [map app load_ok]. rewrite (cap_ok_good5b t1 t2 e He Hlt). cbn [andb].
  assert (Hq : match span with
               | Some (s, t) => Qeq_bool s (o_start (ocap5b t1 t2 e)) && Qeq_bool t (o_end (ocap5b t1 t2 e))
               | None => true
               end = true).
  { destruct Hs as [->| ->]; [reflexivity|]. cbn [ocap5b o_start o_end].
    apply andb_true_iff. split; apply Qeq_bool_iff; reflexivity. }
  rewrite Hq. cbn [ocap5b o_start o_end]. rewrite IH by (right; reflexivity). destruct es; reflexivity.
Qed.

Definition oset_end (e : Q) (o : ocap) : ocap := mkO (o_start o) e (o_nodes o) (o_xy o).
Lemma observe_set_end : forall e c, observe (set_end e c) = oset_end e (observe c).
Proof. reflexivity. Qed.

(* the batch stored for a rich load shown at s: the caption creator's output of stage 5b, with some end *)
Definition caps7 (ld : load) (s : Q) (caps : list precap) : Prop := exists t1, caps = caps5b s t1 ld.

Lemma good7_store : forall ld cr st t0 t1, rich_load_any ld = true -> good7 ld cr ->
  exists caps, create_and_store st cr t0 t1 = stash_extend st caps /\ caps <> [] /\
    Forall (fun c => pc_start c = t0 /\ pc_end c = t1 /\ has_nodes c = true) caps /\
    (forall c ln, In c caps -> In ln (lines_of (cap_text c)) -> (length ln <= 32)%nat) /\
    (forall e, (t0 < e)%Q -> forall rest,
       load_ok (expected_load ld) (map observe (map (set_end e) caps) ++ rest) None = Some (rest, Some (t0, e))) /\
    caps7 ld t0 caps.
Proof.
  intros ld cr st t0 t1 H [sty ->]. destruct (rich_load_any_parts ld H) as (r & rest & -> & Hrow & Frest & _).
  exists (caps5b t0 t1 (r :: rest)). split; [exact (store_load7 st t0 t1 r rest sty Hrow Frest)|].
  pose proof (caps5b_observe t0 t1 r rest Hrow Frest) as Ho.
  pose proof (expected_load_good5b r rest Hrow Frest) as Fg.
  pose proof (expected_load_nonempty r rest) as Hne.
  destruct (obs_caps_facts t0 t1 _ _ (obs_forall2 t0 t1 _ _ Ho Fg)) as [F1 F2].
  split; [|split; [exact F1|split; [exact F2|split; [|exists t1; reflexivity]]]].
  - intros E. rewrite E in Ho. destruct (expected_load (r :: rest)); [congruence|discriminate Ho].
  - intros e Hlt rest0. rewrite (map_map (set_end e) observe).
    rewrite (map_ext _ _ (observe_set_end e)), <- (map_map observe (oset_end e)), Ho, map_map.
    change (fun x : ecap => oset_end e (ocap5b t0 t1 x)) with (ocap5b t0 e).
    rewrite (load_ok_rest5b t0 e _ rest0 Fg Hlt None (or_introl eq_refl)).
    destruct (expected_load (r :: rest)); [congruence|reflexivity].
Qed.

Lemma rich_any_wf : forall ld, rich_load_any ld = true -> load_wf ld = true.
Proof. intros ld H. unfold rich_load_any in H. apply andb_true_iff in H. apply H. Qed.

(* ---- 10. whole programs of rich loads ---------------------------------------------------------------------------------- *)
Definition pseg_ok7 (s : pseg) : bool := match s with PLoad _ l => rich_load_any l | PClear _ => true end.

(* the captions of load i are a batch with the i-th span of the display events *)
Theorem popon_stage7_read_batches : forall d off segs evs,
  forallb pseg_ok7 segs = true -> res_map (pseg_event d off) segs = Ok evs -> positive evs ->
  match expected_with join_threshold evs with
  | Ok spans => exists bl, Forall (bgood caps7) bl /\ map gload bl = ploads_of segs /\ map snd bl = spans /\
                           read off (map (pseg_line d) segs) = ROk (flat_map gcaps bl)
  | Err e => read off (map (pseg_line d) segs) = RErr e
  end.
Proof. exact (lift_read_batches rich_load_any good7 caps7 load_line7 good7_store). Qed.

(* C06, multiplicity version *)
Theorem popon_stage7_spans_mult : forall d off segs evs,
  forallb pseg_ok7 segs = true -> res_map (pseg_event d off) segs = Ok evs -> positive evs ->
  spans_of (read off (map (pseg_line d) segs))
  = rmap (fun spans => flat_map bspans (combine (ploads_of segs) spans)) (expected_with join_threshold evs).
Proof. exact (lift_spans_mult rich_load_any good7 caps7 load_line7 good7_store). Qed.

(* C06 *)
Theorem popon_stage7_spans : forall d off segs evs,
  forallb pseg_ok7 segs = true -> res_map (pseg_event d off) segs = Ok evs -> positive evs ->
  rmap screens (spans_of (read off (map (pseg_line d) segs))) = rmap screens (expected_with join_threshold evs).
Proof. exact (lift_spans rich_load_any good7 caps7 load_line7 good7_store). Qed.

(* C05 *)
Theorem popon_stage7_ok : forall d off segs evs caps,
  forallb pseg_ok7 segs = true -> res_map (pseg_event d off) segs = Ok evs -> positive evs -> after_show None evs ->
  read off (map (pseg_line d) segs) = ROk caps ->
  ok_c05 (mkProg d (ploads_of segs)) (Ok (map observe caps)) = true.
Proof. exact (lift_ok rich_load_any good7 caps7 load_line7 good7_store). Qed.

Theorem popon_stage7 : forall d off segs evs spans,
  forallb (fun s => match s with PLoad _ l => rich_load_any l | PClear _ => true end) segs = true ->
  res_map (pseg_event d off) segs = Ok evs -> positive evs -> after_show None evs ->
  expected_with join_threshold evs = Ok spans ->
  exists caps, read off (map (pseg_line d) segs) = ROk caps /\
               ok_c05 (mkProg d (ploads_of segs)) (Ok (map observe caps)) = true /\
               dom_c05 (mkProg d (ploads_of segs)) = true.
Proof. exact (lift rich_load_any good7 caps7 load_line7 good7_store rich_any_wf). Qed.

(* ---- 11. the captions read, explicitly: load i is read as the caption creator's output of stage 5b with span i ------ *)
Lemma build_set_end : forall e' l s e done cur,
  map (set_end e') (build_captions l s e done cur) = build_captions l s e' (map (set_end e') done) (set_end e' cur).
Proof.
  intros e'. induction l as [|n t IH]; intros s e done cur.
  - cbn [build_captions]. rewrite map_app. reflexivity.
  - cbn [build_captions]. destruct (i_kind n); try (rewrite IH; reflexivity).
    + destruct (nonempty (i_text n)); rewrite IH; reflexivity.
    + rewrite IH, map_app. reflexivity.
Qed.

Lemma caps5b_set_end : forall e t0 t1 l, map (set_end e) (caps5b t0 t1 l) = caps5b t0 e l.
Proof. intros e t0 t1 l. unfold caps5b. rewrite build_set_end. reflexivity. Qed.

Definition bcaps7 (b : batch) : list precap := caps5b (fst (snd b)) (snd (snd b)) (fst b).
Definition bocaps7 (b : batch) : list ocap := map (ocap5b (fst (snd b)) (snd (snd b))) (expected_load (fst b)).

Theorem popon_stage7_read : forall d off segs evs,
  forallb pseg_ok7 segs = true -> res_map (pseg_event d off) segs = Ok evs -> positive evs ->
  match expected_with join_threshold evs with
  | Ok spans => length spans = length (ploads_of segs) /\
                read off (map (pseg_line d) segs) = ROk (flat_map bcaps7 (combine (ploads_of segs) spans))
  | Err e => read off (map (pseg_line d) segs) = RErr e
  end.
Proof.
  intros d off segs evs Hok He Hp. pose proof (popon_stage7_read_batches d off segs evs Hok He Hp) as H.
  destruct (expected_with join_threshold evs) as [spans|e]; [|exact H].
  destruct H as (bl & Fb & <- & <- & ->). rewrite !map_length. split; [reflexivity|]. f_equal.
  unfold gload. rewrite combine_map2. induction Fb as [|b bl Hb Fb IH]; [reflexivity|].
  cbn [flat_map map]. rewrite IH. f_equal. destruct b as [[ld caps] [s e]]. destruct Hb as (_ & _ & _ & _ & [t1 Hc]).
  unfold gcaps, bcaps7. cbn [fst snd] in *. rewrite Hc. apply caps5b_set_end.
Qed.

(* ... and observed: the lines of the screen rows of every load, italic exactly on the italic rows, with the span of
   the load *)
Theorem popon_stage7_observe : forall d off segs evs caps,
  forallb pseg_ok7 segs = true -> res_map (pseg_event d off) segs = Ok evs -> positive evs ->
  read off (map (pseg_line d) segs) = ROk caps ->
  exists spans, expected_with join_threshold evs = Ok spans /\ length spans = length (ploads_of segs) /\
                map observe caps = flat_map bocaps7 (combine (ploads_of segs) spans).
Proof.
  intros d off segs evs caps Hok He Hp Hread. pose proof (popon_stage7_read d off segs evs Hok He Hp) as H.
  destruct (expected_with join_threshold evs) as [spans|e]; [|rewrite H in Hread; discriminate].
  destruct H as [Hlen Hr]. rewrite Hr in Hread. inversion Hread. subst caps. exists spans. split; [reflexivity|split; [exact Hlen|]].
  pose proof (ploads_class rich_load_any segs Hok) as Fl.
  assert (Fc : Forall (fun b : batch => rich_load_any (fst b) = true) (combine (ploads_of segs) spans)).
  { rewrite Forall_forall in *. intros [ld p] Hb. apply Fl. exact (in_combine_l _ _ _ _ Hb). }
  revert Fc. generalize (combine (ploads_of segs) spans). intros bl Fc. clear -Fc.
  induction Fc as [|[ld [s e]] bl Hb Fc IH]; [reflexivity|]. cbn [flat_map]. rewrite map_app, IH. f_equal.
  cbn [fst] in Hb. destruct (rich_load_any_parts ld Hb) as (r & rest & -> & Hrow & Frest & _).
  unfold bcaps7, bocaps7. cbn [fst snd]. exact (caps5b_observe s e r rest Hrow Frest).
Qed.

(* ---- 12. the basic loads of stage 6 as an instance: stage 6 re-derived ------------------------------------------------ *)
Lemma concat_nil_all : forall A (ll : list (list A)) l, concat ll = [] -> In l ll -> l = [].
Proof.
  intros A. induction ll as [|a ll IH]; intros l H Hl; [destruct Hl|]. cbn [concat] in H. apply app_eq_nil in H.
  destruct H as [H1 H2]. destruct Hl as [<-|Hl]; [exact H1|exact (IH l H2 Hl)].
Qed.

Lemma basic_store : forall ld cr st t0 t1, basic_load ld = true -> cr = lcr ld ->
  exists caps, create_and_store st cr t0 t1 = stash_extend st caps /\ caps <> [] /\
    Forall (fun c => pc_start c = t0 /\ pc_end c = t1 /\ has_nodes c = true) caps /\
    (forall c ln, In c caps -> In ln (lines_of (cap_text c)) -> (length ln <= 32)%nat) /\
    (forall e, (t0 < e)%Q -> forall rest,
       load_ok (expected_load ld) (map observe (map (set_end e) caps) ++ rest) None = Some (rest, Some (t0, e))) /\
    caps = lcaps ld t0 t1.
Proof.
  intros ld cr st t0 t1 H ->. destruct (basic_load_expected ld H) as [Hne Fg].
  exists (lcaps ld t0 t1). split; [exact (store_load6 st ld t0 t1 H)|]. unfold lcaps.
  split; [destruct (expected_load ld); [congruence|discriminate]|]. split; [|split; [|split; [|reflexivity]]].
  - pose proof (has_nodes_caps t0 t1 _ Fg) as Hf. rewrite Forall_forall. intros c Hc.
    assert (Hn : In c (filter has_nodes (map (cap_of t0 t1) (expected_load ld)))) by (rewrite Hf; exact Hc).
    apply filter_In in Hn. apply in_map_iff in Hc. destruct Hc as (x & <- & _). split; [reflexivity|split; [reflexivity|apply Hn]].
  - intros c ln Hc Hln. pose proof (caps_not_long t0 t1 _ Fg) as N. unfold offending in N.
    assert (E : filter spec_long (spec_lines (snd (to_lcap c))) = []).
    { apply (concat_nil_all _ _ _ N). rewrite map_map. apply in_map_iff. exists c. split; [reflexivity|exact Hc]. }
    pose proof (filter_nil_all _ _ _ ln E Hln) as L. unfold spec_long in L. lia.
  - intros e Hlt rest. rewrite !map_map.
    rewrite (map_ext (fun x => observe (set_end e (cap_of t0 t1 x))) (ocap_of t0 e)) by (intros x; exact (observe_cap_of t0 e x)).
    rewrite (load_ok_rest t0 e _ rest Fg Hlt None (or_introl eq_refl)). destruct (expected_load ld); [congruence|reflexivity].
Qed.

Lemma basic_wf : forall ld, basic_load ld = true -> load_wf ld = true.
Proof. intros ld H. unfold basic_load in H. apply andb_true_iff in H. apply H. Qed.

Lemma basic_line : forall d off ld st tk l ds q tm tc fr tc' t, basic_load ld = true -> last_is l w_enm = false ->
  get_time tc' (Z.of_nat (length (emit_load d ld)) - (if d then 2 else 1)) off = Ok t ->
  exists cr tk' l' ds' fr',
    translate_line (B off st tk l ds q tm tc fr) (tc', emit_load d ld)
    = B off (popped st q t) tk' l' ds' (Some (cr, t)) t tc' fr'
    /\ cr = lcr ld /\ last_is l' w_edm = false /\ last_is l' w_enm = false.
Proof.
  intros d off ld st tk l ds q tm tc fr tc' t H Hl Hg.
  destruct (load_line6 d off st tk l ds q tm tc fr tc' ld t H Hl Hg) as (tk' & l' & ds' & fr' & E & H1 & H2).
  exists (lcr ld), tk', l', ds', fr'. auto.
Qed.

Theorem popon_stage6_again : forall d off segs evs spans,
  forallb pseg_ok segs = true -> res_map (pseg_event d off) segs = Ok evs -> positive evs -> after_show None evs ->
  expected_with join_threshold evs = Ok spans ->
  exists caps, read off (map (pseg_line d) segs) = ROk caps /\
               ok_c05 (mkProg d (ploads_of segs)) (Ok (map observe caps)) = true /\
               dom_c05 (mkProg d (ploads_of segs)) = true.
Proof.
  exact (lift basic_load (fun ld cr => cr = lcr ld) (fun ld t0 caps => exists t1, caps = lcaps ld t0 t1) basic_line
              (fun ld cr st t0 t1 H Hc => match basic_store ld cr st t0 t1 H Hc with
                 | ex_intro _ caps (conj A (conj B (conj C (conj D (conj E F))))) =>
                     ex_intro _ caps (conj A (conj B (conj C (conj D (conj E (ex_intro _ t1 F))))))
                 end) basic_wf).
Qed.

(* ---- 13. non-vacuity ---------------------------------------------------------------------------------------------------- *)
(* three rich loads (italic and plain rows, special / extended characters, backspaces; three captions, three, one), two
   clear lines in between (the second one finds nothing on the screen), doubled control codes: the hypotheses of the
   theorems hold, and the model, run directly, returns seven captions, the span of load i on every caption of load i *)
Definition wit_segs7 : list pseg :=
  [PLoad (lit "00:00:01;00") wit_load5b; PClear (lit "00:00:04;00"); PClear (lit "00:00:04;10");
   PLoad (lit "00:00:05;00") wit_load5; PLoad (lit "00:00:08;00") [wit_row 15 0 0 (lit "ok")]].
Example wit_segs7_ok : forallb pseg_ok7 wit_segs7 = true /\ forallb pseg_ok wit_segs7 = false /\
  map (fun l => length (expected_load l)) (ploads_of wit_segs7) = [3; 3; 1]%nat.
Proof. vm_compute. repeat split. Qed.

Example wit_segs7_run :
  let evs := [Show (6200000 # 3); Clear 4000000; Clear (13000000 # 3); Show 6600000; Show (24700000 # 3)] in
  res_map (pseg_event true 0) wit_segs7 = Ok evs /\ positive evs /\ after_show None evs /\
  expected_with join_threshold evs = Ok [(6200000 # 3, 4000000%Q); (6600000%Q, 24700000 # 3); (24700000 # 3, 36700000 # 3)] /\
  spans_of (read 0 (map (pseg_line true) wit_segs7))
  = Ok [(6200000 # 3, 4000000%Q); (6200000 # 3, 4000000%Q); (6200000 # 3, 4000000%Q);
        (6600000%Q, 24700000 # 3); (6600000%Q, 24700000 # 3); (6600000%Q, 24700000 # 3); (24700000 # 3, 36700000 # 3)].
Proof.
  cbv zeta. split; [vm_compute; reflexivity|]. split.
  - intros e [<-|[<-|[<-|[<-|[<-|[]]]]]]; reflexivity.
  - split; [cbn; repeat split|split; vm_compute; reflexivity].
Qed.

(* Open: nothing of the stage-7 plan (GOAL A: the generic lifting; GOAL B: the instance for the loads of stage 5b, plus
   stage 6 re-derived as a second instance). Outside this stage: rows with mid-row codes (no one-load result for them
   yet; once there is one, of the form H_line / H_good, `lift` applies as it stands), and streams whose loads are not
   each on a line of their own. *)
