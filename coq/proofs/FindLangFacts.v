(* C14 wave 7: find_lang (model.Langs) against the specification spec.SpecFindLang; the written class read back. *)
From Coq Require Import List ZArith Lia Bool ZifyBool Arith.
From PV Require Import lib.Sx lib.Str lib.Result model.Langs spec.SpecLangs spec.SpecFindLang model.LangsMerge proofs.LangsFacts.
Import ListNotations.
Open Scope Z_scope.

Lemma sheet_lookup_dict_get : forall c sheet, sheet_lookup c sheet = dict_get c sheet.
Proof. induction sheet as [|[k v] t IH]; [reflexivity|]. cbn [sheet_lookup dict_get]. rewrite IH. reflexivity. Qed.

(* one step of the model = the language the head attribute names, else the rest *)
Lemma find_lang_step : forall a rest styles,
  find_lang (a :: rest) styles = match attr_names styles a with Some l => Some l | None => find_lang rest styles end.
Proof.
  intros [name value] rest styles. cbn [find_lang]. unfold attr_names. cbn [fst snd]. rewrite sheet_lookup_dict_get.
  destruct (str_eqb (lower name) (lit "lang")); [reflexivity|].
  destruct (str_eqb (lower name) (lit "class")); [|reflexivity].
  destruct (dict_get (lower value) styles) as [[l|]|]; reflexivity.
Qed.

Lemma find_lang_hd : forall attrs styles, find_lang attrs styles = hd_error (named_langs styles attrs).
Proof.
  induction attrs as [|a t IH]; intros styles; [reflexivity|]. rewrite find_lang_step. unfold named_langs. cbn [flat_map].
  fold (named_langs styles t). destruct (attr_names styles a); [reflexivity|]. cbn [app]. apply IH.
Qed.

(* the model finds what the specification says: the first attribute that names a language decides *)
Theorem find_lang_first_decider : forall attrs styles, spec_find_lang styles attrs (find_lang attrs styles).
Proof.
  induction attrs as [|a t IH]; intros styles; [constructor|]. rewrite find_lang_step.
  destruct (attr_names styles a) as [l|] eqn:E.
  - exists [], a, t. split; [reflexivity|split; [constructor|exact E]].
  - specialize (IH styles). destruct (find_lang t styles) as [l|].
    + destruct IH as [pre [b [post [H1 [H2 H3]]]]]. exists (a :: pre), b, post. subst t.
      split; [reflexivity|split; [constructor; [exact E|exact H2]|exact H3]].
    + constructor; [exact E|exact IH].
Qed.

(* ... and the specification determines the result: nothing else satisfies it *)
Theorem find_lang_unique : forall attrs styles r, spec_find_lang styles attrs r -> r = find_lang attrs styles.
Proof.
  induction attrs as [|a t IH]; intros styles r H.
  - destruct r as [l|]; [|reflexivity]. destruct H as [pre [b [post [H1 _]]]]. destruct pre; discriminate.
  - rewrite find_lang_step. destruct r as [l|].
    + destruct H as [pre [b [post [H1 [H2 H3]]]]]. destruct pre as [|p pre].
      * inversion H1; subst. rewrite H3. reflexivity.
      * inversion H1; subst. inversion H2; subst. unfold silent in H4. rewrite H4.
        apply IH. exists pre, b, post. split; [reflexivity|split; assumption].
    + inversion H; subst. unfold silent in H2. rewrite H2. apply IH. exact H3.
Qed.

Lemma ostr_eqb_eq : forall a b, ostr_eqb a b = true <-> a = b.
Proof.
  intros [a|] [b|]; cbn; split; intros H; try discriminate; try reflexivity.
  - apply str_eqb_eq in H. subst. reflexivity.
  - inversion H; subst. apply str_eqb_refl'.
Qed.

Theorem find_lang_meets_oracle : forall attrs styles, ok_find_lang styles attrs (find_lang attrs styles) = true.
Proof. intros. unfold ok_find_lang. apply ostr_eqb_eq. apply find_lang_hd. Qed.

(* the decidable oracle says exactly what the relational specification says *)
Theorem ok_find_lang_iff_spec : forall attrs styles r, ok_find_lang styles attrs r = true <-> spec_find_lang styles attrs r.
Proof.
  intros attrs styles r. unfold ok_find_lang. rewrite ostr_eqb_eq, <- find_lang_hd. split; intros H.
  - subst. apply find_lang_first_decider.
  - apply find_lang_unique. exact H.
Qed.

(* attributes that name no language (id=, style=, a class without a language, an unknown class) can be added or
   removed anywhere without changing the language found *)
Theorem find_lang_ignores_silent : forall attrs styles,
  find_lang (filter (fun a => match attr_names styles a with Some _ => true | None => false end) attrs) styles
  = find_lang attrs styles.
Proof.
  induction attrs as [|a t IH]; intros styles; [reflexivity|]. cbn [filter]. rewrite (find_lang_step a t).
  destruct (attr_names styles a) as [l|] eqn:E; [rewrite find_lang_step, E; reflexivity|apply IH].
Qed.

(* the case of attribute names and of class values does not matter *)
Lemma lower_ch_idem : forall c, lower_ch (lower_ch c) = lower_ch c.
Proof. intros c. unfold lower_ch. destruct ((65 <=? c) && (c <=? 90)) eqn:E; [|rewrite E; reflexivity]. replace ((65 <=? c + 32) && (c + 32 <=? 90)) with false by lia. reflexivity. Qed.
Lemma lower_idem : forall s, lower (lower s) = lower s.
Proof. intros s. unfold lower. rewrite map_map. apply map_ext. apply lower_ch_idem. Qed.

Theorem find_lang_case_insensitive : forall attrs styles,
  find_lang (map (fun a => (lower (fst a), if str_eqb (lower (fst a)) (lit "class") then lower (snd a) else snd a)) attrs) styles
  = find_lang attrs styles.
Proof.
  induction attrs as [|[n v] t IH]; intros styles; [reflexivity|]. cbn [map fst snd]. rewrite !find_lang_step, IH.
  unfold attr_names. cbn [fst snd]. rewrite lower_idem.
  destruct (str_eqb (lower n) (lit "lang")) eqn:E1.
  - apply str_eqb_eq in E1. rewrite E1. reflexivity.
  - destruct (str_eqb (lower n) (lit "class")); [rewrite lower_idem|]; reflexivity.
Qed.

(* ---- the language a paragraph is listed under, and the reader model with the SPECIFICATION's tags ---------------- *)
Theorem p_lang_is_spec : forall default attrs styles, p_lang default attrs styles = spec_p_lang default styles attrs.
Proof. intros. unfold p_lang, spec_p_lang. rewrite find_lang_hd. reflexivity. Qed.

Definition spec_tagged (default : str) (styles : fl_sheet) (ps : list sami_p) : list (str * scue * bool) :=
  map (fun p => (spec_p_lang default styles (sp_attrs p), (sp_start p * 1000, sp_text p), is_blank_text (sp_text p))) ps.

Theorem sami_read_groups_by_spec_lang : forall default styles ps,
  sami_read default styles ps
  = spec_group (map (fun t : str * scue * bool => (fst (fst t), if snd t then @nil scue else [snd (fst t)]))
                    (spec_tagged default styles ps))
  /\ ok_sami_read (spec_tagged default styles ps) (sami_read default styles ps) = true.
Proof.
  intros. assert (E : spec_tagged default styles ps = sami_tagged default styles ps).
  { unfold spec_tagged, sami_tagged, tag_of. apply map_ext. intros p. rewrite p_lang_is_spec. reflexivity. }
  rewrite E. split; [apply sami_read_groups|apply sami_read_meets_oracle].
Qed.

Lemma first_seen_fold : forall ls acc, NoDup acc ->
  fold_left (fun acc l => if mem l acc then acc else acc ++ [l]) ls acc = acc ++ first_seen (rev acc) ls.
Proof.
  induction ls as [|l t IH]; intros acc N; cbn [fold_left first_seen]; [rewrite app_nil_r; reflexivity|].
  assert (M : existsb (str_eqb l) (rev acc) = mem l acc).
  { unfold mem. destruct (existsb (str_eqb l) acc) eqn:E.
    - apply existsb_exists in E. destruct E as [x [H1 H2]]. apply existsb_exists. exists x. split; [apply (proj1 (in_rev acc x)); exact H1|exact H2].
    - destruct (existsb (str_eqb l) (rev acc)) eqn:E2; [|reflexivity]. apply existsb_exists in E2. destruct E2 as [x [H1 H2]].
      apply (proj2 (in_rev acc x)) in H1. assert (existsb (str_eqb l) acc = true) by (apply existsb_exists; exists x; split; assumption). congruence. }
  rewrite M. destruct (mem l acc) eqn:E; [apply IH; exact N|].
  rewrite IH by (apply NoDup_snoc; [exact N|apply mem_false; exact E]).
  rewrite rev_app_distr. cbn [rev app]. rewrite <- app_assoc. reflexivity.
Qed.

Theorem p_langs_meets_oracle : forall default styles ps,
  ok_p_langs default styles ps (fst (p_langs default styles ps)) (snd (p_langs default styles ps)) = true.
Proof.
  intros. unfold ok_p_langs, p_langs. cbn [fst snd].
  assert (E : map (fun a => p_lang default a styles) ps = map (spec_p_lang default styles) ps)
    by (apply map_ext; intros; apply p_lang_is_spec).
  rewrite E. unfold first_appearance. rewrite first_seen_fold by constructor. cbn [rev app].
  assert (R : forall l, strs_eqb l l = true) by (induction l as [|x l IH]; [reflexivity|cbn; rewrite str_eqb_refl', IH; reflexivity]).
  rewrite !R. reflexivity.
Qed.

(* ---- write, then read: the class on a written paragraph, looked up in the stylesheet as the PARSER rebuilds it ---- *)
Lemma dict_get_set : forall (V : Type) k k' (v : V) d,
  dict_get k (dict_set k' v d) = if str_eqb k' k then Some v else dict_get k d.
Proof.
  induction d as [|[k0 v0] t IH]; cbn [dict_set dict_get]; [reflexivity|].
  destruct (str_eqb k0 k') eqn:E; cbn [dict_get].
  - apply str_eqb_eq in E. subst k0. destruct (str_eqb k' k); reflexivity.
  - rewrite IH. destruct (str_eqb k0 k) eqn:E2; [|reflexivity].
    apply str_eqb_eq in E2. subst k0. destruct (str_eqb k' k) eqn:E3; [|reflexivity].
    apply str_eqb_eq in E3. subst k'. rewrite str_eqb_refl' in E. discriminate.
Qed.

Lemma read_fold : forall (sheet : list (str * str)) (d0 : sami_styles) c, (forall b, In b sheet -> lower (fst b) = lower c -> fst b = c) ->
  dict_get (lower c) (fold_left (fun d b => dict_set (lower (fst b)) (Some (snd b)) d) sheet d0)
  = match dict_get c (rev sheet) with Some v => Some (Some v) | None => dict_get (lower c) d0 end.
Proof.
  induction sheet as [|[k v] t IH]; intros d0 c Inj; [reflexivity|]. cbn [fold_left fst snd rev].
  rewrite IH by (intros b Hb; apply Inj; right; exact Hb). rewrite dict_get_app.
  destruct (dict_get c (rev t)); [reflexivity|]. rewrite dict_get_set. cbn [dict_get].
  destruct (str_eqb k c) eqn:E.
  - apply str_eqb_eq in E. subst k. rewrite str_eqb_refl'. reflexivity.
  - destruct (str_eqb (lower k) (lower c)) eqn:E2; [|reflexivity].
    apply str_eqb_eq in E2. apply (Inj (k, v) (or_introl eq_refl)) in E2. cbn [fst] in E2. subst k.
    rewrite str_eqb_refl' in E. discriminate.
Qed.

Theorem read_styles_last_block_wins : forall (sheet : list (str * str)) c,
  (forall b, In b sheet -> lower (fst b) = lower c -> fst b = c) ->
  dict_get (lower c) (read_styles sheet) = option_map Some (resolve_class c sheet).
Proof.
  intros sheet c Inj. unfold read_styles, resolve_class. rewrite read_fold by exact Inj.
  destruct (dict_get c (rev sheet)); reflexivity.
Qed.

Lemma dict_get_some_in : forall (V : Type) c (d : list (str * V)) v, dict_get c d = Some v -> In c (map fst d).
Proof.
  induction d as [|[k v0] t IH]; intros v H; [discriminate|]. cbn [dict_get] in H. destruct (str_eqb k c) eqn:E.
  - apply str_eqb_eq in E. left. exact E.
  - right. eapply IH. exact H.
Qed.

Lemma sheet_langs_keys : forall styles langs b, In b (sheet_langs styles langs) -> In (fst b) (map fst styles ++ langs).
Proof.
  intros styles langs b H. unfold sheet_langs in H. fold (style_blocks styles) in H. fold (lang_blocks styles langs) in H.
  apply in_app_iff in H. apply in_app_iff. destruct H as [H|H].
  - left. apply style_blocks_keys. apply in_map. exact H.
  - right. eapply lang_blocks_keys. apply in_map. exact H.
Qed.

Lemma p_class_key : forall styles langs l cap_class, In l langs -> In (p_class l cap_class styles) (map fst styles ++ langs).
Proof.
  intros styles langs l cap_class Hl. apply in_app_iff. unfold p_class. destruct cap_class as [c|]; [|right; exact Hl].
  destruct (dict_get c styles) as [[l0|]|] eqn:D; try (right; exact Hl).
  destruct (str_eqb l0 l); [left; eapply dict_get_some_in; exact D|right; exact Hl].
Qed.

(* write-then-read at the class layer: whatever class a caption carries, the paragraph the writer emits for it under
   language l is read back under l - its class, lower-cased, looked up in the dict the parser rebuilds from the
   written stylesheet, a later block replacing an earlier one.  Hypotheses: those of C14_class_resolves, a non-empty
   language name, and no two different names among the style classes and languages coincide in lower case *)
Theorem written_class_read_back : forall default styles langs l cap_class,
  NoDup (map fst styles) -> NoDup langs -> In l langs -> l <> [] ->
  (forall l0 l', In l0 langs -> dict_get l0 styles = Some (Some l') -> l' = l0) ->
  (forall a b, In a (map fst styles ++ langs) -> In b (map fst styles ++ langs) -> lower a = lower b -> a = b) ->
  reread_lang default (p_class l cap_class styles) (sheet_langs styles langs) = l.
Proof.
  intros default styles langs l cap_class Ns Nl Hl Ne Hc Inj. unfold reread_lang, p_lang. cbn [find_lang].
  change (str_eqb (lower (lit "class")) (lit "lang")) with false.
  change (str_eqb (lower (lit "class")) (lit "class")) with true. cbn iota.
  rewrite read_styles_last_block_wins.
  - rewrite (class_resolves styles langs l cap_class Ns Nl Hl Hc). cbn [option_map]. destruct l; [contradiction|reflexivity].
  - intros b Hb E. apply Inj; [apply sheet_langs_keys; exact Hb|apply p_class_key; exact Hl|exact E].
Qed.
