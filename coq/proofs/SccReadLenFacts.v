(* C15 on the whole reader model: whatever the stream, `read` never returns a line longer than 32 characters, and the
   line-length error names every over-long line of the captions the decoder had stored. *)
From Coq Require Import List ZArith QArith Lia Bool Permutation.
From PV Require Import lib.Sx lib.Str lib.Result model.SccLen model.SccStash model.SccDecoder spec.SpecSccLen.
From PV Require Import proofs.SccLenFacts proofs.SccStashFacts.
Import ListNotations.

Definition stored_caps (off : Q) (ls : list sline) : list lcap := map to_lcap (st_caps (r_stash (run_lines off ls))).

Lemma in_fix_last_nodes : forall l c, In c (fix_last l) -> exists c0, In c0 l /\ pc_nodes c0 = pc_nodes c.
Proof.
  intros l c H. assert (Hn : In (pc_nodes c) (map pc_nodes (fix_last l))) by (apply in_map; exact H).
  rewrite fix_last_nodes in Hn. apply in_map_iff in Hn. destruct Hn as [c0 [E Hin]]. exists c0. split; assumption.
Qed.

Theorem read_never_silent : forall off ls,
  match read off ls with
  | ROk caps => forall c l, In c caps -> In l (spec_lines (cap_text c)) -> (length l <= 32)%nat
  | RLen msg => offending (stored_caps off ls) <> [] /\
                (forall l, In l (offending (stored_caps off ls)) -> names msg l = true) /\
                Permutation (named_lines (stored_caps off ls)) (offending (stored_caps off ls))
  | RErr _ => True
  end.
Proof.
  intros off ls. unfold read, stored_caps.
  destruct (r_err (run_lines off ls)); [exact I|].
  unfold finish_read. set (caps := st_caps (r_stash (run_lines off ls))).
  pose proof (length_check_sound_complete (map to_lcap caps)) as H.
  destruct (length_check (map to_lcap caps)) as [msg|].
  - destruct H as [H1 [H2 [H3 _]]]. split; [exact H1|]. split; [exact H2|exact H3].
  - destruct (existsb is_flash caps); [exact I|].
    destruct caps as [|c0 caps0] eqn:E; [exact I|]. rewrite <- E in *.
    intros c l Hc Hl. apply in_fix_last_nodes in Hc. destruct Hc as [c1 [Hin Hn]].
    apply (H (to_lcap c1) l).
    + apply in_map. exact Hin.
    + unfold to_lcap. cbn [snd]. unfold cap_text in *. rewrite Hn. exact Hl.
Qed.
