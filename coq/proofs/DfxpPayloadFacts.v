(* C07: the <p> payload assembled by _recreate_text / _recreate_span is accepted by the strict content machine
   of the specification (spec/SpecXmlAttr.v) whenever the style nodes are balanced. *)
From Coq Require Import List ZArith Lia Bool ZifyBool Arith.
From PV Require Import lib.Sx lib.Str model.DfxpXml spec.SpecXmlAttr proofs.XmlAttrFacts.
Import ListNotations.
Open Scope Z_scope.

Definition cst (stack : list str) (ev : list xev) (acc : str) : pst :=
  mkPst stack ev [] [] [] (MContent (VNormal acc)).

Lemma xrun_app : forall a b s, xrun s (a ++ b) = match xrun s a with Some s' => xrun s' b | None => None end.
Proof. induction a as [|c t IH]; intros b s; cbn [app xrun]; [reflexivity|]. destruct (xstep s c); [apply IH|reflexivity]. Qed.

(* a fragment that takes the machine from content (stack a) to content (stack b), whatever came before *)
Definition accepts (a b : list str) (frag : str) : Prop :=
  forall ev acc, exists ev' acc', xrun (cst a ev acc) frag = Some (cst b ev' acc').

Lemma accepts_app : forall a b c f g, accepts a b f -> accepts b c g -> accepts a c (f ++ g).
Proof.
  intros a b c f g H1 H2 ev acc. destruct (H1 ev acc) as (ev1 & acc1 & E1). destruct (H2 ev1 acc1) as (ev2 & acc2 & E2).
  exists ev2, acc2. rewrite xrun_app, E1. exact E2.
Qed.
Lemma accepts_nil : forall a, accepts a a [].
Proof. intros a ev acc. exists ev, acc. reflexivity. Qed.

(* ---- character data --------------------------------------------------------------------------------------- *)
Lemma xrun_chardata : forall w st ev v, has 60 w = false -> has 62 w = false ->
  xrun (mkPst st ev [] [] [] (MContent v)) w
  = match vrun v w with Some v' => Some (mkPst st ev [] [] [] (MContent v')) | None => None end.
Proof.
  induction w as [|c t IH]; intros st ev v H G; [reflexivity|].
  unfold has in H, G. cbn [existsb] in H, G. apply orb_false_elim in H. destruct H as [H1 H2].
  apply orb_false_elim in G. destruct G as [G1 G2].
  cbn [xrun xstep vrun]. assert (E : (c =? 60) = false) by lia. assert (E2 : (c =? 62) = false) by lia. rewrite E, E2. cbn [andb].
  destruct (vstep v c) as [v'|]; [|reflexivity]. apply IH; assumption.
Qed.

Lemma has_lt_free : forall nl quot s, has 60 (flat_map (esc nl quot) s) = false.
Proof.
  intros nl quot s. unfold has. induction s as [|x t IH]; [reflexivity|]. cbn [flat_map]. rewrite existsb_app, IH, orb_false_r.
  unfold esc.
  destruct (x =? 38) eqn:E38; [reflexivity|]. destruct (x =? 62) eqn:E62; [reflexivity|]. destruct (x =? 60) eqn:E60; [reflexivity|].
  destruct (nl && (x =? 10)); [reflexivity|]. destruct (nl && (x =? 13)); [reflexivity|]. destruct (nl && (x =? 9)); [reflexivity|].
  destruct (quot && (x =? 34)); [reflexivity|]. cbn [existsb]. rewrite orb_false_r. lia.
Qed.

Lemma accepts_text : forall a s, forallb is_xml_char s = true -> accepts a a (xml_escape s).
Proof.
  intros a s H ev acc. exists ev, (rev s ++ acc). unfold cst.
  rewrite xml_escape_esc, xrun_chardata by (apply has_lt_free || apply has_gt_free). rewrite vrun_esc by exact H. reflexivity.
Qed.
Lemma accepts_space : forall a, accepts a a [32].
Proof. intros a ev acc. exists ev, (32 :: acc). reflexivity. Qed.

(* ---- the fixed fragments ------------------------------------------------------------------------------------- *)
Lemma accepts_br : forall a, accepts a a br_text.
Proof. intros a ev acc. eexists. eexists. reflexivity. Qed.

Definition span_name : str := lit "span".
Lemma accepts_close_span : forall a, accepts (span_name :: a) a close_span.
Proof. intros a ev acc. eexists. eexists. reflexivity. Qed.

(* ---- attributes ---------------------------------------------------------------------------------------------- *)
Definition valid_name (n : str) : bool :=
  match n with c :: t => is_name_start c && forallb is_name_char t | [] => false end.

Definition tst (stack : list str) (ev : list xev) (tag : str) (attrs : list (str * str)) (ws : bool) : pst :=
  mkPst stack ev tag attrs [] (MInTag ws).

Lemma name_run : forall t n stack ev tag attrs, forallb is_name_char t = true ->
  xrun (mkPst stack ev tag attrs [] (MAttrName n)) t = Some (mkPst stack ev tag attrs [] (MAttrName (rev t ++ n))).
Proof.
  induction t as [|c t IH]; intros n stack ev tag attrs H; [reflexivity|].
  cbn [forallb] in H. apply andb_prop in H. destruct H as [H1 H2].
  cbn [xrun xstep]. rewrite H1, IH by exact H2. cbn [rev]. rewrite <- app_assoc. reflexivity.
Qed.

Lemma attr_value_run : forall body q v0 stack ev tag attrs aname, has q body = false ->
  xrun (mkPst stack ev tag attrs aname (MAttrVal q v0)) body
  = match vrun v0 body with
    | Some v' => Some (mkPst stack ev tag attrs aname (MAttrVal q v'))
    | None => None
    end.
Proof.
  induction body as [|c t IH]; intros q v0 stack ev tag attrs aname H; [reflexivity|].
  unfold has in H. cbn [existsb] in H. apply orb_false_elim in H. destruct H as [H1 H2].
  cbn [xrun xstep vrun]. assert (E : (c =? q) = false) by lia. rewrite E.
  destruct (vstep v0 c) as [v'|]; [|reflexivity]. apply IH. exact H2.
Qed.

Lemma quote_value_shape : forall nl v, forallb is_xml_char v = true ->
  exists q body, quote_value (flat_map (esc nl false) v) = [q] ++ body ++ [q] /\ (q = 34 \/ q = 39) /\
                 has q body = false /\ vrun (VNormal []) body = Some (VNormal (rev v)).
Proof.
  intros nl v H. unfold quote_value. destruct (has 34 (flat_map (esc nl false) v)) eqn:H34.
  - destruct (has 39 (flat_map (esc nl false) v)) eqn:H39.
    + exists 34, (flat_map (esc nl true) v). rewrite quot_esc. repeat split; auto; [apply has_quot_free|].
      rewrite vrun_esc by exact H. rewrite app_nil_r. reflexivity.
    + exists 39, (flat_map (esc nl false) v). repeat split; auto. rewrite vrun_esc by exact H. rewrite app_nil_r. reflexivity.
  - exists 34, (flat_map (esc nl false) v). repeat split; auto. rewrite vrun_esc by exact H. rewrite app_nil_r. reflexivity.
Qed.

Lemma name_start_facts : forall c, is_name_start c = true ->
  is_xml_space c = false /\ (c =? 62) = false /\ (c =? 47) = false /\ is_name_char c = true.
Proof. intros c H. unfold is_name_start, is_xml_space, is_name_char in *. unfold is_name_start. lia. Qed.

(* one attribute, the machine standing in the tag after whitespace *)
Lemma one_attr' : forall name v stack ev tag attrs,
  valid_name name = true -> existsb (fun a => str_eqb (fst a) name) attrs = false -> forallb is_xml_char v = true ->
  xrun (tst stack ev tag attrs true) (name ++ [61] ++ quoteattr v) = Some (tst stack ev tag ((name, v) :: attrs) false).
Proof.
  intros name v stack ev tag attrs Hn Hd Hv. destruct name as [|c t]; [discriminate|].
  cbn [valid_name] in Hn. apply andb_prop in Hn. destruct Hn as [Hc Ht].
  destruct (name_start_facts c Hc) as (F1 & F2 & F3 & F4).
  unfold tst. cbn [app xrun]. cbn [xstep]. rewrite F1, F2, F3, Hc. cbn [andb].
  rewrite xrun_app, name_run by exact Ht.
  assert (R : rev (rev t ++ [c]) = c :: t) by (rewrite rev_app_distr, rev_involutive; reflexivity).
  cbn [app xrun]. cbn [xstep]. rewrite R.
  assert (N61 : is_name_char 61 = false) by reflexivity. rewrite N61. cbn [Z.eqb Pos.eqb]. rewrite Hd.
  unfold quoteattr. rewrite quoteattr_body_esc.
  destruct (quote_value_shape true v Hv) as (q & body & E & Hq & Hh & Hr). rewrite E.
  cbn [app xrun]. cbn [xstep].
  assert (Sq : is_xml_space q = false) by (destruct Hq; subst; reflexivity).
  assert (Qq : (q =? 34) || (q =? 39) = true) by lia. rewrite Sq, Qq.
  rewrite xrun_app, attr_value_run by exact Hh. rewrite Hr. cbn [xrun xstep]. rewrite Z.eqb_refl, rev_involutive. reflexivity.
Qed.

Lemma one_attr : forall name v stack ev tag attrs ws,
  valid_name name = true -> existsb (fun a => str_eqb (fst a) name) attrs = false -> forallb is_xml_char v = true ->
  xrun (tst stack ev tag attrs ws) ([32] ++ name ++ [61] ++ quoteattr v) = Some (tst stack ev tag ((name, v) :: attrs) false).
Proof.
  intros. unfold tst at 1. cbn [app xrun]. cbn [xstep]. change (is_xml_space 32) with true. cbv iota.
  apply one_attr'; assumption.
Qed.

(* names valid and pairwise distinct (and not yet in the tag), values made of XML characters *)
Fixpoint attrs_ok (attrs : list (str * str)) (seen : list (str * str)) : Prop :=
  match attrs with
  | [] => True
  | (n, v) :: t => valid_name n = true /\ existsb (fun a => str_eqb (fst a) n) seen = false
                   /\ forallb is_xml_char v = true /\ attrs_ok t ((n, v) :: seen)
  end.

Lemma attrs_run : forall attrs seen stack ev tag ws, attrs_ok attrs seen ->
  xrun (tst stack ev tag seen ws) (span_attrs attrs)
  = Some (tst stack ev tag (rev attrs ++ seen) (match attrs with [] => ws | _ => false end)).
Proof.
  induction attrs as [|[n v] t IH]; intros seen stack ev tag ws H; [reflexivity|].
  destruct H as (H1 & H2 & H3 & H4). unfold span_attrs. cbn [flat_map fst snd]. fold (span_attrs t).
  rewrite xrun_app. rewrite (one_attr n v stack ev tag seen ws H1 H2 H3).
  rewrite IH by exact H4. cbn [rev]. rewrite <- app_assoc. cbn [app]. destruct t; reflexivity.
Qed.

Lemma accepts_open_span : forall a attrs, attrs_ok attrs [] ->
  accepts a (span_name :: a) (lit "<span" ++ span_attrs attrs ++ [62]).
Proof.
  intros a attrs H ev acc. destruct attrs as [|[n v] t].
  - eexists. eexists. reflexivity.
  - destruct H as (H1 & H2 & H3 & H4). unfold span_attrs. cbn [flat_map fst snd]. fold (span_attrs t).
    (* "<span " brings the machine into the tag, whitespace seen *)
    assert (P : xrun (cst a ev acc) (lit "<span" ++ [32]) = Some (tst a (map EText acc ++ ev) span_name [] true)) by reflexivity.
    replace (lit "<span" ++ (([32] ++ n ++ [61] ++ quoteattr v) ++ span_attrs t) ++ [62])
      with ((lit "<span" ++ [32]) ++ (n ++ [61] ++ quoteattr v) ++ span_attrs t ++ [62])
      by (rewrite <- !app_assoc; reflexivity).
    rewrite xrun_app, P, xrun_app, (one_attr' n v a _ span_name [] H1 H2 H3), xrun_app, (attrs_run t _ a _ span_name false H4).
    eexists. eexists. cbn [xrun xstep]. destruct t; reflexivity.
Qed.

(* ---- rstrip ------------------------------------------------------------------------------------------------- *)
Lemma space_facts : forall c, is_space c = true -> (c =? 59) = false /\ (c =? 62) = false /\ (c =? 60) = false /\ (c =? 38) = false.
Proof. intros c H. unfold is_space in H. lia. Qed.

Lemma back1 : forall s c st ev acc, xstep s c = Some (cst st ev acc) -> is_space c = true ->
  exists acc0, s = cst st ev acc0.
Proof.
  intros [stack ev' tag attrs aname m] c st ev acc H Hs.
  destruct (space_facts c Hs) as (F59 & F62 & F60 & F38). unfold cst in *.
  destruct m; cbn [xstep] in H; rewrite ?F62, ?F60 in H;
    repeat match type of H with
           | context [if ?b then _ else _] => destruct b eqn:?
           | context [match ?x with _ => _ end] => destruct x eqn:?
           end; try discriminate; try (inversion H; fail).
  all: try (inversion H; subst; clear H;
            match goal with
            | E : vstep ?v _ = Some (VNormal _) |- _ =>
                destruct v as [a0|a0 nm]; cbn [vstep] in E; rewrite ?F59, ?F38, ?F60 in E;
                repeat match type of E with
                       | context [if ?b then _ else _] => destruct b eqn:?
                       | context [match ?x with _ => _ end] => destruct x eqn:?
                       end; try discriminate; inversion E; subst; eexists; reflexivity
            end).
Qed.

Lemma lstrip_split : forall f l, exists w, l = w ++ lstrip_by f l /\ forallb f w = true.
Proof.
  induction l as [|c t IH]; [exists []; split; reflexivity|]. cbn [lstrip_by]. destruct (f c) eqn:E.
  - destruct IH as (w & E1 & E2). exists (c :: w). split; [cbn [app]; f_equal; exact E1|cbn [forallb]; rewrite E, E2; reflexivity].
  - exists []. split; reflexivity.
Qed.
Lemma rstrip_split : forall s, exists w, s = rstrip s ++ w /\ forallb is_space w = true.
Proof.
  intros s. unfold rstrip, rstrip_by. destruct (lstrip_split is_space (rev s)) as (w & E1 & E2).
  exists (rev w). split.
  - rewrite <- rev_app_distr, <- E1, rev_involutive. reflexivity.
  - rewrite forallb_forall in *. intros x Hx. apply E2. apply in_rev. exact Hx.
Qed.

Lemma back_run : forall w s0 l0 st ev acc, forallb is_space w = true ->
  xrun s0 (l0 ++ w) = Some (cst st ev acc) -> exists acc0, xrun s0 l0 = Some (cst st ev acc0).
Proof.
  induction w as [|c w' IH] using rev_ind; intros s0 l0 st ev acc Hw H.
  - rewrite app_nil_r in H. exists acc. exact H.
  - rewrite forallb_app in Hw. apply andb_prop in Hw. destruct Hw as [Hw Hc]. cbn [forallb] in Hc. rewrite andb_true_r in Hc.
    rewrite app_assoc, xrun_app in H. destruct (xrun s0 (l0 ++ w')) as [s1|] eqn:E; [|discriminate].
    cbn [xrun] in H. destruct (xstep s1 c) as [s2|] eqn:X; [|discriminate]. inversion H; subst s2.
    destruct (back1 _ _ _ _ _ X Hc) as [acc0 ->]. apply (IH s0 l0 st ev acc0 Hw E).
Qed.

Definition accepted (stk : list str) (line : str) : Prop := exists ev acc, xrun pst0 line = Some (cst stk ev acc).

Lemma rstrip_accepted : forall stk line, accepted stk line -> accepted stk (rstrip line).
Proof.
  intros stk line (ev & acc & H). destruct (rstrip_split line) as (w & E & Hw). rewrite E in H.
  destruct (back_run w pst0 (rstrip line) stk ev acc Hw H) as [acc0 H0]. exists ev, acc0. exact H0.
Qed.
Lemma accepted_app : forall a b line frag, accepted a line -> accepts a b frag -> accepted b (line ++ frag).
Proof.
  intros a b line frag (ev & acc & H) A. destruct (A ev acc) as (ev' & acc' & E). exists ev', acc'.
  rewrite xrun_app, H. exact E.
Qed.

(* ---- the payload -------------------------------------------------------------------------------------------- *)
Definition node_ok (n : pnode) : Prop :=
  match n with
  | PText s => forallb is_xml_char s = true
  | PStyleStart attrs => attrs_ok attrs []
  | _ => True
  end.
Definition stk (open : bool) : list str := if open then [span_name] else [].

Lemma span_attrs_nil : forall attrs, span_attrs attrs = [] -> attrs = [].
Proof. intros [|[n v] t] H; [reflexivity|]. unfold span_attrs in H. cbn [flat_map app] in H. discriminate. Qed.

Lemma payload_step_accepted : forall legacy line open n, node_ok n -> accepted (stk open) line ->
  accepted (stk (snd (payload_step legacy (line, open) n))) (fst (payload_step legacy (line, open) n)).
Proof.
  intros legacy line open n Hn A. destruct n as [s| |attrs|]; cbn [payload_step fst snd].
  - apply (accepted_app (stk open) (stk open)); [exact A|].
    apply accepts_text; exact Hn.
  - apply (accepted_app (stk open) (stk open)); [apply rstrip_accepted; exact A|apply accepts_br].
  - destruct (span_attrs attrs) as [|c0 t0] eqn:E; cbn [fst snd]; [exact A|].
    rewrite <- E. clear E c0 t0.
    assert (Cl : accepted [] (if open then line ++ close_span else line)).
    { destruct open; [|exact A]. apply (accepted_app [span_name] []); [exact A|apply accepts_close_span]. }
    change (stk true) with [span_name].
    apply (accepted_app [] [span_name]); [exact Cl|apply accepts_open_span; exact Hn].
  - destruct open; cbn [fst snd]; [|exact A].
    apply (accepted_app [span_name] []); [exact A|apply accepts_close_span].
Qed.

Lemma payload_fold_accepted : forall legacy nodes line open, Forall node_ok nodes -> accepted (stk open) line ->
  accepted (stk (snd (fold_left (payload_step legacy) nodes (line, open))))
           (fst (fold_left (payload_step legacy) nodes (line, open))).
Proof.
  induction nodes as [|n t IH]; intros line open F A; [exact A|]. inversion F; subst. cbn [fold_left].
  destruct (payload_step legacy (line, open) n) as [line' open'] eqn:E.
  apply IH; [assumption|]. pose proof (payload_step_accepted legacy line open n H1 A) as P. rewrite E in P. exact P.
Qed.

Lemma payload_fold_accepted_eq : forall legacy nodes line open line' open', Forall node_ok nodes ->
  accepted (stk open) line -> fold_left (payload_step legacy) nodes (line, open) = (line', open') ->
  accepted (stk open') line'.
Proof.
  intros legacy nodes line open line' open' F A E.
  pose proof (payload_fold_accepted legacy nodes line open F A) as P. rewrite E in P. exact P.
Qed.

(* payload_wellformed: for node lists whose texts and attribute values are XML characters and whose span
   attributes have valid, distinct names, the payload is accepted by the strict content machine as soon as no
   span is left open - for the main and the legacy writer *)
Theorem payload_wellformed : forall legacy nodes, Forall node_ok nodes ->
  snd (recreate_text legacy false nodes) = false ->
  exists evs, content_parse (fst (recreate_text legacy false nodes)) = Some evs.
Proof.
  intros legacy nodes F H. unfold recreate_text in *.
  assert (A0 : accepted (stk false) []) by (exists [], []; reflexivity).
  destruct (fold_left (payload_step legacy) nodes ([], false)) as [line open'] eqn:E. cbn [fst snd] in *. subst open'.
  pose proof (payload_fold_accepted_eq legacy nodes [] false line false F A0 E) as P.
  destruct (rstrip_accepted _ _ P) as (ev & acc & R). unfold content_parse. rewrite R. unfold cst. cbn [flush_text].
  eexists. reflexivity.
Qed.

(* balanced style nodes leave no span open *)
Inductive balanced : list pnode -> Prop :=
| bal_nil : balanced []
| bal_text : forall s b, balanced b -> balanced (PText s :: b)
| bal_break : forall b, balanced b -> balanced (PBreak :: b)
| bal_span : forall attrs b1 b2, balanced b1 -> balanced b2 -> balanced (PStyleStart attrs :: b1 ++ PStyleEnd :: b2).

Lemma balanced_closed : forall legacy nodes, balanced nodes -> forall line,
  snd (fold_left (payload_step legacy) nodes (line, false)) = false.
Proof.
  intros legacy nodes B. induction B as [|s b B IH|b B IH|attrs b1 b2 B1 IH1 B2 IH2]; intros line.
  - reflexivity.
  - cbn [fold_left payload_step]. apply IH.
  - cbn [fold_left payload_step]. apply IH.
  - cbn [fold_left]. rewrite fold_left_app. cbn [fold_left].
    destruct (fold_left (payload_step legacy) b1 (payload_step legacy (line, false) (PStyleStart attrs))) as [l2 o2].
    assert (E : snd (payload_step legacy (l2, o2) PStyleEnd) = false) by (destruct o2; reflexivity).
    destruct (payload_step legacy (l2, o2) PStyleEnd) as [l3 o3]. cbn [snd] in E. subst o3. apply IH2.
Qed.

Theorem payload_wellformed_balanced : forall legacy nodes, Forall node_ok nodes -> balanced nodes ->
  exists evs, content_parse (fst (recreate_text legacy false nodes)) = Some evs.
Proof.
  intros legacy nodes F B. apply payload_wellformed; [exact F|]. unfold recreate_text.
  pose proof (balanced_closed legacy nodes B []) as C.
  destruct (fold_left (payload_step legacy) nodes ([], false)) as [l o] eqn:E.
  cbn [snd]. rewrite <- C. transitivity (snd (l, o)); [reflexivity|]. f_equal. symmetry. exact E.
Qed.

(* ---- the attributes _recreate_style produces are fit for a span ---------------------------------------------- *)
Lemma lookup_in : forall k d v, lookup k d = Some v -> In v (map snd d).
Proof.
  induction d as [|[k' v'] t IH]; intros v H; cbn [lookup] in H; [discriminate|].
  destruct (str_eqb k' k); [inversion H; subst; left; reflexivity|right; apply IH; exact H].
Qed.

Theorem recreate_style_attrs_ok : forall content ids,
  (forall v, In v (map snd content) -> forallb is_xml_char v = true) ->
  attrs_ok (recreate_style content ids) [].
Proof.
  intros content ids H. unfold recreate_style.
  destruct (lookup (lit "class") content) as [c|] eqn:E1;
  [destruct (existsb (str_eqb c) ids)|];
  destruct (lookup (lit "text-align") content) as [v2|] eqn:E2;
  destruct (lookup (lit "italics") content) as [[|v3a v3]|] eqn:E3;
  destruct (lookup (lit "font-family") content) as [v4|] eqn:E4;
  destruct (lookup (lit "font-size") content) as [v5|] eqn:E5;
  destruct (lookup (lit "color") content) as [v6|] eqn:E6;
  destruct (lookup (lit "display-align") content) as [v7|] eqn:E7;
  cbn [app attrs_ok];
  repeat match goal with
         | |- _ /\ _ => split
         | |- valid_name _ = true => reflexivity
         | |- existsb _ _ = false => reflexivity
         | |- True => exact I
         | |- forallb is_xml_char (lit _) = true => reflexivity
         | |- forallb is_xml_char ?v = true => apply H; eapply lookup_in; eassumption
         end.
Qed.

(* a style= reference is only written for a style that exists in the head *)
Theorem style_refs_resolve : forall content ids v,
  In (lit "style", v) (recreate_style content ids) -> existsb (str_eqb v) ids = true.
Proof.
  intros content ids v H. unfold recreate_style in H.
  repeat (apply in_app_iff in H; destruct H as [H|H]);
    repeat match type of H with
           | In _ (match ?x with _ => _ end) => destruct x eqn:?
           | In _ (if ?b then _ else _) => destruct b eqn:?
           end;
    try (destruct H as [H|[]]; inversion H; subst; assumption);
    try (destruct H as [H|[]]; discriminate H); try destruct H.
Qed.
