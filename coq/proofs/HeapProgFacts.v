(* HeapProgFacts.v - soundness of the ownership analysis of model/HeapProg.v, for every program; the writer programs pass it;
   the variants that break the copy discipline are rejected and do change their input. *)
From Coq Require Import List ZArith Bool Arith Lia.
From PV Require Import lib.Sx lib.Str lib.Result model.Store model.Iso model.HeapProg proofs.StoreFacts proofs.IsoFacts
                       proofs.DeepcopyFacts.
Import ListNotations.
Open Scope Z_scope.

(* ---- the abstract register file ---------------------------------------------------------------------------------------- *)
Lemma own_filter : forall (f : nat -> bool) a r, own (filter f a) r = own a r && f r.
Proof.
  intros f a r. unfold own. induction a as [|y t IH]; simpl; [reflexivity|].
  destruct (f y) eqn:Ey; simpl; rewrite IH.
  - destruct (Nat.eqb r y) eqn:Ery; simpl; [|reflexivity]. apply Nat.eqb_eq in Ery. subst. rewrite Ey. reflexivity.
  - destruct (Nat.eqb r y) eqn:Ery; simpl; [|reflexivity]. apply Nat.eqb_eq in Ery. subst. rewrite Ey.
    rewrite andb_false_r. reflexivity.
Qed.

Lemma own_aset : forall a x b r, own (aset a x b) r = if Nat.eqb r x then b else own a r.
Proof.
  intros a x b r. unfold aset. destruct b.
  - unfold own. simpl. destruct (Nat.eqb r x); reflexivity.
  - rewrite own_filter. destruct (Nat.eqb r x); simpl; [apply andb_false_r|apply andb_true_r].
Qed.

Lemma own_meet : forall a a' r, own (meet a a') r = own a r && own a' r.
Proof. intros. unfold meet. apply own_filter. Qed.

Lemma sub_own : forall a a' r, sub a a' = true -> own a r = true -> own a' r = true.
Proof.
  intros a a' r Hs Ho. unfold sub in Hs. rewrite forallb_forall in Hs. unfold own in Ho at 1.
  apply existsb_exists in Ho. destruct Ho as (y & Hy & E). apply Nat.eqb_eq in E. subst. auto.
Qed.

Definition senv (m n : nat) (a : aenv) (env : reg -> val) : Prop := forall r, own a r = true -> inr m n (env r).

Lemma senv_mono : forall m n n' a env, senv m n a env -> (n <= n')%nat -> senv m n' a env.
Proof. intros m n n' a env H Hn r Hr. eapply inr_mono; eauto. Qed.

Lemma senv_setr : forall m n a env x b v,
  senv m n a env -> (b = true -> inr m n v) -> senv m n (aset a x b) (setr env x v).
Proof.
  intros m n a env x b v H Hv r Hr. rewrite own_aset in Hr. unfold setr.
  destruct (Nat.eqb r x); auto.
Qed.

Lemma inr_scal : forall m n v, inr m n (scal v).
Proof. intros m n v. destruct v; exact I. Qed.

Lemma vkey_inr : forall m n t, inr m n (vkey_of_tree t).
Proof. intros m n t. destruct t; exact I. Qed.

Lemma ev_inr : forall m n a env o e, senv m n a env -> eown a e = true -> inr m n (ev o env e).
Proof.
  intros m n a env o e H He. destruct e; cbn in *; try exact I; auto. apply vkey_inr.
Qed.

Lemma map_ev_inr : forall m n a env o its,
  senv m n a env -> forallb (fun p => eown a (fst p) && eown a (snd p)) its = true ->
  items_inr m n (map (fun p => (ev o env (fst p), ev o env (snd p))) its).
Proof.
  intros m n a env o its H Hf. unfold items_inr. rewrite Forall_forall. intros kv Hin.
  apply in_map_iff in Hin. destruct Hin as (p & <- & Hp). rewrite forallb_forall in Hf.
  specialize (Hf p Hp). apply andb_true_iff in Hf. destruct Hf as [A B]. cbn [fst snd].
  split; eapply ev_inr; eauto.
Qed.

Lemma keys_inr : forall m n its, items_inr m n (map (fun kv : val * val => (VNone, scal (fst kv))) its).
Proof.
  intros m n its. unfold items_inr. rewrite Forall_forall. intros kv Hin.
  apply in_map_iff in Hin. destruct Hin as (p & <- & _). cbn [fst snd]. split; [exact I|apply inr_scal].
Qed.

Lemma sel_items_incl : forall eo its kv, In kv (sel_items eo its) -> In kv its.
Proof. intros eo its kv H. unfold sel_items in H. destruct eo; [apply filter_In in H; tauto|exact H]. Qed.

(* ---- soundness: a program that passes the analysis assigns only inside what the call allocated itself ------------------ *)
Definition exec_ok (st0 : store) (a' : aenv) (h h' : hstate) (e : option err) : Prop :=
  inv st0 (h_st h') /\ (length (h_st h) <= length (h_st h'))%nat /\
  (e = None -> senv (length st0) (length (h_st h')) a' (h_env h')).

Lemma exec_sound : forall o c a a' st0 h h' e,
  check c a = Some a' -> inv st0 (h_st h) -> senv (length st0) (length (h_st h)) a (h_env h) ->
  exec o c h = (h', e) -> exec_ok st0 a' h h' e.
Proof.
  intros o c.
  induction c as [ |c1 IHc1 c2 IHc2|x e1|x y|x y|x y k1|x y|x k1 e1|x k1|x e1|x kind its|x f e1|b c1 IHc1 c2 IHc2
                 |eo k x y c IHc|e1|er];
    intros a a' st0 h h' e Hc Hinv Hs He; unfold exec_ok; cbn [check exec] in *.
  - (* CSkip *) injection Hc as <-; inversion He; subst. split; [exact Hinv|]. split; [lia|]. intros _. exact Hs.
  - (* CSeq *)
    destruct (check c1 a) as [a1|] eqn:E1; [|discriminate].
    destruct (exec o c1 h) as [h1 [ee|]] eqn:X1.
    + inversion He; subst. destruct (IHc1 _ _ _ _ _ _ E1 Hinv Hs X1) as (A & B & _).
      split; [exact A|]. split; [exact B|]. discriminate.
    + destruct (IHc1 _ _ _ _ _ _ E1 Hinv Hs X1) as (A & B & C).
      destruct (IHc2 _ _ _ _ _ _ Hc A (C eq_refl) He) as (A2 & B2 & C2).
      split; [exact A2|]. split; [lia|exact C2].
  - (* CMov *) injection Hc as <-; inversion He; subst; cbn [h_st h_env]. split; [exact Hinv|]. split; [lia|].
    intros _. apply senv_setr; auto. intros Hb. eapply ev_inr; eauto.
  - (* CCopy *)
    injection Hc as <-.
    destruct (deepcopy (dc_fuel (h_st h)) (h_st h) (h_env h y)) as [[st1 v]|] eqn:Ed.
    + inversion He; subst; cbn [h_st h_env].
      destruct (deepcopy_inv _ _ _ _ _ _ Hinv Ed) as (A & B & C).
      split; [exact A|]. split; [exact B|]. intros _.
      apply (senv_setr _ _ _ _ _ true); [eapply senv_mono; eauto|]. intros _.
      destruct (h_env h y); try (subst v; exact I). exact C.
    + inversion He; subst. split; [exact Hinv|]. split; [lia|]. discriminate.
  - (* CShallow *)
    destruct (own a y) eqn:Oy; [|discriminate]. injection Hc as <-.
    pose proof (Hs y Oy) as Hy.
    destruct (h_env h y) as [z|s| |l] eqn:Ey;
      try (inversion He; subst; cbn [h_st h_env]; split; [exact Hinv|]; split; [lia|]; intros _; apply (senv_setr _ _ _ _ _ true); auto; intros _; exact I).
    destruct (new_obj (h_st h) (kind_of (h_st h) (VLoc l)) (items_of (h_st h) (VLoc l))) as [st1 v] eqn:En.
    inversion He; subst; cbn [h_st h_env].
    destruct (inv_new_obj _ _ _ _ _ _ Hinv (items_of_inr _ _ _ Hinv Hy) En) as (A & B & C).
    split; [exact A|]. split; [exact C|]. intros _.
    apply (senv_setr _ _ _ _ _ true); [eapply senv_mono; eauto|]. auto.
  - (* CGet *) injection Hc as <-; inversion He; subst; cbn [h_st h_env]. split; [exact Hinv|]. split; [lia|].
    intros _. apply senv_setr; auto. intros Hb. apply field_inr; auto.
  - (* CKeys *)
    injection Hc as <-.
    destruct (new_obj (h_st h) KList (map (fun kv : val * val => (VNone, scal (fst kv))) (items_of (h_st h) (h_env h y))))
      as [st1 v] eqn:En.
    inversion He; subst; cbn [h_st h_env].
    destruct (inv_new_obj _ _ _ _ _ _ Hinv (keys_inr _ _ _) En) as (A & B & C).
    split; [exact A|]. split; [exact C|]. intros _.
    apply (senv_setr _ _ _ _ _ true); [eapply senv_mono; eauto|]. auto.
  - (* CSet *)
    destruct (own a x && eown a k1 && eown a e1) eqn:Eo; [|discriminate].
    apply andb_true_iff in Eo. destruct Eo as [Eo E3]. apply andb_true_iff in Eo. destruct Eo as [E1 E2].
    injection Hc as <-; inversion He; subst; cbn [h_st h_env].
    split.
    + apply inv_set_field; auto; eapply ev_inr; eauto.
    + rewrite length_set_field. split; [lia|]. intros _. exact Hs.
  - (* CDel *)
    destruct (own a x) eqn:E1; [|discriminate].
    injection Hc as <-; inversion He; subst; cbn [h_st h_env].
    split.
    + apply inv_del_field; auto.
    + rewrite length_del_field. split; [lia|]. intros _. exact Hs.
  - (* CAppend *)
    destruct (own a x && eown a e1) eqn:Eo; [|discriminate].
    apply andb_true_iff in Eo. destruct Eo as [E1 E2].
    injection Hc as <-; inversion He; subst; cbn [h_st h_env].
    split.
    + apply inv_append_item; auto. eapply ev_inr; eauto.
    + rewrite length_append_item. split; [lia|]. intros _. exact Hs.
  - (* CNew *)
    destruct (forallb (fun p => eown a (fst p) && eown a (snd p)) its) eqn:Ef; [|discriminate].
    injection Hc as <-.
    destruct (new_obj (h_st h) kind (map (fun p => (ev o (h_env h) (fst p), ev o (h_env h) (snd p))) its)) as [st1 v] eqn:En.
    inversion He; subst; cbn [h_st h_env].
    destruct (inv_new_obj _ _ _ _ _ _ Hinv (map_ev_inr _ _ _ _ o _ Hs Ef) En) as (A & B & C).
    split; [exact A|]. split; [exact C|]. intros _.
    apply (senv_setr _ _ _ _ _ true); [eapply senv_mono; eauto|]. auto.
  - (* COp *)
    injection Hc as <-.
    destruct (prim o f (ev o (h_env h) e1)) as [v|er].
    + inversion He; subst; cbn [h_st h_env]. split; [exact Hinv|]. split; [lia|]. intros _.
      apply (senv_setr _ _ _ _ _ true); auto. intros _. apply inr_scal.
    + inversion He; subst. split; [exact Hinv|]. split; [lia|]. discriminate.
  - (* CIf *)
    destruct (check c1 a) as [a1|] eqn:E1; [|discriminate].
    destruct (check c2 a) as [a2|] eqn:E2; [|discriminate]. injection Hc as <-.
    destruct (evb o (h_st h) (h_env h) b).
    + destruct (IHc1 _ _ _ _ _ _ E1 Hinv Hs He) as (A & B & C). split; [exact A|]. split; [exact B|].
      intros En r Hr. rewrite own_meet in Hr. apply andb_true_iff in Hr. apply (C En). tauto.
    + destruct (IHc2 _ _ _ _ _ _ E2 Hinv Hs He) as (A & B & C). split; [exact A|]. split; [exact B|].
      intros En r Hr. rewrite own_meet in Hr. apply andb_true_iff in Hr. apply (C En). tauto.
  - (* CLoop *)
    set (a0 := aset (aset a k (own a y)) x (own a y)) in *.
    destruct (check c a0) as [a1|] eqn:E1; [|discriminate].
    destruct (sub a0 a1) eqn:Esub; [|discriminate]. injection Hc as <-.
    assert (Hl : Forall (fun kv : val * val => own a y = true ->
                          inr (length st0) (length (h_st h)) (fst kv) /\ inr (length st0) (length (h_st h)) (snd kv))
                        (sel_items eo (items_of (h_st h) (h_env h y)))).
    { rewrite Forall_forall. intros kv Hin Hy. apply sel_items_incl in Hin.
      pose proof (items_of_inr _ _ _ Hinv (Hs y Hy)) as Hi. unfold items_inr in Hi. rewrite Forall_forall in Hi. auto. }
    assert (HJ : senv (length st0) (length (h_st h)) (meet a0 a) (h_env h)).
    { intros r Hr. rewrite own_meet in Hr. apply andb_true_iff in Hr. apply Hs. tauto. }
    match type of He with ?F ?L h = _ => set (loopf := F) in *; set (l0 := L) in * end.
    assert (G : forall l hc,
      Forall (fun kv : val * val => own a y = true ->
                inr (length st0) (length (h_st hc)) (fst kv) /\ inr (length st0) (length (h_st hc)) (snd kv)) l ->
      senv (length st0) (length (h_st hc)) (meet a0 a) (h_env hc) ->
      (length (h_st h) <= length (h_st hc))%nat -> inv st0 (h_st hc) ->
      loopf l hc = (h', e) ->
      inv st0 (h_st h') /\ (length (h_st h) <= length (h_st h'))%nat /\
      (e = None -> senv (length st0) (length (h_st h')) (meet a0 a) (h_env h'))).
    { induction l as [|kv r IHl]; intros hc Hl1 HJ1 Hle Hinv1 He1.
      - cbn in He1. inversion He1; subst. split; [exact Hinv1|]. split; [exact Hle|]. intros _. exact HJ1.
      - inversion Hl1 as [|? ? Hkv Hr]; subst.
        unfold loopf in He1. cbn fix beta iota in He1. fold loopf in He1.
        destruct (exec o c (mkH (h_st hc) (setr (setr (h_env hc) k (fst kv)) x (snd kv)) (h_lim hc) (h_log hc) (h_copies hc) (h_out hc)))
          as [h1 e1] eqn:X1.
        assert (S0 : senv (length st0) (length (h_st hc)) a0 (setr (setr (h_env hc) k (fst kv)) x (snd kv))).
        { intros r0 Hr0. pose proof Hr0 as Hr1. unfold a0 in Hr1. rewrite !own_aset in Hr1. unfold setr.
          destruct (Nat.eqb r0 x); [apply Hkv; exact Hr1|].
          destruct (Nat.eqb r0 k); [apply Hkv; exact Hr1|].
          apply HJ1. rewrite own_meet. rewrite Hr0, Hr1. reflexivity. }
        pose proof (fun Hi Hse => IHc _ _ st0 _ _ _ E1 Hi Hse X1) as P. destruct (P Hinv1 S0) as (A & B & C). clear P. cbn [h_st h_env] in *.
        destruct e1 as [er1|].
        + inversion He1; subst. split; [exact A|]. split; [lia|]. discriminate.
        + apply (IHl h1); auto.
          * eapply Forall_impl; [|exact Hr]. intros kv' Hk Hy. destruct (Hk Hy). split; eapply inr_mono; eauto.
          * intros r0 Hr0. rewrite own_meet in Hr0. apply andb_true_iff in Hr0. destruct Hr0 as [Ha0 _].
            apply (C eq_refl). eapply sub_own; eauto.
          * lia. }
    apply (G l0 h); auto.
  - (* COut *) injection Hc as <-; inversion He; subst; cbn [h_st h_env]. split; [exact Hinv|]. split; [lia|]. intros _. exact Hs.
  - (* CRaise *) injection Hc as <-; inversion He; subst. split; [exact Hinv|]. split; [lia|]. discriminate.
Qed.

Lemma senv_nil : forall m n env, senv m n [] env.
Proof. intros m n env r Hr. discriminate. Qed.

(* THE FRAME THEOREM: any program the analysis accepts, run on any store with any register file (argument, instance state)
   and options, leaves every location that existed before the call as it was and allocates a region closed under
   references - on the normal exit and on every raising exit. *)
Theorem prog_footprint_env : forall p a' o st env,
  check p [] = Some a' -> inv st (h_st (fst (exec o p (mkH st env (length st) [] 0 [])))).
Proof.
  intros p a' o st env Hc. destruct (exec o p (mkH st env (length st) [] 0 [])) as [h' e] eqn:E.
  destruct (exec_sound o p [] a' st (mkH st env (length st) [] 0 []) h' e Hc (inv_refl st) (senv_nil _ _ _) E) as (A & _).
  exact A.
Qed.

Theorem prog_footprint : forall p a' o st s,
  check p [] = Some a' -> inv st (h_st (fst (run_prog p o st s))).
Proof. intros. unfold run_prog, hstate0. eapply prog_footprint_env; eauto. Qed.

Theorem prog_preserves_store : forall p a' o st s l,
  check p [] = Some a' -> (l < length st)%nat -> get (h_st (fst (run_prog p o st s))) l = get st l.
Proof. intros. apply (inv_agree _ _ (prog_footprint p a' o st s H)). assumption. Qed.

Theorem prog_preserves_snapshots : forall p a' o st s fuel v,
  check p [] = Some a' -> wf st -> below (length st) v ->
  snap fuel (h_st (fst (run_prog p o st s))) v = snap fuel st v.
Proof. intros. apply snap_agree; auto. apply (inv_agree _ _ (prog_footprint p a' o st s H)). Qed.

(* the obligation of the eight writers: their programs pass the analysis (with and without the open_span reset line) *)
Theorem writers_owned : forall reset k, exists a', check (prog_with reset k) [] = Some a'.
Proof.
  intros reset k. unfold prog_with, reset_line, body_of, is_span_kind.
  destruct reset;
  (destruct (k =? W_DFXP); [eexists; vm_compute; reflexivity|];
   destruct (k =? W_SAMI); [destruct (k =? W_SINGLE); destruct (k =? W_LEGACY); eexists; vm_compute; reflexivity|];
   destruct (k =? W_LEGACY); [destruct (k =? W_SINGLE); eexists; vm_compute; reflexivity|];
   destruct (k =? W_SINGLE); [eexists; vm_compute; reflexivity|];
   destruct (k =? W_VTT); [eexists; vm_compute; reflexivity|];
   destruct (k =? W_SCC); [eexists; vm_compute; reflexivity|];
   eexists; vm_compute; reflexivity).
Qed.

Lemma wr_store_writeP : forall c k o i st s,
  wr_store (writeP c k o i st s) = h_st (fst (exec o (prog_with (fix15 c) k) (mkH st (inst_env i s) (length st) [] 0 []))).
Proof. intros. unfold writeP. destruct (exec o (prog_with (fix15 c) k) _) as [h e]. reflexivity. Qed.

Theorem writeP_inv : forall c k o i st s, inv st (wr_store (writeP c k o i st s)).
Proof.
  intros. rewrite wr_store_writeP. destruct (writers_owned (fix15 c) k) as [a' Ha]. eapply prog_footprint_env; eauto.
Qed.
Theorem writeP_preserves_input : forall c k o i st s fuel v,
  wf st -> below (length st) v -> snap fuel (wr_store (writeP c k o i st s)) v = snap fuel st v.
Proof. intros. apply snap_agree; auto. apply (inv_agree _ _ (writeP_inv c k o i st s)). Qed.

(* one program write inside a history *)
Theorem stepP_write_preserves : forall c w wid k o si,
  wf_world w ->
  let w' := fst (stepP c w (OWrite wid k o si)) in
  wf_world w' /\ w_sets w' = w_sets w /\
  (forall fuel v, below (length (w_st w)) v -> snap fuel (w_st w') v = snap fuel (w_st w) v).
Proof.
  intros c w wid k o si [Hwf Hsets]. cbv zeta. unfold stepP.
  destruct (nth_error (w_sets w) si) as [s|] eqn:Es.
  - set (wi := match lookup wid (w_writers w) with Some x => x | None => winst0 end).
    cbn [fst w_st w_sets].
    pose proof (writeP_inv c k o wi (w_st w) s) as Hinv.
    split; [split|split].
    + eapply inv_wf; eauto.
    + eapply Forall_impl; [|exact Hsets]. intros v Hv. eapply below_mono; [exact Hv|]. apply (inv_len _ _ Hinv).
    + reflexivity.
    + intros fuel v Hv. apply snap_agree; auto. apply (inv_agree _ _ Hinv).
  - cbn [fst]. split; [split; assumption|]. split; [reflexivity|]. intros. reflexivity.
Qed.
