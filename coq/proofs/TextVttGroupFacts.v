(* C03 (wave 7): WebVTT captions written as several cues (layout groups): no cue text of any group contains the arrow,
   whatever the node list and wherever the layouts change; with one layout the groups are the single cue text of
   model/TextWrite.v. *)
From Coq Require Import List ZArith Bool Lia.
From PV Require Import lib.Sx lib.Str model.TextNodes model.TextWrite model.TextWriteVtt.
From PV Require Import proofs.TextStrFacts proofs.TextVttFacts.
Import ListNotations.
Open Scope Z_scope.

Definition ginv (st : gstate) : Prop :=
  is_infix arrow (g_s st) = false /\ Forall (fun g => is_infix arrow (fst g) = false) (g_out st).

Lemma vttg_step_inv : forall st ln, ginv st -> ginv (vttg_step st ln).
Proof.
  intros [s cur first prev out] [l n] [Hs Ho]. cbn [g_s g_out] in *. destruct n as [t| |start sty]; cbn [vttg_step g_s g_cur g_first g_prev g_out].
  - split; [apply rep_no_arrow|]. destruct (str_nonempty s && lay_truthy cur && negb (l =? cur)); [constructor; assumption|exact Ho].
  - split; [|exact Ho]. apply no_arrow_app_safe; [exact Hs|]. destruct first; [reflexivity|]. destruct prev; reflexivity.
  - split.
    + destruct (start && str_nonempty s && lay_truthy cur && lay_truthy l && negb (l =? cur)).
      * destruct start; apply no_arrow_app_safe; try reflexivity; [apply vtt_open_safe|apply vtt_close_safe].
      * destruct start; apply no_arrow_app_safe; try exact Hs; [apply vtt_open_safe|apply vtt_close_safe].
    + destruct (start && str_nonempty s && lay_truthy cur && lay_truthy l && negb (l =? cur)); [constructor; assumption|exact Ho].
Qed.

(* every cue text the writer emits for a caption, in any layout group, is free of the arrow *)
Theorem vtt_groups_no_arrow : forall lns, Forall (fun g => is_infix (lit "-->") (fst g) = false) (vtt_groups lns).
Proof.
  intros lns. unfold vtt_groups.
  assert (H : ginv (fold_left vttg_step lns (mkG [] 0 true false []))).
  { apply (fold_left_inv ginv (fun _ => True)).
    - intros a b Ha _. apply vttg_step_inv. exact Ha.
    - apply Forall_forall. intros; exact I.
    - split; [reflexivity|constructor]. }
  destruct (fold_left vttg_step lns (mkG [] 0 true false [])) as [s cur first prev out]. destruct H as [Hs Ho]. cbn [g_s g_cur g_out] in *.
  apply Forall_rev. destruct s; [exact Ho|constructor; [exact Hs|exact Ho]].
Qed.

(* one layout (or none) for all nodes: a single group, the cue text of vtt_cue_text *)
Definition same_layout (l : Z) (lns : list lnode) : bool := forallb (fun ln => fst ln =? l) lns.

Lemma no_cut : forall l cur (b c : bool), cur = l \/ cur = 0 -> b && lay_truthy cur && c && negb (l =? cur) = false.
Proof.
  intros l cur b c [-> | ->].
  - rewrite Z.eqb_refl. cbn [negb]. apply andb_false_r.
  - unfold lay_truthy. cbn. rewrite andb_false_r. reflexivity.
Qed.

Lemma vttg_run_same : forall l lns s cur first prev, same_layout l lns = true -> (cur = l \/ cur = 0) ->
  let st := fold_left vttg_step lns (mkG s cur first prev []) in
  g_out st = [] /\ g_s st = fst (fst (fold_left (vtt_step true) (map snd lns) (s, first, prev))).
Proof.
  intros l lns. induction lns as [|[l0 n] lns IH]; intros s cur first prev Hl Hc; [split; reflexivity|].
  cbn [same_layout forallb fst] in Hl. apply andb_true_iff in Hl. destruct Hl as [Hl0 Hl]. apply Z.eqb_eq in Hl0. subst l0.
  cbn [fold_left map snd]. destruct n as [t| |start sty]; cbn [vttg_step vtt_step g_s g_cur g_first g_prev g_out].
  - assert (E : str_nonempty s && lay_truthy cur && negb (l =? cur) = false).
    { pose proof (no_cut l cur (str_nonempty s) true Hc) as Q. rewrite andb_true_r in Q. exact Q. }
    rewrite E. apply IH; [exact Hl|left; reflexivity].
  - apply IH; [exact Hl|exact Hc].
  - assert (E : start && str_nonempty s && lay_truthy cur && lay_truthy l && negb (l =? cur) = false)
      by (apply (no_cut l cur (start && str_nonempty s) (lay_truthy l) Hc)).
    rewrite E. destruct start; apply IH; assumption.
Qed.

Theorem vtt_groups_one_layout : forall l lns, same_layout l lns = true ->
  map fst (vtt_groups lns) = match vtt_cue_text (map snd lns) with [] => [] | s => [s] end.
Proof.
  intros l lns H. unfold vtt_groups, vtt_cue_text, vtt_cue_text_gen.
  destruct (vttg_run_same l lns [] 0 true false H (or_intror eq_refl)) as [Ho Hs]. cbv zeta in Ho, Hs.
  rewrite Ho. unfold str in *. rewrite <- Hs. destruct (g_s _); reflexivity.
Qed.
