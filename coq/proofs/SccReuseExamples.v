(* SccReuseExamples.v - C10: a reset that leaves a decoder field out IS visible: two-read histories on one SCCReader object
   whose second result differs from the read on a new object (machine-checked by evaluation of the decoder model). *)
From Coq Require Import List ZArith QArith Bool.
From PV Require Import lib.Sx lib.Str lib.Result model.SccTime model.SccStash model.SccDecoder model.SccReuse
                       proofs.SccReuseFacts.
Import ListNotations.
Open Scope Z_scope.

Definition W (hex : Z) : Z := hex.
(* control codes / characters (16-bit words as in the .scc text) *)
Definition ENM := 0x94ae. Definition RCL := 0x9420. Definition EOC := 0x942f. Definition EDM := 0x942c.
Definition RU2 := 0x9425. Definition CR := 0x94ad. Definition PAC15 := 0x9470. Definition PAC14 := 0x9440.
Definition hello : list Z := [0xc8e5; 0xecec; 0xef80].     (* "Hello" *)
Definition bye : list Z := [0xc2f9; 0xe580].                (* "Bye" *)

Definition line (tc : str) (ws : list Z) : sline := (tc, ws).

(* a complete pop-on caption at row 15, shown at 1 s, erased at 3 s / at row 14, 5 s - 7 s *)
Definition doc_a : doc :=
  (0%Q, [line (lit "00:00:01:00") ([ENM; ENM; RCL; RCL; PAC15; PAC15] ++ hello ++ [EOC; EOC]);
         line (lit "00:00:03:00") [EDM; EDM]]).
Definition doc_b : doc :=
  (0%Q, [line (lit "00:00:05:00") ([ENM; ENM; RCL; RCL; PAC14; PAC14] ++ bye ++ [EOC; EOC]);
         line (lit "00:00:07:00") [EDM; EDM]]).
(* document b without any preamble address code: the cursor stays where the tracker has it *)
Definition doc_b_nopac : doc :=
  (0%Q, [line (lit "00:00:05:00") ([ENM; ENM; RCL; RCL] ++ bye ++ [EOC; EOC]);
         line (lit "00:00:07:00") [EDM; EDM]]).
(* document a followed by one more line holding a single (not doubled) address code *)
Definition doc_a_then_single_pac : doc :=
  (0%Q, snd doc_a ++ [line (lit "00:00:04:00") [PAC15]]).
(* a document that starts with that very code, once *)
Definition doc_b_single_pac : doc :=
  (0%Q, [line (lit "00:00:05:00") ([PAC15] ++ bye ++ [EOC; EOC]); line (lit "00:00:07:00") [EDM; EDM]]).
(* text loaded into the non-displayed memory and never flipped *)
Definition doc_loaded_only : doc :=
  (0%Q, [line (lit "00:00:01:00") ([RCL; RCL; PAC15; PAC15] ++ hello)]).
Definition doc_b_no_enm : doc :=
  (0%Q, [line (lit "00:00:05:00") ([RCL; RCL; PAC14; PAC14] ++ bye ++ [EOC; EOC]);
         line (lit "00:00:07:00") [EDM; EDM]]).
(* a roll-up document; then a document that begins without any mode command *)
Definition doc_roll : doc :=
  (0%Q, [line (lit "00:00:01:00") ([RU2; RU2; CR; CR; PAC15; PAC15] ++ hello)]).
Definition doc_b_no_mode : doc :=
  (0%Q, [line (lit "00:00:05:00") ([PAC14; PAC14] ++ bye ++ [EOC; EOC]); line (lit "00:00:07:00") [EDM; EDM]]).

Definition rr_eqb (a b : read_result) : bool :=
  match a, b with
  | ROk x, ROk y => Nat.eqb (length x) (length y) &&
                    forallb (fun p => Qeq_bool (pc_start (fst p)) (pc_start (snd p)) && Qeq_bool (pc_end (fst p)) (pc_end (snd p))
                                      && Nat.eqb (length (pc_nodes (fst p))) (length (pc_nodes (snd p)))
                                      && match pc_layout (fst p), pc_layout (snd p) with
                                         | Some u, Some v => Z.eqb (fst u) (fst v) && Z.eqb (snd u) (snd v)
                                         | None, None => true | _, _ => false end) (combine x y)
  | RErr _, RErr _ => true
  | RLen _, RLen _ => true
  | _, _ => false
  end.

(* second read of the two-document history on one object vs. on a new object *)
Definition second_differs (fs : list fld) (d1 d2 : doc) : bool :=
  match reader_history fs new_reader [d1; d2] with
  | [_; r2] => negb (rr_eqb r2 (read (fst d2) (snd d2)))
  | _ => false
  end.

Definition RDC := 0x9429.
Definition doc_paint : doc := (0%Q, [line (lit "00:00:01:00") ([RDC; RDC; PAC15; PAC15] ++ hello)]).
Definition doc_b_text_only : doc :=
  (0%Q, [line (lit "00:00:05:00") ([PAC14; PAC14] ++ bye); line (lit "00:00:07:00") [EDM; EDM]]).
Definition doc_a_no_edm : doc := (0%Q, [line (lit "00:00:01:00") ([ENM; ENM; RCL; RCL; PAC15; PAC15] ++ hello ++ [EOC; EOC])]).
Definition doc_a_cut : doc := (0%Q, [line (lit "00:00:01:00") ([ENM; ENM; RCL; RCL; PAC15; PAC15] ++ hello ++ [EOC; EOC]);
                                     line (lit "00:00") [EDM]]).
Definition witnesses : list (list fld * doc * doc) :=
  [ (no_reset, doc_a, doc_b);                                        (* before the repair: nothing re-created *)
    (without FStash, doc_a, doc_b);                                  (* the captions of the first read come back *)
    (without FTk, doc_a, doc_b_nopac);                               (* the cursor of the first document positions the second *)
    (without FLast, doc_a_then_single_pac, doc_b_single_pac);        (* the first code of document 2 is taken for a repetition *)
    (without FPop, doc_loaded_only, doc_b_no_enm);                   (* text left in the non-displayed memory *)
    (without FActive, doc_paint, doc_b_text_only);                   (* document 2 is decoded in paint-on mode *)
    (without FQueue, doc_a_cut, doc_b) ].                            (* a refused document leaves its caption queued *)

(* each partial reset is visible on its history; the covering reset of the code is not, on the same histories *)
Theorem partial_resets_refuted :
  forallb (fun w => second_differs (fst (fst w)) (snd (fst w)) (snd w)) witnesses = true /\
  forallb (fun w => negb (second_differs code_reset (snd (fst w)) (snd w))) witnesses = true /\
  forallb (fun w => negb (covers (fst (fst w)))) witnesses = true.
Proof. split; [|split]; vm_compute; reflexivity. Qed.

(* the refused document of the last witness does raise, and the reused reader then reads document b as a new one would *)
Example refused_then_valid :
  reader_history code_reset new_reader [doc_a_cut; doc_b]
  = [RErr ETiming; read (fst doc_b) (snd doc_b)] /\ (exists caps, read (fst doc_b) (snd doc_b) = ROk caps /\ length caps = 1%nat).
Proof. split; [vm_compute; reflexivity|]. eexists. split; [vm_compute; reflexivity|reflexivity]. Qed.
