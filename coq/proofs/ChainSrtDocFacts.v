(* C08 (wave 5), string level, SRT: the writer model's output document, read back by the model of SRTReader, gives
   every cue with both times floored to the millisecond and its text lines unchanged - although the document's last cue
   has no blank line after it. *)
From Coq Require Import List ZArith QArith Qround Lia Bool ZifyBool.
From PV Require Import lib.Sx lib.Str lib.Result lib.Dec.
From PV Require Import model.TimeRead spec.SpecTime proofs.TimeStrFacts proofs.TimeReadFacts proofs.TimeDocFacts.
From PV Require Import model.TimeWrite spec.SpecTimeW proofs.TimeWriteFacts.
From PV Require Import model.Chain spec.SpecChain proofs.ChainFacts proofs.ChainDocFacts.
Import ListNotations.
Open Scope Z_scope.
#[local] Ltac Zify.zify_post_hook ::= Z.to_euclidean_division_equations.

Definition srt_stamp_of (t : Z) : srt_stamp :=
  mkSrt (if f_h t <? 10 then 1%nat else 0%nat) (f_h t) (f_m t) (f_s t) (Some (f_ms t)).

Lemma srt_ts_stamp : forall t, 0 <= t < 86400000000 ->
  srt_ts (inject_Z t) = srt_render_stamp (srt_stamp_of t) /\ srt_stamp_dom (srt_stamp_of t) = true
  /\ us (srt_instant (srt_stamp_of t)) = fl 1000 t.
Proof.
  intros t Ht. split; [|split].
  - rewrite srt_ts_full by (rewrite rhe_int; exact Ht). rewrite format_ts_int by exact Ht.
    assert (Hh : 0 <= f_h t < 100) by (unfold f_h; lia).
    rewrite (two_padded (f_h t) Hh). reflexivity.
  - unfold srt_stamp_dom, srt_stamp_of. cbn [sr_h sr_m sr_s sr_ms]. unfold f_h, f_m, f_s, f_ms. lia.
  - unfold srt_instant, srt_stamp_of. cbn [sr_h sr_m sr_s sr_ms]. rewrite us_split.
    unfold secs, fl, f_h, f_m, f_s, f_ms. lia.
Qed.

Definition srt_lines_ok (ls : list str) : bool := match ls with [] => false | _ => forallb text_line_ok ls end.
Definition srt_text_dom (cs : list (Z * Z * list str)) : bool := forallb (fun c => srt_lines_ok (snd c)) cs.

Definition srt_cue_of (k : Z) (c : Z * Z * list str) : srt_cue :=
  let '(s, e, lines) := c in mkSrtCue k (srt_stamp_of s) (srt_stamp_of e) lines 0.
Fixpoint srt_cues_from (k : Z) (cs : list (Z * Z * list str)) : list srt_cue :=
  match cs with [] => [] | c :: t => srt_cue_of k c :: srt_cues_from (k + 1) t end.

Lemma join_nl : forall ls, ls <> [] -> join [10] ls ++ [10] = flat_map (fun l => l ++ [10]) ls.
Proof.
  induction ls as [|a t IH]; intros H; [congruence|]. destruct t as [|b t'].
  - cbn [join flat_map app]. rewrite app_nil_r. reflexivity.
  - remember (b :: t') as r eqn:Er.
    assert (J : join [10] (a :: r) = a ++ [10] ++ join [10] r) by (rewrite Er; reflexivity).
    rewrite J. cbn [flat_map]. rewrite <- IH by (rewrite Er; discriminate). rewrite <- !app_assoc. reflexivity.
Qed.

Lemma last_or_nil : forall A (l : list A), l = [] \/ exists l' a, l = l' ++ [a].
Proof. intros A l. destruct l as [|x t]; [left; reflexivity|right]. destruct (exists_last (l := x :: t)) as [l' [a E]]; [discriminate|]. exists l', a. exact E. Qed.

Lemma srt_block_render : forall k s e ls, 0 <= k -> 0 <= s < 86400000000 -> 0 <= e < 86400000000 -> ls <> [] ->
  srt_write_block k (s, e, ls) = srt_render_cue false (srt_cue_of k (s, e, ls)).
Proof.
  intros k s e ls Hk Hs He Hl. unfold srt_write_block, srt_render_cue, srt_cue_of.
  cbn [sc_idx sc_t0 sc_t1 sc_lines sc_gap nl repeat concat].
  destruct (srt_ts_stamp s Hs) as [-> _]. destruct (srt_ts_stamp e He) as [-> _].
  unfold dec_z. replace (k <? 0) with false by lia. unfold render_lines. cbn [nl].
  change [10; 10] with ([10] ++ [10]). rewrite (app_assoc (join [10] ls)), (join_nl ls Hl).
  unfold arrow. rewrite <- ?app_assoc. cbn [app]. rewrite ?app_nil_r. reflexivity.
Qed.

Lemma srt_cue_of_dom : forall k s e ls, 0 <= k -> 0 <= s < 86400000000 -> 0 <= e < 86400000000 -> srt_lines_ok ls = true ->
  srt_cue_dom (srt_cue_of k (s, e, ls)) = true.
Proof.
  intros k s e ls Hk Hs He Hl. unfold srt_cue_dom, srt_cue_of. cbn [sc_idx sc_t0 sc_t1 sc_lines].
  destruct (srt_ts_stamp s Hs) as [_ [-> _]]. destruct (srt_ts_stamp e He) as [_ [-> _]].
  unfold srt_lines_ok in Hl. destruct ls as [|l0 lr]; [discriminate|]. rewrite Hl.
  replace (0 <=? k) with true by lia. reflexivity.
Qed.

(* all blocks but the last are rendered cues; what the domain gives for every caption *)
Lemma srt_blocks_render : forall cs k lo, 0 <= k -> 0 <= lo -> dom_u 1000 lo (times_of_caps cs) -> srt_text_dom cs = true ->
  srt_write_blocks k cs = srt_render false (srt_cues_from k cs)
  /\ forallb srt_cue_dom (srt_cues_from k cs) = true
  /\ srt_expected_caps (srt_cues_from k cs)
     = map (fun c => (fl 1000 (fst (fst c)), fl 1000 (snd (fst c)), snd c)) cs.
Proof.
  induction cs as [|[[s e] ls] t IH]; intros k lo Hk Hlo D T; [repeat split|].
  cbn [times_of_caps map fst snd dom_u] in D. destruct D as [D1 [D2 [D3 [D4 D5]]]].
  cbn [srt_text_dom forallb snd] in T. apply andb_true_iff in T. destruct T as [Tc Tr].
  assert (Hs : 0 <= s < 86400000000) by lia. assert (He : 0 <= e < 86400000000) by lia.
  assert (Hl : ls <> []) by (unfold srt_lines_ok in Tc; destruct ls; [discriminate|discriminate]).
  destruct (IH (k + 1) e ltac:(lia) ltac:(lia) D5 Tr) as [I1 [I2 I3]].
  cbn [srt_write_blocks srt_cues_from]. split; [|split].
  - rewrite (srt_block_render k s e ls Hk Hs He Hl), I1. reflexivity.
  - cbn [forallb]. rewrite I2, (srt_cue_of_dom k s e ls Hk Hs He Tc). reflexivity.
  - cbn [srt_expected_caps flat_map map fst snd]. fold (srt_expected_caps (srt_cues_from (k + 1) t)). rewrite I3.
    cbn [srt_cue_of sc_lines sc_t0 sc_t1].
    destruct (srt_ts_stamp s Hs) as [_ [_ ->]]. destruct (srt_ts_stamp e He) as [_ [_ ->]].
    destruct ls as [|l0 lr]; [congruence|]. reflexivity.
Qed.

Lemma srt_blocks_app : forall a b k,
  srt_write_blocks k (a ++ b) = srt_write_blocks k a ++ srt_write_blocks (k + Z.of_nat (length a)) b.
Proof.
  induction a as [|c t IH]; intros b k; [cbn [app srt_write_blocks length Z.of_nat]; f_equal; lia|].
  cbn [app srt_write_blocks length]. rewrite IH, <- app_assoc. do 3 f_equal. lia.
Qed.

Lemma srt_cues_from_app : forall a b k,
  srt_cues_from k (a ++ b) = srt_cues_from k a ++ srt_cues_from (k + Z.of_nat (length a)) b.
Proof.
  induction a as [|c t IH]; intros b k; [cbn [app srt_cues_from length Z.of_nat]; f_equal; lia|].
  cbn [app srt_cues_from length]. rewrite IH. do 3 f_equal. lia.
Qed.

Lemma dom_u_app : forall u a b lo, dom_u u lo (a ++ b) -> dom_u u lo a.
Proof.
  induction a as [|[s e] t IH]; intros b lo D; [exact I|]. cbn [app dom_u] in *.
  destruct D as (D1 & D2 & D3 & D4 & D5). repeat split; auto. eapply IH; eauto.
Qed.

(* SRT write, then read: every cue comes back with both times floored to the millisecond and its text lines unchanged *)
Theorem srt_roundtrip_string : forall cs,
  dom_u 1000 0 (times_of_caps cs) -> srt_text_dom cs = true ->
  srt_read (srt_write_doc cs)
  = read_result (map (fun c => (fl 1000 (fst (fst c)), fl 1000 (snd (fst c)), snd c)) cs).
Proof.
  intros cs D T. destruct (last_or_nil _ cs) as [->|[init [c ->]]]; [reflexivity|].
  destruct (srt_blocks_render (init ++ [c]) 1 0 ltac:(lia) ltac:(lia) D T) as [W1 [W2 W3]].
  rewrite <- W3. clear W3.
  set (k := 1 + Z.of_nat (length init)).
  unfold srt_write_doc. rewrite W1. rewrite srt_cues_from_app in *. fold k in W2 |- *.
  cbn [srt_cues_from] in *. rewrite forallb_app in W2. apply andb_true_iff in W2. destruct W2 as [Wi Wc].
  cbn [forallb] in Wc. rewrite andb_true_r in Wc.
  set (cc := srt_cue_of k c) in *. set (ci := srt_cues_from 1 init) in *.
  unfold srt_render. rewrite flat_map_app. cbn [flat_map]. rewrite app_nil_r.
  fold (srt_render false ci). rewrite srt_render_lines, srt_render_cue_lines.
  unfold srt_cue_lines at 2. replace (sc_gap cc) with 0%nat by (unfold cc, srt_cue_of; destruct c as [[? ?] ?]; reflexivity).
  cbn [repeat].
  assert (RL : removelast (flat_map (fun l => l ++ nl_of false) (flat_map srt_cue_lines ci)
                           ++ flat_map (fun l => l ++ nl_of false) (dec_nonneg (sc_idx cc) :: srt_timing cc :: sc_lines cc ++ [[]]))
               = flat_map (fun l => l ++ nl_of false) (flat_map srt_cue_lines ci ++ dec_nonneg (sc_idx cc) :: srt_timing cc :: sc_lines cc)).
  { rewrite flat_map_app.
    change (dec_nonneg (sc_idx cc) :: srt_timing cc :: sc_lines cc ++ [[]])
      with ((dec_nonneg (sc_idx cc) :: srt_timing cc :: sc_lines cc) ++ [[]]).
    rewrite (flat_map_app _ (dec_nonneg (sc_idx cc) :: srt_timing cc :: sc_lines cc) [[]]).
    change (flat_map (fun l : str => l ++ nl_of false) [[]]) with [10].
    rewrite app_assoc. apply removelast_last. }
  rewrite RL. clear RL. unfold srt_read.
  assert (NL : forallb no_lb (flat_map srt_cue_lines ci ++ dec_nonneg (sc_idx cc) :: srt_timing cc :: sc_lines cc) = true).
  { rewrite forallb_app. apply andb_true_iff. split.
    - apply forallb_forall. intros l Hl. apply in_flat_map in Hl. destruct Hl as [x [Hx Hin]].
      pose proof (srt_cue_lines_no_lb x) as N. rewrite forallb_forall in Wi. specialize (N (Wi x Hx)).
      rewrite forallb_forall in N. apply N. exact Hin.
    - pose proof (srt_cue_lines_no_lb cc Wc) as N. unfold srt_cue_lines in N.
      change (dec_nonneg (sc_idx cc) :: srt_timing cc :: sc_lines cc ++ repeat [] (S (sc_gap cc)))
        with ((dec_nonneg (sc_idx cc) :: srt_timing cc :: sc_lines cc) ++ repeat [] (S (sc_gap cc))) in N.
      rewrite forallb_app in N. apply andb_true_iff in N. destruct N as [N _]. exact N. }
  rewrite (splitlines_lines false _ NL).
  rewrite (srt_loop_cues_tail ci (dec_nonneg (sc_idx cc) :: srt_timing cc :: sc_lines cc) _ []
             [(us (srt_instant (sc_t0 cc)), us (srt_instant (sc_t1 cc)), sc_lines cc)]).
  - cbn [app]. unfold srt_expected_caps at 2. rewrite flat_map_app. cbn [flat_map]. rewrite app_nil_r.
    fold (srt_expected_caps ci).
    assert (Hne : sc_lines cc <> []).
    { unfold srt_cue_dom in Wc. apply andb_true_iff in Wc. destruct Wc as [_ Hne]. destruct (sc_lines cc); [discriminate|discriminate]. }
    destruct (sc_lines cc) as [|l0 lr] eqn:EL; [congruence|].
    unfold read_result, no_captions_if_empty.
    destruct (srt_expected_caps ci); reflexivity.
  - rewrite app_length. cbn [length].
    assert (G : forall l, (length l <= length (flat_map srt_cue_lines l))%nat).
    { induction l as [|x t IH]; [reflexivity|]. cbn [flat_map length]. rewrite app_length.
      unfold srt_cue_lines at 1. cbn [length]. lia. }
    specialize (G ci). lia.
  - exact Wi.
  - apply digits_not_blank; [apply dec_nonneg_nonempty|apply dec_nonneg_digits].
    unfold srt_cue_dom in Wc. lia.
  - intros f acc' Hf. apply srt_loop_last_cue; assumption.
Qed.


(* ---- chains over SRT and MicroDVD at document level: times AND text ------------------------------------------ *)
Definition line_fmt (f : fmt) : bool := match f with FSrt | FMdvd => true | _ => false end.
Definition floor_caps (u : Z) (cs : list (Z * Z * list str)) : list (Z * Z * list str) :=
  map (fun c => (fl u (fst (fst c)), fl u (snd (fst c)), snd c)) cs.

Lemma dom_u_1000 : forall cs lo, 0 <= lo -> dom_u 40000 lo cs -> dom_u 1000 0 cs.
Proof.
  intros cs lo Hlo D. apply (dom_u_weaken 1000 lo 0); [lia|]. revert lo Hlo D.
  induction cs as [|[s e] t IH]; intros lo Hlo D; [exact I|]. cbn [dom_u] in *.
  destruct D as (D1 & D2 & D3 & D4 & D5). repeat split; try lia. apply IH; [lia|exact D5].
Qed.

Lemma floor_caps_times : forall u cs, times_of_caps (floor_caps u cs) = map (pi_pt u) (times_of_caps cs).
Proof. intros u cs. unfold times_of_caps, floor_caps. rewrite !map_map. reflexivity. Qed.
Lemma floor_caps_texts : forall u cs, map snd (floor_caps u cs) = map snd cs.
Proof. intros u cs. unfold floor_caps. rewrite map_map. reflexivity. Qed.
Lemma forallb_snd : forall (p : list str -> bool) (a b : list (Z * Z * list str)), map snd a = map snd b ->
  forallb (fun c => p (snd c)) a = forallb (fun c => p (snd c)) b.
Proof.
  intros p a. induction a as [|x t IH]; intros [|y t'] H; try discriminate; [reflexivity|].
  cbn [map] in H. inversion H as [[H1 H2]]. cbn [forallb]. rewrite H1, (IH t' H2). reflexivity.
Qed.

Theorem run_doc_text : forall chain cs lo, forallb line_fmt chain = true -> cs <> [] -> 0 <= lo ->
  dom_u 40000 lo (times_of_caps cs) -> text_dom cs = true -> srt_text_dom cs = true ->
  exists out, run_doc chain cs = Ok out /\ times_of_caps out = run chain (times_of_caps cs) /\ map snd out = map snd cs.
Proof.
  induction chain as [|f t IH]; intros cs lo Hc Hne Hlo D T1 T2.
  - exists cs. repeat split.
  - cbn [forallb] in Hc. apply andb_true_iff in Hc. destruct Hc as [Hf Ht].
    assert (HOP : hop_doc f cs = Ok (floor_caps (unit_of f) cs)).
    { destruct f; try discriminate Hf; cbn [hop_doc unit_of].
      - rewrite (srt_roundtrip_string cs (dom_u_1000 _ lo Hlo D) T2). fold (floor_caps 1000 cs).
        unfold read_result, floor_caps. destruct cs; [congruence|reflexivity].
      - rewrite (mdvd_roundtrip_string cs (dom_u_weaken 40000 lo 0 _ Hlo D) T1). fold (floor_caps 40000 cs).
        unfold read_result, floor_caps. destruct cs; [congruence|reflexivity]. }
    assert (PI : pi f (times_of_caps cs) = map (pi_pt (unit_of f)) (times_of_caps cs)) by (destruct f; try discriminate Hf; reflexivity).
    assert (Uf : unit_of f <= 40000) by (destruct f; cbn; lia).
    destruct (hop_exact f 40000 lo (times_of_caps cs) (or_intror eq_refl) Uf Hlo D) as [_ D'].
    rewrite PI, <- floor_caps_times in D'.
    assert (Hne' : floor_caps (unit_of f) cs <> []) by (unfold floor_caps; destruct cs; [congruence|discriminate]).
    assert (Hlo' : 0 <= fl (unit_of f) lo) by (unfold fl; destruct f; cbn [unit_of]; lia).
    destruct (IH (floor_caps (unit_of f) cs) (fl (unit_of f) lo) Ht Hne' Hlo' D') as [out [R1 [R2 R3]]].
    + unfold text_dom. rewrite (forallb_snd clean_lines _ cs (floor_caps_texts _ cs)). exact T1.
    + unfold srt_text_dom. rewrite (forallb_snd srt_lines_ok _ cs (floor_caps_texts _ cs)). exact T2.
    + exists out. cbn [run_doc]. rewrite HOP. split; [exact R1|]. split.
      * rewrite R2, floor_caps_times, <- PI. reflexivity.
      * rewrite R3. apply floor_caps_texts.
Qed.
