(* C13, WebVTT at writer level: the cues of a whole language, composed over captions and layout groups.
   What is true: a cue whose effective layout carries raw cue settings gets exactly those (verbatim - C12's clause, no
   claim about their units); every other cue has no settings or computed settings in percentages only; with
   relativization on, the writer refuses exactly when the effective layout of some group (not raw) has a length that
   needs an absent video dimension. *)
From Coq Require Import List ZArith QArith Bool Lia.
From PV Require Import lib.Sx lib.Str lib.Result.
From PV Require Import model.Geometry model.Positioning spec.SpecGeom spec.SpecPos proofs.GeomEq proofs.PosFacts.
Import ListNotations.
Open Scope Z_scope.

(* the effective layout of each cue of a caption: `layout or caption.layout_info or global_layout` per layout group *)
Definition vtt_cue_layouts (g : option layout) (cp : ncap) : list (option layout) :=
  map (fun grp => first_truthy grp (nc_layout cp) g) (vtt_groups (nc_nodes cp)).

(* raw cue settings that WebVTTReader attached to the layout (a non-empty string on a truthy layout) *)
Definition raw_of (lo : option layout) : option str :=
  match lo with
  | Some l => if layout_truthy l then match l_webvtt l with Some (ch :: r) => Some (ch :: r) | _ => None end else None
  | None => None
  end.

Definition cue_ok (lo : option layout) (o : vtt_out) : Prop :=
  match raw_of lo with
  | Some s => o = VRaw s
  | None => match o with VRaw _ => False | VSet st => vs_all_pct st = true | VNone => True end
  end.

Lemma vtt_arith_set : forall l o, vtt_arith l = Ok o -> exists st, o = VSet st.
Proof.
  intros l o H. unfold vtt_arith in H. destruct (l_padding l) as [p|]; [|inversion H; eexists; reflexivity].
  match type of H with (do lw <- ?X; _) = _ => destruct X; [|discriminate] end. cbn [bind] in H.
  match type of H with (do w2 <- ?X; _) = _ => destruct X; [|discriminate] end. cbn [bind] in H.
  match type of H with (do t2 <- ?X; _) = _ => destruct X; [|discriminate] end. cbn [bind] in H.
  inversion H. eexists. reflexivity.
Qed.

Lemma vtt_cue_ok : forall c lo o, vtt_convert_positioning c lo = Ok o -> cue_ok lo o.
Proof.
  intros c lo o H. pose proof (vtt_only_percent c lo o H) as P. unfold cue_ok, raw_of.
  destruct lo as [l|]; [|cbn in H; inversion H; exact I].
  cbn [vtt_convert_positioning] in H. destruct (layout_truthy l); cbn [negb] in H; [|inversion H; exact I].
  assert (Main : (if negb (w_rel c) && negb (layout_is_relative l) then Ok VNone else
      do l1 <- (if w_rel c then layout_as_pct l (w_w c) (w_h c) else Ok l);
      do l2 <- (if w_fit c then layout_fit l1 else Ok l1);
      vtt_arith l2) = Ok o -> match o with VRaw _ => False | VSet st => vs_all_pct st = true | VNone => True end).
  { intros K. destruct (negb (w_rel c) && negb (layout_is_relative l)); [inversion K; exact I|].
    destruct (if w_rel c then layout_as_pct l (w_w c) (w_h c) else Ok l) as [l1|]; [|discriminate]. cbn [bind] in K.
    destruct (if w_fit c then layout_fit l1 else Ok l1) as [l2|]; [|discriminate]. cbn [bind] in K.
    destruct (vtt_arith_set _ _ K) as [st ->]. exact P. }
  destruct (l_webvtt l) as [[|ch raw]|]; [apply Main; exact H|inversion H; reflexivity|apply Main; exact H].
Qed.

Lemma F2_map_l : forall {A B C} (f : A -> B) (R : B -> C -> Prop) l l',
  Forall2 (fun a c => R (f a) c) l l' -> Forall2 R (map f l) l'.
Proof. intros A B C f R l l' H. induction H; cbn [map]; constructor; assumption. Qed.

Lemma F2_impl : forall {A B} (R S : A -> B -> Prop) l l', (forall a b, R a b -> S a b) -> Forall2 R l l' -> Forall2 S l l'.
Proof. intros A B R S l l' I H. induction H; constructor; auto. Qed.

Theorem vtt_caption_cues : forall c g cp outs, vtt_caption c g cp = Ok outs -> Forall2 cue_ok (vtt_cue_layouts g cp) outs.
Proof.
  intros c g cp outs H. unfold vtt_caption in H. apply res_map_F2 in H. unfold vtt_cue_layouts.
  apply F2_map_l. eapply F2_impl; [|exact H]. intros grp o K. cbn beta in K. eapply vtt_cue_ok; exact K.
Qed.

(* every cue of the document: verbatim raw settings, or nothing, or computed percentages *)
Theorem vtt_language_cues : forall c lg outs, vtt_language c lg = Ok outs ->
  Forall2 (fun cp cues => Forall2 cue_ok (vtt_cue_layouts (nl_layout lg) cp) cues) (nl_caps lg) outs.
Proof.
  intros c lg outs H. unfold vtt_language in H. apply res_map_F2 in H.
  eapply F2_impl; [|exact H]. intros cp cues K. eapply vtt_caption_cues; exact K.
Qed.

(* ---- refusal --------------------------------------------------------------------------------------------------- *)
Definition vtt_needs (c : wcfg) (lo : option layout) : bool :=
  match lo with
  | Some l => layout_truthy l && match raw_of lo with Some _ => false | None => needs_missing (w_w c) (w_h c) l end
  | None => false
  end.

Lemma all_pct_units : forall l, all_pct l = true ->
  Forall (fun sh => s_unit (fst sh) = PCT) (sizes_axes l).
Proof.
  intros l H. unfold all_pct in H. rewrite forallb_forall in H. apply Forall_forall. intros x Hx.
  apply unit_eqb_eq. apply H. exact Hx.
Qed.

Lemma vtt_arith_total : forall l, all_pct l = true -> exists o, vtt_arith l = Ok o.
Proof.
  intros [o e p al wv] H. apply all_pct_units in H. unfold sizes_axes in H. cbn [l_origin l_extent l_padding] in H.
  unfold vtt_arith. cbn [l_origin l_extent l_padding l_alignment].
  destruct p as [[[bv bu] [av au] [sv su] [ev eu]]|]; [|eexists; reflexivity].
  assert (U : bu = PCT /\ au = PCT /\ su = PCT /\ eu = PCT).
  { rewrite !Forall_app in H. destruct H as (_ & _ & Hp). cbn in Hp.
    inversion Hp as [|? ? B Hp1]; subst. inversion Hp1 as [|? ? A Hp2]; subst. inversion Hp2 as [|? ? S Hp3]; subst.
    inversion Hp3 as [|? ? E _]; subst. cbn in *. repeat split; assumption. }
  destruct U as (-> & -> & -> & ->).
  assert (Uo : match o with Some pt => s_unit (p_x pt) = PCT /\ s_unit (p_y pt) = PCT | None => True end).
  { destruct o as [[ox oy]|]; [|exact I]. rewrite !Forall_app in H. destruct H as (Ho & _). cbn in Ho.
    inversion Ho as [|? ? X Ho1]; subst. inversion Ho1 as [|? ? Y _]; subst. cbn in *. split; assumption. }
  assert (Ue : match e with Some s => s_unit (st_h s) = PCT | None => True end).
  { destruct e as [[eh ev']|]; [|exact I]. rewrite !Forall_app in H. destruct H as (_ & He & _). cbn in He.
    inversion He as [|? ? X _]; subst. cbn in *. assumption. }
  destruct o as [[[xv xu] [yv yu]]|], e as [[[hv hu] [vv vu]]|]; cbn in Uo, Ue;
    repeat match goal with K : _ /\ _ |- _ => destruct K end; subst;
    cbn [option_map p_x p_y st_h size_add size_sub opt_bind bind s_unit s_val unit_eqb fst snd pd_start pd_end pd_before];
    eexists; reflexivity.
Qed.

Lemma vtt_cue_refused_iff : forall c lo, w_rel c = true ->
  ((exists e, vtt_convert_positioning c lo = Err e) <-> vtt_needs c lo = true).
Proof.
  intros c lo Hr. destruct lo as [l|]; [|cbn; split; [intros [e K]; discriminate|discriminate]].
  unfold vtt_needs, raw_of. cbn [vtt_convert_positioning]. destruct (layout_truthy l); cbn [negb andb];
    [|split; [intros [e K]; discriminate|discriminate]].
  assert (Main : (exists e, (if negb (w_rel c) && negb (layout_is_relative l) then Ok VNone else
      do l1 <- (if w_rel c then layout_as_pct l (w_w c) (w_h c) else Ok l);
      do l2 <- (if w_fit c then layout_fit l1 else Ok l1);
      vtt_arith l2) = Err e) <-> needs_missing (w_w c) (w_h c) l = true).
  { rewrite Hr. cbn [negb andb]. destruct (layout_refused_iff l (w_w c) (w_h c)) as [R _].
    destruct (layout_as_pct l (w_w c) (w_h c)) as [l1|e1] eqn:E1.
    - cbn [bind]. assert (N : needs_missing (w_w c) (w_h c) l = false).
      { destruct (needs_missing (w_w c) (w_h c) l); [|reflexivity]. destruct (proj2 R eq_refl) as [e K]. discriminate K. }
      rewrite N. pose proof (layout_as_pct_all_pct _ _ _ _ E1) as P1.
      assert (T : exists o, (do l2 <- (if w_fit c then layout_fit l1 else Ok l1); vtt_arith l2) = Ok o).
      { destruct (w_fit c).
        - destruct (layout_fit_pct_ok _ P1) as [l2 E2]. rewrite E2. cbn [bind].
          apply vtt_arith_total. eapply layout_fit_all_pct; eassumption.
        - cbn [bind]. apply vtt_arith_total. exact P1. }
      destruct T as [o T]. rewrite T. split; [intros [e K]; discriminate|discriminate].
    - cbn [bind]. split; [intros _; apply (proj1 R); eexists; reflexivity|intros _; eexists; reflexivity]. }
  destruct (l_webvtt l) as [[|ch raw]|]; [exact Main| |exact Main].
  split; [intros [e K]; discriminate|discriminate].
Qed.

(* WebVTTWriter.write with relativization on raises exactly when some cue's effective layout (not raw) needs an absent
   video dimension *)
Theorem vtt_language_refused_iff : forall c lg, w_rel c = true ->
  ((exists e, vtt_language c lg = Err e)
   <-> existsb (vtt_needs c) (flat_map (vtt_cue_layouts (nl_layout lg)) (nl_caps lg)) = true).
Proof.
  intros c lg Hr. unfold vtt_language. rewrite res_map_err_iff, existsb_exists. split.
  - intros (cp & Hcp & e & K). unfold vtt_caption in K.
    destruct (proj1 (res_map_err_iff _ _) (ex_intro _ e K)) as (grp & Hg & e' & K').
    exists (first_truthy grp (nc_layout cp) (nl_layout lg)). split.
    + apply in_flat_map. exists cp. split; [exact Hcp|]. unfold vtt_cue_layouts.
      apply (in_map (fun g0 => first_truthy g0 (nc_layout cp) (nl_layout lg))). exact Hg.
    + apply (proj1 (vtt_cue_refused_iff c _ Hr)). exists e'. exact K'.
  - intros (lo & Hin & N). apply in_flat_map in Hin. destruct Hin as (cp & Hcp & Hlo).
    unfold vtt_cue_layouts in Hlo. apply in_map_iff in Hlo. destruct Hlo as (grp & <- & Hg).
    exists cp. split; [exact Hcp|]. unfold vtt_caption. apply res_map_err_iff.
    exists grp. split; [exact Hg|]. apply (proj2 (vtt_cue_refused_iff c _ Hr)). exact N.
Qed.
