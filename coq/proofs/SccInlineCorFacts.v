(* Wave 7 corollaries of proofs/SccInlineEdmFacts.v (writer-style load lines  ENM RCL rows EDM EOC):
   1. at the level of the SCC TEXT through the Coq tokeniser (C05 / C06);
   2. C15: inside the domain of the pop-on refinement no order of the rows of a writer-style load makes the reader raise
      the line-length error (the order clause for the layout pycaption's own SCCWriter produces). *)
From Coq Require Import List ZArith QArith Lia Bool Permutation.
From PV Require Import lib.Sx lib.Str lib.Result model.GenScc model.SccLen model.SccTime model.SccStash model.SccDecoder model.SccPopon
                       model.SccTokenise.
From PV Require Import spec.Spec608 spec.SpecScc05 spec.SpecScc05Inline spec.SpecSccTime.
From PV Require Import proofs.SccTimeFacts proofs.SccPoponFacts proofs.SccPoponStage1 proofs.SccPoponStage3 proofs.SccPoponStage4 proofs.SccPoponStage6 proofs.SccPoponStage7
                       proofs.SccPoponStage8 proofs.SccPoponStage9 proofs.SccLineLayoutFacts proofs.SccTokeniseFacts proofs.SccTextFacts
                       proofs.SccOrderFacts proofs.SccInlineEdmFacts.
Import ListNotations.
Open Scope Z_scope.

Theorem popon_refines_608_inline_text : forall d off ws evs spans up eol,
  Forall (wseg_clock d off) ws -> forallb pseg_ok8 (wexpand ws) = true ->
  res_map (pseg_event d off) (wexpand ws) = Ok evs -> positive evs -> after_show None evs ->
  expected_with join_threshold evs = Ok spans ->
  Forall wf_sline (map (wseg_line d) ws) -> good_eol eol ->
  exists caps, read off (tokenise (render_gen up eol (map (wseg_line d) ws))) = ROk caps /\
               ok_c05 (mkProg d (ploads_of (wexpand ws))) (Ok (map observe caps)) = true /\
               dom_c05 (mkProg d (ploads_of (wexpand ws))) = true.
Proof.
  intros d off ws evs spans up eol H1 H2 H3 H4 H5 H6 HW HE. rewrite (read_tokenise_render_gen off up eol _ HE HW).
  exact (popon_refines_608_inline d off ws evs spans H1 H2 H3 H4 H5 H6).
Qed.

Theorem popon_times_inline_text : forall d off ws evs up eol,
  Forall (wseg_clock d off) ws -> forallb pseg_ok8 (wexpand ws) = true ->
  res_map (pseg_event d off) (wexpand ws) = Ok evs -> positive evs ->
  Forall wf_sline (map (wseg_line d) ws) -> good_eol eol ->
  spans_of (read off (tokenise (render_gen up eol (map (wseg_line d) ws))))
  = rmap (fun spans => flat_map bspans (combine (ploads_of (wexpand ws)) spans)) (expected_with join_threshold evs).
Proof.
  intros d off ws evs up eol H1 H2 H3 H4 HW HE. rewrite (read_tokenise_render_gen off up eol _ HE HW).
  exact (popon_times_inline d off ws evs H1 H2 H3 H4).
Qed.

(* ---- C15: row order inside a writer-style load ------------------------------------------------------------------- *)
Lemma length_load_body_perm d (l l' : load) : Permutation l l' -> length (load_body d l) = length (load_body d l').
Proof.
  intro P. unfold load_body. rewrite !app_length, (length_flat_map_perm (emit_row d) l l' P). reflexivity.
Qed.

(* one hypothesis set serves both orders: EDM and EOC sit at the same word indices in either order *)
Theorem popon_row_order_free_inline : forall d off tc tcE tcL tc2 l l' evs spans, Permutation l l' -> load_wf l = true ->
  wseg_clock d off (WInline tc tcE tcL l) ->
  res_map (pseg_event d off) [PClear tcE; PLoad tcL l; PClear tc2] = Ok evs -> positive evs -> after_show None evs ->
  expected_with join_threshold evs = Ok spans ->
  exists caps caps',
    read off [(tc, emit_load_w d l); (tc2, emit_clear d)] = ROk caps /\
    read off [(tc, emit_load_w d l'); (tc2, emit_clear d)] = ROk caps' /\
    ok_c05 (mkProg d [l]) (Ok (map observe caps)) = true /\
    ok_c05 (mkProg d [l']) (Ok (map observe caps')) = true.
Proof.
  intros d off tc tcE tcL tc2 l l' evs spans P W Hck Hev Hp Ha Hx.
  assert (W' : load_wf l' = true) by (rewrite <- (load_wf_perm l l' P); exact W).
  destruct (popon_refines_608_inline d off [WInline tc tcE tcL l; WSeg (PClear tc2)] evs spans) as (caps & R & K & _);
    try assumption.
  { constructor; [exact Hck|constructor; [exact I|constructor]]. }
  { unfold wexpand. cbn [flat_map wseg_expand app forallb pseg_ok8]. unfold lc_ok8. rewrite W. reflexivity. }
  destruct (popon_refines_608_inline d off [WInline tc tcE tcL l'; WSeg (PClear tc2)] evs spans) as (caps' & R' & K' & _);
    try assumption.
  { constructor; [|constructor; [exact I|constructor]]. unfold wseg_clock in *.
    rewrite <- (length_load_body_perm d l l' P). exact Hck. }
  { unfold wexpand. cbn [flat_map wseg_expand app forallb pseg_ok8]. unfold lc_ok8. rewrite W'. reflexivity. }
  { unfold wexpand in *. cbn [flat_map wseg_expand app res_map pseg_event] in *.
    rewrite <- (length_emit_load_perm d l l' P). exact Hev. }
  exists caps, caps'. repeat split; assumption.
Qed.

(* non-vacuity: rows 15 and 3 addressed by indent-0-form preamble codes, in either order, in the writer's layout *)
Definition ordw_a : load := [mkRow 15 0 0 16 [Ch 97; Ch 98]; mkRow 3 0 0 16 [Ch 99]].
Definition ordw_b : load := [mkRow 3 0 0 16 [Ch 99]; mkRow 15 0 0 16 [Ch 97; Ch 98]].
Example popon_row_order_free_inline_instance :
  exists caps caps',
    read 0 [(lit "00:00:01:00", emit_load_w true ordw_a); (lit "00:00:05:00", emit_clear true)] = ROk caps /\
    read 0 [(lit "00:00:01:00", emit_load_w true ordw_b); (lit "00:00:05:00", emit_clear true)] = ROk caps' /\
    ok_c05 (mkProg true [ordw_a]) (Ok (map observe caps)) = true /\
    ok_c05 (mkProg true [ordw_b]) (Ok (map observe caps')) = true.
Proof.
  pose (t := mkTc 0 0 1 false 0).
  assert (Hck : wseg_clock true 0 (winline true t ordw_a)) by (apply winline_clock; [reflexivity|vm_compute; reflexivity]).
  unfold winline in Hck.
  assert (E : exists evs spans,
            res_map (pseg_event true 0) [PClear (render_tc (tc_shift t (Z.of_nat (length (load_body true ordw_a)))));
                                         PLoad (render_tc (tc_shift t 2)) ordw_a; PClear (lit "00:00:05:00")] = Ok evs /\
            expected_with join_threshold evs = Ok spans /\ positive evs /\ after_show None evs).
  { eexists. eexists. split; [vm_compute; reflexivity|]. split; [vm_compute; reflexivity|]. split.
    - intros e [<-|[<-|[<-|[]]]]; vm_compute; reflexivity.
    - cbn [after_show ev_time]. repeat split; try exact I; vm_compute; reflexivity. }
  destruct E as (evs & spans & E1 & E2 & E3 & E4).
  exact (popon_row_order_free_inline true 0 _ _ _ (lit "00:00:05:00") ordw_a ordw_b evs spans (perm_swap _ _ _) eq_refl Hck E1 E3 E4 E2).
Qed.

(* ---- for builder sccw: a row of basic characters addressed by the writer's preamble code is a row of the domain ------- *)
Lemma row_cells_ch : forall line acc ital, row_cells (map Ch line) acc ital = acc ++ map (fun c => Cell c ital) line.
Proof.
  induction line as [|c t IH]; intros acc ital; [cbn [map row_cells]; rewrite app_nil_r; reflexivity|].
  cbn [map row_cells]. rewrite IH, <- app_assoc. reflexivity.
Qed.

Lemma items_ok_ch : forall line prev, forallb is_basic line = true -> items_ok (map Ch line) prev = true.
Proof.
  induction line as [|c t IH]; intros prev H; [reflexivity|]. rewrite forallb_cons in H. apply andb_true_iff in H. destruct H as [H1 H2].
  cbn [map items_ok]. rewrite H1, (IH _ H2). reflexivity.
Qed.

Theorem writer_row_ok : forall row u line, 1 <= row <= 15 -> (u = 16 \/ u = 17) -> forallb is_basic line = true ->
  line <> [] -> hd 0 line <> 32 -> last line 0 <> 32 -> (length line <= 32)%nat ->
  row_ok (mkRow row 0 0 u (map Ch line)) = true.
Proof.
  intros row u line Hr Hu Hb Hne Hh Hl Hn. unfold row_ok, cells_of, rw_ital. cbv zeta.
  cbn [rw_row rw_indent rw_tab rw_style rw_items]. rewrite row_cells_ch, (items_ok_ch _ _ Hb). cbn [app].
  replace (is_italic_attr u) with false by (destruct Hu as [->| ->]; reflexivity). cbn [Z.eqb andb].
  replace (1 <=? row) with true by lia. replace (row <=? 15) with true by lia.
  replace (0 <=? u) with true by lia. replace (u <? 18) with true by lia. rewrite map_length.
  replace (0 + 0 + Z.of_nat (length line) <=? 32) with true by lia.
  assert (Hv : existsb cell_vis (map (fun c => Cell c false) line) = true).
  { destruct line as [|c t]; [congruence|]. cbn [map existsb cell_vis hd] in *. apply Z.eqb_neq in Hh. rewrite Hh. reflexivity. }
  assert (H1 : match map (fun c => Cell c false) line with c :: _ => cell_space c | [] => true end = false).
  { destruct line as [|c t]; [congruence|]. cbn [map cell_space hd] in *. apply Z.eqb_neq. exact Hh. }
  assert (H2 : cell_space (last (map (fun c => Cell c false) line) Opt) = false).
  { clear - Hne Hl. induction line as [|c t IH]; [congruence|]. destruct t as [|c' t'].
    - cbn [map last cell_space] in *. apply Z.eqb_neq. exact Hl.
    - change (last (map (fun c => Cell c false) (c :: c' :: t')) Opt) with (last (map (fun c => Cell c false) (c' :: t')) Opt).
      apply IH; [discriminate|exact Hl]. }
  rewrite Hv, H1, H2. vm_compute. reflexivity.
Qed.

Lemma toks_map_ch : forall line, flat_map toks_of_item (map Ch line) = map TCh line.
Proof. induction line as [|c t IH]; [reflexivity|]. cbn [map flat_map toks_of_item app]. rewrite IH. reflexivity. Qed.

(* the words of such a row: the preamble code twice, then the characters in pairs *)
Theorem writer_row_emit : forall row u line,
  emit_row true (mkRow row 0 0 u (map Ch line)) = [pac_word row u; pac_word row u] ++ pack true (map TCh line) None.
Proof.
  intros row u line. unfold emit_row, pac_unit, pac_attr. cbn [rw_row rw_indent rw_tab rw_style rw_items].
  rewrite toks_map_ch. reflexivity.
Qed.

Example writer_row_instance : row_ok (mkRow 15 0 0 16 (map Ch [72; 105; 32; 116; 104; 101; 114; 101])) = true.
Proof.
  apply writer_row_ok; [lia|left; reflexivity|vm_compute; reflexivity|discriminate|cbn [hd]; lia|cbn [last]; lia|cbn [length]; lia].
Qed.

(* audit (wave 7): the remaining hypotheses of popon_refines_608_inline on the instance exw_ws *)
Example exw_event_hyps : exists evs spans,
  res_map (pseg_event true 0) (wexpand exw_ws) = Ok evs /\ positive evs /\ after_show None evs /\
  expected_with join_threshold evs = Ok spans.
Proof.
  eexists. eexists. split; [vm_compute; reflexivity|]. split; [|split].
  - intros e H. repeat (destruct H as [<-|H]; [vm_compute; reflexivity|]). destruct H.
  - cbn [after_show ev_time]. repeat split; try exact I; vm_compute; reflexivity.
  - vm_compute. reflexivity.
Qed.

(* ---- audit (wave 7): the display instants of a writer-style line ARE the statement's instants of its EDM / EOC words ------ *)
Ltac Zify.zify_post_hook ::= Z.to_euclidean_division_equations.

Lemma tc_shift_wf : forall t n, tc_wf t = true -> 0 <= n -> tc_total t + n < 10800000 -> tc_wf (tc_shift t n) = true.
Proof.
  intros t n W Hn Hb. assert (H0 : 0 <= tc_total t) by (unfold tc_total, tc_wf in *; lia).
  unfold tc_wf, tc_shift. cbn [tc_h tc_m tc_s tc_f tc_drop]. generalize dependent (tc_total t). intros T HT HT0. lia.
Qed.

(* the statement's instant of the k-th word after the canonical timecode n frames later = its instant of word n + k *)
Theorem spec_instant_shift : forall t n k off, tc_wf t = true -> 0 <= n -> 0 <= k -> tc_total t + n < 10800000 ->
  (spec_instant (tc_shift t n) k off == spec_instant t (n + k) off)%Q.
Proof.
  intros t n k off W Hn Hk Hb.
  destruct (get_time_exact (tc_shift t n) k off (tc_shift_wf t n W Hn Hb) Hk) as (t1 & E1 & Q1).
  destruct (get_time_exact t (n + k) off W ltac:(lia)) as (t2 & E2 & Q2).
  pose proof (same_clock_shift off t n W Hn Hb k Hk) as S. rewrite E1, E2 in S. injection S as ->.
  rewrite <- Q1, <- Q2. reflexivity.
Qed.

(* the two display events of the writer-style line `winline d t l`: Clear at the statement's instant of its (first) EDM word,
   Show at the statement's instant of its (first) EOC word *)
Theorem winline_events_spec : forall d t l off, tc_wf t = true ->
  tc_total t + Z.of_nat (length (load_body d l)) + 2 < 10800000 ->
  exists t1 t2,
    res_map (pseg_event d off) (wseg_expand (winline d t l)) = Ok [Clear t1; Show t2] /\
    (t1 == spec_instant t (Z.of_nat (length (load_body d l))) off)%Q /\
    (t2 == spec_instant t (Z.of_nat (length (emit_load_w d l)) - (if d then 2 else 1)) off)%Q.
Proof.
  intros d t l off W Hb. set (nE := Z.of_nat (length (load_body d l))) in *. set (e := if d then 2 else 1).
  assert (He : 0 <= e <= 2) by (unfold e; destruct d; lia).
  assert (HnE : 0 <= nE) by (unfold nE; lia).
  destruct (get_time_exact (tc_shift t nE) 0 off (tc_shift_wf t nE W HnE ltac:(lia)) (Z.le_refl 0)) as (t1 & E1 & Q1).
  assert (Hlen : Z.of_nat (length (emit_load d l)) - e = nE).
  { unfold emit_load, nE, load_body, e. rewrite !app_length, !Nat2Z.inj_add. destruct d; cbn [ctl length]; lia. }
  assert (Hlenw : Z.of_nat (length (emit_load_w d l)) - e = nE + e).
  { unfold emit_load_w, nE, e. rewrite !app_length, !Nat2Z.inj_add. destruct d; cbn [ctl length]; lia. }
  destruct (get_time_exact (tc_shift t e) nE off (tc_shift_wf t e W (proj1 He) ltac:(lia)) HnE) as (t2 & E2 & Q2).
  exists t1, t2. split; [|split].
  - unfold winline, wseg_expand. cbn [res_map pseg_event]. fold nE. fold e. rewrite E1. cbn [bind]. rewrite Hlen, E2. reflexivity.
  - rewrite Q1. rewrite (spec_instant_shift t nE 0 off W HnE (Z.le_refl 0) ltac:(lia)). rewrite Z.add_0_r. reflexivity.
  - rewrite Q2. rewrite (spec_instant_shift t e nE off W (proj1 He) HnE ltac:(lia)). fold e. rewrite Hlenw.
    replace (e + nE) with (nE + e) by lia. reflexivity.
Qed.
