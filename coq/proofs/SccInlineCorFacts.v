(* Wave 7 corollaries of proofs/SccInlineEdmFacts.v (writer-style load lines  ENM RCL rows EDM EOC):
   1. at the level of the SCC TEXT through the Coq tokeniser (C05 / C06);
   2. C15: inside the domain of the pop-on refinement no order of the rows of a writer-style load makes the reader raise
      the line-length error (the order clause for the layout pycaption's own SCCWriter produces). *)
From Coq Require Import List ZArith QArith Lia Bool Permutation.
From PV Require Import lib.Sx lib.Str lib.Result model.GenScc model.SccLen model.SccTime model.SccStash model.SccDecoder model.SccPopon
                       model.SccTokenise.
From PV Require Import spec.Spec608 spec.SpecScc05 spec.SpecScc05Inline spec.SpecSccTime.
From PV Require Import proofs.SccPoponFacts proofs.SccPoponStage3 proofs.SccPoponStage4 proofs.SccPoponStage6 proofs.SccPoponStage7
                       proofs.SccPoponStage8 proofs.SccPoponStage9 proofs.SccLineLayoutFacts proofs.SccTokeniseFacts proofs.SccTextFacts
                       proofs.SccOrderFacts proofs.SccInlineEdmFacts.
Import ListNotations.
Open Scope Z_scope.

Theorem popon_refines_608_inline_text : forall d off ws evs spans up eol,
  Forall (wseg_clock d off) ws -> forallb pseg_ok8 (wexpand ws) = true ->
  res_map (pseg_event d off) (wexpand ws) = Ok evs -> positive evs -> after_show None evs ->
  expected_with join_threshold evs = Ok spans ->
  Forall wf_sline (map (wseg_line d) ws) -> good_eol eol ->
  exists caps, read off (tokenise (render_gen up eol (map (wseg_line d) ws))) = ROk caps /\
               ok_c05 (mkProg d (ploads_of (wexpand ws))) (Ok (map observe caps)) = true /\
               dom_c05 (mkProg d (ploads_of (wexpand ws))) = true.
Proof.
  intros d off ws evs spans up eol H1 H2 H3 H4 H5 H6 HW HE. rewrite (read_tokenise_render_gen off up eol _ HE HW).
  exact (popon_refines_608_inline d off ws evs spans H1 H2 H3 H4 H5 H6).
Qed.

Theorem popon_times_inline_text : forall d off ws evs up eol,
  Forall (wseg_clock d off) ws -> forallb pseg_ok8 (wexpand ws) = true ->
  res_map (pseg_event d off) (wexpand ws) = Ok evs -> positive evs ->
  Forall wf_sline (map (wseg_line d) ws) -> good_eol eol ->
  spans_of (read off (tokenise (render_gen up eol (map (wseg_line d) ws))))
  = rmap (fun spans => flat_map bspans (combine (ploads_of (wexpand ws)) spans)) (expected_with join_threshold evs).
Proof.
  intros d off ws evs up eol H1 H2 H3 H4 HW HE. rewrite (read_tokenise_render_gen off up eol _ HE HW).
  exact (popon_times_inline d off ws evs H1 H2 H3 H4).
Qed.

(* ---- C15: row order inside a writer-style load ------------------------------------------------------------------- *)
Lemma length_load_body_perm d (l l' : load) : Permutation l l' -> length (load_body d l) = length (load_body d l').
Proof.
  intro P. unfold load_body. rewrite !app_length, (length_flat_map_perm (emit_row d) l l' P). reflexivity.
Qed.

(* one hypothesis set serves both orders: EDM and EOC sit at the same word indices in either order *)
Theorem popon_row_order_free_inline : forall d off tc tcE tcL tc2 l l' evs spans, Permutation l l' -> load_wf l = true ->
  wseg_clock d off (WInline tc tcE tcL l) ->
  res_map (pseg_event d off) [PClear tcE; PLoad tcL l; PClear tc2] = Ok evs -> positive evs -> after_show None evs ->
  expected_with join_threshold evs = Ok spans ->
  exists caps caps',
    read off [(tc, emit_load_w d l); (tc2, emit_clear d)] = ROk caps /\
    read off [(tc, emit_load_w d l'); (tc2, emit_clear d)] = ROk caps' /\
    ok_c05 (mkProg d [l]) (Ok (map observe caps)) = true /\
    ok_c05 (mkProg d [l']) (Ok (map observe caps')) = true.
Proof.
  intros d off tc tcE tcL tc2 l l' evs spans P W Hck Hev Hp Ha Hx.
  assert (W' : load_wf l' = true) by (rewrite <- (load_wf_perm l l' P); exact W).
  destruct (popon_refines_608_inline d off [WInline tc tcE tcL l; WSeg (PClear tc2)] evs spans) as (caps & R & K & _);
    try assumption.
  { constructor; [exact Hck|constructor; [exact I|constructor]]. }
  { unfold wexpand. cbn [flat_map wseg_expand app forallb pseg_ok8]. unfold lc_ok8. rewrite W. reflexivity. }
  destruct (popon_refines_608_inline d off [WInline tc tcE tcL l'; WSeg (PClear tc2)] evs spans) as (caps' & R' & K' & _);
    try assumption.
  { constructor; [|constructor; [exact I|constructor]]. unfold wseg_clock in *.
    rewrite <- (length_load_body_perm d l l' P). exact Hck. }
  { unfold wexpand. cbn [flat_map wseg_expand app forallb pseg_ok8]. unfold lc_ok8. rewrite W'. reflexivity. }
  { unfold wexpand in *. cbn [flat_map wseg_expand app res_map pseg_event] in *.
    rewrite <- (length_emit_load_perm d l l' P). exact Hev. }
  exists caps, caps'. repeat split; assumption.
Qed.

(* non-vacuity: rows 15 and 3 addressed by indent-0-form preamble codes, in either order, in the writer's layout *)
Definition ordw_a : load := [mkRow 15 0 0 16 [Ch 97; Ch 98]; mkRow 3 0 0 16 [Ch 99]].
Definition ordw_b : load := [mkRow 3 0 0 16 [Ch 99]; mkRow 15 0 0 16 [Ch 97; Ch 98]].
Example popon_row_order_free_inline_instance :
  exists caps caps',
    read 0 [(lit "00:00:01:00", emit_load_w true ordw_a); (lit "00:00:05:00", emit_clear true)] = ROk caps /\
    read 0 [(lit "00:00:01:00", emit_load_w true ordw_b); (lit "00:00:05:00", emit_clear true)] = ROk caps' /\
    ok_c05 (mkProg true [ordw_a]) (Ok (map observe caps)) = true /\
    ok_c05 (mkProg true [ordw_b]) (Ok (map observe caps')) = true.
Proof.
  pose (t := mkTc 0 0 1 false 0).
  assert (Hck : wseg_clock true 0 (winline true t ordw_a)) by (apply winline_clock; [reflexivity|vm_compute; reflexivity]).
  unfold winline in Hck.
  assert (E : exists evs spans,
            res_map (pseg_event true 0) [PClear (render_tc (tc_shift t (Z.of_nat (length (load_body true ordw_a)))));
                                         PLoad (render_tc (tc_shift t 2)) ordw_a; PClear (lit "00:00:05:00")] = Ok evs /\
            expected_with join_threshold evs = Ok spans /\ positive evs /\ after_show None evs).
  { eexists. eexists. split; [vm_compute; reflexivity|]. split; [vm_compute; reflexivity|]. split.
    - intros e [<-|[<-|[<-|[]]]]; vm_compute; reflexivity.
    - cbn [after_show ev_time]. repeat split; try exact I; vm_compute; reflexivity. }
  destruct E as (evs & spans & E1 & E2 & E3 & E4).
  exact (popon_row_order_free_inline true 0 _ _ _ (lit "00:00:05:00") ordw_a ordw_b evs spans (perm_swap _ _ _) eq_refl Hck E1 E3 E4 E2).
Qed.
