(* C03 (round 4): the WebVTT DOCUMENT the model writes for captions with node-level layouts (vtt_doc_g) is accepted by the
   reference block grammar (spec/SpecTextVtt.v vtt_cues) and read as exactly ONE CUE PER LAYOUT GROUP whose payload lines
   are the lines of that group's cue text: no cue created, lost, split or merged, whatever the texts.
   Part A: every group's cue text is non-empty, has no empty line inside, no CR.  Part B: lines and the grammar. *)
From Coq Require Import List ZArith Bool Lia.
From PV Require Import lib.Sx lib.Str model.TextNodes model.TextWrite model.TextWriteVtt spec.SpecTextVtt.
From PV Require Import proofs.TextStrFacts proofs.TextLinesFacts proofs.TextBlocksFacts proofs.TextVttFacts proofs.TextVttGroupFacts.
Import ListNotations.
Open Scope Z_scope.

(* ---- Part A ----------------------------------------------------------------------------------------------------- *)
Definition no_cr (s : str) : bool := forallb (fun c => negb (c =? 13)) s.
Definition node_ok (n : node) : Prop := match n with NText t => no_nl t = true /\ no_cr t = true | _ => True end.

Lemma no_cr_app : forall a b, no_cr (a ++ b) = no_cr a && no_cr b.
Proof. intros. unfold no_cr. apply forallb_app. Qed.

Lemma no_cr_rep : forall s, no_cr s = true -> no_cr (rep s) = true.
Proof. intros s H. unfold rep, no_cr. apply replace_forallb; [discriminate|reflexivity|exact H]. Qed.

Lemma no_cr_vtt_text : forall t, no_cr t = true -> no_cr (vtt_text t) = true.
Proof.
  intros t H. unfold vtt_text.
  assert (E : no_cr (vtt_encode t) = true).
  { unfold vtt_encode, no_cr. repeat (apply replace_forallb; [discriminate|reflexivity|]). exact H. }
  destruct (vtt_encode t); [reflexivity|exact E].
Qed.
Lemma no_cr_open : forall st, no_cr (vtt_open st) = true. Proof. intros [[] [] [] c]; reflexivity. Qed.
Lemma no_cr_close : forall st, no_cr (vtt_close st) = true. Proof. intros [[] [] [] c]; reflexivity. Qed.

Definition good_text (s : str) : Prop := nl_ok true s = true /\ s <> [] /\ no_cr s = true.
Definition GI (st : gstate) : Prop :=
  vinv (g_s st, g_first st, g_prev st) /\ no_cr (g_s st) = true /\ Forall (fun g => good_text (fst g)) (g_out st).

Lemma vinv_nl_ok : forall s f p, vinv (s, f, p) -> nl_ok true s = true.
Proof. intros s f p [st [H _]]. cbn [fst] in H. rewrite nl_ok_run, H. reflexivity. Qed.

Lemma nonempty_ne : forall s, str_nonempty s = true -> s <> [].
Proof. intros [|c s] H; [discriminate|discriminate]. Qed.

Lemma vttg_step_GI : forall st ln, GI st -> node_ok (snd ln) -> GI (vttg_step st ln).
Proof.
  intros [s cur first prev out] [l n] (Hv & Hc & Ho) Hn. cbn [g_s g_cur g_first g_prev g_out snd] in *.
  assert (Hout : forall (b : bool), b = true -> str_nonempty s = true ->
                 Forall (fun g => good_text (fst g)) ((s, cur) :: out)).
  { intros b _ Hne. constructor; [|exact Ho]. cbn [fst]. split; [apply (vinv_nl_ok s first prev Hv)|]. split; [apply nonempty_ne; exact Hne|exact Hc]. }
  unfold GI. destruct n as [t| |start sty]; cbn [vttg_step g_s g_cur g_first g_prev g_out].
  - destruct Hn as [Hnl Hcr]. destruct (vtt_text_props t Hnl) as [H1 H2].
    destruct (str_nonempty s && lay_truthy cur && negb (l =? cur)) eqn:E; cbv beta iota zeta; cbn [g_s g_cur g_first g_prev g_out].
    + apply andb_true_iff in E. destruct E as [E _]. apply andb_true_iff in E. destruct E as [Hne _].
      split; [|split; [|apply (Hout true eq_refl Hne)]].
      * exists false. cbn [fst snd]. split; [|discriminate]. change (arrow_fix ([] ++ vtt_text t)) with (rep (vtt_text t)).
        rewrite nl_run_rep, (nl_run_no_nl _ true H1), H2. reflexivity.
      * change (arrow_fix ([] ++ vtt_text t)) with (rep (vtt_text t)). apply no_cr_rep, no_cr_vtt_text. exact Hcr.
    + split; [|split; [|exact Ho]].
      * apply (vtt_step_vinv (s, first, prev) (NText t) Hv Hnl).
      * change (arrow_fix (s ++ vtt_text t)) with (rep (s ++ vtt_text t)). apply no_cr_rep. rewrite no_cr_app, Hc. apply no_cr_vtt_text. exact Hcr.
  - split; [|split; [|exact Ho]].
    + apply (vtt_step_vinv (s, first, prev) NBreak Hv I).
    + rewrite !no_cr_app, Hc. destruct first; [reflexivity|]. destruct prev; reflexivity.
  - destruct (start && str_nonempty s && lay_truthy cur && lay_truthy l && negb (l =? cur)) eqn:E; cbv beta iota zeta; cbn [g_s g_cur g_first g_prev g_out].
    + assert (Hne : str_nonempty s = true).
      { do 3 (apply andb_true_iff in E; destruct E as [E _]). apply andb_true_iff in E. apply E. }
      split; [|split; [|apply (Hout true eq_refl Hne)]].
      * eexists. cbn [fst snd app]. split; [|intros _; right; reflexivity].
        apply nl_run_no_nl. destruct start; [apply vtt_open_no_nl|apply vtt_close_no_nl].
      * cbn [app]. destruct start; [apply no_cr_open|apply no_cr_close].
    + split; [|split; [|exact Ho]].
      * pose proof (vtt_step_vinv (s, first, prev) (NStyle start sty) Hv I) as Q. destruct start; exact Q.
      * rewrite no_cr_app, Hc. destruct start; [apply no_cr_open|apply no_cr_close].
Qed.

Theorem vtt_groups_good : forall lns, Forall (fun ln => node_ok (snd ln)) lns ->
  Forall (fun g => good_text (fst g)) (vtt_groups lns).
Proof.
  intros lns H. unfold vtt_groups.
  assert (G : GI (fold_left vttg_step lns (mkG [] 0 true false []))).
  { apply (fold_left_inv GI (fun ln => node_ok (snd ln))).
    - intros a b Ha Hb. apply vttg_step_GI; assumption.
    - exact H.
    - split; [|split; [reflexivity|constructor]]. exists true. split; [reflexivity|]. intros _. left. reflexivity. }
  destruct (fold_left vttg_step lns (mkG [] 0 true false [])) as [s cur first prev out]. destruct G as (Hv & Hc & Ho).
  cbn [g_s g_cur g_first g_prev g_out] in *. apply Forall_rev. destruct s as [|c s]; [exact Ho|].
  constructor; [|exact Ho]. cbn [fst]. split; [apply (vinv_nl_ok _ first prev Hv)|]. split; [discriminate|exact Hc].
Qed.

(* no empty line inside any group's cue text (the last line may be empty: a trailing break) *)
Corollary vtt_groups_no_blank_line : forall lns, Forall (fun ln => node_ok (snd ln)) lns ->
  Forall (fun g => forallb str_nonempty (removelast (split_ch 10 (fst g))) = true) (vtt_groups lns).
Proof.
  intros lns H. pose proof (vtt_groups_good lns H) as G. rewrite Forall_forall in *. intros g Hg.
  rewrite <- nl_ok_lines. apply (G g Hg).
Qed.

(* ---- Part B: lines ------------------------------------------------------------------------------------------------ *)
Definition lc (l : str) : bool := forallb (fun c => negb (c =? 10) && negb (c =? 13)) l.

Lemma lf_aux_app : forall a rest cur, lc a = true -> lf_lines_aux (a ++ rest) cur = lf_lines_aux rest (rev a ++ cur).
Proof.
  induction a as [|c a IH]; intros rest cur H; [reflexivity|]. cbn [lc forallb] in H. apply andb_true_iff in H. destruct H as [Hc Ha].
  apply andb_true_iff in Hc. destruct Hc as [H10 H13]. apply negb_true_iff in H10. apply negb_true_iff in H13.
  cbn [app lf_lines_aux]. rewrite H10, H13, (IH rest (c :: cur) Ha). cbn [rev]. rewrite <- app_assoc. reflexivity.
Qed.

Lemma lf_lines_join_aux : forall ls cur, ls <> [] -> Forall (fun l => lc l = true) ls ->
  lf_lines_aux (join [10] ls) cur = (rev cur ++ hd [] ls) :: tl ls.
Proof.
  induction ls as [|a ls IH]; intros cur Hne H; [congruence|]. inversion H as [|x y Ha Hls]; subst. destruct ls as [|b ls].
  - cbn [join hd tl]. rewrite <- (app_nil_r a) at 1. rewrite (lf_aux_app a [] cur Ha). cbn [lf_lines_aux]. rewrite rev_app_distr, rev_involutive. reflexivity.
  - change (join [10] (a :: b :: ls)) with (a ++ [10] ++ join [10] (b :: ls)). rewrite (lf_aux_app a _ cur Ha). cbn [app lf_lines_aux].
    change (10 =? 10) with true. cbv iota. rewrite (IH [] ltac:(discriminate) Hls). cbn [rev app hd tl]. rewrite rev_app_distr, rev_involutive. reflexivity.
Qed.

Lemma lf_lines_join : forall ls, ls <> [] -> Forall (fun l => lc l = true) ls -> lf_lines (join [10] ls) = ls.
Proof. intros ls Hne H. unfold lf_lines. rewrite (lf_lines_join_aux ls [] Hne H). destruct ls; [congruence|reflexivity]. Qed.

Definition nl (l : str) : str := l ++ [10].
Lemma join_nl : forall ls, join [10] (ls ++ [[]]) = concat (map nl ls).
Proof.
  induction ls as [|a ls IH]; [reflexivity|]. destruct ls as [|b ls].
  - cbn. rewrite !app_nil_r. reflexivity.
  - change (join [10] ((a :: b :: ls) ++ [[]])) with (a ++ [10] ++ join [10] ((b :: ls) ++ [[]])). rewrite IH.
    cbn [map concat]. unfold nl. rewrite <- !app_assoc. reflexivity.
Qed.

Lemma join_split_aux : forall s cur, join [10] (split_ch_aux 10 s cur) = rev cur ++ s.
Proof.
  induction s as [|c s IH]; intros cur; [cbn; rewrite app_nil_r; reflexivity|]. cbn [split_ch_aux].
  destruct (Z.eqb_spec c 10) as [->|Hc].
  - pose proof (split_ch_aux_nonnil 10 s []) as Hn. destruct (split_ch_aux 10 s []) as [|x l] eqn:E; [congruence|].
    change (join [10] (rev cur :: x :: l)) with (rev cur ++ [10] ++ join [10] (x :: l)). rewrite <- E, (IH []). reflexivity.
  - rewrite (IH (c :: cur)). cbn [rev]. rewrite <- app_assoc. reflexivity.
Qed.

Lemma text_nl_lines : forall s, s ++ [10] = concat (map nl (split_ch 10 s)).
Proof.
  intros s. rewrite <- join_nl. unfold split_ch.
  assert (E : forall ls, ls <> [] -> join [10] (ls ++ [[]]) = join [10] ls ++ [10]).
  { induction ls as [|a ls IH]; intros Hne; [congruence|]. destruct ls as [|b ls]; [cbn; rewrite ?app_nil_r; reflexivity|].
    change (join [10] ((a :: b :: ls) ++ [[]])) with (a ++ [10] ++ join [10] ((b :: ls) ++ [[]])). rewrite IH by discriminate.
    change (join [10] (a :: b :: ls)) with (a ++ [10] ++ join [10] (b :: ls)). rewrite <- !app_assoc. reflexivity. }
  rewrite E by apply split_ch_aux_nonnil. rewrite join_split_aux. reflexivity.
Qed.

(* ---- the block grammar as ONE pass over the lines ----------------------------------------------------------------------- *)
Definition emit (cur : option (list str)) : list (list str) := match cur with Some p => [rev p] | None => [] end.
Fixpoint stream (ls : list str) (cur : option (list str)) : list (list str) :=
  match ls with
  | [] => emit cur
  | l :: t =>
      if is_empty l then emit cur ++ stream t None
      else if has_arrow l then emit cur ++ stream t (Some [])
      else match cur with Some p => stream t (Some (l :: p)) | None => stream t None end
  end.

Lemma runs_stream : forall ls run E cur,
  (forall X, block_cues (rev run ++ X) None = E ++ block_cues X cur) ->
  flat_map (fun b => block_cues b None) (runs_by is_empty ls run) = E ++ stream ls cur.
Proof.
  induction ls as [|l t IH]; intros run E cur P.
  - pose proof (P []) as P0. rewrite app_nil_r in P0. change (block_cues [] cur) with (emit cur) in P0.
    cbn [runs_by stream]. destruct run as [|r run']; [exact P0|]. cbn [flat_map]. rewrite app_nil_r. exact P0.
  - cbn [runs_by stream]. destruct (is_empty l) eqn:El.
    + pose proof (P []) as P0. rewrite app_nil_r in P0. change (block_cues [] cur) with (emit cur) in P0.
      assert (IH0 : flat_map (fun b => block_cues b None) (runs_by is_empty t []) = stream t None).
      { apply (IH [] [] None). intros X. reflexivity. }
      rewrite app_assoc, <- P0. destruct run as [|r run']; [exact IH0|]. cbn [flat_map]. rewrite IH0. reflexivity.
    + destruct (has_arrow l) eqn:Ea.
      * rewrite app_assoc. apply IH. intros X. cbn [rev]. rewrite <- app_assoc. cbn [app]. rewrite P. cbn [block_cues]. rewrite Ea.
        change (match cur with Some p => [rev p] | None => [] end) with (emit cur). rewrite app_assoc. reflexivity.
      * destruct cur as [p|]; apply IH; intros X; cbn [rev]; rewrite <- app_assoc; cbn [app]; rewrite P; cbn [block_cues]; rewrite Ea; reflexivity.
Qed.

Definition emitting (rest : list str) : Prop :=
  match rest with [] => True | l :: _ => is_empty l = true \/ has_arrow l = true end.

Lemma stream_emitting : forall rest p, emitting rest -> stream rest (Some p) = rev p :: stream rest None.
Proof.
  intros [|l t] p H; [reflexivity|]. cbn [stream emitting] in *. destruct (is_empty l); [reflexivity|].
  destruct H as [H|H]; [discriminate|]. rewrite H. reflexivity.
Qed.

Definition pline (l : str) : Prop := is_empty l = false /\ has_arrow l = false.

Lemma stream_payload : forall P rest p, Forall pline P -> stream (P ++ rest) (Some p) = stream rest (Some (rev P ++ p)).
Proof.
  induction P as [|l P IH]; intros rest p H; [reflexivity|]. inversion H as [|x y [He Ha] HP]; subst.
  cbn [app stream]. rewrite He, Ha, (IH rest (l :: p) HP). cbn [rev]. rewrite <- app_assoc. reflexivity.
Qed.

(* the payload the grammar returns for a cue text: its lines, a final empty line (trailing break) dropped *)
Definition cue_payload (txt : str) : list str :=
  let ls := split_ch 10 txt in if is_empty (last ls []) then removelast ls else ls.

Lemma stream_group : forall T txt rest, has_arrow T = true -> is_empty T = false ->
  Forall pline (removelast (split_ch 10 txt)) -> has_arrow (last (split_ch 10 txt) []) = false -> emitting rest ->
  stream ((T :: split_ch 10 txt) ++ rest) None = cue_payload txt :: stream rest None.
Proof.
  intros T txt rest HT HTe HL Hlast Hr. unfold cue_payload. cbv zeta.
  remember (removelast (split_ch 10 txt)) as L eqn:EL. remember (last (split_ch 10 txt) []) as z eqn:Ez0.
  assert (Hs : split_ch 10 txt = L ++ [z]) by (subst L z; apply app_removelast_last, split_ch_nonnil).
  rewrite Hs. clear Hs EL Ez0.
  cbn [app stream]. rewrite HTe, HT. cbn [emit app]. rewrite <- app_assoc, (stream_payload L _ [] HL). cbn [app stream].
  destruct (is_empty z) eqn:Ez.
  - cbn [emit]. rewrite app_nil_r, rev_involutive. reflexivity.
  - rewrite Hlast, (stream_emitting rest _ Hr). cbn [rev]. rewrite rev_app_distr, rev_involutive. reflexivity.
Qed.

(* ---- lines of a cue text: no arrow, no line end characters ---------------------------------------------------------------- *)
Lemma is_infix_app_r : forall p a l, is_infix p l = true -> is_infix p (a ++ l) = true.
Proof. intros p a l H. induction a as [|c a IH]; [exact H|]. cbn [app is_infix]. rewrite IH. apply orb_true_r. Qed.

Lemma is_prefix_app_more : forall p l b, is_prefix p l = true -> is_prefix p (l ++ b) = true.
Proof. intros p l b H. destruct (is_prefix_inv p l H) as [t ->]. rewrite <- app_assoc. apply is_prefix_app. Qed.

Lemma is_infix_app_l : forall p l b, is_infix p l = true -> is_infix p (l ++ b) = true.
Proof.
  intros p l b. induction l as [|c l IH]; intros H.
  - cbn [is_infix] in H. rewrite orb_false_r in H. destruct (is_prefix_inv p [] H) as [t Ht]. symmetry in Ht. apply app_eq_nil in Ht.
    destruct Ht as [-> _]. destruct b; reflexivity.
  - cbn [app is_infix] in *. apply orb_true_iff in H. destruct H as [H|H].
    + change (c :: l ++ b) with ((c :: l) ++ b). rewrite (is_prefix_app_more p (c :: l) b H). reflexivity.
    + rewrite (IH H). apply orb_true_r.
Qed.

Lemma split_mem : forall s cur l, In l (split_ch_aux 10 s cur) -> exists a b, rev cur ++ s = a ++ l ++ b.
Proof.
  induction s as [|c s IH]; intros cur l H.
  - cbn [split_ch_aux In] in H. destruct H as [<-|[]]. exists [], []. rewrite !app_nil_r. reflexivity.
  - cbn [split_ch_aux] in H. destruct (c =? 10).
    + destruct H as [<-|H].
      * exists [], (c :: s). reflexivity.
      * destruct (IH [] l H) as (a & b & E). cbn [rev app] in E. exists (rev cur ++ [c] ++ a), b. rewrite E, <- !app_assoc. reflexivity.
    + destruct (IH (c :: cur) l H) as (a & b & E). exists a, b. rewrite <- E. cbn [rev]. rewrite <- app_assoc. reflexivity.
Qed.

Lemma line_no_infix : forall p txt l, is_infix p txt = false -> In l (split_ch 10 txt) -> is_infix p l = false.
Proof.
  intros p txt l H Hin. destruct (is_infix p l) eqn:E; [|reflexivity]. destruct (split_mem txt [] l Hin) as (a & b & Eq). cbn [rev app] in Eq.
  rewrite Eq, (is_infix_app_r p a (l ++ b) (is_infix_app_l p l b E)) in H. discriminate.
Qed.

Lemma line_lc : forall txt l, no_cr txt = true -> In l (split_ch 10 txt) -> lc l = true.
Proof.
  intros txt l H Hin. pose proof (split_ch_no_sep 10 txt l Hin) as H10. pose proof (split_ch_forallb _ 10 txt l H Hin) as H13.
  unfold lc. clear -H10 H13. induction l as [|c l IH]; [reflexivity|]. cbn [forallb] in *.
  apply andb_true_iff in H10. apply andb_true_iff in H13. destruct H10 as [A1 A2]. destruct H13 as [B1 B2].
  rewrite A1, B1, (IH A2 B2). reflexivity.
Qed.

Lemma In_removelast : forall {A} (l : list A) x, In x (removelast l) -> In x l.
Proof.
  intros A l. induction l as [|a l IH]; intros x H; [exact H|]. destruct l as [|b l]; [destruct H|].
  change (removelast (a :: b :: l)) with (a :: removelast (b :: l)) in H. destruct H as [->|H]; [left; reflexivity|right; apply IH; exact H].
Qed.

Lemma last_In : forall {A} (l : list A) d, l <> [] -> In (last l d) l.
Proof.
  intros A l d. induction l as [|a l IH]; intros H; [congruence|]. destruct l as [|b l]; [left; reflexivity|].
  right. apply IH. discriminate.
Qed.

(* ---- the document ---------------------------------------------------------------------------------------------------------- *)
Definition glines (settings : Z -> str) (c : str * list lnode) : list str :=
  flat_map (fun g => (fst c ++ settings (snd g)) :: split_ch 10 (fst g)) (vtt_groups (snd c)).

Lemma caption_str : forall settings c, vtt_caption_g settings c = concat (map nl (glines settings c)).
Proof.
  intros settings c. unfold vtt_caption_g, glines. induction (vtt_groups (snd c)) as [|g gs IH]; [reflexivity|].
  cbn [map concat flat_map]. rewrite IH, map_app, concat_app.
  assert (E : forall T S, concat (map nl (T :: S)) = (T ++ [10]) ++ concat (map nl S)) by reflexivity.
  rewrite E, <- (text_nl_lines (fst g)), <- !app_assoc. reflexivity.
Qed.

Fixpoint DL (Xs : list (list str)) : list str :=
  match Xs with [] => [] | [X] => X | X :: t => X ++ [] :: DL t end.

Lemma body_str : forall Xs, join [10] (map (fun X => concat (map nl X)) Xs) = concat (map nl (DL Xs)).
Proof.
  induction Xs as [|X Xs IH]; [reflexivity|]. destruct Xs as [|Y Xs]; [reflexivity|].
  change (join [10] (map (fun X => concat (map nl X)) (X :: Y :: Xs)))
    with (concat (map nl X) ++ [10] ++ join [10] (map (fun X => concat (map nl X)) (Y :: Xs))).
  rewrite IH. change (DL (X :: Y :: Xs)) with (X ++ [] :: DL (Y :: Xs)). rewrite map_app, concat_app. reflexivity.
Qed.

Definition cap_ok (settings : Z -> str) (c : str * list lnode) : Prop :=
  (forall l, has_arrow (fst c ++ settings l) = true /\ lc (fst c ++ settings l) = true) /\
  Forall (fun ln => node_ok (snd ln)) (snd c).

Lemma arrow_nonempty : forall T, has_arrow T = true -> is_empty T = false.
Proof. intros [|c T] H; [discriminate|reflexivity]. Qed.

Lemma stream_glines : forall settings c rest, cap_ok settings c -> emitting rest ->
  stream (glines settings c ++ rest) None = map (fun g => cue_payload (fst g)) (vtt_groups (snd c)) ++ stream rest None.
Proof.
  intros settings c rest [HT Hn] Hr. unfold glines.
  pose proof (vtt_groups_good (snd c) Hn) as G. pose proof (vtt_groups_no_arrow (snd c)) as A.
  induction (vtt_groups (snd c)) as [|g gs IH]; [reflexivity|].
  inversion G as [|x y (Gnl & Gne & Gcr) Gs]; subst. inversion A as [|x y Ag As]; subst.
  cbn [flat_map map]. rewrite <- app_assoc. destruct (HT (snd g)) as [Ha _].
  rewrite (stream_group (fst c ++ settings (snd g)) (fst g)); [cbn [app]; f_equal; exact (IH Gs As)|exact Ha|apply arrow_nonempty; exact Ha| | |].
  - rewrite nl_ok_lines in Gnl. apply Forall_forall. intros l Hl. split.
    + rewrite forallb_forall in Gnl. specialize (Gnl l Hl). destruct l; [discriminate|reflexivity].
    + apply (line_no_infix _ (fst g) l Ag). apply In_removelast. exact Hl.
  - apply (line_no_infix _ (fst g) _ Ag). apply last_In, split_ch_nonnil.
  - destruct gs as [|g2 gs]; [exact Hr|]. cbn [flat_map app emitting]. right. apply (HT (snd g2)).
Qed.

Lemma stream_DL : forall settings caps rest, Forall (cap_ok settings) caps -> emitting rest ->
  stream (DL (map (glines settings) caps) ++ rest) None =
  map (fun g => cue_payload (fst g)) (flat_map (fun c => vtt_groups (snd c)) caps) ++ stream rest None.
Proof.
  intros settings. induction caps as [|c caps IH]; intros rest H Hr; [reflexivity|]. inversion H as [|x y Hc Hcs]; subst.
  destruct caps as [|c2 caps].
  - cbn [map DL flat_map]. rewrite app_nil_r. apply stream_glines; assumption.
  - change (DL (map (glines settings) (c :: c2 :: caps))) with (glines settings c ++ [] :: DL (map (glines settings) (c2 :: caps))).
    rewrite <- app_assoc. rewrite (stream_glines settings c _ Hc); [|left; reflexivity].
    cbn [app stream is_empty emit]. rewrite (IH rest Hcs Hr).
    change (flat_map (fun c0 => vtt_groups (snd c0)) (c :: c2 :: caps))
      with (vtt_groups (snd c) ++ flat_map (fun c0 => vtt_groups (snd c0)) (c2 :: caps)).
    rewrite map_app, <- app_assoc. reflexivity.
Qed.

Lemma DL_Forall : forall (P : str -> Prop) Xs, P [] -> Forall (Forall P) Xs -> Forall P (DL Xs).
Proof.
  intros P Xs P0. induction Xs as [|X Xs IH]; intros H; [constructor|]. inversion H as [|x y HX HXs]; subst. destruct Xs as [|Y Xs]; [exact HX|].
  change (DL (X :: Y :: Xs)) with (X ++ [] :: DL (Y :: Xs)). apply Forall_app. split; [exact HX|]. constructor; [exact P0|apply IH; exact HXs].
Qed.

Lemma glines_lc : forall settings c, cap_ok settings c -> Forall (fun l => lc l = true) (glines settings c).
Proof.
  intros settings c [HT Hn]. unfold glines. pose proof (vtt_groups_good (snd c) Hn) as G.
  induction (vtt_groups (snd c)) as [|g gs IH]; [constructor|]. inversion G as [|x y (_ & _ & Gcr) Gs]; subst.
  cbn [flat_map]. apply Forall_app. split; [|apply IH; exact Gs]. constructor; [apply (HT (snd g))|].
  apply Forall_forall. intros l Hl. apply (line_lc (fst g) l Gcr Hl).
Qed.

(* THE DOCUMENT: accepted by the block grammar, one cue per layout group, payload = the lines of the group's cue text *)
Theorem vtt_doc_cues : forall settings caps, Forall (cap_ok settings) caps ->
  vtt_cues (vtt_doc_g settings caps) =
  Some (map (fun g => cue_payload (fst g)) (flat_map (fun c => vtt_groups (snd c)) caps)).
Proof.
  intros settings caps H. unfold vtt_doc_g.
  assert (Em : map (vtt_caption_g settings) caps = map (fun X => concat (map nl X)) (map (glines settings) caps)).
  { rewrite map_map. apply map_ext. intros c. apply caption_str. }
  rewrite Em, body_str. set (D := DL (map (glines settings) caps)).
  assert (Ed : lit "WEBVTT" ++ [10; 10] ++ concat (map nl D) = join [10] ((lit "WEBVTT" :: [] :: D) ++ [[]])).
  { rewrite join_nl. cbn [map concat]. unfold nl. rewrite <- app_assoc. reflexivity. }
  rewrite Ed. unfold vtt_cues.
  assert (HD : Forall (fun l => lc l = true) D).
  { apply DL_Forall; [reflexivity|]. apply Forall_forall. intros X HX. apply in_map_iff in HX. destruct HX as (c & <- & Hc).
    rewrite Forall_forall in H. apply glines_lc. apply H. exact Hc. }
  rewrite lf_lines_join; [|discriminate|].
  - cbn [app]. change (is_prefix (lit "WEBVTT") (lit "WEBVTT") && match skipn 6 (lit "WEBVTT") with [] => true | c :: _ => (c =? 32) || (c =? 9) end) with true.
    cbv iota. cbn [drop_header is_empty].
    rewrite (runs_stream _ [] [] None) by (intros X; reflexivity). cbn [app stream is_empty emit].
    unfold D. rewrite (stream_DL settings caps [[]] H (or_introl eq_refl)). cbn [stream is_empty emit app]. rewrite app_nil_r. reflexivity.
  - cbn [app]. constructor; [reflexivity|]. constructor; [reflexivity|]. apply Forall_app. split; [exact HD|constructor; [reflexivity|constructor]].
Qed.
