(* C18: equality of geometry values is component-wise; equal values have equal hashes. *)
From Coq Require Import List ZArith QArith Bool Lia.
From PV Require Import lib.Sx lib.Str lib.Result model.Geometry spec.SpecGeom.
Import ListNotations.

(* ---- enumerations ------------------------------------------------------------------------------ *)
Lemma unit_eqb_eq : forall a b, unit_eqb a b = true <-> a = b.
Proof. intros [] []; cbn; split; intros H; try reflexivity; try discriminate. Qed.
Lemma halign_eqb_eq : forall a b, halign_eqb a b = true <-> a = b.
Proof. intros [] []; cbn; split; intros H; try reflexivity; try discriminate. Qed.
Lemma valign_eqb_eq : forall a b, valign_eqb a b = true <-> a = b.
Proof. intros [] []; cbn; split; intros H; try reflexivity; try discriminate. Qed.

Lemma opt_eqb_rel : forall {A} (f : A -> A -> bool) (R : A -> A -> Prop),
  (forall x y, f x y = true <-> R x y) -> forall a b, opt_eqb f a b = true <-> opt_rel R a b.
Proof.
  intros A f R H [x|] [y|]; cbn; try apply H; split; intros; try reflexivity; try discriminate; try contradiction; exact I.
Qed.

Lemma opt_eqb_eq : forall {A} (f : A -> A -> bool), (forall x y, f x y = true <-> x = y) ->
  forall a b, opt_eqb f a b = true <-> a = b.
Proof.
  intros A f H [x|] [y|]; cbn; split; intros E; try reflexivity; try discriminate.
  - apply H in E. congruence.
  - inversion E; subst. apply H. reflexivity.
Qed.

(* ---- eqb <-> componentwise equality ---------------------------------------------------------- *)
Lemma size_eqb_iff : forall a b, size_eqb a b = true <-> size_equiv a b.
Proof.
  intros a b. unfold size_eqb, size_equiv. rewrite andb_true_iff, Qeq_bool_iff, unit_eqb_eq. reflexivity.
Qed.

Lemma point_eqb_iff : forall a b, point_eqb a b = true <-> point_equiv a b.
Proof. intros. unfold point_eqb, point_equiv. rewrite andb_true_iff, !size_eqb_iff. reflexivity. Qed.

Lemma stretch_eqb_iff : forall a b, stretch_eqb a b = true <-> stretch_equiv a b.
Proof. intros. unfold stretch_eqb, stretch_equiv. rewrite andb_true_iff, !size_eqb_iff. reflexivity. Qed.

Lemma padding_eqb_iff : forall a b, padding_eqb a b = true <-> padding_equiv a b.
Proof.
  intros. unfold padding_eqb, padding_equiv. rewrite !andb_true_iff, !size_eqb_iff. tauto.
Qed.

Lemma alignment_eqb_iff : forall a b, alignment_eqb a b = true <-> alignment_equiv a b.
Proof.
  intros. unfold alignment_eqb, alignment_equiv.
  rewrite andb_true_iff, (opt_eqb_eq _ halign_eqb_eq), (opt_eqb_eq _ valign_eqb_eq). reflexivity.
Qed.

Lemma layout_eqb_iff : forall a b, layout_eqb a b = true <-> layout_equiv a b.
Proof.
  intros. unfold layout_eqb, layout_equiv. rewrite !andb_true_iff.
  rewrite (opt_eqb_rel _ _ point_eqb_iff), (opt_eqb_rel _ _ stretch_eqb_iff),
          (opt_eqb_rel _ _ padding_eqb_iff), (opt_eqb_rel _ _ alignment_eqb_iff). tauto.
Qed.

(* the model's __eq__ is the spec's component-wise function, on every pair of operands *)
Lemma layout_eqb_spec : forall a b, layout_eqb a b = spec_layout_eq a b.
Proof.
  intros [o e p al w] [o' e' p' al' w']. unfold layout_eqb, spec_layout_eq. cbn [l_origin l_extent l_padding l_alignment].
  destruct o, o', e, e', p, p', al, al'; reflexivity.
Qed.

Lemma gval_eqb_spec : forall a b, gval_eqb a b = spec_gval_eq a b.
Proof. intros [] []; cbn [gval_eqb spec_gval_eq]; try reflexivity; apply layout_eqb_spec. Qed.

(* ---- equivalence relation ------------------------------------------------------------------------ *)
Lemma size_equiv_refl : forall a, size_equiv a a.
Proof. intros a. split; reflexivity. Qed.
Lemma size_equiv_sym : forall a b, size_equiv a b -> size_equiv b a.
Proof. intros a b [H1 H2]. split; symmetry; assumption. Qed.
Lemma size_equiv_trans : forall a b c, size_equiv a b -> size_equiv b c -> size_equiv a c.
Proof. intros a b c [H1 H2] [H3 H4]. split; etransitivity; eassumption. Qed.

Lemma opt_rel_refl : forall {A} (R : A -> A -> Prop), (forall x, R x x) -> forall a, opt_rel R a a.
Proof. intros A R H [x|]; cbn; auto. Qed.
Lemma opt_rel_sym : forall {A} (R : A -> A -> Prop), (forall x y, R x y -> R y x) -> forall a b, opt_rel R a b -> opt_rel R b a.
Proof. intros A R H [x|] [y|]; cbn; auto. Qed.
Lemma opt_rel_trans : forall {A} (R : A -> A -> Prop), (forall x y z, R x y -> R y z -> R x z) ->
  forall a b c, opt_rel R a b -> opt_rel R b c -> opt_rel R a c.
Proof. intros A R H [x|] [y|] [z|]; cbn; eauto; contradiction. Qed.

Lemma point_equiv_refl : forall a, point_equiv a a.
Proof. intros a. split; apply size_equiv_refl. Qed.
Lemma point_equiv_sym : forall a b, point_equiv a b -> point_equiv b a.
Proof. intros a b [H1 H2]. split; apply size_equiv_sym; assumption. Qed.
Lemma point_equiv_trans : forall a b c, point_equiv a b -> point_equiv b c -> point_equiv a c.
Proof. intros a b c [H1 H2] [H3 H4]. split; eapply size_equiv_trans; eassumption. Qed.

Lemma stretch_equiv_refl : forall a, stretch_equiv a a.
Proof. intros a. split; apply size_equiv_refl. Qed.
Lemma stretch_equiv_sym : forall a b, stretch_equiv a b -> stretch_equiv b a.
Proof. intros a b [H1 H2]. split; apply size_equiv_sym; assumption. Qed.
Lemma stretch_equiv_trans : forall a b c, stretch_equiv a b -> stretch_equiv b c -> stretch_equiv a c.
Proof. intros a b c [H1 H2] [H3 H4]. split; eapply size_equiv_trans; eassumption. Qed.

Lemma padding_equiv_refl : forall a, padding_equiv a a.
Proof. intros a. repeat split; reflexivity. Qed.
Lemma padding_equiv_sym : forall a b, padding_equiv a b -> padding_equiv b a.
Proof. intros a b (H1 & H2 & H3 & H4). repeat split; try apply size_equiv_sym; try assumption;
  first [apply H1|apply H2|apply H3|apply H4|idtac].
  all: try (symmetry; first [apply H1|apply H2|apply H3|apply H4]).
Qed.
Lemma padding_equiv_trans : forall a b c, padding_equiv a b -> padding_equiv b c -> padding_equiv a c.
Proof.
  intros a b c (H1 & H2 & H3 & H4) (K1 & K2 & K3 & K4).
  split; [|split; [|split]]; eapply size_equiv_trans; eassumption.
Qed.

Lemma alignment_equiv_refl : forall a, alignment_equiv a a.
Proof. intros a. split; reflexivity. Qed.
Lemma alignment_equiv_sym : forall a b, alignment_equiv a b -> alignment_equiv b a.
Proof. intros a b [H1 H2]. split; symmetry; assumption. Qed.
Lemma alignment_equiv_trans : forall a b c, alignment_equiv a b -> alignment_equiv b c -> alignment_equiv a c.
Proof. intros a b c [H1 H2] [H3 H4]. split; etransitivity; eassumption. Qed.

Lemma layout_equiv_refl : forall a, layout_equiv a a.
Proof.
  intros a. unfold layout_equiv. repeat split; apply opt_rel_refl;
  [apply point_equiv_refl|apply stretch_equiv_refl|apply padding_equiv_refl|apply alignment_equiv_refl].
Qed.
Lemma layout_equiv_sym : forall a b, layout_equiv a b -> layout_equiv b a.
Proof.
  intros a b (H1 & H2 & H3 & H4). unfold layout_equiv. repeat split.
  - eapply opt_rel_sym; [apply point_equiv_sym|exact H1].
  - eapply opt_rel_sym; [apply stretch_equiv_sym|exact H2].
  - eapply opt_rel_sym; [apply padding_equiv_sym|exact H3].
  - eapply opt_rel_sym; [apply alignment_equiv_sym|exact H4].
Qed.
Lemma layout_equiv_trans : forall a b c, layout_equiv a b -> layout_equiv b c -> layout_equiv a c.
Proof.
  intros a b c (H1 & H2 & H3 & H4) (K1 & K2 & K3 & K4). unfold layout_equiv. repeat split.
  - eapply opt_rel_trans; [apply point_equiv_trans|exact H1|exact K1].
  - eapply opt_rel_trans; [apply stretch_equiv_trans|exact H2|exact K2].
  - eapply opt_rel_trans; [apply padding_equiv_trans|exact H3|exact K3].
  - eapply opt_rel_trans; [apply alignment_equiv_trans|exact H4|exact K4].
Qed.

Theorem layout_eqb_equivalence :
  (forall a, layout_eqb a a = true)
  /\ (forall a b, layout_eqb a b = layout_eqb b a)
  /\ (forall a b c, layout_eqb a b = true -> layout_eqb b c = true -> layout_eqb a c = true).
Proof.
  split; [|split].
  - intros a. apply layout_eqb_iff, layout_equiv_refl.
  - intros a b. destruct (layout_eqb a b) eqn:E1, (layout_eqb b a) eqn:E2; try reflexivity.
    + apply layout_eqb_iff, layout_equiv_sym, layout_eqb_iff in E1. congruence.
    + apply layout_eqb_iff, layout_equiv_sym, layout_eqb_iff in E2. congruence.
  - intros a b c H1 H2. apply layout_eqb_iff. eapply layout_equiv_trans; apply layout_eqb_iff; eassumption.
Qed.

(* the same three laws for every kind of operand *)
Lemma gval_eqb_iff : forall a b, gval_eqb a b = true <-> gval_equiv a b.
Proof.
  intros [] []; cbn [gval_eqb gval_equiv]; try (split; [discriminate|contradiction]).
  - apply size_eqb_iff. - apply point_eqb_iff. - apply stretch_eqb_iff.
  - apply padding_eqb_iff. - apply alignment_eqb_iff. - apply layout_eqb_iff.
Qed.

Theorem gval_eqb_laws :
  (forall a, a <> GOther -> gval_eqb a a = true)
  /\ (forall a b, gval_eqb a b = gval_eqb b a)
  /\ (forall a b c, gval_eqb a b = true -> gval_eqb b c = true -> gval_eqb a c = true).
Proof.
  assert (Sym : forall a b, gval_equiv a b -> gval_equiv b a).
  { intros [] []; cbn [gval_equiv]; try contradiction;
    [apply size_equiv_sym|apply point_equiv_sym|apply stretch_equiv_sym|apply padding_equiv_sym
     |apply alignment_equiv_sym|apply layout_equiv_sym]. }
  split; [|split].
  - intros a Ha. apply gval_eqb_iff. destruct a; cbn [gval_equiv]; try congruence;
    [apply size_equiv_refl|apply point_equiv_refl|apply stretch_equiv_refl|apply padding_equiv_refl
     |apply alignment_equiv_refl|apply layout_equiv_refl].
  - intros a b. destruct (gval_eqb a b) eqn:E1, (gval_eqb b a) eqn:E2; try reflexivity.
    + apply gval_eqb_iff, Sym, gval_eqb_iff in E1. congruence.
    + apply gval_eqb_iff, Sym, gval_eqb_iff in E2. congruence.
  - intros a b c H1 H2. apply gval_eqb_iff. apply gval_eqb_iff in H1, H2.
    destruct a, b, c; cbn [gval_equiv] in *; try contradiction;
    [eapply size_equiv_trans|eapply point_equiv_trans|eapply stretch_equiv_trans|eapply padding_equiv_trans
     |eapply alignment_equiv_trans|eapply layout_equiv_trans]; eassumption.
Qed.

(* ---- hashing: for EVERY choice of the primitive hash functions -------------------------------- *)
Section HashCoherent.
  Variable hq : Q -> Z.
  Variable hu : unit_ -> Z.
  Variable hh : option halign -> Z.
  Variable hv : option valign -> Z.
  Variable hnone : Z.
  Variable hint : Z -> Z.

  Lemma size_hash_eq : forall a b, size_eqb a b = true -> size_hash hq hu hint a = size_hash hq hu hint b.
  Proof.
    intros a b H. apply size_eqb_iff in H. destruct H as [H1 H2]. unfold size_hash.
    rewrite (Qred_complete _ _ H1), H2. reflexivity.
  Qed.

  Lemma point_hash_eq : forall a b, point_eqb a b = true -> point_hash hq hu hint a = point_hash hq hu hint b.
  Proof.
    intros a b H. unfold point_eqb in H. apply andb_true_iff in H. destruct H as [H1 H2]. unfold point_hash.
    rewrite (size_hash_eq _ _ H1), (size_hash_eq _ _ H2). reflexivity.
  Qed.

  Lemma stretch_hash_eq : forall a b, stretch_eqb a b = true -> stretch_hash hq hu hint a = stretch_hash hq hu hint b.
  Proof.
    intros a b H. unfold stretch_eqb in H. apply andb_true_iff in H. destruct H as [H1 H2]. unfold stretch_hash.
    rewrite (size_hash_eq _ _ H1), (size_hash_eq _ _ H2). reflexivity.
  Qed.

  Lemma padding_hash_eq : forall a b, padding_eqb a b = true -> padding_hash hq hu hint a = padding_hash hq hu hint b.
  Proof.
    intros a b H. unfold padding_eqb in H. apply andb_true_iff in H. destruct H as [H H4].
    apply andb_true_iff in H. destruct H as [H H3]. apply andb_true_iff in H. destruct H as [H1 H2].
    unfold padding_hash.
    rewrite (size_hash_eq _ _ H1), (size_hash_eq _ _ H2), (size_hash_eq _ _ H3), (size_hash_eq _ _ H4). reflexivity.
  Qed.

  Lemma alignment_hash_eq : forall a b, alignment_eqb a b = true -> alignment_hash hh hv hint a = alignment_hash hh hv hint b.
  Proof.
    intros a b H. apply alignment_eqb_iff in H. destruct H as [H1 H2]. unfold alignment_hash. rewrite H1, H2. reflexivity.
  Qed.

  Lemma opt_hash_eq : forall {A} (f : A -> A -> bool) (h : A -> Z), (forall x y, f x y = true -> h x = h y) ->
    forall a b, opt_eqb f a b = true -> opt_hash hnone h a = opt_hash hnone h b.
  Proof. intros A f h H [x|] [y|]; cbn; intros E; try discriminate; auto. Qed.

  Lemma layout_hash_eq : forall a b, layout_eqb a b = true ->
    layout_hash hq hu hh hv hnone hint a = layout_hash hq hu hh hv hnone hint b.
  Proof.
    intros a b H. unfold layout_eqb in H. apply andb_true_iff in H. destruct H as [H H4].
    apply andb_true_iff in H. destruct H as [H H3]. apply andb_true_iff in H. destruct H as [H1 H2].
    unfold layout_hash.
    rewrite (opt_hash_eq _ _ point_hash_eq _ _ H1), (opt_hash_eq _ _ stretch_hash_eq _ _ H2),
            (opt_hash_eq _ _ padding_hash_eq _ _ H3), (opt_hash_eq _ _ alignment_hash_eq _ _ H4). reflexivity.
  Qed.
  Lemma gval_hash_eq : forall a b, gval_eqb a b = true ->
    gval_hash hq hu hh hv hnone hint a = gval_hash hq hu hh hv hnone hint b.
  Proof.
    intros [] []; cbn [gval_eqb gval_hash]; intros H; try discriminate;
    [apply size_hash_eq|apply point_hash_eq|apply stretch_hash_eq|apply padding_hash_eq|apply alignment_hash_eq
     |apply layout_hash_eq]; exact H.
  Qed.
End HashCoherent.

(* the Coq oracle accepts what the model computes (refinement shape), for every pair *)
Lemma ok_eq_model : forall hq hu hh hv hnone hint a b,
  ok_eq a b (layout_eqb a b) (negb (layout_eqb a b))
        (Z.eqb (layout_hash hq hu hh hv hnone hint a) (layout_hash hq hu hh hv hnone hint b)) = true.
Proof.
  intros. pose proof (layout_eqb_spec a b) as S. unfold ok_eq. rewrite <- S. rewrite !eqb_reflx. cbn [andb].
  destruct (layout_eqb a b) eqn:E; [|reflexivity].
  rewrite (layout_hash_eq hq hu hh hv hnone hint _ _ E), Z.eqb_refl. reflexivity.
Qed.

(* ---- equality = identity of normal forms (an independent characterisation: no recursion shared with the model) ---- *)
Lemma size_eqb_norm : forall a b, size_eqb a b = true <-> norm_size a = norm_size b.
Proof.
  intros a b. rewrite size_eqb_iff. unfold size_equiv, norm_size. split.
  - intros [H1 H2]. rewrite (Qred_complete _ _ H1), H2. reflexivity.
  - intros H. pose proof (f_equal s_val H) as H1. pose proof (f_equal s_unit H) as H2. cbn [s_val s_unit] in H1, H2.
    split; [|exact H2]. rewrite <- (Qred_correct (s_val a)), <- (Qred_correct (s_val b)), H1. reflexivity.
Qed.

Lemma point_eqb_norm : forall a b, point_eqb a b = true <-> norm_point a = norm_point b.
Proof.
  intros a b. unfold point_eqb, norm_point. rewrite andb_true_iff, !size_eqb_norm. split.
  - intros [H1 H2]. rewrite H1, H2. reflexivity.
  - intros H. split; [exact (f_equal p_x H)|exact (f_equal p_y H)].
Qed.

Lemma stretch_eqb_norm : forall a b, stretch_eqb a b = true <-> norm_stretch a = norm_stretch b.
Proof.
  intros a b. unfold stretch_eqb, norm_stretch. rewrite andb_true_iff, !size_eqb_norm. split.
  - intros [H1 H2]. rewrite H1, H2. reflexivity.
  - intros H. split; [exact (f_equal st_h H)|exact (f_equal st_v H)].
Qed.

Lemma padding_eqb_norm : forall a b, padding_eqb a b = true <-> norm_padding a = norm_padding b.
Proof.
  intros a b. unfold padding_eqb, norm_padding. rewrite !andb_true_iff, !size_eqb_norm. split.
  - intros [[[H1 H2] H3] H4]. rewrite H1, H2, H3, H4. reflexivity.
  - intros H. repeat split; [exact (f_equal pd_before H)|exact (f_equal pd_after H)|exact (f_equal pd_start H)|exact (f_equal pd_end H)].
Qed.

Lemma opt_eqb_map : forall {A} (f : A -> A -> bool) (n : A -> A), (forall x y, f x y = true <-> n x = n y) ->
  forall a b, opt_eqb f a b = true <-> option_map n a = option_map n b.
Proof.
  intros A f n H [x|] [y|]; cbn [opt_eqb option_map]; split; intros E; try discriminate; try reflexivity.
  - f_equal. apply H. exact E.
  - inversion E. apply H. assumption.
Qed.

Theorem layout_eqb_norm : forall a b, layout_eqb a b = true <-> norm_layout a = norm_layout b.
Proof.
  intros a b. unfold layout_eqb, norm_layout. rewrite !andb_true_iff.
  rewrite (opt_eqb_map _ _ point_eqb_norm), (opt_eqb_map _ _ stretch_eqb_norm), (opt_eqb_map _ _ padding_eqb_norm).
  assert (A : opt_eqb alignment_eqb (l_alignment a) (l_alignment b) = true <-> l_alignment a = l_alignment b).
  { destruct (l_alignment a) as [[h v]|], (l_alignment b) as [[h' v']|]; cbn [opt_eqb]; split; intros E; try discriminate; try reflexivity.
    - apply alignment_eqb_iff in E. destruct E as [E1 E2]. cbn [al_h al_v] in *. subst. reflexivity.
    - inversion E; subst. apply alignment_eqb_iff. split; reflexivity. }
  rewrite A. split.
  - intros [[[H1 H2] H3] H4]. rewrite H1, H2, H3, H4. reflexivity.
  - intros H. repeat split; [exact (f_equal l_origin H)|exact (f_equal l_extent H)|exact (f_equal l_padding H)|exact (f_equal l_alignment H)].
Qed.
