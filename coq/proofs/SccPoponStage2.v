(* C05, stage 2 of the pop-on refinement: a single load with ONE row whose items are basic characters, special
   characters, extended characters (with their stand-in) and explicit backspaces (no mid-row codes), preamble of any
   colour / underline (stage 2: non-italic) or italic (stage 2b), control codes single or doubled. The decoder queues
   exactly one text node carrying the characters of the 608 screen row (preceded by one italics-on node for an italic
   preamble); read-level corollaries and the link to ok_c05.
   OPEN (not covered here): rows containing mid-row codes (item Mid), loads of several rows, several loads. *)
From Coq Require Import List ZArith QArith Qabs Lia Bool ZifyBool.
From PV Require Import lib.Sx lib.Str lib.Result model.GenScc model.SccLen model.SccTime model.SccStash model.SccDecoder model.SccLayout
                       spec.Spec608 spec.SpecScc05 spec.SpecSccLen proofs.SccTableFacts proofs.SccTableFixFacts proofs.SccDoubleFacts
                       proofs.SccLenFacts proofs.SccStashFacts proofs.SccPoponStage1.
Import ListNotations. Open Scope Z_scope.

(* performance only (see stage 1): the conversion must never evaluate the filter inside basic_code on a variable *)
Local Strategy 1000 [basic_code is_basic].

Definition rich_item (it : item) : bool := match it with Mid _ => false | _ => true end.
(* one row without mid-row codes, any preamble *)
Definition rich_row_any (r : row) : bool := row_ok r && forallb rich_item (rw_items r).
(* ... with a non-italic preamble (stage 2) / an italic preamble (stage 2b) *)
Definition rich_row (r : row) : bool := row_ok r && negb (rw_ital r) && forallb rich_item (rw_items r).
Definition rich_row_ital (r : row) : bool := row_ok r && rw_ital r && forallb rich_item (rw_items r).
(* the characters the 608 screen shows: the cells of the row (no Opt cell occurs without mid-row codes) *)
Definition cell_char (c : cell) : Z := match c with Cell ch _ => ch | Opt => 32 end.
Definition rich_text (r : row) : str := map cell_char (cells_of r).

Lemma rich_row_gen : forall r, rich_row r = true -> rich_row_any r = true /\ rw_ital r = false.
Proof.
  intros r H. unfold rich_row in H. apply andb_true_iff in H. destruct H as [H H3].
  apply andb_true_iff in H. destruct H as [H1 H2]. apply negb_true_iff in H2.
  unfold rich_row_any. rewrite H1, H3. split; [reflexivity|exact H2].
Qed.

Lemma rich_row_ital_gen : forall r, rich_row_ital r = true -> rich_row_any r = true /\ rw_ital r = true.
Proof.
  intros r H. unfold rich_row_ital in H. apply andb_true_iff in H. destruct H as [H H3].
  apply andb_true_iff in H. destruct H as [H1 H2].
  unfold rich_row_any. rewrite H1, H3. split; [reflexivity|exact H2].
Qed.

(* ---- 1. facts about the generated tables (computed over the complete tables) ------------------------------ *)
(* no basic character is the value of an extended-character code: the stand-in is always removed *)
Lemma basic_not_extended : forall c, is_basic c = true -> is_extended_value c = false.
Proof.
  intros c H. destruct (basic_code_range c H) as [R E]. rewrite <- E. clear E H. revert R. generalize (basic_code c). intros b R.
  assert (F : forallb (fun b => negb (is_extended_value (basic_608 b))) (zrange 32 95) = true) by vmr.
  apply negb_true_iff. apply (all_in _ _ F). inrange.
Qed.

(* a character of a caption row: not a control character, and white space only if it is the blank *)
Definition gcharb (c : Z) : bool := (32 <=? c) && (negb (is_space c) || (c =? 32)).

Lemma gchar_tables : forall c, In c (special_608 ++ extended1_608 ++ extended2_608) -> gcharb c = true.
Proof. apply all_in. vmr. Qed.

Lemma gchar_basic : forall c, is_basic c = true -> gcharb c = true.
Proof.
  intros c H. pose proof (is_basic_ge32 c H) as H1. pose proof (basic_space c H) as H2. clear H. unfold gcharb.
  apply andb_true_iff. split; [apply Z.leb_le; exact H1|].
  destruct (is_space c); [|reflexivity]. rewrite (H2 eq_refl). reflexivity.
Qed.

Lemma gchar_special : forall i, 0 <= i < 16 -> gcharb (nth (Z.to_nat i) special_608 0) = true.
Proof.
  intros i Hi. apply gchar_tables. apply in_or_app. left. apply nth_In.
  change (length special_608) with 16%nat. lia.
Qed.

Lemma gchar_ext : forall g i, 0 <= i < 32 -> gcharb (ext_char g i) = true.
Proof.
  intros g i Hi. apply gchar_tables. apply in_or_app. right. apply in_or_app. unfold ext_char.
  destruct (g =? 0); [left|right]; apply nth_In;
    [change (length extended1_608) with 32%nat|change (length extended2_608) with 32%nat]; lia.
Qed.

Lemma ext_word_ok : forall g i, 0 <= i < 32 -> extended_of (ext_word g i) = Some [ext_char g i].
Proof.
  intros g i Hi. unfold ext_word, ext_char. destruct (extended_match_608 i Hi) as [E1 E2].
  destruct (g =? 0); assumption.
Qed.

(* the first byte tells special characters, the two extended sets and the miscellaneous control codes apart *)
Lemma hi_word2 : forall a b, hi (word a b) = odd_parity a.
Proof. intros a b. unfold word. apply hi_word. apply odd_parity_range. Qed.

Lemma hi_special : forall i, hi (special_word i) = 145.
Proof. intros i. unfold special_word. rewrite hi_word2. reflexivity. Qed.

Lemma hi_ext : forall g i, hi (ext_word g i) = 146 \/ hi (ext_word g i) = 19.
Proof.
  intros g i. unfold ext_word, extended1_word, extended2_word. destruct (g =? 0); rewrite hi_word2; [left|right]; reflexivity.
Qed.

Lemma hi_bs : hi w_bs = 148.
Proof. reflexivity. Qed.

Lemma special_word_inj : forall i j, 0 <= i < 16 -> 0 <= j < 16 -> special_word i = special_word j -> i = j.
Proof.
  intros i j Hi Hj E.
  pose proof (map_eq_pointwise2 (fun i j => (special_word i =? special_word j)) (fun i j => (i =? j)) (zrange 0 16) (zrange 0 16)
                ltac:(vmr) i j ltac:(inrange) ltac:(inrange)) as F.
  cbv beta in F. rewrite E, Z.eqb_refl in F. symmetry in F. apply Z.eqb_eq in F. exact F.
Qed.

Lemma cue_command : forall w, is_cue_start w = true -> is_command w = true.
Proof.
  intros w E. unfold is_cue_start in E.
  destruct control_codes as (_ & _ & _ & _ & _ & _ & _ & _ & _ & _ & F & L).
  apply memz_In in E. apply (proj1 (L w)) in E. rewrite Forall_forall in F. apply F. cbn [In] in *. intuition.
Qed.

(* a word of one of the three code kinds sent inside a row *)
Inductive kind : Type := KSp (ch : Z) | KExt (ch : Z) | KBs.
Definition kind_ok (w : Z) (k : kind) : Prop :=
  match k with
  | KSp ch => special_of w = Some [ch]
  | KExt ch => extended_of w = Some [ch]
  | KBs => w = w_bs
  end.

Definition codeword (w : Z) : Prop := (is_command w || is_pac w) = true \/ special_of w <> None \/ extended_of w <> None.

Record cclass (w : Z) : Prop := mkCc {
  cc_pac : is_pac w = false; cc_tab : tab_of w = None; cc_cue : is_cue_start w = false;
  cc_eoc : (w =? w_eoc) = false; cc_code : codeword w }.

Lemma bs_facts : is_command w_bs = true /\ is_pac w_bs = false /\ special_of w_bs = None /\ extended_of w_bs = None /\
  tab_of w_bs = None /\ pac_pos w_bs = None /\ is_cue_start w_bs = false /\
  memz w_bs scc_background_color_codes = false /\ memz w_bs scc_style_setting_commands = false /\
  memz w_bs scc_mid_row_codes = false /\ ~ In w_bs ctl_words.
Proof.
  repeat split; try vmr. intros H. apply (memz_In w_bs ctl_words) in H. revert H. vm_compute. discriminate.
Qed.

Lemma kind_class : forall w k, kind_ok w k -> cclass w.
Proof.
  intros w k H. destruct k as [ch|ch|]; cbn [kind_ok] in H.
  - assert (X : special_of w <> None) by congruence.
    destruct classes_disjoint as (D & _). destruct (D w X) as (Hc & Hp & He & Ht).
    split; try assumption.
    + destruct (is_cue_start w) eqn:E; [|reflexivity]. apply cue_command in E. congruence.
    + destruct (Z.eqb_spec w w_eoc) as [->|]; [|reflexivity]. rewrite w_eoc_command in Hc. discriminate.
    + right. left. exact X.
  - assert (X : extended_of w <> None) by congruence.
    destruct classes_disjoint as (_ & D & _). destruct (D w X) as (Hc & Hp & Ht).
    split; try assumption.
    + destruct (is_cue_start w) eqn:E; [|reflexivity]. apply cue_command in E. congruence.
    + destruct (Z.eqb_spec w w_eoc) as [->|]; [|reflexivity]. rewrite w_eoc_command in Hc. discriminate.
    + right. right. exact X.
  - subst w. destruct bs_facts as (Hc & Hp & _ & _ & Ht & _ & Hq & _).
    split; try assumption; try reflexivity. left. rewrite Hc. reflexivity.
Qed.

(* ---- 2. abstract tokens: bytes with the character they carry, code words with their kind -------------------- *)
Inductive atok : Type := ACh (b c : Z) | ACode (w : Z) (k : kind).

Fixpoint apack (d : bool) (ts : list atok) (pend : option Z) : list Z :=
  match ts with
  | [] => flush pend
  | ACh b _ :: t => match pend with
                    | None => apack d t (Some b)
                    | Some b0 => (b0 * 256 + b) :: apack d t None
                    end
  | ACode w _ :: t => flush pend ++ ctl d w ++ apack d t None
  end.

Definition atoks_of_item (it : item) : list atok :=
  match it with
  | Ch c => [ACh (bc c) c]
  | Sp i => [ACode (special_word i) (KSp (nth (Z.to_nat i) special_608 0))]
  | Ext s g i => [ACh (bc s) s; ACode (ext_word g i) (KExt (ext_char g i))]
  | Mid _ => []
  | Bs => [ACode w_bs KBs]
  end.

Lemma pack_apack : forall d its pend, forallb rich_item its = true ->
  pack d (flat_map toks_of_item its) pend = apack d (flat_map atoks_of_item its) pend.
Proof.
  intros d. induction its as [|it t IH]; intros pend H; [reflexivity|].
  rewrite forallb_cons in H. apply andb_true_iff in H. destruct H as [Hi Ht].
  destruct it; try discriminate Hi; cbn [flat_map toks_of_item atoks_of_item app pack apack].
  - destruct pend; rewrite (IH _ Ht); reflexivity.
  - rewrite (IH _ Ht). reflexivity.
  - destruct pend; cbn [flush app]; rewrite (IH _ Ht); reflexivity.
  - rewrite (IH _ Ht). reflexivity.
Qed.

(* what the decoder's text becomes: a special character is appended, an extended character replaces the last
   character, a backspace removes it *)
Definition ksem (k : kind) (vt : str) : str :=
  match k with KSp ch => vt ++ [ch] | KExt ch => removelast vt ++ [ch] | KBs => removelast vt end.
Definition kpre (k : kind) (vt : str) : Prop :=
  match k with KExt _ => vt <> [] /\ is_extended_value (last vt 0) = false | _ => True end.

(* vt: the text transmitted so far; pc: the code word sent last if the last token was a code word *)
Fixpoint aok (ts : list atok) (vt : str) (pc : option Z) : Prop :=
  match ts with
  | [] => True
  | ACh b c :: t => carries b c /\ aok t (vt ++ [c]) None
  | ACode w k :: t => pc <> Some w /\ kind_ok w k /\ kpre k vt /\ aok t (ksem k vt) (Some w)
  end.
Fixpoint asem (ts : list atok) (vt : str) : str :=
  match ts with
  | [] => vt
  | ACh _ c :: t => asem t (vt ++ [c])
  | ACode _ k :: t => asem t (ksem k vt)
  end.

Definition pc_of (prev : option item) : option Z :=
  match prev with
  | Some (Sp j) => Some (special_word j)
  | Some (Ext _ g i) => Some (ext_word g i)
  | Some Bs => Some w_bs
  | _ => None
  end.
Definition prev_good (prev : option item) : Prop := match prev with Some (Sp j) => 0 <= j < 16 | _ => True end.

Lemma items_ok_inv : forall it t prev, items_ok (it :: t) prev = true ->
  items_ok t (Some it) = true /\
  match it with
  | Ch c => is_basic c = true
  | Sp i => 0 <= i < 16 /\ (forall j, prev = Some (Sp j) -> i <> j)
  | Ext s g i => is_basic s = true /\ 0 <= i < 32
  | Mid _ => True
  | Bs => (exists c, prev = Some (Ch c)) \/ (exists j, prev = Some (Sp j)) \/ (exists s g i, prev = Some (Ext s g i))
  end.
Proof.
  intros it t prev H. destruct it; cbn [items_ok] in H; apply andb_true_iff in H; destruct H as [H1 H2]; (split; [exact H2|]).
  - exact H1.
  - apply andb_true_iff in H1. destruct H1 as [H1 H4]. apply andb_true_iff in H1. destruct H1 as [H1 _].
    apply andb_true_iff in H1. destruct H1 as [H1 H3]. apply Z.leb_le in H1. apply Z.ltb_lt in H3.
    split; [split; assumption|]. intros j ->. apply negb_true_iff in H4. apply Z.eqb_neq. exact H4.
  - do 5 (apply andb_true_iff in H1; let H' := fresh "G" in destruct H1 as [H1 H']).
    apply Z.leb_le in G0. apply Z.ltb_lt in G. split; [exact H1|split; assumption].
  - exact I.
  - destruct prev as [[c|j|s g i|a|]|]; try discriminate H1.
    + left. exists c. reflexivity.
    + right. left. exists j. reflexivity.
    + right. right. exists s, g, i. reflexivity.
Qed.

Lemma map_removelast : forall A B (f : A -> B) l, map f (removelast l) = removelast (map f l).
Proof.
  intros A B f. induction l as [|x t IH]; [reflexivity|].
  destruct t as [|y t']; [reflexivity|]. change (f x :: map f (removelast (y :: t')) = f x :: removelast (map f (y :: t'))).
  rewrite IH. reflexivity.
Qed.

Lemma word_neq_hi : forall a b, hi a <> hi b -> Some a <> Some b.
Proof. intros a b H E. injection E as ->. apply H. reflexivity. Qed.

(* the items of a row, seen as abstract tokens, are well formed and compute the cells of the 608 screen *)
Lemma items_aok : forall ital its prev acc, items_ok its prev = true -> forallb rich_item its = true -> prev_good prev ->
  aok (flat_map atoks_of_item its) (map cell_char acc) (pc_of prev) /\
  asem (flat_map atoks_of_item its) (map cell_char acc) = map cell_char (row_cells its acc ital).
Proof.
  intros ital. induction its as [|it t IH]; intros prev acc Hok Hr Hg; [split; [exact I|reflexivity]|].
  rewrite forallb_cons in Hr. apply andb_true_iff in Hr. destruct Hr as [Hi Hr].
  destruct (items_ok_inv it t prev Hok) as [Hok' Hit].
  destruct it as [c|i|s g i|a|]; try discriminate Hi; cbn [flat_map atoks_of_item app aok asem row_cells].
  - destruct (IH (Some (Ch c)) (acc ++ [Cell c ital]) Hok' Hr I) as [A B].
    rewrite map_app in A, B. cbn [map cell_char pc_of] in A, B.
    split; [split; [exact (carries_bc c Hit)|exact A]|exact B].
  - destruct Hit as [Hi' Hne].
    destruct (IH (Some (Sp i)) (acc ++ [Cell (nth (Z.to_nat i) special_608 0) ital]) Hok' Hr Hi') as [A B].
    rewrite map_app in A, B. cbn [map cell_char pc_of] in A, B. cbn [ksem kind_ok kpre].
    split; [|exact B]. split; [|split; [exact (special_match_608 i Hi')|split; [exact I|exact A]]].
    destruct prev as [[c|j|s g j|a|]|]; cbn [pc_of]; try discriminate.
    + intros E. injection E as E. apply (Hne j eq_refl). symmetry. exact (special_word_inj j i Hg Hi' E).
    + apply word_neq_hi. rewrite hi_special. destruct (hi_ext g j) as [->| ->]; discriminate.
    + apply word_neq_hi. rewrite hi_special, hi_bs. discriminate.
  - destruct Hit as [Hs Hi'].
    destruct (IH (Some (Ext s g i)) (acc ++ [Cell (ext_char g i) ital]) Hok' Hr I) as [A B].
    rewrite map_app in A, B. cbn [map cell_char pc_of] in A, B. cbn [ksem kind_ok kpre].
    rewrite removelast_last, last_last.
    split; [|exact B]. split; [exact (carries_bc s Hs)|]. split; [discriminate|]. split; [exact (ext_word_ok g i Hi')|].
    split; [|exact A]. split; [|exact (basic_not_extended s Hs)].
    intros E. apply app_eq_nil in E. destruct E as [_ E]. discriminate.
  - destruct (IH (Some Bs) (removelast acc) Hok' Hr I) as [A B].
    rewrite map_removelast in A, B. cbn [pc_of] in A, B. cbn [ksem kind_ok kpre].
    split; [|exact B]. split; [|split; [reflexivity|split; [exact I|exact A]]].
    destruct Hit as [[c ->]|[[j ->]|[s [g [i ->]]]]]; cbn [pc_of]; try discriminate.
    + apply word_neq_hi. rewrite hi_special, hi_bs. discriminate.
    + apply word_neq_hi. rewrite hi_bs. destruct (hi_ext g i) as [->| ->]; discriminate.
Qed.

(* ---- 3. single steps on a pop-on buffer holding (a fixed prefix and) one text node ------------------------------- *)
Lemma hd_code : forall st tk l ds c pa ro q tm tc fr off w,
  is_pac w = false -> tab_of w = None -> is_cue_start w = false -> last_is l w = false ->
  handle_double (mkR st tk l ds c pa ro MPop q tm tc fr off None) w
  = (false, mkR st tk (LWord w) ds c pa ro MPop q tm tc fr off None).
Proof.
  intros st tk l ds c pa ro q tm tc fr off w Hp Ht Hq Hl. unfold handle_double. proj_red. rewrite Hp, Ht, Hq, Hl.
  rewrite !andb_false_r. proj_red. reflexivity.
Qed.

Lemma interp_bs : forall tk c n, interpret_command tk c w_bs n = (tk, handle_backspace w_bs c, None).
Proof.
  intros tk c n. destruct bs_facts as (_ & _ & _ & _ & Ht & Hp & _ & Hbg & Hst & Hmid & _).
  unfold interpret_command, update_positioning. cbv zeta. rewrite Ht, Hp, Z.eqb_refl, Hbg, Hst, Hmid.
  cbv beta iota. cbn [andb]. destruct (prev_text (cr_nodes (handle_backspace w_bs c))) as [[x y]|]; reflexivity.
Qed.

(* a command that is neither backspace, background colour, style-setting nor mid-row only moves the cursor *)
Lemma interp_plain : forall tk c w n, (w =? w_bs) = false -> memz w scc_background_color_codes = false ->
  memz w scc_style_setting_commands = false -> memz w scc_mid_row_codes = false ->
  interpret_command tk c w n = (update_positioning tk c w, c, None).
Proof.
  intros tk c w n Hbs Hbg Hst Hmid. unfold interpret_command. cbv zeta. rewrite Hbs, Hbg, Hst, Hmid.
  cbv beta iota. cbn [andb]. destruct (prev_text (cr_nodes c)) as [[x y]|]; reflexivity.
Qed.

Section Run.
Variables (st : stash) (p dflt : pos) (d : bool) (pre : list inode) (sty : istyle) (pa ro : creator)
          (q : option (creator * Q)) (tm : Q) (tc : str) (off : Q).
(* the prefix: nothing (plain preamble) or the italics-on node of an italic preamble *)
Hypothesis Hpre : pre = [] \/ exists p0, pre = [mkI IItalOn [] p0].

(* r_dstart = d: the doubled RCL of the prologue sets double_starter *)
Definition GS (l : lastcmd) (nodes : list inode) (fr : Z) : rstate :=
  mkR st (mkTk [p] None false dflt) l d (mkCr nodes sty) pa ro MPop q tm tc fr off None.
Definition holdsg (nodes : list inode) (txt : str) : Prop :=
  (nodes = pre /\ txt = []) \/ nodes = pre ++ [mkI IText txt p].

Lemma holdsg_one : forall txt, holdsg (pre ++ [mkI IText txt p]) txt.
Proof. intros txt. right. reflexivity. Qed.

Lemma add_chars_g : forall nodes txt s, holdsg nodes txt ->
  add_chars (mkTk [p] None false dflt) (mkCr nodes sty) s
  = (mkTk [p] None false dflt, mkCr (pre ++ [mkI IText (txt ++ s) p]) sty).
Proof. intros nodes txt s [[-> ->]| ->]; destruct Hpre as [->|[p0 ->]]; reflexivity. Qed.

Lemma prev_text_one : forall c0 t, prev_text (pre ++ [mkI IText (c0 :: t) p]) = Some (c0 :: t, false).
Proof. intros c0 t. destruct Hpre as [->|[p0 ->]]; reflexivity. Qed.

Lemma prev_text_none : prev_text pre = None /\ prev_text (pre ++ [mkI IText [] p]) = None.
Proof. destruct Hpre as [->|[p0 ->]]; split; reflexivity. Qed.

Lemma upd_one : forall f c0 t, upd_prev_text f (pre ++ [mkI IText (c0 :: t) p]) = pre ++ [mkI IText (f (c0 :: t)) p].
Proof. intros f c0 t. destruct Hpre as [->|[p0 ->]]; reflexivity. Qed.

(* the stand-in before an extended character is removed *)
Lemma hb_ext : forall w x vt, extended_of w = Some x -> vt <> [] -> is_extended_value (last vt 0) = false ->
  handle_backspace w (mkCr (pre ++ [mkI IText vt p]) sty) = mkCr (pre ++ [mkI IText (removelast vt) p]) sty.
Proof.
  intros w x vt He Hne Hl. destruct vt as [|c0 t]; [congruence|].
  unfold handle_backspace. cbn [cr_nodes cr_style]. rewrite prev_text_one, He. unfold last_char. rewrite Hl.
  cbn [andb negb orb]. rewrite upd_one. reflexivity.
Qed.

Lemma hb_bs : forall nodes vt, holdsg nodes vt ->
  exists nodes', handle_backspace w_bs (mkCr nodes sty) = mkCr nodes' sty /\ holdsg nodes' (removelast vt).
Proof.
  intros nodes vt Hh. destruct prev_text_none as [N1 N2]. unfold handle_backspace. cbn [cr_nodes cr_style].
  destruct Hh as [[-> ->]| ->].
  - rewrite N1. exists pre. split; [reflexivity|left; split; reflexivity].
  - destruct vt as [|c0 t].
    + rewrite N2. exists (pre ++ [mkI IText [] p]). split; [reflexivity|right; reflexivity].
    + rewrite prev_text_one, Z.eqb_refl, orb_true_r, upd_one.
      exists (pre ++ [mkI IText (removelast (c0 :: t)) p]). split; [reflexivity|right; reflexivity].
Qed.

(* a word of two bytes of the character table *)
Lemma tw_char_g : forall l nodes txt fr w a b n,
  char_of (hi w) = Some a -> char_of (lo w) = Some b -> holdsg nodes txt ->
  translate_word (GS l nodes fr) w n = GS (LWord w) (pre ++ [mkI IText (txt ++ a ++ b) p]) (fr + 1).
Proof.
  intros l nodes txt fr w a b n Ha Hb Hh. unfold GS.
  destruct (char_word_class w a b Ha Hb) as (Hc & Hp & Hs & He & Ht & Hq & Hbs).
  unfold translate_word. proj_red. unfold handle_double. proj_red. rewrite Hc, Hp, Hs, He, Ht, Hq.
  proj_red. rewrite ?andb_false_r. proj_red. rewrite Ha, Hb. unfold add_to_buf. proj_red.
  rewrite (add_chars_g nodes txt (a ++ b) Hh). proj_red. reflexivity.
Qed.

(* the first copy of a code word of the three kinds *)
Lemma tw_code : forall w k vt l nodes fr, kind_ok w k -> kpre k vt -> last_is l w = false -> holdsg nodes vt ->
  exists nodes', (forall n, translate_word (GS l nodes fr) w n = GS (LWord w) nodes' (fr + 1)) /\ holdsg nodes' (ksem k vt).
Proof.
  intros w k vt l nodes fr Hk Hp Hl Hh. destruct (kind_class w k Hk) as [Cp Ct Cq _ _].
  destruct k as [ch|ch|]; cbn [kind_ok kpre ksem] in *.
  - assert (X : special_of w <> None) by congruence.
    destruct classes_disjoint as (D & _). destruct (D w X) as (Hc & _).
    exists (pre ++ [mkI IText (vt ++ [ch]) p]). split; [|apply holdsg_one].
    intros n. unfold GS, translate_word. proj_red. rewrite (hd_code _ _ _ _ _ _ _ _ _ _ _ _ _ Cp Ct Cq Hl). proj_red.
    rewrite Hc, Cp. proj_red. rewrite Hk. unfold add_to_buf. proj_red.
    rewrite (add_chars_g nodes vt [ch] Hh). proj_red. reflexivity.
  - assert (X : extended_of w <> None) by congruence.
    destruct classes_disjoint as (D1 & D & _). destruct (D w X) as (Hc & _).
    assert (Hs : special_of w = None).
    { destruct (special_of w) eqn:E; [|reflexivity]. exfalso.
      assert (Y : special_of w <> None) by congruence. destruct (D1 w Y) as (_ & _ & Z0 & _). congruence. }
    destruct Hp as [Hne Hlast].
    destruct Hh as [[_ ->]| ->]; [congruence|].
    exists (pre ++ [mkI IText (removelast vt ++ [ch]) p]). split; [|apply holdsg_one].
    intros n. unfold GS, translate_word. proj_red. rewrite (hd_code _ _ _ _ _ _ _ _ _ _ _ _ _ Cp Ct Cq Hl). proj_red.
    rewrite Hc, Cp. proj_red. rewrite Hs, Hk. unfold add_to_buf. proj_red.
    rewrite (hb_ext w [ch] vt Hk Hne Hlast).
    rewrite (add_chars_g _ (removelast vt) [ch] (holdsg_one _)). proj_red. reflexivity.
  - subst w. destruct bs_facts as (Hc & _ & _ & _ & _ & _ & _ & _ & _ & _ & Hn).
    destruct (hb_bs nodes vt Hh) as (nodes' & E & Hh').
    exists nodes'. split; [|exact Hh'].
    intros n. unfold GS, translate_word. proj_red. rewrite (hd_code _ _ _ _ _ _ _ _ _ _ _ _ _ Cp Ct Cq Hl). proj_red.
    rewrite Hc. proj_red. rewrite (translate_command_other _ w_bs n Hn). unfold do_interpret. proj_red.
    rewrite interp_bs, E. proj_red. reflexivity.
Qed.

Lemma dt_code : forall w k l nodes fr, kind_ok w k -> d = true -> doubled_type (GS l nodes fr) w = true.
Proof.
  intros w k l nodes fr Hk _. unfold doubled_type.
  destruct k as [ch|ch|]; cbn [kind_ok] in Hk.
  - rewrite Hk. rewrite orb_true_r. reflexivity.
  - rewrite Hk. apply orb_true_r.
  - subst w. vm_compute. reflexivity.
Qed.

(* what the double-command memory may hold before a code word: never that code word (unless it was just sent) *)
Definition lgood (l : lastcmd) (pc : option Z) : Prop :=
  forall w, codeword w -> is_pac w = false -> pc <> Some w -> last_is l w = false.
Definition linv (l : lastcmd) (pc : option Z) : Prop := lgood l pc /\ last_is l w_eoc = false.

Lemma linv_none : forall pc, linv LNone pc.
Proof. intros pc. split; [intros w _ _ _|]; reflexivity. Qed.

Lemma linv_char : forall w a b, char_of (hi w) = Some a -> char_of (lo w) = Some b -> linv (LWord w) None.
Proof.
  intros w a b Ha Hb. split.
  - intros w' Hc _ _. cbn [last_is]. destruct (Z.eqb_spec w w') as [E|]; [|reflexivity]. exfalso. subst w'.
    destruct classes_disjoint as (_ & _ & _ & _ & D). destruct (D w Hc); congruence.
  - cbn [last_is]. exact (char_word_not_eoc w a b Ha Hb).
Qed.

Lemma linv_code : forall w, cclass w -> linv (LWord w) (Some w).
Proof.
  intros w C. split.
  - intros w' _ _ Hne. cbn [last_is]. destruct (Z.eqb_spec w w') as [E|]; [|reflexivity]. congruence.
  - cbn [last_is]. exact (cc_eoc w C).
Qed.

Lemma d_cases : d = true \/ d = false.
Proof. case d; auto. Qed.

(* a code word, sent once or twice *)
Lemma code_run : forall w k vt pc l nodes fr nx, kind_ok w k -> kpre k vt -> pc <> Some w -> holdsg nodes vt -> linv l pc ->
  exists l' nodes', tws (GS l nodes fr) (ctl d w) nx = GS l' nodes' (fr + Z.of_nat (length (ctl d w))) /\
                    holdsg nodes' (ksem k vt) /\ linv l' (Some w).
Proof.
  intros w k vt pc l nodes fr nx Hk Hp Hpc Hh [Hg _]. pose proof (kind_class w k Hk) as C.
  assert (Hl : last_is l w = false) by (apply Hg; [exact (cc_code w C)|exact (cc_pac w C)|exact Hpc]).
  destruct (tw_code w k vt l nodes fr Hk Hp Hl Hh) as (nodes' & E1 & Hh').
  destruct d_cases as [Ed|Ed]; rewrite Ed; cbn [ctl tws length].
  - exists LNone, nodes'. split; [|split; [exact Hh'|apply linv_none]].
    rewrite E1. rewrite tw_second; [|reflexivity|reflexivity|exact (dt_code w k _ _ _ Hk Ed)].
    rewrite (cc_cue w C). unfold GS, bump, set_dbl, set_clock. proj_red. f_equal. lia.
  - exists (LWord w), nodes'. split; [|split; [exact Hh'|exact (linv_code w C)]].
    rewrite E1. reflexivity.
Qed.

Definition rgoal (l : lastcmd) (nodes : list inode) (fr : Z) (nx : option Z) (ws : list Z) (txt' : str) : Prop :=
  exists l' nodes', tws (GS l nodes fr) ws nx = GS l' nodes' (fr + Z.of_nat (length ws)) /\
                    holdsg nodes' txt' /\ last_is l' w_eoc = false.

Lemma rgoal_step : forall l nodes fr nx a rest txt' l1 nodes1,
  tws (GS l nodes fr) a (nxt rest nx) = GS l1 nodes1 (fr + Z.of_nat (length a)) ->
  rgoal l1 nodes1 (fr + Z.of_nat (length a)) nx rest txt' -> rgoal l nodes fr nx (a ++ rest) txt'.
Proof.
  intros l nodes fr nx a rest txt' l1 nodes1 E (l' & nodes' & E' & Hh & Hl). exists l', nodes'.
  rewrite tws_app, E, E'. split; [|split; assumption]. f_equal. rewrite app_length. lia.
Qed.

(* one word of characters, then the rest *)
Lemma rgoal_char : forall l nodes txt fr nx w a b rest txt',
  char_of (hi w) = Some a -> char_of (lo w) = Some b -> holdsg nodes txt ->
  (forall l1 nodes1 fr1, holdsg nodes1 (txt ++ a ++ b) -> linv l1 None -> rgoal l1 nodes1 fr1 nx rest txt') ->
  rgoal l nodes fr nx (w :: rest) txt'.
Proof.
  intros l nodes txt fr nx w a b rest txt' Ha Hb Hh K.
  apply (rgoal_step l nodes fr nx [w] rest txt' (LWord w) (pre ++ [mkI IText (txt ++ a ++ b) p])).
  - cbn [tws length]. apply tw_char_g; assumption.
  - apply K; [apply holdsg_one|exact (linv_char w a b Ha Hb)].
Qed.

Lemma atoks_run : forall nx ts,
  (forall vt pc l nodes fr, aok ts vt pc -> holdsg nodes vt -> linv l pc ->
     rgoal l nodes fr nx (apack d ts None) (asem ts vt)) /\
  (forall b0 c0 txt l nodes fr, carries b0 c0 -> aok ts (txt ++ [c0]) None -> holdsg nodes txt ->
     rgoal l nodes fr nx (apack d ts (Some b0)) (asem ts (txt ++ [c0]))).
Proof.
  intros nx.
  (* a pending byte is flushed with the filler, then the tokens run without a pending byte *)
  assert (FL : forall ts,
     (forall vt pc l nodes fr, aok ts vt pc -> holdsg nodes vt -> linv l pc ->
        rgoal l nodes fr nx (apack d ts None) (asem ts vt)) ->
     forall b0 c0 txt l nodes fr, carries b0 c0 -> aok ts (txt ++ [c0]) None -> holdsg nodes txt ->
        rgoal l nodes fr nx ((b0 * 256 + 128) :: apack d ts None) (asem ts (txt ++ [c0]))).
  { intros ts A1 b0 c0 txt l nodes fr [Rg0 Hc0] Hok Hh.
    assert (Ha : char_of (hi (b0 * 256 + 128)) = Some [c0]) by (rewrite hi_word by lia; exact Hc0).
    assert (Hl : char_of (lo (b0 * 256 + 128)) = Some []) by (rewrite lo_word by lia; exact char_of_pad).
    apply (rgoal_char l nodes txt fr nx _ [c0] [] _ _ Ha Hl Hh). rewrite app_nil_r.
    intros l1 nodes1 fr1 Hh1 Hl1. exact (A1 _ None l1 nodes1 fr1 Hok Hh1 Hl1). }
  induction ts as [|tk ts [IHa IHb]].
  - assert (A1 : forall vt pc l nodes fr, aok [] vt pc -> holdsg nodes vt -> linv l pc ->
                   rgoal l nodes fr nx (apack d [] None) (asem [] vt)).
    { intros vt pc l nodes fr _ Hh [_ Hl]. exists l, nodes. cbn [apack flush tws length asem].
      rewrite Z.add_0_r. split; [reflexivity|split; assumption]. }
    split; [exact A1|]. intros b0 c0 txt l nodes fr Hc Hok Hh. exact (FL [] A1 b0 c0 txt l nodes fr Hc Hok Hh).
  - destruct tk as [b c|w k].
    + split.
      * intros vt pc l nodes fr [Hc Hok] Hh _. cbn [apack asem]. exact (IHb b c vt l nodes fr Hc Hok Hh).
      * intros b0 c0 txt l nodes fr [Rg0 Hc0] [[Rg Hc] Hok] Hh. cbn [apack asem].
        assert (Ha : char_of (hi (b0 * 256 + b)) = Some [c0]) by (rewrite hi_word by exact Rg; exact Hc0).
        assert (Hl : char_of (lo (b0 * 256 + b)) = Some [c]) by (rewrite lo_word by exact Rg; exact Hc).
        apply (rgoal_char l nodes txt fr nx _ [c0] [c] _ _ Ha Hl Hh).
        intros l1 nodes1 fr1 Hh1 Hl1.
        apply (IHa ((txt ++ [c0]) ++ [c]) None l1 nodes1 fr1); [exact Hok|rewrite <- app_assoc; exact Hh1|exact Hl1].
    + assert (A1 : forall vt pc l nodes fr, aok (ACode w k :: ts) vt pc -> holdsg nodes vt -> linv l pc ->
                     rgoal l nodes fr nx (apack d (ACode w k :: ts) None) (asem (ACode w k :: ts) vt)).
      { intros vt pc l nodes fr (Hpc & Hk & Hp & Hok) Hh Hl. cbn [apack flush app asem].
        destruct (code_run w k vt pc l nodes fr (nxt (apack d ts None) nx) Hk Hp Hpc Hh Hl) as (l1 & nodes1 & E1 & Hh1 & Hl1).
        apply (rgoal_step l nodes fr nx (ctl d w) _ _ l1 nodes1 E1). exact (IHa _ _ l1 nodes1 _ Hok Hh1 Hl1). }
      split; [exact A1|]. intros b0 c0 txt l nodes fr Hc Hok Hh.
      exact (FL (ACode w k :: ts) A1 b0 c0 txt l nodes fr Hc Hok Hh).
Qed.
End Run.

(* ---- 4. the domain: what row_ok gives for a row without mid-row codes ------------------------------------------ *)
Lemma row_ok_style : forall r, row_ok r = true -> 0 <= rw_style r < 18 /\ (rw_indent r = 0 \/ rw_style r <= 1).
Proof.
  intros r. unfold row_ok. cbv zeta. generalize (cells_of r) (items_ok (rw_items r) None). intros cs io H.
  repeat (apply andb_true_iff in H; let H' := fresh "H" in destruct H as [H H']).
  lia.
Qed.

(* every cell is a character cell with the italic attribute of the preamble *)
Definition gcell (ital : bool) (c : cell) : Prop := c = Cell (cell_char c) ital /\ gcharb (cell_char c) = true.

Lemma Forall_removelast : forall A (P : A -> Prop) l, Forall P l -> Forall P (removelast l).
Proof.
  intros A P. induction l as [|x t IH]; intros H; [constructor|]. destruct t as [|y t']; [constructor|].
  inversion H; subst. change (Forall P (x :: removelast (y :: t'))). constructor; [assumption|apply IH; assumption].
Qed.

Lemma cells_good : forall ital its prev acc, items_ok its prev = true -> forallb rich_item its = true ->
  Forall (gcell ital) acc -> Forall (gcell ital) (row_cells its acc ital).
Proof.
  intros ital. induction its as [|it t IH]; intros prev acc Hok Hr Ha; [exact Ha|].
  rewrite forallb_cons in Hr. apply andb_true_iff in Hr. destruct Hr as [Hi Hr].
  destruct (items_ok_inv it t prev Hok) as [Hok' Hit].
  destruct it as [c|i|s g i|a|]; try discriminate Hi; cbn [row_cells]; apply (IH _ _ Hok' Hr).
  - apply Forall_app. split; [exact Ha|]. constructor; [|constructor]. split; [reflexivity|exact (gchar_basic c Hit)].
  - apply Forall_app. split; [exact Ha|]. constructor; [|constructor]. split; [reflexivity|exact (gchar_special i (proj1 Hit))].
  - apply Forall_app. split; [exact Ha|]. constructor; [|constructor]. split; [reflexivity|exact (gchar_ext g i (proj2 Hit))].
  - apply Forall_removelast. exact Ha.
Qed.

Lemma gcell_map : forall ital cs, Forall (gcell ital) cs ->
  cs = map (fun c => Cell c ital) (map cell_char cs) /\ Forall (fun c => gcharb c = true) (map cell_char cs).
Proof.
  intros ital. induction cs as [|c t IH]; intros H; [split; [reflexivity|constructor]|].
  inversion H as [|x y [H1 H2] H3]; subst. destruct (IH H3) as [E F]. cbn [map]. split.
  - rewrite <- E, <- H1. reflexivity.
  - constructor; assumption.
Qed.

Lemma gcharb_parts : forall c, gcharb c = true -> 32 <= c /\ (is_space c = true -> c = 32).
Proof.
  intros c H. unfold gcharb in H. apply andb_true_iff in H. destruct H as [H1 H2]. apply Z.leb_le in H1.
  split; [exact H1|]. intros E. rewrite E in H2. cbn [negb orb] in H2. apply Z.eqb_eq in H2. exact H2.
Qed.

Lemma rich_facts : forall r, rich_row_any r = true ->
  1 <= rw_row r <= 15 /\ In (rw_indent r) indents_608 /\ 0 <= rw_tab r <= 3 /\
  0 <= rw_style r < 18 /\ (rw_indent r = 0 \/ rw_style r <= 1) /\
  aok (flat_map atoks_of_item (rw_items r)) [] None /\ asem (flat_map atoks_of_item (rw_items r)) [] = rich_text r /\
  cells_of r = map (fun c => Cell c (rw_ital r)) (rich_text r) /\ Forall (fun c => gcharb c = true) (rich_text r) /\
  rich_text r <> [] /\ is_space (last (rich_text r) 0) = false /\
  rw_indent r + rw_tab r + Z.of_nat (length (rich_text r)) <= 32.
Proof.
  intros r H. unfold rich_row_any in H. apply andb_true_iff in H. destruct H as [Hok Hb].
  destruct (row_ok_parts r Hok) as (Hr & Hm & Ht & Hio & Hv & Hl & Hn).
  destruct (row_ok_style r Hok) as [Hs1 Hs2].
  destruct (items_aok (rw_ital r) (rw_items r) None [] Hio Hb I) as [A B]. cbn [map pc_of] in A, B.
  pose proof (cells_good (rw_ital r) (rw_items r) None [] Hio Hb (Forall_nil _)) as G. fold (cells_of r) in G, B.
  destruct (gcell_map _ _ G) as [E F]. fold (rich_text r) in E, F, B.
  assert (Hne : cells_of r <> []) by exact (existsb_nonnil _ _ _ Hv).
  assert (Hne' : rich_text r <> []) by (unfold rich_text; intros X; apply map_eq_nil in X; congruence).
  assert (Hlast : is_space (last (rich_text r) 0) = false).
  { unfold rich_text. rewrite (last_indep _ _ 0 (cell_char Opt)) by exact Hne'. rewrite (last_map _ _ cell_char _ Opt Hne).
    destruct (exists_last Hne) as (l' & x & Ex). rewrite Ex in Hl, G |- *. rewrite last_last in Hl |- *.
    apply Forall_app in G. destruct G as [_ G]. inversion G as [|x0 y0 [G1 G2] G3]; subst x0 y0.
    destruct (gcharb_parts _ G2) as [_ Q]. rewrite G1 in Hl. cbn [cell_space] in Hl.
    destruct (is_space (cell_char x)); [|reflexivity]. rewrite (Q eq_refl) in Hl. discriminate. }
  assert (Hlen : length (cells_of r) = length (rich_text r)) by (unfold rich_text; rewrite map_length; reflexivity).
  rewrite Hlen in Hn.
  exact (conj Hr (conj (mem_In _ _ Hm) (conj Ht (conj Hs1 (conj Hs2 (conj A (conj B (conj E (conj F (conj Hne' (conj Hlast Hn))))))))))).
Qed.

(* ---- 5. the preamble address code of a row: any colour / underline / italics ---------------------------------------- *)
Lemma pac_attr_facts2 : forall r, In (rw_indent r) indents_608 -> 0 <= rw_style r < 18 -> (rw_indent r = 0 \/ rw_style r <= 1) ->
  0 <= pac_attr r < 32 /\ pac_col (pac_attr r) = rw_indent r /\ pac_italics (pac_attr r) = rw_ital r.
Proof.
  intros [rr ind tab sty its]. unfold pac_attr, rw_ital. cbn [rw_indent rw_style]. intros Hin Hs Hor.
  unfold indents_608 in Hin. cbn [In] in Hin. destruct Hin as [<-|Hin].
  - cbn [Z.eqb andb]. unfold pac_col. destruct (sty <? 16) eqn:E16; [split; [lia|split; reflexivity]|].
    (* the indent form of the preamble address code with indent 0 (attributes 16 / 17: white, optional underline) *)
    assert (Hs' : sty = 16 \/ sty = 17) by lia. destruct Hs' as [->| ->]; (split; [lia|split; vm_compute; reflexivity]).
  - repeat (destruct Hin as [<-|Hin];
            [assert (Hs' : sty = 0 \/ sty = 1) by lia; destruct Hs' as [->| ->];
             (split; [split; [apply Z.leb_le|apply Z.ltb_lt]; vm_compute; reflexivity|split; vm_compute; reflexivity])|]).
    destruct Hin.
Qed.

(* a preamble address code: dispatched to interpret_command, none of the mode / buffer commands *)
Record ctlfree (w : Z) : Prop := mkCf {
  cf_bs : (w =? w_bs) = false;
  cf_ctl : ~ In w ctl_words;
  cf_bg : memz w scc_background_color_codes = false;
  cf_mid : memz w scc_mid_row_codes = false;
  cf_cp : (is_command w || is_pac w) = true }.

Lemma pac_row_facts2 : forall r, rich_row_any r = true ->
  let p := pac_word (rw_row r) (pac_attr r) in
  pac_pos p = Some (rw_row r, rw_indent r) /\ is_pac p = true /\ tab_of p = None /\ ctlfree p /\
  memz p scc_style_setting_commands = true /\ memz p scc_italics_commands = rw_ital r.
Proof.
  intros r H p. destruct (rich_facts r H) as (Hr & Hin & _ & Hs1 & Hs2 & _).
  destruct (pac_attr_facts2 r Hin Hs1 Hs2) as (Ha & Hc & Hit).
  assert (Hp : pac_pos p = Some (rw_row r, rw_indent r)) by (unfold p; rewrite (pac_grid _ _ Hr Ha), Hc; reflexivity).
  assert (Hpac : is_pac p = true) by (unfold is_pac; rewrite Hp; reflexivity).
  destruct (pac_facts p Hpac) as [Ht Hq].
  destruct classes_disjoint as (_ & _ & D & _). destruct (D p Hpac) as (_ & Hm & Hb & Hn).
  destruct (every_pac_sets_style _ _ Hr Ha) as [Hst Hi]. fold p in Hst, Hi.
  repeat split; try assumption.
  - destruct (Z.eqb_spec p w_bs) as [E|]; [|reflexivity]. exfalso. apply Hn. rewrite E. cbn [In]. auto.
  - intros X. apply Hn. unfold ctl_words in X. cbn [In] in *. intuition.
  - rewrite Hpac. apply orb_true_r.
  - rewrite Hi. exact Hit.
Qed.

Lemma tw_cmd : forall st tk l ds c pa ro q tm tc fr off w n l' tk' c',
  (is_command w || is_pac w) = true -> ~ In w ctl_words ->
  handle_double (mkR st tk l ds c pa ro MPop q tm tc fr off None) w
    = (false, mkR st tk l' ds c pa ro MPop q tm tc fr off None) ->
  interpret_command tk c w n = (tk', c', None) ->
  translate_word (mkR st tk l ds c pa ro MPop q tm tc fr off None) w n
  = mkR st tk' l' ds c' pa ro MPop q tm tc (fr + 1) off None.
Proof.
  intros st tk l ds c pa ro q tm tc fr off w n l' tk' c' Hcp Hn Hd Hi.
  unfold translate_word. proj_red. rewrite Hd. proj_red. rewrite Hcp.
  rewrite (translate_command_other _ w n Hn). unfold do_interpret. proj_red. rewrite Hi. proj_red. reflexivity.
Qed.

(* a preamble address code on the empty buffer: an italic one opens italics *)
Lemma interp_pac : forall dflt w n pos it, (w =? w_bs) = false -> memz w scc_background_color_codes = false ->
  memz w scc_mid_row_codes = false -> memz w scc_style_setting_commands = true -> memz w scc_italics_commands = it ->
  tab_of w = None -> pac_pos w = Some pos ->
  interpret_command (mkTk [] None false dflt) creator0 w n
  = (mkTk [pos] None false pos, mkCr (if it then [mkI IItalOn [] pos] else []) (if it then SOn else SNone), None).
Proof.
  intros dflt w n pos it Hbs Hbg Hmid Hst Hit Ht Hp. unfold interpret_command. cbv zeta.
  rewrite (up_pac_fresh _ _ _ _ Ht Hp), tracker_first, Hbs, Hbg, Hst, Hit, Hmid. destruct it; reflexivity.
Qed.

Definition pre_of (r : row) : list inode := if rw_ital r then [mkI IItalOn [] (rw_row r, rw_indent r)] else [].
Definition sty_of (r : row) : istyle := if rw_ital r then SOn else SNone.

Lemma pre_of_cases : forall r, pre_of r = [] \/ exists p0, pre_of r = [mkI IItalOn [] p0].
Proof. intros r. unfold pre_of. destruct (rw_ital r); [right; eexists; reflexivity|left; reflexivity]. Qed.

Section PacUnit2.
Variable r : row.
Hypothesis Hrow : rich_row_any r = true.
Variables (st : stash) (ds : bool) (pa ro : creator) (q : option (creator * Q)) (tm : Q) (tc : str) (off : Q).

Definition SQ (c : creator) (tk : tracker) (l : lastcmd) (fr : Z) : rstate := mkR st tk l ds c pa ro MPop q tm tc fr off None.
Notation p := (pac_word (rw_row r) (pac_attr r)).
Notation t := (tab_word (rw_tab r)).
Notation pos0 := (rw_row r, rw_indent r).
Notation cr := (mkCr (pre_of r) (sty_of r)).

Lemma pac_step2 : forall dflt l fr n, last_contains l p = false ->
  translate_word (SQ creator0 (mkTk [] None false dflt) l fr) p n = SQ cr (mkTk [pos0] None false pos0) (LWord p) (fr + 1).
Proof.
  intros dflt l fr n Hl. destruct (pac_row_facts2 r Hrow) as (Hp & Hpac & Ht & C & Hst & Hit). unfold SQ.
  apply (tw_cmd _ _ _ _ _ _ _ _ _ _ _ _ p n (LWord p) _ _ (cf_cp _ C) (cf_ctl _ C)
           (hd_pac _ _ _ _ _ _ _ _ _ _ _ _ _ Hpac Hl)).
  rewrite (interp_pac dflt p n pos0 (rw_ital r) (cf_bs _ C) (cf_bg _ C) (cf_mid _ C) Hst Hit Ht Hp). reflexivity.
Qed.

Lemma tab_step2 : forall fr n, 1 <= rw_tab r <= 3 ->
  translate_word (SQ cr (mkTk [pos0] None false pos0) (LWord p) fr) t n
  = SQ cr (mkTk [row_pos r] None false (row_pos r)) (LPacTo p t) (fr + 1).
Proof.
  intros fr n Hk. destruct (pac_row_facts2 r Hrow) as (Hp & Hpac & Ht & _). destruct (tab_row_facts _ Hk) as [Htab I].
  assert (X : tab_of t <> None) by congruence.
  destruct classes_disjoint as (_ & _ & _ & D & _). destruct (D _ X) as (_ & _ & _ & Hsty & _).
  unfold SQ.
  apply (tw_cmd _ _ _ _ _ _ _ _ _ _ _ _ t n (LPacTo p t) _ _ (in_cp _ I) (in_ctl _ I)
           (hd_tab _ _ _ _ _ _ _ _ _ _ _ _ _ _ Hpac Htab)).
  rewrite (interp_plain _ _ t n (in_bs _ I) (in_bg _ I) Hsty (in_mid _ I)).
  unfold update_positioning. rewrite Htab. cbn [tk_default fst snd cr_nodes].
  assert (Hb : has_break_before (pre_of r) = false) by (unfold pre_of; destruct (rw_ital r); reflexivity).
  rewrite Hb, (tracker_tab _ _ _ Hk). reflexivity.
Qed.

Lemma pac_again2 : forall c tk l fr n, last_contains l p = true -> translate_word (SQ c tk l fr) p n = SQ c tk LNone (fr + 1).
Proof.
  intros c tk l fr n Hl. destruct (pac_row_facts2 r Hrow) as (_ & Hpac & _). unfold SQ.
  rewrite (pac_second (mkR st tk l ds c pa ro MPop q tm tc fr off None) p n eq_refl Hpac Hl). reflexivity.
Qed.

Lemma tab_again2 : forall c tk fr n, 1 <= rw_tab r <= 3 -> translate_word (SQ c tk LNone fr) t n = SQ c tk LNone (fr + 1).
Proof.
  intros c tk fr n Hk. destruct (tab_row_facts _ Hk) as [Htab _]. unfold SQ.
  rewrite (tab_skip_none (mkR st tk LNone ds c pa ro MPop q tm tc fr off None) t n eq_refl eq_refl); [reflexivity|congruence].
Qed.

Lemma linv_pac : linv (LWord p) None.
Proof.
  destruct (pac_row_facts2 r Hrow) as (_ & Hpac & _ & C & _). split.
  - intros w _ Hw _. cbn [last_is]. destruct (Z.eqb_spec p w) as [E|]; [|reflexivity]. rewrite <- E in Hw. congruence.
  - cbn [last_is]. apply Z.eqb_neq. intros E. apply (cf_ctl _ C). rewrite E. unfold ctl_words. cbn [In]. tauto.
Qed.

Lemma pac_unit_run2 : forall d dflt l fr nx, last_contains l p = false ->
  exists l', tws (SQ creator0 (mkTk [] None false dflt) l fr) (pac_unit d r) nx
             = SQ cr (mkTk [row_pos r] None false (row_pos r)) l' (fr + Z.of_nat (length (pac_unit d r)))
             /\ linv l' None.
Proof.
  intros d dflt l fr nx Hl. destruct (rich_facts r Hrow) as (_ & _ & Hk & _).
  unfold pac_unit. cbv zeta. destruct (0 <? rw_tab r) eqn:Et.
  - assert (Hk' : 1 <= rw_tab r <= 3) by lia. destruct d.
    + exists LNone. split; [|apply linv_none]. cbn [app tws length].
      rewrite (pac_step2 dflt l fr _ Hl), (tab_step2 _ _ Hk'), pac_again2, (tab_again2 _ _ _ _ Hk').
      * f_equal. lia.
      * cbn [last_contains]. rewrite Z.eqb_refl. reflexivity.
    + exists (LPacTo p t). split; [|split; [intros w _ _ _|]; reflexivity]. cbn [app tws length].
      rewrite (pac_step2 dflt l fr _ Hl), (tab_step2 _ _ Hk'). f_equal. lia.
  - assert (E0 : rw_tab r = 0) by lia. unfold row_pos. rewrite E0, Z.add_0_r. destruct d.
    + exists LNone. split; [|apply linv_none]. cbn [app tws length].
      rewrite (pac_step2 dflt l fr _ Hl), pac_again2.
      * f_equal. lia.
      * cbn [last_contains]. apply Z.eqb_refl.
    + exists (LWord p). split; [|exact linv_pac]. cbn [app tws length].
      rewrite (pac_step2 dflt l fr _ Hl). reflexivity.
Qed.
End PacUnit2.

(* ---- 6. prologue (ENM RCL), End-Of-Caption, the whole load ------------------------------------------------------------ *)
(* the doubled RCL sets double_starter; a single RCL leaves it unset: r_dstart = d *)
Lemma prologue_run2 : forall d off tc nx, exists l,
  tws (start_state off tc) (ctl d (ctrl_word 46) ++ ctl d (ctrl_word 32)) nx
  = mkR stash0 tracker0 l d creator0 creator0 creator0 MPop None 0 tc (if d then 4 else 2) off None
  /\ (l = LNone \/ l = LWord w_rcl).
Proof.
  intros d off tc nx. destruct d.
  - exists LNone. split; [vm_compute; reflexivity|left; reflexivity].
  - exists (LWord w_rcl). split; [vm_compute; reflexivity|right; reflexivity].
Qed.

Lemma eoc_run_g : forall d st tk l ds c pa ro tm tc fr off nx t, cr_is_empty c = false -> last_is l w_eoc = false ->
  get_time tc fr off = Ok t ->
  exists l' ds', tws (mkR st tk l ds c pa ro MPop None tm tc fr off None) (ctl d (ctrl_word 47)) nx
   = mkR st tk l' ds' creator0 pa ro MPop (Some (c, t)) t tc (fr + (if d then 2 else 1)) off None
   /\ last_is l' w_edm = false.
Proof.
  intros d st tk l ds c pa ro tm tc fr off nx t Hne Hl Hg.
  change (ctrl_word 47) with w_eoc.
  assert (E1 : forall n, translate_word (mkR st tk l ds c pa ro MPop None tm tc fr off None) w_eoc n
          = mkR st tk (LWord w_eoc) ds creator0 pa ro MPop (Some (c, t)) t tc (fr + 1) off None).
  { intros n. unfold translate_word. proj_red. rewrite (hd_eoc _ _ _ _ _ _ _ _ _ _ _ _ Hl). proj_red.
    replace (is_command w_eoc || is_pac w_eoc) with true by (vm_compute; reflexivity).
    rewrite translate_command_eoc. unfold with_time. proj_red. rewrite Hg. cbv zeta. proj_red. rewrite Hne. reflexivity. }
  destruct d; cbn [ctl tws].
  - exists LNone, ds. split; [|reflexivity]. rewrite E1. rewrite tw_second; [| reflexivity | reflexivity | reflexivity].
    unfold bump, set_dbl, set_clock. proj_red. f_equal; first [lia | reflexivity].
  - exists (LWord w_eoc), ds. split; [|reflexivity]. rewrite E1. reflexivity.
Qed.

Lemma emit_load_one2 : forall d r, rich_row_any r = true ->
  emit_load d [r] = (ctl d (ctrl_word 46) ++ ctl d (ctrl_word 32)) ++ pac_unit d r
                    ++ apack d (flat_map atoks_of_item (rw_items r)) None ++ ctl d (ctrl_word 47).
Proof.
  intros d r H. unfold rich_row_any in H. apply andb_true_iff in H. destruct H as [_ Hb].
  unfold emit_load, emit_row. cbn [flat_map]. rewrite (pack_apack d _ None Hb), app_nil_r, <- !app_assoc. reflexivity.
Qed.

Lemma nonempty_not_empty : forall pre c0 txt p sty,
  pre = [] \/ (exists p0, pre = [mkI IItalOn [] p0]) -> cr_is_empty (mkCr (pre ++ [mkI IText (c0 :: txt) p]) sty) = false.
Proof. intros pre c0 txt p sty [->|[p0 ->]]; reflexivity. Qed.

Lemma stage2_state : forall d r off tc nx t, rich_row_any r = true ->
  get_time tc (Z.of_nat (length (emit_load d [r])) - (if d then 2 else 1)) off = Ok t ->
  exists l ds,
   tws (start_state off tc) (emit_load d [r]) nx =
     mkR stash0 (mkTk [row_pos r] None false (row_pos r)) l ds creator0 creator0 creator0 MPop
         (Some (mkCr (pre_of r ++ [mkI IText (rich_text r) (row_pos r)]) (sty_of r), t)) t tc
         (Z.of_nat (length (emit_load d [r]))) off None
   /\ last_is l w_edm = false.
Proof.
  intros d r off tc nx t H Hg. destruct (rich_facts r H) as (_ & _ & _ & _ & _ & Hok & Hsem & _ & _ & Hne & _).
  rewrite (emit_load_one2 d r H) in *.
  set (toks := apack d (flat_map atoks_of_item (rw_items r)) None) in *.
  rewrite !app_length, !Nat2Z.inj_add, !ctl_length in *.
  rewrite (tws_app (ctl d (ctrl_word 46) ++ ctl d (ctrl_word 32))), (tws_app (pac_unit d r)), (tws_app toks).
  destruct (prologue_run2 d off tc (nxt (pac_unit d r ++ toks ++ ctl d (ctrl_word 47)) nx)) as (l0 & -> & Hl0).
  destruct (pac_row_facts2 r H) as (_ & _ & _ & C & _).
  assert (Hc0 : last_contains l0 (pac_word (rw_row r) (pac_attr r)) = false).
  { destruct Hl0 as [->| ->]; [reflexivity|]. cbn [last_contains]. apply Z.eqb_neq. intros E. apply (cf_ctl _ C).
    rewrite <- E. unfold ctl_words. cbn [In]. tauto. }
  destruct (pac_unit_run2 r H stash0 d creator0 creator0 None 0%Q tc off d (14, 0) l0 (if d then 4 else 2)
              (nxt (toks ++ ctl d (ctrl_word 47)) nx) Hc0) as (l1 & E1 & Hl1).
  unfold SQ in E1. unfold tracker0. rewrite E1.
  destruct (proj1 (atoks_run stash0 (row_pos r) (row_pos r) d (pre_of r) (sty_of r) creator0 creator0 None 0%Q tc off
                     (pre_of_cases r) (nxt (ctl d (ctrl_word 47)) nx) (flat_map atoks_of_item (rw_items r)))
              [] None l1 (pre_of r) ((if d then 4 else 2) + Z.of_nat (length (pac_unit d r))) Hok
              (or_introl (conj eq_refl eq_refl)) Hl1) as (l2 & nodes2 & E2 & Hh2 & Hl2).
  unfold GS in E2. fold toks in E2. rewrite E2. rewrite Hsem in Hh2.
  destruct Hh2 as [[_ X]| ->]; [congruence|].
  set (fr := (if d then 4 else 2) + Z.of_nat (length (pac_unit d r)) + Z.of_nat (length toks)) in *.
  replace ((if d then 2 else 1) + (if d then 2 else 1) + (Z.of_nat (length (pac_unit d r)) +
           (Z.of_nat (length toks) + (if d then 2 else 1))) - (if d then 2 else 1)) with fr in Hg
    by (unfold fr; destruct d; lia).
  assert (Hemp : cr_is_empty (mkCr (pre_of r ++ [mkI IText (rich_text r) (row_pos r)]) (sty_of r)) = false).
  { destruct (rich_text r) as [|c0 txt]; [congruence|]. apply nonempty_not_empty. apply pre_of_cases. }
  destruct (eoc_run_g d stash0 (mkTk [row_pos r] None false (row_pos r)) l2 d _ creator0 creator0 0%Q tc fr off nx t
              Hemp Hl2 Hg) as (l3 & ds3 & E3 & Hl3).
  exists l3, ds3. split; [|exact Hl3]. rewrite E3. f_equal. unfold fr. destruct d; lia.
Qed.

Lemma pre_sty_plain : forall r, rw_ital r = false -> pre_of r = [] /\ sty_of r = SNone.
Proof. intros r H. unfold pre_of, sty_of. rewrite H. split; reflexivity. Qed.

Lemma pre_sty_ital : forall r, rw_ital r = true -> pre_of r = [mkI IItalOn [] (rw_row r, rw_indent r)] /\ sty_of r = SOn.
Proof. intros r H. unfold pre_of, sty_of. rewrite H. split; reflexivity. Qed.

(* STAGE 2: the decoder queues exactly one text node with the characters of the 608 screen row *)
Theorem popon_stage2 : forall d r off tc, rich_row r = true ->
  (forall k, 0 <= k -> exists t, get_time tc k off = Ok t) ->
  let ws := emit_load d [r] in
  let s := translate_words (start_state off tc) ws in
  r_err s = None /\ r_stash s = stash0 /\ buf s = creator0 /\ r_active s = MPop /\
  exists t, get_time tc (Z.of_nat (length ws) - (if d then 2 else 1)) off = Ok t /\
            r_queue s = Some (mkCr [mkI IText (rich_text r) (row_pos r)] SNone, t).
Proof.
  intros d r off tc H Ht ws s. destruct (rich_row_gen r H) as [Ha Hi]. destruct (pre_sty_plain r Hi) as [Ep Es].
  assert (Hk : 0 <= Z.of_nat (length ws) - (if d then 2 else 1)).
  { unfold ws. rewrite (emit_load_one2 d r Ha), !app_length, !Nat2Z.inj_add, !ctl_length. destruct d; lia. }
  destruct (Ht _ Hk) as [t Hg].
  destruct (stage2_state d r off tc None t Ha Hg) as (l & ds & E & _).
  unfold s, ws. rewrite tws_words, E, Ep, Es. cbn [r_err r_stash buf r_active r_pop r_queue app].
  repeat split. exists t. split; [exact Hg|reflexivity].
Qed.

(* STAGE 2b: an italic preamble adds one italics-on node (at the preamble's address, before the tab offset) *)
Theorem popon_stage2_ital : forall d r off tc, rich_row_ital r = true ->
  (forall k, 0 <= k -> exists t, get_time tc k off = Ok t) ->
  let ws := emit_load d [r] in
  let s := translate_words (start_state off tc) ws in
  r_err s = None /\ r_stash s = stash0 /\ buf s = creator0 /\ r_active s = MPop /\
  exists t, get_time tc (Z.of_nat (length ws) - (if d then 2 else 1)) off = Ok t /\
            r_queue s = Some (mkCr [mkI IItalOn [] (rw_row r, rw_indent r); mkI IText (rich_text r) (row_pos r)] SOn, t).
Proof.
  intros d r off tc H Ht ws s. destruct (rich_row_ital_gen r H) as [Ha Hi]. destruct (pre_sty_ital r Hi) as [Ep Es].
  assert (Hk : 0 <= Z.of_nat (length ws) - (if d then 2 else 1)).
  { unfold ws. rewrite (emit_load_one2 d r Ha), !app_length, !Nat2Z.inj_add, !ctl_length. destruct d; lia. }
  destruct (Ht _ Hk) as [t Hg].
  destruct (stage2_state d r off tc None t Ha Hg) as (l & ds & E & _).
  unfold s, ws. rewrite tws_words, E, Ep, Es. cbn [r_err r_stash buf r_active r_pop r_queue app].
  repeat split. exists t. split; [exact Hg|reflexivity].
Qed.

(* ---- 7. the read-level corollaries: one more line carrying the Erase-Displayed-Memory ------------------------------ *)
Lemma rich_text_facts : forall r, rich_row_any r = true ->
  rstrip (rich_text r) = rich_text r /\ forall k : str, offending [(k, rich_text r)] = [].
Proof.
  intros r H. destruct (rich_facts r H) as (_ & Hin & Hk & _ & _ & _ & _ & _ & Hg & Hne & Hl & Hn). split.
  - exact (rstrip_id _ Hne Hl).
  - intros k. unfold offending. cbn [map snd concat]. unfold spec_lines, split_ch. rewrite split_no_sep.
    + cbn [rev app filter]. unfold spec_long.
      assert (0 <= rw_indent r) by (unfold indents_608 in Hin; cbn [In] in Hin; lia).
      replace (32 <? Z.of_nat (length (rich_text r))) with false by lia. reflexivity.
    + intros c Hc E. rewrite Forall_forall in Hg. destruct (gcharb_parts c (Hg c Hc)) as [G _]. lia.
Qed.

Lemma format_ital_one : forall c0 txt p0 p,
  format_italics [mkI IItalOn [] p0; mkI IText (c0 :: txt) p]
  = [mkI IItalOn [] p0; mkI IText (rstrip (c0 :: txt)) p; mkI IItalOff [] p0].
Proof. reflexivity. Qed.

(* the text in front of the closing italics-off node (added by pass 5) is right-stripped by pass 7 *)
Lemma store_ital : forall c0 txt p0 p t1 t2, rstrip (c0 :: txt) = c0 :: txt ->
  create_and_store stash0 (mkCr [mkI IItalOn [] p0; mkI IText (c0 :: txt) p] SOn) t1 t2
  = mkStash [mkPre t1 t2 [CStyle true p0; CText (c0 :: txt) p; CStyle false p0] (Some p)] 1.
Proof.
  intros c0 txt p0 p t1 t2 H. unfold create_and_store. cbn [cr_is_empty cr_nodes existsb i_text nonempty orb negb].
  rewrite format_ital_one, H. reflexivity.
Qed.

Lemma read_gen : forall d r off tc tc2 t1 t2 nodes, rich_row_any r = true ->
  get_time tc (Z.of_nat (length (emit_load d [r])) - (if d then 2 else 1)) off = Ok t1 ->
  get_time tc2 0 off = Ok t2 -> Qeq_bool t2 0 = false -> is_flash (mkPre t1 t2 [] None) = false ->
  create_and_store stash0 (mkCr (pre_of r ++ [mkI IText (rich_text r) (row_pos r)]) (sty_of r)) t1 t2
    = mkStash [mkPre t1 t2 nodes (Some (row_pos r))] 1 ->
  concat (map node_text nodes) = rich_text r ->
  read off [(tc, emit_load d [r]); (tc2, emit_clear d)] = ROk [mkPre t1 t2 nodes (Some (row_pos r))].
Proof.
  intros d r off tc tc2 t1 t2 nodes H Hg1 Hg2 Hz Hfl Hst Htxt.
  destruct (stage2_state d r off tc None t1 H Hg1) as (l & ds & E & Hl).
  destruct (rich_text_facts r H) as [_ Hoff].
  destruct (edm_run d stash0 (mkTk [row_pos r] None false (row_pos r)) l ds creator0 creator0
              (mkCr (pre_of r ++ [mkI IText (rich_text r) (row_pos r)]) (sty_of r)) t1 t1 tc2 0 off t2 Hl Hg2)
    as (l' & ds' & fr' & E2).
  assert (S1 : translate_line (rstate0 off) (tc, emit_load d [r]) = translate_words (start_state off tc) (emit_load d [r]))
    by reflexivity.
  rewrite tws_words, E in S1.
  unfold read, run_lines. cbn [fold_left]. rewrite S1. unfold translate_line, set_clock.
  cbn [r_err fst snd r_stash r_tk r_last r_dstart r_pop r_paint r_roll r_active r_queue r_time r_tc r_frames r_offset].
  unfold emit_clear. rewrite E2. cbn [r_err flush_implicit r_active r_queue r_stash].
  rewrite Hst. unfold finish_read. cbn [st_caps map]. unfold to_lcap, cap_text. cbn [pc_start pc_nodes]. rewrite Htxt.
  match goal with |- context [length_check ?x] => assert (Hlc : length_check x = None) end.
  { apply length_check_none_iff. apply Hoff. }
  rewrite Hlc. cbn [existsb]. change (is_flash (mkPre t1 t2 nodes (Some (row_pos r))))
    with (is_flash (mkPre t1 t2 [] None)). rewrite Hfl. cbn [orb].
  rewrite fix_last_ended; [reflexivity|]. intros c [<-|[]]. exact Hz.
Qed.

Theorem popon_stage2_read : forall d r off tc tc2 t1 t2, rich_row r = true ->
  get_time tc (Z.of_nat (length (emit_load d [r])) - (if d then 2 else 1)) off = Ok t1 ->
  get_time tc2 0 off = Ok t2 -> Qeq_bool t2 0 = false -> is_flash (mkPre t1 t2 [] None) = false ->
  read off [(tc, emit_load d [r]); (tc2, emit_clear d)] =
  ROk [mkPre t1 t2 [CText (rich_text r) (row_pos r)] (Some (row_pos r))].
Proof.
  intros d r off tc tc2 t1 t2 H Hg1 Hg2 Hz Hfl. destruct (rich_row_gen r H) as [Ha Hi].
  destruct (pre_sty_plain r Hi) as [Ep Es]. destruct (rich_text_facts r Ha) as [Hrs _].
  destruct (rich_facts r Ha) as (_ & _ & _ & _ & _ & _ & _ & _ & _ & Hne & _).
  apply (read_gen d r off tc tc2 t1 t2 _ Ha Hg1 Hg2 Hz Hfl).
  - rewrite Ep, Es. cbn [app]. destruct (rich_text r) as [|c0 txt]; [congruence|]. exact (store_one c0 txt _ t1 t2 Hrs).
  - cbn [map node_text concat]. apply app_nil_r.
Qed.

Theorem popon_stage2_ital_read : forall d r off tc tc2 t1 t2, rich_row_ital r = true ->
  get_time tc (Z.of_nat (length (emit_load d [r])) - (if d then 2 else 1)) off = Ok t1 ->
  get_time tc2 0 off = Ok t2 -> Qeq_bool t2 0 = false -> is_flash (mkPre t1 t2 [] None) = false ->
  read off [(tc, emit_load d [r]); (tc2, emit_clear d)] =
  ROk [mkPre t1 t2 [CStyle true (rw_row r, rw_indent r); CText (rich_text r) (row_pos r); CStyle false (rw_row r, rw_indent r)]
             (Some (row_pos r))].
Proof.
  intros d r off tc tc2 t1 t2 H Hg1 Hg2 Hz Hfl. destruct (rich_row_ital_gen r H) as [Ha Hi].
  destruct (pre_sty_ital r Hi) as [Ep Es]. destruct (rich_text_facts r Ha) as [Hrs _].
  destruct (rich_facts r Ha) as (_ & _ & _ & _ & _ & _ & _ & _ & _ & Hne & _).
  apply (read_gen d r off tc tc2 t1 t2 _ Ha Hg1 Hg2 Hz Hfl).
  - rewrite Ep, Es. cbn [app]. destruct (rich_text r) as [|c0 txt]; [congruence|]. exact (store_ital c0 txt _ _ t1 t2 Hrs).
  - cbn [map node_text concat app]. apply app_nil_r.
Qed.

(* ---- 8. the caption returned, observed as the harness observes it, satisfies the oracle ------------------------------ *)
Lemma ok_gen : forall d r t1 t2 nodes, rich_row_any r = true -> (t1 < t2)%Q ->
  obs_lines nodes [] false = [map (fun c => (c, rw_ital r)) (rich_text r)] -> balanced nodes false = true ->
  ok_c05 (mkProg d [[r]]) (Ok [mkO t1 t2 nodes (Some (layout_of_pos (row_pos r)))]) = true.
Proof.
  intros d r t1 t2 nodes H Hlt Hobs Hbal.
  destruct (rich_facts r H) as (Hr & Hin & Hk & _ & _ & _ & _ & Hc & _ & Hne & _ & Hn).
  assert (Hlen : (0 < length (rich_text r))%nat) by (destruct (rich_text r); [congruence|cbn; lia]).
  assert (H0 : 0 <= rw_indent r) by (unfold indents_608 in Hin; cbn [In] in Hin; lia).
  assert (Hg : In (row_pos r) grid_positions) by (apply grid_positions_complete; [exact Hr|lia]).
  destruct (layout_linear_exhaustive _ Hg) as (Lx & Ly & _).
  assert (Hcap : cap_ok (mkE (rw_row r) (rw_indent r + rw_tab r) [cells_of r])
                        (mkO t1 t2 nodes (Some (layout_of_pos (row_pos r)))) = true).
  { unfold cap_ok. cbn [e_lines e_row e_col o_nodes o_xy o_start o_end]. rewrite Hobs, Hbal. cbn [match_lines].
    rewrite Hc, match_line_basic. unfold row_pos in *. cbn [fst snd] in Lx, Ly.
    destruct (layout_of_pos (rw_row r, rw_indent r + rw_tab r)) as [x y].
    destruct (layout_608 (rw_row r) (rw_indent r + rw_tab r)) as [ex ey]. cbn [fst snd] in Lx, Ly.
    rewrite (q_near9_eq _ _ Lx), (q_near9_eq _ _ Ly).
    destruct (Qle_bool t2 t1) eqn:E; [|reflexivity].
    apply Qle_bool_iff in E. exfalso. exact (Qlt_not_le _ _ Hlt E). }
  unfold ok_c05. cbn [pg_loads loads_ok expected_load group_rows load_ok]. rewrite Hcap.
  cbn [andb load_ok o_start o_end loads_ok]. reflexivity.
Qed.

Theorem popon_stage2_ok : forall d r t1 t2, rich_row r = true -> (t1 < t2)%Q ->
  ok_c05 (mkProg d [[r]]) (Ok [mkO t1 t2 [OText (rich_text r)] (Some (layout_of_pos (row_pos r)))]) = true.
Proof.
  intros d r t1 t2 H Hlt. destruct (rich_row_gen r H) as [Ha Hi].
  apply (ok_gen d r t1 t2 _ Ha Hlt); [rewrite Hi|]; reflexivity.
Qed.

(* all cells of the row are italic, and the observation shows the text between italics on / off *)
Theorem popon_stage2_ital_ok : forall d r t1 t2, rich_row_ital r = true -> (t1 < t2)%Q ->
  cells_of r = map (fun c => Cell c true) (rich_text r) /\
  ok_c05 (mkProg d [[r]])
         (Ok [mkO t1 t2 [OStyle true; OText (rich_text r); OStyle false] (Some (layout_of_pos (row_pos r)))]) = true.
Proof.
  intros d r t1 t2 H Hlt. destruct (rich_row_ital_gen r H) as [Ha Hi]. split.
  - destruct (rich_facts r Ha) as (_ & _ & _ & _ & _ & _ & _ & Hc & _). rewrite Hi in Hc. exact Hc.
  - apply (ok_gen d r t1 t2 _ Ha Hlt); [rewrite Hi|]; reflexivity.
Qed.

(* the hypotheses are satisfiable: rows mixing all four item kinds, coloured-underlined and italic preambles *)
Example rich_row_inhabited :
  rich_row (mkRow 3 0 1 13 [Ch 97; Ext 101 1 5; Sp 3; Bs; Ch 98; Sp 1]) = true /\
  rich_row (mkRow 15 24 3 1 [Sp 0; Ch 32; Ext 97 0 0; Bs; Ext 101 0 8]) = true /\
  rich_row_ital (mkRow 3 0 1 14 [Ch 97; Ext 101 1 5; Sp 3; Bs; Ch 98; Sp 1]) = true.
Proof. vm_compute. repeat split. Qed.
