(* IsoFacts.v - C09 / C10 theorems about the writer / reader / edit models of model/Iso.v. *)
From Coq Require Import List ZArith Bool Arith Lia.
From PV Require Import lib.Sx lib.Str lib.Result model.Store model.Iso proofs.StoreFacts.
Import ListNotations.

Ltac inr_up := eapply inr_mono; [eassumption|lia].

(* ---- generic: fold_left with an invariant ------------------------------------------------------------------------ *)
Lemma fold_left_inv : forall (A B : Type) (P : A -> Prop) (Q : B -> Prop) (f : A -> B -> A) (l : list B) (a : A),
  Forall Q l -> P a -> (forall a b, P a -> Q b -> P (f a b)) -> P (fold_left f l a).
Proof.
  intros A B P Q f l. induction l as [|x t IH]; intros a HQ Ha Hstep; simpl; auto.
  inversion HQ; subst. apply IH; auto.
Qed.

Lemma Forall_inr_mono : forall mark n n' l, Forall (inr mark n) l -> (n <= n')%nat -> Forall (inr mark n') l.
Proof. intros. eapply Forall_impl; [|eassumption]. intros. eapply inr_mono; eauto. Qed.

(* ---- navigation stays in the new region -------------------------------------------------------------------------- *)
Lemma elems_inr : forall st0 st v,
  inv st0 st -> inr (length st0) (length st) v -> Forall (inr (length st0) (length st)) (elems st v).
Proof.
  intros st0 st v Hinv Hv. unfold elems.
  pose proof (items_of_inr st0 st v Hinv Hv) as H. unfold items_inr in H.
  induction H as [|[k x] t [A B] Ht IH]; simpl; [constructor|].
  destruct k; simpl; auto.
Qed.

Lemma set_langs_inr : forall st0 st s,
  inv st0 st -> inr (length st0) (length st) s -> items_inr (length st0) (length st) (set_langs st s).
Proof. intros. unfold set_langs. apply items_of_inr; auto. apply field_inr; auto. Qed.

Lemma filter_items_inr : forall mark n f its, items_inr mark n its -> items_inr mark n (filter f its).
Proof.
  intros mark n f its H. unfold items_inr in *. induction H; simpl; [constructor|].
  destruct (f x); auto.
Qed.

Lemma sel_langs_inr : forall st0 st s keys,
  inv st0 st -> inr (length st0) (length st) s -> items_inr (length st0) (length st) (sel_langs st s keys).
Proof. intros. unfold sel_langs. apply filter_items_inr. apply set_langs_inr; auto. Qed.

Definition slot_inr (mark n : nat) (sl : slot) : Prop := inr mark n (fst (fst sl)).

Lemma cap_slots_inr : forall st0 st cap,
  inv st0 st -> inr (length st0) (length st) cap -> Forall (slot_inr (length st0) (length st)) (cap_slots st cap).
Proof.
  intros st0 st cap Hinv Hc. unfold cap_slots. constructor; [exact Hc|].
  apply Forall_map. eapply Forall_impl; [|apply elems_inr; [exact Hinv|apply field_inr; auto]].
  intros a Ha. exact Ha.
Qed.

Lemma Forall_flat_map : forall (A B : Type) (P : B -> Prop) (Q : A -> Prop) (f : A -> list B) (l : list A),
  Forall Q l -> (forall a, Q a -> Forall P (f a)) -> Forall P (flat_map f l).
Proof.
  intros A B P Q f l H Hf. induction H; simpl; [constructor|]. apply Forall_app. split; auto.
Qed.

Lemma caps_slots_inr : forall st0 st cl,
  inv st0 st -> inr (length st0) (length st) cl ->
  Forall (slot_inr (length st0) (length st)) (flat_map (cap_slots st) (elems st cl)).
Proof.
  intros st0 st cl Hinv Hcl. eapply Forall_flat_map; [apply elems_inr; eauto|].
  intros a Ha. apply cap_slots_inr; auto.
Qed.

Lemma dfxp_slots_inr : forall st0 st langs,
  inv st0 st -> items_inr (length st0) (length st) langs ->
  Forall (slot_inr (length st0) (length st)) (dfxp_slots st langs).
Proof.
  intros st0 st langs Hinv Hl. unfold dfxp_slots. eapply Forall_flat_map; [exact Hl|].
  intros [k cl] [_ Hcl]. constructor; [exact Hcl|]. apply caps_slots_inr; auto.
Qed.

Lemma inline_slot_inr : forall mark n o s, inr mark n s -> Forall (slot_inr mark n) (inline_slot o s).
Proof. intros. unfold inline_slot. destruct (wo_inline o); constructor; [exact H|constructor]. Qed.

Lemma sami_slots_inr : forall st0 st s,
  inv st0 st -> inr (length st0) (length st) s -> Forall (slot_inr (length st0) (length st)) (sami_slots st s).
Proof.
  intros st0 st s Hinv Hs. unfold sami_slots. constructor; [exact Hs|].
  eapply Forall_flat_map; [apply set_langs_inr; eauto|].
  intros [k cl] [_ Hcl]. constructor; [exact Hcl|]. apply caps_slots_inr; auto.
Qed.

(* ---- the assignments of the writers stay in the new region ------------------------------------------------------- *)
Lemma apply_slots_inv : forall st0 slots st acts log st' log',
  inv st0 st -> Forall (slot_inr (length st0) (length st)) slots ->
  apply_slots st slots acts log = (st', log') ->
  inv st0 st' /\ (length st <= length st')%nat.
Proof.
  intros st0. induction slots as [|[[ob f] asn] ts IH]; intros st acts log st' log' Hinv Hs H.
  - simpl in H. inversion H; subst. split; auto.
  - destruct acts as [|a ta].
    + simpl in H. inversion H; subst. split; auto.
    + inversion Hs as [|? ? Hob Hts]; subst. unfold slot_inr in Hob. simpl in Hob.
      cbn [apply_slots] in H. destruct a as [c'|].
      * destruct (new_obj st KLayout [(VInt 1, VInt c'); (VInt 2, VNone)]) as [st1 nl] eqn:En.
        assert (Hits : items_inr (length st0) (length st) [(VInt 1, VInt c'); (VInt 2, VNone)]).
        { repeat constructor. }
        destruct (inv_new_obj _ _ _ _ _ _ Hinv Hits En) as (I1 & V1 & L1).
        assert (I2 : inv st0 (set_field st1 ob (VInt f) nl)).
        { apply inv_set_field; auto; [inr_up|exact I]. }
        eapply IH in H; [|exact I2|].
        -- rewrite length_set_field in H. destruct H. split; auto. lia.
        -- rewrite length_set_field. eapply Forall_impl; [|exact Hts].
           intros sl Hsl. unfold slot_inr in *. inr_up.
      * destruct asn.
        -- assert (I2 : inv st0 (set_field st ob (VInt f) VNone)).
           { apply inv_set_field; auto; exact I. }
           eapply IH in H; [|exact I2|].
           ++ rewrite length_set_field in H. exact H.
           ++ rewrite length_set_field. exact Hts.
        -- assert (I2 : inv st0 (set_field st ob (VInt f) (field st ob (VInt f)))).
           { apply inv_set_field; auto; [exact I|apply field_inr; auto]. }
           eapply IH in H; [|exact I2|].
           ++ rewrite length_set_field in H. exact H.
           ++ rewrite length_set_field. exact Hts.
Qed.

(* state of a fold: (store, payload) *)
Definition okp {X : Type} (st0 : store) (n : nat) (acc : store * X) : Prop :=
  inv st0 (fst acc) /\ (n <= length (fst acc))%nat.

Lemma runs_of_inr : forall mark n st caps,
  Forall (inr mark n) caps ->
  Forall (fun r => inr mark n (fst r) /\ Forall (inr mark n) (snd r)) (runs_of st caps).
Proof.
  intros mark n st caps H. induction H as [|c t Hc Ht IH]; simpl; [constructor|].
  destruct (runs_of st t) as [|[d ds] rest] eqn:E.
  - constructor; [split; [exact Hc|constructor]|constructor].
  - inversion IH as [|? ? [Hd Hds] Hrest]; subst. simpl in *.
    destruct (same_span st c d).
    + constructor; [split; [exact Hc|constructor; assumption]|assumption].
    + constructor; [split; [exact Hc|constructor]|]. constructor; [split; assumption|assumption].
Qed.

Lemma merge_run_inv : forall st0 st c cs st' v,
  inv st0 st -> inr (length st0) (length st) c -> Forall (inr (length st0) (length st)) cs ->
  merge_run st (c, cs) = (st', v) ->
  inv st0 st' /\ (length st <= length st')%nat /\ inr (length st0) (length st') v.
Proof.
  intros st0 st c cs st' v Hinv Hc Hcs H. unfold merge_run in H.
  set (f := fun (acc : store * list (val * val)) x =>
              let (s0, ns) := acc in
              let (s1, br) := new_obj s0 KNode [(VInt 1, VInt 3%Z); (VInt 2, VNone); (VInt 3, VNone);
                                                (VInt 4, VNone); (VInt 5, VNone)] in
              (s1, ns ++ (VNone, br) :: items_of s1 (field s1 x (VInt 3)))) in H.
  assert (HP : (fun acc : store * list (val * val) =>
                  okp st0 (length st) acc /\ items_inr (length st0) (length (fst acc)) (snd acc))
               (fold_left f cs (st, items_of st (field st c (VInt 3))))).
  { apply fold_left_inv with (Q := inr (length st0) (length st)); auto; cbv beta.
    - split; [split; simpl; auto|]. simpl. apply items_of_inr; auto. apply field_inr; auto.
    - intros [s0 ns] x [[I0 L0] N0] Hx. simpl in I0, L0, N0. unfold f.
      destruct (new_obj s0 KNode _) as [s1 br] eqn:En.
      assert (Hits : items_inr (length st0) (length s0)
                       [(VInt 1, VInt 3%Z); (VInt 2, VNone); (VInt 3, VNone); (VInt 4, VNone); (VInt 5, VNone)]).
      { repeat constructor. }
      destruct (inv_new_obj _ _ _ _ _ _ I0 Hits En) as (I1 & V1 & L1).
      split; [split; simpl; [exact I1|lia]|]. simpl.
      unfold items_inr. apply Forall_app. split.
      + eapply items_inr_mono; [exact N0|lia].
      + constructor; [split; [exact I|exact V1]|].
        apply items_of_inr; auto. apply field_inr; auto. inr_up. }
  destruct (fold_left f cs (st, items_of st (field st c (VInt 3)))) as [st1 nodes] eqn:Ef.
  destruct HP as [[I1 L1] N1]. simpl in I1, L1, N1.
  destruct (new_obj st1 KList nodes) as [st2 nl] eqn:E2.
  destruct (inv_new_obj _ _ _ _ _ _ I1 N1 E2) as (I2 & V2 & L2).
  assert (Hf : forall k, inr (length st0) (length st2) (field st c k)).
  { intros k. eapply inr_mono; [apply field_inr; eauto|lia]. }
  assert (Hits : items_inr (length st0) (length st2)
                   [(VInt 1, field st c (VInt 1)); (VInt 2, field st c (VInt 2)); (VInt 3, nl);
                    (VInt 4, field st c (VInt 4)); (VInt 5, VNone)]).
  { repeat (constructor; [cbv beta; cbn [fst snd]; split; [exact I|first [exact I|auto]]|]). constructor. }
  destruct (inv_new_obj _ _ _ _ _ _ I2 Hits H) as (I3 & V3 & L3).
  split; [exact I3|]. split; [lia|exact V3].
Qed.

Lemma merge_lang_inv : forall st0 st s kv log st' log',
  inv st0 st -> inr (length st0) (length st) s ->
  inr (length st0) (length st) (fst kv) -> inr (length st0) (length st) (snd kv) ->
  merge_lang st s kv log = (st', log') ->
  inv st0 st' /\ (length st <= length st')%nat.
Proof.
  intros st0 st s kv log st' log' Hinv Hs Hk Hv H. unfold merge_lang in H.
  destruct (elems st (snd kv)) as [|c0 cr] eqn:Ec.
  - inversion H; subst. split; auto.
  - set (g := fun (acc : store * list (val * val)) r =>
                let (s0, l) := acc in let (s1, m) := merge_run s0 r in (s1, l ++ [(VNone, m)])) in H.
    assert (HP : (fun acc : store * list (val * val) =>
                    okp st0 (length st) acc /\ items_inr (length st0) (length (fst acc)) (snd acc))
                 (fold_left g (runs_of st (c0 :: cr)) (st, []))).
    { apply fold_left_inv with
        (Q := fun r => inr (length st0) (length st) (fst r) /\ Forall (inr (length st0) (length st)) (snd r));
        cbv beta.
      - apply runs_of_inr. rewrite <- Ec. apply elems_inr; auto.
      - split; [split; simpl; auto|constructor].
      - intros [s0 l] [c cs] [[I0 L0] N0] [Hc Hcs]. simpl in I0, L0, N0, Hc, Hcs. unfold g.
        destruct (merge_run s0 (c, cs)) as [s1 m] eqn:Em.
        assert (Hc' : inr (length st0) (length s0) c) by inr_up.
        assert (Hcs' : Forall (inr (length st0) (length s0)) cs) by (eapply Forall_inr_mono; eauto).
        destruct (merge_run_inv _ _ _ _ _ _ I0 Hc' Hcs' Em) as (I1 & L1 & V1).
        split; [split; simpl; [exact I1|lia]|]. simpl. unfold items_inr. apply Forall_app. split.
        + eapply items_inr_mono; [exact N0|lia].
        + constructor; [split; [exact I|exact V1]|constructor]. }
    destruct (fold_left g (runs_of st (c0 :: cr)) (st, [])) as [st1 merged] eqn:Ef.
    destruct HP as [[I1 L1] N1]. simpl in I1, L1, N1.
    destruct (new_obj st1 KCapList ((VInt 1, VNone) :: merged)) as [st2 cl] eqn:E2.
    assert (Hits : items_inr (length st0) (length st1) ((VInt 1, VNone) :: merged)).
    { constructor; [split; exact I|exact N1]. }
    destruct (inv_new_obj _ _ _ _ _ _ I1 Hits E2) as (I2 & V2 & L2).
    inversion H; subst. split.
    + apply inv_set_field; auto.
      * apply field_inr; auto. inr_up.
      * inr_up.
    + rewrite length_set_field. lia.
Qed.

Lemma merge_all_inv : forall st0 st s log st' log',
  inv st0 st -> inr (length st0) (length st) s -> merge_all st s log = (st', log') ->
  inv st0 st' /\ (length st <= length st')%nat.
Proof.
  intros st0 st s log st' log' Hinv Hs H. unfold merge_all in H.
  assert (HP : okp st0 (length st)
                 (fold_left (fun (acc : store * fp) kv => merge_lang (fst acc) s kv (snd acc)) (set_langs st s) (st, log))).
  { apply fold_left_inv with
      (Q := fun kv => inr (length st0) (length st) (fst kv) /\ inr (length st0) (length st) (snd kv)).
    - apply set_langs_inr; auto.
    - split; simpl; auto.
    - intros [s0 lg] kv [I0 L0] [Hk Hv]. simpl in I0, L0.
      destruct (merge_lang s0 s kv lg) as [s1 lg1] eqn:Em. simpl. rewrite Em.
      assert (A : inv st0 s1 /\ (length s0 <= length s1)%nat).
      { eapply merge_lang_inv; [exact I0| | | |exact Em]; inr_up. }
      destruct A. split; simpl; auto. lia. }
  rewrite H in HP. destruct HP as [A B]. simpl in A, B. split; auto.
Qed.

Lemma legacy_styles_inv : forall st0 st langs log st' log',
  inv st0 st -> items_inr (length st0) (length st) langs -> legacy_styles st langs log = (st', log') ->
  inv st0 st' /\ (length st <= length st')%nat.
Proof.
  intros st0 st langs log st' log' Hinv Hl H. unfold legacy_styles in H.
  match type of H with fold_left ?f ?l ?a = _ =>
    assert (HP : okp st0 (length st) (fold_left f l a)) end.
  { apply fold_left_inv with (Q := inr (length st0) (length st)).
    - eapply Forall_flat_map; [exact Hl|]. intros [k cl] [_ Hcl]. apply elems_inr; auto.
    - split; simpl; auto.
    - intros [s0 lg] cap [I0 L0] Hc. simpl in I0, L0.
      destruct (items_of s0 (field s0 cap (VInt 4))); [split; simpl; auto|].
      split; simpl; [|rewrite length_set_field; exact L0].
      apply inv_set_field; auto; try exact I. apply field_inr; auto. inr_up. }
  rewrite H in HP. destruct HP as [A B]. simpl in A, B. split; auto.
Qed.

Lemma sami_styles_inv : forall st0 st s log st' log',
  inv st0 st -> inr (length st0) (length st) s -> sami_styles st s log = (st', log') ->
  inv st0 st' /\ (length st <= length st')%nat.
Proof.
  intros st0 st s log st' log' Hinv Hs H. unfold sami_styles in H.
  destruct (match field st (field st s (VInt 3)) (VInt 1) with VInt c => flag fP c | _ => false end).
  - match type of H with fold_left ?f ?l ?a = _ =>
      assert (HP : okp st0 (length st) (fold_left f l a)) end.
    { apply fold_left_inv with
        (Q := fun kv => inr (length st0) (length st) (fst kv) /\ inr (length st0) (length st) (snd kv)).
      - apply items_of_inr; auto. apply field_inr; auto.
      - split; simpl; auto.
      - intros [s0 lg] kv [I0 L0] [Hk Hv]. simpl in I0, L0.
        destruct (items_of s0 (snd kv)); [split; simpl; auto|].
        assert (Hv' : inr (length st0) (length s0) (snd kv)) by inr_up.
        split; simpl; [|repeat rewrite length_set_field; exact L0].
        repeat (apply inv_set_field; try exact I; repeat rewrite length_set_field; auto). }
    rewrite H in HP. destruct HP as [A B]. simpl in A, B. split; auto.
  - inversion H; subst. split; auto.
Qed.

Lemma single_assign_inv : forall st0 st s pc log st' log',
  inv st0 st -> inr (length st0) (length st) s -> single_assign st s pc log = (st', log') ->
  inv st0 st' /\ (length st <= length st')%nat.
Proof.
  intros st0 st s pc log st' log' Hinv Hs H. unfold single_assign in H.
  destruct (new_obj st KLayout [(VInt 1, VInt pc); (VInt 2, VNone)]) as [sta posv] eqn:En.
  assert (Hits : items_inr (length st0) (length st) [(VInt 1, VInt pc); (VInt 2, VNone)]) by (repeat constructor).
  destruct (inv_new_obj _ _ _ _ _ _ Hinv Hits En) as (Ia & Vp & La).
  assert (Hs' : inr (length st0) (length sta) s) by inr_up.
  assert (I1 : inv st0 (set_field sta s (VInt 3) posv)) by (apply inv_set_field; auto; exact I).
  set (st1 := set_field sta s (VInt 3) posv) in *.
  assert (L1 : length st1 = length sta) by apply length_set_field.
  (* innermost fold: the nodes of one caption *)
  assert (Hnodes : forall (s3 : store) (lg : fp) (ns : list val),
             inv st0 s3 -> (length sta <= length s3)%nat -> Forall (inr (length st0) (length s3)) ns ->
             okp st0 (length s3)
                 (fold_left (fun (acc3 : store * fp) n => (set_field (fst acc3) n (VInt 4) posv, (KNode, 4%Z) :: snd acc3))
                            ns (s3, lg))).
  { intros s3 lg ns I3 L3 Hns.
    apply fold_left_inv with (Q := inr (length st0) (length s3)); auto.
    - split; simpl; auto.
    - intros [s4 lg4] n [I4 L4] Hn. simpl in I4, L4. split; simpl.
      + apply inv_set_field; auto; [inr_up|exact I|inr_up].
      + rewrite length_set_field. exact L4. }
  (* middle fold: the captions of one language *)
  assert (Hcaps : forall (s1 : store) (lg : fp) (caps : list val),
             inv st0 s1 -> (length sta <= length s1)%nat -> Forall (inr (length st0) (length s1)) caps ->
             okp st0 (length s1)
                 (fold_left (fun (acc2 : store * fp) cap =>
                               let (s2, lg2) := acc2 in
                               let s3 := set_field s2 cap (VInt 5) posv in
                               fold_left (fun (acc3 : store * fp) n =>
                                            (set_field (fst acc3) n (VInt 4) posv, (KNode, 4%Z) :: snd acc3))
                                         (elems s3 (field s3 cap (VInt 3))) (s3, lg2))
                            caps (s1, lg))).
  { intros s1 lg caps I1' L1' Hcaps.
    apply fold_left_inv with (Q := inr (length st0) (length s1)); auto.
    - split; simpl; auto.
    - intros [s2 lg2] cap [I2 L2] Hc. cbv beta iota zeta. simpl in I2, L2.
      assert (Hc2 : inr (length st0) (length s2) cap) by inr_up.
      assert (I3 : inv st0 (set_field s2 cap (VInt 5) posv)).
      { apply inv_set_field; auto; [exact I|inr_up]. }
      set (s3 := set_field s2 cap (VInt 5) posv) in *.
      assert (L3 : length s3 = length s2) by apply length_set_field.
      assert (HN := Hnodes s3 lg2 (elems s3 (field s3 cap (VInt 3))) I3).
      destruct HN as [A B].
      + lia.
      + apply elems_inr; auto. apply field_inr; auto. rewrite L3. exact Hc2.
      + split; auto. lia. }
  match type of H with (let '(_, _) := ?X in _) = _ => destruct X as [st2 lg2] eqn:Ef end.
  assert (HP : okp st0 (length st1) (st2, lg2)).
  { rewrite <- Ef.
    apply fold_left_inv with
      (Q := fun kv => inr (length st0) (length st1) (fst kv) /\ inr (length st0) (length st1) (snd kv)).
    - apply set_langs_inr; auto. rewrite L1. exact Hs'.
    - split; simpl; auto.
    - intros [s0 lg] kv [I0 L0] [Hk Hv]. cbv beta iota zeta. simpl in I0, L0.
      assert (Hv0 : inr (length st0) (length s0) (snd kv)) by inr_up.
      assert (I1' : inv st0 (set_field s0 (snd kv) (VInt 1) posv)).
      { apply inv_set_field; auto; [exact I|inr_up]. }
      set (s1 := set_field s0 (snd kv) (VInt 1) posv) in *.
      assert (L1' : length s1 = length s0) by apply length_set_field.
      match goal with |- okp _ _ (fold_left ?f ?l (s1, ?lg0)) =>
        destruct (Hcaps s1 lg0 l I1') as [A B] end.
      + lia.
      + apply elems_inr; auto. rewrite L1'. exact Hv0.
      + split; [exact A|]. eapply Nat.le_trans; [|exact B]. lia. }
  destruct HP as [I2 L2]. simpl in I2, L2.
  match type of H with fold_left ?f ?l ?a = _ =>
    assert (HP : okp st0 (length st2) (fold_left f l a)) end.
  { apply fold_left_inv with
      (Q := fun kv => inr (length st0) (length st2) (fst kv) /\ inr (length st0) (length st2) (snd kv)).
    - apply items_of_inr; auto. apply field_inr; auto. inr_up.
    - split; simpl; auto.
    - intros [s0 lg] kv [I0 L0] [Hk Hv]. simpl in I0, L0.
      destruct (assoc (VStr (lit "s:text-align")) (items_of s0 (snd kv))); [|split; simpl; auto].
      split; simpl; [|rewrite length_del_field; exact L0].
      apply inv_del_field; auto. inr_up. }
  rewrite H in HP. destruct HP as [A B]. simpl in A, B. split; auto. lia.
Qed.

(* ---- C09, clause 1: a write assigns only to what it allocated itself ---------------------------------------------- *)
Theorem write_inv : forall c k o i st s, inv st (wr_store (write c k o i st s)).
Proof.
  intros c k o i st s. unfold write.
  destruct (((k =? W_VTT)%Z || (k =? W_SCC)%Z) && is_empty_set st s); [apply inv_refl|].
  destruct (deepcopy (dc_fuel st) st s) as [[st1 s1]|] eqn:Edc; [|apply inv_refl].
  destruct (deepcopy_inv st st _ s st1 s1 (inv_refl st) Edc) as (I1 & L1 & V1).
  assert (Hs1 : inr (length st) (length st1) s1).
  { destruct s; try (subst s1; exact I). exact V1. }
  destruct ((k =? W_SRT)%Z || (k =? W_MDVD)%Z || (k =? W_SCC)%Z); [exact I1|].
  destruct (k =? W_VTT)%Z; [exact I1|].
  destruct (k =? W_DFXP)%Z.
  { destruct (apply_slots st1 _ _ []) as [st2 lg] eqn:Ea.
    assert (A : inv st st2 /\ (length st1 <= length st2)%nat).
    { eapply apply_slots_inv; [exact I1| |exact Ea]. apply Forall_app. split; [apply inline_slot_inr; exact Hs1|].
      apply dfxp_slots_inr; auto. apply sel_langs_inr; auto. }
    destruct A as [A _]. destruct (p_err _); exact A. }
  destruct (k =? W_SAMI)%Z.
  { destruct (apply_slots st1 _ _ []) as [st2 lg] eqn:Ea.
    assert (A : inv st st2 /\ (length st1 <= length st2)%nat).
    { eapply apply_slots_inv; [exact I1| |exact Ea]. apply sami_slots_inr; auto. }
    destruct A as [A LA]. destruct (p_err _); [exact A|].
    destruct (sami_styles st2 s1 lg) as [st3 lg3] eqn:Es.
    assert (B : inv st st3 /\ (length st2 <= length st3)%nat).
    { eapply sami_styles_inv; [exact A| |exact Es]. inr_up. }
    destruct B as [B _]. exact B. }
  destruct (k =? W_LEGACY)%Z.
  { destruct (merge_all st1 s1 []) as [st2 lg] eqn:Em.
    assert (A : inv st st2 /\ (length st1 <= length st2)%nat).
    { eapply merge_all_inv; [exact I1|exact Hs1|exact Em]. }
    destruct A as [A LA].
    destruct (_ && _); [exact A|].
    destruct (legacy_styles st2 _ lg) as [st3 lg3] eqn:El.
    assert (B : inv st st3 /\ (length st2 <= length st3)%nat).
    { eapply legacy_styles_inv; [exact A| |exact El]. apply sel_langs_inr; auto. inr_up. }
    destruct B as [B _]. exact B. }
  destruct (k =? W_SINGLE)%Z; [|apply inv_refl].
  destruct (merge_all st1 s1 []) as [st2 lg] eqn:Em.
  assert (A : inv st st2 /\ (length st1 <= length st2)%nat).
  { eapply merge_all_inv; [exact I1|exact Hs1|exact Em]. }
  destruct A as [A LA].
  destruct (single_assign st2 s1 _ lg) as [st3 lg3] eqn:Es.
  assert (B : inv st st3 /\ (length st2 <= length st3)%nat).
  { eapply single_assign_inv; [exact A| |exact Es]. inr_up. }
  destruct B as [B LB].
  destruct (deepcopy (dc_fuel st3) st3 s1) as [[st4 s2]|] eqn:Edc2; [|exact B].
  destruct (deepcopy_inv st st3 _ s1 st4 s2 B Edc2) as (I4 & L4 & V4).
  assert (Hs2 : inr (length st) (length st4) s2).
  { destruct s1; try (subst s2; exact I). exact V4. }
  destruct (apply_slots st4 _ _ lg3) as [st5 lg5] eqn:Ea.
  assert (C : inv st st5 /\ (length st4 <= length st5)%nat).
  { eapply apply_slots_inv; [exact I4| |exact Ea]. apply Forall_app. split; [apply inline_slot_inr; exact Hs2|].
    apply dfxp_slots_inr; auto. apply sel_langs_inr; auto. }
  destruct C as [C _]. destruct (p_err _); exact C.
Qed.

(* every location that existed before the call holds the same object after it - also on the error exits *)
Theorem write_preserves_store : forall c k o i st s l,
  (l < length st)%nat -> get (wr_store (write c k o i st s)) l = get st l.
Proof. intros. apply (inv_agree _ _ (write_inv c k o i st s)). assumption. Qed.

(* hence the snapshot of every value of the old store - the written set and every other set - is unchanged *)
Theorem write_preserves_input : forall c k o i st s fuel v,
  wf st -> below (length st) v ->
  snap fuel (wr_store (write c k o i st s)) v = snap fuel st v.
Proof.
  intros. apply snap_agree; auto. apply (inv_agree _ _ (write_inv c k o i st s)).
Qed.

Theorem write_keeps_wf : forall c k o i st s, wf st -> wf (wr_store (write c k o i st s)).
Proof. intros. eapply inv_wf; eauto. apply write_inv. Qed.

(* ---- C09, clause 2: the result of a write does not depend on the writer's instance state -------------------------- *)
Definition is_span_writer (k : Z) : bool :=
  ((k =? W_DFXP) || (k =? W_SINGLE) || (k =? W_LEGACY) || (k =? W_SAMI))%Z.

Lemma sami_tokens_last_indep : forall o b l1 l2 langs,
  fst (fst (sami_tokens o b l1 langs)) = fst (fst (sami_tokens o b l2 langs)) /\
  snd (sami_tokens o b l1 langs) = snd (sami_tokens o b l2 langs).
Proof.
  intros o b l1 l2 langs. destruct langs as [|caps t]; simpl; [split; reflexivity|].
  destruct (sami_lang_tokens o b TNone caps) as [[o1 l1'] a]. split; reflexivity.
Qed.

(* what a plan contributes to the effect and to the result *)
Definition plan_core (p : plan) := (p_slots p, p_err p, p_open p, p_tokens p).

Lemma make_plan_last_indep : forall k o b l1 l2 t,
  plan_core (make_plan k o b l1 t) = plan_core (make_plan k o b l2 t).
Proof.
  intros k o b l1 l2 t. unfold make_plan, plan_core.
  destruct (k =? W_DFXP)%Z.
  { destruct (plan_slots o (_ ++ dfxp_codes (dfxp_langs o t))) as [sl [e|]]; [reflexivity|].
    destruct (caps_tokens o 4 None b _). reflexivity. }
  destruct (k =? W_SINGLE)%Z.
  { destruct (plan_slots o _) as [sl [e|]]; [reflexivity|].
    destruct (caps_tokens o 4 _ b _). reflexivity. }
  destruct (k =? W_LEGACY)%Z.
  { destruct (caps_tokens o 8 None b _). reflexivity. }
  destruct (k =? W_SAMI)%Z; [|reflexivity].
  destruct (plan_slots o (sami_codes t)) as [sl e].
  destruct (tr_code o (tcode (tfield t 3))); [|reflexivity].
  destruct (sami_langs_before o (set_langs_t t)) as [done fl].
  destruct (sami_tokens_last_indep o b l1 l2 done) as [A B].
  destruct (sami_tokens o b l1 done) as [[o1 x1] t1].
  destruct (sami_tokens o b l2 done) as [[o2 x2] t2]. simpl in A, B. subst. reflexivity.
Qed.

Lemma plan_core_inj : forall p q, plan_core p = plan_core q ->
  p_slots p = p_slots q /\ p_err p = p_err q /\ p_open p = p_open q /\ p_tokens p = p_tokens q.
Proof. intros p q H. unfold plan_core in H. inversion H. auto. Qed.

Lemma entry_inst_span : forall c k i, fix15 c = true -> is_span_writer k = true ->
  wi_open (entry_inst c k i) = false.
Proof.
  intros c k i Hf Hk. unfold entry_inst, is_span_writer in *. rewrite Hf. simpl. rewrite Hk. reflexivity.
Qed.

(* store effect, result, footprint and copy count of a write are the same whatever the instance state at entry,
   once open_span is reset at entry (fix15).  `fresh object` = winst0, `used object` = any other state. *)
Ltac proj_simpl := cbn [wr_store wr_result wr_fp wr_copies wr_inst].

Definition effect (r : wres) := (wr_store r, wr_result r, wr_fp r, wr_copies r).

Lemma write_effect_instance_independent : forall c k o i1 i2 st s,
  fix15 c = true -> effect (write c k o i1 st s) = effect (write c k o i2 st s).
Proof.
  intros c k o i1 i2 st s Hf. unfold write.
  destruct (((k =? W_VTT)%Z || (k =? W_SCC)%Z) && is_empty_set st s); [reflexivity|].
  destruct (deepcopy (dc_fuel st) st s) as [[st1 s1]|]; [|reflexivity].
  destruct ((k =? W_SRT)%Z || (k =? W_MDVD)%Z || (k =? W_SCC)%Z); [reflexivity|].
  destruct (k =? W_VTT)%Z; [reflexivity|].
  destruct (is_span_writer k) eqn:Hs.
  2:{ unfold is_span_writer in Hs. repeat (apply orb_false_iff in Hs; destruct Hs as [Hs ?]).
      rewrite Hs, H, H0, H1. reflexivity. }
  rewrite (entry_inst_span c k i1 Hf Hs), (entry_inst_span c k i2 Hf Hs).
  destruct (plan_core_inj _ _ (make_plan_last_indep k o false (wi_last (entry_inst c k i1))
                                 (wi_last (entry_inst c k i2)) (snap FUEL st1 s1))) as (A & B & C & D).
  cbv zeta. rewrite A, B, D.
  set (p2 := make_plan k o false (wi_last (entry_inst c k i2)) (snap FUEL st1 s1)) in *.
  destruct (k =? W_DFXP)%Z.
  { destruct (apply_slots st1 _ _ []) as [st2 lg]. cbv iota beta.
    destruct (p_err p2); reflexivity. }
  destruct (k =? W_SAMI)%Z.
  { destruct (apply_slots st1 _ _ []) as [st2 lg]. cbv iota beta.
    destruct (p_err p2); [reflexivity|]. destruct (sami_styles st2 s1 lg). reflexivity. }
  destruct (k =? W_LEGACY)%Z.
  { destruct (merge_all st1 s1 []) as [st2 lg]. cbv iota beta.
    destruct (_ && _); [reflexivity|].
    destruct (legacy_styles st2 _ lg). reflexivity. }
  destruct (k =? W_SINGLE)%Z; [|reflexivity].
  destruct (merge_all st1 s1 []) as [st2 lg]. cbv iota beta.
  destruct (single_assign st2 s1 _ lg) as [st3 lg3]. cbv iota beta.
  destruct (deepcopy (dc_fuel st3) st3 s1) as [[st4 s2]|]; [|reflexivity].
  destruct (apply_slots st4 _ _ lg3) as [st5 lg5]. cbv iota beta.
  destruct (p_err p2); reflexivity.
Qed.

(* store effect, result, footprint and copy count of a write are the same whatever the instance state at entry,
   once open_span is reset at entry (fix15).  `fresh object` = winst0, `used object` = any other state. *)
Theorem write_instance_independent : forall c k o i1 i2 st s,
  fix15 c = true ->
  let r1 := write c k o i1 st s in
  let r2 := write c k o i2 st s in
  wr_store r1 = wr_store r2 /\ wr_result r1 = wr_result r2 /\ wr_fp r1 = wr_fp r2 /\ wr_copies r1 = wr_copies r2.
Proof.
  intros c k o i1 i2 st s Hf r1 r2.
  pose proof (write_effect_instance_independent c k o i1 i2 st s Hf) as H.
  unfold effect in H. fold r1 r2 in H. inversion H. auto.
Qed.

(* ---- C09, clause 2 (continued): the result is a function of (writer kind, options, snapshot of the set) ----------- *)
From PV Require Import proofs.DeepcopyFacts.

(* the result of a write as a pure function of the snapshot t of the written set *)
Definition pure_result (k : Z) (o : wopts) (b : bool) (last : tree) (t : tree) : result out :=
  if ((k =? W_SRT) || (k =? W_MDVD) || (k =? W_SCC) || (k =? W_VTT))%Z then Ok (mkOut [] t)
  else if ((k =? W_DFXP) || (k =? W_SAMI) || (k =? W_SINGLE))%Z then
    let p := make_plan k o b last t in
    match p_err p with Some e => Err e | None => Ok (mkOut (p_tokens p) t) end
  else if (k =? W_LEGACY)%Z then
    if (match wo_lang o with TNone => false | _ => true end) && (match set_langs_t t with [] => true | _ => false end)
    then Err IndexError
    else Ok (mkOut (p_tokens (make_plan k o b last t)) t)
  else Err ENotImplemented.

Definition output_of (k : Z) (o : wopts) (t : tree) : result out := pure_result k o false TNone t.

Lemma pure_result_last_indep : forall k o b l1 l2 t, pure_result k o b l1 t = pure_result k o b l2 t.
Proof.
  intros. unfold pure_result.
  destruct (plan_core_inj _ _ (make_plan_last_indep k o b l1 l2 t)) as (A & B & C & D).
  cbv zeta. rewrite B, D. reflexivity.
Qed.

Lemma write_result_pure : forall c k o i st s,
  wf st -> below (length st) s ->
  wr_result (write c k o i st s) = Err EOutOfFuel \/
  wr_result (write c k o i st s)
  = pure_result k o (wi_open (entry_inst c k i)) (wi_last (entry_inst c k i)) (snap FUEL st s).
Proof.
  intros c k o i st s Hwf Hb. unfold write, pure_result.
  destruct (((k =? W_VTT)%Z || (k =? W_SCC)%Z) && is_empty_set st s) eqn:Ee.
  { right. proj_simpl. apply andb_true_iff in Ee. destruct Ee as [Ee _]. apply orb_true_iff in Ee.
    destruct Ee as [Ee|Ee]; rewrite Ee; repeat rewrite orb_true_r; reflexivity. }
  destruct (deepcopy (dc_fuel st) st s) as [[st1 s1]|] eqn:Edc; [|left; reflexivity].
  rewrite (deepcopy_snapshot_eq st _ s st1 s1 Hwf Hb Edc FUEL).
  destruct (k =? W_SRT)%Z eqn:K1; [right; reflexivity|].
  destruct (k =? W_MDVD)%Z eqn:K3; [right; reflexivity|].
  destruct (k =? W_SCC)%Z eqn:K6; [right; reflexivity|].
  destruct (k =? W_VTT)%Z eqn:K2; [right; reflexivity|].
  cbn [orb].
  destruct (k =? W_DFXP)%Z eqn:K4.
  { right. cbn [orb]. cbv zeta. destruct (apply_slots st1 _ _ []). destruct (p_err _); reflexivity. }
  destruct (k =? W_SAMI)%Z eqn:K5.
  { right. cbn [orb]. cbv zeta. destruct (apply_slots st1 _ _ []).
    destruct (p_err _); [reflexivity|]. destruct (sami_styles _ _ _). reflexivity. }
  destruct (k =? W_LEGACY)%Z eqn:K8.
  { right. destruct (k =? W_SINGLE)%Z eqn:K7.
    { exfalso. apply Z.eqb_eq in K7, K8. unfold W_SINGLE, W_LEGACY in *. lia. }
    cbn [orb]. destruct (merge_all st1 s1 []).
    match goal with |- context [if ?b then mkWres _ _ (Err IndexError) _ _ else _] => destruct b end;
      [reflexivity|]. cbv zeta. destruct (legacy_styles _ _ _). reflexivity. }
  destruct (k =? W_SINGLE)%Z eqn:K7; [|right; reflexivity].
  cbn [orb]. cbv zeta. destruct (merge_all st1 s1 []). destruct (single_assign _ _ _ _).
  destruct (deepcopy (dc_fuel _) _ s1) as [[st4 sc2]|]; [|left; reflexivity].
  right. destruct (apply_slots st4 _ _ _). destruct (p_err _); reflexivity.
Qed.

(* Unless the model's deepcopy runs out of fuel, the result of write() is output_of (kind, options, snapshot):
   nothing else of the store, nothing of the writer object's past *)
Theorem write_result_function_of_snapshot : forall c k o i st s,
  fix15 c = true -> wf st -> below (length st) s ->
  wr_result (write c k o i st s) = Err EOutOfFuel \/
  wr_result (write c k o i st s) = output_of k o (snap FUEL st s).
Proof.
  intros c k o i st s Hf Hwf Hb.
  destruct (write_result_pure c k o i st s Hwf Hb) as [H|H]; [left; exact H|right].
  rewrite H. unfold output_of.
  rewrite (pure_result_last_indep k o _ (wi_last (entry_inst c k i)) TNone).
  destruct (is_span_writer k) eqn:Hs.
  - rewrite (entry_inst_span c k i Hf Hs). reflexivity.
  - unfold is_span_writer in Hs. repeat (apply orb_false_iff in Hs; destruct Hs as [Hs ?]).
    unfold pure_result. rewrite Hs, H0, H1, H2. cbn [orb].
    destruct ((k =? W_SRT)%Z || (k =? W_MDVD)%Z || (k =? W_SCC)%Z || (k =? W_VTT)%Z); reflexivity.
Qed.

Corollary write_same_snapshot_same_result : forall c k o i1 i2 st1 st2 s1 s2,
  fix15 c = true -> wf st1 -> wf st2 -> below (length st1) s1 -> below (length st2) s2 ->
  snap FUEL st1 s1 = snap FUEL st2 s2 ->
  wr_result (write c k o i1 st1 s1) <> Err EOutOfFuel ->
  wr_result (write c k o i2 st2 s2) <> Err EOutOfFuel ->
  wr_result (write c k o i1 st1 s1) = wr_result (write c k o i2 st2 s2).
Proof.
  intros c k o i1 i2 st1 st2 s1 s2 Hf W1 W2 B1 B2 Hs N1 N2.
  destruct (write_result_function_of_snapshot c k o i1 st1 s1 Hf W1 B1) as [H1|H1]; [contradiction|].
  destruct (write_result_function_of_snapshot c k o i2 st2 s2 Hf W2 B2) as [H2|H2]; [contradiction|].
  rewrite H1, H2, Hs. reflexivity.
Qed.

(* ---- histories ---------------------------------------------------------------------------------------------------- *)
Definition is_write (o : op) : bool := match o with OWrite _ _ _ _ => true | _ => false end.

Definition wf_world (w : world) : Prop :=
  wf (w_st w) /\ Forall (below (length (w_st w))) (w_sets w).

Lemma nth_error_Forall : forall (A : Type) (P : A -> Prop) (l : list A) n x,
  Forall P l -> nth_error l n = Some x -> P x.
Proof. intros A P l n x H Hn. rewrite Forall_forall in H. apply H. eapply nth_error_In; eauto. Qed.

(* one write step inside any history: every caption set keeps its snapshot, the world stays well formed *)
Theorem step_write_preserves : forall c w wid k o si,
  wf_world w ->
  let w' := fst (step c w (OWrite wid k o si)) in
  wf_world w' /\ w_sets w' = w_sets w /\
  (forall fuel v, below (length (w_st w)) v -> snap fuel (w_st w') v = snap fuel (w_st w) v).
Proof.
  intros c w wid k o si [Hwf Hsets]. cbv zeta. unfold step.
  destruct (nth_error (w_sets w) si) as [s|] eqn:Es.
  - set (wi := match lookup wid (w_writers w) with Some x => x | None => winst0 end).
    cbn [fst w_st w_sets].
    pose proof (write_inv c k o wi (w_st w) s) as Hinv.
    split; [split|split].
    + eapply inv_wf; eauto.
    + eapply Forall_impl; [|exact Hsets]. intros v Hv. eapply below_mono; [exact Hv|]. apply (inv_len _ _ Hinv).
    + reflexivity.
    + intros fuel v Hv. apply snap_agree; auto. apply (inv_agree _ _ Hinv).
  - cbn [fst]. split; [split; assumption|]. split; [reflexivity|]. intros. reflexivity.
Qed.

(* any history of writes (any writers, any options, shared or fresh writer objects, error exits included) *)
Theorem writes_preserve_all_sets : forall c ops w,
  wf_world w -> forallb is_write ops = true ->
  let w' := run_world c w ops in
  wf_world w' /\ w_sets w' = w_sets w /\ (length (w_st w) <= length (w_st w'))%nat /\
  (forall fuel v, below (length (w_st w)) v -> snap fuel (w_st w') v = snap fuel (w_st w) v).
Proof.
  intros c ops. induction ops as [|o t IH]; intros w Hw Hall; cbv zeta.
  - simpl. split; [exact Hw|]. split; [reflexivity|]. split; [lia|]. intros. reflexivity.
  - simpl in Hall. apply andb_true_iff in Hall. destruct Hall as [Ho Ht].
    destruct o as [| |wid k o si|]; try discriminate.
    cbn [run_world].
    destruct (step_write_preserves c w wid k o si Hw) as (W1 & S1 & P1).
    set (w1 := fst (step c w (OWrite wid k o si))) in *.
    assert (L1 : (length (w_st w) <= length (w_st w1))%nat).
    { unfold w1, step. destruct (nth_error (w_sets w) si); cbn [fst w_st]; [|lia].
      apply (inv_len _ _ (write_inv _ _ _ _ _ _)). }
    destruct (IH w1 W1 Ht) as (W2 & S2 & L2 & P2).
    split; [exact W2|]. split; [congruence|]. split; [lia|].
    intros fuel v Hv. rewrite P2; [apply P1; exact Hv|]. eapply below_mono; eauto.
Qed.

Corollary writes_preserve_snapshots : forall c ops w,
  wf_world w -> forallb is_write ops = true ->
  forall fuel, map (snap fuel (w_st (run_world c w ops))) (w_sets (run_world c w ops))
             = map (snap fuel (w_st w)) (w_sets w).
Proof.
  intros c ops w Hw Hall fuel.
  destruct (writes_preserve_all_sets c ops w Hw Hall) as (W & S & L & P). rewrite S.
  apply map_ext_in. intros v Hv. apply P. destruct Hw as [_ Hs]. rewrite Forall_forall in Hs. auto.
Qed.

(* output (history ++ [write]) = output [write]: after ANY history of writes, whatever happened to the writer object,
   the result of writing set s is output_of (kind, options, snapshot of s BEFORE the history) *)
Theorem write_history_independent : forall c ops w k o wi si s,
  fix15 c = true -> wf_world w -> forallb is_write ops = true ->
  nth_error (w_sets w) si = Some s ->
  let w' := run_world c w ops in
  wr_result (write c k o wi (w_st w') s) = Err EOutOfFuel \/
  wr_result (write c k o wi (w_st w') s) = output_of k o (snap FUEL (w_st w) s).
Proof.
  intros c ops w k o wi si s Hf Hw Hall Hs. cbv zeta.
  destruct (writes_preserve_all_sets c ops w Hw Hall) as (W & S & L & P).
  assert (Hb : below (length (w_st w)) s) by (eapply nth_error_Forall; [exact (proj2 Hw)|exact Hs]).
  rewrite <- (P FUEL s Hb).
  apply write_result_function_of_snapshot; auto. exact (proj1 W).
  eapply below_mono; eauto.
Qed.

Lemma wf_store0 : wf store0.
Proof.
  intros l o H. unfold get, store0 in H.
  destruct l as [|[|l]]; simpl in H.
  - inversion H; subst. constructor.
  - inversion H; subst. constructor.
  - destruct l; discriminate.
Qed.

Lemma wf_world0 : wf_world world0.
Proof. split; [exact wf_store0|constructor]. Qed.

(* ---- the fuel side condition is dead: on a well-formed store write() never reports EOutOfFuel ----------------------- *)
Lemma tr_code_err : forall o c e, tr_code o c = Err e -> e <> EOutOfFuel.
Proof.
  intros o [c|] e H; unfold tr_code in H; [|discriminate H].
  destruct (negb (flag fT c)); [discriminate H|]. destruct (wo_rel o).
  - destruct (flag fA c && negb (wo_dims o)); [inversion H; subst; unfold ValueError; intros X; discriminate X|].
    destruct (wo_fit o && flag fT (relativized c) && flag fO (relativized c)); discriminate H.
  - destruct (wo_fit o); [|discriminate H]. destruct (flag fO c); [|discriminate H].
    destruct (flag fE c && flag fA c); [inversion H; subst; unfold ValueError; intros X; discriminate X|discriminate H].
Qed.

Lemma tr_scode_err : forall o sc e, tr_scode o sc = Err e -> e <> EOutOfFuel.
Proof.
  intros o [b c] e H. unfold tr_scode in H. cbn [fst snd] in H. destruct b; [|eapply tr_code_err; eauto].
  destruct c as [c|]; unfold tr_code_lang in H; [|discriminate H].
  destruct (flag fT c && wo_rel o); [|discriminate H].
  destruct (flag fA c && negb (wo_dims o)); [inversion H; subst; unfold ValueError; intros X; discriminate X|discriminate H].
Qed.

Lemma plan_slots_err : forall o codes e, snd (plan_slots o codes) = Some e -> e <> EOutOfFuel.
Proof.
  intros o. induction codes as [|c t IH]; intros e H; simpl in H; [discriminate|].
  destruct (tr_scode o c) as [a|e'] eqn:E.
  - destruct (plan_slots o t) as [r e2]. simpl in *. apply IH. exact H.
  - simpl in H. inversion H; subst. eapply tr_scode_err; eauto.
Qed.

Lemma make_plan_err : forall k o b l t e, p_err (make_plan k o b l t) = Some e -> e <> EOutOfFuel.
Proof.
  intros k o b l t e H. unfold make_plan in H.
  destruct (k =? W_DFXP)%Z.
  { destruct (plan_slots o (inline_code o (tcode (tfield t 3)) ++ dfxp_codes (dfxp_langs o t))) as [sl [e1|]] eqn:E; simpl in H.
    - inversion H; subst. apply (plan_slots_err o (inline_code o (tcode (tfield t 3)) ++ dfxp_codes (dfxp_langs o t)) e). rewrite E. reflexivity.
    - destruct (caps_tokens o 4 None b _). discriminate. }
  destruct (k =? W_SINGLE)%Z.
  { destruct (plan_slots o (inline_code o (wo_pos o) ++ single_codes (wo_pos o) (dfxp_langs o t))) as [sl [e1|]] eqn:E; simpl in H.
    - inversion H; subst. apply (plan_slots_err o (inline_code o (wo_pos o) ++ single_codes (wo_pos o) (dfxp_langs o t)) e). rewrite E. reflexivity.
    - destruct (caps_tokens o 4 _ b _). discriminate. }
  destruct (k =? W_LEGACY)%Z.
  { destruct (caps_tokens o 8 None b _). discriminate. }
  destruct (k =? W_SAMI)%Z; [|discriminate].
  destruct (plan_slots o (sami_codes t)) as [sl e1] eqn:E.
  assert (He : e1 = Some e -> e <> EOutOfFuel).
  { intros ->. apply (plan_slots_err o (sami_codes t) e). rewrite E. reflexivity. }
  destruct (tr_code o (tcode (tfield t 3))); [|apply He; exact H].
  destruct (sami_langs_before o (set_langs_t t)). destruct (sami_tokens o b l l0) as [[o1 l1] toks].
  apply He. exact H.
Qed.

Theorem write_never_out_of_fuel : forall c k o i st s,
  wf st -> below (length st) s -> wr_result (write c k o i st s) <> Err EOutOfFuel.
Proof.
  intros c k o i st s Hwf Hb. unfold write.
  destruct (((k =? W_VTT)%Z || (k =? W_SCC)%Z) && is_empty_set st s); [discriminate|].
  destruct (deepcopy_succeeds st s Hwf Hb) as (st1 & s1 & Edc). unfold dc_fuel. rewrite Edc.
  destruct (deepcopy_inv st st _ s st1 s1 (inv_refl st) Edc) as (I1 & L1 & V1).
  assert (Hs1 : inr (length st) (length st1) s1).
  { destruct s; try (subst s1; exact I). exact V1. }
  destruct ((k =? W_SRT)%Z || (k =? W_MDVD)%Z || (k =? W_SCC)%Z); [discriminate|].
  destruct (k =? W_VTT)%Z; [discriminate|].
  destruct (k =? W_DFXP)%Z.
  { cbv zeta. destruct (apply_slots st1 _ _ []). destruct (p_err _) eqn:E; [|discriminate].
    cbn [wr_result]. intros H. inversion H; subst. eapply make_plan_err; eauto. }
  destruct (k =? W_SAMI)%Z.
  { cbv zeta. destruct (apply_slots st1 _ _ []). destruct (p_err _) eqn:E.
    - cbn [wr_result]. intros H. inversion H; subst. eapply make_plan_err; eauto.
    - destruct (sami_styles _ _ _). discriminate. }
  destruct (k =? W_LEGACY)%Z.
  { destruct (merge_all st1 s1 []).
    match goal with |- context [if ?b then mkWres _ _ (Err IndexError) _ _ else _] => destruct b end; [discriminate|].
    cbv zeta. destruct (legacy_styles _ _ _). discriminate. }
  destruct (k =? W_SINGLE)%Z; [|discriminate].
  destruct (merge_all st1 s1 []) as [st2 lg] eqn:Em.
  assert (A : inv st st2 /\ (length st1 <= length st2)%nat) by (eapply merge_all_inv; [exact I1|exact Hs1|exact Em]).
  destruct A as [A LA].
  destruct (single_assign st2 s1 _ lg) as [st3 lg3] eqn:Es.
  assert (B : inv st st3 /\ (length st2 <= length st3)%nat) by (eapply single_assign_inv; [exact A| |exact Es]; inr_up).
  destruct B as [B LB].
  assert (W3 : wf st3) by (eapply inv_wf; eauto).
  assert (Hb3 : below (length st3) s1) by (eapply inr_below; eapply inr_mono; [exact Hs1|lia]).
  destruct (deepcopy_succeeds st3 s1 W3 Hb3) as (st4 & s2 & Edc2). rewrite Edc2.
  cbv zeta. destruct (apply_slots st4 _ _ lg3). destruct (p_err _) eqn:E; [|discriminate].
  cbn [wr_result]. intros H. inversion H; subst. eapply make_plan_err; eauto.
Qed.

(* C09, unconditional form: on a well-formed store the result of write() IS output_of (kind, options, snapshot) *)
Theorem write_result_is_output_of : forall c k o i st s,
  fix15 c = true -> wf st -> below (length st) s ->
  wr_result (write c k o i st s) = output_of k o (snap FUEL st s).
Proof.
  intros c k o i st s Hf Hwf Hb.
  destruct (write_result_function_of_snapshot c k o i st s Hf Hwf Hb) as [H|H]; [|exact H].
  exfalso. exact (write_never_out_of_fuel c k o i st s Hwf Hb H).
Qed.

Corollary write_same_snapshot_same_result_wf : forall c k o i1 i2 st1 st2 s1 s2,
  fix15 c = true -> wf st1 -> wf st2 -> below (length st1) s1 -> below (length st2) s2 ->
  snap FUEL st1 s1 = snap FUEL st2 s2 ->
  wr_result (write c k o i1 st1 s1) = wr_result (write c k o i2 st2 s2).
Proof.
  intros. rewrite !write_result_is_output_of by assumption. congruence.
Qed.

Theorem write_history_independent_wf : forall c ops w k o wi si s,
  fix15 c = true -> wf_world w -> forallb is_write ops = true -> nth_error (w_sets w) si = Some s ->
  wr_result (write c k o wi (w_st (run_world c w ops)) s) = output_of k o (snap FUEL (w_st w) s).
Proof.
  intros c ops w k o wi si s Hf Hw Hall Hs.
  destruct (write_history_independent c ops w k o wi si s Hf Hw Hall Hs) as [H|H]; [|exact H].
  exfalso. destruct (writes_preserve_all_sets c ops w Hw Hall) as (W & S & L & P).
  assert (Hb : below (length (w_st w)) s) by (eapply nth_error_Forall; [exact (proj2 Hw)|exact Hs]).
  eapply (write_never_out_of_fuel c k o wi _ s (proj1 W)); [eapply below_mono; eauto|exact H].
Qed.

(* ---- C09 determinism: the output does not depend on how a hash set enumerates ------------------------------------------ *)
From Coq Require Import Permutation.

Lemma existsb_perm : forall (A : Type) (f : A -> bool) l l', Permutation l l' -> existsb f l = existsb f l'.
Proof.
  intros A f l l' H. induction H; simpl; auto.
  - rewrite IHPermutation. reflexivity.
  - destruct (f x), (f y); reflexivity.
  - congruence.
Qed.

(* the hash set of assigned region ids is only asked for membership: ANY enumeration order gives the same document *)
Theorem regions_independent_of_set_enumeration : forall enum o t,
  (forall l, Permutation (enum l) l) ->
  dfxp_regions (fun l => l) enum o t = dfxp_regions (fun l => l) (fun l => l) o t.
Proof.
  intros enum o t H. unfold dfxp_regions, kept_regions. f_equal.
  apply filter_ext. intros p. apply existsb_perm. apply H.
Qed.

(* ... whereas the container of unique layouts MUST be iterated in a fixed order: with a hash-set-like enumeration
   (some permutation) of it the region ids change - the real code has to use an ordered container there (_OrderedSet) *)
Theorem regions_depend_on_unique_layout_order_refuted :
  exists iter codes, (forall l, Permutation (iter l) l) /\
    region_ids iter codes <> region_ids (fun l => l) codes.
Proof.
  exists (@rev Z), [Some 18%Z; Some (256 + 18)%Z]. split.
  - intros l. apply Permutation_sym. apply Permutation_rev.
  - vm_compute. discriminate.
Qed.
