(* C17: facts about the SCC writer's code tables and code-word stream. *)
From Coq Require Import List ZArith QArith Lia Bool ZifyBool Arith.
From PV Require Import lib.Sx lib.Str lib.Result model.GenSccw model.SccWrap model.SccWrite spec.SpecSccw.
Import ListNotations.
Open Scope Z_scope.

(* ---- the complete generated tables (re-proved against the working tree on every run) ------------ *)
Definition odd_word (w : Z) : bool := odd_parity (w / 256) && odd_parity (w mod 256).

Lemma tbl_basic_parity : forallb (fun kv => odd_parity (snd kv)) sccw_character_to_code = true.
Proof. vm_compute. reflexivity. Qed.
Lemma tbl_special_parity : forallb (fun kv => odd_word (snd kv)) sccw_special_or_extended_to_code = true.
Proof. vm_compute. reflexivity. Qed.
Lemma tbl_unknown_parity : odd_parity 145 && odd_parity 182 = true.
Proof. vm_compute. reflexivity. Qed.
Lemma tbl_filler_parity : odd_parity 128 = true.
Proof. vm_compute. reflexivity. Qed.
Lemma tbl_controls_parity :
  forallb (fun w => odd_parity (fst w) && odd_parity (snd w)) [ENM; RCL; EDM; EOC] = true.
Proof. vm_compute. reflexivity. Qed.

(* rows 1..15: the PAC bytes exist, have odd parity, and address exactly that row at column 0 *)
Definition pac_ok (row : Z) : bool :=
  match py_index sccw_pac_high_byte_by_row row, py_index sccw_pac_low_byte_by_row_restricted row with
  | Ok h, Ok l => odd_parity h && odd_parity l
                  && match pac_row h l with Some r => r =? row | None => false end
                  && match pac_indent l with Some 0 => true | _ => false end
  | _, _ => false
  end.
Lemma tbl_pac_rows : forallb pac_ok (map Z.of_nat (seq 1 15)) = true.
Proof. vm_compute. reflexivity. Qed.

Lemma pac_ok_row : forall row, 1 <= row <= 15 -> pac_ok row = true.
Proof.
  intros row H. pose proof tbl_pac_rows as T. rewrite forallb_forall in T. apply T.
  apply in_map_iff. exists (Z.to_nat row). split; [lia|]. apply in_seq. lia.
Qed.

(* the writer's basic table is the CEA-608 basic set, and the reader's table inverts it *)
Lemma tbl_basic_is_cea :
  forallb (fun kv => match cea_basic (snd kv mod 128) with Some c => c =? fst kv | None => false end)
          sccw_character_to_code = true.
Proof. vm_compute. reflexivity. Qed.
Lemma tbl_reader_inverts :
  forallb (fun kv => match assoc (snd kv) sccw_reader_characters with Some c => c =? fst kv | None => false end)
          sccw_character_to_code = true.
Proof. vm_compute. reflexivity. Qed.
Lemma tbl_basic_covers_cea :
  forallb (fun b => match cea_basic b with
                    | Some c => match assoc c sccw_character_to_code with Some b' => b' mod 128 =? b | None => false end
                    | None => true end) (map Z.of_nat (seq 32 95)) = true.
Proof. vm_compute. reflexivity. Qed.

(* MICROSECONDS_PER_CODEWORD (binary64) is within 2^-30 us of the exact 1001000/30 the model uses *)
Lemma tbl_mpc_close :
  Qle_bool (Qabs.Qabs ((sccw_mpc_num # Z.to_pos sccw_mpc_den) - mpc)) (1 # 1073741824) = true.
Proof. vm_compute. reflexivity. Qed.
Lemma tbl_header : sccw_header = scenarist_header.
Proof. vm_compute. reflexivity. Qed.

(* ---- lookups -------------------------------------------------------------------------------- *)
Lemma assoc_in : forall k l v, assoc k l = Some v -> In (k, v) l.
Proof.
  induction l as [|[a b] t IH]; intros v H; simpl in H; [discriminate|].
  destruct (a =? k) eqn:E.
  - inversion H; subst. left. f_equal. lia.
  - right. auto.
Qed.

Definition ccode_odd (cc : ccode) : bool :=
  match cc with CByte b => odd_parity b | CWord hi lo => odd_parity hi && odd_parity lo end.

Lemma char_code_parity : forall c, ccode_odd (char_code c) = true.
Proof.
  intros c. unfold char_code.
  destruct (assoc c sccw_character_to_code) as [b|] eqn:E1.
  - apply assoc_in in E1. pose proof tbl_basic_parity as T. rewrite forallb_forall in T.
    exact (T _ E1).
  - destruct (assoc c sccw_special_or_extended_to_code) as [w|] eqn:E2.
    + apply assoc_in in E2. pose proof tbl_special_parity as T. rewrite forallb_forall in T.
      exact (T _ E2).
    + exact tbl_unknown_parity.
Qed.

(* ---- every byte of the word stream has odd parity --------------------------------------------- *)
Definition word_odd (w : Z * Z) : bool := odd_parity (fst w) && odd_parity (snd w).
Definition state_odd (s : wstate) : Prop :=
  forallb word_odd (fst s) = true /\ match snd s with Some p => odd_parity p = true | None => True end.

Lemma ws_align_odd : forall s, state_odd s -> state_odd (ws_align s).
Proof.
  unfold state_odd. intros [ws [p|]] [H1 H2]; cbn [ws_align fst snd] in *; split; auto.
  cbn [forallb]. rewrite H1. unfold word_odd. cbn [fst snd]. rewrite H2, tbl_filler_parity. reflexivity.
Qed.

Lemma ws_char_odd : forall s c, state_odd s -> state_odd (ws_char s c).
Proof.
  intros s c H. pose proof (ws_align_odd s H) as A. unfold state_odd in *.
  unfold ws_char. pose proof (char_code_parity c) as P.
  destruct (char_code c) as [b|hi lo]; simpl in P.
  - destruct s as [ws [p|]]; destruct H as [H1 H2]; cbn [fst snd] in *; split; cbn [fst snd]; auto.
    cbn [forallb]. rewrite H1. unfold word_odd. cbn [fst snd]. rewrite H2, P. reflexivity.
  - destruct (ws_align s) as [ws' p']. destruct A as [A1 _].
    cbn [fst snd] in *. split; cbn [fst snd]; auto.
    cbn [forallb]. rewrite A1. unfold word_odd. cbn [fst snd]. rewrite P. reflexivity.
Qed.

Lemma ws_line_odd : forall line s, state_odd s -> state_odd (ws_line s line).
Proof.
  unfold ws_line. induction line as [|c t IH]; intros s H; simpl; auto using ws_char_odd.
Qed.

Definition rows_valid (rows : list (Z * str)) : Prop := forall r, In r rows -> 1 <= fst r <= 15.

Lemma words_rows_odd : forall rows s, rows_valid rows -> state_odd s ->
  exists s', words_rows s rows = Ok s' /\ state_odd s'.
Proof.
  induction rows as [|[row line] t IH]; intros s V H; simpl.
  - eauto.
  - assert (R : 1 <= row <= 15) by (apply (V (row, line)); left; reflexivity).
    pose proof (pac_ok_row row R) as P. unfold pac_ok in P.
    destruct (py_index sccw_pac_high_byte_by_row row) as [h|]; [|discriminate].
    destruct (py_index sccw_pac_low_byte_by_row_restricted row) as [l|]; [|discriminate].
    simpl. destruct s as [ws p]. apply IH.
    + intros r Hr. apply V. right. exact Hr.
    + apply ws_align_odd, ws_line_odd. unfold state_odd in *. destruct H as [H1 H2]. split; cbn [fst snd] in *; auto.
      cbn [forallb]. rewrite H1. unfold word_odd. cbn [fst snd].
      destruct (odd_parity h); [|discriminate]. destruct (odd_parity l); [|discriminate]. reflexivity.
Qed.

(* ---- rows addressed ---------------------------------------------------------------------------- *)
Lemma number_rows_spec : forall lines first r, In r (number_rows first lines) ->
  first <= fst r < first + Z.of_nat (length lines).
Proof.
  induction lines as [|l t IH]; intros first r H; simpl in H; [contradiction|].
  destruct H as [<-|H]; simpl; [lia|]. specialize (IH _ _ H). simpl length. lia.
Qed.
Lemma number_rows_length : forall lines first, length (number_rows first lines) = length lines.
Proof. induction lines; intros; simpl; auto. Qed.
Lemma number_rows_snd : forall lines first, map snd (number_rows first lines) = lines.
Proof. induction lines; intros; simpl; f_equal; auto. Qed.

Lemma split_ch_aux_nonempty : forall sep s cur, split_ch_aux sep s cur <> [].
Proof. induction s; intros; simpl; [discriminate|]. destruct (a =? sep); [discriminate|apply IHs]. Qed.

Lemma layout_rows_count : forall text, (1 <= length (layout_rows text))%nat.
Proof.
  intros. unfold layout_rows. rewrite number_rows_length. unfold split_ch.
  pose proof (split_ch_aux_nonempty 10 (layout_line text) []).
  destruct (split_ch_aux 10 (layout_line text) []); [congruence|simpl; lia].
Qed.

Lemma layout_rows_valid : forall text, (length (layout_rows text) <= 15)%nat -> rows_valid (layout_rows text).
Proof.
  intros text H r Hr. unfold layout_rows in *. rewrite number_rows_length in H.
  apply number_rows_spec in Hr.
  pose proof (layout_rows_count text) as C. unfold layout_rows in C. rewrite number_rows_length in C. lia.
Qed.

(* the rows addressed are exactly 16-n .. 15, in order *)
Lemma number_rows_fst : forall lines first,
  map fst (number_rows first lines) = map (fun i => first + Z.of_nat i) (seq 0 (length lines)).
Proof.
  induction lines as [|l t IH]; intros first; simpl; [reflexivity|].
  f_equal; [lia|]. rewrite IH, <- seq_shift, map_map. apply map_ext. intros. lia.
Qed.

Theorem all_bytes_odd_parity : forall text, (length (layout_rows text) <= 15)%nat ->
  exists ws, text_to_words text = Ok ws /\ forallb word_odd ws = true.
Proof.
  intros text H. unfold text_to_words.
  destruct (words_rows_odd (layout_rows text) ([], None) (layout_rows_valid text H)) as [s' [E [O _]]].
  - split; simpl; auto.
  - rewrite E. simpl. eexists. split; [reflexivity|].
    rewrite forallb_forall in *. intros w Hw. apply O. apply in_rev. exact Hw.
Qed.

(* ---- the code string is the rendering of the word stream -------------------------------------- *)
Definition state_str (s : wstate) : str :=
  render_words (rev (fst s)) ++ match snd s with Some p => hex2 p | None => [] end.

Lemma hex2_length : forall b, length (hex2 b) = 2%nat.
Proof. intros. unfold hex2. destruct (b <? 0); reflexivity. Qed.
Lemma render_word_length : forall w, length (render_word w) = 5%nat.
Proof. intros. unfold render_word. rewrite !app_length, !hex2_length. reflexivity. Qed.
Lemma render_words_app : forall a b, render_words (a ++ b) = render_words a ++ render_words b.
Proof. intros. unfold render_words. apply flat_map_app. Qed.
Lemma render_words_length : forall ws, length (render_words ws) = (5 * length ws)%nat.
Proof.
  induction ws as [|w t IH]; [reflexivity|].
  change (render_words (w :: t)) with (render_word w ++ render_words t).
  rewrite app_length, render_word_length, IH. simpl length. lia.
Qed.

Lemma len5_app : forall a b, len5 (a ++ b) = (len5 a + Z.of_nat (length b)) mod 5.
Proof. intros. unfold len5. rewrite app_length, Nat2Z.inj_add, Zplus_mod_idemp_l. reflexivity. Qed.
Lemma len5_render : forall ws, len5 (render_words ws) = 0.
Proof.
  intros. unfold len5. rewrite render_words_length, Nat2Z.inj_mul.
  change (Z.of_nat 5) with 5. rewrite Z.mul_comm. apply Z_mod_mult.
Qed.

Lemma render_snoc : forall ws w, render_words (rev (w :: ws)) = render_words (rev ws) ++ render_word w.
Proof. intros. cbn [rev]. rewrite render_words_app. cbn [render_words flat_map]. rewrite app_nil_r. reflexivity. Qed.

Lemma hex2_filler : hex2 128 ++ [32] = lit "80 ".
Proof. reflexivity. Qed.

Ltac len5_solve :=
  repeat (rewrite len5_app); rewrite ?app_length, ?len5_render, ?hex2_length, ?render_word_length; reflexivity.

Lemma maybe_align_state : forall s, maybe_align (state_str s) = state_str (ws_align s).
Proof.
  intros [ws [p|]]; unfold maybe_align, state_str; cbn [fst snd ws_align].
  - assert (L : len5 (render_words (rev ws) ++ hex2 p) = 2) by len5_solve.
    rewrite L. cbn [Z.eqb Pos.eqb]. rewrite render_snoc, app_nil_r, <- app_assoc. unfold render_word.
    cbn [fst snd]. rewrite hex2_filler. reflexivity.
  - assert (L : len5 (render_words (rev ws) ++ []) = 0) by len5_solve.
    rewrite L. reflexivity.
Qed.

Lemma print_char_state : forall s c, maybe_space (print_character (state_str s) c) = state_str (ws_char s c).
Proof.
  intros s c. unfold print_character, ws_char. destruct (char_code c) as [b|hi lo].
  - destruct s as [ws [p|]]; unfold state_str, maybe_space; cbn [fst snd].
    + assert (L : len5 ((render_words (rev ws) ++ hex2 p) ++ hex2 b) = 4) by len5_solve.
      rewrite L. cbn [Z.eqb Pos.eqb]. rewrite render_snoc, app_nil_r. unfold render_word. cbn [fst snd].
      rewrite <- !app_assoc. reflexivity.
    + assert (L : len5 ((render_words (rev ws) ++ []) ++ hex2 b) = 2) by len5_solve.
      rewrite L. cbn [Z.eqb Pos.eqb]. rewrite app_nil_r. reflexivity.
  - rewrite maybe_align_state. destruct (ws_align s) as [ws' p'] eqn:E.
    assert (P : p' = None) by (destruct s as [ws [p|]]; inversion E; reflexivity). subst p'.
    unfold state_str, maybe_space; cbn [fst snd].
    assert (L : len5 ((render_words (rev ws') ++ []) ++ hex2 hi ++ hex2 lo) = 4) by len5_solve.
    rewrite L. cbn [Z.eqb Pos.eqb]. rewrite render_snoc, !app_nil_r. unfold render_word. cbn [fst snd].
    rewrite <- !app_assoc. reflexivity.
Qed.

Lemma print_line_state : forall line s, print_line (state_str s) line = state_str (ws_line s line).
Proof.
  unfold print_line, ws_line. induction line as [|c t IH]; intros s; cbn [fold_left]; [reflexivity|].
  rewrite print_char_state. apply IH.
Qed.

Lemma pac_state : forall ws hi lo,
  state_str (ws, None) ++ pac_str hi lo ++ pac_str hi lo = state_str ((hi, lo) :: (hi, lo) :: ws, None).
Proof.
  intros. unfold state_str. cbn [fst snd]. rewrite !render_snoc, !app_nil_r. unfold render_word, pac_str.
  cbn [fst snd]. rewrite <- !app_assoc. reflexivity.
Qed.

Lemma ws_align_none : forall s, snd (ws_align s) = None.
Proof. intros [ws [p|]]; reflexivity. Qed.

Lemma code_rows_state : forall rows s, snd s = None ->
  code_rows (state_str s) rows = (do s' <- words_rows s rows; Ok (state_str s')).
Proof.
  induction rows as [|[row line] t IH]; intros [ws p] Hp; cbn [snd] in Hp; subst p.
  - reflexivity.
  - cbn [code_rows words_rows].
    destruct (py_index sccw_pac_high_byte_by_row row) as [hi|e]; [|reflexivity].
    destruct (py_index sccw_pac_low_byte_by_row_restricted row) as [lo|e]; [|reflexivity].
    cbn [bind]. rewrite pac_state, print_line_state, maybe_align_state. apply IH. apply ws_align_none.
Qed.

Lemma words_rows_none : forall rows s s', snd s = None -> words_rows s rows = Ok s' -> snd s' = None.
Proof.
  induction rows as [|[row line] t IH]; intros [ws p] s' Hp H; cbn [words_rows] in H.
  - inversion H; subst. exact Hp.
  - destruct (py_index sccw_pac_high_byte_by_row row) as [hi|e]; [|discriminate].
    destruct (py_index sccw_pac_low_byte_by_row_restricted row) as [lo|e]; [|discriminate].
    cbn [bind] in H. eapply IH; [|exact H]. apply ws_align_none.
Qed.

(* word_stream_shape: whatever the text, the code string is a sequence of words, each rendered as two
   two-digit lowercase hex bytes and one space (and it fails exactly when the word stream fails) *)
Theorem word_stream_shape : forall text,
  text_to_code text = (do ws <- text_to_words text; Ok (render_words ws)).
Proof.
  intros text. unfold text_to_code, text_to_words.
  change (@nil Z) with (state_str ([], None)).
  rewrite code_rows_state by reflexivity.
  destruct (words_rows ([], None) (layout_rows text)) as [s'|e] eqn:E; [|reflexivity].
  cbn [bind]. f_equal. unfold state_str.
  rewrite (words_rows_none _ ([], None) _ eq_refl E). apply app_nil_r.
Qed.

(* a rendered word is four hex digits and a space, and parses back to its two bytes *)
Lemma hex_digit_val : forall d, 0 <= d < 16 -> hex_val (hex_digit d) = Some d.
Proof.
  intros d H.
  assert (T : forallb (fun d => match hex_val (hex_digit d) with Some x => x =? d | None => false end)
                      (map Z.of_nat (seq 0 16)) = true) by (vm_compute; reflexivity).
  rewrite forallb_forall in T.
  assert (C : In d (map Z.of_nat (seq 0 16))).
  { apply in_map_iff. exists (Z.to_nat d). split; [lia|]. apply in_seq. lia. }
  specialize (T d C). destruct (hex_val (hex_digit d)); [f_equal; lia|discriminate].
Qed.
Lemma render_word_parses : forall hi lo, 0 <= hi < 256 -> 0 <= lo < 256 ->
  exists a b c d, render_word (hi, lo) = [a; b; c; d; 32] /\ parse_word [a; b; c; d] = Some (hi, lo).
Proof.
  intros hi lo Hh Hl. unfold render_word, hex2. cbn [fst snd].
  assert (E1 : (hi <? 0) = false) by lia. assert (E2 : (lo <? 0) = false) by lia. rewrite E1, E2.
  do 4 eexists. split; [reflexivity|]. unfold parse_word.
  rewrite !hex_digit_val by (try apply Z.mod_pos_bound; try (split; [apply Z.div_pos|apply Z.div_lt_upper_bound]); lia).
  f_equal. f_equal; symmetry; rewrite Z.mul_comm; apply Z.div_mod; lia.
Qed.

Lemma layout_rows_fst : forall text,
  map fst (layout_rows text)
  = map (fun i => 16 - Z.of_nat (length (layout_rows text)) + Z.of_nat i) (seq 0 (length (layout_rows text))).
Proof.
  intros. unfold layout_rows. rewrite number_rows_length. apply number_rows_fst.
Qed.
