(* C18 (wave 7): to_xml_attribute / from_xml_attribute of the composite values.
   Point / Stretch: "<x> <y>"; Padding: "<before> <end> <after> <start>".  Re-parsing a printed Point / Stretch / Padding
   reproduces it up to the two-decimal rounding of every component, and printing that again gives the same string
   (print o parse o print = print, component by component); TwoDimensionalObject.from_xml_attribute on token lists. *)
From Coq Require Import List ZArith QArith Qabs Bool Lia.
From PV Require Import lib.Sx lib.Str lib.Result model.Geometry model.Positioning spec.SpecGeom spec.SpecPos.
From PV Require Import proofs.GeomStr proofs.GeomEq proofs.GeomParse proofs.GeomPrint proofs.GeomLang proofs.GeomFacts proofs.PosFacts proofs.Pos12Facts.
Import ListNotations.
Open Scope Z_scope.

(* one size: the re-parsed value is the two-decimal rounding, within 1/200, and prints as before *)
Lemma size_reparse : forall a, (0 <= s_val a)%Q ->
  exists z, size_from_string (size_str a) = Ok z /\ size_equiv z (round2 a) /\ size_str z = size_str a
            /\ (Qabs (s_val z - s_val a) <= 1 # 200)%Q.
Proof.
  intros a Ha. destruct (from_string_round2 a Ha) as (z & Ez & Qz). destruct (print_parse_print a Ha) as (z' & Ez' & Sz & Cz).
  rewrite Ez in Ez'. inversion Ez'; subst z'. exists z. repeat split; try assumption; apply Qz.
Qed.

Theorem two_sizes_tokens : forall toks, toks <> [] -> Forall (free_of 32) toks ->
  two_sizes (join [32] toks)
  = match toks with
    | [a; b] => do x <- size_from_string a; do y <- size_from_string b; Ok (x, y)
    | _ => Err ValueError
    end.
Proof. intros toks Hn Hf. unfold two_sizes. rewrite (split_ch_of_join _ _ Hn Hf). reflexivity. Qed.

Theorem point_attr_roundtrip : forall p, (0 <= s_val (p_x p))%Q -> (0 <= s_val (p_y p))%Q ->
  exists p', point_of_attr (point_attr p) = Ok p'
    /\ size_equiv (p_x p') (round2 (p_x p)) /\ size_equiv (p_y p') (round2 (p_y p))
    /\ point_attr p' = point_attr p.
Proof.
  intros [x y] Hx Hy. cbn [p_x p_y] in *. unfold point_of_attr, point_attr, two_sizes. cbn [p_x p_y].
  rewrite (split_ch_app _ _ _ (size_str_free_of_space x Hx)), (split_ch_free _ _ (size_str_free_of_space y Hy)).
  destruct (size_reparse x Hx) as (x' & Ex & Qx & Sx & _). destruct (size_reparse y Hy) as (y' & Ey & Qy & Sy & _).
  rewrite Ex, Ey. cbn [bind fst snd]. eexists. split; [reflexivity|]. cbn [p_x p_y]. rewrite Sx, Sy. auto.
Qed.

Theorem stretch_attr_roundtrip : forall p, (0 <= s_val (st_h p))%Q -> (0 <= s_val (st_v p))%Q ->
  exists p', stretch_of_attr (stretch_attr p) = Ok p'
    /\ size_equiv (st_h p') (round2 (st_h p)) /\ size_equiv (st_v p') (round2 (st_v p))
    /\ stretch_attr p' = stretch_attr p.
Proof.
  intros [x y] Hx Hy. cbn [st_h st_v] in *. unfold stretch_of_attr, stretch_attr, two_sizes. cbn [st_h st_v].
  rewrite (split_ch_app _ _ _ (size_str_free_of_space x Hx)), (split_ch_free _ _ (size_str_free_of_space y Hy)).
  destruct (size_reparse x Hx) as (x' & Ex & Qx & Sx & _). destruct (size_reparse y Hy) as (y' & Ey & Qy & Sy & _).
  rewrite Ex, Ey. cbn [bind fst snd]. eexists. split; [reflexivity|]. cbn [st_h st_v]. rewrite Sx, Sy. auto.
Qed.

(* Padding.to_xml_attribute always prints four sizes in TTML order, so the four-value branch of the shorthand reads each
   component back into its own slot *)
Theorem padding_attr_roundtrip : forall p, (0 <= s_val (pd_before p))%Q -> (0 <= s_val (pd_after p))%Q ->
  (0 <= s_val (pd_start p))%Q -> (0 <= s_val (pd_end p))%Q ->
  exists p', padding_from_attr (padding_attr p) = Ok p'
    /\ size_equiv (pd_before p') (round2 (pd_before p)) /\ size_equiv (pd_after p') (round2 (pd_after p))
    /\ size_equiv (pd_start p') (round2 (pd_start p)) /\ size_equiv (pd_end p') (round2 (pd_end p))
    /\ padding_attr p' = padding_attr p.
Proof.
  intros [b a s e] Hb Ha Hs He. cbn [pd_before pd_after pd_start pd_end] in *.
  assert (Hj : padding_attr (mkPadding b a s e) = join [32] [size_str b; size_str e; size_str a; size_str s]).
  { unfold padding_attr. cbn [pd_before pd_after pd_start pd_end join app]. repeat rewrite <- app_assoc. reflexivity. }
  rewrite Hj. rewrite padding_from_attr_tokens; [|discriminate|].
  - destruct (size_reparse b Hb) as (b' & Eb & Qb & Sb & _). destruct (size_reparse e He) as (e' & Ee & Qe & Se & _).
    destruct (size_reparse a Ha) as (a' & Ea & Qa & Sa & _). destruct (size_reparse s Hs) as (s' & Es & Qs & Ss & _).
    cbn [res_map]. rewrite Eb, Ee, Ea, Es. cbn [bind padding_of_sizes].
    eexists. split; [reflexivity|]. cbn [pd_before pd_after pd_start pd_end].
    repeat (split; [assumption|]). unfold padding_attr. cbn [pd_before pd_after pd_start pd_end].
    rewrite Sb, Se, Sa, Ss. cbn [join app]. repeat rewrite <- app_assoc. reflexivity.
  - repeat constructor; apply size_str_free_of_space; assumption.
Qed.

(* equal values print the same attribute (the region table relies on it: one region per class of equal layouts) *)
Theorem point_attr_compat : forall p q, size_equiv (p_x p) (p_x q) -> size_equiv (p_y p) (p_y q) -> point_attr p = point_attr q.
Proof. intros p q Hx Hy. unfold point_attr. rewrite (size_str_compat _ _ Hx), (size_str_compat _ _ Hy). reflexivity. Qed.
