(* C05, stage 3 of the pop-on refinement: ONE load with SEVERAL rows of basic characters (plain white preamble, pairwise
   distinct rows, any transmission order, control codes single or doubled).  Rows addressed on consecutive screen rows
   are decoded into the lines of one caption (text nodes separated by break nodes, all at the address of the run's first
   row); any other row starts a new caption (empty text node + reposition node).  `read` returns exactly
   `map (cap_of t1 t2) (expected_load l)`, and that list, observed as the harness observes it, satisfies ok_c05. *)
From Coq Require Import List ZArith QArith Qabs Lia Bool ZifyBool.
From PV Require Import lib.Sx lib.Str lib.Result model.GenScc model.SccLen model.SccTime model.SccStash model.SccDecoder model.SccLayout
                       spec.Spec608 spec.SpecScc05 spec.SpecSccLen proofs.SccTableFacts proofs.SccDoubleFacts
                       proofs.SccLenFacts proofs.SccStashFacts proofs.SccPoponStage1.
Import ListNotations. Open Scope Z_scope.

(* performance only (see stage 1): the kernel must not evaluate the filter inside basic_code on a variable *)
Local Strategy 1000 [basic_code is_basic].

Definition basic_load (l : load) : bool := load_wf l && forallb basic_row l.

(* ---- 1. words on a pop-on buffer that is not empty ------------------------------------------------------------ *)
Lemma interp3 : forall tk nodes w n, interpreted w ->
  interpret_command tk (mkCr nodes SNone) w n = (update_positioning tk (mkCr nodes SNone) w, mkCr nodes SNone, None).
Proof.
  intros tk nodes w n I. unfold interpret_command. cbv zeta. rewrite (in_bs w I), (in_bg w I), (in_mid w I).
  cbn [cr_style cr_nodes andb].
  destruct (memz w scc_style_setting_commands) eqn:Es.
  - rewrite (in_ital w I Es). cbn [cr_style cr_nodes]. destruct (prev_text nodes) as [[txt brk]|]; reflexivity.
  - cbn [cr_style cr_nodes]. destruct (prev_text nodes) as [[txt brk]|]; reflexivity.
Qed.

Section Run.
Variables (st : stash) (ds : bool) (pa ro : creator) (q : option (creator * Q)) (tm : Q) (tc : str) (off : Q).

Definition SG (tk : tracker) (l : lastcmd) (nodes : list inode) (fr : Z) : rstate :=
  mkR st tk l ds (mkCr nodes SNone) pa ro MPop q tm tc fr off None.

Lemma tw_char3 : forall tk l nodes fr w a b n tk' nodes',
  char_of (hi w) = Some a -> char_of (lo w) = Some b ->
  add_chars tk (mkCr nodes SNone) (a ++ b) = (tk', mkCr nodes' SNone) ->
  translate_word (SG tk l nodes fr) w n = SG tk' (LWord w) nodes' (fr + 1).
Proof.
  intros tk l nodes fr w a b n tk' nodes' Ha Hb Hadd.
  destruct (char_word_class w a b Ha Hb) as (Hc & Hp & Hs & He & Ht & Hq & Hbs).
  unfold SG, translate_word. proj_red. unfold handle_double. proj_red. rewrite Hc, Hp, Hs, He, Ht, Hq.
  proj_red. rewrite ?andb_false_r. proj_red. rewrite Ha, Hb. unfold add_to_buf. proj_red.
  rewrite Hadd. proj_red. reflexivity.
Qed.

Lemma tw_interp3 : forall tk l nodes fr w n l', interpreted w ->
  handle_double (SG tk l nodes fr) w = (false, SG tk l' nodes fr) ->
  translate_word (SG tk l nodes fr) w n = SG (update_positioning tk (mkCr nodes SNone) w) l' nodes (fr + 1).
Proof.
  intros tk l nodes fr w n l' I Hd. unfold SG in *.
  unfold translate_word. proj_red. rewrite Hd. proj_red. rewrite (in_cp w I).
  rewrite (translate_command_other _ w n (in_ctl w I)). unfold do_interpret. proj_red.
  rewrite (interp3 tk nodes w n I). proj_red. reflexivity.
Qed.

(* the tracker after the optional tab offset k *)
Definition tab_upd (k : Z) (tk : tracker) : tracker :=
  if 0 <? k then tracker_update tk (fst (tk_default tk), snd (tk_default tk) + k) else tk.

Lemma up_tab3 : forall tk nodes t k, tab_of t = Some k -> has_break_before nodes = false ->
  update_positioning tk (mkCr nodes SNone) t = tracker_update tk (fst (tk_default tk), snd (tk_default tk) + k).
Proof. intros tk nodes t k Ht Hb. unfold update_positioning. rewrite Ht. cbn [cr_nodes]. rewrite Hb. reflexivity. Qed.

Lemma tracker_update_default : forall tk p, tk_default (tracker_update tk p) = p.
Proof.
  intros tk [r c]. unfold tracker_update. cbv zeta. cbn [tk_pos tk_break tk_repos tk_default].
  destruct (last (map Some (tk_pos tk)) None) as [[row col0]|]; [|reflexivity].
  repeat match goal with |- context [if ?x then _ else _] => destruct x end; reflexivity.
Qed.

(* the first preamble address code of an EMPTY buffer resets the tracker first (fix #22): the unit below is stated for a
   buffer that is not empty, or for a tracker that is already in its reset form (on which the reset is the identity) *)
Definition pac_ready (tk : tracker) (nodes : list inode) : Prop := nodes <> [] \/ tracker_reset tk = tk.

Lemma pac_ready_nonempty : forall tk pre n, pac_ready tk (pre ++ [n]).
Proof. intros tk pre n. left. intros E. apply app_eq_nil in E. destruct E as [_ E]. discriminate. Qed.

Lemma pac_ready_reset : forall ps dflt nodes, ps = [] -> pac_ready (mkTk ps None false dflt) nodes.
Proof. intros ps dflt nodes ->. right. reflexivity. Qed.

Lemma up_pac3 : forall tk nodes p pos, tab_of p = None -> pac_pos p = Some pos -> pac_ready tk nodes ->
  update_positioning tk (mkCr nodes SNone) p = tracker_update tk pos.
Proof.
  intros tk nodes p pos Ht Hp [Hn|Hr].
  - apply up_pac; assumption.
  - rewrite (up_pac_gen _ _ _ _ Ht Hp). cbn [cr_nodes]. destruct nodes; [rewrite Hr|]; reflexivity.
Qed.

Lemma pac_unit_run3 : forall r d tk l nodes fr nx, basic_row r = true -> has_break_before nodes = false ->
  last_contains l (pac_word (rw_row r) (pac_attr r)) = false -> pac_ready tk nodes ->
  exists l', tws (SG tk l nodes fr) (pac_unit d r) nx
             = SG (tab_upd (rw_tab r) (tracker_update tk (rw_row r, rw_indent r))) l' nodes
                  (fr + Z.of_nat (length (pac_unit d r))).
Proof.
  intros r d tk l nodes fr nx Hrow Hbb Hl Hrd.
  set (p := pac_word (rw_row r) (pac_attr r)) in *. set (t := tab_word (rw_tab r)).
  destruct (basic_row_facts r Hrow) as (_ & _ & _ & Hk & _).
  destruct (pac_row_facts r Hrow) as (Hp & Hpac & Ht & I). fold p in Hp, Hpac, Ht, I.
  assert (Spac : forall l0 fr0 n, last_contains l0 p = false ->
            translate_word (SG tk l0 nodes fr0) p n = SG (tracker_update tk (rw_row r, rw_indent r)) (LWord p) nodes (fr0 + 1)).
  { intros l0 fr0 n H0. rewrite (tw_interp3 tk l0 nodes fr0 p n (LWord p) I).
    - rewrite (up_pac3 _ _ _ _ Ht Hp Hrd). reflexivity.
    - unfold SG. apply hd_pac; assumption. }
  assert (Sagain : forall tk0 l0 fr0 n, last_contains l0 p = true ->
            translate_word (SG tk0 l0 nodes fr0) p n = SG tk0 LNone nodes (fr0 + 1)).
  { intros tk0 l0 fr0 n H0. unfold SG.
    rewrite (pac_second (mkR st tk0 l0 ds (mkCr nodes SNone) pa ro MPop q tm tc fr0 off None) p n eq_refl Hpac H0). reflexivity. }
  unfold pac_unit. cbv zeta. fold p. fold t. unfold tab_upd. destruct (0 <? rw_tab r) eqn:Et.
  - assert (Hk' : 1 <= rw_tab r <= 3) by lia. destruct (tab_row_facts _ Hk') as [Htab It]. fold t in Htab, It.
    assert (Stab : forall tk0 fr0 n,
              translate_word (SG tk0 (LWord p) nodes fr0) t n
              = SG (tracker_update tk0 (fst (tk_default tk0), snd (tk_default tk0) + rw_tab r)) (LPacTo p t) nodes (fr0 + 1)).
    { intros tk0 fr0 n. rewrite (tw_interp3 tk0 (LWord p) nodes fr0 t n (LPacTo p t) It).
      - rewrite (up_tab3 _ _ _ _ Htab Hbb). reflexivity.
      - unfold SG. apply (hd_tab _ _ _ _ _ _ _ _ _ _ _ _ _ (rw_tab r) Hpac Htab). }
    assert (Stab2 : forall tk0 fr0 n, translate_word (SG tk0 LNone nodes fr0) t n = SG tk0 LNone nodes (fr0 + 1)).
    { intros tk0 fr0 n. unfold SG.
      rewrite (tab_skip_none (mkR st tk0 LNone ds (mkCr nodes SNone) pa ro MPop q tm tc fr0 off None) t n eq_refl eq_refl);
        [reflexivity|congruence]. }
    destruct d.
    + exists LNone. cbn [app tws length]. rewrite (Spac l fr _ Hl), Stab, Sagain, Stab2.
      * f_equal. lia.
      * cbn [last_contains]. rewrite Z.eqb_refl. reflexivity.
    + exists (LPacTo p t). cbn [app tws length]. rewrite (Spac l fr _ Hl), Stab. f_equal. lia.
  - destruct d.
    + exists LNone. cbn [app tws length]. rewrite (Spac l fr _ Hl), Sagain.
      * f_equal. lia.
      * cbn [last_contains]. apply Z.eqb_refl.
    + exists (LWord p). cbn [app tws length]. rewrite (Spac l fr _ Hl). reflexivity.
Qed.

(* ---- 2. a run of basic characters: from a pending state (tk0, nodes0) into the text node at p after pre ----------- *)
Definition charlast (l : lastcmd) : Prop := exists w, l = LWord w /\ is_command w = false /\ is_pac w = false.

Section Chars3.
Variables (tk0 tk1 : tracker) (nodes0 pre : list inode) (p : pos).
Hypothesis H0 : forall s, add_chars tk0 (mkCr nodes0 SNone) s = (tk1, mkCr (pre ++ [mkI IText s p]) SNone).
Hypothesis H1 : forall txt s, add_chars tk1 (mkCr (pre ++ [mkI IText txt p]) SNone) s
                              = (tk1, mkCr (pre ++ [mkI IText (txt ++ s) p]) SNone).

Definition holds3 (tk : tracker) (nodes : list inode) (txt : str) : Prop :=
  (tk = tk0 /\ nodes = nodes0 /\ txt = []) \/ (tk = tk1 /\ nodes = pre ++ [mkI IText txt p]).

Lemma sg_word : forall tk l nodes txt fr w a b n,
  char_of (hi w) = Some a -> char_of (lo w) = Some b -> holds3 tk nodes txt ->
  translate_word (SG tk l nodes fr) w n = SG tk1 (LWord w) (pre ++ [mkI IText (txt ++ a ++ b) p]) (fr + 1).
Proof.
  intros tk l nodes txt fr w a b n Ha Hb [(-> & -> & ->)|(-> & ->)].
  - apply (tw_char3 _ _ _ _ _ a b); [assumption|assumption|]. rewrite H0. reflexivity.
  - apply (tw_char3 _ _ _ _ _ a b); [assumption|assumption|]. rewrite H1. reflexivity.
Qed.

Definition chars_goal3 (tk : tracker) (l : lastcmd) (nodes : list inode) (fr : Z) (nx : option Z) (ws : list Z) (txt' : str) : Prop :=
  exists tk' l' nodes',
    tws (SG tk l nodes fr) ws nx = SG tk' l' nodes' (fr + Z.of_nat (length ws)) /\
    holds3 tk' nodes' txt' /\ (ws <> [] -> charlast l').

Lemma char_word_charlast : forall w a b, char_of (hi w) = Some a -> char_of (lo w) = Some b -> charlast (LWord w).
Proof.
  intros w a b Ha Hb. destruct (char_word_class w a b Ha Hb) as (Hc & Hp & _). exists w. auto.
Qed.

Lemma bytes_run3 : forall nx bs cs, Forall2 carries bs cs ->
  (forall tk l nodes txt fr, holds3 tk nodes txt -> chars_goal3 tk l nodes fr nx (packb bs None) (txt ++ cs)) /\
  (forall b0 c0 tk l nodes txt fr, carries b0 c0 -> holds3 tk nodes txt ->
     chars_goal3 tk l nodes fr nx (packb bs (Some b0)) (txt ++ c0 :: cs)).
Proof.
  intros nx bs cs F. unfold chars_goal3. induction F as [|b c bs cs [Rg Hc] F IH].
  - split.
    + intros tk l nodes txt fr Hh. exists tk, l, nodes. cbn [packb flush tws length]. rewrite app_nil_r, Z.add_0_r.
      split; [reflexivity|split; [exact Hh|congruence]].
    + intros b0 c0 tk l nodes txt fr [Rg0 Hc0] Hh. cbn [packb flush tws length].
      assert (Ha : char_of (hi (b0 * 256 + 128)) = Some [c0]) by (rewrite hi_word by lia; exact Hc0).
      assert (Hl : char_of (lo (b0 * 256 + 128)) = Some []) by (rewrite lo_word by lia; exact char_of_pad).
      exists tk1, (LWord (b0 * 256 + 128)), (pre ++ [mkI IText (txt ++ [c0]) p]). split; [|split].
      * rewrite (sg_word tk l nodes txt fr _ _ _ nx Ha Hl Hh). rewrite app_nil_r. reflexivity.
      * right. split; reflexivity.
      * intros _. exact (char_word_charlast _ _ _ Ha Hl).
  - destruct IH as [IHa IHb]. split.
    + intros tk l nodes txt fr Hh. cbn [packb]. apply IHb; [split; assumption|exact Hh].
    + intros b0 c0 tk l nodes txt fr [Rg0 Hc0] Hh. cbn [packb].
      set (w := b0 * 256 + b). set (rest := packb bs None).
      assert (Ha : char_of (hi w) = Some [c0]) by (unfold w; rewrite hi_word by exact Rg; exact Hc0).
      assert (Hl : char_of (lo w) = Some [c]) by (unfold w; rewrite lo_word by exact Rg; exact Hc).
      cbn [tws]. fold (nxt rest nx). rewrite (sg_word tk l nodes txt fr w _ _ (nxt rest nx) Ha Hl Hh).
      destruct (IHa tk1 (LWord w) (pre ++ [mkI IText (txt ++ [c0] ++ [c]) p]) (txt ++ [c0] ++ [c]) (fr + 1))
        as (tk' & l' & nodes' & E & Hh' & Hl').
      { right. split; reflexivity. }
      exists tk', l', nodes'. split; [|split].
      * unfold rest. rewrite E. f_equal. cbn [length]. lia.
      * replace (txt ++ c0 :: c :: cs) with ((txt ++ [c0] ++ [c]) ++ cs); [exact Hh'|].
        rewrite <- app_assoc. reflexivity.
      * intros _. destruct (packb bs None) eqn:Eb.
        -- cbn [tws] in E. unfold SG in E. injection E as _ E2 _ _. rewrite <- E2. exact (char_word_charlast _ _ _ Ha Hl).
        -- apply Hl'. discriminate.
Qed.

(* a non-empty run ends in the definite state *)
Lemma chars_run3 : forall d nx cs l fr, forallb is_basic cs = true -> cs <> [] ->
  exists l', tws (SG tk0 l nodes0 fr) (pack d (map TCh cs) None) nx
             = SG tk1 l' (pre ++ [mkI IText cs p]) (fr + Z.of_nat (length (pack d (map TCh cs) None))) /\ charlast l'.
Proof.
  intros d nx cs l fr Hb Hne. rewrite pack_packb.
  destruct (proj1 (bytes_run3 nx _ cs (carries_basic cs Hb)) tk0 l nodes0 [] fr) as (tk' & l' & nodes' & E & Hh & Hl).
  { left. repeat split. }
  cbn [app] in Hh. destruct Hh as [(_ & _ & X)|(-> & ->)]; [congruence|].
  exists l'. split; [exact E|]. apply Hl. destruct cs as [|c0 cs']; [congruence|].
  cbn [map packb]. destruct cs' as [|c1 cs'']; cbn [map packb flush]; discriminate.
Qed.
End Chars3.

(* ---- 3. the tracker and the node creator at the start of a row ------------------------------------------------- *)
Lemma last_some_app : forall A (l : list A) x, last (map Some (l ++ [x])) None = Some x.
Proof. intros A l x. rewrite map_app. cbn [map]. apply last_last. Qed.

(* first row of the load *)
Lemma tracker_new : forall dflt row ind k, 0 <= k <= 3 ->
  tab_upd k (tracker_update (mkTk [] None false dflt) (row, ind)) = mkTk [(row, ind + k)] None false (row, ind + k).
Proof.
  intros dflt row ind k Hk. rewrite tracker_first. unfold tab_upd. destruct (0 <? k) eqn:E.
  - cbn [tk_default fst snd]. apply tracker_tab. lia.
  - replace k with 0 by lia. rewrite Z.add_0_r. reflexivity.
Qed.

(* preamble for the screen row below the last addressed one: the row list grows, a break is required; the tab offset
   is recognised as such relative to the preamble's indent and leaves the tracker alone *)
Lemma tracker_adj : forall (ps : list pos) lastrow c0 dflt ind k, last (map Some ps) None = Some (lastrow, c0) -> 0 <= k <= 3 ->
  tab_upd k (tracker_update (mkTk ps None false dflt) (lastrow + 1, ind))
  = mkTk (ps ++ [(lastrow + 1, c0)]) (Some ind) false (lastrow + 1, ind + k).
Proof.
  intros ps lastrow c0 dflt ind k Hl Hk.
  assert (E1 : tracker_update (mkTk ps None false dflt) (lastrow + 1, ind)
               = mkTk (ps ++ [(lastrow + 1, c0)]) (Some ind) false (lastrow + 1, ind)).
  { unfold tracker_update. cbv zeta. cbn [tk_pos tk_break tk_repos tk_default]. rewrite Hl. rewrite Z.eqb_refl. reflexivity. }
  rewrite E1. unfold tab_upd. destruct (0 <? k) eqn:E.
  - cbn [tk_default fst snd]. unfold tracker_update. cbv zeta. cbn [tk_pos tk_break tk_repos tk_default]. rewrite last_some_app.
    replace (lastrow + 1 =? lastrow + 1 + 1) with false by lia. rewrite Z.eqb_refl.
    replace (ind + 1 <=? ind + k) with true by lia. replace (ind + k <=? ind + 3) with true by lia. reflexivity.
  - replace k with 0 by lia. rewrite Z.add_0_r. reflexivity.
Qed.

(* preamble for any other row (different from the last one): a single fresh position, repositioning required *)
Lemma tracker_far : forall (ps : list pos) lastrow c0 dflt row ind k, last (map Some ps) None = Some (lastrow, c0) -> 0 <= k <= 3 ->
  row <> lastrow -> row <> lastrow + 1 ->
  tab_upd k (tracker_update (mkTk ps None false dflt) (row, ind)) = mkTk [(row, ind + k)] None true (row, ind + k).
Proof.
  intros ps lastrow c0 dflt row ind k Hl Hk H1 H2.
  assert (E1 : tracker_update (mkTk ps None false dflt) (row, ind) = mkTk [(row, ind)] None true (row, ind)).
  { unfold tracker_update, pos_eqb. cbv zeta. cbn [tk_pos tk_break tk_repos tk_default fst snd]. rewrite Hl.
    replace (row =? lastrow + 1) with false by lia. replace (row =? lastrow) with false by lia. reflexivity. }
  rewrite E1. unfold tab_upd. destruct (0 <? k) eqn:E.
  - cbn [tk_default fst snd]. unfold tracker_update, pos_eqb. cbv zeta. cbn [tk_pos tk_break tk_repos tk_default map last fst snd].
    replace (row =? row + 1) with false by lia. rewrite Z.eqb_refl.
    replace (ind + 1 <=? ind + k) with true by lia. replace (ind + k <=? ind + 3) with true by lia.
    replace (ind + k =? ind) with false by lia. reflexivity.
  - replace k with 0 by lia. rewrite Z.add_0_r. reflexivity.
Qed.

Lemma add_chars_plain : forall p ps dflt pre txt q0 s,
  add_chars (mkTk (p :: ps) None false dflt) (mkCr (pre ++ [mkI IText txt q0]) SNone) s
  = (mkTk (p :: ps) None false dflt, mkCr (pre ++ [mkI IText (txt ++ s) q0]) SNone).
Proof.
  intros p ps dflt pre txt q0 s. unfold add_chars.
  cbn [current_position tk_pos tk_repos tk_break break_required cr_nodes cr_style]. rewrite last_some_app.
  cbn [is_text i_kind andb negb]. rewrite map_last_snoc. reflexivity.
Qed.

Lemma add_chars_first : forall p dflt s,
  add_chars (mkTk [p] None false dflt) (mkCr [] SNone) s = (mkTk [p] None false dflt, mkCr ([] ++ [mkI IText s p]) SNone).
Proof. reflexivity. Qed.

Lemma add_chars_break : forall p ps c dflt pre txt q0 s,
  add_chars (mkTk (p :: ps) (Some c) false dflt) (mkCr (pre ++ [mkI IText txt q0]) SNone) s
  = (mkTk (p :: ps) None false dflt, mkCr ((pre ++ [mkI IText txt q0; mkI IBreak [] p]) ++ [mkI IText s p]) SNone).
Proof.
  intros p ps c dflt pre txt q0 s. unfold add_chars.
  cbn [current_position tk_pos tk_repos tk_break break_required cr_nodes cr_style]. rewrite last_some_app.
  cbn [is_text i_kind andb negb ack_break ack_repos tk_pos tk_repos tk_break tk_default].
  replace ((pre ++ [mkI IText txt q0]) ++ [mkI IBreak [] p; mkI IText [] p])
    with ((pre ++ [mkI IText txt q0; mkI IBreak [] p]) ++ [mkI IText [] p]) by (rewrite <- !app_assoc; reflexivity).
  rewrite map_last_snoc. reflexivity.
Qed.

Lemma add_chars_repos : forall p dflt pre txt q0 s,
  add_chars (mkTk [p] None true dflt) (mkCr (pre ++ [mkI IText txt q0]) SNone) s
  = (mkTk [p] None false dflt,
     mkCr ((pre ++ [mkI IText txt q0; mkI IText [] p; mkI IRepos [] p]) ++ [mkI IText s p]) SNone).
Proof.
  intros p dflt pre txt q0 s. unfold add_chars.
  cbn [current_position tk_pos tk_repos tk_break break_required cr_nodes cr_style]. rewrite last_some_app.
  cbn [is_text i_kind andb negb ack_break ack_repos tk_pos tk_repos tk_break tk_default].
  replace (((pre ++ [mkI IText txt q0]) ++ [mkI IText [] p]) ++ [mkI IRepos [] p; mkI IText [] p])
    with ((pre ++ [mkI IText txt q0; mkI IText [] p; mkI IRepos [] p]) ++ [mkI IText [] p]) by (rewrite <- !app_assoc; reflexivity).
  rewrite map_last_snoc. reflexivity.
Qed.

Lemma no_break_before_text : forall pre txt q0, has_break_before (pre ++ [mkI IText txt q0]) = false.
Proof. intros pre txt q0. unfold has_break_before. rewrite rev_unit. reflexivity. Qed.

Lemma charlast_pac : forall l p, charlast l -> is_pac p = true -> last_contains l p = false.
Proof.
  intros l p (w & -> & _ & Hw) Hp. cbn [last_contains]. destruct (Z.eqb_spec w p) as [E|]; [|reflexivity]. congruence.
Qed.

(* ---- 4. one row ---------------------------------------------------------------------------------------------------- *)
Lemma row_run3 : forall r d tk l nodes fr nx tk0 tk1 pre p, basic_row r = true -> has_break_before nodes = false ->
  last_contains l (pac_word (rw_row r) (pac_attr r)) = false -> pac_ready tk nodes ->
  tab_upd (rw_tab r) (tracker_update tk (rw_row r, rw_indent r)) = tk0 ->
  (forall s, add_chars tk0 (mkCr nodes SNone) s = (tk1, mkCr (pre ++ [mkI IText s p]) SNone)) ->
  (forall txt s, add_chars tk1 (mkCr (pre ++ [mkI IText txt p]) SNone) s = (tk1, mkCr (pre ++ [mkI IText (txt ++ s) p]) SNone)) ->
  exists l', tws (SG tk l nodes fr) (emit_row d r) nx
             = SG tk1 l' (pre ++ [mkI IText (row_text r) p]) (fr + Z.of_nat (length (emit_row d r))) /\ charlast l'.
Proof.
  intros r d tk l nodes fr nx tk0 tk1 pre p Hrow Hbb Hl Hrd Etk H0 H1.
  destruct (basic_row_facts r Hrow) as (_ & _ & _ & _ & Hf & Hb & _ & Hne & _).
  unfold emit_row. rewrite Hf, tws_app, app_length, Nat2Z.inj_add.
  destruct (pac_unit_run3 r d tk l nodes fr (nxt (pack d (map TCh (row_text r)) None) nx) Hrow Hbb Hl Hrd) as (l1 & E1).
  rewrite E1, Etk.
  destruct (chars_run3 tk0 tk1 nodes pre p H0 H1 d nx (row_text r) l1 (fr + Z.of_nat (length (pac_unit d r))) Hb Hne)
    as (l2 & E2 & Hl2).
  exists l2. split; [|exact Hl2]. rewrite E2. f_equal. lia.
Qed.

(* ---- 5. the second and later rows ---------------------------------------------------------------------------------- *)
(* nodes appended after the text node of the previous row: cur = address of the current run, lastrow = last row *)
Fixpoint tail_nodes (t : load) (cur : pos) (lastrow : Z) : list inode :=
  match t with
  | [] => []
  | r :: t' =>
      if rw_row r =? lastrow + 1
      then mkI IBreak [] cur :: mkI IText (row_text r) cur :: tail_nodes t' cur (rw_row r)
      else mkI IText [] (row_pos r) :: mkI IRepos [] (row_pos r) :: mkI IText (row_text r) (row_pos r)
           :: tail_nodes t' (row_pos r) (rw_row r)
  end.

(* consecutive rows of the transmission differ (all that the decoder needs of `distinct`) *)
Fixpoint chain_ok (lastrow : Z) (t : load) : Prop :=
  match t with [] => True | r :: t' => rw_row r <> lastrow /\ chain_ok (rw_row r) t' end.

Lemma rows_run3 : forall d t, Forall (fun r => basic_row r = true) t ->
  forall nx pre txt (cur : pos) (ps : list pos) lastrow c0 dflt l fr, chain_ok lastrow t -> charlast l ->
  last (map Some (cur :: ps)) None = Some (lastrow, c0) ->
  exists tk' l', tws (SG (mkTk (cur :: ps) None false dflt) l (pre ++ [mkI IText txt cur]) fr) (flat_map (emit_row d) t) nx
     = SG tk' l' (pre ++ mkI IText txt cur :: tail_nodes t cur lastrow) (fr + Z.of_nat (length (flat_map (emit_row d) t)))
     /\ charlast l'.
Proof.
  intros d t F. induction F as [|r t Hrow F IH]; intros nx pre txt cur ps lastrow c0 dflt l fr Hch Hl Hlast.
  - exists (mkTk (cur :: ps) None false dflt), l. cbn [flat_map tws length tail_nodes]. rewrite Z.add_0_r. split; [reflexivity|exact Hl].
  - destruct Hch as [Hne Hch]. cbn [flat_map]. rewrite tws_app, app_length, Nat2Z.inj_add.
    destruct (basic_row_facts r Hrow) as (_ & _ & _ & Hk & _).
    destruct (pac_row_facts r Hrow) as (_ & Hpac & _).
    pose proof (charlast_pac l _ Hl Hpac) as Hlc.
    pose proof (no_break_before_text pre txt cur) as Hbb.
    cbn [tail_nodes]. destruct (Z.eqb_spec (rw_row r) (lastrow + 1)) as [Eadj|Nadj].
    + (* next screen row: a further line of the current caption *)
      destruct (row_run3 r d (mkTk (cur :: ps) None false dflt) l (pre ++ [mkI IText txt cur]) fr
                  (nxt (flat_map (emit_row d) t) nx)
                  (mkTk ((cur :: ps) ++ [(lastrow + 1, c0)]) (Some (rw_indent r)) false (lastrow + 1, rw_indent r + rw_tab r))
                  (mkTk ((cur :: ps) ++ [(lastrow + 1, c0)]) None false (lastrow + 1, rw_indent r + rw_tab r))
                  (pre ++ [mkI IText txt cur; mkI IBreak [] cur]) cur Hrow Hbb Hlc (pac_ready_nonempty _ _ _)) as (l1 & E1 & Hl1).
      * rewrite Eadj. apply tracker_adj; [exact Hlast|lia].
      * intros s. apply add_chars_break.
      * intros txt0 s. apply add_chars_plain.
      * rewrite E1.
        destruct (IH nx (pre ++ [mkI IText txt cur; mkI IBreak [] cur]) (row_text r) cur (ps ++ [(lastrow + 1, c0)])
                    (rw_row r) c0 (lastrow + 1, rw_indent r + rw_tab r) l1 (fr + Z.of_nat (length (emit_row d r))) Hch Hl1)
          as (tk' & l' & E & Hl').
        { change (cur :: ps ++ [(lastrow + 1, c0)]) with ((cur :: ps) ++ [(lastrow + 1, c0)]).
          rewrite last_some_app, Eadj. reflexivity. }
        exists tk', l'. split; [|exact Hl']. refine (eq_trans E _). rewrite <- app_assoc. cbn [app]. f_equal. lia.
    + (* any other row: a new caption *)
      destruct (row_run3 r d (mkTk (cur :: ps) None false dflt) l (pre ++ [mkI IText txt cur]) fr
                  (nxt (flat_map (emit_row d) t) nx)
                  (mkTk [row_pos r] None true (row_pos r)) (mkTk [row_pos r] None false (row_pos r))
                  (pre ++ [mkI IText txt cur; mkI IText [] (row_pos r); mkI IRepos [] (row_pos r)]) (row_pos r) Hrow Hbb Hlc
                  (pac_ready_nonempty _ _ _))
        as (l1 & E1 & Hl1).
      * unfold row_pos. apply (tracker_far _ lastrow c0); [exact Hlast|lia|exact Hne|exact Nadj].
      * intros s. apply add_chars_repos.
      * intros txt0 s. apply add_chars_plain.
      * rewrite E1.
        destruct (IH nx (pre ++ [mkI IText txt cur; mkI IText [] (row_pos r); mkI IRepos [] (row_pos r)]) (row_text r)
                    (row_pos r) [] (rw_row r) (rw_indent r + rw_tab r) (row_pos r) l1
                    (fr + Z.of_nat (length (emit_row d r))) Hch Hl1 eq_refl) as (tk' & l' & E & Hl').
        exists tk', l'. split; [|exact Hl']. refine (eq_trans E _). rewrite <- app_assoc. cbn [app]. f_equal. lia.
Qed.

End Run.

(* ---- 6. End-Of-Caption on a buffer that is not empty ------------------------------------------------------------- *)
Lemma eoc_run3 : forall d st tk l ds nodes pa ro tm tc fr off nx t, cr_is_empty (mkCr nodes SNone) = false ->
  last_is l w_eoc = false -> get_time tc fr off = Ok t ->
  exists l' ds', tws (mkR st tk l ds (mkCr nodes SNone) pa ro MPop None tm tc fr off None) (ctl d (ctrl_word 47)) nx
   = mkR st tk l' ds' creator0 pa ro MPop (Some (mkCr nodes SNone, t)) t tc (fr + (if d then 2 else 1)) off None
   /\ last_is l' w_edm = false.
Proof.
  intros d st tk l ds nodes pa ro tm tc fr off nx t Hne Hl Hg.
  change (ctrl_word 47) with w_eoc.
  assert (E1 : forall n, translate_word (mkR st tk l ds (mkCr nodes SNone) pa ro MPop None tm tc fr off None) w_eoc n
          = mkR st tk (LWord w_eoc) ds creator0 pa ro MPop (Some (mkCr nodes SNone, t)) t tc (fr + 1) off None).
  { intros n. unfold translate_word. proj_red. rewrite (hd_eoc _ _ _ _ _ _ _ _ _ _ _ _ Hl). proj_red.
    replace (is_command w_eoc || is_pac w_eoc) with true by (vm_compute; reflexivity).
    rewrite translate_command_eoc. unfold with_time. proj_red. rewrite Hg. cbv zeta. proj_red. rewrite Hne. proj_red. reflexivity. }
  destruct d; cbn [ctl tws].
  - exists LNone, ds. split; [|reflexivity]. rewrite E1. rewrite tw_second; [| reflexivity | reflexivity | reflexivity].
    unfold bump, set_dbl, set_clock. proj_red. f_equal; first [lia | reflexivity].
  - exists (LWord w_eoc), ds. split; [|reflexivity]. rewrite E1. reflexivity.
Qed.

(* ---- 7. the whole load, up to the End-Of-Caption -------------------------------------------------------------------- *)
Definition load_nodes (l : load) : list inode :=
  match l with
  | [] => []
  | r :: t => mkI IText (row_text r) (row_pos r) :: tail_nodes t (row_pos r) (rw_row r)
  end.

Lemma distinct_chain : forall t x, mem x (map rw_row t) = false -> distinct (map rw_row t) = true -> chain_ok x t.
Proof.
  induction t as [|a t IH]; intros x Hm Hd; [exact I|].
  cbn [map mem existsb distinct chain_ok] in *. apply orb_false_iff in Hm. destruct Hm as [Hx Hm].
  apply andb_true_iff in Hd. destruct Hd as [Ha Hd]. apply negb_true_iff in Ha. split.
  - intros E. rewrite E, Z.eqb_refl in Hx. discriminate.
  - apply IH; assumption.
Qed.

Lemma basic_load_parts : forall l, basic_load l = true ->
  exists r t, l = r :: t /\ basic_row r = true /\ Forall (fun r => basic_row r = true) t /\ chain_ok (rw_row r) t.
Proof.
  intros l H. unfold basic_load in H. apply andb_true_iff in H. destruct H as [Hw Hb].
  destruct l as [|r t]; [discriminate Hw|]. exists r, t. unfold load_wf in Hw.
  apply andb_true_iff in Hw. destruct Hw as [_ Hd].
  rewrite forallb_cons in Hb. apply andb_true_iff in Hb. destruct Hb as [Hr Ht].
  split; [reflexivity|split; [exact Hr|split]].
  - apply Forall_forall. intros x Hx. exact (proj1 (forallb_forall _ _) Ht x Hx).
  - cbn [map distinct] in Hd. apply andb_true_iff in Hd. destruct Hd as [Hm Hd]. apply negb_true_iff in Hm.
    apply distinct_chain; assumption.
Qed.

Lemma charlast_not_eoc : forall l, charlast l -> last_is l w_eoc = false.
Proof.
  intros l (w & -> & Hc & _). cbn [last_is]. destruct (Z.eqb_spec w w_eoc) as [E|]; [|reflexivity].
  rewrite E, w_eoc_command in Hc. discriminate.
Qed.

Lemma stage3_state : forall d l off tc nx t, basic_load l = true ->
  get_time tc (Z.of_nat (length (emit_load d l)) - (if d then 2 else 1)) off = Ok t ->
  exists tk lc ds,
   tws (start_state off tc) (emit_load d l) nx =
     mkR stash0 tk lc ds creator0 creator0 creator0 MPop
         (Some (mkCr (load_nodes l) SNone, t)) t tc (Z.of_nat (length (emit_load d l))) off None
   /\ last_is lc w_edm = false.
Proof.
  intros d l off tc nx t H Hg. destruct (basic_load_parts l H) as (r & rest & -> & Hrow & Frest & Hch).
  destruct (basic_row_facts r Hrow) as (_ & _ & _ & Hk & _ & _ & _ & Hne & _).
  assert (El : emit_load d (r :: rest) = (ctl d (ctrl_word 46) ++ ctl d (ctrl_word 32)) ++ emit_row d r
               ++ flat_map (emit_row d) rest ++ ctl d (ctrl_word 47)).
  { unfold emit_load. cbn [flat_map]. rewrite <- !app_assoc. reflexivity. }
  rewrite El in *. rewrite !app_length, !Nat2Z.inj_add, !ctl_length in *.
  rewrite (tws_app (ctl d (ctrl_word 46) ++ ctl d (ctrl_word 32))), (tws_app (emit_row d r)),
          (tws_app (flat_map (emit_row d) rest)).
  destruct (prologue_run d off tc (nxt (emit_row d r ++ flat_map (emit_row d) rest ++ ctl d (ctrl_word 47)) nx))
    as (l0 & ds0 & -> & Hl0).
  destruct (pac_row_facts r Hrow) as (_ & _ & _ & I).
  assert (Hc0 : last_contains l0 (pac_word (rw_row r) (pac_attr r)) = false).
  { destruct Hl0 as [->| ->]; [reflexivity|]. cbn [last_contains]. apply Z.eqb_neq. intros E. apply (in_ctl _ I).
    rewrite <- E. unfold ctl_words. cbn [In]. tauto. }
  destruct (row_run3 stash0 ds0 creator0 creator0 None 0%Q tc off r d tracker0 l0 [] (if d then 4 else 2)
              (nxt (flat_map (emit_row d) rest ++ ctl d (ctrl_word 47)) nx)
              (mkTk [row_pos r] None false (row_pos r)) (mkTk [row_pos r] None false (row_pos r)) [] (row_pos r)
              Hrow eq_refl Hc0 (or_intror eq_refl)) as (l1 & E1 & Hl1).
  { unfold tracker0, row_pos. apply tracker_new. lia. }
  { intros s. apply add_chars_first. }
  { intros txt s. apply (add_chars_plain (row_pos r) [] (row_pos r) []). }
  unfold SG in E1. fold creator0 in E1. rewrite E1.
  destruct (rows_run3 stash0 ds0 creator0 creator0 None 0%Q tc off d rest Frest (nxt (ctl d (ctrl_word 47)) nx)
              [] (row_text r) (row_pos r) [] (rw_row r) (rw_indent r + rw_tab r) (row_pos r) l1
              ((if d then 4 else 2) + Z.of_nat (length (emit_row d r))) Hch Hl1 eq_refl) as (tk2 & l2 & E2 & Hl2).
  unfold SG in E2. rewrite E2. cbn [app].
  set (fr := (if d then 4 else 2) + Z.of_nat (length (emit_row d r)) + Z.of_nat (length (flat_map (emit_row d) rest))) in *.
  replace ((if d then 2 else 1) + (if d then 2 else 1) + (Z.of_nat (length (emit_row d r)) +
           (Z.of_nat (length (flat_map (emit_row d) rest)) + (if d then 2 else 1))) - (if d then 2 else 1)) with fr in Hg
    by (unfold fr; destruct d; lia).
  destruct (eoc_run3 d stash0 tk2 l2 ds0 (mkI IText (row_text r) (row_pos r) :: tail_nodes rest (row_pos r) (rw_row r))
              creator0 creator0 0%Q tc fr off nx t) as (l3 & ds3 & E3 & Hl3).
  { unfold cr_is_empty. cbn [cr_nodes existsb i_text]. destruct (row_text r); [congruence|reflexivity]. }
  { apply charlast_not_eoc. exact Hl2. }
  { exact Hg. }
  exists tk2, l3, ds3. split; [|exact Hl3]. rewrite E3. cbn [load_nodes]. f_equal. unfold fr. destruct d; lia.
Qed.

(* ---- 8. the expected captions as pre-captions --------------------------------------------------------------------- *)
Definition line_text (cs : list cell) : str := map (fun c => match c with Cell ch _ => ch | Opt => 32 end) cs.
(* nodes of an expected caption: its lines separated by breaks, every node at the caption's address *)
Fixpoint lines_nodes (p : pos) (ls : list (list cell)) : list cnode :=
  match ls with
  | [] => []
  | [l] => [CText (line_text l) p]
  | l :: t => CText (line_text l) p :: CBreak p :: lines_nodes p t
  end.
Definition cap_of (t1 t2 : Q) (e : ecap) : precap :=
  mkPre t1 t2 (lines_nodes (e_row e, e_col e) (e_lines e)) (Some (e_row e, e_col e)).

Lemma lines_nodes_snoc : forall p ls l, ls <> [] ->
  lines_nodes p (ls ++ [l]) = lines_nodes p ls ++ [CBreak p; CText (line_text l) p].
Proof.
  intros p. induction ls as [|a ls IH]; intros l H; [congruence|].
  destruct ls as [|b ls]; [reflexivity|].
  change (lines_nodes p ((a :: b :: ls) ++ [l])) with (CText (line_text a) p :: CBreak p :: lines_nodes p ((b :: ls) ++ [l])).
  rewrite IH by discriminate. reflexivity.
Qed.

Lemma line_text_plain : forall s, line_text (map (fun c => Cell c false) s) = s.
Proof. intros s. unfold line_text. rewrite map_map. apply map_id. Qed.

(* lines as produced by basic rows: plain cells, not empty, at most 32 characters, no newline character *)
Definition good_line (cs : list cell) : Prop :=
  exists s, cs = map (fun c => Cell c false) s /\ s <> [] /\ (length s <= 32)%nat /\ ~ In 10 s.
Definition good_ecap (e : ecap) : Prop :=
  1 <= e_row e <= 15 /\ 0 <= e_col e <= 31 /\ e_lines e <> [] /\ Forall good_line (e_lines e).

Lemma basic_row_good : forall r, basic_row r = true ->
  good_line (cells_of r) /\ line_text (cells_of r) = row_text r /\ 1 <= rw_row r <= 15 /\ 0 <= rw_indent r + rw_tab r <= 31.
Proof.
  intros r H. destruct (basic_row_facts r H) as (_ & Hr & Hin & Hk & _ & Hb & Hc & Hne & _ & Hn).
  assert (H0 : 0 <= rw_indent r) by (unfold indents_608 in Hin; cbn [In] in Hin; lia).
  assert (Hlen : (0 < length (row_text r))%nat) by (destruct (row_text r); [congruence|cbn; lia]).
  split; [|split; [|split]].
  - exists (row_text r). split; [exact Hc|split; [exact Hne|split; [lia|]]].
    intros Hi. rewrite forallb_forall in Hb. pose proof (is_basic_ge32 10 (Hb 10 Hi)). lia.
  - rewrite Hc. apply line_text_plain.
  - exact Hr.
  - lia.
Qed.

Lemma group_rows_good : forall t, Forall (fun r => basic_row r = true) t -> forall e lr, good_ecap e ->
  Forall good_ecap (group_rows t (Some (e, lr))).
Proof.
  intros t F. induction F as [|r t Hrow F IH]; intros e lr He.
  - cbn [group_rows]. constructor; [exact He|constructor].
  - destruct (basic_row_good r Hrow) as (Hg & _ & Hr & Hc). cbn [group_rows]. destruct (rw_row r =? lr + 1).
    + apply IH. destruct He as (H1 & H2 & H3 & H4). unfold good_ecap. cbn [e_row e_col e_lines].
      split; [exact H1|split; [exact H2|split]].
      * intros E. apply app_eq_nil in E. destruct E as [_ E]. discriminate.
      * apply Forall_app. split; [exact H4|constructor; [exact Hg|constructor]].
    + constructor; [exact He|]. apply IH. unfold good_ecap. cbn [e_row e_col e_lines].
      split; [exact Hr|split; [exact Hc|split; [discriminate|constructor; [exact Hg|constructor]]]].
Qed.

Lemma expected_load_good : forall r t, basic_row r = true -> Forall (fun r => basic_row r = true) t ->
  Forall good_ecap (expected_load (r :: t)).
Proof.
  intros r t Hrow F. destruct (basic_row_good r Hrow) as (Hg & _ & Hr & Hc). unfold expected_load. cbn [group_rows].
  apply group_rows_good; [exact F|]. unfold good_ecap. cbn [e_row e_col e_lines].
  split; [exact Hr|split; [exact Hc|split; [discriminate|constructor; [exact Hg|constructor]]]].
Qed.

(* ---- 9. _format_italics and the caption creator on the queued nodes --------------------------------------------- *)
Definition plain_node (n : inode) : bool :=
  match i_kind n with IText | IBreak | IRepos => true | _ => false end.
Definition plain_nodes (l : list inode) : Prop := Forall (fun n => plain_node n = true) l.

Ltac plain_ind l :=
  let n := fresh "n" in let IH := fresh "IH" in let Hn := fresh "Hn" in let F := fresh "F" in
  induction l as [|n l IH]; intros F; [reflexivity|];
  inversion F as [|? ? Hn F']; subst; specialize (IH F');
  destruct n as [[] tx ps]; try discriminate Hn.

Lemma plain_skip_initial_off : forall l b, plain_nodes l -> skip_initial_off l b = l.
Proof. intros l b. revert l. intros l. plain_ind l; cbn; rewrite IH; reflexivity. Qed.

Lemma plain_skip_redundant : forall l st, plain_nodes l -> skip_redundant l st = l.
Proof. intros l st. plain_ind l; cbn; rewrite IH; reflexivity. Qed.

Lemma plain_close_before_repos : forall l, plain_nodes l -> close_before_repos l None = l.
Proof. intros l. plain_ind l; cbn; rewrite IH; reflexivity. Qed.

Lemma plain_final_on_pos : forall l, plain_nodes l -> final_on_pos l None = None.
Proof. intros l. plain_ind l; cbn; exact IH. Qed.

Lemma plain_remove_on_off : forall l, plain_nodes l -> remove_on_off l None = l.
Proof. intros l. plain_ind l; cbn; rewrite IH; reflexivity. Qed.

Lemma plain_remove_off_on : forall l, plain_nodes l -> remove_off_on l None = l.
Proof. intros l. plain_ind l; cbn; rewrite IH; reflexivity. Qed.

Lemma strip_line_ends_id : forall l, Forall (fun n => rstrip_node n = n) l -> strip_line_ends l = l.
Proof.
  induction l as [|n l IH]; intros F; [reflexivity|]. inversion F as [|? ? Hn F']; subst. specialize (IH F').
  cbn [strip_line_ends]. rewrite IH. destruct (is_text n && next_plain_is_sep l); [rewrite Hn|]; reflexivity.
Qed.

Lemma format_plain : forall l, plain_nodes l -> Forall (fun n => rstrip_node n = n) l -> format_italics l = skip_empty_text l.
Proof.
  intros l Hp Hr. unfold format_italics. rewrite (plain_skip_initial_off l false Hp).
  assert (Hp' : plain_nodes (skip_empty_text l)).
  { unfold plain_nodes, skip_empty_text in *. rewrite Forall_forall in *. intros n Hn. apply filter_In in Hn. apply Hp, Hn. }
  assert (Hr' : Forall (fun n => rstrip_node n = n) (skip_empty_text l)).
  { unfold skip_empty_text. rewrite Forall_forall in *. intros n Hn. apply filter_In in Hn. apply Hr, Hn. }
  rewrite (plain_skip_redundant _ None Hp'), (plain_close_before_repos _ Hp').
  unfold ensure_final_closes. rewrite (plain_final_on_pos _ Hp').
  rewrite (plain_remove_on_off _ Hp'), (plain_remove_off_on _ Hp'). apply strip_line_ends_id. exact Hr'.
Qed.

(* the caption creator ignores empty text nodes *)
Lemma build_skip_empty : forall l s e done cur,
  build_captions (skip_empty_text l) s e done cur = build_captions l s e done cur.
Proof.
  induction l as [|n l IH]; intros s e done cur; [reflexivity|].
  unfold skip_empty_text in *. cbn [filter]. destruct n as [k tx ps]. unfold is_text. cbn [i_kind i_text].
  destruct k; cbn [andb negb]; try (cbn [build_captions i_kind]; apply IH).
  destruct tx as [|c tx]; cbn [nonempty negb]; cbn [build_captions i_kind i_text nonempty]; apply IH.
Qed.

Lemma nonempty_true : forall s : str, s <> [] -> nonempty s = true.
Proof. intros [|c s] H; [congruence|reflexivity]. Qed.

Lemma build_tail : forall t1 t2 t, Forall (fun r => basic_row r = true) t -> forall e lastrow done, e_lines e <> [] ->
  build_captions (tail_nodes t (e_row e, e_col e) lastrow) t1 t2 done (cap_of t1 t2 e)
  = done ++ map (cap_of t1 t2) (group_rows t (Some (e, lastrow))).
Proof.
  intros t1 t2 t F. induction F as [|r t Hrow F IH]; intros e lastrow done He; [reflexivity|].
  destruct (basic_row_good r Hrow) as (_ & Hlt & _). destruct (basic_row_facts r Hrow) as (_ & _ & _ & _ & _ & _ & _ & Hne & _).
  cbn [tail_nodes group_rows]. destruct (rw_row r =? lastrow + 1).
  - cbn [build_captions i_kind i_text i_pos]. rewrite (nonempty_true _ Hne).
    specialize (IH (mkE (e_row e) (e_col e) (e_lines e ++ [cells_of r])) (rw_row r) done).
    cbn [e_row e_col e_lines] in IH. rewrite <- IH.
    + f_equal. unfold cap_of, add_node. cbn [pc_start pc_end pc_nodes pc_layout e_row e_col e_lines].
      rewrite (lines_nodes_snoc _ _ _ He), Hlt, <- app_assoc. reflexivity.
    + intros E. apply app_eq_nil in E. destruct E as [_ E]. discriminate.
  - cbn [build_captions i_kind i_text i_pos nonempty]. rewrite (nonempty_true _ Hne).
    specialize (IH (mkE (rw_row r) (rw_indent r + rw_tab r) [cells_of r]) (rw_row r) (done ++ [cap_of t1 t2 e])).
    cbn [e_row e_col e_lines] in IH. cbn [map]. 
    replace (done ++ cap_of t1 t2 e :: map (cap_of t1 t2) (group_rows t (Some (mkE (rw_row r) (rw_indent r + rw_tab r) [cells_of r], rw_row r))))
      with ((done ++ [cap_of t1 t2 e]) ++ map (cap_of t1 t2) (group_rows t (Some (mkE (rw_row r) (rw_indent r + rw_tab r) [cells_of r], rw_row r))))
      by (rewrite <- app_assoc; reflexivity).
    rewrite <- IH by discriminate. f_equal. unfold cap_of, row_pos. cbn [pc_start pc_end pc_nodes e_row e_col e_lines lines_nodes app].
    rewrite Hlt. reflexivity.
Qed.

Lemma build_load : forall t1 t2 r t, basic_row r = true -> Forall (fun r => basic_row r = true) t ->
  build_captions (load_nodes (r :: t)) t1 t2 [] (mkPre t1 t2 [] None) = map (cap_of t1 t2) (expected_load (r :: t)).
Proof.
  intros t1 t2 r t Hrow F. destruct (basic_row_good r Hrow) as (_ & Hlt & _).
  destruct (basic_row_facts r Hrow) as (_ & _ & _ & _ & _ & _ & _ & Hne & _).
  unfold expected_load. cbn [load_nodes group_rows build_captions i_kind i_text i_pos]. rewrite (nonempty_true _ Hne).
  pose proof (build_tail t1 t2 t F (mkE (rw_row r) (rw_indent r + rw_tab r) [cells_of r]) (rw_row r) []) as B.
  cbn [e_row e_col e_lines app] in B. rewrite <- B by discriminate. f_equal.
  unfold cap_of, row_pos. cbn [pc_start pc_end pc_nodes e_row e_col e_lines lines_nodes app]. rewrite Hlt. reflexivity.
Qed.

Lemma tail_nodes_plain : forall t, Forall (fun r => basic_row r = true) t -> forall cur lastrow,
  plain_nodes (tail_nodes t cur lastrow) /\ Forall (fun n => rstrip_node n = n) (tail_nodes t cur lastrow).
Proof.
  intros t F. induction F as [|r t Hrow F IH]; intros cur lastrow; [split; constructor|].
  destruct (row_text_facts r Hrow) as [Hrs _]. cbn [tail_nodes].
  assert (Ht : forall p, rstrip_node (mkI IText (row_text r) p) = mkI IText (row_text r) p).
  { intros p. unfold rstrip_node. cbn [i_kind i_text i_pos]. rewrite Hrs. reflexivity. }
  destruct (rw_row r =? lastrow + 1).
  - destruct (IH cur (rw_row r)) as [I1 I2]. split; repeat (constructor; [first [reflexivity|apply Ht]|]); assumption.
  - destruct (IH (row_pos r) (rw_row r)) as [I1 I2]. split; repeat (constructor; [first [reflexivity|apply Ht]|]); assumption.
Qed.

Lemma stash_extend0 : forall items, stash_extend stash0 items = mkStash (filter has_nodes items) (length (filter has_nodes items)).
Proof. intros items. unfold stash_extend. destruct (filter has_nodes items); reflexivity. Qed.

Lemma has_nodes_caps : forall t1 t2 es, Forall good_ecap es -> filter has_nodes (map (cap_of t1 t2) es) = map (cap_of t1 t2) es.
Proof.
  intros t1 t2 es F. induction F as [|e es (_ & _ & He & _) F IH]; [reflexivity|].
  cbn [map filter]. rewrite IH. unfold has_nodes, cap_of. cbn [pc_nodes].
  destruct (e_lines e) as [|a [|b ls]]; [congruence|reflexivity|reflexivity].
Qed.

Lemma store_load : forall t1 t2 r t, basic_row r = true -> Forall (fun r => basic_row r = true) t ->
  create_and_store stash0 (mkCr (load_nodes (r :: t)) SNone) t1 t2
  = mkStash (map (cap_of t1 t2) (expected_load (r :: t))) (length (expected_load (r :: t))).
Proof.
  intros t1 t2 r t Hrow F. destruct (basic_row_facts r Hrow) as (_ & _ & _ & _ & _ & _ & _ & Hne & _).
  destruct (row_text_facts r Hrow) as [Hrs _]. destruct (tail_nodes_plain t F (row_pos r) (rw_row r)) as [P1 P2].
  unfold create_and_store.
  assert (E : cr_is_empty (mkCr (load_nodes (r :: t)) SNone) = false).
  { unfold cr_is_empty. cbn [cr_nodes load_nodes existsb i_text]. destruct (row_text r); [congruence|reflexivity]. }
  rewrite E. cbn [cr_nodes]. rewrite format_plain.
  - rewrite build_skip_empty, (build_load t1 t2 r t Hrow F), stash_extend0.
    rewrite (has_nodes_caps t1 t2 _ (expected_load_good r t Hrow F)), map_length. reflexivity.
  - cbn [load_nodes]. constructor; [reflexivity|exact P1].
  - cbn [load_nodes]. constructor; [|exact P2]. unfold rstrip_node. cbn [i_kind i_text i_pos]. rewrite Hrs. reflexivity.
Qed.

(* ---- 10. the end of read: length scan, flash scan, fix_last ------------------------------------------------------- *)
Lemma split_sep : forall sep s rest cur, (forall c, In c s -> c <> sep) ->
  split_ch_aux sep (s ++ sep :: rest) cur = (rev cur ++ s) :: split_ch_aux sep rest [].
Proof.
  intros sep. induction s as [|c s IH]; intros rest cur H.
  - cbn [app split_ch_aux]. rewrite Z.eqb_refl, app_nil_r. reflexivity.
  - cbn [app split_ch_aux]. destruct (Z.eqb_spec c sep) as [E|_]; [exfalso; exact (H c (or_introl eq_refl) E)|].
    rewrite IH by (intros x Hx; apply H; right; exact Hx). cbn [rev]. rewrite <- app_assoc. reflexivity.
Qed.

Lemma good_line_text : forall cs, good_line cs ->
  line_text cs <> [] /\ (length (line_text cs) <= 32)%nat /\ ~ In 10 (line_text cs) /\ cs = map (fun c => Cell c false) (line_text cs).
Proof. intros cs (s & -> & H1 & H2 & H3). rewrite line_text_plain. auto. Qed.

Lemma cap_lines : forall p ls, ls <> [] -> Forall good_line ls ->
  split_ch 10 (concat (map node_text (lines_nodes p ls))) = map line_text ls.
Proof.
  intros p. induction ls as [|a ls IH]; intros Hne F; [congruence|].
  inversion F as [|? ? Ha F']; subst. destruct (good_line_text a Ha) as (_ & _ & Hn & _).
  assert (Hs : forall c, In c (line_text a) -> c <> 10) by (intros c Hc E; subst; exact (Hn Hc)).
  destruct ls as [|b ls].
  - cbn [lines_nodes map concat node_text]. rewrite app_nil_r. unfold split_ch. rewrite (split_no_sep _ _ _ Hs). reflexivity.
  - change (lines_nodes p (a :: b :: ls)) with (CText (line_text a) p :: CBreak p :: lines_nodes p (b :: ls)).
    cbn [map concat node_text app]. unfold split_ch in *. rewrite (split_sep _ _ _ _ Hs). cbn [rev app].
    rewrite IH; [reflexivity|discriminate|exact F'].
Qed.

Lemma caps_not_long : forall t1 t2 es, Forall good_ecap es -> offending (map to_lcap (map (cap_of t1 t2) es)) = [].
Proof.
  intros t1 t2 es F. unfold offending. induction F as [|e es (_ & _ & He & Hl) F IH]; [reflexivity|].
  cbn [map concat]. rewrite IH, app_nil_r. unfold to_lcap, cap_text, cap_of. cbn [snd pc_nodes]. unfold spec_lines.
  rewrite (cap_lines _ _ He Hl). clear -Hl. induction Hl as [|a ls Ha Hl IH]; [reflexivity|].
  cbn [map filter]. destruct (good_line_text a Ha) as (_ & Hlen & _). unfold spec_long at 1.
  replace (32 <? Z.of_nat (length (line_text a))) with false by lia. exact IH.
Qed.

Lemma finish_caps : forall t1 t2 es n, es <> [] -> Forall good_ecap es ->
  Qeq_bool t2 0 = false -> is_flash (mkPre t1 t2 [] None) = false ->
  finish_read (mkStash (map (cap_of t1 t2) es) n) = ROk (map (cap_of t1 t2) es).
Proof.
  intros t1 t2 es n Hne F Hz Hfl. unfold finish_read. cbn [st_caps].
  assert (Hlc : length_check (map to_lcap (map (cap_of t1 t2) es)) = None)
    by (apply length_check_none_iff; apply caps_not_long; exact F).
  rewrite Hlc.
  assert (Hf : existsb is_flash (map (cap_of t1 t2) es) = false).
  { clear -Hfl. induction es as [|e es IH]; [reflexivity|]. cbn [map existsb]. rewrite IH.
    change (is_flash (cap_of t1 t2 e)) with (is_flash (mkPre t1 t2 [] None)). rewrite Hfl. reflexivity. }
  rewrite Hf. destruct es as [|e es]; [congruence|]. cbn [map]. rewrite fix_last_ended; [reflexivity|].
  intros c Hc. change (cap_of t1 t2 e :: map (cap_of t1 t2) es) with (map (cap_of t1 t2) (e :: es)) in Hc.
  apply in_map_iff in Hc. destruct Hc as (e' & <- & _). exact Hz.
Qed.

Lemma group_rows_nonempty : forall t e lr, group_rows t (Some (e, lr)) <> [].
Proof.
  induction t as [|a t IH]; intros e lr; cbn [group_rows]; [discriminate|]. destruct (rw_row a =? lr + 1); [apply IH|discriminate].
Qed.

Lemma expected_load_nonempty : forall r t, expected_load (r :: t) <> [].
Proof. intros r t. unfold expected_load. cbn [group_rows]. apply group_rows_nonempty. Qed.

(* ---- 11. the read-level theorem ---------------------------------------------------------------------------------------- *)
Theorem popon_stage3_read : forall d l off tc tc2 t1 t2, basic_load l = true ->
  get_time tc (Z.of_nat (length (emit_load d l)) - (if d then 2 else 1)) off = Ok t1 ->
  get_time tc2 0 off = Ok t2 -> Qeq_bool t2 0 = false -> is_flash (mkPre t1 t2 [] None) = false ->
  read off [(tc, emit_load d l); (tc2, emit_clear d)] = ROk (map (cap_of t1 t2) (expected_load l)).
Proof.
  intros d l off tc tc2 t1 t2 H Hg1 Hg2 Hz Hfl.
  destruct (stage3_state d l off tc None t1 H Hg1) as (tk & lc & ds & E & Hl).
  destruct (basic_load_parts l H) as (r & rest & -> & Hrow & Frest & _).
  destruct (edm_run d stash0 tk lc ds creator0 creator0 (mkCr (load_nodes (r :: rest)) SNone) t1 t1 tc2 0 off t2 Hl Hg2)
    as (l' & ds' & fr' & E2).
  assert (S1 : translate_line (rstate0 off) (tc, emit_load d (r :: rest))
               = translate_words (start_state off tc) (emit_load d (r :: rest))) by reflexivity.
  rewrite tws_words, E in S1.
  unfold read, run_lines. cbn [fold_left]. rewrite S1. unfold translate_line, set_clock.
  cbn [r_err fst snd r_stash r_tk r_last r_dstart r_pop r_paint r_roll r_active r_queue r_time r_tc r_frames r_offset].
  unfold emit_clear. rewrite E2. cbn [r_err flush_implicit r_active r_queue r_stash].
  rewrite (store_load t1 t2 r rest Hrow Frest).
  apply finish_caps; [apply expected_load_nonempty|exact (expected_load_good r rest Hrow Frest)|exact Hz|exact Hfl].
Qed.

(* ---- 12. the captions returned, observed as the harness observes them, satisfy the oracle ------------------------ *)
Fixpoint lines_onodes (ls : list (list cell)) : list onode :=
  match ls with
  | [] => []
  | [l] => [OText (line_text l)]
  | l :: t => OText (line_text l) :: OBreak :: lines_onodes t
  end.
Definition onodes_of (e : ecap) : list onode := lines_onodes (e_lines e).
Definition ocap_of (t1 t2 : Q) (e : ecap) : ocap :=
  mkO t1 t2 (onodes_of e) (Some (layout_of_pos (e_row e, e_col e))).

(* the observation of a pre-caption: node kinds and texts, layout of the caption's address *)
Definition onode_of (n : cnode) : onode :=
  match n with CText s _ => OText s | CBreak _ => OBreak | CStyle b _ => OStyle b end.
Definition observe (c : precap) : ocap :=
  mkO (pc_start c) (pc_end c) (map onode_of (pc_nodes c)) (option_map layout_of_pos (pc_layout c)).

Lemma observe_cap_of : forall t1 t2 e, observe (cap_of t1 t2 e) = ocap_of t1 t2 e.
Proof.
  intros t1 t2 e. unfold observe, cap_of, ocap_of, onodes_of. cbn [pc_start pc_end pc_nodes pc_layout option_map]. f_equal.
  generalize (e_row e, e_col e). intros p. induction (e_lines e) as [|a ls IH]; [reflexivity|].
  destruct ls as [|b ls]; [reflexivity|].
  change (lines_nodes p (a :: b :: ls)) with (CText (line_text a) p :: CBreak p :: lines_nodes p (b :: ls)).
  change (lines_onodes (a :: b :: ls)) with (OText (line_text a) :: OBreak :: lines_onodes (b :: ls)).
  cbn [map onode_of]. rewrite IH. reflexivity.
Qed.

Lemma obs_lines_onodes : forall ls cur, ls <> [] ->
  obs_lines (lines_onodes ls) cur false
  = match ls with
    | [] => []
    | l :: t => (cur ++ map (fun c => (c, false)) (line_text l)) :: map (fun l => map (fun c => (c, false)) (line_text l)) t
    end.
Proof.
  induction ls as [|a ls IH]; intros cur H; [congruence|]. destruct ls as [|b ls]; [reflexivity|].
  change (lines_onodes (a :: b :: ls)) with (OText (line_text a) :: OBreak :: lines_onodes (b :: ls)).
  cbn [obs_lines]. rewrite IH by discriminate. reflexivity.
Qed.

Lemma balanced_onodes : forall ls, balanced (lines_onodes ls) false = true.
Proof.
  induction ls as [|a ls IH]; [reflexivity|]. destruct ls as [|b ls]; [reflexivity|].
  change (lines_onodes (a :: b :: ls)) with (OText (line_text a) :: OBreak :: lines_onodes (b :: ls)).
  cbn [balanced]. exact IH.
Qed.

Lemma match_lines_good : forall ls, Forall good_line ls ->
  match_lines ls (map (fun l => map (fun c => (c, false)) (line_text l)) ls) = true.
Proof.
  intros ls F. induction F as [|a ls Ha F IH]; [reflexivity|]. cbn [map match_lines]. rewrite IH, andb_true_r.
  destruct (good_line_text a Ha) as (_ & _ & _ & E). rewrite E at 1. apply match_line_basic.
Qed.

Lemma cap_ok_good : forall t1 t2 e, good_ecap e -> (t1 < t2)%Q -> cap_ok e (ocap_of t1 t2 e) = true.
Proof.
  intros t1 t2 e (Hr & Hc & Hne & Hl) Hlt.
  assert (Hg : In (e_row e, e_col e) grid_positions) by (apply grid_positions_complete; assumption).
  destruct (layout_linear_exhaustive _ Hg) as (Lx & Ly & _).
  unfold cap_ok, ocap_of, onodes_of. cbn [o_nodes o_xy o_start o_end].
  rewrite (obs_lines_onodes _ [] Hne), balanced_onodes.
  assert (Hm : match_lines (e_lines e)
                 match e_lines e with
                 | [] => []
                 | l :: t => ([] ++ map (fun c => (c, false)) (line_text l)) :: map (fun l => map (fun c => (c, false)) (line_text l)) t
                 end = true).
  { pose proof (match_lines_good _ Hl) as M. destruct (e_lines e); [congruence|exact M]. }
  rewrite Hm. cbn [andb fst snd] in *.
  destruct (layout_of_pos (e_row e, e_col e)) as [x y].
  destruct (layout_608 (e_row e) (e_col e)) as [ex ey]. cbn [fst snd] in Lx, Ly.
  rewrite (q_near9_eq _ _ Lx), (q_near9_eq _ _ Ly).
  destruct (Qle_bool t2 t1) eqn:E; [|reflexivity].
  apply Qle_bool_iff in E. exfalso. exact (Qlt_not_le _ _ Hlt E).
Qed.

Lemma load_ok_caps : forall t1 t2 es, Forall good_ecap es -> (t1 < t2)%Q -> forall span,
  span = None \/ span = Some (t1, t2) ->
  load_ok es (map (ocap_of t1 t2) es) span = Some ([], match es with [] => span | _ => Some (t1, t2) end).
Proof.
  intros t1 t2 es F Hlt. induction F as [|e es He F IH]; intros span Hs; [reflexivity|].
  cbn [map load_ok]. rewrite (cap_ok_good t1 t2 e He Hlt). cbn [andb].
  assert (Hq : match span with
               | Some (s, t) => Qeq_bool s (o_start (ocap_of t1 t2 e)) && Qeq_bool t (o_end (ocap_of t1 t2 e))
               | None => true
               end = true).
  { destruct Hs as [->| ->]; [reflexivity|]. cbn [ocap_of o_start o_end].
    apply andb_true_iff. split; apply Qeq_bool_iff; reflexivity. }
  rewrite Hq. cbn [ocap_of o_start o_end]. rewrite IH by (right; reflexivity). destruct es; reflexivity.
Qed.

Theorem popon_stage3_ok : forall d l t1 t2, basic_load l = true -> (t1 < t2)%Q ->
  ok_c05 (mkProg d [l]) (Ok (map (ocap_of t1 t2) (expected_load l))) = true.
Proof.
  intros d l t1 t2 H Hlt. destruct (basic_load_parts l H) as (r & rest & -> & Hrow & Frest & _).
  unfold ok_c05. cbn [pg_loads loads_ok].
  rewrite (load_ok_caps t1 t2 _ (expected_load_good r rest Hrow Frest) Hlt None (or_introl eq_refl)).
  pose proof (expected_load_nonempty r rest) as Hne. destruct (expected_load (r :: rest)); [congruence|reflexivity].
Qed.

(* what `read` returns, observed, meets the oracle *)
Corollary popon_stage3 : forall d l off tc tc2 t1 t2, basic_load l = true ->
  get_time tc (Z.of_nat (length (emit_load d l)) - (if d then 2 else 1)) off = Ok t1 ->
  get_time tc2 0 off = Ok t2 -> Qeq_bool t2 0 = false -> is_flash (mkPre t1 t2 [] None) = false -> (t1 < t2)%Q ->
  exists caps, read off [(tc, emit_load d l); (tc2, emit_clear d)] = ROk caps /\
               ok_c05 (mkProg d [l]) (Ok (map observe caps)) = true.
Proof.
  intros d l off tc tc2 t1 t2 H Hg1 Hg2 Hz Hfl Hlt. exists (map (cap_of t1 t2) (expected_load l)). split.
  - exact (popon_stage3_read d l off tc tc2 t1 t2 H Hg1 Hg2 Hz Hfl).
  - rewrite map_map. rewrite (map_ext _ _ (observe_cap_of t1 t2)). exact (popon_stage3_ok d l t1 t2 H Hlt).
Qed.

(* ---- 13. the two-row instances spelled out, and a non-vacuity witness ----------------------------------------------- *)
Lemma basic_load_rows : forall l r, basic_load l = true -> In r l -> basic_row r = true.
Proof.
  intros l r H Hi. unfold basic_load in H. apply andb_true_iff in H. destruct H as [_ H].
  exact (proj1 (forallb_forall _ _) H r Hi).
Qed.

(* (a) two rows on consecutive screen rows: one caption with two lines at the address of the first row *)
Corollary popon_stage3_adjacent_read : forall d r1 r2 off tc tc2 t1 t2, basic_load [r1; r2] = true ->
  rw_row r2 = rw_row r1 + 1 ->
  get_time tc (Z.of_nat (length (emit_load d [r1; r2])) - (if d then 2 else 1)) off = Ok t1 ->
  get_time tc2 0 off = Ok t2 -> Qeq_bool t2 0 = false -> is_flash (mkPre t1 t2 [] None) = false ->
  read off [(tc, emit_load d [r1; r2]); (tc2, emit_clear d)]
  = ROk [mkPre t1 t2 [CText (row_text r1) (row_pos r1); CBreak (row_pos r1); CText (row_text r2) (row_pos r1)]
               (Some (row_pos r1))].
Proof.
  intros d r1 r2 off tc tc2 t1 t2 H Hadj Hg1 Hg2 Hz Hfl.
  rewrite (popon_stage3_read d _ off tc tc2 t1 t2 H Hg1 Hg2 Hz Hfl).
  destruct (basic_row_good r1 (basic_load_rows _ r1 H (or_introl eq_refl))) as (_ & E1 & _).
  destruct (basic_row_good r2 (basic_load_rows _ r2 H (or_intror (or_introl eq_refl)))) as (_ & E2 & _).
  unfold expected_load. cbn [group_rows]. rewrite Hadj, Z.eqb_refl. cbn [group_rows map e_row e_col e_lines app].
  unfold cap_of. cbn [e_row e_col e_lines lines_nodes]. rewrite E1, E2. reflexivity.
Qed.

(* (b) two rows that are not on consecutive screen rows (in transmission order): two captions *)
Corollary popon_stage3_apart_read : forall d r1 r2 off tc tc2 t1 t2, basic_load [r1; r2] = true ->
  rw_row r2 <> rw_row r1 + 1 ->
  get_time tc (Z.of_nat (length (emit_load d [r1; r2])) - (if d then 2 else 1)) off = Ok t1 ->
  get_time tc2 0 off = Ok t2 -> Qeq_bool t2 0 = false -> is_flash (mkPre t1 t2 [] None) = false ->
  read off [(tc, emit_load d [r1; r2]); (tc2, emit_clear d)]
  = ROk [mkPre t1 t2 [CText (row_text r1) (row_pos r1)] (Some (row_pos r1));
         mkPre t1 t2 [CText (row_text r2) (row_pos r2)] (Some (row_pos r2))].
Proof.
  intros d r1 r2 off tc tc2 t1 t2 H Hadj Hg1 Hg2 Hz Hfl.
  rewrite (popon_stage3_read d _ off tc tc2 t1 t2 H Hg1 Hg2 Hz Hfl).
  destruct (basic_row_good r1 (basic_load_rows _ r1 H (or_introl eq_refl))) as (_ & E1 & _).
  destruct (basic_row_good r2 (basic_load_rows _ r2 H (or_intror (or_introl eq_refl)))) as (_ & E2 & _).
  unfold expected_load. cbn [group_rows]. replace (rw_row r2 =? rw_row r1 + 1) with false by lia.
  cbn [group_rows map]. unfold cap_of. cbn [e_row e_col e_lines lines_nodes]. rewrite E1, E2. reflexivity.
Qed.

(* the domain is inhabited by loads with several captions of several lines, in any order *)
Definition wit_row (rw ind tab : Z) (s : str) : row := mkRow rw ind tab 0 (map Ch s).
Definition wit_load : load :=
  [wit_row 9 4 1 (lit "AB"); wit_row 10 8 2 (lit "C"); wit_row 3 0 0 (lit "d e"); wit_row 4 12 3 (lit "FG"); wit_row 1 28 0 (lit "h")].
Example wit_load_basic : basic_load wit_load = true /\ map e_row (expected_load wit_load) = [9; 3; 1]
  /\ map (fun e => length (e_lines e)) (expected_load wit_load) = [2; 2; 1]%nat.
Proof. vm_compute. repeat split. Qed.
