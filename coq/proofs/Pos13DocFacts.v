(* C13 (wave 7): down to the text of the DFXP document - with relativization on, every <region> the writer prints reads
   back (C12's reader model of the attribute strings) as a layout whose lengths are all percentages: the printed
   tts:origin / tts:extent / tts:padding strings carry the unit % and nothing else. *)
From Coq Require Import List ZArith QArith Qabs Bool Lia.
From PV Require Import lib.Sx lib.Str lib.Result model.Geometry model.Positioning model.DfxpTree spec.SpecGeom spec.SpecPos.
From PV Require Import proofs.GeomStr proofs.GeomEq proofs.GeomFacts proofs.PosFacts proofs.Pos12Facts proofs.DfxpTreeFacts
                       proofs.Pos12RegionFacts proofs.Pos13InlineFacts.
Import ListNotations.
Open Scope Z_scope.

Lemma unit_eqb_refl_pct : forall a b, s_unit a = s_unit b -> unit_eqb (s_unit a) PCT = unit_eqb (s_unit b) PCT.
Proof. intros a b H. rewrite H. reflexivity. Qed.

(* all_pct looks at units only, and == layouts have the same units *)
Lemma all_pct_equiv : forall a b, layout_equiv a b -> all_pct a = all_pct b.
Proof.
  intros [o e p al w] [o' e' p' al' w'] (Ho & He & Hp & _). cbn [l_origin l_extent l_padding] in *.
  unfold all_pct, sizes_axes. cbn [l_origin l_extent l_padding]. rewrite !forallb_app. f_equal; [|f_equal].
  - destruct o as [x|], o' as [y|]; cbn [opt_rel] in Ho; try contradiction; [|reflexivity].
    destruct Ho as [[_ U1] [_ U2]]. cbn [forallb fst]. rewrite U1, U2. reflexivity.
  - destruct e as [x|], e' as [y|]; cbn [opt_rel] in He; try contradiction; [|reflexivity].
    destruct He as [[_ U1] [_ U2]]. cbn [forallb fst]. rewrite U1, U2. reflexivity.
  - destruct p as [x|], p' as [y|]; cbn [opt_rel] in Hp; try contradiction; [|reflexivity].
    destruct Hp as ([_ U1] & [_ U2] & [_ U3] & [_ U4]). cbn [forallb fst]. rewrite U1, U2, U3, U4. reflexivity.
Qed.

Lemma all_pct_read_back : forall l, all_pct (spec_read_back l) = all_pct l.
Proof.
  intros [o e p al w]. unfold all_pct, sizes_axes, spec_read_back. cbn [l_origin l_extent l_padding].
  destruct o, e, p; reflexivity.
Qed.

Theorem pct_region_reads_pct : forall k, nonneg_layout k -> all_pct k = true ->
  exists r, read_region (layout_attrs k) = Ok r /\ all_pct r = true.
Proof.
  intros k N P. destruct (dfxp_attr_roundtrip k N) as (r & Er & Qr). exists r. split; [exact Er|].
  rewrite (all_pct_equiv _ _ Qr), all_pct_read_back. exact P.
Qed.

(* every <region> of the document written with relativization on: its printed attributes read back in percentages *)
Theorem dfxp_document_regions_percent : forall c s s', w_rel c = true -> dfxp_transform c s = Ok s' ->
  Forall opt_nonneg (written_layouts s') ->
  forall id a, In (id, a) (map (fun kv => (snd kv, layout_attrs (fst kv))) (region_map (written_layouts s'))) ->
  exists r, read_region a = Ok r /\ all_pct r = true.
Proof.
  intros c s s' Hr H NN id a Hin. apply in_map_iff in Hin. destruct Hin as ([k i] & E & Hk). cbn [fst snd] in E. inversion E; subst.
  apply pct_region_reads_pct; [|eapply dfxp_regions_percent; eauto].
  assert (Hkey : In k (map fst (region_map (written_layouts s')))) by (apply in_map_iff; exists (k, id); split; [reflexivity|exact Hk]).
  rewrite region_map_keys in Hkey. apply in_app_or in Hkey. destruct Hkey as [Hkey|[<-|[]]].
  - apply created_keys_occur in Hkey. destruct Hkey as [Hocc _]. rewrite Forall_forall in NN. exact (NN _ Hocc).
  - unfold nonneg_layout. cbn. constructor.
Qed.
