(* C20 own output from the text nodes, WebVTT (wave 7): the document written by model/OwnWrite.v vtt_write is detected
   as WebVTT for EVERY caption set - no hypothesis on the text.  Reason: the writer escapes '<' in text, so every '<'
   of the document opens one of the tags <i> <u> <b> </i> </u> </b>, and "</tt>" cannot occur, also not after
   lower-casing and not through the "-->" replacement that is applied to the accumulated cue text. *)
From Coq Require Import List ZArith Bool Lia ZifyBool.
From PV Require Import lib.Sx lib.Str lib.Result lib.Dec lib.StrSplit model.Generated model.Detect spec.SpecDetect
  spec.SpecOwn model.OwnWrite spec.SpecOwnNodes proofs.DetectFacts proofs.DetectOwnFacts proofs.DetectNodeFacts.
Import ListNotations.
Open Scope Z_scope.
#[local] Ltac Zify.zify_post_hook ::= Z.to_euclidean_division_equations.

(* every '<' is followed by i / u / b, or by '/' and one of them *)
Definition tagc (c : Z) : bool := (c =? 105) || (c =? 117) || (c =? 98).
Definition la (t : str) : bool :=
  match t with
  | [] => false
  | x :: t' => tagc x || ((x =? 47) && match t' with [] => false | y :: _ => tagc y end)
  end.
Fixpoint ltq (s : str) : bool :=
  match s with
  | [] => true
  | c :: t => (if c =? 60 then la t else true) && ltq t
  end.

Lemma la_app : forall t b, la t = true -> la (t ++ b) = true.
Proof.
  intros [|x t'] b H; [discriminate|]. cbn [app la] in *. destruct (tagc x); [reflexivity|]. cbn [orb] in *.
  destruct (x =? 47); [|discriminate]. cbn [andb] in *. destruct t'; [discriminate|exact H].
Qed.

Lemma ltq_app : forall a b, ltq a = true -> ltq b = true -> ltq (a ++ b) = true.
Proof.
  induction a as [|c t IH]; intros b Ha Hb; [exact Hb|].
  cbn [app ltq] in *. apply andb_true_iff in Ha. destruct Ha as [H1 H2]. rewrite (IH b H2 Hb), andb_true_r.
  destruct (c =? 60); [apply la_app; exact H1|reflexivity].
Qed.

Definition no_lt (s : str) : bool := forallb (fun c => negb (c =? 60)) s.

Lemma ltq_no_lt : forall s, no_lt s = true -> ltq s = true.
Proof.
  induction s as [|c t IH]; intros H; [reflexivity|]. cbn [no_lt forallb] in H. apply andb_true_iff in H.
  destruct H as [Hc Ht]. cbn [ltq]. apply negb_true_iff in Hc. rewrite Hc, (IH Ht). reflexivity.
Qed.

Lemma no_lt_app : forall a b, no_lt (a ++ b) = no_lt a && no_lt b.
Proof. intros. unfold no_lt. apply forallb_app. Qed.

Lemma esc_no_lt : forall s, no_lt (flat_map vtt_esc_ch s) = true.
Proof.
  induction s as [|c t IH]; [reflexivity|]. cbn [flat_map]. rewrite no_lt_app, IH, andb_true_r.
  unfold vtt_esc_ch. destruct (c =? 38); [reflexivity|]. destruct (c =? 60) eqn:E; [reflexivity|].
  cbn. rewrite E. reflexivity.
Qed.

(* ---- the "-->" replacement keeps the invariant ---- *)
Lemma replace_arrow_eq : forall s,
  replace vtt_arrow vtt_arrow_esc s = replace_aux (S (length s)) [45; 45; 62] [45; 45; 38; 103; 116; 59] s.
Proof. reflexivity. Qed.

Lemma tagc_not_dash : forall x, tagc x = true -> (45 =? x) = false.
Proof. intros x H. unfold tagc in H. lia. Qed.

Lemma la_replace : forall f t, la t = true ->
  la (replace_aux f [45; 45; 62] [45; 45; 38; 103; 116; 59] t) = true.
Proof.
  intros [|f] t H; [exact H|]. destruct t as [|x t']; [discriminate|].
  cbn [replace_aux is_prefix]. cbn [la] in H.
  destruct (tagc x) eqn:Tx.
  - rewrite (tagc_not_dash x Tx). cbn [andb la]. rewrite Tx. reflexivity.
  - cbn [orb] in H. apply andb_true_iff in H. destruct H as [H47 Hy]. apply Z.eqb_eq in H47. subst x.
    cbn [Z.eqb andb la]. cbn. destruct t' as [|y t'']; [discriminate|].
    destruct f as [|f]; [cbn; exact Hy|].
    cbn [replace_aux is_prefix]. rewrite (tagc_not_dash y Hy). cbn [andb]. exact Hy.
Qed.

Lemma ltq_replace : forall f s, ltq s = true ->
  ltq (replace_aux f [45; 45; 62] [45; 45; 38; 103; 116; 59] s) = true.
Proof.
  induction f as [|f IH]; intros s H; [exact H|].
  destruct s as [|c t]; [reflexivity|]. cbn [replace_aux].
  destruct (is_prefix [45; 45; 62] (c :: t)) eqn:E.
  - destruct t as [|c2 [|c3 t3]]; cbn [is_prefix] in E; try (rewrite ?andb_false_r in E; discriminate).
    cbn [length skipn].
    assert (Hc : c = 45 /\ c2 = 45 /\ c3 = 62) by lia. destruct Hc as [-> [-> ->]].
    cbn in H. change ([45; 45; 38; 103; 116; 59] ++ replace_aux f [45; 45; 62] [45; 45; 38; 103; 116; 59] t3)
      with (45 :: 45 :: 38 :: 103 :: 116 :: 59 :: replace_aux f [45; 45; 62] [45; 45; 38; 103; 116; 59] t3).
    cbn [ltq Z.eqb andb]. cbn. apply IH. exact H.
  - cbn [ltq] in *. apply andb_true_iff in H. destruct H as [H1 H2]. rewrite (IH t H2), andb_true_r.
    destruct (c =? 60); [apply la_replace; exact H1|reflexivity].
Qed.

Lemma ltq_replace_arrow : forall s, ltq s = true -> ltq (replace vtt_arrow vtt_arrow_esc s) = true.
Proof. intros s H. rewrite replace_arrow_eq. apply ltq_replace. exact H. Qed.

Lemma vtt_encode_ltq : forall s, ltq (vtt_encode s) = true.
Proof. intros s. unfold vtt_encode. apply ltq_replace_arrow. apply ltq_no_lt. apply esc_no_lt. Qed.

Lemma vtt_tags_ltq : forall st i u b, ltq (vtt_tags st i u b) = true.
Proof. intros [|] [|] [|] [|]; reflexivity. Qed.

Lemma vtt_nodes_ltq : forall nodes s first prev, ltq s = true -> ltq (vtt_nodes s first prev nodes) = true.
Proof.
  induction nodes as [|n r IH]; intros s first prev H; [exact H|].
  destruct n as [t| |st i u b]; cbn [vtt_nodes].
  - apply IH. apply ltq_replace_arrow. apply ltq_app; [exact H|].
    pose proof (vtt_encode_ltq t) as He. destruct (vtt_encode t); [reflexivity|exact He].
  - apply IH. apply ltq_app; [exact H|]. destruct first, prev; reflexivity.
  - apply IH. apply ltq_app; [exact H|apply vtt_tags_ltq].
Qed.

(* ---- timestamps ---- *)
Lemma time_no_lt : forall s, forallb time_char s = true -> no_lt s = true.
Proof.
  intros s. unfold no_lt. apply forallb_impl. intros c H. unfold time_char, is_digit in H. lia.
Qed.

Lemma vtt_timestamp_class : forall us, forallb time_char (vtt_timestamp us) = true.
Proof.
  intros us. unfold vtt_timestamp. pose proof (td_seconds_range us) as Hs. pose proof (td_millis_range us) as Hm.
  set (s := td_seconds us) in *. set (ms := td_millis us) in *. cbv zeta.
  assert (R : forallb time_char (two ((s / 60) mod 60) ++ [58] ++ two (s mod 60) ++ [46] ++ three ms) = true).
  { rewrite !forallb_app.
    rewrite (digits_time _ (two_digits ((s / 60) mod 60) ltac:(lia))).
    rewrite (digits_time _ (two_digits (s mod 60) ltac:(lia))).
    rewrite (digits_time _ (three_digits ms ltac:(lia))). reflexivity. }
  destruct (s / 60 / 60 =? 0); [exact R|].
  rewrite forallb_app, (digits_time _ (two_digits (s / 60 / 60) ltac:(lia))). cbn [andb].
  rewrite forallb_app. cbn [forallb andb]. exact R.
Qed.

Lemma vtt_timespan_ltq : forall c, ltq (vtt_timespan c) = true.
Proof.
  intros c. apply ltq_no_lt. apply time_no_lt. unfold vtt_timespan.
  rewrite !forallb_app, !vtt_timestamp_class. reflexivity.
Qed.

(* ---- the document ---- *)
Lemma vtt_caption_ltq : forall c, ltq (vtt_caption c) = true.
Proof.
  intros c. unfold vtt_caption. pose proof (vtt_nodes_ltq (oc_nodes c) [] true false eq_refl) as H.
  fold (vtt_cue_text c) in H. destruct (vtt_cue_text c) as [|x s]; [reflexivity|].
  apply ltq_app; [apply vtt_timespan_ltq|]. apply (ltq_app [10]); [reflexivity|].
  apply ltq_app; [exact H|reflexivity].
Qed.

Lemma join_ltq : forall l, (forall p, In p l -> ltq p = true) -> ltq (join [10] l) = true.
Proof.
  induction l as [|a t IH]; intros H; [reflexivity|]. destruct t as [|b t'].
  - apply H. left. reflexivity.
  - rewrite join_cons2. apply ltq_app; [apply H; left; reflexivity|].
    apply (ltq_app [10]); [reflexivity|]. apply IH. intros p Hp. apply H. right. exact Hp.
Qed.

Lemma vtt_write_shape : forall langs, exists body, vtt_write langs = vtt_header ++ body /\ ltq body = true.
Proof.
  intros langs. unfold vtt_write. destruct (forallb _ langs).
  - exists []. rewrite app_nil_r. split; reflexivity.
  - eexists. split; [reflexivity|]. apply join_ltq. intros p Hp. apply in_map_iff in Hp.
    destruct Hp as [c [<- _]]. apply vtt_caption_ltq.
Qed.

(* ---- lower-casing keeps the invariant ---- *)
Definition lower_images_ok : bool :=
  forallb (fun kv => negb (fst kv =? 60) && negb (tagc (fst kv)) && negb (fst kv =? 47) && no_lt (snd kv)) lower_ascii_map.
Lemma lower_images_ok_true : lower_images_ok = true.
Proof. vm_compute. reflexivity. Qed.

Lemma assoc_in : forall c m l, assoc c m = Some l -> In (c, l) m.
Proof.
  induction m as [|[k v] t IH]; intros l H; [discriminate|]. cbn [assoc] in H.
  destruct (k =? c) eqn:E; [apply Z.eqb_eq in E; subst; injection H as <-; left; reflexivity|right; apply IH; exact H].
Qed.

Lemma u_lower_ch_cases : forall c,
  u_lower_ch c = [c] \/ ((c =? 60) = false /\ tagc c = false /\ (c =? 47) = false /\ no_lt (u_lower_ch c) = true).
Proof.
  intros c. unfold u_lower_ch. destruct (assoc c lower_ascii_map) as [l|] eqn:E; [right|left; reflexivity].
  apply assoc_in in E. pose proof lower_images_ok_true as H. unfold lower_images_ok in H.
  rewrite forallb_forall in H. specialize (H _ E). cbn [fst snd] in H.
  apply andb_true_iff in H. destruct H as [H H4]. apply andb_true_iff in H. destruct H as [H H3].
  apply andb_true_iff in H. destruct H as [H1 H2].
  apply negb_true_iff in H1, H2, H3. repeat split; assumption.
Qed.

Lemma la_lower : forall t, la t = true -> la (u_lower t) = true.
Proof.
  intros [|x t'] H; [discriminate|]. rewrite u_lower_cons. cbn [la] in H.
  destruct (u_lower_ch_cases x) as [E|[_ [Tx [H47 _]]]].
  - rewrite E. cbn [app la]. destruct (tagc x); [reflexivity|]. cbn [orb] in *.
    destruct (x =? 47); [|discriminate]. cbn [andb] in *.
    destruct t' as [|y t'']; [discriminate|]. rewrite u_lower_cons.
    destruct (u_lower_ch_cases y) as [Ey|[_ [Ty _]]]; [rewrite Ey; exact H|rewrite Ty in H; discriminate].
  - rewrite Tx, H47 in H. discriminate.
Qed.

Lemma ltq_lower : forall s, ltq s = true -> ltq (u_lower s) = true.
Proof.
  induction s as [|c t IH]; intros H; [reflexivity|]. rewrite u_lower_cons. cbn [ltq] in H.
  apply andb_true_iff in H. destruct H as [H1 H2]. specialize (IH H2).
  destruct (u_lower_ch_cases c) as [E|[H60 [_ [_ Hn]]]].
  - rewrite E. cbn [app ltq]. rewrite IH, andb_true_r. destruct (c =? 60); [apply la_lower; exact H1|reflexivity].
  - apply ltq_app; [apply ltq_no_lt; exact Hn|exact IH].
Qed.

Lemma ltq_no_dfxp : forall s, ltq s = true -> is_infix dfxp_marker s = false.
Proof.
  induction s as [|c t IH]; intros H; [reflexivity|]. cbn [ltq] in H. apply andb_true_iff in H. destruct H as [H1 H2].
  rewrite is_infix_cons, (IH H2), orb_false_r.
  change dfxp_marker with [60; 47; 116; 116; 62]. cbn [is_prefix].
  destruct (60 =? c) eqn:E; [|reflexivity]. apply Z.eqb_eq in E. subst c. cbn [Z.eqb] in H1. cbn [andb].
  destruct t as [|x [|y t']]; try reflexivity.
  - cbn. apply andb_false_r.
  - cbn [is_prefix]. cbn [la] in H1.
    destruct (47 =? x) eqn:E1; [|reflexivity]. apply Z.eqb_eq in E1. subst x.
    destruct (116 =? y) eqn:E2; [|reflexivity]. apply Z.eqb_eq in E2. subst y. discriminate.
Qed.

Theorem own_nodes_vtt : forall langs, detect_format (vtt_write langs) = Ok (Some R_VTT).
Proof.
  intros langs. destruct (vtt_write_shape langs) as [body [Hs Hb]]. rewrite Hs.
  assert (Hd : has dfxp_marker true (vtt_header ++ body) = false).
  { unfold has. apply ltq_no_dfxp. apply ltq_lower. apply ltq_app; [reflexivity|exact Hb]. }
  rewrite detect_format_cascade by discriminate.
  cbn [first_match detect_of].
  rewrite detect_dfxp_has, Hd. cbn [bind].
  assert (Hmd : detect_mdvd (vtt_header ++ body) = Ok false) by reflexivity.
  rewrite Hmd. cbn [bind].
  rewrite detect_vtt_has. unfold has, vtt_header. rewrite <- app_assoc.
  change (lit "WEBVTT") with vtt_marker. rewrite is_infix_self_app. reflexivity.
Qed.

(* ---------------- DFXP / SAMI skeletons ---------------- *)
(* a document that contains the closing tag of the root element, in any case, is DFXP: nothing is probed earlier *)
Theorem own_dfxp_skeleton : forall pre post, detect_format (dfxp_document pre post) = Ok (Some R_DFXP).
Proof.
  intros pre post. unfold dfxp_document. rewrite detect_format_cascade by (destruct pre; discriminate).
  cbn [first_match detect_of]. rewrite detect_dfxp_has.
  assert (H : has dfxp_marker true (pre ++ dfxp_marker ++ post) = true).
  { unfold has. rewrite !u_lower_app. apply is_infix_app_r. change (u_lower dfxp_marker) with dfxp_marker.
    apply is_infix_self_app. }
  rewrite H. reflexivity.
Qed.

(* a document that opens with the <sami root tag and carries neither "</tt>" nor "WEBVTT" is SAMI *)
Theorem own_sami_skeleton : forall rest, free before_sami (sami_document rest) = true ->
  detect_format (sami_document rest) = Ok (Some R_SAMI).
Proof.
  intros rest H. pose proof (proj1 (free_spec _ _) H) as F.
  rewrite detect_format_cascade by discriminate.
  cbn [first_match detect_of].
  rewrite detect_dfxp_has, (F dfxp_marker true (or_introl eq_refl)). cbn [bind].
  assert (Hmd : detect_mdvd (sami_document rest) = Ok false) by reflexivity.
  rewrite Hmd. cbn [bind].
  rewrite detect_vtt_has, (F vtt_marker false (or_intror (or_introl eq_refl))). cbn [bind].
  rewrite detect_sami_has. unfold has, sami_document. rewrite u_lower_app.
  change (u_lower sami_marker) with sami_marker. rewrite is_infix_self_app. reflexivity.
Qed.
