(* C04 end to end, WebVTT, on the models: for abstract cue content in the domain below,
     node_lines (read_vtt true items) = display items
   where read_vtt = the reader model (vtt_decode per line: strip, VOICE_SPAN_PATTERN.sub, OTHER_SPAN_PATTERN.sub, the
   replace chain) applied to the SPEC serialisation.  Composition of: vtt_voice_tag (voice), vtt_tags_by_name (known /
   unknown tags), vtt_entities_once (references decoded once). *)
From Coq Require Import List ZArith Bool Lia.
From PV Require Import lib.Sx lib.Str model.TextNodes model.TextRead.
From PV Require Import spec.SpecTextLines spec.SpecTextRead proofs.TextLinesFacts proofs.TextBlocksFacts proofs.TextStrFacts.
From PV Require Import proofs.TextReadVttFacts proofs.TextReadVttTagFacts proofs.TextReadEndFacts.
Import ListNotations.
Open Scope Z_scope.

Notation prender := TextReadVttFacts.render.
Notation srender := TextReadVttTagFacts.render.
Notation sdisplay := TextReadVttTagFacts.display.

(* ---- one source line as a list of tokens ------------------------------------------------------------------ *)
Inductive ltok : Type :=
| LText (ps : list piece)
| LKnown (b : str)
| LUnk (b : str)
| LVoice (cls : list str) (pn : list piece).

Definition no_ch_piece (x : Z) (p : piece) : bool :=
  match p with PRaw c => negb (c =? x) | PEnt n => forallb (fun c => negb (c =? x)) n end.
Definition vsafe (b : str) : bool :=
  match b with c :: r => if c =? 118 then forallb (fun c => negb (c =? 32)) r else true | [] => true end.
Definition ltok_ok (t : ltok) : bool :=
  match t with
  | LText ps => forallb piece_ok ps && forallb (no_ch_piece 60) ps
  | LKnown b => tag_body b && vsafe b
  | LUnk b => unknown_body b && vsafe b && forallb (fun c => negb (c =? 38)) b
  | LVoice cls pn => forallb class_ok cls && forallb piece_ok pn && forallb (no_ch_piece 60) pn && forallb (no_ch_piece 62) pn
  end.
Definition lrender (t : ltok) : str :=
  match t with
  | LText ps => prender ps
  | LKnown b => 60 :: b ++ [62]
  | LUnk b => 60 :: b ++ [62]
  | LVoice cls pn => lit "<v" ++ dotted cls ++ lit " " ++ prender pn ++ lit ">"
  end.
Definition lrender_all (l : list ltok) : str := flat_map lrender l.
Definition seg1 (t : ltok) : vseg :=
  match t with
  | LText ps => SText (prender ps)
  | LKnown b => SKnown b
  | LUnk b => SUnknown b
  | LVoice _ pn => SText (prender pn ++ lit ": ")
  end.
Definition lpieces (t : ltok) : list piece :=
  match t with
  | LText ps => ps
  | LKnown _ => []
  | LUnk b => map PRaw (60 :: b ++ [62])
  | LVoice _ pn => pn ++ [PRaw 58; PRaw 32]
  end.

(* ---- rendering facts ---------------------------------------------------------------------------------------- *)
Lemma prender_app : forall a b, prender (a ++ b) = prender a ++ prender b.
Proof. intros. unfold prender. apply flat_map_app. Qed.
Lemma prender_raw : forall s, prender (map PRaw s) = s.
Proof. induction s as [|c s IH]; [reflexivity|]. cbn. unfold prender in IH. rewrite IH. reflexivity. Qed.
Lemma prender_no_ch : forall x ps, x <> 38 -> x <> 59 -> forallb (no_ch_piece x) ps = true ->
  forallb (fun c => negb (c =? x)) (prender ps) = true.
Proof.
  intros x ps H1 H2. induction ps as [|p ps IH]; intros H; [reflexivity|].
  cbn [forallb] in H. apply andb_true_iff in H. destruct H as [Hp Hps].
  unfold prender in *. cbn [flat_map]. rewrite forallb_app, (IH Hps), andb_true_r.
  destruct p as [c|n]; cbn [render_piece no_ch_piece forallb] in *.
  - rewrite Hp. reflexivity.
  - rewrite forallb_app, Hp. cbn [forallb]. destruct (Z.eqb_spec 38 x); [congruence|]. destruct (Z.eqb_spec 59 x); [congruence|]. reflexivity.
Qed.

(* ---- stage 1: VOICE_SPAN_PATTERN.sub ---------------------------------------------------------------------------- *)
Lemma voice_sub_nil : forall f, voice_sub_aux f [] = [].
Proof. destruct f; reflexivity. Qed.

Lemma voice_text : forall s f R, forallb (fun c => negb (c =? 60)) s = true ->
  voice_sub_aux (length s + f) (s ++ R) = s ++ voice_sub_aux f R.
Proof.
  induction s as [|c s IH]; intros f R H; [reflexivity|].
  cbn [forallb] in H. apply andb_true_iff in H. destruct H as [Hc Hs].
  cbn [length Nat.add app voice_sub_aux]. destruct (c =? 60); [discriminate|]. rewrite IH by exact Hs. reflexivity.
Qed.

(* one step of (\.\w+)* on a symbolic first character *)
Lemma voice_classes_step : forall f a s,
  voice_classes (S f) (a :: s) =
  if a =? 46 then match s with
                  | c :: t => if is_word c then voice_classes f (drop_while is_word (c :: t)) else a :: s
                  | [] => a :: s
                  end
  else a :: s.
Proof.
  intros f a s. destruct (Z.eqb_spec a 46) as [->|N].
  - destruct s; reflexivity.
  - destruct a as [|p|p]; try reflexivity.
    do 6 (try (destruct p as [p|p|]; try reflexivity)). exfalso. apply N. reflexivity.
Qed.

Lemma drop_while_word_gt : forall x R, drop_while is_word (x ++ 62 :: R) = drop_while is_word x ++ 62 :: R.
Proof.
  induction x as [|c x IH]; intros R; [reflexivity|]. cbn [app drop_while]. destruct (is_word c); [apply IH|reflexivity].
Qed.
Lemma forallb_drop_while : forall (P f : Z -> bool) s, forallb P s = true -> forallb P (drop_while f s) = true.
Proof.
  induction s as [|c s IH]; intros H; [reflexivity|]. cbn [drop_while]. destruct (f c); [|exact H].
  cbn [forallb] in H. apply andb_true_iff in H. apply IH, H.
Qed.

(* the class suffixes never run past the closing bracket *)
Lemma voice_classes_suffix : forall f r R, exists r',
  voice_classes f (r ++ 62 :: R) = r' ++ 62 :: R /\ (forall P : Z -> bool, forallb P r = true -> forallb P r' = true).
Proof.
  induction f as [|f IH]; intros r R; [exists r; split; [reflexivity|auto]|].
  destruct r as [|a r1].
  - exists []. split; [|auto]. cbn [app]. rewrite voice_classes_step. reflexivity.
  - cbn [app]. rewrite voice_classes_step. destruct (a =? 46); [|exists (a :: r1); split; [reflexivity|auto]].
    destruct r1 as [|c r2].
    + cbn [app]. exists [a]. split; [reflexivity|auto].
    + cbn [app]. destruct (is_word c) eqn:Hw; [|exists (a :: c :: r2); split; [reflexivity|auto]].
      change (c :: r2 ++ 62 :: R) with ((c :: r2) ++ 62 :: R). rewrite drop_while_word_gt.
      destruct (IH (drop_while is_word (c :: r2)) R) as [r' [E HP]]. exists r'. split; [exact E|].
      intros P H. apply HP. apply forallb_drop_while. cbn [forallb] in H. apply andb_true_iff in H. apply H.
Qed.

Lemma voice_match_head : forall s x s', voice_classes (length s) s = x :: s' -> x <> 32 -> voice_match s = None.
Proof.
  intros s x s' E N. unfold voice_match. rewrite E.
  destruct x as [|p|p]; try reflexivity.
  do 6 (try (destruct p as [p|p|]; try reflexivity)). exfalso. apply N. reflexivity.
Qed.

Lemma voice_match_safe : forall r R, forallb (fun c => negb (c =? 32)) r = true -> voice_match (r ++ 62 :: R) = None.
Proof.
  intros r R H. destruct (voice_classes_suffix (length (r ++ 62 :: R)) r R) as [r' [E HP]].
  destruct r' as [|x r''].
  - apply (voice_match_head _ 62 R E). discriminate.
  - apply (voice_match_head _ x (r'' ++ 62 :: R) E). specialize (HP _ H). cbn [forallb] in HP.
    apply andb_true_iff in HP. destruct HP as [Hx _]. intros ->. discriminate.
Qed.

(* a tag that is no voice tag is copied *)
Lemma voice_tag_fail : forall b R f, vsafe b = true ->
  voice_sub_aux (S f) (60 :: b ++ 62 :: R) = 60 :: voice_sub_aux f (b ++ 62 :: R).
Proof.
  intros b R f H. cbn [voice_sub_aux]. rewrite Z.eqb_refl. destruct b as [|d r].
  - reflexivity.
  - cbn [app]. cbn [vsafe] in H. destruct (d =? 118); [|reflexivity]. rewrite (voice_match_safe r R H). reflexivity.
Qed.

Lemma known_no_angle : forall b, known_body b = true -> no_angle b = true.
Proof. intros b H. unfold known_body in H. apply andb_true_iff in H. apply H. Qed.
Lemma tag_no_angle : forall b, tag_body b = true -> no_angle b = true.
Proof.
  intros b H. unfold tag_body in H. apply orb_true_iff in H. destruct H as [H|H]; [apply known_no_angle, H|].
  apply andb_true_iff in H. apply H.
Qed.
Lemma unknown_no_angle : forall b, unknown_body b = true -> no_angle b = true.
Proof.
  intros b H. unfold unknown_body in H. apply andb_true_iff in H. destruct H as [H _]. apply andb_true_iff in H. apply H.
Qed.

Lemma voice_tag_copied : forall b R f, vsafe b = true -> no_angle b = true ->
  voice_sub_aux (S (length b + 1 + f)) (60 :: b ++ 62 :: R) = 60 :: b ++ 62 :: voice_sub_aux f R.
Proof.
  intros b R f Hv Hn. rewrite voice_tag_fail by exact Hv.
  change (b ++ 62 :: R) with (b ++ [62] ++ R). rewrite app_assoc.
  replace (length b + 1 + f)%nat with (length (b ++ [62%Z]) + f)%nat by (rewrite app_length; reflexivity).
  rewrite voice_text.
  - rewrite <- app_assoc. reflexivity.
  - rewrite forallb_app, (no_angle_no_lt b Hn). reflexivity.
Qed.

Lemma voice_stage : forall l f, forallb ltok_ok l = true -> (length (lrender_all l) <= f)%nat ->
  voice_sub_aux f (lrender_all l) = srender (map seg1 l).
Proof.
  induction l as [|t l IH]; intros f Hok Hf; [apply voice_sub_nil|].
  cbn [forallb] in Hok. apply andb_true_iff in Hok. destruct Hok as [Ht Hl].
  unfold lrender_all, srender in *. cbn [flat_map map] in *. rewrite app_length in Hf.
  destruct t as [ps|b|b|cls pn]; cbn [ltok_ok lrender seg1 seg_render] in *.
  - apply andb_true_iff in Ht. destruct Ht as [_ Hlt].
    replace f with (length (prender ps) + (f - length (prender ps)))%nat by lia.
    rewrite voice_text by (apply prender_no_ch; [discriminate|discriminate|exact Hlt]).
    f_equal. apply IH; [exact Hl|lia].
  - apply andb_true_iff in Ht. destruct Ht as [Hk Hv].
    cbn [length] in Hf. rewrite app_length in Hf. cbn [length] in Hf.
    assert (E : forall Z0, (60 :: b ++ [62]) ++ Z0 = 60 :: b ++ 62 :: Z0) by (intros; cbn [app]; rewrite <- app_assoc; reflexivity).
    rewrite !E. replace f with (S (length b + 1 + (f - S (length b + 1))))%nat by lia.
    rewrite voice_tag_copied by (try exact Hv; apply tag_no_angle, Hk).
    do 3 f_equal. apply IH; [exact Hl|lia].
  - apply andb_true_iff in Ht. destruct Ht as [Ht _]. apply andb_true_iff in Ht. destruct Ht as [Hk Hv].
    cbn [length] in Hf. rewrite app_length in Hf. cbn [length] in Hf.
    assert (E : forall Z0, (60 :: b ++ [62]) ++ Z0 = 60 :: b ++ 62 :: Z0) by (intros; cbn [app]; rewrite <- app_assoc; reflexivity).
    rewrite !E. replace f with (S (length b + 1 + (f - S (length b + 1))))%nat by lia.
    rewrite voice_tag_copied by (try exact Hv; apply unknown_no_angle, Hk).
    do 3 f_equal. apply IH; [exact Hl|lia].
  - apply andb_true_iff in Ht. destruct Ht as [Ht Hgt]. apply andb_true_iff in Ht. destruct Ht as [Ht Hlt].
    apply andb_true_iff in Ht. destruct Ht as [Hc _].
    destruct f as [|f']; [cbn in Hf; lia|].
    unfold dotted. rewrite <- !app_assoc.
    rewrite (vtt_voice_tag cls (prender pn) _ f' Hc) by (apply prender_no_ch; [discriminate|discriminate|exact Hgt]).
    do 2 f_equal. apply IH; [exact Hl|].
    cbn in Hf. rewrite !app_length in Hf. cbn [length] in Hf. rewrite ?app_length in Hf. cbn [length] in Hf. lia.
Qed.

(* ---- stage 2 + 3 ------------------------------------------------------------------------------------------------------ *)
Lemma seg1_ok : forall t, ltok_ok t = true -> seg_ok (seg1 t) = true.
Proof.
  intros [ps|b|b|cls pn] H; cbn [ltok_ok seg1 seg_ok] in *.
  - apply andb_true_iff in H. apply prender_no_ch; [discriminate|discriminate|apply H].
  - apply andb_true_iff in H. apply H.
  - apply andb_true_iff in H. destruct H as [H _]. apply andb_true_iff in H. apply H.
  - apply andb_true_iff in H. destruct H as [H _]. apply andb_true_iff in H. destruct H as [_ Hlt].
    rewrite forallb_app. rewrite (prender_no_ch 60 pn) by (try discriminate; exact Hlt). reflexivity.
Qed.

Lemma seg1_display : forall t, seg_display (seg1 t) = prender (lpieces t).
Proof.
  intros [ps|b|b|cls pn]; cbn [seg1 seg_display lpieces]; try reflexivity.
  - rewrite prender_raw. reflexivity.
  - rewrite prender_app. reflexivity.
Qed.

Lemma lpieces_ok : forall t, ltok_ok t = true -> forallb piece_ok (lpieces t) = true.
Proof.
  intros [ps|b|b|cls pn] H; cbn [ltok_ok lpieces] in *.
  - apply andb_true_iff in H. apply H.
  - reflexivity.
  - apply andb_true_iff in H. destruct H as [_ H]. cbn [map forallb piece_ok]. rewrite map_app, forallb_app. cbn [map forallb piece_ok].
    rewrite andb_true_r. change (negb (60 =? 38)) with true. cbn [andb].
    clear - H. induction b as [|c b IH]; [reflexivity|]. cbn [forallb map piece_ok] in *. apply andb_true_iff in H.
    destruct H as [Hc Hb]. rewrite Hc, (IH Hb). reflexivity.
  - apply andb_true_iff in H. destruct H as [H _]. apply andb_true_iff in H. destruct H as [H _]. apply andb_true_iff in H.
    destruct H as [_ Hp]. rewrite forallb_app, Hp. reflexivity.
Qed.

(* what the reader model makes of one source line (before its strip): the decoded pieces *)
Theorem line_decode : forall l, forallb ltok_ok l = true ->
  vtt_entities (other_sub true (voice_sub (lrender_all l))) = prender (map decode_piece (flat_map lpieces l)).
Proof.
  intros l H. unfold voice_sub. rewrite (voice_stage l _ H) by lia.
  rewrite vtt_tags_by_name.
  - assert (D : sdisplay (map seg1 l) = prender (flat_map lpieces l)).
    { clear H. unfold sdisplay. induction l as [|t l IH]; [reflexivity|]. cbn [map flat_map]. rewrite prender_app, seg1_display, IH. reflexivity. }
    rewrite D. apply vtt_entities_once.
    clear D. induction l as [|t l IH]; [reflexivity|]. cbn [forallb flat_map] in *. apply andb_true_iff in H. destruct H as [Ht Hl].
    rewrite forallb_app, (lpieces_ok t Ht), (IH Hl). reflexivity.
  - clear - H. induction l as [|t l IH]; [reflexivity|]. cbn [forallb map] in *. apply andb_true_iff in H. destruct H as [Ht Hl].
    rewrite (seg1_ok t Ht), (IH Hl). reflexivity.
Qed.

(* ==== the spec serialisation as tokens ================================================================================== *)
Definition pc (sc : schar) : piece :=
  let (c, sp) := sc in
  if (sp =? 1) || must_escape c then match name_of c vtt_names with Some n => PEnt n | None => PRaw c end else PRaw c.
(* spellings raw / WebVTT-named only: numeric and HTML named references are read literally by the reader (known finding) *)
Definition schar_ok (sc : schar) : bool := ((snd sc =? 0) || (snd sc =? 1)) && negb (fst sc =? 10).
Definition schar_ok_voice (sc : schar) : bool := schar_ok sc && (negb (fst sc =? 62) || (snd sc =? 1)).

Lemma name_of_vtt : forall c n, name_of c vtt_names = Some n ->
  vtt_ref_value n = Some c /\ name_ok n = true /\ forallb (fun x => negb (x =? 60) && negb (x =? 62) && negb (x =? 10)) n = true.
Proof.
  intros c n H. unfold vtt_names in H. cbn [name_of] in H.
  repeat match type of H with
  | (if ?c =? ?k then _ else _) = _ => destruct (Z.eqb_spec c k) as [->|_]; [inversion H; subst; repeat split; reflexivity|]
  end. discriminate.
Qed.

Lemma spell_pc : forall sc, schar_ok sc = true -> spell F_VTT sc = render_piece (pc sc).
Proof.
  intros [c sp] H. unfold schar_ok in H. cbn [fst snd] in H. apply andb_true_iff in H. destruct H as [H _].
  unfold spell, pc. change (names_for F_VTT) with vtt_names.
  change ((F_VTT =? F_SRT) || (F_VTT =? F_MDVD)) with false. change (F_VTT =? F_VTT) with true.
  change ((F_VTT =? F_DFXP) || (F_VTT =? F_SAMI) || true) with true. cbv iota.
  apply orb_true_iff in H. destruct H as [H|H]; apply Z.eqb_eq in H; subst sp.
  - change (0 =? 1) with false. change (0 =? 5) with false. change (0 =? 2) with false. change (0 =? 3) with false.
    change (0 =? 4) with false. cbn [andb orb]. destruct (must_escape c); [|reflexivity].
    destruct (name_of c vtt_names); reflexivity.
  - change (1 =? 1) with true. cbn [orb]. destruct (name_of c vtt_names); reflexivity.
Qed.

Lemma pc_facts : forall sc, schar_ok sc = true ->
  piece_ok (pc sc) = true /\ no_ch_piece 60 (pc sc) = true /\ no_ch_piece 10 (pc sc) = true /\ decode_piece (pc sc) = PRaw (fst sc).
Proof.
  intros [c sp] H. unfold schar_ok in H. cbn [fst snd] in H. apply andb_true_iff in H. destruct H as [_ H10].
  unfold pc. cbn [fst].
  destruct (name_of c vtt_names) as [n|] eqn:E.
  - destruct (name_of_vtt c n E) as (V & Nk & F).
    assert (F60 : forallb (fun x => negb (x =? 60)) n = true /\ forallb (fun x => negb (x =? 10)) n = true).
    { clear - F. induction n as [|x n IH]; [split; reflexivity|]. cbn [forallb] in *. apply andb_true_iff in F. destruct F as [Fx Fn].
      apply andb_true_iff in Fx. destruct Fx as [Fx F10]. apply andb_true_iff in Fx. destruct Fx as [F60 _].
      destruct (IH Fn) as [A B]. rewrite F60, F10, A, B. split; reflexivity. }
    destruct ((sp =? 1) || must_escape c) eqn:Q.
    + cbn [piece_ok no_ch_piece decode_piece]. rewrite V. destruct F60 as [A B]. repeat split; assumption.
    + apply orb_false_iff in Q. destruct Q as [_ Q]. unfold must_escape in Q. apply orb_false_iff in Q. destruct Q as [Q1 Q2].
      cbn [piece_ok no_ch_piece decode_piece]. rewrite Q1, Q2, H10. repeat split; reflexivity.
  - assert (N : (c =? 38) = false /\ (c =? 60) = false).
    { unfold vtt_names in E. cbn [name_of] in E. destruct (c =? 38); [discriminate|]. destruct (c =? 60); [discriminate|]. split; reflexivity. }
    destruct N as [N1 N2].
    assert (P : piece_ok (PRaw c) = true /\ no_ch_piece 60 (PRaw c) = true /\ no_ch_piece 10 (PRaw c) = true /\ decode_piece (PRaw c) = PRaw c).
    { cbn [piece_ok no_ch_piece decode_piece]. rewrite N1, N2, H10. repeat split; reflexivity. }
    destruct ((sp =? 1) || must_escape c); exact P.
Qed.

Lemma pc_no_gt : forall sc, schar_ok_voice sc = true -> no_ch_piece 62 (pc sc) = true.
Proof.
  intros [c sp] H. unfold schar_ok_voice in H. apply andb_true_iff in H. destruct H as [_ H]. cbn [fst snd] in H.
  unfold pc. destruct (name_of c vtt_names) as [n|] eqn:E.
  - destruct (name_of_vtt c n E) as (_ & _ & F).
    assert (F62 : forallb (fun x => negb (x =? 62)) n = true).
    { clear - F. induction n as [|x n IH]; [reflexivity|]. cbn [forallb] in *. apply andb_true_iff in F. destruct F as [Fx Fn].
      apply andb_true_iff in Fx. destruct Fx as [Fx _]. apply andb_true_iff in Fx. destruct Fx as [_ F62]. rewrite F62, (IH Fn). reflexivity. }
    destruct ((sp =? 1) || must_escape c) eqn:Q; [exact F62|].
    apply orb_false_iff in Q. destruct Q as [Q _]. rewrite Q in H. rewrite orb_false_r in H. exact H.
  - assert (N : (c =? 62) = false).
    { unfold vtt_names in E. cbn [name_of] in E. destruct (c =? 38); [discriminate|]. destruct (c =? 60); [discriminate|].
      destruct (c =? 62); [discriminate|reflexivity]. }
    cbn [no_ch_piece]. destruct ((sp =? 1) || must_escape c); cbn [no_ch_piece]; rewrite N; reflexivity.
Qed.

Lemma pcs_facts : forall cs, forallb schar_ok cs = true ->
  spell_all F_VTT cs = prender (map pc cs) /\ forallb piece_ok (map pc cs) = true /\
  forallb (no_ch_piece 60) (map pc cs) = true /\ forallb (no_ch_piece 10) (map pc cs) = true /\
  map decode_piece (map pc cs) = map PRaw (chars cs).
Proof.
  induction cs as [|sc cs IH]; intros H; [repeat split; reflexivity|].
  cbn [forallb] in H. apply andb_true_iff in H. destruct H as [Hs Hcs].
  destruct (IH Hcs) as (A & B & C & D & E). destruct (pc_facts sc Hs) as (P1 & P2 & P3 & P4).
  unfold spell_all, chars, prender in *. cbn [flat_map map forallb]. rewrite (spell_pc sc Hs), A, B, C, D, E, P1, P2, P3, P4.
  repeat split; reflexivity.
Qed.

(* ---- tags ------------------------------------------------------------------------------------------------------------- *)
Definition open_body (k : Z) : str := fst (tag_of F_VTT k) ++ vtt_annot k.
Definition close_body (k : Z) : str := 47 :: fst (tag_of F_VTT k).
Definition no10 (s : str) : bool := forallb (fun c => negb (c =? 10)) s.
Definition tag_chk (k : Z) : bool :=
  known_body (open_body k) && vsafe (open_body k) && no10 (open_body k) &&
  known_body (close_body k) && vsafe (close_body k) && no10 (close_body k).
(* k mod 10 in 0..7 = i b u c ruby rt lang v ; k / 10 in 0..5 = the six start-tag shapes *)
Definition tag_k_ok (k : Z) : bool := (0 <=? k) && (k <? 60) && (k mod 10 <=? 7).

Lemma tags_checked : forallb (fun n => let k := Z.of_nat n in if tag_k_ok k then tag_chk k else true) (seq 0 60) = true.
Proof. vm_compute. reflexivity. Qed.

Lemma tag_facts : forall k, tag_k_ok k = true -> tag_chk k = true.
Proof.
  intros k H. pose proof tags_checked as T. rewrite forallb_forall in T.
  assert (R : 0 <= k < 60).
  { unfold tag_k_ok in H. apply andb_true_iff in H. destruct H as [H _]. apply andb_true_iff in H. destruct H as [A B].
    apply Z.leb_le in A. apply Z.ltb_lt in B. lia. }
  specialize (T (Z.to_nat k)). cbv zeta in T. rewrite Z2Nat.id in T by lia. rewrite H in T. apply T.
  apply in_seq. lia.
Qed.

Lemma ser_open : forall k, ser_item F_VTT (IOpen k) = 60 :: open_body k ++ [62].
Proof.
  intros k. unfold open_body. cbn [ser_item]. change ((F_VTT =? F_SRT) || (F_VTT =? F_MDVD)) with false. cbv iota.
  destruct (tag_of F_VTT k) as [n a]. change (F_VTT =? F_VTT) with true. cbv iota. cbn [fst].
  change (lit "<") with [60]. change (lit ">") with [62]. cbn [app]. rewrite <- app_assoc. reflexivity.
Qed.
Lemma ser_close : forall k, ser_item F_VTT (IClose k) = 60 :: close_body k ++ [62].
Proof.
  intros k. unfold close_body. cbn [ser_item]. change ((F_VTT =? F_SRT) || (F_VTT =? F_MDVD)) with false. cbv iota.
  change (lit "</") with [60; 47]. change (lit ">") with [62]. reflexivity.
Qed.

(* ---- unknown tags: a name of letters, digits, _ and -, beginning with a letter, that WebVTT does not define -------------- *)
Definition uname_ok (name : str) : bool := unknown_body name && forallb tag_name_char name.
Definition unk_body (close : bool) (name : str) : str := (if close then [47] else []) ++ name.

Lemma name_char_misc : forall c, tag_name_char c = true ->
  (c =? 47) = false /\ (c =? 32) = false /\ (c =? 38) = false /\ (c =? 10) = false /\ (c =? 60) = false /\ (c =? 62) = false.
Proof.
  intros c H. unfold tag_name_char, is_word, is_digit in H.
  repeat split; apply Z.eqb_neq; intros ->; vm_compute in H; discriminate.
Qed.

Lemma unk_body_ok : forall close name, uname_ok name = true ->
  unknown_body (unk_body close name) = true /\ vsafe (unk_body close name) = true /\
  forallb (fun c => negb (c =? 38)) (unk_body close name) = true /\ no10 (unk_body close name) = true.
Proof.
  intros close name H. unfold uname_ok in H. apply andb_true_iff in H. destruct H as [Hu Hn].
  assert (A : forall (P : Z -> bool), (forall c, tag_name_char c = true -> P c = true) -> forallb P name = true).
  { intros P HP. clear Hu. induction name as [|c n IH]; [reflexivity|]. cbn [forallb] in *. apply andb_true_iff in Hn.
    destruct Hn as [Hc Hn]. rewrite (HP c Hc), (IH Hn). reflexivity. }
  assert (A38 : forallb (fun c => negb (c =? 38)) name = true) by (apply A; intros c Hc; destruct (name_char_misc c Hc) as (_ & _ & -> & _); reflexivity).
  assert (A10 : no10 name = true) by (apply A; intros c Hc; destruct (name_char_misc c Hc) as (_ & _ & _ & -> & _); reflexivity).
  assert (A32 : forallb (fun c => negb (c =? 32)) name = true) by (apply A; intros c Hc; destruct (name_char_misc c Hc) as (_ & -> & _); reflexivity).
  destruct close; unfold unk_body; cbn [app].
  - (* "/name" *)
    assert (S : strip_slash name = name).
    { destruct name as [|c n]; [reflexivity|]. cbn [forallb] in Hn. apply andb_true_iff in Hn. destruct Hn as [Hc _].
      cbn [strip_slash]. destruct (name_char_misc c Hc) as (-> & _). reflexivity. }
    split; [|split; [|split]].
    + unfold unknown_body in *. cbn [strip_slash]. rewrite Z.eqb_refl. rewrite S in Hu.
      apply andb_true_iff in Hu. destruct Hu as [Hu Hk]. apply andb_true_iff in Hu. destruct Hu as [Hna Hl].
      rewrite Hk, Hl. unfold no_angle in *. cbn [forallb]. rewrite Hna. reflexivity.
    + reflexivity.
    + cbn [forallb]. rewrite A38. reflexivity.
    + unfold no10 in *. cbn [forallb]. rewrite A10. reflexivity.
  - split; [exact Hu|split; [|split; [exact A38|exact A10]]].
    destruct name as [|c n]; [reflexivity|]. cbn [vsafe]. destruct (c =? 118); [|reflexivity].
    cbn [forallb] in A32. apply andb_true_iff in A32. apply A32.
Qed.

(* ---- items -------------------------------------------------------------------------------------------------------------- *)
Definition vtt_item_ok (it : item) : bool :=
  match it with
  | ITxt cs => forallb schar_ok cs
  | IWrap _ => true
  | IEnt _ c => negb (c =? 38) && negb (c =? 60) && negb (c =? 10)
  | IBr => true
  | IOpen k => tag_k_ok k
  | IClose k => tag_k_ok k
  | IVoice cls nm => forallb class_ok cls && forallb schar_ok_voice nm
  | IStamp s => stamp_body s              (* H+:MM[:SS].mmm *)
  | IUnk _ name => uname_ok name
  | ICom _ => true
  | IPi _ => true
  end.
Definition not_br (it : item) : bool := match it with IBr => false | _ => true end.

Definition toks (it : item) : list ltok :=
  match it with
  | ITxt cs => [LText (map pc cs)]
  | IWrap _ => [LText [PRaw 32]]
  | IEnt _ c => [LText [PRaw c]]
  | IOpen k => [LKnown (open_body k)]
  | IClose k => [LKnown (close_body k)]
  | IVoice cls nm => [LVoice cls (map pc nm)]
  | IUnk close name => [LUnk (unk_body close name)]
  | IStamp s => [LKnown s]
  | _ => []
  end.
Definition disp_item (it : item) : str :=
  match it with
  | ITxt cs => chars cs
  | IWrap _ => [32]
  | IEnt _ c => [c]
  | IVoice _ nm => chars nm ++ lit ": "
  | IUnk close name => lit "<" ++ (if close then lit "/" else []) ++ name ++ lit ">"
  | _ => []
  end.

Lemma voice_ok_weaken : forall nm, forallb schar_ok_voice nm = true -> forallb schar_ok nm = true.
Proof.
  induction nm as [|sc nm IH]; intros H; [reflexivity|]. cbn [forallb] in *. apply andb_true_iff in H. destruct H as [Hs Hn].
  unfold schar_ok_voice in Hs. apply andb_true_iff in Hs. destruct Hs as [Hs _]. rewrite Hs, (IH Hn). reflexivity.
Qed.
Lemma voice_no_gt : forall nm, forallb schar_ok_voice nm = true -> forallb (no_ch_piece 62) (map pc nm) = true.
Proof.
  induction nm as [|sc nm IH]; intros H; [reflexivity|]. cbn [forallb map] in *. apply andb_true_iff in H. destruct H as [Hs Hn].
  rewrite (pc_no_gt sc Hs), (IH Hn). reflexivity.
Qed.
Lemma classes_no10 : forall cls, forallb class_ok cls = true -> no10 (dotted cls) = true.
Proof.
  unfold dotted, no10. induction cls as [|c cls IH]; intros H; [reflexivity|]. cbn [forallb map concat] in *.
  apply andb_true_iff in H. destruct H as [Hc Hcls]. rewrite forallb_app, (IH Hcls), andb_true_r. cbn [forallb].
  change (negb (46 =? 10)) with true. cbn [andb]. unfold class_ok in Hc. destruct c as [|x c]; [discriminate|].
  clear - Hc. induction (x :: c) as [|y l IHl]; [reflexivity|]. cbn [forallb] in *. apply andb_true_iff in Hc. destruct Hc as [Hy Hl].
  rewrite (IHl Hl), andb_true_r. destruct (Z.eqb_spec y 10) as [->|]; [vm_compute in Hy; discriminate|reflexivity].
Qed.

Lemma item_toks : forall it, vtt_item_ok it = true -> not_br it = true ->
  ser_item F_VTT it = lrender_all (toks it) /\ forallb ltok_ok (toks it) = true /\
  prender (map decode_piece (flat_map lpieces (toks it))) = disp_item it /\ no10 (ser_item F_VTT it) = true.
Proof.
  intros it H Hb. unfold lrender_all.
  destruct it as [cs|n|nm c| |k|k|cls nm|s|cl nm|s|s]; cbn [vtt_item_ok not_br] in *; try discriminate.
  - destruct (pcs_facts cs H) as (A & B & C & D & E).
    cbn [toks flat_map lrender ltok_ok lpieces forallb disp_item ser_item]. rewrite !app_nil_r, A, B, C, E, prender_raw.
    repeat split; try reflexivity. unfold no10. apply prender_no_ch; [discriminate|discriminate|exact D].
  - repeat split; reflexivity.
  - apply andb_true_iff in H. destruct H as [H H10]. apply andb_true_iff in H. destruct H as [H38 H60].
    cbn [toks flat_map lrender ltok_ok lpieces forallb disp_item ser_item piece_ok no_ch_piece map decode_piece].
    change (F_VTT =? F_SAMI) with false. cbv iota. unfold no10. cbn [forallb]. rewrite H38, H60, H10. repeat split; reflexivity.
  - pose proof (tag_facts k H) as T. unfold tag_chk in T. do 5 (apply andb_true_iff in T; destruct T as [T ?]).
    rewrite ser_open. cbn [toks flat_map lrender ltok_ok lpieces forallb disp_item map]. rewrite app_nil_r.
    repeat split; try reflexivity.
    + unfold tag_body. rewrite T. match goal with Hv : vsafe (open_body k) = true |- _ => rewrite Hv end. reflexivity.
    + unfold no10 in *. cbn [forallb]. rewrite forallb_app. match goal with Hn : forallb _ (open_body k) = true |- _ => rewrite Hn end. reflexivity.
  - pose proof (tag_facts k H) as T. unfold tag_chk in T. do 5 (apply andb_true_iff in T; destruct T as [T ?]).
    rewrite ser_close. cbn [toks flat_map lrender ltok_ok lpieces forallb disp_item map]. rewrite app_nil_r.
    repeat split; try reflexivity.
    + unfold tag_body. match goal with Hk : known_body (close_body k) = true |- _ => rewrite Hk end.
      match goal with Hv : vsafe (close_body k) = true |- _ => rewrite Hv end. reflexivity.
    + unfold no10 in *. cbn [forallb]. rewrite forallb_app. match goal with Hn : forallb _ (close_body k) = true |- _ => rewrite Hn end. reflexivity.
  - apply andb_true_iff in H. destruct H as [Hc Hn].
    destruct (pcs_facts nm (voice_ok_weaken nm Hn)) as (A & B & C & D & E).
    cbn [toks flat_map lrender ltok_ok lpieces forallb disp_item ser_item]. change (F_VTT =? F_VTT) with true. cbv iota.
    rewrite !app_nil_r, A, Hc, B, C, (voice_no_gt nm Hn). fold (dotted cls).
    rewrite map_app, E, prender_app, prender_raw. repeat split; try reflexivity.
    unfold no10. rewrite !forallb_app. fold (no10 (dotted cls)). rewrite (classes_no10 cls Hc).
    rewrite (prender_no_ch 10 (map pc nm)) by (try discriminate; exact D). reflexivity.
  - (* timestamp tag *)
    destruct (stamp_chars s H) as (SC & x & t & Es & Hx).
    assert (NA : no_angle s = true /\ no10 s = true).
    { clear - SC. unfold no_angle, no10. induction s as [|c s IH]; [split; reflexivity|]. cbn [forallb] in *. apply andb_true_iff in SC.
      destruct SC as [Hc Hs]. destruct (IH Hs) as [A B]. rewrite A, B.
      assert (Q : (c =? 60) = false /\ (c =? 62) = false /\ (c =? 10) = false).
      { unfold stamp_char, is_digit in Hc. repeat split; apply Z.eqb_neq; intros ->; vm_compute in Hc; discriminate. }
      destruct Q as (-> & -> & ->). split; reflexivity. }
    destruct NA as [NA N10].
    cbn [toks flat_map lrender ltok_ok lpieces forallb disp_item ser_item map]. change (F_VTT =? F_VTT) with true. cbv iota.
    change (lit "<") with [60]. change (lit ">") with [62]. rewrite app_nil_r.
    assert (VS : vsafe s = true).
    { subst s. cbn [vsafe]. destruct (Z.eqb_spec x 118) as [->|_]; [vm_compute in Hx; discriminate|reflexivity]. }
    unfold tag_body. rewrite NA, H, VS, orb_true_r. repeat split; try reflexivity.
    unfold no10 in *. cbn [app forallb]. rewrite forallb_app, N10. reflexivity.
  - destruct (unk_body_ok cl nm H) as (U1 & U2 & U3 & U4).
    cbn [toks flat_map lrender ltok_ok lpieces forallb disp_item ser_item]. change (F_VTT =? F_VTT) with true. cbv iota.
    rewrite !app_nil_r, U1, U2, U3. unfold unk_body in *.
    assert (DP : forall s, map decode_piece (map PRaw s) = map PRaw s) by (induction s as [|x s IHs]; [reflexivity|cbn [map decode_piece]; rewrite IHs; reflexivity]).
    rewrite DP, prender_raw. change (lit "<") with [60]. change (lit ">") with [62]. change (lit "/") with [47].
    repeat split; try reflexivity.
    + destruct cl; cbn [app]; reflexivity.
    + destruct cl; cbn [app]; reflexivity.
    + unfold no10 in *. rewrite forallb_app in U4. apply andb_true_iff in U4. destruct U4 as [Ua Ub].
      cbn [app forallb]. rewrite !forallb_app, Ub. destruct cl; reflexivity.
  - repeat split; reflexivity.
  - repeat split; reflexivity.
Qed.

(* ==== one source line ===================================================================================================== *)
Definition line_item_ok (it : item) : bool := vtt_item_ok it && not_br it.
Definition ser_line (its : list item) : str := flat_map (ser_item F_VTT) its.
Definition disp_line (its : list item) : str := flat_map disp_item its.

Lemma line_facts : forall its, forallb line_item_ok its = true ->
  ser_line its = lrender_all (flat_map toks its) /\ forallb ltok_ok (flat_map toks its) = true /\
  prender (map decode_piece (flat_map lpieces (flat_map toks its))) = disp_line its /\ no10 (ser_line its) = true.
Proof.
  unfold ser_line, disp_line, lrender_all, no10. induction its as [|it its IH]; intros H; [repeat split; reflexivity|].
  cbn [forallb] in H. apply andb_true_iff in H. destruct H as [Hi Hits]. unfold line_item_ok in Hi. apply andb_true_iff in Hi.
  destruct Hi as [Ho Hb]. destruct (item_toks it Ho Hb) as (A & B & C & D). destruct (IH Hits) as (A' & B' & C' & D').
  cbn [flat_map]. unfold lrender_all, no10 in *.
  rewrite !flat_map_app, !forallb_app, map_app, prender_app, A, A', B, B', C, C', <- A, <- A', D, D'. repeat split; reflexivity.
Qed.

(* the reader model on one source line without white space at its ends *)
Theorem line_end_to_end : forall its, forallb line_item_ok its = true -> strip (ser_line its) = ser_line its ->
  vtt_decode true (ser_line its) = disp_line its.
Proof.
  intros its H Hs. destruct (line_facts its H) as (A & B & C & _).
  unfold vtt_decode. rewrite Hs, A, (line_decode _ B). exact C.
Qed.

(* ==== the cue: lines separated by IBr ======================================================================================== *)
Fixpoint split_br (items : list item) : list (list item) :=
  match items with
  | [] => [[]]
  | IBr :: t => [] :: split_br t
  | x :: t => match split_br t with l :: ls => (x :: l) :: ls | [] => [[x]] end
  end.

Lemma split_br_nonnil : forall items, split_br items <> [].
Proof. induction items as [|it items IH]; [discriminate|]. destruct it; cbn [split_br]; try discriminate; destruct (split_br items); congruence. Qed.

Lemma display_step : forall it t cur, not_br it = true -> display_aux (it :: t) cur = display_aux t (cur ++ disp_item it).
Proof.
  intros it t cur H. destruct it; cbn [not_br] in H; try discriminate; cbn [display_aux disp_item]; rewrite ?app_nil_r; try reflexivity.
Qed.

Lemma display_split : forall items cur, 
  display_aux items cur = match split_br items with l0 :: ls => (cur ++ disp_line l0) :: map disp_line ls | [] => [cur] end.
Proof.
  induction items as [|it items IH]; intros cur.
  - cbn. rewrite app_nil_r. reflexivity.
  - destruct (not_br it) eqn:Hb.
    + rewrite display_step by exact Hb. rewrite IH.
      assert (E : split_br (it :: items) = match split_br items with l :: ls => (it :: l) :: ls | [] => [[it]] end)
        by (destruct it; cbn [not_br] in Hb; try discriminate; reflexivity).
      rewrite E. pose proof (split_br_nonnil items) as N. destruct (split_br items) as [|l0 ls]; [congruence|].
      unfold disp_line. cbn [flat_map]. rewrite app_assoc. reflexivity.
    + destruct it; cbn [not_br] in Hb; try discriminate. cbn [display_aux split_br].
      rewrite (IH []). pose proof (split_br_nonnil items) as N. destruct (split_br items) as [|l0 ls]; [congruence|].
      unfold disp_line at 1. cbn [flat_map map]. rewrite app_nil_r. reflexivity.
Qed.

Lemma split_lines_ok : forall items, forallb vtt_item_ok items = true ->
  forallb (forallb line_item_ok) (split_br items) = true.
Proof.
  induction items as [|it items IH]; intros H; [reflexivity|]. cbn [forallb] in H. apply andb_true_iff in H. destruct H as [Hi Hits].
  specialize (IH Hits). pose proof (split_br_nonnil items) as N.
  destruct (not_br it) eqn:Hb.
  - assert (E : split_br (it :: items) = match split_br items with l :: ls => (it :: l) :: ls | [] => [[it]] end)
      by (destruct it; cbn [not_br] in Hb; try discriminate; reflexivity).
    rewrite E. destruct (split_br items) as [|l0 ls]; [congruence|]. cbn [forallb] in *. unfold line_item_ok at 1. rewrite Hi, Hb. exact IH.
  - destruct it; cbn [not_br] in Hb; try discriminate. cbn [split_br forallb]. exact IH.
Qed.

Lemma serialise_split : forall items cur, forallb vtt_item_ok items = true -> no10 cur = true ->
  split_ch 10 (cur ++ serialise F_VTT items) =
  match split_br items with l0 :: ls => (cur ++ ser_line l0) :: map ser_line ls | [] => [cur] end.
Proof.
  unfold serialise. induction items as [|it items IH]; intros cur H Hc.
  - cbn [flat_map split_br ser_line]. rewrite split_ch_app_nosep by exact Hc. cbn. rewrite !app_nil_r. reflexivity.
  - cbn [forallb] in H. apply andb_true_iff in H. destruct H as [Hi Hits]. pose proof (split_br_nonnil items) as N.
    cbn [flat_map]. destruct (not_br it) eqn:Hb.
    + destruct (item_toks it Hi Hb) as (_ & _ & _ & D).
      assert (E : split_br (it :: items) = match split_br items with l :: ls => (it :: l) :: ls | [] => [[it]] end)
        by (destruct it; cbn [not_br] in Hb; try discriminate; reflexivity).
      rewrite E, app_assoc, IH by (try exact Hits; unfold no10 in *; rewrite forallb_app, Hc, D; reflexivity).
      destruct (split_br items) as [|l0 ls]; [congruence|]. unfold ser_line. cbn [flat_map]. rewrite app_assoc. reflexivity.
    + destruct it; cbn [not_br] in Hb; try discriminate. cbn [split_br].
      change (ser_item F_VTT IBr) with [10]. rewrite split_ch_app_nosep by exact Hc. cbn [app]. rewrite split_ch_cons_sep.
      cbn [app]. pose proof (IH [] Hits eq_refl) as Q. cbn [app] in Q. rewrite Q.
      destruct (split_br items) as [|l0 ls]; [congruence|].
      change (ser_line []) with (@nil Z). cbn [map]. rewrite app_nil_r. reflexivity.
Qed.

Lemma node_lines_intersperse : forall (g : str -> str) ls, ls <> [] ->
  node_lines (intersperse_break (map (fun l => NText (g l)) ls)) = map g ls.
Proof.
  unfold node_lines. induction ls as [|l ls IH]; intros H; [congruence|]. destruct ls as [|l2 ls'].
  - reflexivity.
  - change (intersperse_break (map (fun l0 => NText (g l0)) (l :: l2 :: ls')))
      with (NText (g l) :: NBreak :: intersperse_break (map (fun l0 => NText (g l0)) (l2 :: ls'))).
    cbn [node_lines_aux app]. rewrite IH by discriminate. reflexivity.
Qed.

(* ==== END TO END, WebVTT ====================================================================================================== *)
(* the source lines of the cue neither begin nor end with white space (the reader strips every line first) *)
Definition lines_trimmed (items : list item) : bool :=
  forallb (fun l => str_eqb (strip l) l) (split_ch 10 (serialise F_VTT items)).

Lemma lines_map : forall lines, forallb (fun l => str_eqb (strip l) l) (map ser_line lines) = true ->
  forallb (forallb line_item_ok) lines = true ->
  map (fun x => vtt_decode true (ser_line x)) lines = map disp_line lines.
Proof.
  induction lines as [|l lines IH]; intros Ht L; [reflexivity|]. cbn [map forallb] in *.
  apply andb_true_iff in Ht. destruct Ht as [Hs Hts]. apply andb_true_iff in L. destruct L as [Hl Hls].
  rewrite (line_end_to_end l Hl (str_eqb_eq _ _ Hs)), (IH Hts Hls). reflexivity.
Qed.

Theorem vtt_end_to_end_exact : forall items, forallb vtt_item_ok items = true -> lines_trimmed items = true ->
  node_lines (read_vtt true items) = SpecTextRead.display items.
Proof.
  intros items H Ht. unfold read_vtt, vtt_cue_nodes, lines_trimmed, SpecTextRead.display in *.
  pose proof (serialise_split items [] H eq_refl) as S. cbn [app] in S. rewrite S in *.
  rewrite display_split. pose proof (split_lines_ok items H) as L. pose proof (split_br_nonnil items) as N.
  destruct (split_br items) as [|l0 ls]; [congruence|]. cbn [app] in *.
  rewrite node_lines_intersperse by discriminate.
  change (ser_line l0 :: map ser_line ls) with (map ser_line (l0 :: ls)) in *.
  change (disp_line l0 :: map disp_line ls) with (map disp_line (l0 :: ls)).
  rewrite map_map. apply lines_map; assumption.
Qed.

Theorem vtt_end_to_end : forall items, forallb vtt_item_ok items = true -> lines_trimmed items = true ->
  ok_lines_a (SpecTextRead.display items) (node_lines (read_vtt true items)) = true.
Proof. intros items H Ht. rewrite (vtt_end_to_end_exact items H Ht). apply strs_eqb_refl. Qed.

(* non-vacuity: entities in both spellings, a known tag with classes and annotation, a voice tag, an unknown tag, two lines *)
Definition vtt_example : list item :=
  [IVoice [lit "loud"] [(66, 0); (111, 0); (98, 0)]; ITxt [(82, 0); (38, 1); (68, 0); (32, 0); (60, 1)]; IOpen 53; ITxt [(120, 0)];
   IClose 3; IBr; IUnk false (lit "bar"); ITxt [(38, 0); (108, 0); (116, 0); (59, 0)]; IUnk true (lit "bar")].
Example vtt_example_ok : forallb vtt_item_ok vtt_example = true /\ lines_trimmed vtt_example = true.
Proof. split; vm_compute; reflexivity. Qed.
Example vtt_example_shows :
  serialise F_VTT vtt_example = lit "<v.loud Bob>R&amp;D &lt;<c.a.b-c some words>x</c>" ++ [10] ++ lit "<bar>&amp;lt;</bar>" /\
  node_lines (read_vtt true vtt_example) = [lit "Bob: R&D <x"; lit "<bar>&lt;</bar>"].
Proof. split; vm_compute; reflexivity. Qed.
