(* C16 link: the flush events of the decoder model (model/SccDecoder.v, `read`) on a roll-up / paint-on program ARE the
   events of the event-level timing model (model/SccRollPaint.v, `rp_read`), so the chain-timing theorems of
   proofs/SccRollPaintFacts.v speak about `read`.

   Programs: a line (`rseg`) is a timecode, a head, a non-italics preamble address code and a non-empty run of character
   pairs (one row, at least one non-blank character, at most 32 characters: `seg_ok`, `seg_ok_intro`). The head is
     HRu n cr   RU2 / RU3 / RU4, optionally followed by a carriage return
     HCr        a bare carriage return
     HRdc       RDC (resume direct captioning)
   and every control code is sent once or twice (`ctl dd w`). The first line must be headed by a mode command; depths
   and modes may be mixed freely afterwards.

   What is TRUE of the model (`rp_link`, `seg_event`): the flushing command of a line is always its FIRST word, so the
   instant of its event is `get_time tc 0 off`; the first mode command sets self.time the same way (t0). The event is
     HCr                        RRoll t   (_roll_up: store, re-read the time, correct_last_timing) - also in paint-on mode
     HRdc after a roll-up line  RRoll t   (_roll_up through _flush_implicit_buffers at the mode switch)
     HRdc after a paint-on line RPaint t  (flush_buffer: store only)
     HRu  after any line        RPaint t  (!) the RU command itself stores the non-empty buffer of the line before
                                          (flush_buffer, or _flush_implicit_buffers when the line before was paint-on)
                                          WITHOUT correct_last_timing; the carriage return after it finds an empty
                                          buffer and does nothing
   At the end of the file a roll-up buffer is rolled up at the instant after the last word (`RRoll tend`, tend =
   get_time tc_n (number of words of the last line)); a paint-on buffer is stored open (`pending = true`, 4 s default).
   So for RU-headed roll-up lines the events are [RPaint t_2; ...; RPaint t_n; RRoll t_end] (`rollup_link`), for
   RU + bare-CR lines they are [RRoll t_2; ...; RRoll t_n; RRoll t_end] (`rollup_cr_link`); both give the same chain
   t_1, t_2, ..., t_n, t_end (`rollup_read_chain`, `rollup_cr_read_chain`). *)
From Coq Require Import List ZArith QArith Lia Bool ZifyBool Lqa.
From PV Require Import lib.Sx lib.Str lib.Result model.GenScc model.SccLen model.SccTime model.SccStash model.SccPopon
  model.SccRollPaint model.SccDecoder spec.SpecSccLen spec.SpecSccTime
  proofs.SccLenFacts proofs.SccStashFacts proofs.SccPoponFacts proofs.SccTableFacts proofs.SccRollPaintFacts
  proofs.SccConserveFacts proofs.SccTimeFacts.
Import ListNotations.
Local Open Scope Z_scope.
Local Arguments stash_extend : simpl never.

(* ================================================================================================================== *)
(* 1. the caption list seen through its spans: every caption replaced by the dummy cue with the same (start, end)      *)
(* ================================================================================================================== *)
Definition acue (c : precap) : precap := cue (pc_start c) (pc_end c).
Definition sabs (s : stash) : stash := mkStash (map acue (st_caps s)) (st_batch s).

Lemma sabs_stash0 : sabs stash0 = stash0.
Proof. reflexivity. Qed.

Lemma map_map_tail_comm : forall A B (f : A -> B) (g : A -> A) (g' : B -> B) n l,
  (forall x, f (g x) = g' (f x)) -> map f (map_tail n g l) = map_tail n g' (map f l).
Proof.
  intros A B f g g' n l H. unfold map_tail. rewrite map_app, map_length.
  rewrite firstn_map, skipn_map, !map_map. f_equal. apply map_ext. exact H.
Qed.

Lemma last_some_map : forall A B (f : A -> B) l,
  last (map Some (map f l)) None = option_map f (last (map Some l) None).
Proof.
  intros A B f l. induction l as [|a l IH]; [reflexivity|].
  destruct l as [|b l]; [reflexivity|]. exact IH.
Qed.

Lemma sabs_correct_last_timing : forall s t, sabs (correct_last_timing s t) = correct_last_timing (sabs s) t.
Proof.
  intros s t. unfold sabs, correct_last_timing. cbn [st_caps st_batch]. f_equal.
  apply map_map_tail_comm. reflexivity.
Qed.

Lemma sabs_extend1 : forall s c, has_nodes c = true ->
  sabs (stash_extend s [c]) = stash_extend (sabs s) [cue (pc_start c) (pc_end c)].
Proof.
  intros s c H. unfold stash_extend. cbn [filter]. rewrite H.
  change (has_nodes (cue (pc_start c) (pc_end c))) with true. cbv iota.
  unfold sabs. cbn [st_caps st_batch length]. f_equal. rewrite map_app. cbn [map]. f_equal.
  unfold update_last_batch. cbn [st_caps st_batch]. rewrite map_length, skipn_map, last_some_map.
  destruct (last (map Some (skipn (length (st_caps s) - st_batch s) (st_caps s))) None) as [b|]; cbn [option_map];
    [|reflexivity].
  change (pc_end (acue b)) with (pc_end b). change (pc_start (cue (pc_start c) (pc_end c))) with (pc_start c).
  destruct (_ || _); [|reflexivity].
  apply map_map_tail_comm. reflexivity.
Qed.

(* the tail of read() only looks at the spans, once the line-length scan lets the captions through *)
Lemma fix_last_rev_acue : forall l, map acue (fix_last_rev l) = fix_last_rev (map acue l).
Proof.
  induction l as [|c l IH]; [reflexivity|]. cbn [fix_last_rev map].
  change (pc_end (acue c)) with (pc_end c). destruct (Qeq_bool (pc_end c) 0); [|reflexivity].
  cbn [map]. rewrite IH. reflexivity.
Qed.

Lemma fix_last_acue : forall l, map acue (fix_last l) = fix_last (map acue l).
Proof. intros l. unfold fix_last. rewrite map_rev, fix_last_rev_acue, map_rev. reflexivity. Qed.

Lemma spans_acue : forall l, map (fun c => (pc_start c, pc_end c)) (map acue l) = map (fun c => (pc_start c, pc_end c)) l.
Proof. intros l. rewrite map_map. reflexivity. Qed.

Lemma existsb_flash_acue : forall l, existsb is_flash (map acue l) = existsb is_flash l.
Proof. induction l as [|c l IH]; [reflexivity|]. cbn [map existsb]. rewrite IH. reflexivity. Qed.

Lemma length_check_acue : forall l, length_check (map to_lcap (map acue l)) = None.
Proof.
  intros l. apply length_check_none_iff. induction l as [|c l IH]; [reflexivity|].
  unfold offending in *. cbn [map concat]. rewrite IH. reflexivity.
Qed.

Definition short_lines (s : stash) : Prop := offending (map to_lcap (st_caps s)) = [].

Lemma finish_read_sabs : forall s, short_lines s -> spans_of (finish_read s) = spans_of (finish_read (sabs s)).
Proof.
  intros s H. unfold finish_read. cbn [sabs st_caps]. rewrite length_check_acue.
  apply length_check_none_iff in H. rewrite H. rewrite existsb_flash_acue.
  destruct (existsb is_flash (st_caps s)); [reflexivity|].
  destruct (st_caps s) as [|c l]; [reflexivity|]. cbn [map].
  change (acue c :: map acue l) with (map acue (c :: l)). cbn [spans_of].
  rewrite <- fix_last_acue, spans_acue. reflexivity.
Qed.

Lemma short_lines_correct : forall s t, short_lines s -> short_lines (correct_last_timing s t).
Proof.
  intros s t H. unfold short_lines, offending in *. rewrite map_map in *.
  rewrite (correct_last_timing_map _ (fun x => filter spec_long (spec_lines (snd (to_lcap x))))) by reflexivity.
  exact H.
Qed.

Lemma short_lines_extend1 : forall s c, has_nodes c = true -> short_lines s ->
  filter spec_long (spec_lines (cap_text c)) = [] -> short_lines (stash_extend s [c]).
Proof.
  intros s c Hc H Ht. unfold short_lines, offending in *. rewrite map_map in *.
  rewrite (stash_extend_map _ (fun x => filter spec_long (spec_lines (snd (to_lcap x))))) by reflexivity.
  rewrite concat_app, H. cbn [filter]. rewrite Hc. cbn [map concat to_lcap snd]. rewrite Ht. reflexivity.
Qed.

(* ================================================================================================================== *)
(* 2. the decoder on one row of characters                                                                             *)
(* ================================================================================================================== *)
Definition tb (txt : str) (p : pos) : creator := mkCr [mkI IText txt p] SNone.
Definition tcap (start e : Q) (txt : str) (p : pos) : precap := mkPre start e [CText (rstrip txt) p] (Some p).

Lemma format_tb : forall txt p, nonempty txt = true -> format_italics [mkI IText txt p] = [mkI IText (rstrip txt) p].
Proof.
  intros txt p H. unfold format_italics. cbn -[rstrip nonempty]. rewrite H. cbn -[rstrip nonempty]. reflexivity.
Qed.

Lemma nonempty_rstrip : forall txt, nonempty (rstrip txt) = true -> nonempty txt = true.
Proof. intros [|c t] H; [discriminate H|reflexivity]. Qed.

Lemma store_tb : forall st txt p start e, nonempty (rstrip txt) = true ->
  create_and_store st (tb txt p) start e = stash_extend st [tcap start e txt p].
Proof.
  intros st txt p start e H. pose proof (nonempty_rstrip txt H) as H0. unfold create_and_store.
  assert (E : cr_is_empty (tb txt p) = false).
  { unfold cr_is_empty, tb. cbn [cr_nodes existsb i_text]. rewrite H0. reflexivity. }
  rewrite E. unfold tb. cbn [cr_nodes]. rewrite format_tb by exact H0.
  cbn [build_captions i_kind i_text]. rewrite H. cbn [build_captions app pc_start pc_end pc_nodes i_pos]. reflexivity.
Qed.

Definition md (pm : bool) : mode := if pm then MPaint else MRoll.
Definition RS (pm : bool) (st : stash) (tk : tracker) (l : lastcmd) (d : bool) (b : creator) (time : Q) (tc : str)
  (fr : Z) (off : Q) : rstate :=
  mkR st tk l d creator0 (if pm then b else creator0) (if pm then creator0 else b) (md pm) None time tc fr off None.

Lemma last_contains_is : forall l w, last_contains l w = false -> last_is l w = false.
Proof. intros [|x|p t] w H; [reflexivity|exact H|reflexivity]. Qed.

Lemma hd_fresh : forall s w, last_contains (r_last s) w = false -> tab_of w = None ->
  exists d, handle_double s w = (false, set_dbl s (LWord w) d).
Proof.
  intros s w H T. unfold handle_double. cbv zeta. rewrite (last_contains_is _ _ H), H, T, !andb_false_r.
  eexists. reflexivity.
Qed.

Lemma hd_char : forall s w, is_command w = false -> is_pac w = false -> special_of w = None -> extended_of w = None ->
  tab_of w = None -> exists d, handle_double s w = (false, set_dbl s (LWord w) d).
Proof.
  intros s w H1 H2 H3 H4 T. unfold handle_double. cbv zeta. rewrite H1, H2, H3, H4, T. cbn [orb andb].
  eexists. reflexivity.
Qed.

Lemma hd_second : forall s w, r_last s = LWord w -> (is_command w || is_pac w) = true ->
  exists d, handle_double s w = (true, set_dbl s LNone d).
Proof.
  intros s w H C. unfold handle_double. cbv zeta. rewrite H. cbn [last_is]. rewrite Z.eqb_refl, C. cbn [orb andb].
  eexists. reflexivity.
Qed.

Lemma tw_exec : forall s w next d, r_err s = None -> handle_double s w = (false, set_dbl s (LWord w) d) ->
  translate_word s w next =
  (let X := exec (set_dbl s (LWord w) d) w next in match r_err X with Some _ => X | None => bump X end).
Proof. intros s w next d E H. rewrite translate_word_unfold, E, H. reflexivity. Qed.

Lemma tw_second : forall s w next, r_err s = None -> r_last s = LWord w -> (is_command w || is_pac w) = true ->
  exists d, translate_word s w next = bump (set_dbl s LNone d).
Proof.
  intros s w next E H C. destruct (hd_second s w H C) as [d Hd]. exists d.
  rewrite translate_word_unfold, E, Hd. reflexivity.
Qed.

Definition head_paint (pm : bool) (h : Z) : bool := if h =? w_rdc then true else if h =? w_cr then pm else false.
Definition head_stash (pm : bool) (h : Z) (st : stash) (t : Q) : stash :=
  if (h =? w_cr) || ((h =? w_rdc) && negb pm) then correct_last_timing st t else st.

Lemma tw_head' : forall h pm st tk lw d txt p time tc fr off t,
  In h [w_ru2; w_ru3; w_ru4; w_rdc; w_cr] -> (lw =? h) = false -> nonempty txt = true -> get_time tc fr off = Ok t ->
  exists d', forall next, translate_word (RS pm st tk (LWord lw) d (tb txt p) time tc fr off) h next =
    RS (head_paint pm h) (head_stash pm h (create_and_store st (tb txt p) time 0) t) tk (LWord h) d' creator0
       t tc (fr + 1) off.
Proof.
  intros h pm st tk lw d txt p time tc fr off t Hh Hl Hn Ht. destruct txt as [|c0 txt]; [discriminate Hn|].
  set (s := RS pm st tk (LWord lw) d (tb (c0 :: txt) p) time tc fr off).
  assert (T : tab_of h = None) by (cbn [In] in Hh; destruct Hh as [<-|[<-|[<-|[<-|[<-|[]]]]]]; vm_compute; reflexivity).
  destruct (hd_fresh s h Hl T) as [d' Hd]. exists d'. intros next.
  rewrite (tw_exec s h next d' eq_refl Hd). subst s.
  cbn [In] in Hh; destruct Hh as [<-|[<-|[<-|[<-|[<-|[]]]]]]; destruct pm;
    lazy -[get_time create_and_store correct_last_timing Z.add];
    repeat (rewrite Ht; lazy -[get_time create_and_store correct_last_timing Z.add]); reflexivity.
Qed.

(* the first mode command of the file *)
Lemma tw_first : forall h off tc t, In h [w_ru2; w_ru3; w_ru4; w_rdc] -> get_time tc 0 off = Ok t ->
  exists d', forall next, translate_word (set_clock (rstate0 off) tc 0) h next =
    RS (h =? w_rdc) stash0 tracker0 (LWord h) d' creator0 t tc (0 + 1) off.
Proof.
  intros h off tc t Hh Ht. exists false. intros next.
  cbn [In] in Hh; destruct Hh as [<-|[<-|[<-|[<-|[]]]]];
    lazy -[get_time Z.add]; rewrite Ht; reflexivity.
Qed.

(* a carriage return on an empty buffer does nothing *)
Lemma tw_cr_empty : forall pm st tk l d time tc fr off, last_contains l w_cr = false ->
  exists d', forall next, translate_word (RS pm st tk l d creator0 time tc fr off) w_cr next =
    RS pm st tk (LWord w_cr) d' creator0 time tc (fr + 1) off.
Proof.
  intros pm st tk l d time tc fr off Hl.
  set (s := RS pm st tk l d creator0 time tc fr off).
  destruct (hd_fresh s w_cr Hl eq_refl) as [d' Hd]. exists d'. intros next.
  rewrite (tw_exec s w_cr next d' eq_refl Hd). subst s.
  destruct pm; lazy -[Z.add]; reflexivity.
Qed.

(* a preamble address code (not an italics one) on an empty buffer: the tracker is reset to that row *)
Definition plain_pac (w : Z) : bool := is_pac w && negb (memz w scc_italics_commands).
Definition tkp (p : pos) : tracker := mkTk [p] None false p.

Lemma interpret_pac_empty : forall tk w p next, plain_pac w = true -> pac_pos w = Some p ->
  interpret_command tk creator0 w next = (tkp p, creator0, None).
Proof.
  intros tk w p next Hw Hp. unfold plain_pac in Hw. apply andb_true_iff in Hw. destruct Hw as [Hpac Hit].
  apply negb_true_iff in Hit.
  destruct classes_disjoint as (_ & _ & Dpac & _). destruct (Dpac w Hpac) as (Ht & Hm & Hb & Hn).
  assert (Hbs : (w =? w_bs) = false) by (apply Z.eqb_neq; intros ->; apply Hn; cbn [In]; tauto).
  unfold interpret_command, update_positioning. rewrite Ht, Hp, Hbs, Hb, Hit, Hm. cbn [cr_nodes creator0 cr_style andb].
  destruct (memz w scc_style_setting_commands); reflexivity.
Qed.

Lemma tw_pac : forall w p pm st tk l d time tc fr off, plain_pac w = true -> pac_pos w = Some p ->
  last_contains l w = false ->
  exists d', forall next, translate_word (RS pm st tk l d creator0 time tc fr off) w next =
    RS pm st (tkp p) (LWord w) d' creator0 time tc (fr + 1) off.
Proof.
  intros w p pm st tk l d time tc fr off Hw Hp Hl.
  pose proof Hw as Hw'. unfold plain_pac in Hw'. apply andb_true_iff in Hw'. destruct Hw' as [Hpac _].
  destruct classes_disjoint as (_ & _ & Dpac & _). destruct (Dpac w Hpac) as (Ht & Hm & Hb & Hn).
  set (s := RS pm st tk l d creator0 time tc fr off).
  destruct (hd_fresh s w Hl Ht) as [d' Hd]. exists d'. intros next.
  rewrite (tw_exec s w next d' eq_refl Hd). subst s. cbv zeta.
  destruct (exec_cmd (set_dbl (RS pm st tk l d creator0 time tc fr off) (LWord w) d') w next) as [E _];
    [rewrite Hpac; apply orb_true_r|]. rewrite E.
  rewrite tc_other by (intros Hin; apply Hn; cbn [In] in *; tauto).
  unfold do_interpret.
  assert (B : buf (set_dbl (RS pm st tk l d creator0 time tc fr off) (LWord w) d') = creator0) by (destruct pm; reflexivity).
  rewrite B. cbn [r_tk set_dbl RS]. rewrite (interpret_pac_empty tk w p next Hw Hp).
  destruct pm; reflexivity.
Qed.

(* character pairs *)
Definition is_none {A} (o : option A) : bool := match o with Some _ => false | None => true end.
Definition char_word (w : Z) : bool :=
  negb (is_command w) && negb (is_pac w) && is_none (special_of w) && is_none (extended_of w) && is_none (tab_of w)
  && negb (is_none (char_of (hi w))) && negb (is_none (char_of (lo w))).

Definition ob (o : option str) (p : pos) : creator := match o with None => creator0 | Some t => tb t p end.
Definition otext (o : option str) : str := match o with None => [] | Some t => t end.

Lemma add_chars_ob : forall o p s, add_chars (tkp p) (ob o p) s = (tkp p, tb (otext o ++ s) p).
Proof. intros [t|] p s; reflexivity. Qed.

Lemma char_word_spec : forall w, char_word w = true ->
  is_command w = false /\ is_pac w = false /\ special_of w = None /\ extended_of w = None /\ tab_of w = None /\
  exists a b, char_of (hi w) = Some a /\ char_of (lo w) = Some b /\ word_chars w = a ++ b.
Proof.
  intros w H. unfold char_word in H. rewrite !andb_true_iff in H. destruct H as [[[[[[H1 H2] H3] H4] H5] H6] H7].
  apply negb_true_iff in H1, H2. unfold word_chars. rewrite H1, H2. cbn [orb].
  destruct (special_of w); [discriminate|]. destruct (extended_of w); [discriminate|].
  destruct (tab_of w); [discriminate|]. destruct (char_of (hi w)) as [a|]; [|discriminate].
  destruct (char_of (lo w)) as [b|]; [|discriminate]. repeat split; try reflexivity. exists a, b. repeat split.
Qed.

Lemma tw_char : forall w p pm st l d o time tc fr off, char_word w = true ->
  exists d', forall next, translate_word (RS pm st (tkp p) l d (ob o p) time tc fr off) w next =
    RS pm st (tkp p) (LWord w) d' (ob (Some (otext o ++ word_chars w)) p) time tc (fr + 1) off.
Proof.
  intros w p pm st l d o time tc fr off Hw.
  destruct (char_word_spec w Hw) as (H1 & H2 & H3 & H4 & H5 & a & b & Ha & Hb & Hc).
  set (s := RS pm st (tkp p) l d (ob o p) time tc fr off).
  destruct (hd_char s w H1 H2 H3 H4 H5) as [d' Hd]. exists d'. intros next.
  rewrite (tw_exec s w next d' eq_refl Hd). subst s. cbv zeta.
  unfold exec. rewrite H1, H2, H3, H4, Ha, Hb. cbn [orb]. unfold add_to_buf.
  assert (B : buf (set_dbl (RS pm st (tkp p) l d (ob o p) time tc fr off) (LWord w) d') = ob o p) by (destruct pm; reflexivity).
  rewrite B. cbn [r_tk set_dbl RS]. rewrite add_chars_ob, Hc. destruct pm; reflexivity.
Qed.

(* ---- control codes sent once or twice ---------------------------------------------------------------------------- *)
Definition ctl (dd : bool) (w : Z) : list Z := if dd then [w; w] else [w].
Definition cl_last (dd : bool) (w : Z) : lastcmd := if dd then LNone else LWord w.

Lemma RS_frames : forall pm st tk l d b time tc fr fr' off, fr = fr' ->
  RS pm st tk l d b time tc fr off = RS pm st tk l d b time tc fr' off.
Proof. intros. subst. reflexivity. Qed.

Lemma tws_ctl : forall dd w rest s pm st tk b time tc fr off, (is_command w || is_pac w) = true ->
  (exists d1, forall next, translate_word s w next = RS pm st tk (LWord w) d1 b time tc fr off) ->
  exists d2, translate_words s (ctl dd w ++ rest) =
    translate_words (RS pm st tk (cl_last dd w) d2 b time tc (fr + Z.of_nat (length (ctl dd w)) - 1) off) rest.
Proof.
  intros dd w rest s pm st tk b time tc fr off C [d1 H]. destruct dd; cbn [ctl app translate_words cl_last length].
  - rewrite H.
    destruct (tw_second (RS pm st tk (LWord w) d1 b time tc fr off) w
                (match rest with n :: _ => Some n | [] => None end) eq_refl eq_refl C) as [d2 E].
    rewrite E. exists d2. f_equal. change (bump (set_dbl (RS pm st tk (LWord w) d1 b time tc fr off) LNone d2))
      with (RS pm st tk LNone d2 b time tc (fr + 1) off). apply RS_frames. lia.
  - rewrite H. exists d1. f_equal. apply RS_frames. lia.
Qed.

(* ---- a run of character pairs ------------------------------------------------------------------------------------- *)
Definition words_text (ws : list Z) : str := concat (map word_chars ws).

Lemma tws_chars : forall ws w p pm st l d o time tc fr off, forallb char_word (w :: ws) = true ->
  exists lw d', is_command lw = false /\
    translate_words (RS pm st (tkp p) l d (ob o p) time tc fr off) (w :: ws) =
    RS pm st (tkp p) (LWord lw) d' (tb (otext o ++ words_text (w :: ws)) p) time tc (fr + Z.of_nat (length (w :: ws))) off.
Proof.
  induction ws as [|w2 ws IH]; intros w p pm st l d o time tc fr off H.
  - cbn [forallb] in H. rewrite andb_true_r in H. destruct (tw_char w p pm st l d o time tc fr off H) as [d' E].
    exists w, d'. split; [apply (char_word_spec w H)|]. cbn [translate_words]. rewrite E.
    unfold words_text. cbn [map concat ob length]. rewrite app_nil_r. apply RS_frames. lia.
  - cbn [forallb] in H. apply andb_true_iff in H. destruct H as [Hw H].
    destruct (tw_char w p pm st l d o time tc fr off Hw) as [d1 E].
    change (translate_words ?s (w :: w2 :: ws)) with (translate_words (translate_word s w (Some w2)) (w2 :: ws)).
    rewrite E.
    destruct (IH w2 p pm st (LWord w) d1 (Some (otext o ++ word_chars w)) time tc (fr + 1) off H) as (lw & d' & Hlw & E2).
    exists lw, d'. split; [exact Hlw|]. rewrite E2. cbn [otext]. unfold words_text. cbn [map concat].
    rewrite <- app_assoc. replace (fr + 1 + Z.of_nat (length (w2 :: ws))) with (fr + Z.of_nat (length (w :: w2 :: ws)))
      by (cbn [length]; lia). reflexivity.
Qed.

(* ---- programs ------------------------------------------------------------------------------------------------------ *)
Inductive depth : Type := D2 | D3 | D4.
Definition ru_word (n : depth) : Z := match n with D2 => w_ru2 | D3 => w_ru3 | D4 => w_ru4 end.

(* the head of a line: RU2/RU3/RU4 optionally followed by a carriage return; a bare carriage return; RDC *)
Inductive rhead : Type := HRu (n : depth) (cr : bool) | HCr | HRdc.
Record rseg : Type := mkSeg { sg_tc : str; sg_head : rhead; sg_pac : Z; sg_chars : list Z }.

Definition head_word (h : rhead) : Z := match h with HRu n _ => ru_word n | HCr => w_cr | HRdc => w_rdc end.
Definition head_words (dd : bool) (h : rhead) : list Z :=
  match h with
  | HRu n cr => ctl dd (ru_word n) ++ (if cr then ctl dd w_cr else [])
  | HCr => ctl dd w_cr
  | HRdc => ctl dd w_rdc
  end.
Definition rseg_words (dd : bool) (g : rseg) : list Z := head_words dd (sg_head g) ++ ctl dd (sg_pac g) ++ sg_chars g.
Definition rseg_line (dd : bool) (g : rseg) : sline := (sg_tc g, rseg_words dd g).

Definition seg_text (g : rseg) : str := words_text (sg_chars g).
Definition seg_pos (g : rseg) : pos := match pac_pos (sg_pac g) with Some p => p | None => (0, 0) end.
Definition nil_b' (l : list str) : bool := match l with [] => true | _ => false end.
(* well-formed line: a non-italics preamble address code; character pairs only; the row has a non-blank character and,
   once its trailing blanks are stripped, no line above 32 characters *)
Definition seg_ok (g : rseg) : bool :=
  plain_pac (sg_pac g) && forallb char_word (sg_chars g) && nonempty (rstrip (seg_text g))
  && nil_b' (filter spec_long (spec_lines (rstrip (seg_text g)))).

Definition ctl_last (l : lastcmd) : Prop :=
  l = LNone \/ exists x, l = LWord x /\ In x [w_rcl; w_bs; w_ru2; w_ru3; w_ru4; w_rdc; w_edm; w_cr; w_enm; w_eoc].

Lemma ctl_last_cl : forall dd x, In x [w_rcl; w_bs; w_ru2; w_ru3; w_ru4; w_rdc; w_edm; w_cr; w_enm; w_eoc] ->
  ctl_last (cl_last dd x).
Proof. intros [|] x H; [left; reflexivity|right; exists x; split; [reflexivity|exact H]]. Qed.

Lemma ctl_last_pac : forall l w, ctl_last l -> is_pac w = true -> last_contains l w = false.
Proof.
  intros l w [->|(x & -> & Hx)] Hw; [reflexivity|]. cbn [last_contains].
  destruct classes_disjoint as (_ & _ & Dpac & _). destruct (Dpac w Hw) as (_ & _ & _ & Hn).
  apply Z.eqb_neq. intros ->. exact (Hn Hx).
Qed.

(* ---- the body of a line: preamble address code and characters, on an empty buffer ------------------------------------ *)
Lemma seg_ok_spec : forall g, seg_ok g = true ->
  plain_pac (sg_pac g) = true /\ pac_pos (sg_pac g) = Some (seg_pos g) /\ is_pac (sg_pac g) = true /\
  (exists w ws, sg_chars g = w :: ws /\ forallb char_word (w :: ws) = true) /\
  nonempty (rstrip (seg_text g)) = true /\ filter spec_long (spec_lines (rstrip (seg_text g))) = [].
Proof.
  intros g H. unfold seg_ok in H. rewrite !andb_true_iff in H. destruct H as [[[H1 H2] H3] H4].
  pose proof H1 as H1'. unfold plain_pac in H1'. apply andb_true_iff in H1'. destruct H1' as [Hp _].
  split; [exact H1|]. split.
  - unfold seg_pos. unfold is_pac in Hp. destruct (pac_pos (sg_pac g)); [reflexivity|discriminate].
  - split; [exact Hp|]. split; [|split; [exact H3|]].
    + unfold seg_text in H3. destruct (sg_chars g) as [|w ws]; [discriminate H3|]. exists w, ws. split; [reflexivity|exact H2].
    + destruct (filter _ _); [reflexivity|discriminate].
Qed.

Lemma tws_body : forall dd g pm st tk l d time tc fr off, seg_ok g = true -> ctl_last l ->
  exists lw d', is_command lw = false /\
    translate_words (RS pm st tk l d creator0 time tc fr off) (ctl dd (sg_pac g) ++ sg_chars g) =
    RS pm st (tkp (seg_pos g)) (LWord lw) d' (tb (seg_text g) (seg_pos g)) time tc
       (fr + Z.of_nat (length (ctl dd (sg_pac g) ++ sg_chars g))) off.
Proof.
  intros dd g pm st tk l d time tc fr off Hg Hl.
  destruct (seg_ok_spec g Hg) as (Hpp & Hpos & Hpac & (w & ws & Ews & Hws) & _ & _).
  destruct (tws_ctl dd (sg_pac g) (sg_chars g) _ pm st (tkp (seg_pos g)) creator0 time tc (fr + 1) off
              ltac:(rewrite Hpac; apply orb_true_r)
              (tw_pac (sg_pac g) (seg_pos g) pm st tk l d time tc fr off Hpp Hpos (ctl_last_pac l _ Hl Hpac)))
    as [d2 E].
  rewrite E. unfold seg_text. rewrite Ews.
  destruct (tws_chars ws w (seg_pos g) pm st (cl_last dd (sg_pac g)) d2 None time tc
              (fr + 1 + Z.of_nat (length (ctl dd (sg_pac g))) - 1) off Hws) as (lw & d' & Hlw & E2).
  exists lw, d'. split; [exact Hlw|]. change creator0 with (ob None (seg_pos g)). rewrite E2. cbn [otext app].
  apply RS_frames. rewrite app_length. lia.
Qed.

(* ---- the head of a line --------------------------------------------------------------------------------------------- *)
Lemma head_word_cmd : forall h, is_command (head_word h) = true.
Proof. intros [[| |] cr| |]; vm_compute; reflexivity. Qed.

Lemma head_word_in : forall h, In (head_word h) [w_ru2; w_ru3; w_ru4; w_rdc; w_cr].
Proof. intros [[| |] cr| |]; cbn [head_word ru_word In]; tauto. Qed.

Lemma head_word_ctrl : forall h, In (head_word h) [w_rcl; w_bs; w_ru2; w_ru3; w_ru4; w_rdc; w_edm; w_cr; w_enm; w_eoc].
Proof. intros [[| |] cr| |]; cbn [head_word ru_word In]; tauto. Qed.

Lemma tws_head : forall dd h rest s pm st tk t tc fr off,
  (exists d1, forall next, translate_word s (head_word h) next =
                           RS pm st tk (LWord (head_word h)) d1 creator0 t tc (fr + 1) off) ->
  exists l2 d2, ctl_last l2 /\
    translate_words s (head_words dd h ++ rest) =
    translate_words (RS pm st tk l2 d2 creator0 t tc (fr + Z.of_nat (length (head_words dd h))) off) rest.
Proof.
  intros dd h rest s pm st tk t tc fr off H.
  assert (C : (is_command (head_word h) || is_pac (head_word h)) = true) by (rewrite head_word_cmd; reflexivity).
  destruct h as [n cr| |].
  - cbn [head_words]. rewrite <- app_assoc.
    destruct (tws_ctl dd (ru_word n) ((if cr then ctl dd w_cr else []) ++ rest) s pm st tk creator0 t tc (fr + 1) off C H)
      as [d2 E]. rewrite E. destruct cr.
    + assert (L : last_contains (cl_last dd (ru_word n)) w_cr = false) by (destruct dd, n; reflexivity).
      destruct (tws_ctl dd w_cr rest _ pm st tk creator0 t tc
                  (fr + 1 + Z.of_nat (length (ctl dd (ru_word n))) - 1 + 1) off eq_refl
                  (tw_cr_empty pm st tk (cl_last dd (ru_word n)) d2 t tc _ off L)) as [d3 E3].
      rewrite E3. exists (cl_last dd w_cr), d3. split; [apply ctl_last_cl; cbn [In]; tauto|].
      f_equal. apply RS_frames. rewrite app_length. lia.
    + exists (cl_last dd (ru_word n)), d2. split; [apply ctl_last_cl; exact (head_word_ctrl (HRu n false))|].
      cbn [app]. f_equal. apply RS_frames. rewrite app_nil_r. lia.
  - cbn [head_words]. destruct (tws_ctl dd w_cr rest s pm st tk creator0 t tc (fr + 1) off C H) as [d2 E].
    rewrite E. exists (cl_last dd w_cr), d2. split; [apply ctl_last_cl; cbn [In]; tauto|].
    f_equal. apply RS_frames. lia.
  - cbn [head_words]. destruct (tws_ctl dd w_rdc rest s pm st tk creator0 t tc (fr + 1) off C H) as [d2 E].
    rewrite E. exists (cl_last dd w_rdc), d2. split; [apply ctl_last_cl; cbn [In]; tauto|].
    f_equal. apply RS_frames. lia.
Qed.

(* ---- one line --------------------------------------------------------------------------------------------------------- *)
Lemma tws_line : forall dd g s pm st tk t off, seg_ok g = true ->
  (exists d1, forall next, translate_word s (head_word (sg_head g)) next =
                           RS pm st tk (LWord (head_word (sg_head g))) d1 creator0 t (sg_tc g) (0 + 1) off) ->
  exists lw d', is_command lw = false /\
    translate_words s (rseg_words dd g) =
    RS pm st (tkp (seg_pos g)) (LWord lw) d' (tb (seg_text g) (seg_pos g)) t (sg_tc g)
       (Z.of_nat (length (rseg_words dd g))) off.
Proof.
  intros dd g s pm st tk t off Hg H. unfold rseg_words.
  destruct (tws_head dd (sg_head g) (ctl dd (sg_pac g) ++ sg_chars g) s pm st tk t (sg_tc g) 0 off H)
    as (l2 & d2 & Hl2 & E). rewrite E.
  destruct (tws_body dd g pm st tk l2 d2 t (sg_tc g) (0 + Z.of_nat (length (head_words dd (sg_head g)))) off Hg Hl2)
    as (lw & d' & Hlw & E2). exists lw, d'. split; [exact Hlw|]. rewrite E2. apply RS_frames.
  rewrite (app_length (head_words dd (sg_head g))). lia.
Qed.

Definition seg_paint (pm : bool) (g : rseg) : bool := head_paint pm (head_word (sg_head g)).
Definition seg_rolls (pm : bool) (g : rseg) : bool :=
  (head_word (sg_head g) =? w_cr) || ((head_word (sg_head g) =? w_rdc) && negb pm).
(* the event of a line that is not the first one: what its head command does to the non-empty buffer of the line before *)
Definition seg_event (pm : bool) (g : rseg) (t : Q) : rpev := if seg_rolls pm g then RRoll t else RPaint t.

Lemma cmd_neq : forall lw h, is_command lw = false -> is_command h = true -> (lw =? h) = false.
Proof. intros lw h H1 H2. apply Z.eqb_neq. intros ->. congruence. Qed.

Lemma line_later : forall dd g pm st tk lw d txt p time tc0 fr0 off t,
  seg_ok g = true -> is_command lw = false -> nonempty txt = true -> get_time (sg_tc g) 0 off = Ok t ->
  exists lw' d', is_command lw' = false /\
    translate_line (RS pm st tk (LWord lw) d (tb txt p) time tc0 fr0 off) (rseg_line dd g) =
    RS (seg_paint pm g) (head_stash pm (head_word (sg_head g)) (create_and_store st (tb txt p) time 0) t)
       (tkp (seg_pos g)) (LWord lw') d' (tb (seg_text g) (seg_pos g)) t (sg_tc g)
       (Z.of_nat (length (rseg_words dd g))) off.
Proof.
  intros dd g pm st tk lw d txt p time tc0 fr0 off t Hg Hlw Hn Ht.
  change (translate_line (RS pm st tk (LWord lw) d (tb txt p) time tc0 fr0 off) (rseg_line dd g))
    with (translate_words (RS pm st tk (LWord lw) d (tb txt p) time (sg_tc g) 0 off) (rseg_words dd g)).
  eapply tws_line; [exact Hg|].
  apply tw_head'; [apply head_word_in|apply cmd_neq; [exact Hlw|apply head_word_cmd]|exact Hn|exact Ht].
Qed.

Lemma line_first : forall dd g off t, seg_ok g = true -> sg_head g <> HCr -> get_time (sg_tc g) 0 off = Ok t ->
  exists lw' d', is_command lw' = false /\
    translate_line (rstate0 off) (rseg_line dd g) =
    RS (seg_paint false g) stash0 (tkp (seg_pos g)) (LWord lw') d' (tb (seg_text g) (seg_pos g)) t (sg_tc g)
       (Z.of_nat (length (rseg_words dd g))) off.
Proof.
  intros dd g off t Hg Hh Ht.
  change (translate_line (rstate0 off) (rseg_line dd g))
    with (translate_words (set_clock (rstate0 off) (sg_tc g) 0) (rseg_words dd g)).
  assert (P : seg_paint false g = (head_word (sg_head g) =? w_rdc)).
  { unfold seg_paint. destruct (sg_head g) as [[| |] cr| |]; reflexivity. }
  rewrite P. eapply tws_line; [exact Hg|]. apply tw_first; [|exact Ht].
  destruct (sg_head g) as [[| |] cr| |]; cbn [head_word ru_word In]; try tauto; congruence.
Qed.

(* ---- the same step on the event-level model ----------------------------------------------------------------------------- *)
Lemma tcap_nodes : forall s e txt p, has_nodes (tcap s e txt p) = true.
Proof. reflexivity. Qed.

Lemma rpstep_seg : forall pm g t st txt p time, nonempty (rstrip txt) = true ->
  rpstep (sabs st, time) (seg_event pm g t) =
  (sabs (head_stash pm (head_word (sg_head g)) (create_and_store st (tb txt p) time 0) t), t).
Proof.
  intros pm g t st txt p time H. rewrite store_tb by exact H. unfold seg_event, head_stash. fold (seg_rolls pm g).
  destruct (seg_rolls pm g); cbn [rpstep].
  - rewrite sabs_correct_last_timing, sabs_extend1 by apply tcap_nodes. reflexivity.
  - rewrite sabs_extend1 by apply tcap_nodes. reflexivity.
Qed.

Lemma short_lines_store : forall st txt p time, short_lines st -> nonempty (rstrip txt) = true ->
  filter spec_long (spec_lines (rstrip txt)) = [] -> short_lines (create_and_store st (tb txt p) time 0).
Proof.
  intros st txt p time H Hn Hs. rewrite store_tb by exact Hn. apply short_lines_extend1; [apply tcap_nodes|exact H|].
  unfold cap_text, tcap. cbn [pc_nodes map node_text concat]. rewrite app_nil_r. exact Hs.
Qed.

Lemma short_lines_head : forall pm h st t, short_lines st -> short_lines (head_stash pm h st t).
Proof. intros pm h st t H. unfold head_stash. destruct (_ || _); [apply short_lines_correct|]; exact H. Qed.

(* ---- all the later lines ------------------------------------------------------------------------------------------------- *)
Fixpoint rp_events (off : Q) (pm : bool) (gs : list rseg) : result (list rpev) :=
  match gs with
  | [] => Ok []
  | g :: r =>
      match get_time (sg_tc g) 0 off with
      | Ok t => match rp_events off (seg_paint pm g) r with Ok l => Ok (seg_event pm g t :: l) | Err e => Err e end
      | Err e => Err e
      end
  end.
Fixpoint final_paint (pm : bool) (gs : list rseg) : bool :=
  match gs with [] => pm | g :: r => final_paint (seg_paint pm g) r end.

Lemma run_later : forall dd off gs cur pm st tk lw d time evs,
  forallb seg_ok gs = true -> seg_ok cur = true -> is_command lw = false -> short_lines st ->
  rp_events off pm gs = Ok evs ->
  exists st' tk' lw' d' time',
    fold_left translate_line (map (rseg_line dd) gs)
      (RS pm st tk (LWord lw) d (tb (seg_text cur) (seg_pos cur)) time (sg_tc cur)
          (Z.of_nat (length (rseg_words dd cur))) off)
    = RS (final_paint pm gs) st' tk' (LWord lw') d' (tb (seg_text (last gs cur)) (seg_pos (last gs cur))) time'
         (sg_tc (last gs cur)) (Z.of_nat (length (rseg_words dd (last gs cur)))) off
    /\ fold_left rpstep evs (sabs st, time) = (sabs st', time') /\ short_lines st'.
Proof.
  intros dd off gs. induction gs as [|g gs IH]; intros cur pm st tk lw d time evs Hgs Hcur Hlw Hst Hev.
  - cbn [rp_events] in Hev. inversion Hev; subst evs. exists st, tk, lw, d, time. repeat split. exact Hst.
  - cbn [forallb] in Hgs. apply andb_true_iff in Hgs. destruct Hgs as [Hg Hgs].
    cbn [rp_events] in Hev. destruct (get_time (sg_tc g) 0 off) as [t|] eqn:Ht; [|discriminate].
    destruct (rp_events off (seg_paint pm g) gs) as [evs'|] eqn:Hev'; [|discriminate]. inversion Hev; subst evs. clear Hev.
    destruct (seg_ok_spec cur Hcur) as (_ & _ & _ & _ & Hn & Hs).
    cbn [map fold_left].
    destruct (line_later dd g pm st tk lw d (seg_text cur) (seg_pos cur) time (sg_tc cur)
                (Z.of_nat (length (rseg_words dd cur))) off t Hg Hlw (nonempty_rstrip _ Hn) Ht) as (lw1 & d1 & Hlw1 & E).
    rewrite E.
    set (st1 := head_stash pm (head_word (sg_head g)) (create_and_store st (tb (seg_text cur) (seg_pos cur)) time 0) t).
    assert (Hst1 : short_lines st1) by (apply short_lines_head, short_lines_store; assumption).
    destruct (IH g (seg_paint pm g) st1 (tkp (seg_pos g)) lw1 d1 t evs' Hgs Hg Hlw1 Hst1 Hev')
      as (st' & tk' & lw' & d' & time' & E2 & F & Hs').
    exists st', tk', lw', d', time'. split; [|split; [|exact Hs']].
    + rewrite E2. cbn [final_paint]. rewrite last_cons. reflexivity.
    + cbn [fold_left]. rewrite (rpstep_seg pm g t st (seg_text cur) (seg_pos cur) time Hn). exact F.
Qed.

(* ---- the end of the file -------------------------------------------------------------------------------------------------- *)
Lemma flush_RS : forall pm st tk l d txt p time tc fr off tend, nonempty txt = true ->
  (pm = false -> get_time tc fr off = Ok tend) ->
  let s := flush_implicit (RS pm st tk l d (tb txt p) time tc fr off) in
  r_err s = None /\
  r_stash s = if pm then create_and_store st (tb txt p) time 0
              else correct_last_timing (create_and_store st (tb txt p) time 0) tend.
Proof.
  intros pm st tk l d txt p time tc fr off tend Hn Ht. destruct txt as [|c0 txt]; [discriminate Hn|]. destruct pm.
  - lazy -[get_time create_and_store correct_last_timing]. split; reflexivity.
  - specialize (Ht eq_refl). lazy -[get_time create_and_store correct_last_timing]. rewrite Ht. split; reflexivity.
Qed.

Theorem rp_link : forall dd off g0 gs t0 evs tend,
  sg_head g0 <> HCr -> forallb seg_ok (g0 :: gs) = true ->
  get_time (sg_tc g0) 0 off = Ok t0 ->
  rp_events off (seg_paint false g0) gs = Ok evs ->
  (final_paint (seg_paint false g0) gs = false ->
   get_time (sg_tc (last gs g0)) (Z.of_nat (length (rseg_words dd (last gs g0)))) off = Ok tend) ->
  spans_of (read off (map (rseg_line dd) (g0 :: gs))) =
  rp_read t0 (evs ++ (if final_paint (seg_paint false g0) gs then [] else [RRoll tend]))
          (final_paint (seg_paint false g0) gs).
Proof.
  intros dd off g0 gs t0 evs tend Hh Hok Ht0 Hev Hend.
  cbn [forallb] in Hok. apply andb_true_iff in Hok. destruct Hok as [Hg0 Hgs].
  unfold read, run_lines. cbv zeta. cbn [map fold_left].
  destruct (line_first dd g0 off t0 Hg0 Hh Ht0) as (lw0 & d0 & Hlw0 & E0). rewrite E0.
  destruct (run_later dd off gs g0 (seg_paint false g0) stash0 (tkp (seg_pos g0)) lw0 d0 t0 evs Hgs Hg0 Hlw0 eq_refl Hev)
    as (st' & tk' & lw' & d' & time' & E & F & Hs').
  rewrite E. set (pmN := final_paint (seg_paint false g0) gs) in *. set (gl := last gs g0) in *.
  assert (Hgl : seg_ok gl = true).
  { unfold gl. clear -Hg0 Hgs. revert g0 Hg0. induction gs as [|g gs IH]; intros g0 Hg0; [exact Hg0|].
    cbn [forallb] in Hgs. apply andb_true_iff in Hgs. destruct Hgs as [Hg Hgs]. rewrite last_cons. apply IH; assumption. }
  destruct (seg_ok_spec gl Hgl) as (_ & _ & _ & _ & Hn & Hsh).
  change (r_err (RS pmN st' tk' (LWord lw') d' (tb (seg_text gl) (seg_pos gl)) time' (sg_tc gl)
                    (Z.of_nat (length (rseg_words dd gl))) off)) with (@None err). cbv iota.
  destruct (flush_RS pmN st' tk' (LWord lw') d' (seg_text gl) (seg_pos gl) time' (sg_tc gl)
              (Z.of_nat (length (rseg_words dd gl))) off tend (nonempty_rstrip _ Hn) Hend) as [Ee Es].
  rewrite Ee, Es.
  assert (Hst : short_lines (create_and_store st' (tb (seg_text gl) (seg_pos gl)) time' 0))
    by (apply short_lines_store; assumption).
  unfold rp_read, rprun. rewrite fold_left_app, sabs_stash0 in *. rewrite F.
  rewrite store_tb in * by exact Hn. destruct pmN.
  - rewrite finish_read_sabs by exact Hst. cbn [fold_left].
    rewrite sabs_extend1 by apply tcap_nodes. reflexivity.
  - rewrite finish_read_sabs by (apply short_lines_correct; exact Hst). cbn [fold_left rpstep].
    rewrite sabs_correct_last_timing, sabs_extend1 by apply tcap_nodes. reflexivity.
Qed.


(* ================================================================================================================== *)
(* 3. composed with the chain theorems of proofs/SccRollPaintFacts.v: statements about `read`                          *)
(* ================================================================================================================== *)
Definition link_events (g0 : rseg) (gs : list rseg) (evs : list rpev) (tend : Q) : list rpev :=
  evs ++ (if final_paint (seg_paint false g0) gs then [] else [RRoll tend]).

Lemma nonneg_of_times : forall t0 evs, (0 <= t0)%Q -> Forall (fun t => (0 < t)%Q) (map rp_time evs) -> rp_nonneg t0 evs.
Proof.
  intros t0 evs H0 H. split; [exact H0|]. intros e He. rewrite Forall_forall in H. apply H. apply in_map. exact He.
Qed.

(* the spans `read` returns are the chain through the instants of the flushing commands *)
Theorem read_rp_chain : forall dd off g0 gs t0 evs tend,
  sg_head g0 <> HCr -> forallb seg_ok (g0 :: gs) = true ->
  get_time (sg_tc g0) 0 off = Ok t0 ->
  rp_events off (seg_paint false g0) gs = Ok evs ->
  (final_paint (seg_paint false g0) gs = false ->
   get_time (sg_tc (last gs g0)) (Z.of_nat (length (rseg_words dd (last gs g0)))) off = Ok tend) ->
  rp_nonneg t0 (link_events g0 gs evs tend) ->
  spans_of (read off (map (rseg_line dd) (g0 :: gs))) =
  rp_expected_all t0 (link_events g0 gs evs tend) (final_paint (seg_paint false g0) gs).
Proof.
  intros dd off g0 gs t0 evs tend Hh Hok Ht0 Hev Hend Hnn.
  rewrite (rp_link dd off g0 gs t0 evs tend Hh Hok Ht0 Hev Hend). apply rp_chain_all_nonneg. exact Hnn.
Qed.

(* start < end, ordered by start, and each caption ends exactly when the next one begins *)
Theorem read_rp_ordered : forall dd off g0 gs t0 evs tend l,
  sg_head g0 <> HCr -> forallb seg_ok (g0 :: gs) = true ->
  get_time (sg_tc g0) 0 off = Ok t0 ->
  rp_events off (seg_paint false g0) gs = Ok evs ->
  (final_paint (seg_paint false g0) gs = false ->
   get_time (sg_tc (last gs g0)) (Z.of_nat (length (rseg_words dd (last gs g0)))) off = Ok tend) ->
  rp_nonneg t0 (link_events g0 gs evs tend) ->
  increasing t0 (map rp_time (link_events g0 gs evs tend)) ->
  spans_of (read off (map (rseg_line dd) (g0 :: gs))) = Ok l ->
  Forall (fun p => (fst p < snd p)%Q) l /\
  (forall i a b, nth_error l i = Some a -> nth_error l (S i) = Some b -> (fst a < fst b)%Q /\ snd a = fst b).
Proof.
  intros dd off g0 gs t0 evs tend l Hh Hok Ht0 Hev Hend Hnn Hinc Hr.
  rewrite (rp_link dd off g0 gs t0 evs tend Hh Hok Ht0 Hev Hend) in Hr.
  exact (rp_chain_ordered _ _ _ _ Hnn Hinc Hr).
Qed.

(* ---- the three pure layouts ----------------------------------------------------------------------------------------- *)
Fixpoint instants (off : Q) (gs : list rseg) : result (list Q) :=
  match gs with
  | [] => Ok []
  | g :: r => match get_time (sg_tc g) 0 off with
              | Ok t => match instants off r with Ok l => Ok (t :: l) | Err e => Err e end
              | Err e => Err e
              end
  end.
Definition is_ru (g : rseg) : bool := match sg_head g with HRu _ _ => true | _ => false end.
Definition is_cr (g : rseg) : bool := match sg_head g with HCr => true | _ => false end.
Definition is_rdc (g : rseg) : bool := match sg_head g with HRdc => true | _ => false end.

Lemma events_ru : forall off gs pm ts, forallb is_ru gs = true -> instants off gs = Ok ts ->
  rp_events off pm gs = Ok (map RPaint ts) /\ final_paint pm gs = match gs with [] => pm | _ => false end.
Proof.
  intros off gs. induction gs as [|g gs IH]; intros pm ts H Hi.
  - inversion Hi. split; reflexivity.
  - cbn [forallb] in H. apply andb_true_iff in H. destruct H as [Hg H]. cbn [instants rp_events final_paint] in *.
    destruct (get_time (sg_tc g) 0 off) as [t|]; [|discriminate].
    destruct (instants off gs) as [ts'|]; [|discriminate]. inversion Hi; subst ts. clear Hi.
    assert (P : seg_paint pm g = false /\ seg_event pm g t = RPaint t).
    { unfold seg_paint, seg_event, seg_rolls, is_ru in *. destruct (sg_head g) as [[| |] cr| |]; try discriminate Hg;
        split; reflexivity. }
    destruct P as [P1 P2]. rewrite P1, P2. destruct (IH false ts' H eq_refl) as [E F]. rewrite E, F.
    split; [reflexivity|]. destruct gs; reflexivity.
Qed.

Lemma events_cr : forall off gs pm ts, forallb is_cr gs = true -> instants off gs = Ok ts ->
  rp_events off pm gs = Ok (map RRoll ts) /\ final_paint pm gs = pm.
Proof.
  intros off gs. induction gs as [|g gs IH]; intros pm ts H Hi.
  - inversion Hi. split; reflexivity.
  - cbn [forallb] in H. apply andb_true_iff in H. destruct H as [Hg H]. cbn [instants rp_events final_paint] in *.
    destruct (get_time (sg_tc g) 0 off) as [t|]; [|discriminate].
    destruct (instants off gs) as [ts'|]; [|discriminate]. inversion Hi; subst ts. clear Hi.
    assert (P : seg_paint pm g = pm /\ seg_event pm g t = RRoll t).
    { unfold seg_paint, seg_event, seg_rolls, is_cr in *. destruct (sg_head g) as [[| |] cr| |]; try discriminate Hg;
        split; reflexivity. }
    destruct P as [P1 P2]. rewrite P1, P2. destruct (IH pm ts' H eq_refl) as [E F]. rewrite E, F. split; reflexivity.
Qed.

Lemma events_rdc : forall off gs ts, forallb is_rdc gs = true -> instants off gs = Ok ts ->
  rp_events off true gs = Ok (map RPaint ts) /\ final_paint true gs = true.
Proof.
  intros off gs. induction gs as [|g gs IH]; intros ts H Hi.
  - inversion Hi. split; reflexivity.
  - cbn [forallb] in H. apply andb_true_iff in H. destruct H as [Hg H]. cbn [instants rp_events final_paint] in *.
    destruct (get_time (sg_tc g) 0 off) as [t|]; [|discriminate].
    destruct (instants off gs) as [ts'|]; [|discriminate]. inversion Hi; subst ts. clear Hi.
    assert (P : seg_paint true g = true /\ seg_event true g t = RPaint t).
    { unfold seg_paint, seg_event, seg_rolls, is_rdc in *. destruct (sg_head g) as [[| |] cr| |]; try discriminate Hg;
        split; reflexivity. }
    destruct P as [P1 P2]. rewrite P1, P2. destruct (IH ts' H eq_refl) as [E F]. rewrite E, F. split; reflexivity.
Qed.

(* roll-up, every line headed by its RU2/RU3/RU4 command (any mix of depths, with or without the carriage return):
   the buffer of the line before is stored by the RU command itself (flush_buffer in _translate_command: a store WITHOUT
   correct_last_timing, i.e. an RPaint-shaped event); only the end of the file is a genuine _roll_up *)
Theorem rollup_link : forall dd off g0 gs t0 ts tend,
  forallb is_ru (g0 :: gs) = true -> forallb seg_ok (g0 :: gs) = true ->
  get_time (sg_tc g0) 0 off = Ok t0 -> instants off gs = Ok ts ->
  get_time (sg_tc (last gs g0)) (Z.of_nat (length (rseg_words dd (last gs g0)))) off = Ok tend ->
  spans_of (read off (map (rseg_line dd) (g0 :: gs))) = rp_read t0 (map RPaint ts ++ [RRoll tend]) false.
Proof.
  intros dd off g0 gs t0 ts tend Hru Hok Ht0 Hi Hend.
  cbn [forallb] in Hru. apply andb_true_iff in Hru. destruct Hru as [H0 Hru].
  assert (P0 : sg_head g0 <> HCr /\ seg_paint false g0 = false).
  { unfold is_ru, seg_paint in *. destruct (sg_head g0) as [[| |] cr| |]; try discriminate H0; (split; [congruence|reflexivity]). }
  destruct P0 as [Hh P0]. destruct (events_ru off gs false ts Hru Hi) as [E F].
  assert (F' : final_paint false gs = false) by (rewrite F; destruct gs; reflexivity).
  pose proof (rp_link dd off g0 gs t0 (map RPaint ts) tend Hh Hok Ht0) as L. rewrite P0, F' in L.
  apply L; [exact E|intros _; exact Hend].
Qed.

(* roll-up, RU command on the first line only, every later line headed by a carriage return: every event is a _roll_up *)
Theorem rollup_cr_link : forall dd off g0 gs t0 ts tend,
  is_ru g0 = true -> forallb is_cr gs = true -> forallb seg_ok (g0 :: gs) = true ->
  get_time (sg_tc g0) 0 off = Ok t0 -> instants off gs = Ok ts ->
  get_time (sg_tc (last gs g0)) (Z.of_nat (length (rseg_words dd (last gs g0)))) off = Ok tend ->
  spans_of (read off (map (rseg_line dd) (g0 :: gs))) = rp_read t0 (map RRoll ts ++ [RRoll tend]) false.
Proof.
  intros dd off g0 gs t0 ts tend H0 Hcr Hok Ht0 Hi Hend.
  assert (P0 : sg_head g0 <> HCr /\ seg_paint false g0 = false).
  { unfold is_ru, seg_paint in *. destruct (sg_head g0) as [[| |] cr| |]; try discriminate H0; (split; [congruence|reflexivity]). }
  destruct P0 as [Hh P0]. destruct (events_cr off gs false ts Hcr Hi) as [E F].
  pose proof (rp_link dd off g0 gs t0 (map RRoll ts) tend Hh Hok Ht0) as L. rewrite P0, F in L.
  apply L; [exact E|intros _; exact Hend].
Qed.

(* paint-on, every line headed by RDC: the buffer of the line before is stored at each later RDC; the last buffer is still
   open at the end of the file *)
Theorem painton_link : forall dd off g0 gs t0 ts,
  forallb is_rdc (g0 :: gs) = true -> forallb seg_ok (g0 :: gs) = true ->
  get_time (sg_tc g0) 0 off = Ok t0 -> instants off gs = Ok ts ->
  spans_of (read off (map (rseg_line dd) (g0 :: gs))) = rp_read t0 (map RPaint ts) true.
Proof.
  intros dd off g0 gs t0 ts Hrd Hok Ht0 Hi.
  cbn [forallb] in Hrd. apply andb_true_iff in Hrd. destruct Hrd as [H0 Hrd].
  assert (P0 : sg_head g0 <> HCr /\ seg_paint false g0 = true).
  { unfold is_rdc, seg_paint in *. destruct (sg_head g0) as [[| |] cr| |]; try discriminate H0; (split; [congruence|reflexivity]). }
  destruct P0 as [Hh P0]. destruct (events_rdc off gs ts Hrd Hi) as [E F].
  pose proof (rp_link dd off g0 gs t0 (map RPaint ts) 0%Q Hh Hok Ht0) as L. rewrite P0, F, app_nil_r in L.
  apply L; [exact E|discriminate].
Qed.

(* ---- the chain, stated for `read` ------------------------------------------------------------------------------------- *)
Lemma ends_in_paint_snoc_roll : forall evs x, ends_in_paint (evs ++ [RRoll x]) = false.
Proof. intros evs x. unfold ends_in_paint. rewrite map_app. cbn [map]. rewrite last_snoc. reflexivity. Qed.

Lemma rolled_chain : forall t0 evs tend, (0 <= t0)%Q -> Forall (fun t => (0 < t)%Q) (map rp_time evs) -> (0 < tend)%Q ->
  rp_read t0 (evs ++ [RRoll tend]) false = verdict (chain t0 (map rp_time evs ++ [tend])).
Proof.
  intros t0 evs tend H0 H Hend. rewrite rp_chain_all_nonneg.
  - unfold rp_expected_all, rp_spans. rewrite ends_in_paint_snoc_roll, map_app. reflexivity.
  - apply nonneg_of_times; [exact H0|]. rewrite map_app. apply Forall_app. split; [exact H|].
    constructor; [exact Hend|constructor].
Qed.

Lemma map_time_paint : forall ts, map rp_time (map RPaint ts) = ts.
Proof. intros ts. rewrite map_map. apply map_id. Qed.
Lemma map_time_roll : forall ts, map rp_time (map RRoll ts) = ts.
Proof. intros ts. rewrite map_map. apply map_id. Qed.

Theorem rollup_read_chain : forall dd off g0 gs t0 ts tend,
  forallb is_ru (g0 :: gs) = true -> forallb seg_ok (g0 :: gs) = true ->
  get_time (sg_tc g0) 0 off = Ok t0 -> instants off gs = Ok ts ->
  get_time (sg_tc (last gs g0)) (Z.of_nat (length (rseg_words dd (last gs g0)))) off = Ok tend ->
  (0 <= t0)%Q -> Forall (fun t => (0 < t)%Q) ts -> (0 < tend)%Q ->
  spans_of (read off (map (rseg_line dd) (g0 :: gs))) = verdict (chain t0 (ts ++ [tend])).
Proof.
  intros dd off g0 gs t0 ts tend Hru Hok Ht0 Hi Hend H0 Hts Hte.
  rewrite (rollup_link dd off g0 gs t0 ts tend Hru Hok Ht0 Hi Hend).
  rewrite rolled_chain; rewrite ?map_time_paint; auto.
Qed.

Theorem rollup_cr_read_chain : forall dd off g0 gs t0 ts tend,
  is_ru g0 = true -> forallb is_cr gs = true -> forallb seg_ok (g0 :: gs) = true ->
  get_time (sg_tc g0) 0 off = Ok t0 -> instants off gs = Ok ts ->
  get_time (sg_tc (last gs g0)) (Z.of_nat (length (rseg_words dd (last gs g0)))) off = Ok tend ->
  (0 <= t0)%Q -> Forall (fun t => (0 < t)%Q) ts -> (0 < tend)%Q ->
  spans_of (read off (map (rseg_line dd) (g0 :: gs))) = verdict (chain t0 (ts ++ [tend])).
Proof.
  intros dd off g0 gs t0 ts tend H0' Hcr Hok Ht0 Hi Hend H0 Hts Hte.
  rewrite (rollup_cr_link dd off g0 gs t0 ts tend H0' Hcr Hok Ht0 Hi Hend).
  rewrite rolled_chain; rewrite ?map_time_roll; auto.
Qed.

Theorem painton_read_chain : forall dd off g0 gs t0 ts,
  forallb is_rdc (g0 :: gs) = true -> forallb seg_ok (g0 :: gs) = true ->
  get_time (sg_tc g0) 0 off = Ok t0 -> instants off gs = Ok ts ->
  (0 <= t0)%Q -> Forall (fun t => (0 < t)%Q) ts ->
  spans_of (read off (map (rseg_line dd) (g0 :: gs))) =
  verdict (chain t0 ts ++ [(last ts t0, (last ts t0 + four_s)%Q)]).
Proof.
  intros dd off g0 gs t0 ts Hrd Hok Ht0 Hi H0 Hts.
  rewrite (painton_link dd off g0 gs t0 ts Hrd Hok Ht0 Hi). rewrite rp_chain_all_nonneg.
  - unfold rp_expected_all, rp_spans. rewrite map_time_paint. reflexivity.
  - apply nonneg_of_times; [exact H0|]. rewrite map_time_paint. exact Hts.
Qed.

(* when the instants increase: start < end, ordered by start, each caption ends where the next begins *)
Theorem rollup_read_ordered : forall dd off g0 gs t0 ts tend l,
  forallb is_ru (g0 :: gs) = true -> forallb seg_ok (g0 :: gs) = true ->
  get_time (sg_tc g0) 0 off = Ok t0 -> instants off gs = Ok ts ->
  get_time (sg_tc (last gs g0)) (Z.of_nat (length (rseg_words dd (last gs g0)))) off = Ok tend ->
  (0 <= t0)%Q -> increasing t0 (ts ++ [tend]) ->
  spans_of (read off (map (rseg_line dd) (g0 :: gs))) = Ok l ->
  l = chain t0 (ts ++ [tend]) /\ Forall (fun p => (fst p < snd p)%Q) l /\
  (forall i a b, nth_error l i = Some a -> nth_error l (S i) = Some b -> (fst a < fst b)%Q /\ snd a = fst b).
Proof.
  intros dd off g0 gs t0 ts tend l Hru Hok Ht0 Hi Hend H0 Hinc Hr.
  assert (Hpos : Forall (fun t => (0 < t)%Q) (ts ++ [tend])).
  { clear -H0 Hinc. revert t0 H0 Hinc. induction (ts ++ [tend]) as [|x r IH]; intros t0 H0 Hinc; [constructor|].
    cbn [increasing] in Hinc. destruct Hinc as [H1 H2].
    assert (Hx : (0 < x)%Q) by (eapply Qle_lt_trans; eassumption).
    constructor; [exact Hx|]. apply (IH x); [apply Qlt_le_weak; exact Hx|exact H2]. }
  apply Forall_app in Hpos. destruct Hpos as [Hts Hte]. inversion Hte as [|? ? Hte' _]; subst.
  pose proof Hr as Hr'. rewrite (rollup_read_chain dd off g0 gs t0 ts tend Hru Hok Ht0 Hi Hend H0 Hts Hte') in Hr'.
  rewrite (rollup_link dd off g0 gs t0 ts tend Hru Hok Ht0 Hi Hend) in Hr.
  split.
  - unfold verdict in Hr'. destruct (existsb _ _); [discriminate|].
    destruct (chain t0 (ts ++ [tend])); [discriminate|]. inversion Hr'. reflexivity.
  - apply (rp_chain_ordered t0 (map RPaint ts ++ [RRoll tend]) false l); [| |exact Hr].
    + apply nonneg_of_times; [exact H0|]. rewrite map_app, map_time_paint. apply Forall_app. split; [exact Hts|exact Hte].
    + rewrite map_app, map_time_paint. exact Hinc.
Qed.

(* ---- sufficient conditions for the text of a line ------------------------------------------------------------------- *)
Lemma lstrip_split_l : forall f l, exists w, l = w ++ lstrip_by f l /\ forallb f w = true.
Proof.
  intros f l. induction l as [|a l IH]; [exists []; split; reflexivity|]. cbn [lstrip_by].
  destruct (f a) eqn:E; [|exists []; split; reflexivity].
  destruct IH as (w & E1 & E2). exists (a :: w). split; [cbn [app]; rewrite <- E1; reflexivity|].
  cbn [forallb]. rewrite E, E2. reflexivity.
Qed.

Lemma rstrip_split_r : forall s, exists w, s = rstrip s ++ w /\ forallb is_space w = true.
Proof.
  intros s. unfold rstrip, rstrip_by. destruct (lstrip_split_l is_space (rev s)) as (w & E & F).
  exists (rev w). split.
  - rewrite <- rev_app_distr, <- E, rev_involutive. reflexivity.
  - apply forallb_forall. intros x Hx. apply in_rev in Hx. rewrite forallb_forall in F. exact (F x Hx).
Qed.

Lemma split_piece_length : forall sep s cur l, In l (split_ch_aux sep s cur) -> (length l <= length cur + length s)%nat.
Proof.
  intros sep s. induction s as [|a s IH]; intros cur l H; cbn [split_ch_aux] in H.
  - destruct H as [<-|[]]. rewrite rev_length. lia.
  - destruct (a =? sep).
    + destruct H as [<-|H]; [rewrite rev_length; cbn [length]; lia|]. apply IH in H. cbn [length] in *. lia.
    + apply IH in H. cbn [length] in *. lia.
Qed.

Lemma text_ok : forall txt, (exists c, In c txt /\ is_space c = false) -> (length txt <= 32)%nat ->
  nonempty (rstrip txt) = true /\ filter spec_long (spec_lines (rstrip txt)) = [].
Proof.
  intros txt (c & Hc & Hs) Hlen. destruct (rstrip_split_r txt) as (w & E & F). split.
  - destruct (rstrip txt) as [|x r]; [|reflexivity]. cbn [app] in E. subst w.
    rewrite forallb_forall in F. rewrite (F c Hc) in Hs. discriminate.
  - assert (L : (length (rstrip txt) <= 32)%nat).
    { apply (f_equal (@length Z)) in E. rewrite app_length in E. lia. }
    assert (G : forall (f : str -> bool) (l : list str), (forall x, In x l -> f x = false) -> filter f l = []).
    { intros f l H. induction l as [|x l IH]; [reflexivity|]. cbn [filter]. rewrite (H x (or_introl eq_refl)).
      apply IH. intros y Hy. apply H. right. exact Hy. }
    apply G. intros l Hl. unfold spec_lines, split_ch in Hl. apply split_piece_length in Hl. cbn [length] in Hl.
    unfold spec_long. apply Z.ltb_ge. lia.
Qed.

(* a line is well formed when its preamble address code is not an italics one, its words are character pairs, and its
   row has at most 32 characters, one of them not blank *)
Lemma seg_ok_intro : forall g, plain_pac (sg_pac g) = true -> forallb char_word (sg_chars g) = true ->
  (exists c, In c (seg_text g) /\ is_space c = false) -> (length (seg_text g) <= 32)%nat -> seg_ok g = true.
Proof.
  intros g H1 H2 H3 H4. destruct (text_ok (seg_text g) H3 H4) as [H5 H6].
  unfold seg_ok. rewrite H1, H2, H5, H6. reflexivity.
Qed.

(* ---- the instants exist whenever the timecodes are well formed (proofs/SccTimeFacts.v, get_time_exact) ---------------- *)
Definition wf_tc (g : rseg) : Prop := exists tc, tc_wf tc = true /\ sg_tc g = render_tc tc.

Lemma wf_tc_time : forall g k off, wf_tc g -> 0 <= k ->
  exists t, get_time (sg_tc g) k off = Ok t.
Proof.
  intros g k off (tc & Hwf & E) Hk. rewrite E. destruct (get_time_exact tc k off Hwf Hk) as (t & Ht & _).
  exists t. exact Ht.
Qed.

Lemma rp_events_total : forall off gs pm, Forall wf_tc gs -> exists evs, rp_events off pm gs = Ok evs.
Proof.
  intros off gs. induction gs as [|g gs IH]; intros pm H; [exists []; reflexivity|].
  inversion H as [|? ? Hg Hgs]; subst. cbn [rp_events].
  destruct (wf_tc_time g 0 off Hg (Z.le_refl 0)) as [t Ht]. rewrite Ht.
  destruct (IH (seg_paint pm g) Hgs) as [evs E]. rewrite E. eexists. reflexivity.
Qed.

(* no hypothesis on the instants: on a well-formed program with well-formed timecodes `read` IS `rp_read` on the events of
   the program *)
Theorem rp_link_total : forall dd off g0 gs,
  sg_head g0 <> HCr -> forallb seg_ok (g0 :: gs) = true -> Forall wf_tc (g0 :: gs) ->
  exists t0 evs tend,
    get_time (sg_tc g0) 0 off = Ok t0 /\ rp_events off (seg_paint false g0) gs = Ok evs /\
    get_time (sg_tc (last gs g0)) (Z.of_nat (length (rseg_words dd (last gs g0)))) off = Ok tend /\
    spans_of (read off (map (rseg_line dd) (g0 :: gs))) =
    rp_read t0 (link_events g0 gs evs tend) (final_paint (seg_paint false g0) gs).
Proof.
  intros dd off g0 gs Hh Hok Hwf. inversion Hwf as [|? ? Hg0 Hgs]; subst.
  destruct (wf_tc_time g0 0 off Hg0 (Z.le_refl 0)) as [t0 Ht0].
  destruct (rp_events_total off gs (seg_paint false g0) Hgs) as [evs Hev].
  assert (Hgl : wf_tc (last gs g0)).
  { clear -Hg0 Hgs. revert g0 Hg0. induction Hgs as [|g gs Hg Hgs IH]; intros g0 Hg0; [exact Hg0|].
    rewrite last_cons. apply IH. exact Hg. }
  destruct (wf_tc_time (last gs g0) (Z.of_nat (length (rseg_words dd (last gs g0)))) off Hgl (Nat2Z.is_nonneg _))
    as [tend Hend].
  exists t0, evs, tend. split; [exact Ht0|]. split; [exact Hev|]. split; [exact Hend|].
  apply rp_link; try assumption. intros _. exact Hend.
Qed.

(* ================================================================================================================== *)
(* 4. non-vacuity                                                                                                      *)
(* ================================================================================================================== *)
(* roll-up 2, every control code doubled:   9425 9425 94ad 94ad 9470 9470 "abcd" / ... "ef" / ... "ghij" *)
Definition ex_g1 : rseg := mkSeg (lit "00:00:01:00") (HRu D2 true) 38000 [24930; 58212].
Definition ex_g2 : rseg := mkSeg (lit "00:00:03:00") (HRu D2 true) 38000 [58854].
Definition ex_g3 : rseg := mkSeg (lit "00:00:05:10") (HRu D2 true) 38000 [26472; 59882].

Example rollup_link_example :
  map (rseg_line true) [ex_g1; ex_g2; ex_g3] =
    [(lit "00:00:01:00", [37925; 37925; 38061; 38061; 38000; 38000; 24930; 58212]);
     (lit "00:00:03:00", [37925; 37925; 38061; 38061; 38000; 38000; 58854]);
     (lit "00:00:05:10", [37925; 37925; 38061; 38061; 38000; 38000; 26472; 59882])] /\
  seg_text ex_g1 = lit "abcd" /\ seg_text ex_g2 = lit "ef" /\ seg_text ex_g3 = lit "ghij" /\
  spans_of (read 0 (map (rseg_line true) [ex_g1; ex_g2; ex_g3])) =
    rp_read 1001000 [RPaint 3003000; RPaint (16016000 # 3); RRoll 5605600] false /\
  spans_of (read 0 (map (rseg_line true) [ex_g1; ex_g2; ex_g3])) =
    Ok [(1001000, 3003000); (3003000, 16016000 # 3); (16016000 # 3, 5605600)]%Q.
Proof.
  split; [vm_compute; reflexivity|]. split; [vm_compute; reflexivity|]. split; [vm_compute; reflexivity|].
  split; [vm_compute; reflexivity|].
  assert (L : spans_of (read 0 (map (rseg_line true) [ex_g1; ex_g2; ex_g3])) =
              rp_read 1001000 (map RPaint [3003000; 16016000 # 3]%Q ++ [RRoll 5605600]) false).
  { apply rollup_link; vm_compute; reflexivity. }
  split; [exact L|].
  assert (O : exists l, spans_of (read 0 (map (rseg_line true) [ex_g1; ex_g2; ex_g3])) = Ok l) by (rewrite L; vm_compute; eexists; reflexivity).
  destruct O as [l Hl].
  destruct (rollup_read_ordered true 0 ex_g1 [ex_g2; ex_g3] 1001000 [3003000; 16016000 # 3]%Q 5605600 l) as [E _];
    [vm_compute; reflexivity|vm_compute; reflexivity|vm_compute; reflexivity|vm_compute; reflexivity
    |vm_compute; reflexivity|discriminate|cbn [app increasing]; repeat split; reflexivity|exact Hl|].
  rewrite Hl, E. reflexivity.
Qed.

(* single codes, mixed: RU2 + CR "abcd" / bare CR "ef" (a genuine _roll_up) / RDC at row 2 "ghij" (mode switch: _roll_up by
   _flush_implicit_buffers); the paint-on row is still open at the end of the file and lasts 4 s *)
Definition ex_h2 : rseg := mkSeg (lit "00:00:03:00") HCr 38000 [58854].
Definition ex_h3 : rseg := mkSeg (lit "00:00:05:10") HRdc 37232 [26472; 59882].

Example rp_link_mixed_example :
  map (rseg_line false) [ex_g1; ex_h2; ex_h3] =
    [(lit "00:00:01:00", [37925; 38061; 38000; 24930; 58212]);
     (lit "00:00:03:00", [38061; 38000; 58854]);
     (lit "00:00:05:10", [37929; 37232; 26472; 59882])] /\
  spans_of (read 0 (map (rseg_line false) [ex_g1; ex_h2; ex_h3])) =
    rp_read 1001000 [RRoll 3003000; RRoll (16016000 # 3)] true /\
  rp_read 1001000 [RRoll 3003000; RRoll (16016000 # 3)] true =
    Ok [(1001000, 3003000); (3003000, 16016000 # 3); (16016000 # 3, (16016000 # 3) + four_s)]%Q.
Proof.
  split; [vm_compute; reflexivity|]. split.
  - pose proof (rp_link false 0 ex_g1 [ex_h2; ex_h3] 1001000 [RRoll 3003000; RRoll (16016000 # 3)] 0) as L.
    change (final_paint (seg_paint false ex_g1) [ex_h2; ex_h3]) with true in L. rewrite app_nil_r in L.
    apply L; try (vm_compute; reflexivity); discriminate.
  - rewrite rp_chain_all_nonneg.
    + vm_compute. reflexivity.
    + split; [discriminate|]. intros e [<-|[<-|[]]]; reflexivity.
Qed.

(* paint-on, three RDC lines *)
Definition ex_p1 : rseg := mkSeg (lit "00:00:01:00") HRdc 38000 [24930; 58212].
Definition ex_p2 : rseg := mkSeg (lit "00:00:03:00") HRdc 37232 [58854].
Definition ex_p3 : rseg := mkSeg (lit "00:00:05:10") HRdc 38000 [26472; 59882].

Example painton_link_example :
  spans_of (read 0 (map (rseg_line false) [ex_p1; ex_p2; ex_p3])) =
    rp_read 1001000 [RPaint 3003000; RPaint (16016000 # 3)] true /\
  spans_of (read 0 (map (rseg_line false) [ex_p1; ex_p2; ex_p3])) =
    Ok [(1001000, 3003000); (3003000, 16016000 # 3); (16016000 # 3, (16016000 # 3) + four_s)]%Q.
Proof.
  split.
  - apply (painton_link false 0 ex_p1 [ex_p2; ex_p3] 1001000 [3003000; 16016000 # 3]%Q); vm_compute; reflexivity.
  - rewrite (painton_read_chain false 0 ex_p1 [ex_p2; ex_p3] 1001000 [3003000; 16016000 # 3]%Q);
      try (vm_compute; reflexivity).
    + discriminate.
    + repeat constructor.
Qed.

(* the well-formedness of a line from the readable conditions *)
Example seg_ok_intro_example : seg_ok ex_g1 = true.
Proof.
  apply seg_ok_intro; try (vm_compute; reflexivity).
  - exists 97. split; [vm_compute; tauto|reflexivity].
  - vm_compute. lia.
Qed.
