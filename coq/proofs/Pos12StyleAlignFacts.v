(* C12 (round 4): precedence of style-carried tts:textAlign on read, and the alignment a written <p> / <span> reads back. *)
From Coq Require Import List ZArith QArith Bool Lia.
From PV Require Import lib.Sx lib.Str lib.Result model.Geometry model.Positioning model.DfxpAlign model.DfxpStyleAlign spec.SpecGeom spec.SpecPos.
From PV Require Import proofs.GeomStr proofs.Pos12AlignFacts.
Import ListNotations.
Open Scope Z_scope.

Definition plain (s : asource) : Prop := src_own s = None /\ Forall (fun v => v = None) (src_styles s).

Lemma styles_value_none : forall vals, Forall (fun v => v = None) vals -> styles_value vals None = None.
Proof. induction vals as [|v t IH]; intros H; [reflexivity|]. inversion H; subst. cbn [styles_value truthy_str]. apply IH. assumption. Qed.

Lemma plain_none : forall s, plain s -> on_element_or_styles s = None.
Proof. intros [o st] [H1 H2]. cbn in *. subst o. cbn [on_element_or_styles src_own src_styles]. apply styles_value_none. exact H2. Qed.

Lemma parents_plain : forall ps, Forall plain ps -> parents_value ps None = None.
Proof.
  induction ps as [|p t IH]; intros H; [reflexivity|]. inversion H; subst. cbn [parents_value]. rewrite (plain_none p) by assumption.
  cbn [truthy_str]. apply IH. assumption.
Qed.

(* 1. the element's own attribute wins over everything *)
Theorem own_attribute_wins : forall v st parents region, find_text_align (Some (mkSrc (Some v) st)) parents region = Some v.
Proof. reflexivity. Qed.

(* 2. no own attribute: the first style source of the element that has a (non-empty) value *)
Theorem first_style_wins : forall pre c v post parents region, Forall (fun x => x = None) pre ->
  find_text_align (Some (mkSrc None (pre ++ Some (c :: v) :: post))) parents region = Some (c :: v).
Proof.
  intros pre c v post parents region H. unfold find_text_align, on_element_or_styles. cbn [src_own src_styles].
  assert (E : forall cur, styles_value (pre ++ Some (c :: v) :: post) cur = Some (c :: v)).
  { induction H as [|x t Hx _ IH]; intros cur; cbn [app styles_value truthy_str]; [reflexivity|]. subst x. cbn [truthy_str]. apply IH. }
  rewrite E. reflexivity.
Qed.

(* 3. nothing on the element: the NEAREST parent that has a value (own attribute or style), parents further out and the
      region are not consulted *)
Theorem nearest_parent_wins : forall e pre p c v outer region, plain e -> Forall plain pre ->
  on_element_or_styles p = Some (c :: v) ->
  find_text_align (Some e) (pre ++ p :: outer) region = Some (c :: v).
Proof.
  intros e pre p c v outer region He Hpre Hp. unfold find_text_align. rewrite (plain_none e He).
  assert (E : forall cur, parents_value (pre ++ p :: outer) cur = Some (c :: v)).
  { induction Hpre as [|x t Hx _ IH]; intros cur; cbn [app parents_value].
    - rewrite Hp. reflexivity.
    - rewrite (plain_none x Hx). cbn [truthy_str]. apply IH. }
  rewrite E. reflexivity.
Qed.

(* 4. nothing on the element and its parents: the region's value (own attribute, else its styles) *)
Theorem region_is_last : forall e parents region, plain e -> Forall plain parents ->
  find_text_align (Some e) parents region = on_element_or_styles region.
Proof.
  intros e parents region He Hp. unfold find_text_align. rewrite (plain_none e He), (parents_plain parents Hp). reflexivity.
Qed.

(* ---- what a WRITTEN element reads back ------------------------------------------------------------------------------ *)
(* the region the writer made from the alignment a (written_alignment: only the components that are set) *)
Definition region_ta (a : option alignment) : asource := mkSrc (fst (written_alignment a)) [].
Definition region_da (a : option alignment) : asource := mkSrc (snd (written_alignment a)) [].
Definition h_of (a : option alignment) : halign := match a with Some al => match al_h al with Some h => h | None => HStart end | None => HStart end.
Definition v_of (a : option alignment) : valign := match a with Some al => match al_v al with Some v => v | None => VBottom end | None => VBottom end.

(* an element without any text-align on itself and its parents (no caption style text-align): the layout's alignment,
   absent parts start / after - the case C12_dfxp_layout_roundtrip_written_corollary is about *)
Theorem written_plain_alignment : forall e parents a, plain e -> Forall plain parents ->
  element_alignment (Some e) parents (region_ta a) (region_da a) = Some (mkAlign (Some (h_of a)) (Some (v_of a))).
Proof.
  intros e parents a He Hp. unfold element_alignment. rewrite region_is_last by assumption.
  unfold region_ta, region_da, on_element_or_styles. cbn [src_own src_styles].
  assert (E : forall o : option str, match o with Some v => Some v | None => styles_value [] None end = o) by (intros [x|]; reflexivity).
  rewrite !E. apply alignment_strings_roundtrip.
Qed.

(* a <p> / <span> carrying tts:textAlign = the name of t (caption style / style node 'text-align': t, written by
   _recreate_style) - directly, through a style class, or on the nearest styled ancestor: the horizontal alignment read
   back is t, whatever the layout's alignment says; the vertical one is the layout's (default after) *)
Theorem written_styled_alignment : forall e parents a t,
  find_text_align (Some e) parents (region_ta a) = Some (halign_name t) ->
  element_alignment (Some e) parents (region_ta a) (region_da a) = Some (mkAlign (Some t) (Some (v_of a))).
Proof.
  intros e parents a t H. unfold element_alignment. rewrite H. unfold region_da, on_element_or_styles. cbn [src_own src_styles].
  assert (E : forall o : option str, match o with Some v => Some v | None => styles_value [] None end = o) by (intros [x|]; reflexivity).
  rewrite E. unfold read_alignment. rewrite or_default_name_h, halign_name_roundtrip.
  destruct a as [[h [v|]]|]; cbn [written_alignment align_attrs fst snd option_map al_v v_of]; rewrite ?or_default_name_v, ?valign_name_roundtrip; reflexivity.
Qed.
