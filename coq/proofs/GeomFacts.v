(* C18 (padding shorthand, transformations as values, enumeration tables) - facts about model/Geometry.v that are
   not about strings. *)
From Coq Require Import List ZArith QArith Qabs Bool Lia Lqa.
From PV Require Import lib.Sx lib.Str lib.Result model.Geometry model.GenGeom spec.SpecGeom.
From PV Require Import proofs.GeomStr proofs.GeomEq proofs.GeomParse.
Import ListNotations.
Open Scope Z_scope.

(* ---- the unit / alignment tables of the working tree are the ones the model and the spec use ---------- *)
Definition unit_of_name (n : str) : option unit_ :=
  if str_eqb n (lit "PIXEL") then Some PX else if str_eqb n (lit "EM") then Some EM
  else if str_eqb n (lit "PERCENT") then Some PCT else if str_eqb n (lit "CELL") then Some CELL
  else if str_eqb n (lit "PT") then Some PT else None.

Lemma unit_table_agrees :
  map (fun nv => (unit_of_name (fst nv), snd nv)) unit_enum = map (fun u => (Some u, unit_str u)) spec_units.
Proof. reflexivity. Qed.

Lemma alignment_tables_agree :
  map snd halign_enum = [lit "left"; lit "center"; lit "right"; lit "start"; lit "end"]
  /\ map snd valign_enum = [lit "top"; lit "center"; lit "bottom"].
Proof. split; reflexivity. Qed.

(* ---- padding shorthand ------------------------------------------------------------------------------ *)
Lemma padding_of_sizes_ttml : forall l,
  padding_of_sizes l = match ttml_padding l with Some p => Ok p | None => Err ValueError end.
Proof. intros [|a [|b [|c [|d [|e l]]]]]; reflexivity. Qed.

(* TTML order: before, end, after, start *)
Lemma padding_shorthand_order :
  (forall a, padding_of_sizes [a] = Ok (mkPadding a a a a))
  /\ (forall bv eh, padding_of_sizes [bv; eh] = Ok {| pd_before := bv; pd_after := bv; pd_start := eh; pd_end := eh |})
  /\ (forall b eh a, padding_of_sizes [b; eh; a] = Ok {| pd_before := b; pd_after := a; pd_start := eh; pd_end := eh |})
  /\ (forall b e a s, padding_of_sizes [b; e; a; s] = Ok {| pd_before := b; pd_end := e; pd_after := a; pd_start := s |})
  /\ (forall l, (length l = 0 \/ 5 <= length l)%nat -> padding_of_sizes l = Err ValueError).
Proof.
  repeat split; try reflexivity.
  intros [|a [|b [|c [|d [|e l]]]]] H; cbn [length] in H; try reflexivity; lia.
Qed.

Lemma split_ch_of_join : forall sep toks, toks <> [] -> Forall (free_of sep) toks -> split_ch sep (join [sep] toks) = toks.
Proof.
  intros sep toks. induction toks as [|a toks IH]; intros Hn Hf; [contradiction|].
  inversion Hf as [|? ? Ha Ht]; subst. destruct toks as [|b toks].
  - cbn [join]. apply split_ch_free. exact Ha.
  - rewrite join_cons by discriminate. cbn [app]. rewrite (split_ch_app _ _ _ Ha), IH; [reflexivity|discriminate|exact Ht].
Qed.

(* the attribute "t1 t2 .. tk" (single spaces, tokens without spaces): parse every token, then expand *)
Theorem padding_from_attr_tokens : forall toks, toks <> [] -> Forall (free_of 32) toks ->
  padding_from_attr (join [32] toks) = (do sizes <- res_map size_from_string toks; padding_of_sizes sizes).
Proof. intros toks Hn Hf. unfold padding_from_attr. rewrite (split_ch_of_join _ _ Hn Hf). reflexivity. Qed.

(* ---- relativize / fit as functions on values -------------------------------------------------------- *)
Lemma size_as_pct_relative : forall a w h, s_unit a = PCT -> size_as_pct a w h = Ok a.
Proof. intros a w h H. unfold size_as_pct. rewrite H. reflexivity. Qed.

Lemma size_as_pct_unit : forall a w h z, size_as_pct a w h = Ok z -> s_unit z = PCT.
Proof.
  intros a w h z H. unfold size_as_pct in H. destruct (s_unit a) eqn:U;
  try (destruct (given w), (given h); try discriminate; inversion H; reflexivity).
  inversion H; subst. exact U.
Qed.

Definition layout_relative (l : layout) : Prop :=
  Forall (fun sh => s_unit (fst sh) = PCT) (sizes_axes l).

Lemma layout_as_pct_alignment : forall l w h r, layout_as_pct l w h = Ok r ->
  l_alignment r = l_alignment l /\ l_webvtt r = None /\ shape r = shape l.
Proof.
  intros l w h r H. unfold layout_as_pct in H.
  destruct (opt_res (fun p => point_as_pct p w h) (l_origin l)) as [o|] eqn:Eo; [|discriminate].
  destruct (opt_res (fun s => stretch_as_pct s w h) (l_extent l)) as [e|] eqn:Ee; [|discriminate].
  destruct (opt_res (fun p => padding_as_pct p w h) (l_padding l)) as [p|] eqn:Ep; [|discriminate].
  cbn [bind] in H. inversion H; subst. cbn [l_alignment l_webvtt]. repeat split.
  unfold shape. cbn [l_origin l_extent l_padding].
  unfold opt_res in *.
  destruct (l_origin l); [destruct (point_as_pct _ _ _); [|discriminate]|]; inversion Eo; subst;
  (destruct (l_extent l); [destruct (stretch_as_pct _ _ _); [|discriminate]|]); inversion Ee; subst;
  (destruct (l_padding l); [destruct (padding_as_pct _ _ _); [|discriminate]|]); inversion Ep; subst; reflexivity.
Qed.

(* a layout that is already relative is returned as it is (webvtt_positioning dropped), whatever the video size *)
Theorem layout_as_pct_relative : forall l w h, layout_relative l ->
  layout_as_pct l w h = Ok (mkLayout (l_origin l) (l_extent l) (l_padding l) (l_alignment l) None).
Proof.
  intros [o e p al wv] w h H. unfold layout_relative, sizes_axes in H. cbn [l_origin l_extent l_padding] in H.
  unfold layout_as_pct. cbn [l_origin l_extent l_padding l_alignment].
  assert (Ho : opt_res (fun p => point_as_pct p w h) o = Ok o).
  { destruct o as [[x y]|]; [|reflexivity]. cbn [app] in H. inversion H as [|? ? H1 H']; subst.
    inversion H' as [|? ? H2 _]; subst. cbn [fst] in *. unfold opt_res, point_as_pct. cbn [p_x p_y].
    rewrite !size_as_pct_relative by assumption. reflexivity. }
  assert (H2 : Forall (fun sh : size * bool => s_unit (fst sh) = PCT)
                 ((match e with Some e => [(st_h e, true); (st_v e, false)] | None => [] end)
                  ++ (match p with Some p => [(pd_before p, false); (pd_after p, false); (pd_start p, true); (pd_end p, true)]
                      | None => [] end))).
  { destruct o; [|exact H]. cbn [app] in H. inversion H as [|? ? _ H']; subst. inversion H'; subst. assumption. }
  assert (He : opt_res (fun s => stretch_as_pct s w h) e = Ok e).
  { destruct e as [[x y]|]; [|reflexivity]. cbn [app] in H2. inversion H2 as [|? ? K1 H']; subst.
    inversion H' as [|? ? K2 _]; subst. cbn [fst] in *. unfold opt_res, stretch_as_pct. cbn [st_h st_v].
    rewrite !size_as_pct_relative by assumption. reflexivity. }
  assert (H3 : Forall (fun sh : size * bool => s_unit (fst sh) = PCT)
                 (match p with Some p => [(pd_before p, false); (pd_after p, false); (pd_start p, true); (pd_end p, true)]
                  | None => [] end)).
  { destruct e; [|exact H2]. cbn [app] in H2. inversion H2 as [|? ? _ H']; subst. inversion H'; subst. assumption. }
  assert (Hp : opt_res (fun p => padding_as_pct p w h) p = Ok p).
  { destruct p as [[b a s en]|]; [|reflexivity]. inversion H3 as [|? ? K1 H']; subst.
    inversion H' as [|? ? K2 H'']; subst. inversion H'' as [|? ? K3 H''']; subst. inversion H''' as [|? ? K4 _]; subst.
    cbn [fst pd_before pd_after pd_start pd_end] in *. unfold opt_res, padding_as_pct. cbn [pd_before pd_after pd_start pd_end].
    rewrite !size_as_pct_relative by assumption. reflexivity. }
  rewrite Ho, He, Hp. reflexivity.
Qed.

(* fitting recomputes the extent only *)
Theorem layout_fit_keeps : forall l r, layout_fit l = Ok r ->
  l_origin r = l_origin l /\ l_padding r = l_padding l /\ l_alignment r = l_alignment l
  /\ (l_origin l = None -> r = l) /\ (l_origin l <> None -> l_extent r <> None /\ l_webvtt r = None).
Proof.
  intros l r H. unfold layout_fit in H. destruct (l_origin l) as [o|] eqn:Eo.
  - destruct (l_extent l) as [e|].
    + destruct (size_add (p_x o) (st_h e)) as [brx|]; [|discriminate].
      destruct (size_add (p_y o) (st_v e)) as [bry|]; [|discriminate]. cbn [bind] in H.
      destruct (negb (unit_eqb (s_unit brx) PCT)); [discriminate|]. inversion H; subst. cbn.
      repeat split; try discriminate.
    + inversion H; subst. cbn. repeat split; try discriminate.
  - inversion H; subst. repeat split; auto; intros; congruence.
Qed.

(* an empty layout goes through BaseWriter._relativize_and_fit_to_screen untouched *)
Lemma relativize_and_fit_falsy : forall rel fit w h l, layout_truthy l = false -> relativize_and_fit rel fit w h l = Ok l.
Proof. intros. unfold relativize_and_fit. rewrite H. reflexivity. Qed.
