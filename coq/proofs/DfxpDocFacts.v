(* C07, wave 2: whole-document consistency of the writer traversal model (model/DfxpDoc.v): every style= and
   region= reference resolves to exactly one definition, ids are unique, every region defined is referenced - in the
   very terms of the oracle ok_refs; and the attribute dictionary of a span is fit for a start tag. *)
From Coq Require Import List ZArith Lia Bool ZifyBool Arith.
From PV Require Import lib.Sx lib.Str model.DfxpXml model.DfxpRegion model.DfxpDoc spec.SpecXmlAttr.
From PV Require Import proofs.LangsFacts proofs.SccwStr proofs.DfxpRegionFacts proofs.DfxpPayloadFacts.
Import ListNotations.
Open Scope Z_scope.

(* ---- strings: decidable membership / duplicates ------------------------------------------------------------ *)
Lemma existsb_str_In : forall x l, existsb (str_eqb x) l = true <-> In x l.
Proof.
  intros x l. rewrite existsb_exists. split.
  - intros [y [H1 H2]]. apply str_eqb_eq in H2. subst. exact H1.
  - intros H. exists x. split; [exact H|apply str_eqb_refl'].
Qed.
Lemma nodup_str_NoDup : forall l, NoDup l -> nodup_str l = true.
Proof.
  induction l as [|x t IH]; intros N; [reflexivity|]. inversion N; subst. cbn [nodup_str]. rewrite IH by assumption.
  destruct (existsb (str_eqb x) t) eqn:E; [apply existsb_str_In in E; contradiction|reflexivity].
Qed.
Lemma count_str_one : forall x l, NoDup l -> In x l -> count_str x l = 1%nat.
Proof.
  induction l as [|y t IH]; intros N H; [destruct H|]. inversion N; subst. unfold count_str in *. cbn [filter].
  destruct H as [H|H].
  - subst. rewrite str_eqb_refl'. cbn [length]. f_equal.
    assert (Z0 : filter (str_eqb x) t = []).
    { clear IH N H3. induction t as [|z t IH]; [reflexivity|]. cbn [filter].
      destruct (str_eqb x z) eqn:E; [apply str_eqb_eq in E; subst; exfalso; apply H2; left; reflexivity|].
      apply IH. intros C. apply H2. right. exact C. }
    rewrite Z0. reflexivity.
  - destruct (str_eqb x y) eqn:E; [apply str_eqb_eq in E; subst; contradiction|]. apply IH; assumption.
Qed.
Lemma NoDup_app_disjoint : forall (a b : list str), NoDup a -> NoDup b -> (forall x, In x a -> ~ In x b) -> NoDup (a ++ b).
Proof.
  induction a as [|x a IH]; intros b Na Nb D; [exact Nb|]. inversion Na; subst. cbn [app]. constructor.
  - rewrite in_app_iff. intros [C|C]; [contradiction|]. apply (D x); [left; reflexivity|exact C].
  - apply IH; [assumption|assumption|]. intros y Hy. apply D. right. exact Hy.
Qed.

(* ---- the styling section ---------------------------------------------------------------------------------- *)
(* written ids are a subsequence of the style ids; every style= written in the head refers to a written style *)
Inductive subseq {A} : list A -> list A -> Prop :=
| sub_nil : subseq [] []
| sub_skip : forall x a b, subseq a b -> subseq a (x :: b)
| sub_take : forall x a b, subseq a b -> subseq (x :: a) (x :: b).

Lemma subseq_In : forall A (a b : list A) x, subseq a b -> In x a -> In x b.
Proof. intros A a b x H. induction H; intros Hx; [destruct Hx|right; auto|destruct Hx as [<-|Hx]; [left; reflexivity|right; auto]]. Qed.
Lemma subseq_NoDup : forall A (a b : list A), subseq a b -> NoDup b -> NoDup a.
Proof.
  intros A a b H. induction H; intros N; [constructor| |].
  - inversion N; auto.
  - inversion N; subst. constructor; [|auto]. intros C. apply H2. eapply subseq_In; eauto.
Qed.

Lemma style_fold : forall styles written refs written' refs',
  fold_left style_step styles (written, refs) = (written', refs') ->
  exists w, written' = written ++ w /\ subseq w (map fst styles) /\
            (forall r, In r refs' -> In r refs \/ In r written').
Proof.
  induction styles as [|[id content] t IH]; intros written refs written' refs' H; cbn [fold_left] in H.
  - inversion H; subst. exists []. rewrite app_nil_r. repeat split; [constructor|auto].
  - unfold style_step at 2 in H. cbn [fst snd] in H.
    destruct content as [|kv content'].
    + destruct (IH _ _ _ _ H) as (w & E & S & R). exists w. repeat split; auto. cbn [map fst]. constructor. exact S.
    + destruct (recreate_style (kv :: content') written) as [|a attrs] eqn:A.
      * destruct (IH _ _ _ _ H) as (w & E & S & R). exists w. repeat split; auto. cbn [map fst]. constructor. exact S.
      * destruct (IH _ _ _ _ H) as (w & E & S & R). exists (id :: w). split; [rewrite E, <- app_assoc; reflexivity|].
        split; [cbn [map fst]; constructor; exact S|].
        intros r Hr. destruct (R r Hr) as [Hr'|Hr']; [|right; exact Hr'].
        apply in_app_iff in Hr'. destruct Hr' as [Hr'|Hr']; [left; exact Hr'|]. right.
        destruct (lookup (lit "style") (a :: attrs)) as [c|] eqn:L; [|destruct Hr'].
        destruct Hr' as [<-|[]].
        assert (I : In (lit "style", c) (recreate_style (kv :: content') written)).
        { rewrite A. clear - L. induction (a :: attrs) as [|[k v] l IHl]; [discriminate|]. cbn [lookup] in L.
          destruct (str_eqb k (lit "style")) eqn:E.
          - inversion L; subst. apply str_eqb_eq in E. subst. left. reflexivity.
          - right. apply IHl. exact L. }
        apply style_refs_resolve in I. apply existsb_exists in I. destruct I as [y [Hy Ey]].
        apply str_eqb_eq in Ey. subst y. rewrite E. apply in_app_iff. left. apply in_app_iff. left. exact Hy.
Qed.

Lemma styling_spec : forall styles written refs, NoDup (map fst styles) -> styling styles = (written, refs) ->
  NoDup written /\ (forall r, In r refs -> In r written).
Proof.
  intros styles written refs N H. unfold styling in H. destruct styles as [|s t].
  - inversion H; subst. split; [repeat constructor; intros []|intros r []].
  - destruct (style_fold _ _ _ _ _ H) as (w & E & S & R). cbn [app] in E. subst written. split.
    + eapply subseq_NoDup; eauto.
    + intros r Hr. destruct (R r Hr) as [[]|Hw]. exact Hw.
Qed.

Lemma lookup_style_written : forall content written c,
  lookup (lit "style") (recreate_style content written) = Some c -> In c written.
Proof.
  intros content written c L.
  assert (I : In (lit "style", c) (recreate_style content written)).
  { induction (recreate_style content written) as [|[k v] l IHl]; [discriminate|]. cbn [lookup] in L.
    destruct (str_eqb k (lit "style")) eqn:E.
    - inversion L; subst. apply str_eqb_eq in E. subst. left. reflexivity.
    - right. apply IHl. exact L. }
  apply style_refs_resolve in I. apply existsb_str_In in I. exact I.
Qed.

Lemma body_refs_written : forall written d r, In r (body_style_refs written d) -> In r written.
Proof.
  intros written d r H. unfold body_style_refs in H. apply in_flat_map in H. destruct H as [l [_ H]].
  apply in_flat_map in H. destruct H as [c [_ H]]. apply in_app_iff in H. destruct H as [H|H].
  - unfold p_style_ref in H.
    destruct (lookup (lit "style") (recreate_style _ written)) as [cl|] eqn:L.
    + destruct H as [<-|[]]. eapply lookup_style_written; eauto.
    + destruct (existsb (str_eqb (lit "p")) written) eqn:E; [|destruct H]. destruct H as [<-|[]].
      apply existsb_exists in E. destruct E as [y [Hy Ey]]. apply str_eqb_eq in Ey. subst. exact Hy.
  - unfold span_style_refs in H. apply in_flat_map in H. destruct H as [n [_ H]].
    destruct (rn_span (dn_r n)); [|destruct H].
    destruct (lookup (lit "style") (recreate_style (dn_content n) written)) as [cl|] eqn:L; [|destruct H].
    destruct H as [<-|[]]. eapply lookup_style_written; eauto.
Qed.

(* ---- region ids as text ------------------------------------------------------------------------------------ *)
Lemma region_id_str_inj : forall a b, -1 <= a -> -1 <= b -> region_id_str a = region_id_str b -> a = b.
Proof.
  intros a b Ha Hb H. unfold region_id_str in H.
  destruct (a <? 0) eqn:Ea; destruct (b <? 0) eqn:Eb; try lia; try discriminate.
  inversion H as [H']. destruct (dec_nonneg_spec a ltac:(lia)) as (_ & Da & _). destruct (dec_nonneg_spec b ltac:(lia)) as (_ & Db & _).
  rewrite <- Da, <- Db, H'. reflexivity.
Qed.
Lemma created_ge : forall cs x, In x (created cs) -> -1 <= x.
Proof.
  intros cs x H. unfold created in H. destruct H as [<-|H]; [unfold default_id; lia|]. apply create_ids_ge in H. lia.
Qed.
Lemma defined_ge : forall cs x, In x (defined cs) -> -1 <= x.
Proof. intros cs x H. unfold defined in H. apply filter_In in H. apply (created_ge cs). tauto. Qed.

Lemma NoDup_map_inj : forall (l : list Z), (forall x, In x l -> -1 <= x) -> NoDup l -> NoDup (map region_id_str l).
Proof.
  induction l as [|x t IH]; intros G N; [constructor|]. inversion N; subst. cbn [map]. constructor.
  - intros C. apply in_map_iff in C. destruct C as [y [E Hy]]. apply region_id_str_inj in E; [subst; contradiction| |];
      [apply G; right; exact Hy|apply G; left; reflexivity].
  - apply IH; [intros y Hy; apply G; right; exact Hy|assumption].
Qed.

(* ---- the whole document ------------------------------------------------------------------------------------- *)
Lemma nodup_str_sound : forall l, nodup_str l = true -> NoDup l.
Proof.
  induction l as [|x t IH]; intros H; [constructor|]. cbn [nodup_str] in H. apply andb_prop in H. destruct H as [H1 H2].
  constructor; [|apply IH; exact H2]. intros C. apply existsb_str_In in C. rewrite C in H1. discriminate.
Qed.

Theorem doc_consistent : forall d, dom_doc d = true ->
  let s := summarize d in
  ok_refs (s_ids s) (s_style_ids s) (s_region_ids s) (s_style_refs s) (s_region_refs s) = 0.
Proof.
  intros d D. unfold dom_doc in D. apply andb_prop in D. destruct D as [D1 D2]. apply nodup_str_sound in D1.
  unfold summarize in *. destruct (styling (ds_styles d)) as [written head_refs] eqn:ST.
  destruct (styling_spec _ _ _ D1 ST) as [NW HR]. cbn [s_ids s_style_ids s_region_ids s_style_refs s_region_refs] in *.
  set (rs := to_rset d) in *.
  assert (NR : NoDup (map region_id_str (defined rs))).
  { apply NoDup_map_inj; [apply defined_ge|apply region_ids_unique]. }
  unfold ok_refs.
  assert (E1 : nodup_str (written ++ map region_id_str (defined rs)) = true).
  { apply nodup_str_NoDup. apply NoDup_app_disjoint; auto. intros x Hx C.
    rewrite forallb_forall in D2. specialize (D2 x Hx). apply existsb_str_In in C. rewrite C in D2. discriminate. }
  rewrite E1. cbn [negb].
  assert (E2 : forallb (fun r => Nat.eqb (count_str r written) 1) (head_refs ++ body_style_refs written d) = true).
  { apply forallb_forall. intros r Hr. apply Nat.eqb_eq. apply count_str_one; [exact NW|].
    apply in_app_iff in Hr. destruct Hr as [Hr|Hr]; [apply HR; exact Hr|eapply body_refs_written; eauto]. }
  rewrite E2. cbn [negb].
  assert (E3 : forallb (fun r => Nat.eqb (count_str r (map region_id_str (defined rs))) 1) (map region_id_str (all_refs rs)) = true).
  { apply forallb_forall. intros r Hr. apply Nat.eqb_eq. apply count_str_one; [exact NR|].
    apply in_map_iff in Hr. destruct Hr as [x [<- Hx]]. apply in_map. apply regions_resolve. exact Hx. }
  rewrite E3. cbn [negb].
  assert (E4 : forallb (fun r => existsb (str_eqb r) (map region_id_str (all_refs rs))) (map region_id_str (defined rs)) = true).
  { apply forallb_forall. intros r Hr. apply existsb_str_In. apply in_map_iff in Hr. destruct Hr as [x [<- Hx]].
    apply in_map. apply no_unreferenced_region. exact Hx. }
  rewrite E4. reflexivity.
Qed.

(* ---- span attribute dictionaries ---------------------------------------------------------------------------- *)
Definition wf_dict (d : list (str * str)) : Prop :=
  NoDup (map fst d) /\ (forall k v, In (k, v) d -> valid_name k = true /\ forallb is_xml_char v = true).

Lemma dict_put_wf : forall k v d, valid_name k = true -> forallb is_xml_char v = true -> wf_dict d -> wf_dict (dict_put k v d).
Proof.
  intros k v d Hk Hv. induction d as [|[k' v'] t IH]; intros [N W].
  - split; [repeat constructor; intros []|]. intros k0 v0 [E|[]]. inversion E; subst. auto.
  - cbn [dict_put]. destruct (str_eqb k' k) eqn:E.
    + apply str_eqb_eq in E. subst. split; [exact N|]. intros k0 v0 [E0|H0]; [inversion E0; subst; auto|apply W; right; exact H0].
    + inversion N; subst. destruct IH as [N' W']; [split; [assumption|intros; apply W; right; assumption]|].
      split.
      * cbn [map fst]. constructor; [|exact N']. intros C.
        assert (Keys : forall x, In x (map fst (dict_put k v t)) -> x = k \/ In x (map fst t)).
        { clear. induction t as [|[a b] t IHt]; intros x Hx; cbn [dict_put map fst] in Hx.
          - destruct Hx as [<-|[]]. left. reflexivity.
          - destruct (str_eqb a k); cbn [map fst] in Hx.
            + right. exact Hx.
            + destruct Hx as [<-|Hx]; [right; left; reflexivity|]. destruct (IHt x Hx); [left; assumption|right; right; assumption]. }
        destruct (Keys _ C) as [C'|C']; [subst; rewrite str_eqb_refl' in E; discriminate|contradiction].
      * intros k0 v0 [E0|H0]; [inversion E0; subst; apply W; left; reflexivity|apply W'; exact H0].
Qed.

Lemma dict_update_wf : forall upd d, (forall k v, In (k, v) upd -> valid_name k = true /\ forallb is_xml_char v = true) ->
  wf_dict d -> wf_dict (dict_update d upd).
Proof.
  unfold dict_update. induction upd as [|[k v] t IH]; intros d H W; [exact W|]. cbn [fold_left fst snd].
  apply IH; [intros; apply H; right; assumption|].
  destruct (H k v (or_introl eq_refl)). apply dict_put_wf; assumption.
Qed.

Lemma attrs_ok_of_wf : forall a seen, wf_dict a -> (forall k, In k (map fst a) -> ~ In k (map fst seen)) -> attrs_ok a seen.
Proof.
  induction a as [|[n v] t IH]; intros seen [N W] Dj; [exact I|]. inversion N; subst. cbn [attrs_ok].
  destruct (W n v (or_introl eq_refl)) as [Wn Wv]. split; [exact Wn|]. split.
  - destruct (existsb (fun a => str_eqb (fst a) n) seen) eqn:E; [|reflexivity].
    apply existsb_exists in E. destruct E as [[k' v'] [Hk Ek]]. cbn [fst] in Ek. apply str_eqb_eq in Ek. subst.
    exfalso. apply (Dj n); [left; reflexivity|]. apply in_map_iff. exists (n, v'). split; [reflexivity|exact Hk].
  - split; [exact Wv|]. apply IH.
    + split; [assumption|intros; apply W; right; assumption].
    + intros k Hk [C|C]; [cbn [fst] in C; subst; contradiction|]. apply (Dj k); [right; exact Hk|exact C].
Qed.

Lemma attrs_ok_wf : forall a seen, attrs_ok a seen -> wf_dict a.
Proof.
  induction a as [|[n v] t IH]; intros seen H; [split; [constructor|intros ? ? []]|].
  destruct H as (H1 & H2 & H3 & H4). destruct (IH _ H4) as [N W]. split.
  - cbn [map fst]. constructor; [|exact N]. intros C.
    assert (G : forall t seen, attrs_ok t seen -> forall k, In k (map fst t) -> existsb (fun a => str_eqb (fst a) k) seen = false).
    { clear. induction t as [|[n v] t IHt]; intros seen H k Hk; [destruct Hk|]. destruct H as (_ & H2 & _ & H4).
      destruct Hk as [<-|Hk]; [exact H2|]. specialize (IHt _ H4 k Hk). cbn [existsb fst] in IHt.
      apply orb_false_elim in IHt. tauto. }
    specialize (G t _ H4 n C). cbn [existsb fst] in G. rewrite str_eqb_refl' in G. discriminate.
  - intros k0 v0 [E|Hk]; [inversion E; subst; auto|apply W; exact Hk].
Qed.

(* whatever style dictionary, region id and inline positioning attributes: the dictionary written on a <span> has
   valid, pairwise distinct attribute names and values of XML characters - so the payload theorem applies to it *)
Theorem span_attributes_ok : forall content ids region inline,
  (forall v, In v (map snd content) -> forallb is_xml_char v = true) ->
  match region with Some r => forallb is_xml_char r = true | None => True end ->
  (forall k v, In (k, v) inline -> valid_name k = true /\ forallb is_xml_char v = true) ->
  attrs_ok (span_attributes (recreate_style content ids) region inline) [].
Proof.
  intros content ids region inline Hc Hr Hi.
  pose proof (attrs_ok_wf _ _ (recreate_style_attrs_ok content ids Hc)) as W.
  apply attrs_ok_of_wf; [|intros k _ []]. unfold span_attributes. destruct region as [r|]; [|exact W].
  apply dict_update_wf; [exact Hi|]. apply dict_put_wf; [reflexivity|exact Hr|exact W].
Qed.

(* ---- wave 3: the composed payload statement ------------------------------------------------------------------- *)
Definition cnode_ok (n : cnode) : Prop :=
  match n with
  | CText s => forallb is_xml_char s = true
  | CStart content region inline =>
      (forall v, In v (map snd content) -> forallb is_xml_char v = true) /\
      match region with Some r => forallb is_xml_char r = true | None => True end /\
      (forall k v, In (k, v) inline -> valid_name k = true /\ forallb is_xml_char v = true)
  | _ => True
  end.

(* from (style dictionary, region, inline attributes, texts) to an accepted payload, for both writers: whatever XML
   characters occur in the texts and the values, the payload of a caption whose style nodes are balanced is
   well-formed element content *)
Theorem caption_payload_wellformed : forall legacy ids nodes,
  Forall cnode_ok nodes -> balanced (map (to_pnode ids) nodes) ->
  exists evs, content_parse (fst (caption_payload legacy ids nodes)) = Some evs.
Proof.
  intros legacy ids nodes F B. unfold caption_payload. apply payload_wellformed_balanced; [|exact B].
  clear B. induction F as [|n t Hn Ht IH]; [constructor|]. cbn [map]. constructor; [|exact IH].
  destruct n as [s| |content region inline|]; cbn [to_pnode node_ok].
  - exact Hn.
  - exact I.
  - destruct Hn as (H1 & H2 & H3). apply span_attributes_ok; assumption.
  - exact I.
Qed.

(* ---- wave 3: LegacyDFXPWriter at document level ---------------------------------------------------------------- *)
Lemma legacy_refs_bottom : forall d r, In r (legacy_region_refs d) -> r = legacy_region.
Proof.
  intros d r H. unfold legacy_region_refs in H. apply in_flat_map in H. destruct H as [l [_ H]].
  apply in_flat_map in H. destruct H as [c [_ H]]. destruct H as [<-|H]; [reflexivity|].
  apply in_flat_map in H. destruct H as [n [_ H]]. destruct (rn_span (dn_r n)); [|destruct H].
  unfold legacy_span_region in H. destruct (lookup (lit "region") (dn_content n)) as [x|]; [|destruct H].
  destruct (str_eqb x legacy_region); [|destruct H]. destruct H as [<-|[]]. reflexivity.
Qed.

Theorem legacy_doc_consistent : forall d, dom_legacy d = true ->
  let s := legacy_summarize d in
  ok_refs (s_ids s) (s_style_ids s) (s_region_ids s) (s_style_refs s) (s_region_refs s) = 0.
Proof.
  intros d D. unfold dom_legacy in D. apply andb_prop in D. destruct D as [D D3]. apply andb_prop in D. destruct D as [D1 D2].
  apply nodup_str_sound in D1. unfold legacy_summarize in *. destruct (styling (ds_styles d)) as [written head_refs] eqn:ST.
  destruct (styling_spec _ _ _ D1 ST) as [NW HR]. cbn [s_ids s_style_ids s_region_ids s_style_refs s_region_refs] in *.
  unfold ok_refs.
  assert (E1 : nodup_str (written ++ [legacy_region]) = true).
  { apply nodup_str_NoDup. apply NoDup_app_disjoint; [exact NW|repeat constructor; intros []|].
    intros x Hx [C|[]]. subst x. apply negb_true_iff in D2.
    assert (T : existsb (str_eqb legacy_region) written = true) by (apply existsb_str_In; exact Hx). congruence. }
  rewrite E1. cbn [negb].
  assert (E2 : forallb (fun r => Nat.eqb (count_str r written) 1) (head_refs ++ body_style_refs written d) = true).
  { apply forallb_forall. intros r Hr. apply Nat.eqb_eq. apply count_str_one; [exact NW|].
    apply in_app_iff in Hr. destruct Hr as [Hr|Hr]; [apply HR; exact Hr|eapply body_refs_written; eauto]. }
  rewrite E2. cbn [negb].
  assert (E3 : forallb (fun r => Nat.eqb (count_str r [legacy_region]) 1) (legacy_region_refs d) = true).
  { apply forallb_forall. intros r Hr. apply legacy_refs_bottom in Hr. subst r. reflexivity. }
  rewrite E3. cbn [negb].
  assert (E4 : existsb (str_eqb legacy_region) (legacy_region_refs d) = true).
  { apply existsb_exists in D3. destruct D3 as [l [Hl Hc]]. apply existsb_str_In. unfold legacy_region_refs.
    apply in_flat_map. exists l. split; [exact Hl|]. destruct (dl_caps l) as [|c t]; [discriminate|].
    cbn [flat_map]. left. reflexivity. }
  cbn [forallb]. rewrite E4. reflexivity.
Qed.

(* ---- wave 3: the legacy writer's span / p attributes ----------------------------------------------------------- *)
Lemma recreate_style_no_region : forall content ids, ~ In (lit "region") (map fst (recreate_style content ids)).
Proof.
  intros content ids. unfold recreate_style.
  destruct (lookup (lit "class") content) as [c|]; [destruct (existsb (str_eqb c) ids)|];
  destruct (lookup (lit "text-align") content) as [v2|];
  destruct (lookup (lit "italics") content) as [[|v3a v3]|];
  destruct (lookup (lit "font-family") content) as [v4|];
  destruct (lookup (lit "font-size") content) as [v5|];
  destruct (lookup (lit "color") content) as [v6|];
  destruct (lookup (lit "display-align") content) as [v7|];
  cbn [app map fst In]; intros H; repeat (destruct H as [H|H]; [discriminate|]); exact H.
Qed.

Theorem legacy_recreate_style_attrs_ok : forall content ids rids,
  (forall v, In v (map snd content) -> forallb is_xml_char v = true) ->
  attrs_ok (legacy_recreate_style content ids rids) [].
Proof.
  intros content ids rids H. pose proof (attrs_ok_wf _ _ (recreate_style_attrs_ok content ids H)) as W.
  apply attrs_ok_of_wf; [|intros k _ []]. unfold legacy_recreate_style.
  destruct (lookup (lit "region") content) as [r|] eqn:L; [|exact W].
  destruct (existsb (str_eqb r) rids); [|exact W]. destruct W as [N V]. split.
  - cbn [app map fst]. constructor; [apply recreate_style_no_region|exact N].
  - intros k v [E|Hk]; [|apply V; exact Hk]. inversion E; subst. split; [reflexivity|].
    apply H. eapply lookup_in. exact L.
Qed.

(* ---- wave 5: SinglePositioningDFXPWriter ------------------------------------------------------------------------- *)
Lemma oset_add_twice : forall p s, oset_add p (oset_add p s) = oset_add p s.
Proof.
  intros [[[c cr] b]|] s; [|reflexivity]. unfold oset_add at 2.
  destruct (existsb (fun x => fst x =? c) s) eqn:E.
  - unfold oset_add. rewrite E. reflexivity.
  - unfold oset_add. rewrite existsb_app, E. cbn [existsb fst]. rewrite Z.eqb_refl. reflexivity.
Qed.
Lemma fold_nodes_single : forall p (ns : list rnode) s, Forall (fun n => rn_layout n = p) ns ->
  fold_left (fun s n => oset_add (rn_layout n) s) ns (oset_add p s) = oset_add p s.
Proof.
  intros p ns s F. induction F as [|n t Hn Ht IH]; [reflexivity|]. cbn [fold_left]. rewrite Hn, oset_add_twice. exact IH.
Qed.
Definition cap_single (p : lay) (c : rcap) : Prop := rc_layout c = p /\ Forall (fun n => rn_layout n = p) (rc_nodes c).
Lemma fold_caps_single : forall p (cs : list rcap) s, Forall (cap_single p) cs ->
  fold_left (fun s c => fold_left (fun s n => oset_add (rn_layout n) s) (rc_nodes c) (oset_add (rc_layout c) s)) cs (oset_add p s)
  = oset_add p s.
Proof.
  intros p cs s F. induction F as [|c t [Hc Hn] Ht IH]; [reflexivity|]. cbn [fold_left].
  rewrite Hc, oset_add_twice, (fold_nodes_single p _ s Hn). exact IH.
Qed.
Definition lang_single (p : lay) (l : rlang) : Prop := rl_layout l = p /\ Forall (cap_single p) (rl_caps l).
Definition lang_step (s : list (Z * bool)) (l : rlang) : list (Z * bool) :=
  fold_left (fun s c => fold_left (fun s n => oset_add (rn_layout n) s) (rc_nodes c) (oset_add (rc_layout c) s))
            (rl_caps l) (oset_add (rl_layout l) s).
Lemma fold_langs_single : forall p (ls : list rlang) s, Forall (lang_single p) ls ->
  fold_left lang_step ls (oset_add p s) = oset_add p s.
Proof.
  intros p ls s F. induction F as [|l t [Hl Hc] Ht IH]; [reflexivity|]. cbn [fold_left]. unfold lang_step at 2.
  rewrite Hl, oset_add_twice, (fold_caps_single p _ s Hc). exact IH.
Qed.

Lemma single_langs : forall p d, Forall (lang_single p) (rs_langs (to_rset (single_positioning p d))).
Proof.
  intros p d. unfold to_rset, single_positioning. cbn [ds_langs rs_langs]. rewrite map_map. apply Forall_forall. intros l Hl.
  apply in_map_iff in Hl. destruct Hl as [l0 [<- _]]. split; [reflexivity|]. cbn [dl_caps rl_caps]. rewrite map_map.
  apply Forall_forall. intros c Hc. apply in_map_iff in Hc. destruct Hc as [c0 [<- _]]. split; [reflexivity|].
  cbn [dc_nodes rc_nodes]. rewrite map_map. apply Forall_forall. intros n Hn. apply in_map_iff in Hn.
  destruct Hn as [n0 [<- _]]. reflexivity.
Qed.

(* the region map of a single-positioning set sends the positioning to `single_region` *)
Lemma single_region_of : forall p d, rs_langs (to_rset (single_positioning p d)) <> [] ->
  region_of (region_map (to_rset (single_positioning p d))) p = single_region p.
Proof.
  intros p d NE. unfold region_map, collect_unique.
  change (fun s l => fold_left (fun s0 c => fold_left (fun s1 n => oset_add (rn_layout n) s1) (rc_nodes c) (oset_add (rc_layout c) s0))
                               (rl_caps l) (oset_add (rl_layout l) s)) with lang_step.
  pose proof (single_langs p d) as F. destruct (rs_langs (to_rset (single_positioning p d))) as [|l t]; [congruence|].
  inversion F as [|? ? Hx Ft]; subst. destruct Hx as [Hl Hc]. cbn [fold_left]. unfold lang_step at 2. rewrite Hl.
  rewrite (fold_caps_single p _ [] Hc), (fold_langs_single p t [] Ft).
  destruct p as [[[c cr] b]|]; [|reflexivity]. cbn [oset_add existsb app filter fst]. unfold region_of, single_region.
  destruct (c =? 0) eqn:E0; cbn [negb filter create_regions app map_get].
  - destruct (0 =? c); destruct cr; reflexivity.
  - assert (E1 : (0 =? c) = false) by lia.
    destruct cr; cbn [create_regions app map_get]; rewrite ?Z.eqb_refl, ?E1; reflexivity.
Qed.

Lemma pick_single : forall p a b, (a = None \/ a = p) -> (b = None \/ b = p) -> pick a b p p = p.
Proof. intros p a b [->| ->] [->| ->]; unfold pick; cbn [truthy]; destruct (truthy p); reflexivity. Qed.

(* every region= of a single-positioning document names the one region *)
Theorem single_refs : forall p d r, In r (all_refs (to_rset (single_positioning p d))) -> r = single_region p.
Proof.
  intros p d r H.
  assert (NE : rs_langs (to_rset (single_positioning p d)) <> []).
  { intros E. unfold all_refs, refs in H. rewrite E in H. destruct H. }
  pose proof (single_region_of p d NE) as R. pose proof (single_langs p d) as F.
  unfold all_refs, refs in H. apply in_flat_map in H. destruct H as [dv [Hd Hr]].
  apply in_map_iff in Hd. destruct Hd as [l [<- Hl]]. rewrite Forall_forall in F. destruct (F l Hl) as [El Fc].
  assert (Es : rs_layout (to_rset (single_positioning p d)) = p) by reflexivity.
  cbn [fst snd] in Hr. rewrite El, Es in Hr. destruct Hr as [<-|Hr].
  - rewrite pick_single by auto. exact R.
  - apply in_flat_map in Hr. destruct Hr as [pp [Hp Hr]]. apply in_map_iff in Hp. destruct Hp as [c [<- Hc]].
    rewrite Forall_forall in Fc. destruct (Fc c Hc) as [Ec Fn]. cbn [fst snd] in Hr. rewrite Ec in Hr. destruct Hr as [<-|Hr].
    + rewrite pick_single by auto. exact R.
    + apply in_map_iff in Hr. destruct Hr as [n [<- Hn]]. apply filter_In in Hn. destruct Hn as [Hn _].
      rewrite Forall_forall in Fn. rewrite (Fn n Hn). rewrite pick_single by auto. exact R.
Qed.

(* consistency of the single-positioning writer's documents on a domain phrased on the INPUT: style ids distinct and no
   written style named like the one region ("bottom", or "r0" when the positioning creates a region of its own) *)
Theorem single_doc_consistent : forall p d, dom_single p d = true ->
  let s := summarize (single_positioning p d) in
  ok_refs (s_ids s) (s_style_ids s) (s_region_ids s) (s_style_refs s) (s_region_refs s) = 0.
Proof.
  intros p d D. apply doc_consistent. unfold dom_single in D. apply andb_prop in D. destruct D as [D1 D2].
  unfold dom_doc. apply andb_true_intro. split.
  - unfold single_positioning. cbn [ds_styles]. rewrite map_map. cbn [fst]. exact D1.
  - rewrite forallb_forall in D2. apply forallb_forall. intros w Hw. specialize (D2 w Hw).
    apply negb_true_iff. apply not_true_is_false. intros C. apply existsb_str_In in C.
    assert (S : s_region_ids (summarize (single_positioning p d))
                = map region_id_str (defined (to_rset (single_positioning p d)))).
    { unfold summarize. destruct (styling (ds_styles (single_positioning p d))). reflexivity. }
    rewrite S in C. apply in_map_iff in C. destruct C as [x [Ex Hx]].
    apply no_unreferenced_region in Hx. apply single_refs in Hx. subst x. subst w.
    rewrite str_eqb_refl' in D2. discriminate.
Qed.
