(* C05, stage 5 of the pop-on refinement: ONE load with SEVERAL rows, each row with basic / special / extended characters
   and backspaces (no mid-row codes), control codes single or doubled.
   5a (rich_load: preambles of any colour / underline, non-italic): `read` returns exactly
      `map (cap_of t1 t2) (expected_load l)` (popon_stage5_read), which observed satisfies ok_c05 (popon_stage5_ok).
   5b (rich_load_any: rows may also have the ITALIC preamble): the decoder queues `load_nodes5b l` (stage5b_state): an
      italic preamble after plain text appends italics-on (after the pending BREAK), a plain preamble after italic text
      appends italics-off (before the BREAK); _format_italics turns them into `fin_nodes l` (format_load5b: italics closed
      before / reopened after a reposition, closed at the end); `read` returns `caps5b t1 t2 l`, the caption creator's
      output on `fin_nodes l`, whose observation is `map (ocap5b t1 t2) (expected_load l)`: the lines of the screen rows,
      italic exactly on the italic rows (popon_stage5b_read), and that observation satisfies ok_c05 (popon_stage5b_ok).
   Stage 3's induction over the rows with stage 2's token run in place of the character run: the token run is
   generalised from "the buffer holds one text node" to "the buffer's last node is the row's text node" (after a break or
   a reposition the row starts in a pending state: the first add_chars call materialises the BREAK / REPOSITION nodes).
   A backspace (explicit, or the implicit one of an extended character) always finds the row's own text non-empty, so
   get_previous_text_node never reaches back into an earlier row (predicate bsok).
   OPEN (not covered here): rows containing mid-row codes (item Mid); several loads of rich rows. *)
From Coq Require Import List ZArith QArith Qabs Lia Bool ZifyBool.
From PV Require Import lib.Sx lib.Str lib.Result model.GenScc model.SccLen model.SccTime model.SccStash model.SccDecoder model.SccLayout
                       spec.Spec608 spec.SpecScc05 spec.SpecSccLen proofs.SccTableFacts proofs.SccTableFixFacts proofs.SccDoubleFacts
                       proofs.SccLenFacts proofs.SccStashFacts proofs.SccPoponStage1 proofs.SccPoponStage2 proofs.SccPoponStage3.
Import ListNotations. Open Scope Z_scope.

(* performance only (see stage 1): the kernel must not evaluate the filter inside basic_code on a variable *)
Local Strategy 1000 [basic_code is_basic].

Definition rich_load (l : load) : bool :=
  load_wf l && forallb (fun r => row_ok r && negb (rw_ital r) && forallb rich_item (rw_items r)) l.

(* ---- 1. a backspace always finds a character of its own row ------------------------------------------------------ *)
Definition kpre5 (k : kind) (vt : str) : Prop := match k with KBs => vt <> [] | _ => True end.
Fixpoint bsok (ts : list atok) (vt : str) : Prop :=
  match ts with
  | [] => True
  | ACh _ c :: t => bsok t (vt ++ [c])
  | ACode _ k :: t => kpre5 k vt /\ bsok t (ksem k vt)
  end.

Definition prev_char (prev : option item) : Prop :=
  match prev with Some (Ch _) | Some (Sp _) | Some (Ext _ _ _) => True | _ => False end.

Lemma snoc_not_nil : forall A (l : list A) x, l ++ [x] <> [].
Proof. intros A l x E. apply app_eq_nil in E. destruct E as [_ E]. discriminate. Qed.

Lemma items_bsok : forall its prev (vt : str), items_ok its prev = true -> forallb rich_item its = true ->
  (prev_char prev -> vt <> []) -> bsok (flat_map atoks_of_item its) vt.
Proof.
  induction its as [|it t IH]; intros prev vt Hok Hr Hp; [exact I|].
  rewrite forallb_cons in Hr. apply andb_true_iff in Hr. destruct Hr as [Hi Hr].
  destruct (items_ok_inv it t prev Hok) as [Hok' Hit].
  destruct it as [c|i|s g i|a|]; try discriminate Hi; cbn [flat_map atoks_of_item app bsok kpre5 ksem].
  - apply (IH (Some (Ch c))); [exact Hok'|exact Hr|intros _; apply snoc_not_nil].
  - split; [exact I|]. apply (IH (Some (Sp i))); [exact Hok'|exact Hr|intros _; apply snoc_not_nil].
  - split; [exact I|]. apply (IH (Some (Ext s g i))); [exact Hok'|exact Hr|intros _; apply snoc_not_nil].
  - split.
    + apply Hp. destruct Hit as [[c ->]|[[j ->]|[s [g [i ->]]]]]; exact I.
    + apply (IH (Some Bs)); [exact Hok'|exact Hr|intros []].
Qed.

(* ---- 2. the last text node of a buffer ------------------------------------------------------------------------------ *)
Lemma prev_text_snoc : forall pre c0 t p, prev_text (pre ++ [mkI IText (c0 :: t) p]) = Some (c0 :: t, false).
Proof. intros pre c0 t p. unfold prev_text. rewrite rev_unit. reflexivity. Qed.

Lemma upd_snoc : forall f pre c0 t p,
  upd_prev_text f (pre ++ [mkI IText (c0 :: t) p]) = pre ++ [mkI IText (f (c0 :: t)) p].
Proof.
  intros f pre c0 t p. unfold upd_prev_text. rewrite rev_unit.
  cbn [upd_prev_text_rev is_text i_kind i_text i_pos nonempty andb rev]. rewrite rev_involutive. reflexivity.
Qed.

Lemma hb_ext5 : forall w x vt pre p sty, extended_of w = Some x -> vt <> [] -> is_extended_value (last vt 0) = false ->
  handle_backspace w (mkCr (pre ++ [mkI IText vt p]) sty) = mkCr (pre ++ [mkI IText (removelast vt) p]) sty.
Proof.
  intros w x vt pre p sty He Hne Hl. destruct vt as [|c0 t]; [congruence|].
  unfold handle_backspace. cbn [cr_nodes cr_style]. rewrite prev_text_snoc, He. unfold last_char. rewrite Hl.
  cbn [andb negb orb]. rewrite upd_snoc. reflexivity.
Qed.

Lemma hb_bs5 : forall vt pre p sty, vt <> [] ->
  handle_backspace w_bs (mkCr (pre ++ [mkI IText vt p]) sty) = mkCr (pre ++ [mkI IText (removelast vt) p]) sty.
Proof.
  intros vt pre p sty Hne. destruct vt as [|c0 t]; [congruence|].
  unfold handle_backspace. cbn [cr_nodes cr_style]. rewrite prev_text_snoc, Z.eqb_refl, orb_true_r, upd_snoc. reflexivity.
Qed.

(* what the double-command memory holds after a word of a row's text: nothing a preamble address code could match *)
Definition rowlast (l : lastcmd) : Prop := forall p, is_pac p = true -> last_contains l p = false.

Lemma rowlast_none : rowlast LNone.
Proof. intros p _. reflexivity. Qed.

Lemma rowlast_word : forall w, is_pac w = false -> rowlast (LWord w).
Proof.
  intros w Hw p Hp. cbn [last_contains]. destruct (Z.eqb_spec w p) as [E|]; [|reflexivity]. congruence.
Qed.

(* ---- 3. the token run on a buffer whose last node is (going to be) the row's text node ------------------------------ *)
Section Run5.
Variables (st : stash) (d : bool) (sty : istyle) (pa ro : creator) (q : option (creator * Q)) (tm : Q) (tc : str) (off : Q).

(* r_dstart = d: the doubled RCL of the prologue sets double_starter *)
Definition RS (tk : tracker) (l : lastcmd) (nodes : list inode) (fr : Z) : rstate :=
  mkR st tk l d (mkCr nodes sty) pa ro MPop q tm tc fr off None.

Section Toks5.
Variables (tk0 tk1 : tracker) (nodes0 pre : list inode) (p : pos).
Hypothesis H0 : forall s, add_chars tk0 (mkCr nodes0 sty) s = (tk1, mkCr (pre ++ [mkI IText s p]) sty).
Hypothesis H1 : forall txt s, add_chars tk1 (mkCr (pre ++ [mkI IText txt p]) sty) s
                              = (tk1, mkCr (pre ++ [mkI IText (txt ++ s) p]) sty).

(* pending (nothing of the row received yet), or the row's text node is the last node *)
Definition holds5 (tk : tracker) (l : lastcmd) (nodes : list inode) (txt : str) : Prop :=
  (tk = tk0 /\ nodes = nodes0 /\ txt = []) \/ (tk = tk1 /\ nodes = pre ++ [mkI IText txt p] /\ rowlast l).

Lemma holds5_def : forall l txt, rowlast l -> holds5 tk1 l (pre ++ [mkI IText txt p]) txt.
Proof. intros l txt H. right. repeat split. exact H. Qed.

Lemma add5 : forall tk l nodes txt s, holds5 tk l nodes txt ->
  add_chars tk (mkCr nodes sty) s = (tk1, mkCr (pre ++ [mkI IText (txt ++ s) p]) sty).
Proof. intros tk l nodes txt s [(-> & -> & ->)|(-> & -> & _)]; [apply H0|apply H1]. Qed.

Lemma tw_char5 : forall tk l nodes txt fr w a b n,
  char_of (hi w) = Some a -> char_of (lo w) = Some b -> holds5 tk l nodes txt ->
  translate_word (RS tk l nodes fr) w n = RS tk1 (LWord w) (pre ++ [mkI IText (txt ++ a ++ b) p]) (fr + 1).
Proof.
  intros tk l nodes txt fr w a b n Ha Hb Hh. unfold RS.
  destruct (char_word_class w a b Ha Hb) as (Hc & Hp & Hs & He & Ht & Hq & Hbs).
  unfold translate_word. proj_red. unfold handle_double. proj_red. rewrite Hc, Hp, Hs, He, Ht, Hq.
  proj_red. rewrite ?andb_false_r. proj_red. rewrite Ha, Hb. unfold add_to_buf. proj_red.
  rewrite (add5 tk l nodes txt (a ++ b) Hh). proj_red. reflexivity.
Qed.

(* the first copy of a code word of the three kinds *)
Lemma tw_code5 : forall w k vt tk l nodes fr n, kind_ok w k -> kpre k vt -> kpre5 k vt -> last_is l w = false ->
  holds5 tk l nodes vt ->
  translate_word (RS tk l nodes fr) w n = RS tk1 (LWord w) (pre ++ [mkI IText (ksem k vt) p]) (fr + 1).
Proof.
  intros w k vt tk l nodes fr n Hk Hp Hp5 Hl Hh. destruct (kind_class w k Hk) as [Cp Ct Cq _ _].
  destruct k as [ch|ch|]; cbn [kind_ok kpre kpre5 ksem] in *.
  - assert (X : special_of w <> None) by congruence.
    destruct classes_disjoint as (D & _). destruct (D w X) as (Hc & _).
    unfold RS, translate_word. proj_red. rewrite (hd_code _ _ _ _ _ _ _ _ _ _ _ _ _ Cp Ct Cq Hl). proj_red.
    rewrite Hc, Cp. proj_red. rewrite Hk. unfold add_to_buf. proj_red.
    rewrite (add5 tk l nodes vt [ch] Hh). proj_red. reflexivity.
  - assert (X : extended_of w <> None) by congruence.
    destruct classes_disjoint as (D1 & D & _). destruct (D w X) as (Hc & _).
    assert (Hs : special_of w = None).
    { destruct (special_of w) eqn:E; [|reflexivity]. exfalso.
      assert (Y : special_of w <> None) by congruence. destruct (D1 w Y) as (_ & _ & Z0 & _). congruence. }
    destruct Hp as [Hne Hlast].
    destruct Hh as [(_ & _ & ->)|(-> & -> & Hr)]; [congruence|].
    unfold RS, translate_word. proj_red. rewrite (hd_code _ _ _ _ _ _ _ _ _ _ _ _ _ Cp Ct Cq Hl). proj_red.
    rewrite Hc, Cp. proj_red. rewrite Hs, Hk. unfold add_to_buf. proj_red.
    rewrite (hb_ext5 w [ch] vt pre p sty Hk Hne Hlast), H1. proj_red. reflexivity.
  - subst w. destruct bs_facts as (Hc & _ & _ & _ & _ & _ & _ & _ & _ & _ & Hn).
    destruct Hh as [(_ & _ & ->)|(-> & -> & Hr)]; [congruence|].
    unfold RS, translate_word. proj_red. rewrite (hd_code _ _ _ _ _ _ _ _ _ _ _ _ _ Cp Ct Cq Hl). proj_red.
    rewrite Hc. proj_red. rewrite (translate_command_other _ w_bs n Hn). unfold do_interpret. proj_red.
    rewrite interp_bs, (hb_bs5 vt pre p sty Hp5). proj_red. reflexivity.
Qed.

Lemma dt_code5 : forall w k tk l nodes fr, kind_ok w k -> d = true -> doubled_type (RS tk l nodes fr) w = true.
Proof.
  intros w k tk l nodes fr Hk _. unfold doubled_type.
  destruct k as [ch|ch|]; cbn [kind_ok] in Hk.
  - rewrite Hk. rewrite orb_true_r. reflexivity.
  - rewrite Hk. apply orb_true_r.
  - subst w. vm_compute. reflexivity.
Qed.

(* a code word, sent once or twice *)
Lemma code_run5 : forall w k vt pc tk l nodes fr nx, kind_ok w k -> kpre k vt -> kpre5 k vt -> pc <> Some w ->
  holds5 tk l nodes vt -> linv l pc ->
  exists l', tws (RS tk l nodes fr) (ctl d w) nx
             = RS tk1 l' (pre ++ [mkI IText (ksem k vt) p]) (fr + Z.of_nat (length (ctl d w))) /\
             rowlast l' /\ linv l' (Some w).
Proof.
  intros w k vt pc tk l nodes fr nx Hk Hp Hp5 Hpc Hh [Hg _]. pose proof (kind_class w k Hk) as C.
  assert (Hl : last_is l w = false) by (apply Hg; [exact (cc_code w C)|exact (cc_pac w C)|exact Hpc]).
  pose proof (fun n => tw_code5 w k vt tk l nodes fr n Hk Hp Hp5 Hl Hh) as E1.
  destruct (d_cases d) as [Ed|Ed]; rewrite Ed; cbn [ctl tws length].
  - exists LNone. split; [|split; [apply rowlast_none|apply linv_none]].
    rewrite E1. rewrite tw_second; [|reflexivity|reflexivity|exact (dt_code5 w k _ _ _ _ Hk Ed)].
    rewrite (cc_cue w C). unfold RS, bump, set_dbl, set_clock. proj_red. f_equal. clear. lia.
  - exists (LWord w). split; [|split; [exact (rowlast_word w (cc_pac w C))|exact (linv_code w C)]].
    rewrite E1. reflexivity.
Qed.

Definition rgoal5 (tk : tracker) (l : lastcmd) (nodes : list inode) (fr : Z) (nx : option Z) (ws : list Z) (txt' : str) : Prop :=
  exists tk' l' nodes', tws (RS tk l nodes fr) ws nx = RS tk' l' nodes' (fr + Z.of_nat (length ws)) /\
                        holds5 tk' l' nodes' txt' /\ last_is l' w_eoc = false.

Lemma rgoal5_step : forall tk l nodes fr nx a rest txt' tk1' l1 nodes1,
  tws (RS tk l nodes fr) a (nxt rest nx) = RS tk1' l1 nodes1 (fr + Z.of_nat (length a)) ->
  rgoal5 tk1' l1 nodes1 (fr + Z.of_nat (length a)) nx rest txt' -> rgoal5 tk l nodes fr nx (a ++ rest) txt'.
Proof.
  intros tk l nodes fr nx a rest txt' tk1' l1 nodes1 E (tk' & l' & nodes' & E' & Hh & Hl). exists tk', l', nodes'.
  rewrite tws_app, E, E'. split; [|split; assumption]. f_equal. rewrite app_length. lia.
Qed.

(* one word of characters, then the rest *)
Lemma rgoal5_char : forall tk l nodes txt fr nx w a b rest txt',
  char_of (hi w) = Some a -> char_of (lo w) = Some b -> holds5 tk l nodes txt ->
  (forall l1 fr1, rowlast l1 -> linv l1 None -> rgoal5 tk1 l1 (pre ++ [mkI IText (txt ++ a ++ b) p]) fr1 nx rest txt') ->
  rgoal5 tk l nodes fr nx (w :: rest) txt'.
Proof.
  intros tk l nodes txt fr nx w a b rest txt' Ha Hb Hh K.
  apply (rgoal5_step tk l nodes fr nx [w] rest txt' tk1 (LWord w) (pre ++ [mkI IText (txt ++ a ++ b) p])).
  - cbn [tws length]. apply (tw_char5 tk l nodes txt fr w a b); assumption.
  - apply K; [|exact (linv_char w a b Ha Hb)].
    destruct (char_word_class w a b Ha Hb) as (_ & Hp & _). exact (rowlast_word w Hp).
Qed.

Lemma atoks_run5 : forall nx ts,
  (forall vt pc tk l nodes fr, aok ts vt pc -> bsok ts vt -> holds5 tk l nodes vt -> linv l pc ->
     rgoal5 tk l nodes fr nx (apack d ts None) (asem ts vt)) /\
  (forall b0 c0 txt tk l nodes fr, carries b0 c0 -> aok ts (txt ++ [c0]) None -> bsok ts (txt ++ [c0]) ->
     holds5 tk l nodes txt -> rgoal5 tk l nodes fr nx (apack d ts (Some b0)) (asem ts (txt ++ [c0]))).
Proof.
  intros nx.
  (* a pending byte is flushed with the filler, then the tokens run without a pending byte *)
  assert (FL : forall ts,
     (forall vt pc tk l nodes fr, aok ts vt pc -> bsok ts vt -> holds5 tk l nodes vt -> linv l pc ->
        rgoal5 tk l nodes fr nx (apack d ts None) (asem ts vt)) ->
     forall b0 c0 txt tk l nodes fr, carries b0 c0 -> aok ts (txt ++ [c0]) None -> bsok ts (txt ++ [c0]) ->
        holds5 tk l nodes txt -> rgoal5 tk l nodes fr nx ((b0 * 256 + 128) :: apack d ts None) (asem ts (txt ++ [c0]))).
  { intros ts A1 b0 c0 txt tk l nodes fr [Rg0 Hc0] Hok Hbs Hh.
    assert (Ha : char_of (hi (b0 * 256 + 128)) = Some [c0]) by (rewrite hi_word by lia; exact Hc0).
    assert (Hl : char_of (lo (b0 * 256 + 128)) = Some []) by (rewrite lo_word by lia; exact char_of_pad).
    apply (rgoal5_char tk l nodes txt fr nx _ [c0] [] _ _ Ha Hl Hh). rewrite app_nil_r.
    intros l1 fr1 Hr1 Hl1. exact (A1 _ None tk1 l1 _ fr1 Hok Hbs (holds5_def l1 _ Hr1) Hl1). }
  induction ts as [|tk ts [IHa IHb]].
  - assert (A1 : forall vt pc tk l nodes fr, aok [] vt pc -> bsok [] vt -> holds5 tk l nodes vt -> linv l pc ->
                   rgoal5 tk l nodes fr nx (apack d [] None) (asem [] vt)).
    { intros vt pc tk l nodes fr _ _ Hh [_ Hl]. exists tk, l, nodes. cbn [apack flush tws length asem].
      rewrite Z.add_0_r. split; [reflexivity|split; assumption]. }
    split; [exact A1|]. intros b0 c0 txt tk l nodes fr Hc Hok Hbs Hh. exact (FL [] A1 b0 c0 txt tk l nodes fr Hc Hok Hbs Hh).
  - destruct tk as [b c|w k].
    + split.
      * intros vt pc tk l nodes fr [Hc Hok] Hbs Hh _. cbn [apack asem]. cbn [bsok] in Hbs.
        exact (IHb b c vt tk l nodes fr Hc Hok Hbs Hh).
      * intros b0 c0 txt tk l nodes fr [Rg0 Hc0] [[Rg Hc] Hok] Hbs Hh. cbn [apack asem]. cbn [bsok] in Hbs.
        assert (Ha : char_of (hi (b0 * 256 + b)) = Some [c0]) by (rewrite hi_word by exact Rg; exact Hc0).
        assert (Hl : char_of (lo (b0 * 256 + b)) = Some [c]) by (rewrite lo_word by exact Rg; exact Hc).
        apply (rgoal5_char tk l nodes txt fr nx _ [c0] [c] _ _ Ha Hl Hh).
        intros l1 fr1 Hr1 Hl1.
        apply (IHa ((txt ++ [c0]) ++ [c]) None tk1 l1 _ fr1); [exact Hok|exact Hbs| |exact Hl1].
        rewrite <- app_assoc. exact (holds5_def l1 _ Hr1).
    + assert (A1 : forall vt pc tk l nodes fr, aok (ACode w k :: ts) vt pc -> bsok (ACode w k :: ts) vt ->
                     holds5 tk l nodes vt -> linv l pc ->
                     rgoal5 tk l nodes fr nx (apack d (ACode w k :: ts) None) (asem (ACode w k :: ts) vt)).
      { intros vt pc tk l nodes fr (Hpc & Hk & Hp & Hok) [Hp5 Hbs] Hh Hl. cbn [apack flush app asem].
        destruct (code_run5 w k vt pc tk l nodes fr (nxt (apack d ts None) nx) Hk Hp Hp5 Hpc Hh Hl) as (l1 & E1 & Hr1 & Hl1).
        apply (rgoal5_step tk l nodes fr nx (ctl d w) _ _ tk1 l1 _ E1).
        exact (IHa _ _ tk1 l1 _ _ Hok Hbs (holds5_def l1 _ Hr1) Hl1). }
      split; [exact A1|]. intros b0 c0 txt tk l nodes fr Hc Hok Hbs Hh.
      exact (FL (ACode w k :: ts) A1 b0 c0 txt tk l nodes fr Hc Hok Hbs Hh).
Qed.
End Toks5.
End Run5.

(* ---- 4. the preamble address code (+ tab offset) of a non-italic row on a buffer without italics ------------------- *)
(* the first preamble address code of an EMPTY buffer resets the tracker first: stated, as in stage 3, for a buffer that
   is not empty or a tracker already in its reset form (pac_ready) *)
Lemma up_pac5 : forall tk nodes sty p pos, tab_of p = None -> pac_pos p = Some pos -> pac_ready tk nodes ->
  update_positioning tk (mkCr nodes sty) p = tracker_update tk pos.
Proof.
  intros tk nodes sty p pos Ht Hp [Hn|Hr].
  - apply up_pac; assumption.
  - rewrite (up_pac_gen _ _ _ _ Ht Hp). cbn [cr_nodes]. destruct nodes; [rewrite Hr|]; reflexivity.
Qed.

Lemma interp_pac5 : forall tk nodes sty w n pos, ctlfree w -> memz w scc_style_setting_commands = true ->
  memz w scc_italics_commands = false -> sty <> SOn -> tab_of w = None -> pac_pos w = Some pos -> pac_ready tk nodes ->
  interpret_command tk (mkCr nodes sty) w n = (tracker_update tk pos, mkCr nodes sty, None).
Proof.
  intros tk nodes sty w n pos C Hst Hit Hsty Ht Hp Hrd. unfold interpret_command. cbv zeta.
  rewrite (up_pac5 _ _ _ _ _ Ht Hp Hrd), (cf_bs _ C), (cf_bg _ C), Hst, Hit, (cf_mid _ C). cbn [cr_style cr_nodes andb].
  destruct sty; try congruence; cbn [cr_style cr_nodes]; destruct (prev_text nodes) as [[x y]|]; reflexivity.
Qed.

Lemma up_tab5 : forall tk nodes sty t k, tab_of t = Some k -> has_break_before nodes = false ->
  update_positioning tk (mkCr nodes sty) t = tracker_update tk (fst (tk_default tk), snd (tk_default tk) + k).
Proof. intros tk nodes sty t k Ht Hb. unfold update_positioning. rewrite Ht. cbn [cr_nodes]. rewrite Hb. reflexivity. Qed.

Section Rows5.
Variables (st : stash) (d : bool) (sty : istyle) (pa ro : creator) (q : option (creator * Q)) (tm : Q) (tc : str) (off : Q).
Hypothesis Hsty : sty <> SOn.
Notation RS := (RS st d sty pa ro q tm tc off).

Lemma pac_unit_run5 : forall r tk l nodes fr nx, rich_row r = true -> has_break_before nodes = false ->
  last_contains l (pac_word (rw_row r) (pac_attr r)) = false -> pac_ready tk nodes ->
  exists l', tws (RS tk l nodes fr) (pac_unit d r) nx
             = RS (tab_upd (rw_tab r) (tracker_update tk (rw_row r, rw_indent r))) l' nodes
                  (fr + Z.of_nat (length (pac_unit d r)))
             /\ linv l' None.
Proof.
  intros r tk l nodes fr nx Hrich Hbb Hl Hrd. destruct (rich_row_gen r Hrich) as [Hrow Hital].
  set (p := pac_word (rw_row r) (pac_attr r)) in *. set (t := tab_word (rw_tab r)).
  destruct (rich_facts r Hrow) as (_ & _ & Hk & _).
  destruct (pac_row_facts2 r Hrow) as (Hp & Hpac & Ht & C & Hst & Hit). fold p in Hp, Hpac, Ht, C, Hst, Hit.
  rewrite Hital in Hit.
  assert (Spac : forall l0 fr0 n, last_contains l0 p = false ->
            translate_word (RS tk l0 nodes fr0) p n = RS (tracker_update tk (rw_row r, rw_indent r)) (LWord p) nodes (fr0 + 1)).
  { intros l0 fr0 n Hl0. unfold SccPoponStage5.RS.
    apply (tw_cmd _ _ _ _ _ _ _ _ _ _ _ _ p n (LWord p) _ _ (cf_cp _ C) (cf_ctl _ C)
             (hd_pac _ _ _ _ _ _ _ _ _ _ _ _ _ Hpac Hl0)).
    exact (interp_pac5 tk nodes sty p n _ C Hst Hit Hsty Ht Hp Hrd). }
  assert (Sagain : forall tk0 l0 fr0 n, last_contains l0 p = true ->
            translate_word (RS tk0 l0 nodes fr0) p n = RS tk0 LNone nodes (fr0 + 1)).
  { intros tk0 l0 fr0 n Hl0. unfold SccPoponStage5.RS.
    rewrite (pac_second (mkR st tk0 l0 d (mkCr nodes sty) pa ro MPop q tm tc fr0 off None) p n eq_refl Hpac Hl0). reflexivity. }
  unfold pac_unit. cbv zeta. fold p. fold t. unfold tab_upd. destruct (0 <? rw_tab r) eqn:Et.
  - assert (Hk' : 1 <= rw_tab r <= 3) by lia. destruct (tab_row_facts _ Hk') as [Htab It]. fold t in Htab, It.
    assert (X : tab_of t <> None) by congruence.
    destruct classes_disjoint as (_ & _ & _ & D & _). destruct (D _ X) as (_ & _ & _ & Hstt & _).
    assert (Stab : forall tk0 fr0 n,
              translate_word (RS tk0 (LWord p) nodes fr0) t n
              = RS (tracker_update tk0 (fst (tk_default tk0), snd (tk_default tk0) + rw_tab r)) (LPacTo p t) nodes (fr0 + 1)).
    { intros tk0 fr0 n. unfold SccPoponStage5.RS.
      apply (tw_cmd _ _ _ _ _ _ _ _ _ _ _ _ t n (LPacTo p t) _ _ (in_cp _ It) (in_ctl _ It)
               (hd_tab _ _ _ _ _ _ _ _ _ _ _ _ _ _ Hpac Htab)).
      rewrite (interp_plain _ _ t n (in_bs _ It) (in_bg _ It) Hstt (in_mid _ It)).
      rewrite (up_tab5 _ _ _ _ _ Htab Hbb). reflexivity. }
    assert (Stab2 : forall tk0 fr0 n, translate_word (RS tk0 LNone nodes fr0) t n = RS tk0 LNone nodes (fr0 + 1)).
    { intros tk0 fr0 n. unfold SccPoponStage5.RS.
      rewrite (tab_skip_none (mkR st tk0 LNone d (mkCr nodes sty) pa ro MPop q tm tc fr0 off None) t n eq_refl eq_refl);
        [reflexivity|congruence]. }
    destruct d.
    + exists LNone. split; [|apply linv_none]. cbn [app tws length]. rewrite (Spac l fr _ Hl), Stab, Sagain, Stab2.
      * f_equal. clear. lia.
      * cbn [last_contains]. rewrite Z.eqb_refl. reflexivity.
    + exists (LPacTo p t). split; [|split; [intros w _ _ _|]; reflexivity].
      cbn [app tws length]. rewrite (Spac l fr _ Hl), Stab. f_equal. clear. lia.
  - destruct d.
    + exists LNone. split; [|apply linv_none]. cbn [app tws length]. rewrite (Spac l fr _ Hl), Sagain.
      * f_equal. clear. lia.
      * cbn [last_contains]. apply Z.eqb_refl.
    + exists (LWord p). split; [|exact (linv_pac r Hrow)]. cbn [app tws length]. rewrite (Spac l fr _ Hl). reflexivity.
Qed.

(* ---- 5. one row ------------------------------------------------------------------------------------------------------- *)
Lemma row_run5 : forall r tk l nodes fr nx tk0 tk1 pre p, rich_row r = true -> has_break_before nodes = false ->
  last_contains l (pac_word (rw_row r) (pac_attr r)) = false -> pac_ready tk nodes ->
  tab_upd (rw_tab r) (tracker_update tk (rw_row r, rw_indent r)) = tk0 ->
  (forall s, add_chars tk0 (mkCr nodes sty) s = (tk1, mkCr (pre ++ [mkI IText s p]) sty)) ->
  (forall txt s, add_chars tk1 (mkCr (pre ++ [mkI IText txt p]) sty) s = (tk1, mkCr (pre ++ [mkI IText (txt ++ s) p]) sty)) ->
  exists l', tws (RS tk l nodes fr) (emit_row d r) nx
             = RS tk1 l' (pre ++ [mkI IText (rich_text r) p]) (fr + Z.of_nat (length (emit_row d r)))
             /\ rowlast l' /\ last_is l' w_eoc = false.
Proof.
  intros r tk l nodes fr nx tk0 tk1 pre p Hrich Hbb Hl Hrd Etk H0 H1. destruct (rich_row_gen r Hrich) as [Hrow Hital].
  destruct (rich_facts r Hrow) as (_ & _ & _ & _ & _ & Hok & Hsem & _ & _ & Hne & _).
  assert (Hrow' := Hrow). unfold rich_row_any in Hrow'. apply andb_true_iff in Hrow'. destruct Hrow' as [Hrok Hb].
  destruct (row_ok_parts r Hrok) as (_ & _ & _ & Hio & _).
  pose proof (items_bsok (rw_items r) None [] Hio Hb (fun X : prev_char None => match X with end)) as Hbs.
  unfold emit_row. rewrite (pack_apack d _ None Hb), tws_app, app_length, Nat2Z.inj_add.
  set (toks := apack d (flat_map atoks_of_item (rw_items r)) None) in *.
  destruct (pac_unit_run5 r tk l nodes fr (nxt toks nx) Hrich Hbb Hl Hrd) as (l1 & E1 & Hl1).
  rewrite E1, Etk.
  destruct (proj1 (atoks_run5 st d sty pa ro q tm tc off tk0 tk1 nodes pre p H0 H1 nx (flat_map atoks_of_item (rw_items r)))
              [] None tk0 l1 nodes (fr + Z.of_nat (length (pac_unit d r))) Hok Hbs (or_introl (conj eq_refl (conj eq_refl eq_refl))) Hl1)
    as (tk' & l2 & nodes2 & E2 & Hh2 & Hl2).
  fold toks in E2. rewrite Hsem in Hh2. destruct Hh2 as [(_ & _ & X)|(-> & -> & Hr2)]; [congruence|].
  exists l2. split; [|split; assumption]. rewrite E2. f_equal. clear. lia.
Qed.

(* ---- 6. the second and later rows ------------------------------------------------------------------------------------ *)
(* nodes appended after the text node of the previous row: cur = address of the current run, lastrow = last row *)
Fixpoint tail_nodes5 (t : load) (cur : pos) (lastrow : Z) : list inode :=
  match t with
  | [] => []
  | r :: t' =>
      if rw_row r =? lastrow + 1
      then mkI IBreak [] cur :: mkI IText (rich_text r) cur :: tail_nodes5 t' cur (rw_row r)
      else mkI IText [] (row_pos r) :: mkI IRepos [] (row_pos r) :: mkI IText (rich_text r) (row_pos r)
           :: tail_nodes5 t' (row_pos r) (rw_row r)
  end.

Lemma add_chars_plain5 : forall p ps dflt pre txt q0 s,
  add_chars (mkTk (p :: ps) None false dflt) (mkCr (pre ++ [mkI IText txt q0]) sty) s
  = (mkTk (p :: ps) None false dflt, mkCr (pre ++ [mkI IText (txt ++ s) q0]) sty).
Proof.
  intros p ps dflt pre txt q0 s. unfold add_chars.
  cbn [current_position tk_pos tk_repos tk_break break_required cr_nodes cr_style]. rewrite last_some_app.
  cbn [is_text i_kind andb negb]. rewrite map_last_snoc. reflexivity.
Qed.

Lemma add_chars_first5 : forall p dflt s,
  add_chars (mkTk [p] None false dflt) (mkCr [] sty) s = (mkTk [p] None false dflt, mkCr ([] ++ [mkI IText s p]) sty).
Proof. reflexivity. Qed.

Lemma add_chars_break5 : forall p ps c dflt pre txt q0 s,
  add_chars (mkTk (p :: ps) (Some c) false dflt) (mkCr (pre ++ [mkI IText txt q0]) sty) s
  = (mkTk (p :: ps) None false dflt, mkCr ((pre ++ [mkI IText txt q0; mkI IBreak [] p]) ++ [mkI IText s p]) sty).
Proof.
  intros p ps c dflt pre txt q0 s. unfold add_chars.
  cbn [current_position tk_pos tk_repos tk_break break_required cr_nodes cr_style]. rewrite last_some_app.
  cbn [is_text i_kind andb negb ack_break ack_repos tk_pos tk_repos tk_break tk_default].
  replace ((pre ++ [mkI IText txt q0]) ++ [mkI IBreak [] p; mkI IText [] p])
    with ((pre ++ [mkI IText txt q0; mkI IBreak [] p]) ++ [mkI IText [] p]) by (rewrite <- !app_assoc; reflexivity).
  rewrite map_last_snoc. reflexivity.
Qed.

Lemma add_chars_repos5 : forall p dflt pre txt q0 s,
  add_chars (mkTk [p] None true dflt) (mkCr (pre ++ [mkI IText txt q0]) sty) s
  = (mkTk [p] None false dflt,
     mkCr ((pre ++ [mkI IText txt q0; mkI IText [] p; mkI IRepos [] p]) ++ [mkI IText s p]) sty).
Proof.
  intros p dflt pre txt q0 s. unfold add_chars.
  cbn [current_position tk_pos tk_repos tk_break break_required cr_nodes cr_style]. rewrite last_some_app.
  cbn [is_text i_kind andb negb ack_break ack_repos tk_pos tk_repos tk_break tk_default].
  replace (((pre ++ [mkI IText txt q0]) ++ [mkI IText [] p]) ++ [mkI IRepos [] p; mkI IText [] p])
    with ((pre ++ [mkI IText txt q0; mkI IText [] p; mkI IRepos [] p]) ++ [mkI IText [] p]) by (rewrite <- !app_assoc; reflexivity).
  rewrite map_last_snoc. reflexivity.
Qed.

Lemma rows_run5 : forall t, Forall (fun r => rich_row r = true) t ->
  forall nx pre txt (cur : pos) (ps : list pos) lastrow c0 dflt l fr, chain_ok lastrow t -> rowlast l -> last_is l w_eoc = false ->
  last (map Some (cur :: ps)) None = Some (lastrow, c0) ->
  exists tk' l', tws (RS (mkTk (cur :: ps) None false dflt) l (pre ++ [mkI IText txt cur]) fr) (flat_map (emit_row d) t) nx
     = RS tk' l' (pre ++ mkI IText txt cur :: tail_nodes5 t cur lastrow) (fr + Z.of_nat (length (flat_map (emit_row d) t)))
     /\ last_is l' w_eoc = false.
Proof.
  intros t F. induction F as [|r t Hrich F IH]; intros nx pre txt cur ps lastrow c0 dflt l fr Hch Hl Hle Hlast.
  - exists (mkTk (cur :: ps) None false dflt), l. cbn [flat_map tws length tail_nodes5]. rewrite Z.add_0_r. split; [reflexivity|exact Hle].
  - destruct Hch as [Hne Hch]. cbn [flat_map]. rewrite tws_app, app_length, Nat2Z.inj_add.
    destruct (rich_row_gen r Hrich) as [Hrow Hital].
    destruct (rich_facts r Hrow) as (_ & _ & Hk & _).
    destruct (pac_row_facts2 r Hrow) as (_ & Hpac & _).
    pose proof (Hl _ Hpac) as Hlc.
    pose proof (no_break_before_text pre txt cur) as Hbb.
    cbn [tail_nodes5]. destruct (Z.eqb_spec (rw_row r) (lastrow + 1)) as [Eadj|Nadj].
    + (* next screen row: a further line of the current caption *)
      destruct (row_run5 r (mkTk (cur :: ps) None false dflt) l (pre ++ [mkI IText txt cur]) fr
                  (nxt (flat_map (emit_row d) t) nx)
                  (mkTk ((cur :: ps) ++ [(lastrow + 1, c0)]) (Some (rw_indent r)) false (lastrow + 1, rw_indent r + rw_tab r))
                  (mkTk ((cur :: ps) ++ [(lastrow + 1, c0)]) None false (lastrow + 1, rw_indent r + rw_tab r))
                  (pre ++ [mkI IText txt cur; mkI IBreak [] cur]) cur Hrich Hbb Hlc (pac_ready_nonempty _ _ _)) as (l1 & E1 & Hl1 & Hle1).
      * rewrite Eadj. apply tracker_adj; [exact Hlast|lia].
      * intros s. apply add_chars_break5.
      * intros txt0 s. apply add_chars_plain5.
      * rewrite E1.
        destruct (IH nx (pre ++ [mkI IText txt cur; mkI IBreak [] cur]) (rich_text r) cur (ps ++ [(lastrow + 1, c0)])
                    (rw_row r) c0 (lastrow + 1, rw_indent r + rw_tab r) l1 (fr + Z.of_nat (length (emit_row d r))) Hch Hl1 Hle1)
          as (tk' & l' & E & Hl').
        { change (cur :: ps ++ [(lastrow + 1, c0)]) with ((cur :: ps) ++ [(lastrow + 1, c0)]).
          rewrite last_some_app, Eadj. reflexivity. }
        exists tk', l'. split; [|exact Hl']. refine (eq_trans E _). rewrite <- app_assoc. cbn [app]. f_equal. clear. lia.
    + (* any other row: a new caption *)
      destruct (row_run5 r (mkTk (cur :: ps) None false dflt) l (pre ++ [mkI IText txt cur]) fr
                  (nxt (flat_map (emit_row d) t) nx)
                  (mkTk [row_pos r] None true (row_pos r)) (mkTk [row_pos r] None false (row_pos r))
                  (pre ++ [mkI IText txt cur; mkI IText [] (row_pos r); mkI IRepos [] (row_pos r)]) (row_pos r) Hrich Hbb Hlc
                  (pac_ready_nonempty _ _ _))
        as (l1 & E1 & Hl1 & Hle1).
      * unfold row_pos. apply (tracker_far _ lastrow c0); [exact Hlast|lia|exact Hne|exact Nadj].
      * intros s. apply add_chars_repos5.
      * intros txt0 s. apply add_chars_plain5.
      * rewrite E1.
        destruct (IH nx (pre ++ [mkI IText txt cur; mkI IText [] (row_pos r); mkI IRepos [] (row_pos r)]) (rich_text r)
                    (row_pos r) [] (rw_row r) (rw_indent r + rw_tab r) (row_pos r) l1
                    (fr + Z.of_nat (length (emit_row d r))) Hch Hl1 Hle1 eq_refl) as (tk' & l' & E & Hl').
        exists tk', l'. split; [|exact Hl']. refine (eq_trans E _). rewrite <- app_assoc. cbn [app]. f_equal. clear. lia.
Qed.
End Rows5.

(* ---- 7. the whole load, up to the End-Of-Caption -------------------------------------------------------------------- *)
Definition load_nodes5 (l : load) : list inode :=
  match l with
  | [] => []
  | r :: t => mkI IText (rich_text r) (row_pos r) :: tail_nodes5 t (row_pos r) (rw_row r)
  end.

Lemma rich_load_parts : forall l, rich_load l = true ->
  exists r t, l = r :: t /\ rich_row r = true /\ Forall (fun r => rich_row r = true) t /\ chain_ok (rw_row r) t.
Proof.
  intros l H. unfold rich_load in H. apply andb_true_iff in H. destruct H as [Hw Hb].
  destruct l as [|r t]; [discriminate Hw|]. exists r, t. unfold load_wf in Hw.
  apply andb_true_iff in Hw. destruct Hw as [_ Hd].
  rewrite forallb_cons in Hb. apply andb_true_iff in Hb. destruct Hb as [Hr Ht].
  split; [reflexivity|split; [exact Hr|split]].
  - apply Forall_forall. intros x Hx. exact (proj1 (forallb_forall _ _) Ht x Hx).
  - cbn [map distinct] in Hd. apply andb_true_iff in Hd. destruct Hd as [Hm Hd]. apply negb_true_iff in Hm.
    apply distinct_chain; assumption.
Qed.

Lemma snone_not_on : SNone <> SOn.
Proof. discriminate. Qed.

Lemma stage5_state : forall d l off tc nx t, rich_load l = true ->
  get_time tc (Z.of_nat (length (emit_load d l)) - (if d then 2 else 1)) off = Ok t ->
  exists tk lc ds,
   tws (start_state off tc) (emit_load d l) nx =
     mkR stash0 tk lc ds creator0 creator0 creator0 MPop
         (Some (mkCr (load_nodes5 l) SNone, t)) t tc (Z.of_nat (length (emit_load d l))) off None
   /\ last_is lc w_edm = false.
Proof.
  intros d l off tc nx t H Hg. destruct (rich_load_parts l H) as (r & rest & -> & Hrich & Frest & Hch).
  destruct (rich_row_gen r Hrich) as [Hrow Hital].
  destruct (rich_facts r Hrow) as (_ & _ & Hk & _ & _ & _ & _ & _ & _ & Hne & _).
  assert (El : emit_load d (r :: rest) = (ctl d (ctrl_word 46) ++ ctl d (ctrl_word 32)) ++ emit_row d r
               ++ flat_map (emit_row d) rest ++ ctl d (ctrl_word 47)).
  { unfold emit_load. cbn [flat_map]. rewrite <- !app_assoc. reflexivity. }
  rewrite El in *. rewrite !app_length, !Nat2Z.inj_add, !ctl_length in *.
  rewrite (tws_app (ctl d (ctrl_word 46) ++ ctl d (ctrl_word 32))), (tws_app (emit_row d r)),
          (tws_app (flat_map (emit_row d) rest)).
  destruct (prologue_run2 d off tc (nxt (emit_row d r ++ flat_map (emit_row d) rest ++ ctl d (ctrl_word 47)) nx))
    as (l0 & -> & Hl0).
  destruct (pac_row_facts2 r Hrow) as (_ & _ & _ & C & _).
  assert (Hc0 : last_contains l0 (pac_word (rw_row r) (pac_attr r)) = false).
  { destruct Hl0 as [->| ->]; [reflexivity|]. cbn [last_contains]. apply Z.eqb_neq. intros E. apply (cf_ctl _ C).
    rewrite <- E. unfold ctl_words. cbn [In]. tauto. }
  destruct (row_run5 stash0 d SNone creator0 creator0 None 0%Q tc off snone_not_on r tracker0 l0 [] (if d then 4 else 2)
              (nxt (flat_map (emit_row d) rest ++ ctl d (ctrl_word 47)) nx)
              (mkTk [row_pos r] None false (row_pos r)) (mkTk [row_pos r] None false (row_pos r)) [] (row_pos r)
              Hrich eq_refl Hc0 (pac_ready_reset _ _ _ eq_refl)) as (l1 & E1 & Hl1 & Hle1).
  { unfold tracker0, row_pos. apply tracker_new. lia. }
  { intros s. apply add_chars_first5. }
  { intros txt s. apply (add_chars_plain5 SNone (row_pos r) [] (row_pos r) []). }
  unfold RS in E1. fold creator0 in E1. rewrite E1.
  destruct (rows_run5 stash0 d SNone creator0 creator0 None 0%Q tc off snone_not_on rest Frest (nxt (ctl d (ctrl_word 47)) nx)
              [] (rich_text r) (row_pos r) [] (rw_row r) (rw_indent r + rw_tab r) (row_pos r) l1
              ((if d then 4 else 2) + Z.of_nat (length (emit_row d r))) Hch Hl1 Hle1 eq_refl) as (tk2 & l2 & E2 & Hl2).
  unfold RS in E2. rewrite E2. cbn [app].
  set (fr := (if d then 4 else 2) + Z.of_nat (length (emit_row d r)) + Z.of_nat (length (flat_map (emit_row d) rest))) in *.
  replace ((if d then 2 else 1) + (if d then 2 else 1) + (Z.of_nat (length (emit_row d r)) +
           (Z.of_nat (length (flat_map (emit_row d) rest)) + (if d then 2 else 1))) - (if d then 2 else 1)) with fr in Hg
    by (unfold fr; destruct d; lia).
  destruct (eoc_run3 d stash0 tk2 l2 d (mkI IText (rich_text r) (row_pos r) :: tail_nodes5 rest (row_pos r) (rw_row r))
              creator0 creator0 0%Q tc fr off nx t) as (l3 & ds3 & E3 & Hl3).
  { unfold cr_is_empty. cbn [cr_nodes existsb i_text]. destruct (rich_text r); [congruence|reflexivity]. }
  { exact Hl2. }
  { exact Hg. }
  exists tk2, l3, ds3. split; [|exact Hl3]. rewrite E3. cbn [load_nodes5]. f_equal. unfold fr. clear. destruct d; lia.
Qed.

(* ---- 8. the expected captions: lines of plain cells ------------------------------------------------------------------- *)
Lemma rich_row_good : forall r, rich_row r = true ->
  good_line (cells_of r) /\ line_text (cells_of r) = rich_text r /\ 1 <= rw_row r <= 15 /\ 0 <= rw_indent r + rw_tab r <= 31 /\
  rich_text r <> [] /\ rstrip (rich_text r) = rich_text r.
Proof.
  intros r H. destruct (rich_row_gen r H) as [Hrow Hital].
  destruct (rich_facts r Hrow) as (Hr & Hin & Hk & _ & _ & _ & _ & Hc & Hg & Hne & _ & Hn). rewrite Hital in Hc.
  destruct (rich_text_facts r Hrow) as [Hrs _].
  assert (H0 : 0 <= rw_indent r) by (unfold indents_608 in Hin; cbn [In] in Hin; lia).
  assert (Hlen : (0 < length (rich_text r))%nat) by (destruct (rich_text r); [congruence|cbn; lia]).
  split; [|split; [|split; [|split; [|split]]]]; try assumption.
  - exists (rich_text r). split; [exact Hc|split; [exact Hne|split; [lia|]]].
    intros Hi. rewrite Forall_forall in Hg. destruct (gcharb_parts 10 (Hg 10 Hi)) as [G _]. lia.
  - reflexivity.
  - lia.
Qed.

Lemma group_rows_good5 : forall t, Forall (fun r => rich_row r = true) t -> forall e lr, good_ecap e ->
  Forall good_ecap (group_rows t (Some (e, lr))).
Proof.
  intros t F. induction F as [|r t Hrow F IH]; intros e lr He.
  - cbn [group_rows]. constructor; [exact He|constructor].
  - destruct (rich_row_good r Hrow) as (Hg & _ & Hr & Hc & _). cbn [group_rows]. destruct (rw_row r =? lr + 1).
    + apply IH. destruct He as (H1 & H2 & H3 & H4). unfold good_ecap. cbn [e_row e_col e_lines].
      split; [exact H1|split; [exact H2|split]].
      * apply snoc_not_nil.
      * apply Forall_app. split; [exact H4|constructor; [exact Hg|constructor]].
    + constructor; [exact He|]. apply IH. unfold good_ecap. cbn [e_row e_col e_lines].
      split; [exact Hr|split; [exact Hc|split; [discriminate|constructor; [exact Hg|constructor]]]].
Qed.

Lemma expected_load_good5 : forall r t, rich_row r = true -> Forall (fun r => rich_row r = true) t ->
  Forall good_ecap (expected_load (r :: t)).
Proof.
  intros r t Hrow F. destruct (rich_row_good r Hrow) as (Hg & _ & Hr & Hc & _). unfold expected_load. cbn [group_rows].
  apply group_rows_good5; [exact F|]. unfold good_ecap. cbn [e_row e_col e_lines].
  split; [exact Hr|split; [exact Hc|split; [discriminate|constructor; [exact Hg|constructor]]]].
Qed.

(* ---- 9. the caption creator on the queued nodes ------------------------------------------------------------------------- *)
Lemma build_tail5 : forall t1 t2 t, Forall (fun r => rich_row r = true) t -> forall e lastrow done, e_lines e <> [] ->
  build_captions (tail_nodes5 t (e_row e, e_col e) lastrow) t1 t2 done (cap_of t1 t2 e)
  = done ++ map (cap_of t1 t2) (group_rows t (Some (e, lastrow))).
Proof.
  intros t1 t2 t F. induction F as [|r t Hrow F IH]; intros e lastrow done He; [reflexivity|].
  destruct (rich_row_good r Hrow) as (_ & Hlt & _ & _ & Hne & _).
  cbn [tail_nodes5 group_rows]. destruct (rw_row r =? lastrow + 1).
  - cbn [build_captions i_kind i_text i_pos]. rewrite (nonempty_true _ Hne).
    specialize (IH (mkE (e_row e) (e_col e) (e_lines e ++ [cells_of r])) (rw_row r) done).
    cbn [e_row e_col e_lines] in IH. rewrite <- IH.
    + f_equal. unfold cap_of, add_node. cbn [pc_start pc_end pc_nodes pc_layout e_row e_col e_lines].
      rewrite (lines_nodes_snoc _ _ _ He), Hlt, <- app_assoc. reflexivity.
    + apply snoc_not_nil.
  - cbn [build_captions i_kind i_text i_pos nonempty]. rewrite (nonempty_true _ Hne).
    specialize (IH (mkE (rw_row r) (rw_indent r + rw_tab r) [cells_of r]) (rw_row r) (done ++ [cap_of t1 t2 e])).
    cbn [e_row e_col e_lines] in IH. cbn [map].
    replace (done ++ cap_of t1 t2 e :: map (cap_of t1 t2) (group_rows t (Some (mkE (rw_row r) (rw_indent r + rw_tab r) [cells_of r], rw_row r))))
      with ((done ++ [cap_of t1 t2 e]) ++ map (cap_of t1 t2) (group_rows t (Some (mkE (rw_row r) (rw_indent r + rw_tab r) [cells_of r], rw_row r))))
      by (rewrite <- app_assoc; reflexivity).
    rewrite <- IH by discriminate. reflexivity.
Qed.

Lemma build_load5 : forall t1 t2 r t, rich_row r = true -> Forall (fun r => rich_row r = true) t ->
  build_captions (load_nodes5 (r :: t)) t1 t2 [] (mkPre t1 t2 [] None) = map (cap_of t1 t2) (expected_load (r :: t)).
Proof.
  intros t1 t2 r t Hrow F. destruct (rich_row_good r Hrow) as (_ & Hlt & _ & _ & Hne & _).
  unfold expected_load. cbn [load_nodes5 group_rows build_captions i_kind i_text i_pos]. rewrite (nonempty_true _ Hne).
  pose proof (build_tail5 t1 t2 t F (mkE (rw_row r) (rw_indent r + rw_tab r) [cells_of r]) (rw_row r) []) as B.
  cbn [e_row e_col e_lines app] in B. rewrite <- B by discriminate. reflexivity.
Qed.

Lemma tail_nodes_plain5 : forall t, Forall (fun r => rich_row r = true) t -> forall cur lastrow,
  plain_nodes (tail_nodes5 t cur lastrow) /\ Forall (fun n => rstrip_node n = n) (tail_nodes5 t cur lastrow).
Proof.
  intros t F. induction F as [|r t Hrow F IH]; intros cur lastrow; [split; constructor|].
  destruct (rich_row_good r Hrow) as (_ & _ & _ & _ & _ & Hrs). cbn [tail_nodes5].
  assert (Ht : forall p, rstrip_node (mkI IText (rich_text r) p) = mkI IText (rich_text r) p).
  { intros p. unfold rstrip_node. cbn [i_kind i_text i_pos]. rewrite Hrs. reflexivity. }
  destruct (rw_row r =? lastrow + 1).
  - destruct (IH cur (rw_row r)) as [I1 I2]. split; repeat (constructor; [first [reflexivity|apply Ht]|]); assumption.
  - destruct (IH (row_pos r) (rw_row r)) as [I1 I2]. split; repeat (constructor; [first [reflexivity|apply Ht]|]); assumption.
Qed.

Lemma store_load5 : forall t1 t2 r t, rich_row r = true -> Forall (fun r => rich_row r = true) t ->
  create_and_store stash0 (mkCr (load_nodes5 (r :: t)) SNone) t1 t2
  = mkStash (map (cap_of t1 t2) (expected_load (r :: t))) (length (expected_load (r :: t))).
Proof.
  intros t1 t2 r t Hrow F. destruct (rich_row_good r Hrow) as (_ & _ & _ & _ & Hne & Hrs).
  destruct (tail_nodes_plain5 t F (row_pos r) (rw_row r)) as [P1 P2].
  unfold create_and_store.
  assert (E : cr_is_empty (mkCr (load_nodes5 (r :: t)) SNone) = false).
  { unfold cr_is_empty. cbn [cr_nodes load_nodes5 existsb i_text]. destruct (rich_text r); [congruence|reflexivity]. }
  rewrite E. cbn [cr_nodes]. rewrite format_plain.
  - rewrite build_skip_empty, (build_load5 t1 t2 r t Hrow F), stash_extend0.
    rewrite (has_nodes_caps t1 t2 _ (expected_load_good5 r t Hrow F)), map_length. reflexivity.
  - cbn [load_nodes5]. constructor; [reflexivity|exact P1].
  - cbn [load_nodes5]. constructor; [|exact P2]. unfold rstrip_node. cbn [i_kind i_text i_pos]. rewrite Hrs. reflexivity.
Qed.

(* ---- 10. the read-level theorem ------------------------------------------------------------------------------------------ *)
Theorem popon_stage5_read : forall d l off tc tc2 t1 t2, rich_load l = true ->
  get_time tc (Z.of_nat (length (emit_load d l)) - (if d then 2 else 1)) off = Ok t1 ->
  get_time tc2 0 off = Ok t2 -> Qeq_bool t2 0 = false -> is_flash (mkPre t1 t2 [] None) = false ->
  read off [(tc, emit_load d l); (tc2, emit_clear d)] = ROk (map (cap_of t1 t2) (expected_load l)).
Proof.
  intros d l off tc tc2 t1 t2 H Hg1 Hg2 Hz Hfl.
  destruct (stage5_state d l off tc None t1 H Hg1) as (tk & lc & ds & E & Hl).
  destruct (rich_load_parts l H) as (r & rest & -> & Hrow & Frest & _).
  destruct (edm_run d stash0 tk lc ds creator0 creator0 (mkCr (load_nodes5 (r :: rest)) SNone) t1 t1 tc2 0 off t2 Hl Hg2)
    as (l' & ds' & fr' & E2).
  assert (S1 : translate_line (rstate0 off) (tc, emit_load d (r :: rest))
               = translate_words (start_state off tc) (emit_load d (r :: rest))) by reflexivity.
  rewrite tws_words, E in S1.
  unfold read, run_lines. cbn [fold_left]. rewrite S1. unfold translate_line, set_clock.
  cbn [r_err fst snd r_stash r_tk r_last r_dstart r_pop r_paint r_roll r_active r_queue r_time r_tc r_frames r_offset].
  unfold emit_clear. rewrite E2. cbn [r_err flush_implicit r_active r_queue r_stash].
  rewrite (store_load5 t1 t2 r rest Hrow Frest).
  apply finish_caps; [apply expected_load_nonempty|exact (expected_load_good5 r rest Hrow Frest)|exact Hz|exact Hfl].
Qed.

(* ---- 11. the captions returned, observed as the harness observes them, satisfy the oracle -------------------------- *)
Theorem popon_stage5_ok : forall d l t1 t2, rich_load l = true -> (t1 < t2)%Q ->
  ok_c05 (mkProg d [l]) (Ok (map (ocap_of t1 t2) (expected_load l))) = true.
Proof.
  intros d l t1 t2 H Hlt. destruct (rich_load_parts l H) as (r & rest & -> & Hrow & Frest & _).
  unfold ok_c05. cbn [pg_loads loads_ok].
  rewrite (load_ok_caps t1 t2 _ (expected_load_good5 r rest Hrow Frest) Hlt None (or_introl eq_refl)).
  pose proof (expected_load_nonempty r rest) as Hne. destruct (expected_load (r :: rest)); [congruence|reflexivity].
Qed.

(* what `read` returns, observed, meets the oracle *)
Corollary popon_stage5 : forall d l off tc tc2 t1 t2, rich_load l = true ->
  get_time tc (Z.of_nat (length (emit_load d l)) - (if d then 2 else 1)) off = Ok t1 ->
  get_time tc2 0 off = Ok t2 -> Qeq_bool t2 0 = false -> is_flash (mkPre t1 t2 [] None) = false -> (t1 < t2)%Q ->
  exists caps, read off [(tc, emit_load d l); (tc2, emit_clear d)] = ROk caps /\
               ok_c05 (mkProg d [l]) (Ok (map observe caps)) = true.
Proof.
  intros d l off tc tc2 t1 t2 H Hg1 Hg2 Hz Hfl Hlt. exists (map (cap_of t1 t2) (expected_load l)). split.
  - exact (popon_stage5_read d l off tc tc2 t1 t2 H Hg1 Hg2 Hz Hfl).
  - rewrite map_map. rewrite (map_ext _ _ (observe_cap_of t1 t2)). exact (popon_stage5_ok d l t1 t2 H Hlt).
Qed.

(* the lines of the expected captions are the texts of the rows, all cells plain *)
Lemma rich_load_rows : forall l r, rich_load l = true -> In r l ->
  line_text (cells_of r) = rich_text r /\ cells_of r = map (fun c => Cell c false) (rich_text r).
Proof.
  intros l r H Hi. unfold rich_load in H. apply andb_true_iff in H. destruct H as [_ H].
  pose proof (proj1 (forallb_forall _ _) H r Hi) as Hr. change (rich_row r = true) in Hr.
  destruct (rich_row_good r Hr) as (_ & Hlt & _). split; [exact Hlt|].
  destruct (rich_row_gen r Hr) as [Hrow Hital]. destruct (rich_facts r Hrow) as (_ & _ & _ & _ & _ & _ & _ & Hc & _).
  rewrite Hital in Hc. exact Hc.
Qed.

(* the domain is inhabited by loads mixing all item kinds, several captions of several lines, coloured preambles *)
Definition wit_load5 : load :=
  [mkRow 3 0 1 13 [Ch 97; Ext 101 1 5; Sp 3; Bs; Ch 98; Sp 1]; mkRow 4 4 2 1 [Sp 0; Ch 32; Ext 97 0 0; Bs; Ext 101 0 8];
   mkRow 8 0 0 3 [Sp 2; Ch 99]; mkRow 9 8 0 0 [Ch 97; Bs; Ch 98]; mkRow 1 0 0 0 [Ext 97 0 3]].
Example wit_load5_rich : rich_load wit_load5 = true /\ map e_row (expected_load wit_load5) = [3; 8; 1]
  /\ map (fun e => length (e_lines e)) (expected_load wit_load5) = [2; 2; 1]%nat.
Proof. vm_compute. repeat split. Qed.

(* ==== STAGE 5b: rows may also have the italic preamble ============================================================== *)
Definition rich_load_any (l : load) : bool := load_wf l && forallb rich_row_any l.

(* ---- 12. a preamble address code on a buffer that is not empty: the style part -------------------------------------- *)
Definition pac_style (it : bool) (sty : istyle) (t : tracker) (nodes : list inode) : tracker * creator :=
  let cur := current_position t in
  if it then
    match sty with
    | SOn => (t, mkCr nodes sty)
    | _ => let '(t1, nodes1) := if break_required t then (ack_break t, nodes ++ [mkI IBreak [] cur]) else (t, nodes) in
           (t1, mkCr (nodes1 ++ [mkI IItalOn [] cur]) SOn)
    end
  else
    match sty with
    | SOn => let nodes1 := nodes ++ [mkI IItalOff [] cur] in
             if break_required t then (ack_break t, mkCr (nodes1 ++ [mkI IBreak [] cur]) SOff) else (t, mkCr nodes1 SOff)
    | _ => (t, mkCr nodes sty)
    end.

Lemma interp_pac5b : forall tk nodes sty w n pos it tk' c', ctlfree w -> memz w scc_style_setting_commands = true ->
  memz w scc_italics_commands = it -> tab_of w = None -> pac_pos w = Some pos -> pac_ready tk nodes ->
  pac_style it sty (tracker_update tk pos) nodes = (tk', c') ->
  interpret_command tk (mkCr nodes sty) w n = (tk', c', None).
Proof.
  intros tk nodes sty w n pos it tk' c' C Hst Hit Ht Hp Hrd Hps. unfold interpret_command. cbv zeta.
  rewrite (up_pac5 _ _ _ _ _ Ht Hp Hrd), (cf_bs _ C), (cf_bg _ C), Hst, Hit, (cf_mid _ C). cbn [cr_style cr_nodes andb].
  unfold pac_style in Hps. cbv zeta in Hps.
  destruct it; destruct sty; try destruct (break_required (tracker_update tk pos)); injection Hps as <- <-;
    cbn [cr_style cr_nodes]; match goal with |- context [prev_text ?x] => destruct (prev_text x) as [[? ?]|] end; reflexivity.
Qed.

(* ---- 13. the nodes queued (stage SA), and what the passes of _format_italics make of them (SB, SC, SE) ------------- *)
(* SA: as queued.  SB: empty text nodes dropped.  SC: italics closed before / reopened after a reposition.
   SE: the italics-on directly followed by italics-off removed.  cl: with the final closing node. *)
Inductive stg : Type := SA | SB | SC | SE.
Notation nOn p := (mkI IItalOn [] p).
Notation nOff p := (mkI IItalOff [] p).
Notation nBrk p := (mkI IBreak [] p).
Notation nRep p := (mkI IRepos [] p).
Notation nTxt s p := (mkI IText s p).

(* adj: next screen row; on: italics on before the row; it: the row's preamble is italic; cur: address of the current
   caption; o4: position of the last italics-on node queued; p0 / p1: address of the row before / after the tab offset *)
Definition sepS (s : stg) (adj on it : bool) (cur o4 p0 p1 : pos) : list inode :=
  if adj then (if on && negb it then [nOff cur] else []) ++ [nBrk cur] ++ (if negb on && it then [nOn cur] else [])
  else match s with
       | SA => (if on && negb it then [nOff p0] else if negb on && it then [nOn p0] else []) ++ [nTxt [] p1; nRep p1]
       | SB => (if on && negb it then [nOff p0] else if negb on && it then [nOn p0] else []) ++ [nRep p1]
       | SC => if on then (if it then [nOff o4; nRep p1; nOn p1] else [nOff p0; nRep p1])
               else (if it then [nOn p0; nOff p0; nRep p1; nOn p1] else [nRep p1])
       | SE => if on then (if it then [nOff o4; nRep p1; nOn p1] else [nOff p0; nRep p1])
               else (if it then [nRep p1; nOn p1] else [nRep p1])
       end.

Definition rp0 (r : row) : pos := (rw_row r, rw_indent r).

Fixpoint tailS (s : stg) (cl : bool) (t : load) (cur : pos) (lastrow : Z) (on : bool) (o4 o5 : pos) : list inode :=
  match t with
  | [] => if cl && on then [nOff o5] else []
  | r :: t' =>
      let adj := rw_row r =? lastrow + 1 in
      let it := rw_ital r in
      let cur' := if adj then cur else row_pos r in
      sepS s adj on it cur o4 (rp0 r) (row_pos r) ++
      nTxt (rich_text r) cur' ::
      tailS s cl t' cur' (rw_row r) it
            (if negb on && it then (if adj then cur else rp0 r) else o4)
            (if adj then (if negb on && it then cur else o5) else row_pos r)
  end.

Definition son (s : istyle) : bool := match s with SOn => true | _ => false end.

(* a tab offset right after a materialised BREAK is ignored (has_break_before) *)
Definition tab_eff (k : Z) (nodes : list inode) (tk : tracker) : tracker :=
  if has_break_before nodes then tk else tab_upd k tk.

Section Rows5b.
Variables (st : stash) (d : bool) (pa ro : creator) (q : option (creator * Q)) (tm : Q) (tc : str) (off : Q).
Notation RS5b sty := (RS st d sty pa ro q tm tc off).

Lemma pac_unit_run5b : forall r sty tk l nodes fr nx tk' nodes' sty', rich_row_any r = true ->
  pac_style (rw_ital r) sty (tracker_update tk (rw_row r, rw_indent r)) nodes = (tk', mkCr nodes' sty') ->
  last_contains l (pac_word (rw_row r) (pac_attr r)) = false -> pac_ready tk nodes ->
  exists l', tws (RS5b sty tk l nodes fr) (pac_unit d r) nx
             = RS5b sty' (tab_eff (rw_tab r) nodes' tk') l' nodes' (fr + Z.of_nat (length (pac_unit d r)))
             /\ linv l' None.
Proof.
  intros r sty tk l nodes fr nx tk' nodes' sty' Hrow Hps Hl Hrd.
  set (p := pac_word (rw_row r) (pac_attr r)) in *. set (t := tab_word (rw_tab r)).
  destruct (rich_facts r Hrow) as (_ & _ & Hk & _).
  destruct (pac_row_facts2 r Hrow) as (Hp & Hpac & Ht & C & Hst & Hit). fold p in Hp, Hpac, Ht, C, Hst, Hit.
  assert (Spac : forall l0 fr0 n, last_contains l0 p = false ->
            translate_word (RS5b sty tk l0 nodes fr0) p n = RS5b sty' tk' (LWord p) nodes' (fr0 + 1)).
  { intros l0 fr0 n Hl0. unfold RS.
    apply (tw_cmd _ _ _ _ _ _ _ _ _ _ _ _ p n (LWord p) _ _ (cf_cp _ C) (cf_ctl _ C)
             (hd_pac _ _ _ _ _ _ _ _ _ _ _ _ _ Hpac Hl0)).
    exact (interp_pac5b tk nodes sty p n _ _ _ _ C Hst Hit Ht Hp Hrd Hps). }
  assert (Sagain : forall tk0 l0 fr0 n, last_contains l0 p = true ->
            translate_word (RS5b sty' tk0 l0 nodes' fr0) p n = RS5b sty' tk0 LNone nodes' (fr0 + 1)).
  { intros tk0 l0 fr0 n Hl0. unfold RS.
    rewrite (pac_second (mkR st tk0 l0 d (mkCr nodes' sty') pa ro MPop q tm tc fr0 off None) p n eq_refl Hpac Hl0). reflexivity. }
  unfold pac_unit. cbv zeta. fold p. fold t. unfold tab_eff, tab_upd. destruct (0 <? rw_tab r) eqn:Et.
  - assert (Hk' : 1 <= rw_tab r <= 3) by lia. destruct (tab_row_facts _ Hk') as [Htab It]. fold t in Htab, It.
    assert (X : tab_of t <> None) by congruence.
    destruct classes_disjoint as (_ & _ & _ & D & _). destruct (D _ X) as (_ & _ & _ & Hstt & _).
    assert (Stab : forall fr0 n,
              translate_word (RS5b sty' tk' (LWord p) nodes' fr0) t n
              = RS5b sty' (if has_break_before nodes' then tk'
                          else tracker_update tk' (fst (tk_default tk'), snd (tk_default tk') + rw_tab r)) (LPacTo p t) nodes' (fr0 + 1)).
    { intros fr0 n. unfold RS.
      apply (tw_cmd _ _ _ _ _ _ _ _ _ _ _ _ t n (LPacTo p t) _ _ (in_cp _ It) (in_ctl _ It)
               (hd_tab _ _ _ _ _ _ _ _ _ _ _ _ _ _ Hpac Htab)).
      rewrite (interp_plain _ _ t n (in_bs _ It) (in_bg _ It) Hstt (in_mid _ It)).
      unfold update_positioning. rewrite Htab. reflexivity. }
    assert (Stab2 : forall tk0 fr0 n, translate_word (RS5b sty' tk0 LNone nodes' fr0) t n = RS5b sty' tk0 LNone nodes' (fr0 + 1)).
    { intros tk0 fr0 n. unfold RS.
      rewrite (tab_skip_none (mkR st tk0 LNone d (mkCr nodes' sty') pa ro MPop q tm tc fr0 off None) t n eq_refl eq_refl);
        [reflexivity|congruence]. }
    destruct d.
    + exists LNone. split; [|apply linv_none]. cbn [app tws length]. rewrite (Spac l fr _ Hl), Stab, Sagain, Stab2.
      * f_equal. clear. lia.
      * cbn [last_contains]. rewrite Z.eqb_refl. reflexivity.
    + exists (LPacTo p t). split; [|split; [intros w _ _ _|]; reflexivity].
      cbn [app tws length]. rewrite (Spac l fr _ Hl), Stab. f_equal. clear. lia.
  - replace (if has_break_before nodes' then tk' else tk') with tk' by (destruct (has_break_before nodes'); reflexivity).
    destruct d.
    + exists LNone. split; [|apply linv_none]. cbn [app tws length]. rewrite (Spac l fr _ Hl), Sagain.
      * f_equal. clear. lia.
      * cbn [last_contains]. apply Z.eqb_refl.
    + exists (LWord p). split; [|exact (linv_pac r Hrow)]. cbn [app tws length]. rewrite (Spac l fr _ Hl). reflexivity.
Qed.

Lemma row_run5b : forall r sty tk l nodes fr nx tk' nodes' sty' tk0 tk1 pre p, rich_row_any r = true ->
  pac_style (rw_ital r) sty (tracker_update tk (rw_row r, rw_indent r)) nodes = (tk', mkCr nodes' sty') ->
  last_contains l (pac_word (rw_row r) (pac_attr r)) = false -> pac_ready tk nodes ->
  tab_eff (rw_tab r) nodes' tk' = tk0 ->
  (forall s, add_chars tk0 (mkCr nodes' sty') s = (tk1, mkCr (pre ++ [mkI IText s p]) sty')) ->
  (forall txt s, add_chars tk1 (mkCr (pre ++ [mkI IText txt p]) sty') s = (tk1, mkCr (pre ++ [mkI IText (txt ++ s) p]) sty')) ->
  exists l', tws (RS5b sty tk l nodes fr) (emit_row d r) nx
             = RS5b sty' tk1 l' (pre ++ [mkI IText (rich_text r) p]) (fr + Z.of_nat (length (emit_row d r)))
             /\ rowlast l' /\ last_is l' w_eoc = false.
Proof.
  intros r sty tk l nodes fr nx tk' nodes' sty' tk0 tk1 pre p Hrow Hps Hl Hrd Etk H0 H1.
  destruct (rich_facts r Hrow) as (_ & _ & _ & _ & _ & Hok & Hsem & _ & _ & Hne & _).
  assert (Hrow' := Hrow). unfold rich_row_any in Hrow'. apply andb_true_iff in Hrow'. destruct Hrow' as [Hrok Hb].
  destruct (row_ok_parts r Hrok) as (_ & _ & _ & Hio & _).
  pose proof (items_bsok (rw_items r) None [] Hio Hb (fun X : prev_char None => match X with end)) as Hbs.
  unfold emit_row. rewrite (pack_apack d _ None Hb), tws_app, app_length, Nat2Z.inj_add.
  set (toks := apack d (flat_map atoks_of_item (rw_items r)) None) in *.
  destruct (pac_unit_run5b r sty tk l nodes fr (nxt toks nx) tk' nodes' sty' Hrow Hps Hl Hrd) as (l1 & E1 & Hl1).
  rewrite E1, Etk.
  destruct (proj1 (atoks_run5 st d sty' pa ro q tm tc off tk0 tk1 nodes' pre p H0 H1 nx (flat_map atoks_of_item (rw_items r)))
              [] None tk0 l1 nodes' (fr + Z.of_nat (length (pac_unit d r))) Hok Hbs (or_introl (conj eq_refl (conj eq_refl eq_refl))) Hl1)
    as (tk2 & l2 & nodes2 & E2 & Hh2 & Hl2).
  fold toks in E2. rewrite Hsem in Hh2. destruct Hh2 as [(_ & _ & X)|(-> & -> & Hr2)]; [congruence|].
  exists l2. split; [|split; assumption]. rewrite E2. f_equal. clear. lia.
Qed.

(* the node creator when the last node is not a text node (a style node or a break just appended) *)
Lemma add_chars_fresh : forall p ps dflt sty pre n s, is_text n = false ->
  add_chars (mkTk (p :: ps) None false dflt) (mkCr (pre ++ [n]) sty) s
  = (mkTk (p :: ps) None false dflt, mkCr ((pre ++ [n]) ++ [nTxt s p]) sty).
Proof.
  intros p ps dflt sty pre n s Hn. unfold add_chars.
  cbn [current_position tk_pos tk_repos tk_break break_required cr_nodes cr_style]. rewrite last_some_app, Hn.
  cbn [andb]. rewrite map_last_snoc. reflexivity.
Qed.

Lemma add_chars_fresh_repos : forall p dflt sty pre n s, is_text n = false ->
  add_chars (mkTk [p] None true dflt) (mkCr (pre ++ [n]) sty) s
  = (mkTk [p] None false dflt, mkCr ((pre ++ [n; nTxt [] p; nRep p]) ++ [nTxt s p]) sty).
Proof.
  intros p dflt sty pre n s Hn. unfold add_chars.
  cbn [current_position tk_pos tk_repos tk_break break_required cr_nodes cr_style]. rewrite last_some_app, Hn.
  cbn [andb negb ack_break ack_repos tk_pos tk_repos tk_break tk_default].
  replace (((pre ++ [n]) ++ [nTxt [] p]) ++ [nRep p; nTxt [] p])
    with ((pre ++ [n; nTxt [] p; nRep p]) ++ [nTxt [] p]) by (rewrite <- !app_assoc; reflexivity).
  rewrite map_last_snoc. reflexivity.
Qed.

Lemma tracker_adj_pac : forall (ps : list pos) lastrow c0 dflt ind, last (map Some ps) None = Some (lastrow, c0) ->
  tracker_update (mkTk ps None false dflt) (lastrow + 1, ind) = mkTk (ps ++ [(lastrow + 1, c0)]) (Some ind) false (lastrow + 1, ind).
Proof.
  intros ps lastrow c0 dflt ind Hl. unfold tracker_update. cbv zeta. cbn [tk_pos tk_break tk_repos tk_default].
  rewrite Hl, Z.eqb_refl. reflexivity.
Qed.

Lemma tracker_far_pac : forall (ps : list pos) lastrow c0 dflt row ind, last (map Some ps) None = Some (lastrow, c0) ->
  row <> lastrow -> row <> lastrow + 1 ->
  tracker_update (mkTk ps None false dflt) (row, ind) = mkTk [(row, ind)] None true (row, ind).
Proof.
  intros ps lastrow c0 dflt row ind Hl H1 H2. unfold tracker_update, pos_eqb. cbv zeta.
  cbn [tk_pos tk_break tk_repos tk_default fst snd]. rewrite Hl.
  replace (row =? lastrow + 1) with false by lia. replace (row =? lastrow) with false by lia. reflexivity.
Qed.

(* the tab offset after a preamble code that started a new caption *)
Lemma tab_far : forall row ind k, 0 <= k <= 3 ->
  tab_upd k (mkTk [(row, ind)] None true (row, ind)) = mkTk [(row, ind + k)] None true (row, ind + k).
Proof.
  intros row ind k Hk. unfold tab_upd. destruct (0 <? k) eqn:E.
  - cbn [tk_default fst snd]. unfold tracker_update, pos_eqb. cbv zeta. cbn [tk_pos tk_break tk_repos tk_default map last fst snd].
    replace (row =? row + 1) with false by lia. rewrite Z.eqb_refl.
    replace (ind + 1 <=? ind + k) with true by lia. replace (ind + k <=? ind + 3) with true by lia.
    replace (ind + k =? ind) with false by lia. reflexivity.
  - replace k with 0 by lia. rewrite Z.add_0_r. reflexivity.
Qed.

(* ... after a preamble code for the next screen row (break pending): recognised as a tab, the tracker keeps its rows *)
Lemma tab_adj : forall (ps : list pos) lastrow c0 ind k, 0 <= k <= 3 ->
  tab_upd k (mkTk (ps ++ [(lastrow + 1, c0)]) (Some ind) false (lastrow + 1, ind))
  = mkTk (ps ++ [(lastrow + 1, c0)]) (Some ind) false (lastrow + 1, ind + k).
Proof.
  intros ps lastrow c0 ind k Hk. unfold tab_upd. destruct (0 <? k) eqn:E.
  - cbn [tk_default fst snd]. unfold tracker_update. cbv zeta. cbn [tk_pos tk_break tk_repos tk_default]. rewrite last_some_app.
    replace (lastrow + 1 =? lastrow + 1 + 1) with false by lia. rewrite Z.eqb_refl.
    replace (ind + 1 <=? ind + k) with true by lia. replace (ind + k <=? ind + 3) with true by lia. reflexivity.
  - replace k with 0 by lia. rewrite Z.add_0_r. reflexivity.
Qed.

Lemma hbb_text : forall pre txt q0, has_break_before (pre ++ [nTxt txt q0]) = false.
Proof. intros. apply no_break_before_text. Qed.
Lemma hbb_text_style : forall pre txt q0 n, is_text n = false -> is_break n = false -> has_break_before ((pre ++ [nTxt txt q0]) ++ [n]) = false.
Proof.
  intros pre txt q0 n H1 H2. unfold has_break_before. rewrite !rev_unit. cbn [has_break_before_rev]. rewrite H1, H2. reflexivity.
Qed.
Lemma hbb_break : forall pre p, has_break_before (pre ++ [nBrk p]) = true.
Proof. intros pre p. unfold has_break_before. rewrite rev_unit. reflexivity. Qed.
Lemma hbb_break_on : forall pre p q0, has_break_before ((pre ++ [nBrk p]) ++ [nOn q0]) = true.
Proof. intros pre p q0. unfold has_break_before. rewrite !rev_unit. reflexivity. Qed.

Lemma rows_run5b : forall t, Forall (fun r => rich_row_any r = true) t ->
  forall nx pre txt (cur : pos) (ps : list pos) lastrow c0 dflt l fr sty o4 o5, chain_ok lastrow t -> rowlast l -> last_is l w_eoc = false ->
  last (map Some (cur :: ps)) None = Some (lastrow, c0) ->
  exists tk' l' sty', tws (RS5b sty (mkTk (cur :: ps) None false dflt) l (pre ++ [nTxt txt cur]) fr) (flat_map (emit_row d) t) nx
     = RS5b sty' tk' l' (pre ++ nTxt txt cur :: tailS SA false t cur lastrow (son sty) o4 o5)
           (fr + Z.of_nat (length (flat_map (emit_row d) t)))
     /\ last_is l' w_eoc = false.
Proof.
  intros t F. induction F as [|r t Hrow F IH]; intros nx pre txt cur ps lastrow c0 dflt l fr sty o4 o5 Hch Hl Hle Hlast.
  - exists (mkTk (cur :: ps) None false dflt), l, sty. cbn [flat_map tws length tailS andb]. rewrite Z.add_0_r. split; [reflexivity|exact Hle].
  - destruct Hch as [Hne Hch]. cbn [flat_map]. rewrite tws_app, app_length, Nat2Z.inj_add.
    destruct (rich_facts r Hrow) as (_ & _ & Hk & _).
    destruct (pac_row_facts2 r Hrow) as (_ & Hpac & _).
    pose proof (Hl _ Hpac) as Hlc.
    cbn [tailS]. destruct (Z.eqb_spec (rw_row r) (lastrow + 1)) as [Eadj|Nadj].
    + (* next screen row: a further line of the current caption *)
      pose proof (tracker_adj_pac (cur :: ps) lastrow c0 dflt (rw_indent r) Hlast) as Etk. rewrite <- Eadj in Etk at 1.
      assert (Hlast' : last (map Some (cur :: ps ++ [(lastrow + 1, c0)])) None = Some (rw_row r, c0)).
      { change (cur :: ps ++ [(lastrow + 1, c0)]) with ((cur :: ps) ++ [(lastrow + 1, c0)]). rewrite last_some_app, Eadj. reflexivity. }
      replace (rw_row r =? lastrow + 1) with true by lia.
      assert (K : forall sty' dflt' pre' l1 o4' o5',
                tws (RS5b sty (mkTk (cur :: ps) None false dflt) l (pre ++ [nTxt txt cur]) fr) (emit_row d r) (nxt (flat_map (emit_row d) t) nx)
                = RS5b sty' (mkTk (cur :: ps ++ [(lastrow + 1, c0)]) None false dflt') l1 (pre' ++ [nTxt (rich_text r) cur])
                      (fr + Z.of_nat (length (emit_row d r))) ->
                rowlast l1 -> last_is l1 w_eoc = false ->
                pre' ++ nTxt (rich_text r) cur :: tailS SA false t cur (rw_row r) (son sty') o4' o5'
                = pre ++ nTxt txt cur :: sepS SA true (son sty) (rw_ital r) cur o4 (rp0 r) (row_pos r) ++
                         nTxt (rich_text r) cur :: tailS SA false t cur (rw_row r) (rw_ital r)
                           (if negb (son sty) && rw_ital r then cur else o4) (if negb (son sty) && rw_ital r then cur else o5) ->
                exists tk' l' sty'0,
                  tws (tws (RS5b sty (mkTk (cur :: ps) None false dflt) l (pre ++ [nTxt txt cur]) fr) (emit_row d r) (nxt (flat_map (emit_row d) t) nx))
                      (flat_map (emit_row d) t) nx
                  = RS5b sty'0 tk' l' (pre ++ nTxt txt cur :: sepS SA true (son sty) (rw_ital r) cur o4 (rp0 r) (row_pos r) ++
                         nTxt (rich_text r) cur :: tailS SA false t cur (rw_row r) (rw_ital r)
                           (if negb (son sty) && rw_ital r then cur else o4) (if negb (son sty) && rw_ital r then cur else o5))
                        (fr + (Z.of_nat (length (emit_row d r)) + Z.of_nat (length (flat_map (emit_row d) t)))) /\ last_is l' w_eoc = false).
      { intros sty' dflt' pre' l1 o4' o5' E1 Hl1 Hle1 EL. rewrite E1.
        destruct (IH nx pre' (rich_text r) cur (ps ++ [(lastrow + 1, c0)]) (rw_row r) c0 dflt' l1 (fr + Z.of_nat (length (emit_row d r)))
                    sty' o4' o5' Hch Hl1 Hle1 Hlast') as (tk' & l' & sty'' & E & Hl').
        exists tk', l', sty''. split; [|exact Hl']. refine (eq_trans E _). rewrite EL. f_equal. clear. lia. }
      destruct (rw_ital r) eqn:Hit; destruct sty.
      * edestruct (row_run5b r SNone (mkTk (cur :: ps) None false dflt) l (pre ++ [nTxt txt cur]) fr
                  (nxt (flat_map (emit_row d) t) nx)) as (l1 & E1 & Hl1 & Hle1).
        { exact Hrow. }
        { rewrite Etk, Hit. reflexivity. }
        { exact Hlc. }
        { apply pac_ready_nonempty. }
        { unfold tab_eff. rewrite hbb_break_on. reflexivity. }
        { intros s. cbn [ack_break app tk_pos tk_repos tk_default]. apply add_chars_fresh. reflexivity. }
        { intros txt0 s. apply add_chars_plain5. }
        eapply (K _ _ _ _ _ _ E1 Hl1 Hle1). cbn [son sepS andb negb app]. rewrite <- !app_assoc. reflexivity.
      * edestruct (row_run5b r SOn (mkTk (cur :: ps) None false dflt) l (pre ++ [nTxt txt cur]) fr
                  (nxt (flat_map (emit_row d) t) nx)) as (l1 & E1 & Hl1 & Hle1).
        { exact Hrow. }
        { rewrite Etk, Hit. reflexivity. }
        { exact Hlc. }
        { apply pac_ready_nonempty. }
        { unfold tab_eff. rewrite hbb_text. apply (tab_adj (cur :: ps)). exact Hk. }
        { intros s. cbn [app]. apply add_chars_break5. }
        { intros txt0 s. apply add_chars_plain5. }
        eapply (K _ _ _ _ _ _ E1 Hl1 Hle1). cbn [son sepS andb negb app]. rewrite <- !app_assoc. reflexivity.
      * edestruct (row_run5b r SOff (mkTk (cur :: ps) None false dflt) l (pre ++ [nTxt txt cur]) fr
                  (nxt (flat_map (emit_row d) t) nx)) as (l1 & E1 & Hl1 & Hle1).
        { exact Hrow. }
        { rewrite Etk, Hit. reflexivity. }
        { exact Hlc. }
        { apply pac_ready_nonempty. }
        { unfold tab_eff. rewrite hbb_break_on. reflexivity. }
        { intros s. cbn [ack_break app tk_pos tk_repos tk_default]. apply add_chars_fresh. reflexivity. }
        { intros txt0 s. apply add_chars_plain5. }
        eapply (K _ _ _ _ _ _ E1 Hl1 Hle1). cbn [son sepS andb negb app]. rewrite <- !app_assoc. reflexivity.
      * edestruct (row_run5b r SNone (mkTk (cur :: ps) None false dflt) l (pre ++ [nTxt txt cur]) fr
                  (nxt (flat_map (emit_row d) t) nx)) as (l1 & E1 & Hl1 & Hle1).
        { exact Hrow. }
        { rewrite Etk, Hit. reflexivity. }
        { exact Hlc. }
        { apply pac_ready_nonempty. }
        { unfold tab_eff. rewrite hbb_text. apply (tab_adj (cur :: ps)). exact Hk. }
        { intros s. cbn [app]. apply add_chars_break5. }
        { intros txt0 s. apply add_chars_plain5. }
        eapply (K _ _ _ _ _ _ E1 Hl1 Hle1). cbn [son sepS andb negb app]. rewrite <- !app_assoc. reflexivity.
      * edestruct (row_run5b r SOn (mkTk (cur :: ps) None false dflt) l (pre ++ [nTxt txt cur]) fr
                  (nxt (flat_map (emit_row d) t) nx)) as (l1 & E1 & Hl1 & Hle1).
        { exact Hrow. }
        { rewrite Etk, Hit. reflexivity. }
        { exact Hlc. }
        { apply pac_ready_nonempty. }
        { unfold tab_eff. rewrite hbb_break. reflexivity. }
        { intros s. cbn [ack_break app tk_pos tk_repos tk_default]. apply add_chars_fresh. reflexivity. }
        { intros txt0 s. apply add_chars_plain5. }
        eapply (K _ _ _ _ _ _ E1 Hl1 Hle1). cbn [son sepS andb negb app]. rewrite <- !app_assoc. reflexivity.
      * edestruct (row_run5b r SOff (mkTk (cur :: ps) None false dflt) l (pre ++ [nTxt txt cur]) fr
                  (nxt (flat_map (emit_row d) t) nx)) as (l1 & E1 & Hl1 & Hle1).
        { exact Hrow. }
        { rewrite Etk, Hit. reflexivity. }
        { exact Hlc. }
        { apply pac_ready_nonempty. }
        { unfold tab_eff. rewrite hbb_text. apply (tab_adj (cur :: ps)). exact Hk. }
        { intros s. cbn [app]. apply add_chars_break5. }
        { intros txt0 s. apply add_chars_plain5. }
        eapply (K _ _ _ _ _ _ E1 Hl1 Hle1). cbn [son sepS andb negb app]. rewrite <- !app_assoc. reflexivity.
    + (* any other row: a new caption *)
      pose proof (tracker_far_pac (cur :: ps) lastrow c0 dflt (rw_row r) (rw_indent r) Hlast Hne Nadj) as Etk.
      replace (rw_row r =? lastrow + 1) with false by lia.
      assert (K' : forall sty' pre' l1 o4' o5',
                tws (RS5b sty (mkTk (cur :: ps) None false dflt) l (pre ++ [nTxt txt cur]) fr) (emit_row d r) (nxt (flat_map (emit_row d) t) nx)
                = RS5b sty' (mkTk [row_pos r] None false (row_pos r)) l1 (pre' ++ [nTxt (rich_text r) (row_pos r)])
                      (fr + Z.of_nat (length (emit_row d r))) ->
                rowlast l1 -> last_is l1 w_eoc = false ->
                pre' ++ nTxt (rich_text r) (row_pos r) :: tailS SA false t (row_pos r) (rw_row r) (son sty') o4' o5'
                = pre ++ nTxt txt cur :: sepS SA false (son sty) (rw_ital r) cur o4 (rp0 r) (row_pos r) ++
                         nTxt (rich_text r) (row_pos r) :: tailS SA false t (row_pos r) (rw_row r) (rw_ital r)
                           (if negb (son sty) && rw_ital r then rp0 r else o4) (row_pos r) ->
                exists tk' l' sty'0,
                  tws (tws (RS5b sty (mkTk (cur :: ps) None false dflt) l (pre ++ [nTxt txt cur]) fr) (emit_row d r) (nxt (flat_map (emit_row d) t) nx))
                      (flat_map (emit_row d) t) nx
                  = RS5b sty'0 tk' l' (pre ++ nTxt txt cur :: sepS SA false (son sty) (rw_ital r) cur o4 (rp0 r) (row_pos r) ++
                         nTxt (rich_text r) (row_pos r) :: tailS SA false t (row_pos r) (rw_row r) (rw_ital r)
                           (if negb (son sty) && rw_ital r then rp0 r else o4) (row_pos r))
                        (fr + (Z.of_nat (length (emit_row d r)) + Z.of_nat (length (flat_map (emit_row d) t)))) /\ last_is l' w_eoc = false).
      { intros sty' pre' l1 o4' o5' E1 Hl1 Hle1 EL. rewrite E1.
        destruct (IH nx pre' (rich_text r) (row_pos r) [] (rw_row r) (rw_indent r + rw_tab r) (row_pos r) l1 (fr + Z.of_nat (length (emit_row d r)))
                    sty' o4' o5' Hch Hl1 Hle1 eq_refl) as (tk' & l' & sty'' & E & Hl').
        exists tk', l', sty''. split; [|exact Hl']. refine (eq_trans E _). rewrite EL. f_equal. clear. lia. }
      destruct (rw_ital r) eqn:Hit; destruct sty.
      * edestruct (row_run5b r SNone (mkTk (cur :: ps) None false dflt) l (pre ++ [nTxt txt cur]) fr
                  (nxt (flat_map (emit_row d) t) nx)) as (l1 & E1 & Hl1 & Hle1).
        { exact Hrow. }
        { rewrite Etk, Hit. reflexivity. }
        { exact Hlc. }
        { apply pac_ready_nonempty. }
        { unfold tab_eff. cbn [current_position tk_pos]. rewrite hbb_text_style by reflexivity. apply tab_far. exact Hk. }
        { intros s. apply add_chars_fresh_repos. reflexivity. }
        { intros txt0 s. apply add_chars_plain5. }
        eapply (K' _ _ _ _ _ E1 Hl1 Hle1). cbn [son sepS andb negb app]. rewrite <- !app_assoc. reflexivity.
      * edestruct (row_run5b r SOn (mkTk (cur :: ps) None false dflt) l (pre ++ [nTxt txt cur]) fr
                  (nxt (flat_map (emit_row d) t) nx)) as (l1 & E1 & Hl1 & Hle1).
        { exact Hrow. }
        { rewrite Etk, Hit. reflexivity. }
        { exact Hlc. }
        { apply pac_ready_nonempty. }
        { unfold tab_eff. rewrite hbb_text. apply tab_far. exact Hk. }
        { intros s. apply add_chars_repos5. }
        { intros txt0 s. apply add_chars_plain5. }
        eapply (K' _ _ _ _ _ E1 Hl1 Hle1). cbn [son sepS andb negb app]. rewrite <- !app_assoc. reflexivity.
      * edestruct (row_run5b r SOff (mkTk (cur :: ps) None false dflt) l (pre ++ [nTxt txt cur]) fr
                  (nxt (flat_map (emit_row d) t) nx)) as (l1 & E1 & Hl1 & Hle1).
        { exact Hrow. }
        { rewrite Etk, Hit. reflexivity. }
        { exact Hlc. }
        { apply pac_ready_nonempty. }
        { unfold tab_eff. cbn [current_position tk_pos]. rewrite hbb_text_style by reflexivity. apply tab_far. exact Hk. }
        { intros s. apply add_chars_fresh_repos. reflexivity. }
        { intros txt0 s. apply add_chars_plain5. }
        eapply (K' _ _ _ _ _ E1 Hl1 Hle1). cbn [son sepS andb negb app]. rewrite <- !app_assoc. reflexivity.
      * edestruct (row_run5b r SNone (mkTk (cur :: ps) None false dflt) l (pre ++ [nTxt txt cur]) fr
                  (nxt (flat_map (emit_row d) t) nx)) as (l1 & E1 & Hl1 & Hle1).
        { exact Hrow. }
        { rewrite Etk, Hit. reflexivity. }
        { exact Hlc. }
        { apply pac_ready_nonempty. }
        { unfold tab_eff. rewrite hbb_text. apply tab_far. exact Hk. }
        { intros s. apply add_chars_repos5. }
        { intros txt0 s. apply add_chars_plain5. }
        eapply (K' _ _ _ _ _ E1 Hl1 Hle1). cbn [son sepS andb negb app]. rewrite <- !app_assoc. reflexivity.
      * edestruct (row_run5b r SOn (mkTk (cur :: ps) None false dflt) l (pre ++ [nTxt txt cur]) fr
                  (nxt (flat_map (emit_row d) t) nx)) as (l1 & E1 & Hl1 & Hle1).
        { exact Hrow. }
        { rewrite Etk, Hit. reflexivity. }
        { exact Hlc. }
        { apply pac_ready_nonempty. }
        { unfold tab_eff. cbn [current_position tk_pos]. rewrite hbb_text_style by reflexivity. apply tab_far. exact Hk. }
        { intros s. apply add_chars_fresh_repos. reflexivity. }
        { intros txt0 s. apply add_chars_plain5. }
        eapply (K' _ _ _ _ _ E1 Hl1 Hle1). cbn [son sepS andb negb app]. rewrite <- !app_assoc. reflexivity.
      * edestruct (row_run5b r SOff (mkTk (cur :: ps) None false dflt) l (pre ++ [nTxt txt cur]) fr
                  (nxt (flat_map (emit_row d) t) nx)) as (l1 & E1 & Hl1 & Hle1).
        { exact Hrow. }
        { rewrite Etk, Hit. reflexivity. }
        { exact Hlc. }
        { apply pac_ready_nonempty. }
        { unfold tab_eff. rewrite hbb_text. apply tab_far. exact Hk. }
        { intros s. apply add_chars_repos5. }
        { intros txt0 s. apply add_chars_plain5. }
        eapply (K' _ _ _ _ _ E1 Hl1 Hle1). cbn [son sepS andb negb app]. rewrite <- !app_assoc. reflexivity.
Qed.
End Rows5b.

(* ---- 14. the whole load, up to the End-Of-Caption ------------------------------------------------------------------ *)
Definition load_nodes5b (l : load) : list inode :=
  match l with
  | [] => []
  | r :: t => pre_of r ++ nTxt (rich_text r) (row_pos r) :: tailS SA false t (row_pos r) (rw_row r) (rw_ital r) (rp0 r) (rp0 r)
  end.

Lemma rich_load_any_parts : forall l, rich_load_any l = true ->
  exists r t, l = r :: t /\ rich_row_any r = true /\ Forall (fun r => rich_row_any r = true) t /\ chain_ok (rw_row r) t.
Proof.
  intros l H. unfold rich_load_any in H. apply andb_true_iff in H. destruct H as [Hw Hb].
  destruct l as [|r t]; [discriminate Hw|]. exists r, t. unfold load_wf in Hw.
  apply andb_true_iff in Hw. destruct Hw as [_ Hd].
  rewrite forallb_cons in Hb. apply andb_true_iff in Hb. destruct Hb as [Hr Ht].
  split; [reflexivity|split; [exact Hr|split]].
  - apply Forall_forall. intros x Hx. exact (proj1 (forallb_forall _ _) Ht x Hx).
  - cbn [map distinct] in Hd. apply andb_true_iff in Hd. destruct Hd as [Hm Hd]. apply negb_true_iff in Hm.
    apply distinct_chain; assumption.
Qed.

Lemma stage6_stat5b : forall d l off tc nx t, rich_load_any l = true ->
  get_time tc (Z.of_nat (length (emit_load d l)) - (if d then 2 else 1)) off = Ok t ->
  exists tk lc ds sty,
   tws (start_state off tc) (emit_load d l) nx =
     mkR stash0 tk lc ds creator0 creator0 creator0 MPop
         (Some (mkCr (load_nodes5b l) sty, t)) t tc (Z.of_nat (length (emit_load d l))) off None
   /\ last_is lc w_edm = false.
Proof.
  intros d l off tc nx t H Hg. destruct (rich_load_any_parts l H) as (r & rest & -> & Hrow & Frest & Hch).
  destruct (rich_facts r Hrow) as (_ & _ & Hk & _ & _ & _ & _ & _ & _ & Hne & _).
  assert (El : emit_load d (r :: rest) = (ctl d (ctrl_word 46) ++ ctl d (ctrl_word 32)) ++ emit_row d r
               ++ flat_map (emit_row d) rest ++ ctl d (ctrl_word 47)).
  { unfold emit_load. cbn [flat_map]. rewrite <- !app_assoc. reflexivity. }
  rewrite El in *. rewrite !app_length, !Nat2Z.inj_add, !ctl_length in *.
  rewrite (tws_app (ctl d (ctrl_word 46) ++ ctl d (ctrl_word 32))), (tws_app (emit_row d r)),
          (tws_app (flat_map (emit_row d) rest)).
  destruct (prologue_run2 d off tc (nxt (emit_row d r ++ flat_map (emit_row d) rest ++ ctl d (ctrl_word 47)) nx))
    as (l0 & -> & Hl0).
  destruct (pac_row_facts2 r Hrow) as (_ & _ & _ & C & _).
  assert (Hc0 : last_contains l0 (pac_word (rw_row r) (pac_attr r)) = false).
  { destruct Hl0 as [->| ->]; [reflexivity|]. cbn [last_contains]. apply Z.eqb_neq. intros E. apply (cf_ctl _ C).
    rewrite <- E. unfold ctl_words. cbn [In]. tauto. }
  assert (R1 : exists l1, tws (RS stash0 d SNone creator0 creator0 None 0%Q tc off tracker0 l0 [] (if d then 4 else 2)) (emit_row d r)
                 (nxt (flat_map (emit_row d) rest ++ ctl d (ctrl_word 47)) nx)
               = RS stash0 d (sty_of r) creator0 creator0 None 0%Q tc off (mkTk [row_pos r] None false (row_pos r)) l1
                    (pre_of r ++ [nTxt (rich_text r) (row_pos r)]) ((if d then 4 else 2) + Z.of_nat (length (emit_row d r)))
               /\ rowlast l1 /\ last_is l1 w_eoc = false).
  { unfold pre_of, sty_of, tracker0. destruct (rw_ital r) eqn:Hit.
    - edestruct (row_run5b stash0 d creator0 creator0 None 0%Q tc off r SNone (mkTk [] None false (14, 0)) l0 [] (if d then 4 else 2)
                   (nxt (flat_map (emit_row d) rest ++ ctl d (ctrl_word 47)) nx)) as (l1 & E1 & Hl1).
      { exact Hrow. }
      { rewrite tracker_first, Hit. reflexivity. }
      { exact Hc0. }
      { apply pac_ready_reset. reflexivity. }
      { unfold tab_eff. cbn [app has_break_before rev has_break_before_rev is_text is_break i_kind current_position tk_pos].
        rewrite <- (tracker_first (14, 0)). apply tracker_new. exact Hk. }
      { intros s. apply (add_chars_fresh (row_pos r) [] (row_pos r) SOn []). reflexivity. }
      { intros txt0 s. apply add_chars_plain5. }
      exists l1. split; [exact E1|exact Hl1].
    - edestruct (row_run5b stash0 d creator0 creator0 None 0%Q tc off r SNone (mkTk [] None false (14, 0)) l0 [] (if d then 4 else 2)
                   (nxt (flat_map (emit_row d) rest ++ ctl d (ctrl_word 47)) nx)) as (l1 & E1 & Hl1).
      { exact Hrow. }
      { rewrite tracker_first, Hit. reflexivity. }
      { exact Hc0. }
      { apply pac_ready_reset. reflexivity. }
      { unfold tab_eff. cbn [has_break_before rev has_break_before_rev].
        rewrite <- (tracker_first (14, 0)). apply tracker_new. exact Hk. }
      { intros s. apply add_chars_first5. }
      { intros txt0 s. apply (add_chars_plain5 SNone (row_pos r) [] (row_pos r) []). }
      exists l1. split; [exact E1|exact Hl1]. }
  destruct R1 as (l1 & E1 & Hl1 & Hle1). unfold RS in E1. fold creator0 in E1. rewrite E1.
  destruct (rows_run5b stash0 d creator0 creator0 None 0%Q tc off rest Frest (nxt (ctl d (ctrl_word 47)) nx)
              (pre_of r) (rich_text r) (row_pos r) [] (rw_row r) (rw_indent r + rw_tab r) (row_pos r) l1
              ((if d then 4 else 2) + Z.of_nat (length (emit_row d r))) (sty_of r) (rp0 r) (rp0 r) Hch Hl1 Hle1 eq_refl)
    as (tk2 & l2 & sty2 & E2 & Hl2).
  unfold RS in E2. rewrite E2.
  replace (son (sty_of r)) with (rw_ital r) by (unfold sty_of; destruct (rw_ital r); reflexivity).
  set (fr := (if d then 4 else 2) + Z.of_nat (length (emit_row d r)) + Z.of_nat (length (flat_map (emit_row d) rest))) in *.
  replace ((if d then 2 else 1) + (if d then 2 else 1) + (Z.of_nat (length (emit_row d r)) +
           (Z.of_nat (length (flat_map (emit_row d) rest)) + (if d then 2 else 1))) - (if d then 2 else 1)) with fr in Hg
    by (unfold fr; destruct d; lia).
  destruct (eoc_run_g d stash0 tk2 l2 d
              (mkCr (pre_of r ++ nTxt (rich_text r) (row_pos r) :: tailS SA false rest (row_pos r) (rw_row r) (rw_ital r) (rp0 r) (rp0 r)) sty2)
              creator0 creator0 0%Q tc fr off nx t) as (l3 & ds3 & E3 & Hl3).
  { unfold cr_is_empty. cbn [cr_nodes]. rewrite existsb_app. cbn [existsb i_text].
    destruct (rich_text r); [congruence|]. cbn [nonempty orb]. rewrite orb_true_r. reflexivity. }
  { exact Hl2. }
  { exact Hg. }
  exists tk2, l3, ds3, sty2. split; [|exact Hl3]. rewrite E3. cbn [load_nodes5b]. f_equal. unfold fr. clear. destruct d; lia.
Qed.

(* ---- 15. _format_italics on the queued nodes, pass by pass ----------------------------------------------------------- *)
Ltac tail_cases r lr on :=
  cbn [tailS]; destruct (rw_row r =? lr + 1); destruct (rw_ital r); destruct on.

Lemma sio_true : forall l, skip_initial_off l true = l.
Proof.
  induction l as [|n l IH]; [reflexivity|]. cbn [skip_initial_off]. rewrite IH. destruct (is_on n); [reflexivity|].
  destruct (is_off n); reflexivity.
Qed.

Lemma sio_tail : forall t cur lr o4 o5,
  skip_initial_off (tailS SA false t cur lr false o4 o5) false = tailS SA false t cur lr false o4 o5.
Proof.
  induction t as [|r t IH]; intros cur lr o4 o5; [reflexivity|].
  cbn [tailS]; destruct (rw_row r =? lr + 1); destruct (rw_ital r);
    cbn [sepS app andb negb skip_initial_off is_on is_off i_kind]; rewrite ?sio_true, ?IH; reflexivity.
Qed.

Lemma set_tail : forall t, Forall (fun r => rich_row_any r = true) t -> forall cur lr on o4 o5,
  skip_empty_text (tailS SA false t cur lr on o4 o5) = tailS SB false t cur lr on o4 o5.
Proof.
  intros t F. induction F as [|r t Hrow F IH]; intros cur lr on o4 o5; [destruct on; reflexivity|].
  destruct (rich_facts r Hrow) as (_ & _ & _ & _ & _ & _ & _ & _ & _ & Hne & _).
  pose proof (nonempty_true _ Hne) as Hn. unfold skip_empty_text in *.
  tail_cases r lr on; cbn [sepS app andb negb filter is_text i_kind i_text nonempty]; rewrite Hn; cbn [andb negb]; rewrite IH; reflexivity.
Qed.

Definition st_ok (on : bool) (s : option bool) : Prop := if on then s = Some true else s <> Some true.

Lemma sr_tail : forall t cur lr on o4 o5 s, st_ok on s ->
  skip_redundant (tailS SB false t cur lr on o4 o5) s = tailS SB false t cur lr on o4 o5.
Proof.
  induction t as [|r t IH]; intros cur lr on o4 o5 s Hs; [destruct on; reflexivity|].
  assert (Ht : st_ok true (Some true)) by reflexivity.
  assert (Hf1 : st_ok false (Some false)) by (cbn; discriminate).
  assert (Hf2 : st_ok false None) by (cbn; discriminate).
  tail_cases r lr on; cbn [st_ok] in Hs; try subst s; try (destruct s as [[]|]; [congruence| |]);
    cbn [sepS app andb negb orb skip_redundant is_on is_off i_kind Bool.eqb]; rewrite IH by assumption; reflexivity.
Qed.

Lemma cbr_tail : forall t cur lr on o4 o5,
  close_before_repos (tailS SB false t cur lr on o4 o5) (if on then Some o4 else None) = tailS SC false t cur lr on o4 o5.
Proof.
  induction t as [|r t IH]; intros cur lr on o4 o5; [destruct on; reflexivity|].
  tail_cases r lr on; cbn [sepS app andb negb close_before_repos is_on is_off is_repos i_kind i_pos];
    first [rewrite (IH _ _ true)|rewrite (IH _ _ false)]; reflexivity.
Qed.

Lemma final_on_pos_app : forall a b s, final_on_pos (a ++ b) s = final_on_pos b (final_on_pos a s).
Proof.
  induction a as [|n a IH]; intros b s; [reflexivity|]. cbn [app final_on_pos].
  destruct (is_on n); [apply IH|]. destruct (is_off n); apply IH.
Qed.

Lemma efc_tail : forall t cur lr (on : bool) o4 o5 pre, final_on_pos pre None = (if on then Some o5 else None) ->
  ensure_final_closes (pre ++ tailS SC false t cur lr on o4 o5) = pre ++ tailS SC true t cur lr on o4 o5.
Proof.
  induction t as [|r t IH]; intros cur lr on o4 o5 pre Hp.
  - cbn [tailS andb]. rewrite app_nil_r. unfold ensure_final_closes. rewrite Hp. destruct on; [reflexivity|]. rewrite app_nil_r. reflexivity.
  - cbn [tailS].
    match goal with |- ensure_final_closes (pre ++ ?sep ++ ?T :: ?X) = pre ++ ?sep ++ ?T :: ?Y =>
      replace (pre ++ sep ++ T :: X) with ((pre ++ sep ++ [T]) ++ X) by (rewrite <- !app_assoc; reflexivity);
      replace (pre ++ sep ++ T :: Y) with ((pre ++ sep ++ [T]) ++ Y) by (rewrite <- !app_assoc; reflexivity)
    end.
    apply IH. rewrite final_on_pos_app, Hp.
    destruct (rw_row r =? lr + 1); destruct (rw_ital r); destruct on; reflexivity.
Qed.

Lemma roo_tail : forall t cur lr on o4 o5,
  remove_on_off (tailS SC true t cur lr on o4 o5) None = tailS SE true t cur lr on o4 o5.
Proof.
  induction t as [|r t IH]; intros cur lr on o4 o5; [destruct on; reflexivity|].
  tail_cases r lr on; cbn [sepS app andb negb remove_on_off is_on is_off i_kind]; rewrite IH; reflexivity.
Qed.

Lemma rof_tail : forall t cur lr on o4 o5,
  remove_off_on (tailS SE true t cur lr on o4 o5) None = tailS SE true t cur lr on o4 o5.
Proof.
  induction t as [|r t IH]; intros cur lr on o4 o5; [destruct on; reflexivity|].
  tail_cases r lr on; cbn [sepS app andb negb remove_off_on is_on is_off i_kind]; rewrite IH; reflexivity.
Qed.

Lemma rstrip_tail : forall t, Forall (fun r => rich_row_any r = true) t -> forall cur lr on o4 o5,
  Forall (fun n => rstrip_node n = n) (tailS SE true t cur lr on o4 o5).
Proof.
  intros t F. induction F as [|r t Hrow F IH]; intros cur lr on o4 o5.
  - destruct on; repeat constructor.
  - destruct (rich_text_facts r Hrow) as [Hrs _].
    assert (Ht : forall p, rstrip_node (nTxt (rich_text r) p) = nTxt (rich_text r) p).
    { intros p. unfold rstrip_node. cbn [i_kind i_text i_pos]. rewrite Hrs. reflexivity. }
    tail_cases r lr on; cbn [sepS app andb negb]; repeat (constructor; [first [reflexivity|apply Ht]|]); apply IH.
Qed.

(* the nodes after _format_italics *)
Definition fin_nodes (l : load) : list inode :=
  match l with
  | [] => []
  | r :: t => pre_of r ++ nTxt (rich_text r) (row_pos r) :: tailS SE true t (row_pos r) (rw_row r) (rw_ital r) (rp0 r) (rp0 r)
  end.

Lemma format_load5b : forall r t, rich_row_any r = true -> Forall (fun r => rich_row_any r = true) t ->
  format_italics (load_nodes5b (r :: t)) = fin_nodes (r :: t).
Proof.
  intros r t Hrow F. destruct (rich_facts r Hrow) as (_ & _ & _ & _ & _ & _ & _ & _ & _ & Hne & _).
  pose proof (nonempty_true _ Hne) as Hn. destruct (rich_text_facts r Hrow) as [Hrs _].
  unfold format_italics, load_nodes5b, fin_nodes, pre_of.
  assert (E5 : ensure_final_closes ((if rw_ital r then [nOn (rw_row r, rw_indent r)] else []) ++
                  nTxt (rich_text r) (row_pos r) :: tailS SC false t (row_pos r) (rw_row r) (rw_ital r) (rp0 r) (rp0 r))
               = (if rw_ital r then [nOn (rw_row r, rw_indent r)] else []) ++
                  nTxt (rich_text r) (row_pos r) :: tailS SC true t (row_pos r) (rw_row r) (rw_ital r) (rp0 r) (rp0 r)).
  { match goal with |- ensure_final_closes (?pre ++ ?T :: ?X) = ?pre ++ ?T :: ?Y =>
      replace (pre ++ T :: X) with ((pre ++ [T]) ++ X) by (rewrite <- !app_assoc; reflexivity);
      replace (pre ++ T :: Y) with ((pre ++ [T]) ++ Y) by (rewrite <- !app_assoc; reflexivity)
    end.
    apply efc_tail. destruct (rw_ital r); reflexivity. }
  unfold rp0 in *. destruct (rw_ital r); cbn [app] in E5; cbn [app skip_initial_off is_on is_off i_kind].
  - rewrite sio_true. unfold skip_empty_text at 1. cbn [filter is_text i_kind i_text andb negb nonempty]. rewrite Hn. cbn [andb negb].
    fold (skip_empty_text (tailS SA false t (row_pos r) (rw_row r) true (rp0 r) (rp0 r))). rewrite (set_tail t F).
    cbn [skip_redundant is_on is_off i_kind orb]. rewrite (sr_tail t _ _ true _ _ (Some true) eq_refl).
    cbn [close_before_repos is_on is_off is_repos i_kind i_pos]. rewrite (cbr_tail t _ _ true). rewrite E5.
    cbn [remove_on_off is_on is_off i_kind]. rewrite roo_tail.
    cbn [remove_off_on is_on is_off i_kind]. rewrite rof_tail.
    apply strip_line_ends_id. constructor; [reflexivity|]. constructor; [|apply (rstrip_tail t F)].
    unfold rstrip_node. cbn [i_kind i_text i_pos]. rewrite Hrs. reflexivity.
  - rewrite sio_tail. unfold skip_empty_text at 1. cbn [filter is_text i_kind i_text andb negb nonempty]. rewrite Hn. cbn [andb negb].
    fold (skip_empty_text (tailS SA false t (row_pos r) (rw_row r) false (rp0 r) (rp0 r))). rewrite (set_tail t F).
    cbn [skip_redundant is_on is_off i_kind orb]. rewrite (sr_tail t _ _ false _ _ None) by (cbn; discriminate).
    cbn [close_before_repos is_on is_off is_repos i_kind i_pos]. rewrite (cbr_tail t _ _ false). rewrite E5.
    cbn [app remove_on_off is_on is_off i_kind]. rewrite roo_tail.
    cbn [remove_off_on is_on is_off i_kind]. rewrite rof_tail.
    apply strip_line_ends_id. constructor; [|apply (rstrip_tail t F)].
    unfold rstrip_node. cbn [i_kind i_text i_pos]. rewrite Hrs. reflexivity.
Qed.

(* ---- 16. the expected observation: lines with their italic attribute --------------------------------------------------- *)
Definition line_it (l : list cell) : bool := match l with Cell _ it :: _ => it | _ => false end.
(* between two lines: italics off before the break, italics on after it *)
Definition otrans (first on it : bool) : list onode :=
  (if first then [] else (if on && negb it then [OStyle false] else []) ++ [OBreak]) ++ (if negb on && it then [OStyle true] else []).
Fixpoint oopen (first on : bool) (ls : list (list cell)) : list onode :=
  match ls with
  | [] => []
  | l :: t => otrans first on (line_it l) ++ OText (line_text l) :: oopen false (line_it l) t
  end.
Definition last_it (on : bool) (ls : list (list cell)) : bool := fold_left (fun _ l => line_it l) ls on.
Definition oclose (on : bool) : list onode := if on then [OStyle false] else [].
Definition onodes5b (ls : list (list cell)) : list onode := oopen true false ls ++ oclose (last_it false ls).
Definition ocap5b (t1 t2 : Q) (e : ecap) : ocap :=
  mkO t1 t2 (onodes5b (e_lines e)) (Some (layout_of_pos (e_row e, e_col e))).

Lemma last_it_snoc : forall ls on l, last_it on (ls ++ [l]) = line_it l.
Proof. intros ls on l. unfold last_it. rewrite fold_left_app. reflexivity. Qed.

Lemma oopen_snoc : forall ls first on l, ls <> [] ->
  oopen first on (ls ++ [l]) = oopen first on ls ++ otrans false (last_it on ls) (line_it l) ++ [OText (line_text l)].
Proof.
  induction ls as [|a ls IH]; intros first on l H; [congruence|].
  destruct ls as [|b ls].
  - cbn [app oopen last_it fold_left]. rewrite <- !app_assoc. reflexivity.
  - change ((a :: b :: ls) ++ [l]) with (a :: (b :: ls) ++ [l]). cbn [oopen]. rewrite (IH false (line_it a) l) by discriminate.
    cbn [oopen last_it fold_left]. rewrite <- !app_assoc. cbn [app]. rewrite <- !app_assoc. reflexivity.
Qed.

(* ---- 17. the caption creator on the formatted nodes ------------------------------------------------------------------ *)
Definition caps5b (t1 t2 : Q) (l : load) : list precap := build_captions (fin_nodes l) t1 t2 [] (mkPre t1 t2 [] None).

Lemma rich_any_line : forall r, rich_row_any r = true ->
  line_it (cells_of r) = rw_ital r /\ line_text (cells_of r) = rich_text r /\ nonempty (rich_text r) = true.
Proof.
  intros r H. destruct (rich_facts r H) as (_ & _ & _ & _ & _ & _ & _ & Hc & _ & Hne & _).
  split; [|split; [reflexivity|exact (nonempty_true _ Hne)]].
  rewrite Hc. destruct (rich_text r); [congruence|reflexivity].
Qed.

(* the accumulated caption observes as the lines so far, italics not yet closed *)
Definition acc_rel (t1 t2 : Q) (e : ecap) (acc : precap) : Prop :=
  pc_start acc = t1 /\ pc_end acc = t2 /\ pc_layout acc = Some (e_row e, e_col e) /\
  map onode_of (pc_nodes acc) = oopen true false (e_lines e) /\ e_lines e <> [].

Lemma acc_close : forall t1 t2 e acc p, acc_rel t1 t2 e acc ->
  observe (if last_it false (e_lines e) then add_node acc (CStyle false p) else acc) = ocap5b t1 t2 e.
Proof.
  intros t1 t2 e acc p (H1 & H2 & H3 & H4 & _). unfold ocap5b, onodes5b, oclose, observe.
  destruct (last_it false (e_lines e)); unfold add_node; cbn [pc_start pc_end pc_nodes pc_layout].
  - rewrite map_app, H1, H2, H3, H4. reflexivity.
  - rewrite app_nil_r, H1, H2, H3, H4. reflexivity.
Qed.

Lemma build_tail5b : forall t1 t2 t, Forall (fun r => rich_row_any r = true) t -> forall e lastrow done acc o4 o5,
  acc_rel t1 t2 e acc ->
  map observe (build_captions (tailS SE true t (e_row e, e_col e) lastrow (last_it false (e_lines e)) o4 o5) t1 t2 done acc)
  = map observe done ++ map (ocap5b t1 t2) (group_rows t (Some (e, lastrow))).
Proof.
  intros t1 t2 t F. induction F as [|r t Hrow F IH]; intros e lastrow done acc o4 o5 Ha.
  - cbn [tailS group_rows andb map]. rewrite <- (acc_close t1 t2 e acc o5 Ha).
    destruct (last_it false (e_lines e)); cbn [build_captions i_kind i_pos]; rewrite map_app; reflexivity.
  - destruct (rich_any_line r Hrow) as (Hli & Hlt & Hn). destruct Ha as (H1 & H2 & H3 & H4 & H5).
    cbn [tailS group_rows]. destruct (rw_row r =? lastrow + 1).
    + (* a further line *)
      set (e' := mkE (e_row e) (e_col e) (e_lines e ++ [cells_of r])).
      assert (Hon : last_it false (e_lines e') = rw_ital r) by (unfold e'; cbn [e_lines]; rewrite last_it_snoc; exact Hli).
      assert (K : forall acc', pc_start acc' = t1 -> pc_end acc' = t2 -> pc_layout acc' = Some (e_row e, e_col e) ->
                  map onode_of (pc_nodes acc') = map onode_of (pc_nodes acc) ++ otrans false (last_it false (e_lines e)) (rw_ital r)
                                                 ++ [OText (rich_text r)] ->
                  forall o4' o5',
                  map observe (build_captions (tailS SE true t (e_row e, e_col e) (rw_row r) (rw_ital r) o4' o5') t1 t2 done acc')
                  = map observe done ++ map (ocap5b t1 t2) (group_rows t (Some (e', rw_row r)))).
      { intros acc' A1 A2 A3 A4 o4' o5'. rewrite <- Hon. apply (IH e' (rw_row r) done acc' o4' o5').
        unfold acc_rel, e'. cbn [e_row e_col e_lines]. repeat split; try assumption.
        - rewrite A4, H4, (oopen_snoc _ _ _ _ H5), Hli, Hlt. reflexivity.
        - apply snoc_not_nil. }
      destruct (rw_ital r); destruct (last_it false (e_lines e));
        cbn [sepS app andb negb build_captions i_kind i_text i_pos add_node pc_start pc_end pc_nodes pc_layout]; rewrite Hn;
        apply K; cbn [pc_start pc_end pc_nodes pc_layout otrans andb negb app]; try assumption; try reflexivity;
        rewrite ?map_app; cbn [map onode_of]; rewrite <- ?app_assoc; reflexivity.
    + (* a new caption *)
      set (e' := mkE (rw_row r) (rw_indent r + rw_tab r) [cells_of r]).
      assert (Hon : last_it false (e_lines e') = rw_ital r) by exact Hli.
      assert (K : forall acc' done', pc_start acc' = t1 -> pc_end acc' = t2 -> pc_layout acc' = Some (row_pos r) ->
                  map onode_of (pc_nodes acc') = otrans true false (rw_ital r) ++ [OText (rich_text r)] ->
                  map observe done' = map observe done ++ [ocap5b t1 t2 e] ->
                  forall o4' o5',
                  map observe (build_captions (tailS SE true t (row_pos r) (rw_row r) (rw_ital r) o4' o5') t1 t2 done' acc')
                  = map observe done ++ ocap5b t1 t2 e :: map (ocap5b t1 t2) (group_rows t (Some (e', rw_row r)))).
      { intros acc' done' A1 A2 A3 A4 A5 o4' o5'. rewrite <- Hon.
        pose proof (IH e' (rw_row r) done' acc' o4' o5') as X. change (e_row e', e_col e') with (row_pos r) in X. rewrite X.
        - rewrite A5, <- app_assoc. reflexivity.
        - unfold acc_rel, e'. cbn [e_row e_col e_lines oopen]. repeat split; try assumption; try discriminate.
          rewrite A4, Hli, Hlt. reflexivity. }
      pose proof (fun p => acc_close t1 t2 e acc p (conj H1 (conj H2 (conj H3 (conj H4 H5))))) as Hc.
      cbn [map]. destruct (rw_ital r); destruct (last_it false (e_lines e));
        cbn [sepS app andb negb build_captions i_kind i_text i_pos add_node pc_start pc_end pc_nodes pc_layout]; rewrite Hn;
        apply K; cbn [pc_start pc_end pc_nodes pc_layout otrans andb negb app map onode_of]; try reflexivity;
        rewrite map_app; cbn [map]; first [rewrite <- (Hc o4); reflexivity|rewrite <- (Hc (rp0 r)); reflexivity].
Qed.

Lemma caps5b_observe : forall t1 t2 r t, rich_row_any r = true -> Forall (fun r => rich_row_any r = true) t ->
  map observe (caps5b t1 t2 (r :: t)) = map (ocap5b t1 t2) (expected_load (r :: t)).
Proof.
  intros t1 t2 r t Hrow F. destruct (rich_any_line r Hrow) as (Hli & Hlt & Hn).
  unfold caps5b, fin_nodes, expected_load, pre_of. cbn [group_rows].
  set (e := mkE (rw_row r) (rw_indent r + rw_tab r) [cells_of r]).
  assert (Hon : last_it false (e_lines e) = rw_ital r) by exact Hli.
  assert (K : forall acc, acc_rel t1 t2 e acc ->
            map observe (build_captions (tailS SE true t (row_pos r) (rw_row r) (rw_ital r) (rp0 r) (rp0 r)) t1 t2 [] acc)
            = map (ocap5b t1 t2) (group_rows t (Some (e, rw_row r)))).
  { intros acc Ha. rewrite <- Hon. exact (build_tail5b t1 t2 t F e (rw_row r) [] acc (rp0 r) (rp0 r) Ha). }
  destruct (rw_ital r) eqn:Hit; cbn [app build_captions i_kind i_text i_pos add_node pc_start pc_end pc_nodes pc_layout]; rewrite Hn;
    apply K; unfold acc_rel, e; cbn [pc_start pc_end pc_nodes pc_layout e_row e_col e_lines oopen map onode_of app];
    rewrite ?Hli, ?Hlt; repeat split; try reflexivity; discriminate.
Qed.

(* ---- 18. the expected captions are well formed: lines of cells of one italic attribute ------------------------------ *)
Definition good_line5b (cs : list cell) : Prop :=
  exists it s, cs = map (fun c => Cell c it) s /\ s <> [] /\ (length s <= 32)%nat /\ ~ In 10 s.
Definition good_ecap5b (e : ecap) : Prop :=
  1 <= e_row e <= 15 /\ 0 <= e_col e <= 31 /\ e_lines e <> [] /\ Forall good_line5b (e_lines e).

Lemma rich_any_good : forall r, rich_row_any r = true ->
  good_line5b (cells_of r) /\ 1 <= rw_row r <= 15 /\ 0 <= rw_indent r + rw_tab r <= 31.
Proof.
  intros r Hrow. destruct (rich_facts r Hrow) as (Hr & Hin & Hk & _ & _ & _ & _ & Hc & Hg & Hne & _ & Hn).
  assert (H0 : 0 <= rw_indent r) by (unfold indents_608 in Hin; cbn [In] in Hin; lia).
  assert (Hlen : (0 < length (rich_text r))%nat) by (destruct (rich_text r); [congruence|cbn; lia]).
  split; [|split; [exact Hr|lia]].
  exists (rw_ital r), (rich_text r). split; [exact Hc|split; [exact Hne|split; [lia|]]].
  intros Hi. rewrite Forall_forall in Hg. destruct (gcharb_parts 10 (Hg 10 Hi)) as [G _]. lia.
Qed.

Lemma group_rows_good5b : forall t, Forall (fun r => rich_row_any r = true) t -> forall e lr, good_ecap5b e ->
  Forall good_ecap5b (group_rows t (Some (e, lr))).
Proof.
  intros t F. induction F as [|r t Hrow F IH]; intros e lr He.
  - cbn [group_rows]. constructor; [exact He|constructor].
  - destruct (rich_any_good r Hrow) as (Hg & Hr & Hc). cbn [group_rows]. destruct (rw_row r =? lr + 1).
    + apply IH. destruct He as (H1 & H2 & H3 & H4). unfold good_ecap5b. cbn [e_row e_col e_lines].
      split; [exact H1|split; [exact H2|split]].
      * apply snoc_not_nil.
      * apply Forall_app. split; [exact H4|constructor; [exact Hg|constructor]].
    + constructor; [exact He|]. apply IH. unfold good_ecap5b. cbn [e_row e_col e_lines].
      split; [exact Hr|split; [exact Hc|split; [discriminate|constructor; [exact Hg|constructor]]]].
Qed.

Lemma expected_load_good5b : forall r t, rich_row_any r = true -> Forall (fun r => rich_row_any r = true) t ->
  Forall good_ecap5b (expected_load (r :: t)).
Proof.
  intros r t Hrow F. destruct (rich_any_good r Hrow) as (Hg & Hr & Hc). unfold expected_load. cbn [group_rows].
  apply group_rows_good5b; [exact F|]. unfold good_ecap5b. cbn [e_row e_col e_lines].
  split; [exact Hr|split; [exact Hc|split; [discriminate|constructor; [exact Hg|constructor]]]].
Qed.

Lemma good_line5b_text : forall cs, good_line5b cs ->
  line_text cs <> [] /\ (length (line_text cs) <= 32)%nat /\ ~ In 10 (line_text cs) /\
  cs = map (fun c => Cell c (line_it cs)) (line_text cs).
Proof.
  intros cs (it & s & -> & H1 & H2 & H3).
  assert (E : line_text (map (fun c => Cell c it) s) = s) by (unfold line_text; rewrite map_map; apply map_id).
  rewrite E. repeat split; try assumption. destruct s as [|c s]; [congruence|reflexivity].
Qed.

(* ---- 19. the oracle on the expected observation ------------------------------------------------------------------------ *)
Definition ml (l : list cell) : list (Z * bool) := map (fun c => (c, line_it l)) (line_text l).

Lemma obs_open : forall ls first on cur, (first = true -> on = false) ->
  obs_lines (oopen first on ls ++ oclose (last_it on ls)) cur on
  = match ls with [] => [cur] | l :: t => if first then (cur ++ ml l) :: map ml t else cur :: ml l :: map ml t end.
Proof.
  induction ls as [|l t IH]; intros first on cur Hf.
  - cbn [oopen app last_it fold_left]. destruct on; reflexivity.
  - cbn [oopen]. change (last_it on (l :: t)) with (last_it (line_it l) t). rewrite <- app_assoc. cbn [app].
    assert (Em : ml l = map (fun c => (c, line_it l)) (line_text l)) by reflexivity. rewrite Em. clear Em.
    assert (IH' : forall b c0, obs_lines (oopen false b t ++ oclose (last_it b t)) c0 b = c0 :: map ml t).
    { intros b c0. rewrite IH by discriminate. destruct t; reflexivity. }
    generalize (line_it l) as b. intros b. unfold otrans.
    destruct first; [rewrite (Hf eq_refl)|destruct on]; destruct b; cbn [andb negb app obs_lines]; rewrite IH'; reflexivity.
Qed.

Lemma bal_open : forall ls first on, (first = true -> on = false) -> balanced (oopen first on ls ++ oclose (last_it on ls)) on = true.
Proof.
  induction ls as [|l t IH]; intros first on Hf.
  - destruct on; reflexivity.
  - cbn [oopen]. change (last_it on (l :: t)) with (last_it (line_it l) t). rewrite <- app_assoc. cbn [app].
    assert (IH' : forall b, balanced (oopen false b t ++ oclose (last_it b t)) b = true) by (intros b; apply IH; discriminate).
    generalize (line_it l) as b. intros b. unfold otrans.
    destruct first; [rewrite (Hf eq_refl)|destruct on]; destruct b; cbn [andb negb app balanced]; apply IH'.
Qed.

Lemma match_lines5b : forall ls, Forall good_line5b ls -> match_lines ls (map ml ls) = true.
Proof.
  intros ls F. induction F as [|a ls Ha F IH]; [reflexivity|]. cbn [map match_lines]. rewrite IH, andb_true_r.
  destruct (good_line5b_text a Ha) as (_ & _ & _ & E). rewrite E at 1. apply match_line_basic.
Qed.

Lemma cap_ok_good5b : forall t1 t2 e, good_ecap5b e -> (t1 < t2)%Q -> cap_ok e (ocap5b t1 t2 e) = true.
Proof.
  intros t1 t2 e (Hr & Hc & Hne & Hl) Hlt.
  assert (Hg : In (e_row e, e_col e) grid_positions) by (apply grid_positions_complete; assumption).
  destruct (layout_linear_exhaustive _ Hg) as (Lx & Ly & _).
  unfold cap_ok, ocap5b, onodes5b. cbn [o_nodes o_xy o_start o_end].
  rewrite obs_open, bal_open by reflexivity.
  assert (Hm : match_lines (e_lines e)
                 match e_lines e with [] => [[]] | l :: t => ([] ++ ml l) :: map ml t end = true).
  { pose proof (match_lines5b _ Hl) as M. destruct (e_lines e); [congruence|exact M]. }
  rewrite Hm. cbn [andb fst snd] in *.
  destruct (layout_of_pos (e_row e, e_col e)) as [x y].
  destruct (layout_608 (e_row e) (e_col e)) as [ex ey]. cbn [fst snd] in Lx, Ly.
  rewrite (q_near9_eq _ _ Lx), (q_near9_eq _ _ Ly).
  destruct (Qle_bool t2 t1) eqn:E; [|reflexivity].
  apply Qle_bool_iff in E. exfalso. exact (Qlt_not_le _ _ Hlt E).
Qed.

Lemma load_ok_caps5b : forall t1 t2 es, Forall good_ecap5b es -> (t1 < t2)%Q -> forall span,
  span = None \/ span = Some (t1, t2) ->
  load_ok es (map (ocap5b t1 t2) es) span = Some ([], match es with [] => span | _ => Some (t1, t2) end).
Proof.
  intros t1 t2 es F Hlt. induction F as [|e es He F IH]; intros span Hs; [reflexivity|].
  cbn [map load_ok]. rewrite (cap_ok_good5b t1 t2 e He Hlt). cbn [andb].
  assert (Hq : match span with
               | Some (s, t) => Qeq_bool s (o_start (ocap5b t1 t2 e)) && Qeq_bool t (o_end (ocap5b t1 t2 e))
               | None => true
               end = true).
  { destruct Hs as [->| ->]; [reflexivity|]. cbn [ocap5b o_start o_end].
    apply andb_true_iff. split; apply Qeq_bool_iff; reflexivity. }
  rewrite Hq. cbn [ocap5b o_start o_end]. rewrite IH by (right; reflexivity). destruct es; reflexivity.
Qed.

Theorem popon_stage5b_ok : forall d l t1 t2, rich_load_any l = true -> (t1 < t2)%Q ->
  ok_c05 (mkProg d [l]) (Ok (map (ocap5b t1 t2) (expected_load l))) = true.
Proof.
  intros d l t1 t2 H Hlt. destruct (rich_load_any_parts l H) as (r & rest & -> & Hrow & Frest & _).
  unfold ok_c05. cbn [pg_loads loads_ok].
  rewrite (load_ok_caps5b t1 t2 _ (expected_load_good5b r rest Hrow Frest) Hlt None (or_introl eq_refl)).
  pose proof (expected_load_nonempty r rest) as Hne. destruct (expected_load (r :: rest)); [congruence|reflexivity].
Qed.

(* ---- 20. the end of read: the length scan sees the lines of the rows -------------------------------------------------- *)
Definition otxt (n : onode) : str := match n with OText s => s | OBreak => [10] | OStyle _ => [] end.

Lemma cap_text_observe : forall c, cap_text c = concat (map otxt (o_nodes (observe c))).
Proof.
  intros c. unfold cap_text, observe. cbn [o_nodes]. rewrite map_map. f_equal. apply map_ext. intros [s p|p|b p]; reflexivity.
Qed.

Lemma otext_open : forall ls on b,
  concat (map otxt (oopen false on ls ++ oclose b)) = concat (map (fun l => 10 :: line_text l) ls).
Proof.
  induction ls as [|l t IH]; intros on b.
  - destruct b; reflexivity.
  - cbn [oopen]. rewrite <- app_assoc. cbn [app]. rewrite map_app, concat_app. cbn [map concat]. rewrite IH.
    unfold otrans. destruct on; destruct (line_it l); reflexivity.
Qed.

Lemma otext_first : forall l t, concat (map otxt (onodes5b (l :: t))) = line_text l ++ concat (map (fun l => 10 :: line_text l) t).
Proof.
  intros l t. unfold onodes5b. cbn [oopen]. rewrite <- app_assoc. cbn [app]. rewrite map_app, concat_app. cbn [map concat].
  rewrite otext_open. unfold otrans. destruct (line_it l); reflexivity.
Qed.

Lemma split_lines : forall t l cur, (forall c, In c (line_text l) -> c <> 10) -> Forall (fun l => ~ In 10 (line_text l)) t ->
  split_ch_aux 10 (line_text l ++ concat (map (fun l => 10 :: line_text l) t)) cur = (rev cur ++ line_text l) :: map line_text t.
Proof.
  induction t as [|l2 t IH]; intros l cur Hl F.
  - cbn [map concat]. rewrite app_nil_r. apply split_no_sep. exact Hl.
  - inversion F as [|? ? H2 F']; subst. cbn [map concat]. rewrite <- app_comm_cons.
    rewrite (split_sep 10 (line_text l) _ cur Hl). f_equal. rewrite IH; [reflexivity| |exact F'].
    intros c Hc E. subst. exact (H2 Hc).
Qed.

Lemma obs_not_long : forall t1 t2 c e, observe c = ocap5b t1 t2 e -> good_ecap5b e ->
  filter spec_long (spec_lines (cap_text c)) = [].
Proof.
  intros t1 t2 c e Ho (_ & _ & Hne & Hl). rewrite cap_text_observe, Ho. unfold ocap5b. cbn [o_nodes].
  destruct (e_lines e) as [|l t]; [congruence|]. rewrite otext_first. unfold spec_lines, split_ch.
  inversion Hl as [|? ? Ha Ht]; subst.
  assert (Ft : Forall (fun l => ~ In 10 (line_text l)) t).
  { rewrite Forall_forall in *. intros x Hx. destruct (good_line5b_text x (Ht x Hx)) as (_ & _ & H & _). exact H. }
  destruct (good_line5b_text l Ha) as (_ & _ & Hn & _).
  rewrite split_lines; [|intros c0 Hc E; subst; exact (Hn Hc)|exact Ft]. cbn [rev app].
  change (line_text l :: map line_text t) with (map line_text (l :: t)).
  clear -Hl. induction Hl as [|a ls Ha Hl IH]; [reflexivity|].
  cbn [map filter]. destruct (good_line5b_text a Ha) as (_ & Hlen & _). unfold spec_long at 1.
  replace (32 <? Z.of_nat (length (line_text a))) with false by lia. exact IH.
Qed.

Lemma cons_eq_inv : forall A (a b : A) l m, a :: l = b :: m -> a = b /\ l = m.
Proof. intros A a b l m H. inversion H. split; reflexivity. Qed.

(* captions that observe as the expected ones pass the scans at the end of read *)
Lemma finish_obs : forall t1 t2 caps es n, map observe caps = map (ocap5b t1 t2) es -> es <> [] -> Forall good_ecap5b es ->
  Qeq_bool t2 0 = false -> is_flash (mkPre t1 t2 [] None) = false ->
  finish_read (mkStash caps n) = ROk caps.
Proof.
  intros t1 t2 caps es n Ho Hne F Hz Hfl.
  assert (F2 : Forall2 (fun c e => observe c = ocap5b t1 t2 e /\ good_ecap5b e) caps es).
  { clear Hne. revert es Ho F. induction caps as [|c caps IH]; intros [|e es] Ho F; try discriminate Ho; [constructor|].
    cbn [map] in Ho. apply cons_eq_inv in Ho. destruct Ho as [H1 H2]. inversion F; subst. constructor; [split; assumption|]. apply IH; assumption. }
  assert (Ht : forall c, In c caps -> pc_start c = t1 /\ pc_end c = t2).
  { clear -F2. induction F2 as [|c e caps es [H _] F2 IH]; intros x Hx; [destruct Hx|]. destruct Hx as [<-|Hx]; [|apply IH; exact Hx].
    unfold observe, ocap5b in H. injection H as H1 H2 _ _. split; assumption. }
  unfold finish_read. cbn [st_caps].
  assert (Hlc : length_check (map to_lcap caps) = None).
  { apply length_check_none_iff. unfold offending. clear -F2. induction F2 as [|c e caps es [H G] F2 IH]; [reflexivity|].
    cbn [map concat]. rewrite IH, app_nil_r. unfold to_lcap. cbn [snd]. exact (obs_not_long t1 t2 c e H G). }
  rewrite Hlc.
  assert (Hf : existsb is_flash caps = false).
  { clear -Ht Hfl. induction caps as [|c caps IH]; [reflexivity|]. cbn [existsb]. rewrite IH by (intros x Hx; apply Ht; right; exact Hx).
    destruct (Ht c (or_introl eq_refl)) as [H1 H2]. unfold is_flash in *. cbn [pc_start pc_end] in Hfl. rewrite H1, H2, Hfl. reflexivity. }
  rewrite Hf. destruct caps as [|c caps]; [destruct es; [congruence|discriminate Ho]|].
  rewrite fix_last_ended; [reflexivity|]. intros x Hx. destruct (Ht x Hx) as [_ ->]. exact Hz.
Qed.

Lemma onodes5b_nonempty : forall ls, ls <> [] -> onodes5b ls <> [].
Proof.
  intros [|l t] H; [congruence|]. unfold onodes5b. cbn [oopen]. intros E. apply app_eq_nil in E. destruct E as [E _].
  apply app_eq_nil in E. destruct E as [_ E]. discriminate.
Qed.

Lemma has_nodes_obs : forall t1 t2 caps es, map observe caps = map (ocap5b t1 t2) es -> Forall good_ecap5b es ->
  filter has_nodes caps = caps.
Proof.
  intros t1 t2. induction caps as [|c caps IH]; intros [|e es] Ho F; try discriminate Ho; [reflexivity|].
  cbn [map] in Ho. apply cons_eq_inv in Ho. destruct Ho as [H1 H2]. inversion F as [|? ? (_ & _ & Hne & _) F']; subst. cbn [filter].
  rewrite (IH es H2 F'). unfold has_nodes. destruct (pc_nodes c) eqn:E; [|reflexivity].
  exfalso. unfold observe, ocap5b in H1. rewrite E in H1. injection H1 as _ _ H1. cbn [map] in H1.
  symmetry in H1. exact (onodes5b_nonempty _ Hne H1).
Qed.

Lemma store_load5b : forall t1 t2 r t sty, rich_row_any r = true -> Forall (fun r => rich_row_any r = true) t ->
  create_and_store stash0 (mkCr (load_nodes5b (r :: t)) sty) t1 t2
  = mkStash (caps5b t1 t2 (r :: t)) (length (caps5b t1 t2 (r :: t))).
Proof.
  intros t1 t2 r t sty Hrow F. destruct (rich_facts r Hrow) as (_ & _ & _ & _ & _ & _ & _ & _ & _ & Hne & _).
  unfold create_and_store.
  assert (E : cr_is_empty (mkCr (load_nodes5b (r :: t)) sty) = false).
  { unfold cr_is_empty. cbn [cr_nodes load_nodes5b]. rewrite existsb_app. cbn [existsb i_text].
    destruct (rich_text r); [congruence|]. cbn [nonempty orb]. rewrite orb_true_r. reflexivity. }
  rewrite E. cbn [cr_nodes]. rewrite (format_load5b r t Hrow F), stash_extend0. fold (caps5b t1 t2 (r :: t)).
  rewrite (has_nodes_obs t1 t2 _ _ (caps5b_observe t1 t2 r t Hrow F) (expected_load_good5b r t Hrow F)). reflexivity.
Qed.

(* ---- 21. the read-level theorem (5b) ----------------------------------------------------------------------------------- *)
Theorem popon_stage5b_read : forall d l off tc tc2 t1 t2, rich_load_any l = true ->
  get_time tc (Z.of_nat (length (emit_load d l)) - (if d then 2 else 1)) off = Ok t1 ->
  get_time tc2 0 off = Ok t2 -> Qeq_bool t2 0 = false -> is_flash (mkPre t1 t2 [] None) = false ->
  read off [(tc, emit_load d l); (tc2, emit_clear d)] = ROk (caps5b t1 t2 l) /\
  map observe (caps5b t1 t2 l) = map (ocap5b t1 t2) (expected_load l).
Proof.
  intros d l off tc tc2 t1 t2 H Hg1 Hg2 Hz Hfl.
  destruct (stage6_stat5b d l off tc None t1 H Hg1) as (tk & lc & ds & sty & E & Hl).
  destruct (rich_load_any_parts l H) as (r & rest & -> & Hrow & Frest & _).
  split; [|exact (caps5b_observe t1 t2 r rest Hrow Frest)].
  destruct (edm_run d stash0 tk lc ds creator0 creator0 (mkCr (load_nodes5b (r :: rest)) sty) t1 t1 tc2 0 off t2 Hl Hg2)
    as (l' & ds' & fr' & E2).
  assert (S1 : translate_line (rstate0 off) (tc, emit_load d (r :: rest))
               = translate_words (start_state off tc) (emit_load d (r :: rest))) by reflexivity.
  rewrite tws_words, E in S1.
  unfold read, run_lines. cbn [fold_left]. rewrite S1. unfold translate_line, set_clock.
  cbn [r_err fst snd r_stash r_tk r_last r_dstart r_pop r_paint r_roll r_active r_queue r_time r_tc r_frames r_offset].
  unfold emit_clear. rewrite E2. cbn [r_err flush_implicit r_active r_queue r_stash].
  rewrite (store_load5b t1 t2 r rest sty Hrow Frest).
  apply (finish_obs t1 t2 _ (expected_load (r :: rest))).
  - exact (caps5b_observe t1 t2 r rest Hrow Frest).
  - apply expected_load_nonempty.
  - exact (expected_load_good5b r rest Hrow Frest).
  - exact Hz.
  - exact Hfl.
Qed.

(* what `read` returns, observed, meets the oracle *)
Corollary popon_stage5b : forall d l off tc tc2 t1 t2, rich_load_any l = true ->
  get_time tc (Z.of_nat (length (emit_load d l)) - (if d then 2 else 1)) off = Ok t1 ->
  get_time tc2 0 off = Ok t2 -> Qeq_bool t2 0 = false -> is_flash (mkPre t1 t2 [] None) = false -> (t1 < t2)%Q ->
  exists caps, read off [(tc, emit_load d l); (tc2, emit_clear d)] = ROk caps /\
               ok_c05 (mkProg d [l]) (Ok (map observe caps)) = true.
Proof.
  intros d l off tc tc2 t1 t2 H Hg1 Hg2 Hz Hfl Hlt.
  destruct (popon_stage5b_read d l off tc tc2 t1 t2 H Hg1 Hg2 Hz Hfl) as [Hr Ho].
  exists (caps5b t1 t2 l). split; [exact Hr|]. rewrite Ho. exact (popon_stage5b_ok d l t1 t2 H Hlt).
Qed.

(* the domain of 5b is inhabited: italic and plain rows, adjacent and apart; the nodes after _format_italics and the
   observation expected for them, computed *)
Definition wit_load5b : load :=
  [mkRow 3 0 1 14 [Ch 97; Ext 101 1 5]; mkRow 4 4 2 1 [Sp 0; Ch 98]; mkRow 5 0 0 15 [Ch 99];
   mkRow 9 0 2 14 [Ch 100; Bs; Ch 101]; mkRow 1 8 0 0 [Ch 102]].
Example wit_load5b_ok : rich_load_any wit_load5b = true /\ rich_load wit_load5b = false /\
  map i_kind (fin_nodes wit_load5b)
  = [IItalOn; IText; IItalOff; IBreak; IText; IBreak; IItalOn; IText; IItalOff; IRepos; IItalOn; IText; IItalOff; IRepos; IText] /\
  map (fun e => onodes5b (e_lines e)) (expected_load wit_load5b)
  = [[OStyle true; OText [97; 210]; OStyle false; OBreak; OText [174; 98]; OBreak; OStyle true; OText [99]; OStyle false];
     [OStyle true; OText [101]; OStyle false]; [OText [102]]].
Proof. vm_compute. repeat split. Qed.
