(* C06 end to end for the closed stage of the pop-on refinement: a single load of one row of basic characters followed
   by an Erase-Displayed-Memory line is read as one caption that starts at the exact instant its End-Of-Caption word
   is transmitted and ends at the exact instant of the EDM word (well-formed timecodes, any offset, single/doubled). *)
From Coq Require Import List ZArith QArith Qabs Lia Bool ZifyBool.
From PV Require Import lib.Sx lib.Str lib.Result model.GenScc model.SccLen model.SccTime model.SccStash model.SccDecoder model.SccLayout.
From PV Require Import spec.Spec608 spec.SpecScc05 spec.SpecSccTime spec.SpecSccLen.
From PV Require Import proofs.SccTableFacts proofs.SccDoubleFacts proofs.SccLenFacts proofs.SccStashFacts proofs.SccTimeFacts proofs.SccPoponStage1.
Import ListNotations.
Open Scope Z_scope.
Local Strategy 1000 [basic_code is_basic].

(* popon_stage1_read without its (unused) hypothesis on all frame counts; same proof script *)
Theorem popon_stage1_read_nohyp : forall d r off tc tc2 t1 t2, basic_row r = true ->
  get_time tc (Z.of_nat (length (emit_load d [r])) - (if d then 2 else 1)) off = Ok t1 ->
  get_time tc2 0 off = Ok t2 -> Qeq_bool t2 0 = false -> is_flash (mkPre t1 t2 [] None) = false ->
  read off [(tc, emit_load d [r]); (tc2, emit_clear d)] =
  ROk [mkPre t1 t2 [CText (row_text r) (row_pos r)] (Some (row_pos r))].
Proof.
  intros d r off tc tc2 t1 t2 H Hg1 Hg2 Hz Hfl.
  destruct (stage1_state d r off tc None t1 H Hg1) as (l & ds & E & Hl).
  destruct (row_text_facts r H) as [Hrs Hoff].
  destruct (basic_row_facts r H) as (_ & _ & _ & _ & _ & _ & _ & Hne & _).
  destruct (edm_run d stash0 (mkTk [row_pos r] None false (row_pos r)) l ds creator0 creator0
              (mkCr [mkI IText (row_text r) (row_pos r)] SNone) t1 t1 tc2 0 off t2 Hl Hg2) as (l' & ds' & fr' & E2).
  assert (S1 : translate_line (rstate0 off) (tc, emit_load d [r]) = translate_words (start_state off tc) (emit_load d [r]))
    by reflexivity.
  rewrite tws_words, E in S1.
  unfold read, run_lines. cbn [fold_left]. rewrite S1. unfold translate_line, set_clock.
  cbn [r_err fst snd r_stash r_tk r_last r_dstart r_pop r_paint r_roll r_active r_queue r_time r_tc r_frames r_offset].
  unfold emit_clear. rewrite E2. cbn [r_err flush_implicit r_active r_queue r_stash].
  destruct (row_text r) as [|c0 txt] eqn:Et; [congruence|].
  rewrite (store_one c0 txt (row_pos r) t1 t2 Hrs).
  unfold finish_read. cbn [st_caps map]. unfold to_lcap, cap_text. cbn [pc_start pc_nodes map node_text concat].
  rewrite app_nil_r.
  match goal with |- context [length_check ?x] => assert (Hlc : length_check x = None) end.
  { apply length_check_none_iff. unfold offending in *. cbn [map snd concat] in *. exact Hoff. }
  rewrite Hlc. cbn [existsb]. change (is_flash (mkPre t1 t2 [CText (c0 :: txt) (row_pos r)] (Some (row_pos r))))
    with (is_flash (mkPre t1 t2 [] None)). rewrite Hfl. cbn [orb].
  rewrite fix_last_ended; [reflexivity|]. intros c [<-|[]]. exact Hz.
Qed.

Lemma emit_load_len : forall d r, Z.of_nat (length (emit_load d [r])) - (if d then 2 else 1) >= 0.
Proof. intros d r. unfold emit_load. rewrite !app_length. destruct d; cbn [ctl length]; lia. Qed.

Theorem popon_single_load_times : forall d r off tcA tcB,
  basic_row r = true -> tc_wf tcA = true -> tc_wf tcB = true ->
  let k := Z.of_nat (length (emit_load d [r])) - (if d then 2 else 1) in
  exists t1 t2, (t1 == spec_instant tcA k off)%Q /\ (t2 == spec_instant tcB 0 off)%Q /\
    (Qeq_bool t2 0 = false -> is_flash (mkPre t1 t2 [] None) = false ->
     read off [(render_tc tcA, emit_load d [r]); (render_tc tcB, emit_clear d)] =
     ROk [mkPre t1 t2 [CText (row_text r) (row_pos r)] (Some (row_pos r))]).
Proof.
  intros d r off tcA tcB Hr HA HB k.
  assert (Hk : 0 <= k) by (unfold k; pose proof (emit_load_len d r); lia).
  destruct (get_time_exact tcA k off HA Hk) as [t1 [G1 E1]].
  destruct (get_time_exact tcB 0 off HB ltac:(lia)) as [t2 [G2 E2]].
  exists t1, t2. split; [exact E1|]. split; [exact E2|].
  intros Hz Hf. exact (popon_stage1_read_nohyp d r off (render_tc tcA) (render_tc tcB) t1 t2 Hr G1 G2 Hz Hf).
Qed.
