(* C16 wave 7: the two known findings about rows without a displayable character, as facts about the decoder MODEL
   (which mirrors the code): on well-formed roll-up / paint-on streams the clause "each caption ends exactly when the next
   one begins" fails.  Witnesses of known_findings.d/C16-gap-after-empty-row.json and C16-blank-only-row.json. *)
From Coq Require Import List ZArith QArith Bool.
From PV Require Import lib.Sx lib.Str lib.Result model.SccStash model.SccDecoder model.SccPopon.
Import ListNotations.
Open Scope Z_scope.

(* 9425 94ad 9470 6162 | 9429 9470 8080 | 9425 94ad 9470 e364 : roll-up 'ab', a paint-on passage of null padding, roll-up 'cd' *)
Definition gap_witness : list sline :=
  [ (lit "00:00:01:00", [37925; 38061; 38000; 24930]); (lit "00:00:02:00", [37929; 38000; 32896]);
    (lit "00:00:03:00", [37925; 38061; 38000; 58212]) ].
(* 9426 94ad 9470 6162 | 9426 94ad 2020 2020 | 94ad 9470 e364 : roll-up 'ab', a row of four blanks, 'cd' *)
Definition blank_row_witness : list sline :=
  [ (lit "00:00:01:00", [37926; 38061; 38000; 24930]); (lit "00:00:01:16", [37926; 38061; 8224; 8224]);
    (lit "00:00:01:22", [38061; 38000; 58212]) ].

Example gap_after_empty_row_refuted : exists s1 e1 s2 e2,
  spans_of (read 0 gap_witness) = Ok [(s1, e1); (s2, e2)] /\ (s1 < e1)%Q /\ (e1 < s2)%Q.
Proof. eexists _, _, _, _. split; [vm_compute; reflexivity|]. split; vm_compute; reflexivity. Qed.

Example blank_only_row_refuted : exists s1 e1 s2 e2,
  spans_of (read 0 blank_row_witness) = Ok [(s1, e1); (s2, e2)] /\ (0 < s1)%Q /\ (e1 == 0)%Q /\ (s1 < s2)%Q.
Proof. eexists _, _, _, _. split; [vm_compute; reflexivity|]. repeat split; vm_compute; reflexivity. Qed.
