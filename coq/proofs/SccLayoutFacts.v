(* C17: the rows SCCWriter._text_to_code lays a caption out on (model.SccWrite.layout_rows). *)
From Coq Require Import List ZArith Lia Bool ZifyBool Arith.
From PV Require Import lib.Sx lib.Str lib.Result model.GenSccw model.SccWrap model.SccWrite spec.SpecSccw proofs.SccwStr proofs.SccWrapFacts
     proofs.SccWordsFacts proofs.SccWriteFacts proofs.SccDecodeFacts.
Import ListNotations.

Lemma number_rows_snd_eq : forall lines first, map snd (number_rows first lines) = lines.
Proof. induction lines; intros; simpl; f_equal; auto. Qed.

Lemma layout_rows_texts : forall text,
  map snd (layout_rows text) = flat_map (fun p => split_ch 10 (fill 32 p)) (split_ch 10 text).
Proof.
  intros text. unfold layout_rows. rewrite number_rows_snd_eq. unfold layout_line.
  rewrite split_ch_join.
  - rewrite flat_map_concat_map, map_map, <- flat_map_concat_map. reflexivity.
  - intros E. apply map_eq_nil in E. exact (split_ch_nonempty _ _ E).
Qed.

Lemma fill_rows_le : forall width p r, In r (split_ch 10 (fill width p)) -> (length r <= width)%nat.
Proof.
  intros width p r H. unfold fill in H. destruct (wrap width p) as [|a t] eqn:W.
  - simpl in H. destruct H as [<-|[]]. simpl. lia.
  - rewrite split_ch_join in H by discriminate. apply in_flat_map in H. destruct H as [x [Hx Hr]].
    apply split_ch_len in Hr. rewrite <- W in Hx. apply wrap_rows_le in Hx. lia.
Qed.

(* rows_le_32: whatever the caption text, every laid-out row has at most 32 columns *)
Theorem rows_le_32 : forall text r, In r (map snd (layout_rows text)) -> (length r <= 32)%nat.
Proof.
  intros text r H. rewrite layout_rows_texts in H. apply in_flat_map in H. destruct H as [p [_ H]].
  eapply fill_rows_le. exact H.
Qed.

(* ---- rows are broken only at spaces: the words of the rows refine the words of the caption text --------- *)
Lemma flat_map_flat_map : forall (A B C : Type) (f : B -> list C) (g : A -> list B) l,
  flat_map f (flat_map g l) = flat_map (fun a => flat_map f (g a)) l.
Proof. induction l as [|a t IH]; [reflexivity|]. cbn [flat_map]. rewrite flat_map_app, IH. reflexivity. Qed.

Lemma layout_rows_words : forall text,
  flat_map words (map snd (layout_rows text))
  = flat_map (fun p => flat_map words (wrap 32 p)) (split_ch 10 text).
Proof.
  intros text. rewrite layout_rows_texts, flat_map_flat_map. apply flat_map_ext. intros p.
  unfold split_ch. rewrite words_split_nl. cbn [rev app]. unfold fill. apply words_join_nl.
Qed.

Lemma pieces_refine : forall pieces, (forall p, In p pieces -> plain p = true) ->
  RefH 32 false (flat_map words pieces) (flat_map (fun p => flat_map words (wrap 32 p)) pieces).
Proof.
  induction pieces as [|p t IH]; intros H; [constructor|]. cbn [flat_map].
  apply RefH_app.
  - apply wrap_refines_H; [lia|]. apply H. left. reflexivity.
  - apply IH. intros q Hq. apply H. right. exact Hq.
Qed.

(* for every caption text whose only whitespace characters are spaces and line breaks (every text over the
   basic character set): each word of the text appears whole in the rows, or - only when it is longer than
   32 - as consecutive pieces; nothing else appears *)
Theorem layout_refines_words : forall text, plain_nl text = true ->
  refines 32 (words text) (flat_map words (map snd (layout_rows text))) = true.
Proof.
  intros text Pl. rewrite layout_rows_words.
  assert (W : words text = flat_map words (split_ch 10 text)).
  { unfold split_ch. rewrite words_split_nl. reflexivity. }
  rewrite W.
  destruct (RefH_refines 32 false _ _ (pieces_refine (split_ch 10 text)
             (fun p Hp => split_pieces_plain text [] Pl eq_refl p Hp))) as [R _].
  apply R. reflexivity.
Qed.

(* ---- rows of a text over the basic set are over the basic set; hence the specification's decoder reads the
        word stream back as the rows ----------------------------------------------------------------------- *)
Definition basic_text (text : str) : bool := forallb (fun c => is_basic c || (c =? 10)%Z) text.

Lemma is_basic_space : is_basic 32 = true.
Proof. vm_compute. reflexivity. Qed.

Lemma forallb_weaken : forall (p q : Z -> bool) s, (forall c, p c = true -> q c = true) ->
  forallb p s = true -> forallb q s = true.
Proof. intros p q s H Hs. rewrite forallb_forall in *. intros c Hc. apply H. apply Hs. exact Hc. Qed.

Lemma layout_rows_basic : forall text, basic_text text = true -> rows_basic (layout_rows text).
Proof.
  intros text H r Hr.
  assert (I : In (snd r) (map snd (layout_rows text))) by (apply in_map; exact Hr).
  rewrite layout_rows_texts in I. apply in_flat_map in I. destruct I as [p [Hp Hx]].
  assert (Bp : forallb is_basic p = true) by (apply (split_ch_aux_forallb is_basic 10 text [] H eq_refl p Hp)).
  assert (Bm : forallb is_basic (munge p) = true).
  { unfold munge. rewrite forallb_forall in *. intros c Hc. apply in_map_iff in Hc. destruct Hc as [c0 [<- Hc0]].
    destruct (tw_is_ws c0); [exact is_basic_space|apply Bp; exact Hc0]. }
  unfold fill in Hx. destruct (wrap 32 p) as [|a t] eqn:W.
  - simpl in Hx. destruct Hx as [<-|[]]. reflexivity.
  - rewrite split_ch_join in Hx by discriminate. apply in_flat_map in Hx. destruct Hx as [row [Hrow Hx]].
    rewrite <- W in Hrow. pose proof (wrap_forallb is_basic 32 p Bm row Hrow) as Br.
    apply (split_ch_aux_forallb is_basic 10 row []); auto.
    apply (forallb_weaken is_basic); [intros c Hc; rewrite Hc; reflexivity|exact Br].
Qed.

Theorem decode_rows_basic : forall text, basic_text text = true -> (length (layout_rows text) <= 15)%nat ->
  exists ws, text_to_words text = Ok ws /\ decode_body ws None [] = Some (layout_rows text).
Proof. intros text B L. apply decode_rows; [exact L|apply layout_rows_basic; exact B]. Qed.

(* no basic character other than the space is whitespace: texts over the basic set are `plain_nl` *)
Lemma tbl_basic_not_space :
  forallb (fun kv => nsp (fst kv) || is_sp (fst kv)) sccw_character_to_code = true.
Proof. vm_compute. reflexivity. Qed.

Lemma basic_text_plain : forall text, basic_text text = true -> plain_nl text = true.
Proof.
  intros text H. unfold basic_text, plain_nl in *. rewrite forallb_forall in *. intros c Hc. specialize (H c Hc).
  destruct (c =? 10)%Z; [apply orb_true_r|]. rewrite orb_false_r in *. unfold is_basic in H.
  destruct (assoc c sccw_character_to_code) as [b|] eqn:E; [|discriminate].
  apply assoc_in in E. pose proof tbl_basic_not_space as T. rewrite forallb_forall in T. exact (T _ E).
Qed.

Theorem layout_refines_words_basic : forall text, basic_text text = true ->
  refines 32 (words text) (flat_map words (map snd (layout_rows text))) = true.
Proof. intros text H. apply layout_refines_words. apply basic_text_plain. exact H. Qed.
