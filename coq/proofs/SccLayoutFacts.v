(* C17: the rows SCCWriter._text_to_code lays a caption out on (model.SccWrite.layout_rows). *)
From Coq Require Import List ZArith Lia Bool ZifyBool Arith.
From PV Require Import lib.Sx lib.Str lib.Result model.SccWrap model.SccWrite proofs.SccwStr proofs.SccWrapFacts.
Import ListNotations.

Lemma number_rows_snd_eq : forall lines first, map snd (number_rows first lines) = lines.
Proof. induction lines; intros; simpl; f_equal; auto. Qed.

Lemma layout_rows_texts : forall text,
  map snd (layout_rows text) = flat_map (fun p => split_ch 10 (fill 32 p)) (split_ch 10 text).
Proof.
  intros text. unfold layout_rows. rewrite number_rows_snd_eq. unfold layout_line.
  rewrite split_ch_join.
  - rewrite flat_map_concat_map, map_map, <- flat_map_concat_map. reflexivity.
  - intros E. apply map_eq_nil in E. exact (split_ch_nonempty _ _ E).
Qed.

Lemma fill_rows_le : forall width p r, In r (split_ch 10 (fill width p)) -> (length r <= width)%nat.
Proof.
  intros width p r H. unfold fill in H. destruct (wrap width p) as [|a t] eqn:W.
  - simpl in H. destruct H as [<-|[]]. simpl. lia.
  - rewrite split_ch_join in H by discriminate. apply in_flat_map in H. destruct H as [x [Hx Hr]].
    apply split_ch_len in Hr. rewrite <- W in Hx. apply wrap_rows_le in Hx. lia.
Qed.

(* rows_le_32: whatever the caption text, every laid-out row has at most 32 columns *)
Theorem rows_le_32 : forall text r, In r (map snd (layout_rows text)) -> (length r <= 32)%nat.
Proof.
  intros text r H. rewrite layout_rows_texts in H. apply in_flat_map in H. destruct H as [p [_ H]].
  eapply fill_rows_le. exact H.
Qed.
