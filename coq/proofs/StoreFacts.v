(* StoreFacts.v - lemmas about the heap model (model/Store.v): the frame discipline of "a call that allocates at
   `mark` and afterwards assigns only through pointers of what it allocated", deepcopy, snapshots. *)
From Coq Require Import List ZArith Bool Arith Lia.
From PV Require Import lib.Sx lib.Str model.Store.
Import ListNotations.

(* ---- get / upd / alloc ---------------------------------------------------------------------------------------- *)
Lemma length_upd : forall st l o, length (upd st l o) = length st.
Proof. induction st as [|x t IH]; intros [|n] o; simpl; auto. Qed.

Lemma get_upd_same : forall st l o, (l < length st)%nat -> get (upd st l o) l = Some o.
Proof.
  unfold get. induction st as [|x t IH]; intros [|n] o H; simpl in *; try lia; auto.
  apply IH. lia.
Qed.

Lemma get_upd_other : forall st l l' o, l <> l' -> get (upd st l o) l' = get st l'.
Proof.
  unfold get. induction st as [|x t IH]; intros [|n] [|m] o H; simpl; auto; try congruence.
Qed.

Lemma upd_out : forall st l o, (length st <= l)%nat -> upd st l o = st.
Proof.
  induction st as [|x t IH]; intros [|n] o H; simpl in *; auto; try lia.
  f_equal. apply IH. lia.
Qed.

Lemma get_some_lt : forall st l o, get st l = Some o -> (l < length st)%nat.
Proof. unfold get. intros st l o H. apply nth_error_Some. congruence. Qed.

Lemma get_none_ge : forall st l, (length st <= l)%nat -> get st l = None.
Proof. unfold get. intros. apply nth_error_None. assumption. Qed.

Lemma get_app_l : forall st ext l, (l < length st)%nat -> get (st ++ ext) l = get st l.
Proof. unfold get. intros. apply nth_error_app1. assumption. Qed.

Lemma get_app_new : forall st o, get (st ++ [o]) (length st) = Some o.
Proof. unfold get. intros. rewrite nth_error_app2 by lia. rewrite Nat.sub_diag. reflexivity. Qed.

(* ---- regions ---------------------------------------------------------------------------------------------------- *)
(* v does not point below `mark` nor beyond `n` *)
Definition inr (mark n : nat) (v : val) : Prop :=
  match v with VLoc l => (mark <= l < n)%nat | _ => True end.

Definition below (n : nat) (v : val) : Prop :=
  match v with VLoc l => (l < n)%nat | _ => True end.

Definition items_inr (mark n : nat) (its : list (val * val)) : Prop :=
  Forall (fun kv => inr mark n (fst kv) /\ inr mark n (snd kv)) its.

Definition items_below (n : nat) (its : list (val * val)) : Prop :=
  Forall (fun kv => below n (fst kv) /\ below n (snd kv)) its.

(* every reference of the store is in bounds *)
Definition wf (st : store) : Prop :=
  forall l o, get st l = Some o -> items_below (length st) (o_items o).

Definition agree_below (mark : nat) (st st' : store) : Prop :=
  forall l, (l < mark)%nat -> get st' l = get st l.

(* The invariant of a call that started in st0 (mark = length st0):
   the old part is untouched, and what was allocated since points only into what was allocated since. *)
Record inv (st0 st : store) : Prop := mkInv {
  inv_agree : agree_below (length st0) st0 st;
  inv_len : (length st0 <= length st)%nat;
  inv_closed : forall l o, (length st0 <= l)%nat -> get st l = Some o ->
                           items_inr (length st0) (length st) (o_items o)
}.

Lemma inr_mono : forall mark n n' v, inr mark n v -> (n <= n')%nat -> inr mark n' v.
Proof. intros mark n n' [] H Hn; simpl in *; auto. lia. Qed.

Lemma items_inr_mono : forall mark n n' its, items_inr mark n its -> (n <= n')%nat -> items_inr mark n' its.
Proof.
  intros mark n n' its H Hn. unfold items_inr in *. eapply Forall_impl; [|exact H].
  intros kv [A B]. split; eapply inr_mono; eauto.
Qed.

Lemma below_mono : forall n n' v, below n v -> (n <= n')%nat -> below n' v.
Proof. intros n n' [] H Hn; simpl in *; auto. lia. Qed.

Lemma items_below_mono : forall n n' its, items_below n its -> (n <= n')%nat -> items_below n' its.
Proof.
  intros n n' its H Hn. unfold items_below in *. eapply Forall_impl; [|exact H].
  intros kv [A B]. split; eapply below_mono; eauto.
Qed.

Lemma inr_below : forall mark n v, inr mark n v -> below n v.
Proof. intros mark n [] H; simpl in *; auto. lia. Qed.

Lemma inv_refl : forall st0, inv st0 st0.
Proof.
  intros st0. constructor.
  - intros l _. reflexivity.
  - lia.
  - intros l o Hl Hg. apply get_some_lt in Hg. lia.
Qed.

(* the invariant gives back well-formedness of the whole store *)
Lemma inv_wf : forall st0 st, wf st0 -> inv st0 st -> wf st.
Proof.
  intros st0 st Hwf [Ha Hl Hc] l o Hg.
  destruct (Nat.lt_ge_cases l (length st0)) as [Hlt|Hge].
  - rewrite Ha in Hg by assumption. apply Hwf in Hg. eapply items_below_mono; eauto.
  - specialize (Hc l o Hge Hg). unfold items_inr, items_below in *.
    eapply Forall_impl; [|exact Hc]. intros kv [A B]. split; eapply inr_below; eauto.
Qed.

(* ---- primitive steps preserve the invariant --------------------------------------------------------------------- *)
Lemma inv_upd : forall st0 st l o,
  inv st0 st -> (length st0 <= l)%nat -> items_inr (length st0) (length st) (o_items o) ->
  inv st0 (upd st l o).
Proof.
  intros st0 st l o [Ha Hl Hc] Hge Hits. constructor.
  - intros l' Hl'. rewrite get_upd_other by lia. apply Ha. assumption.
  - rewrite length_upd. assumption.
  - intros l' o' Hl' Hg. rewrite length_upd.
    destruct (Nat.eq_dec l l') as [->|Hne].
    + destruct (Nat.lt_ge_cases l' (length st)) as [Hlt|Hge'].
      * rewrite get_upd_same in Hg by assumption. inversion Hg; subst. assumption.
      * rewrite upd_out in Hg by assumption. eapply Hc; eauto.
    + rewrite get_upd_other in Hg by assumption. eapply Hc; eauto.
Qed.

Lemma inv_alloc : forall st0 st o,
  inv st0 st -> items_inr (length st0) (length st) (o_items o) ->
  inv st0 (st ++ [o]) /\ inr (length st0) (length (st ++ [o])) (VLoc (length st)).
Proof.
  intros st0 st o [Ha Hl Hc] Hits. split.
  - constructor.
    + intros l Hl'. rewrite get_app_l by lia. apply Ha. assumption.
    + rewrite app_length. simpl. lia.
    + intros l o' Hl' Hg. rewrite app_length. simpl.
      destruct (Nat.lt_ge_cases l (length st)) as [Hlt|Hge].
      * rewrite get_app_l in Hg by assumption. eapply items_inr_mono; [eapply Hc; eauto|lia].
      * assert (l = length st).
        { apply get_some_lt in Hg. rewrite app_length in Hg. simpl in Hg. lia. }
        subst l. rewrite get_app_new in Hg. inversion Hg; subst.
        eapply items_inr_mono; eauto. lia.
  - unfold inr. rewrite app_length. simpl. lia.
Qed.

Lemma inv_new_obj : forall st0 st k its st' v,
  inv st0 st -> items_inr (length st0) (length st) its -> new_obj st k its = (st', v) ->
  inv st0 st' /\ inr (length st0) (length st') v /\ (length st <= length st')%nat.
Proof.
  intros st0 st k its st' v Hinv Hits H. unfold new_obj, alloc in H. inversion H; subst.
  destruct (inv_alloc st0 st (mkObj k its) Hinv Hits) as [A B].
  split; [exact A|]. split; [exact B|]. rewrite app_length. simpl. lia.
Qed.

(* reading through a pointer of the new region yields values of the new region *)
Lemma items_of_inr : forall st0 st v,
  inv st0 st -> inr (length st0) (length st) v -> items_inr (length st0) (length st) (items_of st v).
Proof.
  intros st0 st v Hinv Hv. destruct v as [| | |l]; simpl; try constructor.
  destruct (get st l) as [o|] eqn:Hg; [|constructor].
  simpl in Hv. apply (inv_closed _ _ Hinv l o); [lia|exact Hg].
Qed.

Lemma assoc_inr : forall mark n k its x, items_inr mark n its -> assoc k its = Some x -> inr mark n x.
Proof.
  intros mark n k its x H. induction H as [|[k' v'] t [A B] Ht IH]; simpl; [discriminate|].
  destruct (val_eqb k k'); [intros E; inversion E; subst; exact B|exact IH].
Qed.

Lemma field_inr : forall st0 st v k,
  inv st0 st -> inr (length st0) (length st) v -> inr (length st0) (length st) (field st v k).
Proof.
  intros st0 st v k Hinv Hv. unfold field.
  destruct (assoc k (items_of st v)) as [x|] eqn:E; [|exact I].
  eapply assoc_inr; [eapply items_of_inr; eauto|exact E].
Qed.


(* ---- assignments through a pointer of the new region ------------------------------------------------------------ *)
Lemma inv_set_items : forall st0 st v its,
  inv st0 st -> inr (length st0) (length st) v -> items_inr (length st0) (length st) its ->
  inv st0 (set_items st v its).
Proof.
  intros st0 st v its Hinv Hv Hits. unfold set_items.
  destruct v as [| | |l]; auto. destruct (get st l) as [o|] eqn:Hg; auto.
  simpl in Hv. apply inv_upd; auto. lia.
Qed.

Lemma length_set_items : forall st v its, length (set_items st v its) = length st.
Proof.
  intros st v its. unfold set_items. destruct v; auto. destruct (get st l); auto. apply length_upd.
Qed.

Lemma assoc_set_inr : forall mark n k x its,
  items_inr mark n its -> inr mark n k -> inr mark n x -> items_inr mark n (assoc_set k x its).
Proof.
  intros mark n k x its H Hk Hx. induction H as [|[k' v'] t [A B] Ht IH]; simpl.
  - constructor; [split; assumption|constructor].
  - destruct (val_eqb k k'); constructor; auto; split; auto.
Qed.

Lemma assoc_del_inr : forall mark n k its, items_inr mark n its -> items_inr mark n (assoc_del k its).
Proof.
  intros mark n k its H. induction H as [|[k' v'] t AB Ht IH]; simpl; [constructor|].
  destruct (val_eqb k k'); [assumption|constructor; assumption].
Qed.

Lemma inv_set_field : forall st0 st v k x,
  inv st0 st -> inr (length st0) (length st) v -> inr (length st0) (length st) k ->
  inr (length st0) (length st) x -> inv st0 (set_field st v k x).
Proof.
  intros. unfold set_field. apply inv_set_items; auto.
  apply assoc_set_inr; auto. apply items_of_inr; auto.
Qed.

Lemma inv_del_field : forall st0 st v k,
  inv st0 st -> inr (length st0) (length st) v -> inv st0 (del_field st v k).
Proof.
  intros. unfold del_field. apply inv_set_items; auto. apply assoc_del_inr. apply items_of_inr; auto.
Qed.

Lemma inv_append_item : forall st0 st v x,
  inv st0 st -> inr (length st0) (length st) v -> inr (length st0) (length st) x -> inv st0 (append_item st v x).
Proof.
  intros. unfold append_item. apply inv_set_items; auto.
  unfold items_inr. apply Forall_app. split; [apply items_of_inr; auto|].
  constructor; [split; [exact I|assumption]|constructor].
Qed.

Lemma length_set_field : forall st v k x, length (set_field st v k x) = length st.
Proof. intros. apply length_set_items. Qed.
Lemma length_del_field : forall st v k, length (del_field st v k) = length st.
Proof. intros. apply length_set_items. Qed.
Lemma length_append_item : forall st v x, length (append_item st v x) = length st.
Proof. intros. apply length_set_items. Qed.

(* ---- deepcopy: allocates above the mark, leaves everything below untouched, the copy is closed ------------------- *)
Definition memo_inr (mark n : nat) (m : memo) : Prop := Forall (fun ab => (mark <= snd ab < n)%nat) m.

Lemma mlookup_inr : forall mark n m l l', memo_inr mark n m -> mlookup l m = Some l' -> (mark <= l' < n)%nat.
Proof.
  intros mark n m l l' H. induction H as [|[a b] t Hab Ht IH]; simpl; [discriminate|].
  destruct (Nat.eqb l a); [intros E; inversion E; subst; exact Hab|exact IH].
Qed.

Lemma memo_inr_mono : forall mark n n' m, memo_inr mark n m -> (n <= n')%nat -> memo_inr mark n' m.
Proof. intros. unfold memo_inr in *. eapply Forall_impl; [|eassumption]. simpl. intros. lia. Qed.

Ltac split4 := split; [|split; [|split]].

Definition dc_spec (st0 : store) (rec : store -> memo -> val -> dcres val) : Prop :=
  forall st m v st' m' v',
    inv st0 st -> memo_inr (length st0) (length st) m -> rec st m v = Some (st', m', v') ->
    inv st0 st' /\ memo_inr (length st0) (length st') m' /\ (length st <= length st')%nat /\
    (match v with VLoc _ => inr (length st0) (length st') v' | _ => v' = v end).

Lemma dc_items_spec : forall st0 rec, dc_spec st0 rec ->
  forall its st m st' m' its',
    inv st0 st -> memo_inr (length st0) (length st) m -> dc_items rec its st m = Some (st', m', its') ->
    inv st0 st' /\ memo_inr (length st0) (length st') m' /\ (length st <= length st')%nat /\
    items_inr (length st0) (length st') its'.
Proof.
  intros st0 rec Hrec. induction its as [|[k x] t IH]; intros st m st' m' its' Hinv Hm H; simpl in H.
  - inversion H; subst. split4; auto. constructor.
  - destruct (rec st m k) as [[[st1 m1] k']|] eqn:E1; [|discriminate].
    destruct (rec st1 m1 x) as [[[st2 m2] x']|] eqn:E2; [|discriminate].
    destruct (dc_items rec t st2 m2) as [[[st3 m3] t']|] eqn:E3; [|discriminate].
    inversion H; subst. clear H.
    destruct (Hrec _ _ _ _ _ _ Hinv Hm E1) as (I1 & M1 & L1 & V1).
    destruct (Hrec _ _ _ _ _ _ I1 M1 E2) as (I2 & M2 & L2 & V2).
    destruct (IH _ _ _ _ _ I2 M2 E3) as (I3 & M3 & L3 & V3).
    split4; auto; try lia.
    constructor; [|exact V3]. simpl. split.
    + destruct k; try (subst k'; exact I). eapply inr_mono; [exact V1|lia].
    + destruct x; try (subst x'; exact I). eapply inr_mono; [exact V2|lia].
Qed.

Lemma dcv_spec : forall st0 fuel, dc_spec st0 (dcv fuel).
Proof.
  intros st0. induction fuel as [|f IH]; intros st m v st' m' v' Hinv Hm H.
  - destruct v as [| | |l]; simpl in H; try (inversion H; subst; split4; auto; fail).
    destruct (mlookup l m) as [l'|] eqn:El; [|discriminate].
    inversion H; subst. split4; auto. simpl. eapply mlookup_inr; eauto.
  - destruct v as [| | |l]; simpl in H; try (inversion H; subst; split4; auto; fail).
    destruct (mlookup l m) as [l'|] eqn:El.
    + inversion H; subst. split4; auto. simpl. eapply mlookup_inr; eauto.
    + destruct (get st l) as [o|] eqn:Hg; [|discriminate].
      destruct (dc_items (dcv f) (o_items o) (st ++ [mkObj (o_kind o) []]) ((l, length st) :: m))
        as [[[st2 m2] its']|] eqn:E; [|discriminate].
      inversion H; subst. clear H.
      assert (Hempty : items_inr (length st0) (length st) (o_items (mkObj (o_kind o) []))) by constructor.
      destruct (inv_alloc st0 st (mkObj (o_kind o) []) Hinv Hempty) as [I1 V1].
      assert (M1 : memo_inr (length st0) (length (st ++ [mkObj (o_kind o) []])) ((l, length st) :: m)).
      { constructor; [simpl in *; exact V1|]. eapply memo_inr_mono; [exact Hm|]. rewrite app_length. lia. }
      destruct (dc_items_spec st0 (dcv f) IH _ _ _ _ _ _ I1 M1 E) as (I2 & M2 & L2 & V2).
      rewrite app_length in L2. simpl in L2.
      pose proof (inv_len _ _ Hinv) as Hl0.
      split; [|split; [|split]].
      * apply inv_upd; auto.
      * rewrite length_upd. exact M2.
      * rewrite length_upd. lia.
      * simpl. rewrite length_upd. lia.
Qed.

Theorem deepcopy_inv : forall st0 st fuel v st' v',
  inv st0 st -> deepcopy fuel st v = Some (st', v') ->
  inv st0 st' /\ (length st <= length st')%nat /\
  (match v with VLoc _ => inr (length st0) (length st') v' | _ => v' = v end).
Proof.
  intros st0 st fuel v st' v' Hinv H. unfold deepcopy in H.
  destruct (dcv fuel st [] v) as [[[st1 m1] v1]|] eqn:E; [|discriminate]. inversion H; subst.
  destruct (dcv_spec st0 fuel _ _ _ _ _ _ Hinv (Forall_nil _) E) as (A & _ & C & D). auto.
Qed.

(* ---- snapshots only depend on what is reachable; the old part of a well-formed store is self-contained ------------ *)
Lemma snap_agree : forall st st' fuel v,
  wf st -> agree_below (length st) st st' -> below (length st) v -> snap fuel st' v = snap fuel st v.
Proof.
  intros st st' fuel v Hwf Ha. revert v. induction fuel as [|f IH]; intros v Hv.
  - destruct v; reflexivity.
  - destruct v as [| | |l]; try reflexivity.
    cbn [snap]. simpl in Hv. rewrite (Ha l Hv). destruct (get st l) as [o|] eqn:Hg; [|reflexivity].
    f_equal. apply map_ext_in. intros [k x] Hin.
    specialize (Hwf l o Hg). unfold items_below in Hwf. rewrite Forall_forall in Hwf.
    destruct (Hwf _ Hin) as [A B]. cbn [fst snd] in *. rewrite (IH k A), (IH x B). reflexivity.
Qed.

(* ---- rebinding a slot to a value with the same snapshots changes no snapshot (up to the depth the agreement is known) -- *)
Lemma map_assoc_set_same : forall (f g : val * val -> tree * tree) k d old items,
  assoc k items = Some old ->
  (forall kv, In kv items -> f kv = g kv) ->
  (forall k', f (k', d) = g (k', old)) ->
  map f (assoc_set k d items) = map g items.
Proof.
  intros f g k d old items. induction items as [|[k' v'] t IH]; intros Ha Hfg Hd; simpl in *; [discriminate|].
  destruct (val_eqb k k') eqn:E.
  - inversion Ha; subst. simpl. f_equal; [apply Hd|]. apply map_ext_in. intros kv Hin. apply Hfg. right. exact Hin.
  - simpl. f_equal; [apply Hfg; left; reflexivity|]. apply IH; auto.
Qed.

Lemma snap_set_field_same : forall st h k d M,
  (match assoc k (items_of st h) with Some _ => True | None => False end) ->
  (forall m, (m <= M)%nat -> snap m st d = snap m st (field st h k)) ->
  forall n, (n <= S M)%nat -> forall v, snap n (set_field st h k d) v = snap n st v.
Proof.
  intros st h k d M Hhas Hsame.
  destruct h as [| | |l]; try (simpl in Hhas; contradiction).
  destruct (get st l) as [o|] eqn:Hg; [|simpl in Hhas; rewrite Hg in Hhas; simpl in Hhas; contradiction].
  assert (Hio : items_of st (VLoc l) = o_items o) by (simpl; rewrite Hg; reflexivity).
  rewrite Hio in Hhas. destruct (assoc k (o_items o)) as [old|] eqn:Ea; [|contradiction].
  assert (Hold : field st (VLoc l) k = old) by (unfold field; rewrite Hio, Ea; reflexivity).
  assert (Hst' : set_field st (VLoc l) k d = upd st l (mkObj (o_kind o) (assoc_set k d (o_items o)))).
  { unfold set_field, set_items. rewrite Hg, Hio. reflexivity. }
  rewrite Hst'. set (st' := upd st l (mkObj (o_kind o) (assoc_set k d (o_items o)))).
  induction n as [|n IH]; intros Hn v; [destruct v; reflexivity|].
  destruct v as [| | |l']; try reflexivity. cbn [snap].
  assert (IH' : forall x, snap n st' x = snap n st x) by (intros; apply IH; lia).
  destruct (Nat.eq_dec l l') as [<-|Hne].
  - unfold st'. rewrite get_upd_same by (eapply get_some_lt; eauto). rewrite Hg. cbn [o_kind o_items]. f_equal.
    apply (map_assoc_set_same _ _ k d old); auto.
    + intros [a b] _. cbn [fst snd]. fold st'. rewrite !IH'. reflexivity.
    + intros k'. cbn [fst snd]. fold st'. rewrite !IH'. f_equal. rewrite (Hsame n ltac:(lia)). rewrite Hold. reflexivity.
  - unfold st'. rewrite get_upd_other by assumption. destruct (get st l') as [o'|]; [|reflexivity]. f_equal.
    apply map_ext_in. intros [a b] _. cbn [fst snd]. fold st'. rewrite !IH'. reflexivity.
Qed.
