(* C08, round 4: the SAMI hop at DOCUMENT level (string level) and chains over all five formats at document level. *)
From Coq Require Import List ZArith QArith Lia Bool ZifyBool Arith.
From PV Require Import lib.Sx lib.Str lib.Result lib.Dec.
From PV Require Import model.TimeRead model.TimeWrite model.TimeTree model.XmlRead model.SamiText model.Chain.
From PV Require Import model.DfxpReadLines model.SamiWriteDoc model.SamiReadLines.
From PV Require Import spec.SpecTime spec.SpecTimeTree spec.SpecXmlDocT spec.SpecSamiText spec.SpecChain.
From PV Require Import proofs.TimeStrFacts proofs.XmlReadFacts proofs.SamiTextFacts proofs.SamiWriteDocFacts.
From PV Require Import proofs.ChainFacts proofs.ChainDocFacts proofs.ChainSrtDocFacts proofs.ChainVttDocFacts proofs.ChainDfxpDocFacts.
Import ListNotations.
Open Scope Z_scope.

(* ---- the items of the paragraphs of the written document -------------------------------------------------------------- *)
Fixpoint line_items (lines : list str) : list pit :=
  match lines with
  | [] => [PT (snl 3)]
  | [l] => [PT (snl 4 ++ l ++ snl 3)]
  | l :: t => PT (snl 4 ++ l) :: PB :: line_items t
  end.
Definition blank_items : list pit := [PT (snl 4 ++ [160] ++ snl 3)].
Definition ev_items (texts : list (list str)) (e : sev) : list pit :=
  match e with SCue _ i => line_items (nth i texts []) | SBlank _ => blank_items end.

Notation pfold := (fold_left pi_step).

Lemma pi_text_closed : forall w acc rest, pfold (text_tok w ++ rest) (acc, None) = pfold rest (acc, None).
Proof. intros [|c w] acc rest; reflexivity. Qed.

Lemma text_tok_slits : forall s, s <> [] -> text_tok (render_srun (slits s)) = [SText s].
Proof.
  intros s H. rewrite (text_tok_srun _ (schar_ok_slits s)), srun_val_slits. destruct s; [contradiction|reflexivity].
Qed.

Lemma pi_content : forall lines acc its rest,
  pfold (toks_content (swcontent lines) ++ rest) (acc, Some its) = pfold rest (acc, Some (its ++ line_items lines)).
Proof.
  induction lines as [|l t IH]; intros acc its rest.
  - unfold toks_content. cbn [swcontent fst snd flat_map app]. rewrite text_tok_slits by discriminate. reflexivity.
  - destruct t as [|l2 t].
    + unfold toks_content. cbn [swcontent fst snd flat_map app]. rewrite text_tok_slits by discriminate. reflexivity.
    + rewrite swcontent_cons2. unfold toks_content in *. cbn [fst snd flat_map]. rewrite text_tok_slits by discriminate.
      rewrite <- !app_assoc. cbn [app]. cbn [fold_left pi_step snd fst].
      change (str_eqb (lit "br") (lit "p")) with false. change (str_eqb (lit "br") (lit "sync")) with false.
      change (str_eqb (lit "br") (lit "br")) with true. cbv iota. cbn [snd fst].
      rewrite app_assoc. rewrite (IH acc _ rest). cbn [line_items]. rewrite <- !app_assoc. reflexivity.
Qed.

Lemma pi_blank : forall acc its rest,
  pfold (toks_content blank_content ++ rest) (acc, Some its) = pfold rest (acc, Some (its ++ blank_items)).
Proof. intros. reflexivity. Qed.

Lemma pi_ev_content : forall texts e acc its rest,
  pfold (toks_content (ev_content texts e) ++ rest) (acc, Some its) = pfold rest (acc, Some (its ++ ev_items texts e)).
Proof. intros texts [ms i|ms] acc its rest; cbn [ev_content ev_items]; [apply pi_content|apply pi_blank]. Qed.

Lemma pi_sync : forall lang texts e after acc rest, is_ws after = true ->
  pfold (toks_sync (wsync lang texts e after) ++ rest) (acc, None) = pfold rest (acc ++ [ev_items texts e], None).
Proof.
  intros lang texts e after acc rest Ha. unfold toks_sync, wsync, toks_par.
  cbn [ss_tag ss_ws ss_ps ss_close ss_after st_attrs flat_map sp_tag sp_content sp_close sp_after app].
  cbn [fold_left pi_step]. change (str_eqb (lit "sync") (lit "p")) with false.
  change (str_eqb (lit "sync") (lit "sync")) with true. cbv iota. cbn [pi_flush snd fst].
  rewrite <- !app_assoc. (etransitivity; [apply pi_text_closed|]). cbn [app]. cbn [fold_left pi_step].
  change (str_eqb (lit "p") (lit "p")) with true. cbv iota. cbn [pi_flush snd fst].
  rewrite <- !app_assoc. (etransitivity; [apply pi_ev_content|]). cbn [app]. cbn [fold_left pi_step].
  change (str_eqb (lit "p") (lit "p")) with true. cbn [orb]. cbv iota. cbn [pi_flush snd fst app].
  destruct after as [|x w]; reflexivity.
Qed.

Lemma pi_syncs : forall lang texts evs acc rest,
  pfold (flat_map toks_sync (wsyncs lang texts evs) ++ rest) (acc, None) = pfold rest (acc ++ map (ev_items texts) evs, None).
Proof.
  intros lang texts. induction evs as [|e t IH]; intros acc rest.
  - cbn [wsyncs flat_map app map]. rewrite app_nil_r. reflexivity.
  - destruct t as [|e2 t].
    + cbn [wsyncs flat_map map]. rewrite app_nil_r. apply pi_sync. reflexivity.
    + rewrite wsyncs_cons2. cbn [flat_map]. rewrite <- app_assoc, pi_sync by reflexivity. rewrite IH.
      cbn [map]. rewrite <- app_assoc. reflexivity.
Qed.

Lemma par_items_doc : forall lang cs,
  par_items (toks_doc (wsdoc lang cs)) = map (ev_items (map snd cs)) (sami_write (times_q cs)).
Proof.
  intros lang cs.
  assert (E : pfold (toks_doc (wsdoc lang cs)) ([], None)
              = (map (ev_items (map snd cs)) (sami_write (times_q cs)), None)).
  { unfold toks_doc, wsdoc. cbn [sd_open sd_ws sd_syncs sd_tail st_name st_attrs flat_map fst snd app].
    cbn [fold_left pi_step].
    change (str_eqb (lower (lit "body")) (lit "p")) with false. change (str_eqb (lower (lit "body")) (lit "sync")) with false.
    change (str_eqb (lower (lit "body")) (lit "br")) with false. cbv iota.
    etransitivity; [apply pi_text_closed|]. etransitivity; [apply pi_syncs|]. reflexivity. }
  unfold par_items. rewrite E. reflexivity.
Qed.

(* ---- the lines of the visible paragraphs ------------------------------------------------------------------------------ *)
Lemma items_lines_lines : forall lines, lines <> [] -> forallb clean_line lines = true ->
  items_lines (line_items lines) = Some lines.
Proof.
  induction lines as [|l t IH]; intros Hne H; [congruence|]. cbn [forallb] in H. apply andb_true_iff in H. destruct H as [Hl Ht].
  destruct t as [|l2 t].
  - cbn [line_items items_lines]. change (snl 4) with (DfxpWriteDoc.nl 4). change (snl 3) with (DfxpWriteDoc.nl 3).
    rewrite (string_text_line l _ Hl (or_intror eq_refl)). reflexivity.
  - change (line_items (l :: l2 :: t)) with (PT (snl 4 ++ l) :: PB :: line_items (l2 :: t)). cbn [items_lines].
    pose proof (string_text_line l [] Hl (or_introl eq_refl)) as E. rewrite app_nil_r in E.
    change (snl 4) with (DfxpWriteDoc.nl 4). rewrite E. rewrite (IH ltac:(discriminate) Ht). reflexivity.
Qed.

Lemma line_items_visible : forall lines, existsb has_visible_char lines = true -> visible (items_text (line_items lines)) = true.
Proof.
  intros lines H. rewrite visible_has. revert H. induction lines as [|l t IH]; intros H; [discriminate|].
  destruct t as [|l2 t].
  - cbn [existsb] in H. rewrite orb_false_r in H. cbn [line_items items_text flat_map]. rewrite app_nil_r.
    unfold has_visible_char in *. rewrite !existsb_app, H, orb_true_r. reflexivity.
  - change (line_items (l :: l2 :: t)) with (PT (snl 4 ++ l) :: PB :: line_items (l2 :: t)).
    unfold items_text in *. cbn [flat_map app]. unfold has_visible_char in *. rewrite !existsb_app.
    cbn [existsb] in H. apply orb_true_iff in H. destruct H as [H|H].
    + rewrite H, !orb_true_r. reflexivity.
    + rewrite (IH H), !orb_true_r. reflexivity.
Qed.

Lemma clean_lines_parts : forall ls, clean_lines ls = true ->
  ls <> [] /\ forallb clean_line ls = true /\ existsb has_visible_char ls = true.
Proof.
  intros ls H. unfold clean_lines in H. destruct ls as [|l t]; [discriminate|]. repeat split; [discriminate|exact H|].
  cbn [forallb] in H. apply andb_true_iff in H. destruct H as [Hl _]. cbn [existsb]. rewrite (clean_line_visible l Hl). reflexivity.
Qed.

Notation vis_items := (fun its => visible (items_text its)).

Lemma cue_lines : forall T caps last k,
  (forall i, (k <= i < k + length caps)%nat -> clean_lines (nth i T []) = true) ->
  opt_all (map items_lines (filter vis_items (map (ev_items T) (sami_events caps last k))))
  = Some (map (fun i => nth i T []) (seq k (length caps))).
Proof.
  intros T. induction caps as [|[s e] t IH]; intros last k H; [reflexivity|].
  cbn [sami_events]. rewrite map_app, filter_app, map_app.
  assert (B : filter vis_items (map (ev_items T) (match last with
                                                  | Some l => if negb (sami_ms s =? l) then [SBlank l] else []
                                                  | None => [] end)) = []).
  { destruct last as [l|]; [|reflexivity]. destruct (negb (sami_ms s =? l)); reflexivity. }
  rewrite B. cbn [map app filter ev_items length seq].
  destruct (clean_lines_parts _ (H k ltac:(cbn [length]; lia))) as (N & C & V).
  rewrite (line_items_visible _ V). cbn [map opt_all]. rewrite (items_lines_lines _ N C).
  rewrite (IH (Some (sami_ms e)) (S k)); [reflexivity|]. intros i Hi. apply H. cbn [length]. lia.
Qed.

Lemma map_nth_seq : forall (A : Type) (l : list A) d, map (fun i => nth i l d) (seq 0 (length l)) = l.
Proof.
  intros A l d. induction l as [|a l IH]; [reflexivity|]. cbn [length seq map nth]. f_equal.
  rewrite <- seq_shift, map_map. exact IH.
Qed.

(* ---- one SAMI hop at document level ------------------------------------------------------------------------------------ *)
Lemma set_last_end_length : forall l, length (set_last_end l) = length l.
Proof. induction l as [|c [|c' t] IH]; [reflexivity|reflexivity|]. rewrite set_last_end_cons2. cbn [length] in *. rewrite IH. reflexivity. Qed.

Definition retimed (ts : list cue) (cs : list (Z * Z * list str)) : list (Z * Z * list str) :=
  map (fun tl : (Z * Z) * list str => (fst (fst tl), snd (fst tl), snd tl)) (combine ts (map snd cs)).

Lemma retimed_parts : forall ts cs, length ts = length cs ->
  times_of_caps (retimed ts cs) = ts /\ map snd (retimed ts cs) = map snd cs.
Proof.
  induction ts as [|[a b] ts IH]; intros [|c cs] H; try discriminate; [split; reflexivity|].
  cbn [length] in H. destruct (IH cs ltac:(lia)) as [I1 I2]. unfold retimed, times_of_caps in *. cbn [map combine fst snd].
  split; [rewrite I1|rewrite I2]; reflexivity.
Qed.

Lemma text_dom_visible : forall cs, text_dom cs = true -> lines_visible cs = true.
Proof.
  intros cs H. unfold text_dom, lines_visible in *. revert H. induction cs as [|c cs IH]; [reflexivity|].
  cbn [forallb]. intros H. apply andb_true_iff in H. destruct H as [Hc Hcs].
  destruct (clean_lines_parts _ Hc) as (_ & _ & V). rewrite V, (IH Hcs). reflexivity.
Qed.

Theorem sami_roundtrip_string : forall cs lo, cs <> [] -> 0 <= lo -> dom_u 1000 lo (times_of_caps cs) -> text_dom cs = true ->
  hop_doc FSami cs = Ok (retimed (pi FSami (times_of_caps cs)) cs).
Proof.
  intros cs lo Hne Hlo D T. cbn [hop_doc pi]. unfold sami_read_lines.
  change [(lower (lit "en-US"), lit "en-US")] with (sstyles (lit "en-US")).
  rewrite (sami_document_string [] (lit "en-US") cs lo Hne Hlo D (text_dom_visible cs T)).
  unfold sami_body_text.
  assert (OK : sdoc_ok [] (sstyles (lit "en-US")) (wsdoc (lit "en-US") cs) = true).
  { assert (A : map ev_abs (sami_write (times_q cs)) = sami_abs (times_of_caps cs)) by (rewrite times_q_cue; apply sami_spec_abs).
    unfold sdoc_ok, wsdoc. cbn [sd_open sd_ws sd_syncs sd_tail st_name st_attrs st_end].
    rewrite (wsyncs_ok [] (lit "en-US") (map snd cs) (sami_write (times_q cs))); [reflexivity|].
    intros e He. assert (N : 0 <= fst (ev_abs e)).
    { apply (dom_u_nonneg_ms (times_of_caps cs) lo Hlo D). rewrite <- A. apply in_map. exact He. }
    destruct e; exact N. }
  rewrite (stoks_doc [] (sstyles (lit "en-US")) _ OK), par_items_doc.
  unfold sami_write. rewrite cue_lines.
  - assert (L : length (map (fun c : scap => (inject_Z (fst (fst c)), inject_Z (snd (fst c)))) cs) = length (map snd cs))
      by (rewrite !map_length; reflexivity).
    unfold times_q. rewrite L, map_nth_seq, map_length, set_last_end_length, map_length.
    unfold times_of_caps at 1. rewrite !map_length, Nat.eqb_refl. reflexivity.
  - intros i Hi. unfold times_q in Hi. rewrite map_length in Hi. unfold text_dom in T. rewrite forallb_forall in T.
    destruct Hi as [_ Hi]. cbn [Nat.add] in Hi.
    assert (Hi' : (i < length (map snd cs))%nat) by (rewrite map_length; exact Hi).
    rewrite (nth_indep _ [] (snd (nth i cs (0, 0, []))) Hi'). rewrite map_nth. apply T. apply nth_In. exact Hi.
Qed.

(* ---- chains over all five formats at document level: times AND text ------------------------------------------------ *)
Lemma dom_u_1000_of_40000 : forall cs lo, dom_u 40000 lo cs -> dom_u 1000 lo cs.
Proof.
  induction cs as [|[s e] t IH]; intros lo D; [exact I|]. cbn [dom_u] in *. destruct D as (D1 & D2 & D3 & D4 & D5).
  repeat split; try lia. apply IH. exact D5.
Qed.

Theorem run_doc_text5 : forall chain cs lo, cs <> [] -> 0 <= lo ->
  dom_u 40000 lo (times_of_caps cs) -> text_dom cs = true -> srt_text_dom cs = true -> vtt_text_dom cs = true ->
  exists out, run_doc chain cs = Ok out /\ times_of_caps out = run chain (times_of_caps cs) /\ map snd out = map snd cs.
Proof.
  induction chain as [|f t IH]; intros cs lo Hne Hlo D T1 T2 T3.
  - exists cs. repeat split.
  - assert (HOP : exists o1, hop_doc f cs = Ok o1 /\ times_of_caps o1 = pi f (times_of_caps cs) /\ map snd o1 = map snd cs).
    { destruct f.
      - exists (floor_caps 1000 cs). cbn [hop_doc]. rewrite (srt_roundtrip_string cs (dom_u_1000 _ lo Hlo D) T2). fold (floor_caps 1000 cs).
        split; [unfold read_result, floor_caps; destruct cs; [congruence|reflexivity]|].
        split; [apply floor_caps_times|apply floor_caps_texts].
      - exists (floor_caps 1000 cs). cbn [hop_doc]. rewrite (vtt_roundtrip_string cs (dom_u_1000 _ lo Hlo D) T3).
        split; [unfold read_result, floor_caps; destruct cs; [congruence|reflexivity]|].
        split; [apply floor_caps_times|apply floor_caps_texts].
      - exists (floor_caps 1000 cs). split; [apply dfxp_roundtrip_string; [exact Hne|exact (dom_u_in_day 40000 lo cs Hlo ltac:(lia) D)|exact T1]|].
        split; [apply floor_caps_times|apply floor_caps_texts].
      - exists (retimed (pi FSami (times_of_caps cs)) cs).
        split; [exact (sami_roundtrip_string cs lo Hne Hlo (dom_u_1000_of_40000 _ _ D) T1)|].
        apply retimed_parts. cbn [pi]. rewrite set_last_end_length, map_length. unfold times_of_caps. apply map_length.
      - exists (floor_caps 40000 cs). cbn [hop_doc]. rewrite (mdvd_roundtrip_string cs (dom_u_weaken 40000 lo 0 _ Hlo D) T1). fold (floor_caps 40000 cs).
        split; [unfold read_result, floor_caps; destruct cs; [congruence|reflexivity]|].
        split; [apply floor_caps_times|apply floor_caps_texts]. }
    destruct HOP as (o1 & H1 & H2 & H3).
    assert (Uf : unit_of f <= 40000) by (destruct f; cbn; lia).
    destruct (hop_exact f 40000 lo (times_of_caps cs) (or_intror eq_refl) Uf Hlo D) as [_ D'].
    rewrite <- H2 in D'.
    assert (Hne' : o1 <> []).
    { intros E. subst o1. destruct cs; [congruence|discriminate H3]. }
    assert (Hlo' : 0 <= fl (unit_of f) lo) by (unfold fl; destruct f; cbn [unit_of]; lia).
    destruct (IH o1 (fl (unit_of f) lo) Hne' Hlo' D') as [out [R1 [R2 R3]]].
    + unfold text_dom. rewrite (forallb_snd clean_lines _ cs H3). exact T1.
    + unfold srt_text_dom. rewrite (forallb_snd srt_lines_ok _ cs H3). exact T2.
    + unfold vtt_text_dom. rewrite (forallb_snd (fun ls => clean_lines ls && vtt_lines_ok ls) _ cs H3). exact T3.
    + exists out. cbn [run_doc]. rewrite H1. split; [exact R1|]. split.
      * rewrite R2, H2. reflexivity.
      * rewrite R3. exact H3.
Qed.
