(* C20 own output FROM THE TEXT NODES (wave 7): the writer models of model/OwnWrite.v produce documents that the model
   of detect_format recognises as their own format, for every caption set of the domain of spec/SpecOwnNodes.v.
   SRT and MicroDVD here; WebVTT in DetectVttFacts.v. *)
From Coq Require Import List ZArith Bool Lia ZifyBool.
From PV Require Import lib.Sx lib.Str lib.Result lib.Dec lib.StrSplit model.Generated model.Detect spec.SpecDetect
  spec.SpecOwn model.OwnWrite spec.SpecOwnNodes proofs.DetectFacts proofs.DetectOwnFacts.
Import ListNotations.
Open Scope Z_scope.
#[local] Ltac Zify.zify_post_hook ::= Z.to_euclidean_division_equations.

(* ---------------- occurrences in parts ---------------- *)
Lemma has_part : forall m lw p s, part p s -> has m lw p = true -> has m lw s = true.
Proof.
  intros m lw p s [a [b ->]] H. unfold has in *. destruct lw.
  - rewrite !u_lower_app. apply is_infix_app_r. apply is_infix_app_l. exact H.
  - apply is_infix_app_r. apply is_infix_app_l. exact H.
Qed.

Lemma free_part : forall ms p s, part p s -> free ms s = true -> free ms p = true.
Proof.
  intros ms p s Hp H. apply free_spec. intros m lw Hin.
  destruct (has m lw p) eqn:E; [|reflexivity].
  pose proof (has_part m lw p s Hp E) as H1.
  rewrite (proj1 (free_spec ms s) H m lw Hin) in H1. discriminate.
Qed.

Lemma free_sep_nl : forall ms a b, markers_ok ms = true -> free ms a = true -> free ms b = true ->
  free ms (a ++ 10 :: b) = true.
Proof.
  intros ms a b Hok Ha Hb. apply free_spec. intros m lw Hin.
  destruct (markers_ok_spec ms m lw Hok Hin) as [Hm Hn].
  destruct (has m lw (a ++ 10 :: b)) eqn:E; [|reflexivity].
  destruct (has_sep_nl m lw a b Hm Hn E) as [H|H].
  - rewrite (proj1 (free_spec ms a) Ha m lw Hin) in H. discriminate.
  - rewrite (proj1 (free_spec ms b) Hb m lw Hin) in H. discriminate.
Qed.

Lemma forallb_impl : forall (P Q : Z -> bool) s, (forall c, P c = true -> Q c = true) -> forallb P s = true ->
  forallb Q s = true.
Proof.
  intros P Q s H Hs. rewrite forallb_forall in *. intros c Hc. apply H. apply Hs. exact Hc.
Qed.

(* ---------------- SRT: the cue text ---------------- *)
(* strip, split on '\n', blank lines dropped, joined again: no marker that lacks '\n' can appear *)
Lemma srt_clean_free : forall ms raw, markers_ok ms = true -> free ms raw = true -> free ms (srt_clean raw) = true.
Proof.
  intros ms raw Hok Hraw. apply free_spec. intros m lw Hin.
  destruct (markers_ok_spec ms m lw Hok Hin) as [Hm Hn].
  destruct (has m lw (srt_clean raw)) eqn:E; [|reflexivity]. exfalso.
  unfold srt_clean in E. destruct (has_join _ _ _ Hm Hn E) as [p [Hp Hh]].
  apply filter_In in Hp. destruct Hp as [Hp _]. apply split_ch_part in Hp.
  pose proof (has_part m lw p raw (part_trans _ _ _ Hp (strip_part raw)) Hh) as H1.
  rewrite (proj1 (free_spec ms raw) Hraw m lw Hin) in H1. discriminate.
Qed.

(* ---------------- SRT: the timing line ---------------- *)
Definition time_char (c : Z) : bool :=
  is_digit c || (c =? 58) || (c =? 44) || (c =? 46) || (c =? 32) || (c =? 45) || (c =? 62).

Lemma time_class_plain : class_plain time_char = true.
Proof. vm_compute. reflexivity. Qed.

Lemma digits_time : forall s, forallb is_digit s = true -> forallb time_char s = true.
Proof. intros s. apply forallb_impl. intros c H. unfold time_char. rewrite H. reflexivity. Qed.

Lemma td_seconds_range : forall us, 0 <= td_seconds us < 86400.
Proof. intros us. unfold td_seconds. lia. Qed.
Lemma td_millis_range : forall us, 0 <= td_millis us < 1000.
Proof. intros us. unfold td_millis. lia. Qed.

Lemma srt_timestamp_class : forall us, forallb time_char (srt_timestamp us) = true.
Proof.
  intros us. unfold srt_timestamp. pose proof (td_seconds_range us) as Hs. pose proof (td_millis_range us) as Hm.
  set (s := td_seconds us) in *. set (ms := td_millis us) in *.
  rewrite !forallb_app.
  rewrite (digits_time _ (two_digits (s / 3600) ltac:(lia))).
  rewrite (digits_time _ (two_digits ((s mod 3600) / 60) ltac:(lia))).
  rewrite (digits_time _ (two_digits ((s mod 3600) mod 60) ltac:(lia))).
  rewrite (digits_time _ (three_digits ms ltac:(lia))). reflexivity.
Qed.

Lemma srt_timing_class : forall c, forallb time_char (srt_timing c) = true.
Proof. intros c. unfold srt_timing. rewrite !forallb_app, !srt_timestamp_class. reflexivity. Qed.

Lemma time_no_linebreak : forall s, forallb time_char s = true -> no_linebreak s = true.
Proof.
  intros s. unfold no_linebreak. apply forallb_impl. intros c H.
  unfold time_char, is_digit in H. unfold is_linebreak. lia.
Qed.

Lemma srt_timing_first_ok : forall c, srt_first_ok (srt_timing c) = true.
Proof.
  intros c. unfold srt_first_ok. rewrite (time_no_linebreak _ (srt_timing_class c)). cbn [andb].
  unfold srt_timing. apply is_infix_app_r.
  change (lit " --> " ++ srt_timestamp (oc_end c)) with ([32] ++ (srt_arrow ++ 32 :: srt_timestamp (oc_end c))).
  apply is_infix_app_r. apply is_infix_self_app.
Qed.

Lemma srt_timing_free : forall c, free before_srt (srt_timing c) = true.
Proof.
  intros c. apply (class_free_srt time_char _ time_class_plain (srt_timing_class c)); reflexivity.
Qed.

(* ---------------- SRT: merged captions keep the domain ---------------- *)
Definition cap_free (ms : list (str * bool)) (c : ocap) : bool := free ms (cap_text c).

Lemma srt_merge_from_free : forall l last, cap_free before_srt last = true -> forallb (cap_free before_srt) l = true ->
  forallb (cap_free before_srt) (srt_merge_from last l) = true.
Proof.
  induction l as [|c t IH]; intros last Hl H.
  - cbn [srt_merge_from forallb]. rewrite Hl. reflexivity.
  - cbn [forallb] in H. apply andb_true_iff in H. destruct H as [Hc Ht].
    cbn [srt_merge_from]. destruct (same_span c last).
    + apply IH; [|exact Ht]. unfold cap_free, cap_text in *. cbn [oc_nodes].
      rewrite flat_map_app. cbn [flat_map node_text app].
      apply (free_sep_nl _ _ _ markers_ok_srt Hl Hc).
    + cbn [forallb]. rewrite Hl. cbn [andb]. apply IH; assumption.
Qed.

Lemma srt_merge_free : forall l, forallb (cap_free before_srt) l = true ->
  forallb (cap_free before_srt) (srt_merge l) = true.
Proof.
  intros [|c t] H; [reflexivity|]. cbn [forallb] in H. apply andb_true_iff in H. destruct H as [Hc Ht].
  apply srt_merge_from_free; assumption.
Qed.

Lemma srt_merge_from_cons : forall l last, exists c t, srt_merge_from last l = c :: t.
Proof.
  induction l as [|c t IH]; intros last; [cbn; eauto|].
  cbn [srt_merge_from]. destruct (same_span c last); [apply IH|eauto].
Qed.

Lemma srt_cues_ok : forall l, forallb (cap_free before_srt) l = true -> forallb srt_cue_ok (map srt_cue l) = true.
Proof.
  induction l as [|c t IH]; intros H; [reflexivity|].
  cbn [forallb] in H. apply andb_true_iff in H. destruct H as [Hc Ht].
  cbn [map forallb]. rewrite (IH Ht), andb_true_r.
  unfold srt_cue_ok, srt_cue. cbn [fst snd]. rewrite srt_timing_free. cbn [andb].
  apply (srt_clean_free _ _ markers_ok_srt Hc).
Qed.

(* ---------------- SRT: the document of one language, as newline-terminated pieces ---------------- *)
Lemma srt_blocks_w_eq : forall cues k, srt_blocks_w k cues = srt_blocks k cues.
Proof. induction cues as [|[tl txt] t IH]; intros k; [reflexivity|]. cbn [srt_blocks_w srt_blocks]. rewrite IH. reflexivity. Qed.

Lemma srt_lang_document : forall caps, srt_lang caps = srt_document (map srt_cue (srt_merge caps)).
Proof. intros caps. unfold srt_lang, srt_document, drop_last. cbv zeta. rewrite srt_blocks_w_eq. reflexivity. Qed.

Definition nl_lines (P : list str) : str := concat (map (fun p => p ++ [10]) P).

Lemma srt_pieces_last : forall cues k, cues <> [] -> exists P, srt_pieces k cues = P ++ [[]].
Proof.
  induction cues as [|[tl txt] t IH]; intros k H; [congruence|].
  destruct t as [|c t'].
  - exists [dec_z k; tl; txt]. reflexivity.
  - destruct (IH (k + 1) ltac:(discriminate)) as [P HP]. exists (dec_z k :: tl :: txt :: [] :: P).
    cbn [srt_pieces] in *. rewrite HP. reflexivity.
Qed.

Lemma srt_document_pieces : forall cues, forallb srt_cue_ok cues = true ->
  exists P, srt_document cues = nl_lines P /\ forallb (free before_srt) P = true.
Proof.
  intros cues H. destruct cues as [|c t].
  - exists []. split; reflexivity.
  - destruct (srt_pieces_last (c :: t) 1 ltac:(discriminate)) as [P HP].
    pose proof (srt_pieces_free (c :: t) 1 ltac:(lia) H) as Hf. rewrite HP, forallb_app in Hf.
    apply andb_true_iff in Hf. destruct Hf as [Hf _].
    exists P. split; [|exact Hf].
    unfold srt_document. rewrite srt_blocks_lines, HP, map_app, concat_app. cbn [map concat app].
    rewrite drop_last_app by discriminate. unfold drop_last. cbn. rewrite app_nil_r. reflexivity.
Qed.

Lemma nl_lines_app : forall P Q, nl_lines (P ++ Q) = nl_lines P ++ nl_lines Q.
Proof. intros. unfold nl_lines. rewrite map_app, concat_app. reflexivity. Qed.

(* all languages, joined by the separator line *)
Lemma srt_join_pieces : forall docs,
  (forall d, In d docs -> exists P, d = nl_lines P /\ forallb (free before_srt) P = true) ->
  exists P, join srt_sep docs = nl_lines P /\ forallb (free before_srt) P = true.
Proof.
  induction docs as [|d t IH]; intros H.
  - exists []. split; reflexivity.
  - destruct (H d (or_introl eq_refl)) as [P [HP HfP]].
    destruct t as [|d' t'].
    + exists P. split; [exact HP|exact HfP].
    + destruct (IH (fun x Hx => H x (or_intror Hx))) as [Q [HQ HfQ]].
      exists (P ++ [lit "MULTI-LANGUAGE SRT"] ++ Q). split.
      * rewrite join_cons2, HQ, HP, !nl_lines_app. unfold srt_sep. reflexivity.
      * rewrite !forallb_app, HfP, HfQ. reflexivity.
Qed.

Lemma caps_free_lang : forall ms langs l, caps_free ms langs = true -> In l langs -> forallb (cap_free ms) l = true.
Proof. intros ms langs l H Hin. unfold caps_free in H. rewrite forallb_forall in H. apply (H l Hin). Qed.

Lemma srt_write_free : forall langs, caps_free before_srt langs = true -> free before_srt (srt_write langs) = true.
Proof.
  intros langs H. unfold srt_write.
  destruct (srt_join_pieces (map srt_lang langs)) as [P [HP Hf]].
  - intros d Hd. apply in_map_iff in Hd. destruct Hd as [l [<- Hl]].
    rewrite srt_lang_document. apply srt_document_pieces. apply srt_cues_ok. apply srt_merge_free.
    apply (caps_free_lang _ _ _ H Hl).
  - rewrite HP. apply (free_lines _ _ markers_ok_srt Hf).
Qed.

(* ---------------- SRT: detection from the first two lines of a marker-free document ---------------- *)
Lemma detect_srt_shape : forall tl rest, no_linebreak tl = true -> is_infix srt_arrow tl = true ->
  free before_srt ([49] ++ 10 :: tl ++ 10 :: rest) = true ->
  detect_format ([49] ++ 10 :: tl ++ 10 :: rest) = Ok (Some R_SRT).
Proof.
  intros tl rest Hnl Harrow Hfree.
  destruct (free_srt_parts _ Hfree) as [F1 [F2 F3]].
  rewrite detect_format_cascade by discriminate.
  cbn [first_match detect_of].
  rewrite detect_dfxp_has, F1. cbn [bind].
  assert (Hm : detect_mdvd ([49] ++ 10 :: tl ++ 10 :: rest) = Ok false) by reflexivity.
  rewrite Hm. cbn [bind].
  rewrite detect_vtt_has, F2. cbn [bind].
  rewrite detect_sami_has, F3. cbn [bind].
  unfold detect_srt.
  rewrite (splitlines_line [49] _ eq_refl), (splitlines_line tl _ Hnl).
  change (u_isdigit [49]) with true. cbn iota. rewrite Harrow. reflexivity.
Qed.

(* the document starts with "1", the timing line of the first (merged) caption, and its text *)
Lemma srt_write_shape : forall c t langs, exists tl rest,
  srt_write ((c :: t) :: langs) = [49] ++ 10 :: tl ++ 10 :: rest /\ srt_first_ok tl = true.
Proof.
  intros c t langs. unfold srt_write. cbn [map]. rewrite srt_lang_document.
  destruct (srt_merge_from_cons t c) as [c0 [t0 Hm]]. cbn [srt_merge]. rewrite Hm. cbn [map].
  set (txt := snd (srt_cue c0)). set (rest0 := map srt_cue t0).
  assert (Hshape : srt_document (srt_cue c0 :: rest0)
                   = [49] ++ 10 :: srt_timing c0 ++ 10 :: drop_last (txt ++ [10; 10] ++ srt_blocks 2 rest0)).
  { assert (E : srt_blocks 1 (srt_cue c0 :: rest0)
                = ([49] ++ [10] ++ srt_timing c0 ++ [10]) ++ (txt ++ [10; 10] ++ srt_blocks 2 rest0)).
    { unfold srt_cue at 1. cbn [srt_blocks]. change (dec_z 1) with [49]. change (1 + 1) with 2.
      rewrite <- !app_assoc. reflexivity. }
    unfold srt_document. rewrite E, drop_last_app by (destruct txt; discriminate).
    rewrite <- !app_assoc. reflexivity. }
  exists (srt_timing c0). destruct (map srt_lang langs) as [|d ds].
  - eexists. split; [cbn [join]; exact Hshape|apply srt_timing_first_ok].
  - eexists. split; [|apply srt_timing_first_ok]. rewrite join_cons2, Hshape.
    cbn [app]. rewrite <- !app_assoc. cbn [app]. reflexivity.
Qed.

Theorem own_nodes_srt : forall langs, srt_dom langs = true ->
  detect_format (srt_write langs) = Ok (Some R_SRT).
Proof.
  intros langs H. unfold srt_dom in H. apply andb_true_iff in H. destruct H as [Hne Hfree].
  destruct langs as [|[|c t] langs]; try discriminate.
  pose proof (srt_write_free _ Hfree) as F.
  destruct (srt_write_shape c t langs) as [tl [rest [Hs Hok]]].
  unfold srt_first_ok in Hok. apply andb_true_iff in Hok. destruct Hok as [Hnl Harrow].
  rewrite Hs in F |- *. apply (detect_srt_shape tl rest Hnl Harrow F).
Qed.

(* ---------------- MicroDVD: line ends and breaks written as '|' ---------------- *)
Definition lowr (lw : bool) (s : str) : str := if lw then u_lower s else s.
Lemma lowr_app : forall lw a b, lowr lw (a ++ b) = lowr lw a ++ lowr lw b.
Proof. intros [|] a b; [apply u_lower_app|reflexivity]. Qed.
Lemma lowr_bar : forall lw s, lowr lw (124 :: s) = 124 :: lowr lw s.
Proof. intros [|] s; reflexivity. Qed.

(* every occurrence of m in (anything ++ X) is matched by one in (the same ++ Y) *)
Definition occ_le (m : str) (lw : bool) (X Y : str) : Prop :=
  forall p, is_infix m (p ++ lowr lw X) = true -> is_infix m (p ++ lowr lw Y) = true.

Lemma occ_le_refl : forall m lw X, occ_le m lw X X.
Proof. intros m lw X p H. exact H. Qed.

Lemma occ_le_app : forall m lw a X Y, occ_le m lw X Y -> occ_le m lw (a ++ X) (a ++ Y).
Proof.
  intros m lw a X Y H p Hp. rewrite lowr_app, app_assoc in *. apply H. exact Hp.
Qed.

(* a '|' that stands for a line end q *)
Lemma occ_le_bar : forall m lw q X Y, m <> [] -> ~ In 124 m -> occ_le m lw X Y -> occ_le m lw (124 :: X) (q ++ Y).
Proof.
  intros m lw q X Y Hm Hb H p Hp. rewrite lowr_bar in Hp.
  destruct (is_infix_sep m p 124 _ Hm Hb Hp) as [H1|H1].
  - apply is_infix_app_l. exact H1.
  - apply is_infix_app_r. rewrite lowr_app. apply is_infix_app_r. apply (H [] H1).
Qed.

Lemma mdvd_sub_le : forall m lw, m <> [] -> ~ In 124 m -> forall n s, (length s <= n)%nat ->
  forall X Y, occ_le m lw X Y -> occ_le m lw (mdvd_sub s ++ X) (s ++ Y).
Proof.
  intros m lw Hm Hb. induction n as [|n IH]; intros s Hlen X Y H.
  - destruct s; [exact H|cbn in Hlen; lia].
  - destruct s as [|c t]; [exact H|]. cbn [length] in Hlen. cbn [mdvd_sub].
    destruct (c =? 13) eqn:E13.
    + destruct t as [|c2 t2].
      * cbn [app]. change (c :: Y) with ([c] ++ Y). apply (occ_le_bar m lw [c] X Y Hm Hb H).
      * destruct (c2 =? 10).
        -- cbn [app]. change (c :: c2 :: t2 ++ Y) with ([c; c2] ++ (t2 ++ Y)).
           apply (occ_le_bar m lw _ _ _ Hm Hb). apply IH; [cbn [length] in Hlen; lia|exact H].
        -- cbn [app]. change (c :: c2 :: t2 ++ Y) with ([c] ++ ((c2 :: t2) ++ Y)).
           apply (occ_le_bar m lw _ _ _ Hm Hb). apply IH; [lia|exact H].
    + destruct (c =? 10).
      * cbn [app]. change (c :: t ++ Y) with ([c] ++ (t ++ Y)).
        apply (occ_le_bar m lw _ _ _ Hm Hb). apply IH; [lia|exact H].
      * cbn [app]. change (c :: mdvd_sub t ++ X) with ([c] ++ (mdvd_sub t ++ X)).
        change (c :: t ++ Y) with ([c] ++ (t ++ Y)). apply occ_le_app. apply IH; [lia|exact H].
Qed.

Lemma mdvd_nodes_le : forall m lw, m <> [] -> ~ In 124 m -> forall ns,
  occ_le m lw (flat_map mdvd_node ns) (flat_map node_text ns).
Proof.
  intros m lw Hm Hb. induction ns as [|n t IH]; [apply occ_le_refl|].
  cbn [flat_map]. destruct n as [s| |st i u b]; cbn [mdvd_node node_text].
  - apply (mdvd_sub_le m lw Hm Hb (length s) s (le_n _) _ _ IH).
  - cbn [app]. change (10 :: flat_map node_text t) with ([10] ++ flat_map node_text t).
    apply (occ_le_bar m lw _ _ _ Hm Hb IH).
  - exact IH.
Qed.

Lemma mdvd_raw_has : forall m lw c, m <> [] -> ~ In 124 m -> has m lw (mdvd_raw c) = true -> has m lw (cap_text c) = true.
Proof.
  intros m lw c Hm Hb H. unfold has in *. apply (mdvd_nodes_le m lw Hm Hb (oc_nodes c) [] H).
Qed.

Lemma mdvd_clean_part : forall raw, part (mdvd_clean raw) raw.
Proof. intros raw. unfold mdvd_clean. apply (part_trans _ (strip raw)); [apply rstrip_by_part|apply strip_part]. Qed.

Lemma mdvd_clean_free : forall c, free before_mdvd (cap_text c) = true ->
  free before_mdvd (mdvd_clean (mdvd_raw c)) = true.
Proof.
  intros c H. apply free_spec. intros m lw Hin. cbn in Hin. destruct Hin as [E|[]]. injection E as <- <-.
  destruct (has dfxp_marker true (mdvd_clean (mdvd_raw c))) eqn:Eh; [|reflexivity]. exfalso.
  pose proof (has_part _ _ _ _ (mdvd_clean_part (mdvd_raw c)) Eh) as H1.
  assert (Hb : ~ In 124 dfxp_marker) by (vm_compute; intuition discriminate).
  pose proof (mdvd_raw_has dfxp_marker true c ltac:(discriminate) Hb H1) as H2.
  rewrite (proj1 (free_spec before_mdvd _) H dfxp_marker true (or_introl eq_refl)) in H2. discriminate.
Qed.

(* ---------------- MicroDVD: the frame prefix ---------------- *)
Lemma digits_frame : forall s, forallb is_digit s = true -> forallb frame_char s = true.
Proof. intros s. apply forallb_impl. intros c H. unfold frame_char. rewrite H. reflexivity. Qed.

Lemma dec_frame_digits : forall us, 0 <= us -> ascii_digits (dec_z (mdvd_frame us)) = true.
Proof.
  intros us H. unfold mdvd_frame, dec_z. replace (us / 40000 <? 0) with false by lia.
  unfold ascii_digits. pose proof (dec_nonneg_nonempty (us / 40000)) as Hne.
  destruct (dec_nonneg (us / 40000)) eqn:E; [congruence|]. rewrite <- E. apply dec_nonneg_digits. lia.
Qed.

Lemma ascii_digits_forall : forall d, ascii_digits d = true -> forallb is_digit d = true.
Proof. intros [|c d] H; [discriminate|exact H]. Qed.

Lemma mdvd_cue_ok_of : forall c, 0 <= oc_start c -> 0 <= oc_end c -> free before_mdvd (cap_text c) = true ->
  mdvd_cue_ok (mdvd_cue c) = true.
Proof.
  intros c Hs He Hf. unfold mdvd_cue_ok, mdvd_cue. cbn [fst snd]. rewrite (mdvd_clean_free c Hf), andb_true_r.
  unfold mdvd_prefix. rewrite !forallb_app.
  rewrite (digits_frame _ (ascii_digits_forall _ (dec_frame_digits _ Hs))).
  rewrite (digits_frame _ (ascii_digits_forall _ (dec_frame_digits _ He))). reflexivity.
Qed.

(* ---------------- MicroDVD: the document ---------------- *)
Lemma mdvd_lang_document : forall caps, mdvd_lang caps = mdvd_document (map mdvd_cue caps).
Proof. intros caps. unfold mdvd_lang, mdvd_document. rewrite map_map. reflexivity. Qed.

Lemma mdvd_document_app : forall a b, mdvd_document (a ++ b) = mdvd_document a ++ mdvd_document b.
Proof. intros a b. unfold mdvd_document. rewrite map_app, concat_app. reflexivity. Qed.

Lemma mdvd_write_document : forall langs, mdvd_write langs = mdvd_document (map mdvd_cue (concat langs)).
Proof.
  unfold mdvd_write. induction langs as [|l t IH]; [reflexivity|].
  cbn [map concat]. rewrite IH, map_app, mdvd_document_app, mdvd_lang_document. reflexivity.
Qed.

Lemma forallb_concat : forall (A : Type) (f : A -> bool) ls, forallb (forallb f) ls = forallb f (concat ls).
Proof.
  intros A f. induction ls as [|l t IH]; [reflexivity|]. cbn [forallb concat]. rewrite forallb_app, IH. reflexivity.
Qed.

Theorem own_nodes_mdvd : forall langs, mdvd_dom langs = true ->
  detect_format (mdvd_write langs) = Ok (Some R_MDVD).
Proof.
  intros langs H. unfold mdvd_dom in H. apply andb_true_iff in H. destruct H as [H Hfree].
  apply andb_true_iff in H. destruct H as [H _]. apply andb_true_iff in H. destruct H as [Hne Ht].
  unfold times_nonneg in Ht. unfold caps_free in Hfree. rewrite forallb_concat in Ht, Hfree.
  rewrite mdvd_write_document.
  destruct (concat langs) as [|c rest]; [discriminate|].
  assert (Hall : forall x, In x (c :: rest) -> mdvd_cue_ok (mdvd_cue x) = true).
  { intros x Hx. rewrite forallb_forall in Ht, Hfree. specialize (Ht x Hx). specialize (Hfree x Hx).
    apply mdvd_cue_ok_of; [lia|lia|exact Hfree]. }
  rewrite forallb_forall in Ht. specialize (Ht c (or_introl eq_refl)).
  cbn [map]. unfold mdvd_cue at 1.
  change (mdvd_prefix c) with (frames_prefix (dec_z (mdvd_frame (oc_start c))) (dec_z (mdvd_frame (oc_end c)))).
  apply own_mdvd; [apply dec_frame_digits; lia|apply dec_frame_digits; lia|].
  change (frames_prefix (dec_z (mdvd_frame (oc_start c))) (dec_z (mdvd_frame (oc_end c))), mdvd_clean (mdvd_raw c))
    with (mdvd_cue c).
  change (mdvd_cue c :: map mdvd_cue rest) with (map mdvd_cue (c :: rest)).
  apply forallb_forall. intros q Hq. apply in_map_iff in Hq. destruct Hq as [x [<- Hx]]. apply Hall. exact Hx.
Qed.
