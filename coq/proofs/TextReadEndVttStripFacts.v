(* C04 end to end, WebVTT: the reader's strip of every source line commutes with the three substitutions up to white
   space at the ends of the line - so the end-to-end theorem needs no hypothesis about the ends of the lines. *)
From Coq Require Import List ZArith Bool Lia.
From PV Require Import lib.Sx lib.Str model.TextNodes model.TextRead.
From PV Require Import spec.SpecTextLines spec.SpecTextRead proofs.TextLinesFacts proofs.TextBlocksFacts proofs.TextStrFacts.
From PV Require Import proofs.TextReadVttFacts proofs.TextReadVttTagFacts proofs.TextReadEndFacts proofs.TextReadEndVttFacts.
Import ListNotations.
Open Scope Z_scope.

(* ---- strings ------------------------------------------------------------------------------------------------------ *)
Definition hd_ok (s : str) : bool := match s with [] => true | c :: _ => negb (is_space c) end.

Lemma strip_pad : forall ws1 s ws2, forallb is_space ws1 = true -> forallb is_space ws2 = true ->
  strip (ws1 ++ s ++ ws2) = strip s.
Proof.
  induction ws1 as [|w ws1 IH]; intros s ws2 H1 H2.
  - cbn [app]. clear H1. induction ws2 as [|w ws2 IH2] using rev_ind; [rewrite app_nil_r; reflexivity|].
    rewrite forallb_app in H2. apply andb_true_iff in H2. destruct H2 as [Ha Hw]. cbn [forallb] in Hw. apply andb_true_iff in Hw.
    rewrite app_assoc, strip_snoc_space by apply Hw. apply IH2, Ha.
  - cbn [forallb] in H1. apply andb_true_iff in H1. destruct H1 as [Hw H1]. cbn [app]. rewrite strip_cons_space by exact Hw.
    apply IH; assumption.
Qed.

Lemma strip_edges : forall s, hd_ok s = true -> hd_ok (rev s) = true -> strip s = s.
Proof.
  intros s H1 H2. destruct s as [|c t]; [reflexivity|]. unfold strip, strip_by. cbn [hd_ok] in H1.
  cbn [lstrip_by]. destruct (is_space c); [discriminate|]. unfold rstrip_by.
  destruct (rev (c :: t)) as [|z r] eqn:E; [apply (f_equal (@length Z)) in E; rewrite rev_length in E; discriminate|].
  cbn [hd_ok] in H2. cbn [lstrip_by]. destruct (is_space z); [discriminate|]. rewrite <- E. apply rev_involutive.
Qed.

Lemma norm_line_a_pad : forall ws1 s ws2, forallb is_space ws1 = true -> forallb is_space ws2 = true ->
  norm_line_a (ws1 ++ s ++ ws2) = norm_line_a s.
Proof. intros. unfold norm_line_a. rewrite strip_pad by assumption. reflexivity. Qed.
Lemma norm_line_a_strip : forall s, norm_line_a (strip s) = norm_line_a s.
Proof.
  intros s. unfold norm_line_a. f_equal. f_equal.
  (* strip is idempotent *)
  unfold strip, strip_by.
  assert (L : forall x, lstrip_by is_space (rstrip_by is_space (lstrip_by is_space x)) = rstrip_by is_space (lstrip_by is_space x)).
  { intros x. set (y := lstrip_by is_space x). assert (Hy : hd_ok y = true).
    { unfold y. clear. induction x as [|c x IH]; [reflexivity|]. cbn [lstrip_by]. destruct (is_space c) eqn:E; [exact IH|]. cbn [hd_ok]. rewrite E. reflexivity. }
    clearbody y. induction y as [|w y IH] using rev_ind; [reflexivity|]. rewrite rstrip_by_snoc.
    destruct (is_space w) eqn:E.
    - apply IH. destruct y as [|a y']; [reflexivity|exact Hy].
    - destruct y as [|a y']; cbn [app lstrip_by hd_ok] in *; [rewrite E; reflexivity|].
      destruct (is_space a); [discriminate|reflexivity]. }
  rewrite L. set (z := lstrip_by is_space s). unfold rstrip_by. rewrite rev_involutive.
  f_equal. clear. induction (rev z) as [|c r IH]; [reflexivity|]. cbn [lstrip_by]. destruct (is_space c) eqn:E; [exact IH|].
  cbn [lstrip_by]. rewrite E. reflexivity.
Qed.

(* ---- pieces ---------------------------------------------------------------------------------------------------------- *)
Definition sp_piece (p : piece) : bool := match p with PRaw c => is_space c | PEnt _ => false end.
Definition D (l : list ltok) : str := prender (map decode_piece (flat_map lpieces l)).
Definition Dp (ps : list piece) : str := prender (map decode_piece ps).

Lemma sp_pieces_render : forall ws, forallb sp_piece ws = true ->
  forallb is_space (prender ws) = true /\ Dp ws = prender ws.
Proof.
  unfold Dp, prender. induction ws as [|p ws IH]; intros H; [split; reflexivity|]. cbn [forallb] in H. apply andb_true_iff in H.
  destruct H as [Hp Hws]. destruct (IH Hws) as [A B]. destruct p as [c|n]; cbn [sp_piece] in Hp; [|discriminate].
  cbn [flat_map map decode_piece render_piece app forallb]. rewrite Hp, A, B. split; reflexivity.
Qed.
Lemma Dp_app : forall a b, Dp (a ++ b) = Dp a ++ Dp b.
Proof. intros. unfold Dp. rewrite map_app. apply prender_app. Qed.

Lemma piece_hd : forall p ps X, sp_piece p = false -> hd_ok (prender (p :: ps) ++ X) = true.
Proof.
  intros [c|n] ps X H; unfold prender; cbn [flat_map render_piece app hd_ok sp_piece] in *; [rewrite H|]; reflexivity.
Qed.
Lemma piece_last : forall p q, sp_piece p = false -> exists s' z, prender (q ++ [p]) = s' ++ [z] /\ is_space z = false.
Proof.
  intros [c|n] q H; rewrite prender_app; unfold prender at 2; cbn [flat_map render_piece app sp_piece] in *.
  - exists (prender q), c. rewrite ?app_nil_r. split; [reflexivity|exact H].
  - exists (prender q ++ 38 :: n), 59. rewrite ?app_nil_r, <- app_assoc. split; reflexivity.
Qed.

Fixpoint lsp (ps : list piece) : list piece :=
  match ps with p :: r => if sp_piece p then lsp r else ps | [] => [] end.
Lemma forallb_lsp : forall (P : piece -> bool) s, forallb P s = true -> forallb P (lsp s) = true.
Proof.
  induction s as [|c s IH]; intros H; [reflexivity|]. cbn [lsp]. destruct (sp_piece c); [|exact H].
  cbn [forallb] in H. apply andb_true_iff in H. apply IH, H.
Qed.
Lemma drop_while_split : forall (ps : list piece), exists ws, forallb sp_piece ws = true /\ ps = ws ++ lsp ps /\
  match lsp ps with [] => True | p :: _ => sp_piece p = false end.
Proof.
  induction ps as [|p ps IH]; [exists []; repeat split; reflexivity|]. cbn [lsp]. destruct (sp_piece p) eqn:E.
  - destruct IH as (ws & A & B & C). exists (p :: ws). cbn [forallb app]. rewrite E, A.
    split; [reflexivity|split; [f_equal; exact B|exact C]].
  - exists []. split; [reflexivity|split; [reflexivity|exact E]].
Qed.

(* trailing white-space pieces *)
Fixpoint rsp (ps : list piece) : list piece :=
  match ps with
  | [] => []
  | p :: r => match rsp r with [] => if sp_piece p then [] else [p] | r' => p :: r' end
  end.
Lemma rsp_split : forall ps, exists ws, forallb sp_piece ws = true /\ ps = rsp ps ++ ws /\
  (rsp ps = [] \/ exists q p, rsp ps = q ++ [p] /\ sp_piece p = false).
Proof.
  induction ps as [|p ps IH]; [exists []; repeat split; [left; reflexivity]|]. destruct IH as (ws & A & B & C). cbn [rsp].
  destruct (rsp ps) as [|r0 r'] eqn:E.
  - cbn [app] in B. subst ps. destruct (sp_piece p) eqn:Ep.
    + exists (p :: ws). cbn [forallb app]. rewrite Ep, A. repeat split. left. reflexivity.
    + exists ws. repeat split; [exact A|]. right. exists [], p. split; [reflexivity|exact Ep].
  - exists ws. split; [exact A|]. split; [cbn [app]; f_equal; exact B|]. right.
    destruct C as [C|(q & p0 & C & Hp)]; [discriminate|]. exists (p :: q), p0. rewrite C. split; [reflexivity|exact Hp].
Qed.
Lemma forallb_rsp : forall (P : piece -> bool) ps, forallb P ps = true -> forallb P (rsp ps) = true.
Proof.
  intros P ps H. destruct (rsp_split ps) as (ws & _ & B & _). rewrite B in H. rewrite forallb_app in H. apply andb_true_iff in H. apply H.
Qed.

(* ---- tokens: white space at the left end ------------------------------------------------------------------------------------ *)
Fixpoint ltrim (l : list ltok) : list ltok :=
  match l with
  | LText ps :: t => match lsp ps with [] => ltrim t | ps' => LText ps' :: t end
  | _ => l
  end.

Lemma D_cons : forall t l, D (t :: l) = Dp (lpieces t) ++ D l.
Proof. intros. unfold D, Dp. cbn [flat_map]. rewrite map_app, prender_app. reflexivity. Qed.
Lemma lrender_cons : forall t l, lrender_all (t :: l) = lrender t ++ lrender_all l.
Proof. reflexivity. Qed.

Lemma ltrim_facts : forall l, forallb ltok_ok l = true -> exists ws, forallb is_space ws = true /\
  lrender_all l = ws ++ lrender_all (ltrim l) /\ D l = ws ++ D (ltrim l) /\
  hd_ok (lrender_all (ltrim l)) = true /\ forallb ltok_ok (ltrim l) = true.
Proof.
  induction l as [|t l IH]; intros H; [exists []; repeat split; reflexivity|].
  cbn [forallb] in H. apply andb_true_iff in H. destruct H as [Ht Hl].
  destruct t as [ps|b|b|cls pn].
  - cbn [ltrim]. destruct (drop_while_split ps) as (wsp & A & B & C). destruct (sp_pieces_render wsp A) as [S1 S2].
    cbn [ltok_ok] in Ht. apply andb_true_iff in Ht. destruct Ht as [Hok Hlt].
    destruct (lsp ps) as [|p ps'] eqn:E.
    + rewrite app_nil_r in B. subst wsp. destruct (IH Hl) as (ws & W1 & W2 & W3 & W4 & W5).
      exists (prender ps ++ ws). rewrite forallb_app, S1, W1, lrender_cons, D_cons. cbn [lrender lpieces]. rewrite S2, W2, W3, <- !app_assoc.
      repeat split; assumption.
    + exists (prender wsp). rewrite lrender_cons, D_cons, (lrender_cons (LText (p :: ps'))), (D_cons (LText (p :: ps'))).
      cbn [lrender lpieces]. rewrite B at 1 2. rewrite prender_app, Dp_app, S2, <- !app_assoc.
      assert (Q : forall (P : piece -> bool), forallb P ps = true -> forallb P (p :: ps') = true).
      { intros P HP. rewrite <- E. apply forallb_lsp, HP. }
      repeat split; try assumption.
      * apply piece_hd, C.
      * change (forallb ltok_ok (LText (p :: ps') :: l)) with ((forallb piece_ok (p :: ps') && forallb (no_ch_piece 60) (p :: ps')) && forallb ltok_ok l).
        rewrite (Q _ Hok), (Q _ Hlt), Hl. reflexivity.
  - exists []. cbn [ltrim forallb]. rewrite Ht, Hl. repeat split; reflexivity.
  - exists []. cbn [ltrim forallb]. rewrite Ht, Hl. repeat split; reflexivity.
  - exists []. cbn [ltrim forallb]. rewrite Ht, Hl. repeat split; reflexivity.
Qed.

(* ---- tokens: white space at the right end ------------------------------------------------------------------------------------- *)
Definition rtrim1 (t : ltok) : list ltok :=
  match t with LText ps => match rsp ps with [] => [] | ps' => [LText ps'] end | _ => [t] end.
Fixpoint rtrim (l : list ltok) : list ltok :=
  match l with
  | [] => []
  | t :: r => match rtrim r with [] => rtrim1 t | r' => t :: r' end
  end.

Definition ends_ok (s : str) : Prop := exists s' z, s = s' ++ [z] /\ is_space z = false.

Lemma tok_ends : forall t, match t with LText _ => False | _ => True end -> ends_ok (lrender t).
Proof.
  intros [ps|b|b|cls pn] H; [destruct H| | |]; cbn [lrender].
  - exists (60 :: b), 62. split; reflexivity.
  - exists (60 :: b), 62. split; reflexivity.
  - exists (lit "<v" ++ dotted cls ++ lit " " ++ prender pn), 62. change (lit ">") with [62]. rewrite <- !app_assoc. split; reflexivity.
Qed.

Lemma rtrim1_facts : forall t, ltok_ok t = true -> exists ws, forallb is_space ws = true /\
  lrender t = lrender_all (rtrim1 t) ++ ws /\ Dp (lpieces t) = D (rtrim1 t) ++ ws /\
  (rtrim1 t = [] \/ ends_ok (lrender_all (rtrim1 t))) /\ forallb ltok_ok (rtrim1 t) = true.
Proof.
  intros t Ht.
  assert (N : forall t0 : ltok, match t0 with LText _ => False | _ => True end -> ltok_ok t0 = true -> rtrim1 t0 = [t0] ->
              exists ws, forallb is_space ws = true /\ lrender t0 = lrender_all [t0] ++ ws /\ Dp (lpieces t0) = D [t0] ++ ws /\
              ([t0] = [] \/ ends_ok (lrender_all [t0])) /\ forallb ltok_ok [t0] = true).
  { intros t0 H0 Hk _. exists []. unfold lrender_all, D, Dp. cbn [flat_map forallb]. rewrite !app_nil_r, Hk.
    repeat split; try reflexivity. right. apply tok_ends, H0. }
  destruct t as [ps|b|b|cls pn]; try (cbn [rtrim1]; apply N; [exact I|exact Ht|reflexivity]).
  cbn [rtrim1 lrender lpieces]. destruct (rsp_split ps) as (wsp & A & B & C). destruct (sp_pieces_render wsp A) as [S1 S2].
  cbn [ltok_ok] in Ht. apply andb_true_iff in Ht. destruct Ht as [Hok Hlt].
  assert (R1 : prender ps = prender (rsp ps) ++ prender wsp) by (rewrite B at 1; apply prender_app).
  assert (R2 : Dp ps = Dp (rsp ps) ++ prender wsp) by (rewrite B at 1; rewrite Dp_app, S2; reflexivity).
  exists (prender wsp). rewrite R1, R2.
  destruct (rsp ps) as [|p0 ps0] eqn:E.
  - unfold lrender_all, D, Dp. cbn. repeat split; try assumption. left. reflexivity.
  - unfold lrender_all, D, Dp. cbn [flat_map lrender lpieces]. rewrite !app_nil_r.
    split; [exact S1|]. split; [reflexivity|]. split; [reflexivity|]. split.
    + right. destruct C as [C|(q & p & C & Hp)]; [discriminate|]. rewrite C. apply piece_last, Hp.
    + rewrite <- E. change (forallb ltok_ok [LText (rsp ps)]) with ((forallb piece_ok (rsp ps) && forallb (no_ch_piece 60) (rsp ps)) && true).
      rewrite (forallb_rsp _ _ Hok), (forallb_rsp _ _ Hlt). reflexivity.
Qed.

Lemma rtrim_facts : forall l, forallb ltok_ok l = true -> exists ws, forallb is_space ws = true /\
  lrender_all l = lrender_all (rtrim l) ++ ws /\ D l = D (rtrim l) ++ ws /\
  (rtrim l = [] \/ ends_ok (lrender_all (rtrim l))) /\ forallb ltok_ok (rtrim l) = true.
Proof.
  induction l as [|t l IH]; intros H; [exists []; repeat split; try reflexivity; left; reflexivity|].
  cbn [forallb] in H. apply andb_true_iff in H. destruct H as [Ht Hl]. destruct (IH Hl) as (ws & W1 & W2 & W3 & W4 & W5).
  cbn [rtrim]. destruct (rtrim l) as [|r0 r'] eqn:E.
  - (* the rest of the line is white space only *)
    destruct (rtrim1_facts t Ht) as (ws1 & V1 & V2 & V3 & V4 & V5).
    exists (ws1 ++ ws). rewrite forallb_app, V1, W1, lrender_cons, D_cons, W2, W3, V2, V3.
    change (lrender_all []) with (@nil Z). change (D []) with (@nil Z). cbn [app]. rewrite <- !app_assoc.
    repeat split; assumption.
  - exists ws. rewrite lrender_cons, D_cons, W2, W3, (lrender_cons t (r0 :: r')), (D_cons t (r0 :: r')), <- !app_assoc.
    split; [exact W1|]. split; [reflexivity|]. split; [reflexivity|]. split.
    + right. destruct W4 as [W4|(s' & z & W4 & Hz)]; [discriminate|]. exists (lrender t ++ s'), z. rewrite W4, <- app_assoc. split; [reflexivity|exact Hz].
    + cbn [forallb]. rewrite Ht. exact W5.
Qed.

(* ---- the reader's strip on a tokenised line ------------------------------------------------------------------------------------ *)
Theorem strip_line : forall l, forallb ltok_ok l = true -> exists l2 ws1 ws2,
  forallb is_space ws1 = true /\ forallb is_space ws2 = true /\ forallb ltok_ok l2 = true /\
  strip (lrender_all l) = lrender_all l2 /\ D l = ws1 ++ D l2 ++ ws2.
Proof.
  intros l H. destruct (ltrim_facts l H) as (ws1 & A1 & A2 & A3 & A4 & A5).
  destruct (rtrim_facts (ltrim l) A5) as (ws2 & B1 & B2 & B3 & B4 & B5).
  exists (rtrim (ltrim l)), ws1, ws2. repeat split; try assumption.
  - rewrite A2, B2, strip_pad by assumption. apply strip_edges.
    + rewrite B2 in A4. destruct (lrender_all (rtrim (ltrim l))); [reflexivity|exact A4].
    + destruct B4 as [B4|(s' & z & B4 & Hz)]; [rewrite B4; reflexivity|]. rewrite B4, rev_unit. cbn [hd_ok]. rewrite Hz. reflexivity.
  - rewrite A3, B3. reflexivity.
Qed.

(* ---- one source line, any white space at its ends ------------------------------------------------------------------------------- *)
Theorem line_end_to_end_any : forall its, forallb line_item_ok its = true ->
  norm_line_a (vtt_decode true (ser_line its)) = norm_line_a (disp_line its).
Proof.
  intros its H. destruct (line_facts its H) as (A & B & C & _).
  destruct (strip_line _ B) as (l2 & ws1 & ws2 & W1 & W2 & Hok & Hs & Hd).
  unfold vtt_decode. rewrite A, Hs, (line_decode _ Hok). fold (D l2).
  rewrite <- C. fold (D (flat_map toks its)). rewrite Hd. symmetry. apply norm_line_a_pad; assumption.
Qed.

Lemma norm_lines_a_ext : forall (A : Type) (f g : A -> str) l,
  (forall x, In x l -> norm_line_a (f x) = norm_line_a (g x)) -> norm_lines_a (map f l) = norm_lines_a (map g l).
Proof.
  intros A f g l H. unfold norm_lines_a. rewrite !map_map. f_equal. apply map_ext_in. exact H.
Qed.

(* ==== END TO END, WebVTT, no condition on the ends of the lines ======================================================================= *)
Theorem vtt_end_to_end_any : forall items, forallb vtt_item_ok items = true ->
  ok_lines_a (SpecTextRead.display items) (node_lines (read_vtt true items)) = true.
Proof.
  intros items H. unfold ok_lines_a, read_vtt, vtt_cue_nodes, SpecTextRead.display.
  pose proof (serialise_split items [] H eq_refl) as S. cbn [app] in S. rewrite S.
  rewrite display_split. pose proof (split_lines_ok items H) as L. pose proof (split_br_nonnil items) as N.
  destruct (split_br items) as [|l0 ls]; [congruence|]. cbn [app].
  rewrite node_lines_intersperse by discriminate.
  change (ser_line l0 :: map ser_line ls) with (map ser_line (l0 :: ls)).
  change (disp_line l0 :: map disp_line ls) with (map disp_line (l0 :: ls)).
  rewrite map_map.
  rewrite (norm_lines_a_ext _ (fun x => vtt_decode true (ser_line x)) disp_line (l0 :: ls)); [apply strs_eqb_refl|].
  intros x Hx. apply line_end_to_end_any. rewrite forallb_forall in L. apply L, Hx.
Qed.

Example vtt_any_example :
  let items := [ITxt [(32, 0); (160, 0); (97, 0); (32, 0)]; IOpen 1; ITxt [(32, 0)]; IBr; IWrap 0; ITxt [(160, 1); (98, 0)]; IClose 1; ITxt [(9, 0)]] in
  forallb vtt_item_ok items = true /\ lines_trimmed items = false /\
  node_lines (read_vtt true items) = [[97; 32]; [160; 98]] /\ SpecTextRead.display items = [[32; 160; 97; 32; 32]; [32; 160; 98; 9]].
Proof. repeat split; vm_compute; reflexivity. Qed.
