(* C17, wave 7 (part 3a): the reader model's clock (model/SccTime.v get_time) on the timecodes the writer prints
   (model/SccWrite.v format_frames): word k of a line stamped with frame f is decoded at (f + k) frames of 1001/30 ms,
   for every frame number below 100 hours. *)
From Coq Require Import List ZArith QArith Lia Lqa Bool ZifyBool.
From PV Require Import lib.Sx lib.Str lib.Result model.SccTime model.SccWrite spec.SpecSccTime.
From PV Require proofs.SccTimeFacts.
Import ListNotations.
Open Scope Z_scope.
Ltac Zify.zify_post_hook ::= Z.to_euclidean_division_equations.

Definition tc_of_frames (f : Z) : timecode := mkTc (f / 108000) ((f / 1800) mod 60) ((f / 30) mod 60) false (f mod 30).

Lemma two_same : forall z, 0 <= z -> SccWrite.two z = SpecSccTime.two z.
Proof. intros z H. unfold SccWrite.two, SpecSccTime.two, dec_z. replace (z <? 0) with false by lia. reflexivity. Qed.

Lemma format_frames_render : forall f, 0 <= f -> format_frames f = render_tc (tc_of_frames f).
Proof.
  intros f H. unfold format_frames, render_tc, tc_of_frames. cbn [tc_h tc_m tc_s tc_f tc_drop].
  rewrite !two_same by lia. reflexivity.
Qed.

Lemma get_time_frames : forall f k, 0 <= f < 10800000 -> 0 <= k ->
  exists t, get_time (format_frames f) k 0 = Ok t /\ (t == inject_Z (f + k) * mpc)%Q.
Proof.
  intros f k Hf Hk. rewrite (format_frames_render f ltac:(lia)).
  assert (W : tc_wf (tc_of_frames f) = true) by (unfold tc_wf, tc_of_frames; cbn [tc_h tc_m tc_s tc_f]; lia).
  destruct (SccTimeFacts.get_time_exact (tc_of_frames f) k 0 W Hk) as (t & E & V). exists t. split; [exact E|].
  rewrite V. unfold spec_instant, tc_of_frames. cbn [tc_h tc_m tc_s tc_f tc_drop]. cbv zeta.
  assert (A : (3600 * (f / 108000) + 60 * ((f / 1800) mod 60) + (f / 30) mod 60 = f / 30)%Z) by lia.
  rewrite A.
  assert (B : (inject_Z (f / 30) + inject_Z (f mod 30 + k) / inject_Z 30 == inject_Z (f + k) / inject_Z 30)%Q).
  { assert (C : (f + k = 30 * (f / 30) + (f mod 30 + k))%Z) by lia. rewrite C.
    rewrite !inject_Z_plus, inject_Z_mult. field. }
  unfold qmax0.
  assert (P : (0 <= (inject_Z (f / 30) + inject_Z (f mod 30 + k) / inject_Z 30) * (1001 # 1000) * million - 0)%Q).
  { rewrite B. unfold million, Qdiv. assert (0 <= inject_Z (f + k))%Q by (change 0%Q with (inject_Z 0); rewrite <- Zle_Qle; lia).
    change (/ inject_Z 30)%Q with (1 # 30)%Q. change (inject_Z 1000000) with (1000000 # 1)%Q. nra. }
  apply Qle_bool_iff in P. rewrite P. rewrite B. unfold million, mpc, Qdiv.
  change (/ inject_Z 30)%Q with (1 # 30)%Q. change (inject_Z 1000000) with (1000000 # 1)%Q. ring.
Qed.
