(* HeapProgInst.v - C09 half 2 on the heap programs: "assigned before read" analysis of the writer INSTANCE state (open_span,
   last_time, global_layout), sound for every program: the store effect, the emitted tokens, the footprint and the exit of an
   accepted program do not depend on the values the instance registers hold at entry. *)
From Coq Require Import List ZArith Bool Arith Lia.
From PV Require Import lib.Sx lib.Str lib.Result model.Store model.Iso model.HeapProg proofs.StoreFacts proofs.IsoFacts.
Import ListNotations.
Open Scope Z_scope.

Definition same_heap (h1 h2 : hstate) : Prop :=
  h_st h1 = h_st h2 /\ h_lim h1 = h_lim h2 /\ h_log h1 = h_log h2 /\ h_copies h1 = h_copies h2 /\ h_out h1 = h_out h2.

Definition agree (u : list reg) (e1 e2 : reg -> val) : Prop := forall r, tainted u r = false -> e1 r = e2 r.

Lemma tainted_clean : forall u x r, tainted (clean u x) r = tainted u r && negb (Nat.eqb r x).
Proof.
  intros u x r. unfold tainted, clean. induction u as [|y t IH]; simpl; [reflexivity|].
  destruct (Nat.eqb y x) eqn:Eyx; simpl; rewrite IH.
  - destruct (Nat.eqb r y) eqn:Ery; simpl; [|reflexivity]. apply Nat.eqb_eq in Ery, Eyx. subst.
    rewrite Nat.eqb_refl. simpl. rewrite andb_false_r. reflexivity.
  - destruct (Nat.eqb r y) eqn:Ery; simpl; [|reflexivity]. apply Nat.eqb_eq in Ery. subst. rewrite Eyx. reflexivity.
Qed.

Lemma agree_setr : forall u e1 e2 x v, agree u e1 e2 -> agree (clean u x) (setr e1 x v) (setr e2 x v).
Proof.
  intros u e1 e2 x v H r Hr. rewrite tainted_clean in Hr. unfold setr. destruct (Nat.eqb r x); [reflexivity|].
  apply H. simpl in Hr. rewrite andb_true_r in Hr. exact Hr.
Qed.

Lemma ev_agree : forall o u e1 e2 e, agree u e1 e2 -> euse u e = true -> ev o e1 e = ev o e2 e.
Proof.
  intros o u e1 e2 e H He. destruct e; try reflexivity. cbn in *. apply H. apply negb_true_iff. exact He.
Qed.

Lemma reg_agree : forall u e1 e2 r, agree u e1 e2 -> negb (tainted u r) = true -> e1 r = e2 r.
Proof. intros. apply H. apply negb_true_iff. assumption. Qed.

Lemma evb_agree : forall o st u e1 e2 b, agree u e1 e2 -> buse u b = true -> evb o st e1 b = evb o st e2 b.
Proof.
  intros o st u e1 e2 b H. induction b; intros Hb; cbn [buse evb] in *.
  - rewrite (ev_agree o u e1 e2 e H Hb). reflexivity.
  - apply andb_true_iff in Hb. destruct Hb as [A B]. rewrite (ev_agree o u e1 e2 a H A), (ev_agree o u e1 e2 b H B). reflexivity.
  - rewrite (reg_agree u e1 e2 r H Hb). reflexivity.
  - rewrite (reg_agree u e1 e2 r H Hb). reflexivity.
  - apply andb_true_iff in Hb. destruct Hb as [A B]. rewrite (reg_agree u e1 e2 r H A), (ev_agree o u e1 e2 k H B). reflexivity.
  - rewrite IHb; auto.
  - apply andb_true_iff in Hb. destruct Hb as [A B]. rewrite IHb1, IHb2; auto.
  - rewrite (ev_agree o u e1 e2 e H Hb). reflexivity.
  - reflexivity.
Qed.

Lemma agree_weaken : forall u u' e1 e2, agree u e1 e2 -> (forall r, tainted u r = true -> tainted u' r = true) -> agree u' e1 e2.
Proof.
  intros u u' e1 e2 H Hs r Hr. apply H. destruct (tainted u r) eqn:E; [|reflexivity]. rewrite (Hs r E) in Hr. discriminate.
Qed.

Lemma tainted_app : forall a b r, tainted (a ++ b) r = tainted a r || tainted b r.
Proof. intros. unfold tainted. apply existsb_app. Qed.

Lemma map_ev_agree : forall o u e1 e2 its, agree u e1 e2 ->
  forallb (fun p => euse u (fst p) && euse u (snd p)) its = true ->
  map (fun p : expr * expr => (ev o e1 (fst p), ev o e1 (snd p))) its = map (fun p => (ev o e2 (fst p), ev o e2 (snd p))) its.
Proof.
  intros o u e1 e2 its H Hf. apply map_ext_in. intros p Hp. rewrite forallb_forall in Hf. specialize (Hf p Hp).
  apply andb_true_iff in Hf. destruct Hf as [A B]. rewrite (ev_agree o u e1 e2 _ H A), (ev_agree o u e1 e2 _ H B). reflexivity.
Qed.

Definition du_ok (u' : list reg) (h1' h2' : hstate) (x1 x2 : option err) : Prop :=
  x1 = x2 /\ same_heap h1' h2' /\ (x1 = None -> agree u' (h_env h1') (h_env h2')).

Ltac same_sub Hsame :=
  let A := fresh in let B := fresh in let C := fresh in let D := fresh in let E := fresh in
  destruct Hsame as (A & B & C & D & E); cbn [h_st h_lim h_log h_copies h_out] in A, B, C, D, E; subst.

Lemma du_sound : forall o c u u' h1 h2 h1' h2' x1 x2,
  du c u = Some u' -> same_heap h1 h2 -> agree u (h_env h1) (h_env h2) ->
  exec o c h1 = (h1', x1) -> exec o c h2 = (h2', x2) -> du_ok u' h1' h2' x1 x2.
Proof.
  intros o c.
  induction c as [ |c1 IHc1 c2 IHc2|x e1|x y|x y|x y k1|x y|x k1 e1|x k1|x e1|x kind its|x f e1|b c1 IHc1 c2 IHc2
                 |eo k x y c IHc|e1|er];
    intros u u' h1 h2 h1' h2' x1 x2 Hd Hsame Ha H1 H2; unfold du_ok;
    destruct h1 as [st1 env1 lim1 log1 cp1 out1], h2 as [st2 env2 lim2 log2 cp2 out2];
    cbn [h_env] in Ha.
  - (* CSkip *) cbn in *. injection Hd as <-. inversion H1; inversion H2; subst. auto.
  - (* CSeq *)
    cbn [du exec] in *. destruct (du c1 u) as [u1|] eqn:D1; [|discriminate].
    destruct (exec o c1 (mkH st1 env1 lim1 log1 cp1 out1)) as [ha [ea|]] eqn:X1;
    destruct (exec o c1 (mkH st2 env2 lim2 log2 cp2 out2)) as [hb [eb|]] eqn:X2;
    destruct (IHc1 _ _ _ _ _ _ _ _ D1 Hsame Ha X1 X2) as (A & B & C); try discriminate.
    + inversion H1; inversion H2; subst. split; [exact A|]. split; [exact B|]. discriminate.
    + eapply IHc2; eauto.
  - (* CMov *)
    cbn [du exec h_st h_env h_lim h_log h_copies h_out] in *. destruct (euse u e1) eqn:E; [|discriminate]. injection Hd as <-.
    same_sub Hsame. rewrite (ev_agree o u env1 env2 e1 Ha E) in H1. inversion H1; inversion H2; subst.
    split; [reflexivity|]. split; [repeat split|]. intros _. cbn [h_env]. apply agree_setr. exact Ha.
  - (* CCopy *)
    cbn [du exec h_st h_env h_lim h_log h_copies h_out] in *. destruct (negb (tainted u y)) eqn:E; [|discriminate]. injection Hd as <-.
    same_sub Hsame. rewrite (reg_agree u env1 env2 y Ha E) in H1.
    destruct (deepcopy (dc_fuel st2) st2 (env2 y)) as [[sta v]|]; inversion H1; inversion H2; subst.
    + split; [reflexivity|]. split; [repeat split|]. intros _. cbn [h_env]. apply agree_setr. exact Ha.
    + split; [reflexivity|]. split; [repeat split|]. discriminate.
  - (* CShallow *)
    cbn [du exec h_st h_env h_lim h_log h_copies h_out] in *. destruct (negb (tainted u y)) eqn:E; [|discriminate]. injection Hd as <-.
    same_sub Hsame. rewrite (reg_agree u env1 env2 y Ha E) in H1.
    destruct (env2 y) as [z|s| |l].
    1-3: inversion H1; inversion H2; subst; split; [reflexivity|]; split; [repeat split|]; intros _; cbn [h_env];
         apply agree_setr; exact Ha.
    destruct (new_obj st2 (kind_of st2 (VLoc l)) (items_of st2 (VLoc l))) as [sta v].
    inversion H1; inversion H2; subst. split; [reflexivity|]. split; [repeat split|]. intros _. cbn [h_env]. apply agree_setr. exact Ha.
  - (* CGet *)
    cbn [du exec h_st h_env h_lim h_log h_copies h_out] in *. destruct (negb (tainted u y) && euse u k1) eqn:E; [|discriminate].
    injection Hd as <-. apply andb_true_iff in E. destruct E as [E1 E2]. same_sub Hsame.
    rewrite (reg_agree u env1 env2 y Ha E1), (ev_agree o u env1 env2 k1 Ha E2) in H1.
    inversion H1; inversion H2; subst. split; [reflexivity|]. split; [repeat split|]. intros _. cbn [h_env]. apply agree_setr. exact Ha.
  - (* CKeys *)
    cbn [du exec h_st h_env h_lim h_log h_copies h_out] in *. destruct (negb (tainted u y)) eqn:E; [|discriminate]. injection Hd as <-.
    same_sub Hsame. rewrite (reg_agree u env1 env2 y Ha E) in H1.
    destruct (new_obj st2 KList (map (fun kv : val * val => (VNone, scal (fst kv))) (items_of st2 (env2 y)))) as [sta v].
    inversion H1; inversion H2; subst. split; [reflexivity|]. split; [repeat split|]. intros _. cbn [h_env]. apply agree_setr. exact Ha.
  - (* CSet *)
    cbn [du exec h_st h_env h_lim h_log h_copies h_out] in *.
    destruct (negb (tainted u x) && euse u k1 && euse u e1) eqn:E; [|discriminate]. injection Hd as <-.
    apply andb_true_iff in E. destruct E as [E E3]. apply andb_true_iff in E. destruct E as [E1 E2]. same_sub Hsame.
    rewrite (reg_agree u env1 env2 x Ha E1), (ev_agree o u env1 env2 k1 Ha E2), (ev_agree o u env1 env2 e1 Ha E3) in H1.
    inversion H1; inversion H2; subst. split; [reflexivity|]. split; [repeat split|]. intros _. exact Ha.
  - (* CDel *)
    cbn [du exec h_st h_env h_lim h_log h_copies h_out] in *.
    destruct (negb (tainted u x) && euse u k1) eqn:E; [|discriminate]. injection Hd as <-.
    apply andb_true_iff in E. destruct E as [E1 E2]. same_sub Hsame.
    rewrite (reg_agree u env1 env2 x Ha E1), (ev_agree o u env1 env2 k1 Ha E2) in H1.
    inversion H1; inversion H2; subst. split; [reflexivity|]. split; [repeat split|]. intros _. exact Ha.
  - (* CAppend *)
    cbn [du exec h_st h_env h_lim h_log h_copies h_out] in *.
    destruct (negb (tainted u x) && euse u e1) eqn:E; [|discriminate]. injection Hd as <-.
    apply andb_true_iff in E. destruct E as [E1 E2]. same_sub Hsame.
    rewrite (reg_agree u env1 env2 x Ha E1), (ev_agree o u env1 env2 e1 Ha E2) in H1.
    inversion H1; inversion H2; subst. split; [reflexivity|]. split; [repeat split|]. intros _. exact Ha.
  - (* CNew *)
    cbn [du exec h_st h_env h_lim h_log h_copies h_out] in *.
    destruct (forallb (fun p => euse u (fst p) && euse u (snd p)) its) eqn:E; [|discriminate]. injection Hd as <-.
    same_sub Hsame. rewrite (map_ev_agree o u env1 env2 its Ha E) in H1.
    destruct (new_obj st2 kind (map (fun p : expr * expr => (ev o env2 (fst p), ev o env2 (snd p))) its)) as [sta v].
    inversion H1; inversion H2; subst. split; [reflexivity|]. split; [repeat split|]. intros _. cbn [h_env]. apply agree_setr. exact Ha.
  - (* COp *)
    cbn [du exec h_st h_env h_lim h_log h_copies h_out] in *. destruct (euse u e1) eqn:E; [|discriminate]. injection Hd as <-.
    same_sub Hsame. rewrite (ev_agree o u env1 env2 e1 Ha E) in H1.
    destruct (prim o f (ev o env2 e1)) as [v|ee]; inversion H1; inversion H2; subst.
    + split; [reflexivity|]. split; [repeat split|]. intros _. cbn [h_env]. apply agree_setr. exact Ha.
    + split; [reflexivity|]. split; [repeat split|]. discriminate.
  - (* CIf *)
    cbn [du exec h_st h_env h_lim h_log h_copies h_out] in *. destruct (buse u b) eqn:E; [|discriminate].
    destruct (du c1 u) as [ua|] eqn:D1; [|discriminate]. destruct (du c2 u) as [ub|] eqn:D2; [|discriminate]. injection Hd as <-.
    pose proof Hsame as Hs2. destruct Hs2 as (S1 & _). cbn [h_st] in S1. subst st2.
    rewrite (evb_agree o st1 u env1 env2 b Ha E) in H1.
    destruct (evb o st1 env2 b).
    + destruct (IHc1 _ _ _ _ _ _ _ _ D1 Hsame Ha H1 H2) as (A & B & C). split; [exact A|]. split; [exact B|].
      intros En. eapply agree_weaken; [exact (C En)|]. intros r Hr. rewrite tainted_app, Hr. reflexivity.
    + destruct (IHc2 _ _ _ _ _ _ _ _ D2 Hsame Ha H1 H2) as (A & B & C). split; [exact A|]. split; [exact B|].
      intros En. eapply agree_weaken; [exact (C En)|]. intros r Hr. rewrite tainted_app, Hr. apply orb_true_r.
  - (* CLoop *)
    cbn [du exec h_st h_env h_lim h_log h_copies h_out] in *. destruct (negb (tainted u y)) eqn:E; [|discriminate].
    destruct (du c (clean (clean u k) x)) as [u1|] eqn:D1; [|discriminate].
    destruct (forallb (tainted u) u1) eqn:Esub; [|discriminate]. injection Hd as <-.
    pose proof Hsame as Hs2. destruct Hs2 as (S1 & _). cbn [h_st] in S1. subst st2.
    rewrite (reg_agree u env1 env2 y Ha E) in H1.
    revert H1 H2. generalize (sel_items eo (items_of st1 (env2 y))) as l.
    assert (G : forall l ha hb, same_heap ha hb -> agree u (h_env ha) (h_env hb) ->
      forall F, F = (fix loop (l : list (val * val)) (h : hstate) {struct l} : hstate * option err :=
                 match l with
                 | [] => (h, None)
                 | kv :: r =>
                     match exec o c (mkH (h_st h) (setr (setr (h_env h) k (fst kv)) x (snd kv)) (h_lim h) (h_log h)
                                         (h_copies h) (h_out h)) with
                     | (h1, None) => loop r h1
                     | res => res
                     end
                 end) ->
      F l ha = (h1', x1) -> F l hb = (h2', x2) ->
      x1 = x2 /\ same_heap h1' h2' /\ (x1 = None -> agree u (h_env h1') (h_env h2'))).
    { induction l as [|kv r IHl]; intros ha hb Hsab Hab F HF Ra Rb; subst F.
      - inversion Ra; inversion Rb; subst. auto.
      - cbn fix beta iota in Ra, Rb.
        destruct (exec o c (mkH (h_st ha) (setr (setr (h_env ha) k (fst kv)) x (snd kv)) (h_lim ha) (h_log ha) (h_copies ha) (h_out ha)))
          as [ha1 ea] eqn:Xa.
        destruct (exec o c (mkH (h_st hb) (setr (setr (h_env hb) k (fst kv)) x (snd kv)) (h_lim hb) (h_log hb) (h_copies hb) (h_out hb)))
          as [hb1 eb] eqn:Xb.
        assert (Hs' : same_heap (mkH (h_st ha) (setr (setr (h_env ha) k (fst kv)) x (snd kv)) (h_lim ha) (h_log ha) (h_copies ha) (h_out ha))
                                (mkH (h_st hb) (setr (setr (h_env hb) k (fst kv)) x (snd kv)) (h_lim hb) (h_log hb) (h_copies hb) (h_out hb))).
        { destruct Hsab as (A & B & C & D & F). repeat split; assumption. }
        assert (Ha' : agree (clean (clean u k) x) (setr (setr (h_env ha) k (fst kv)) x (snd kv))
                            (setr (setr (h_env hb) k (fst kv)) x (snd kv))).
        { apply agree_setr. apply agree_setr. exact Hab. }
        destruct (IHc _ _ _ _ _ _ _ _ D1 Hs' Ha' Xa Xb) as (A & B & C). subst eb.
        destruct ea as [ee|].
        + inversion Ra; inversion Rb; subst. split; [reflexivity|]. split; [exact B|]. discriminate.
        + eapply (IHl ha1 hb1 B); [|reflexivity|exact Ra|exact Rb].
          eapply agree_weaken; [exact (C eq_refl)|]. intros r0 Hr0.
          rewrite forallb_forall in Esub. unfold tainted in Hr0 at 1. apply existsb_exists in Hr0.
          destruct Hr0 as (z & Hz & Ez). apply Nat.eqb_eq in Ez. subst z. apply Esub. exact Hz. }
    intros l H1 H2. eapply (G l _ _ Hsame Ha); [reflexivity|exact H1|exact H2].
  - (* COut *)
    cbn [du exec h_st h_env h_lim h_log h_copies h_out] in *. destruct (euse u e1) eqn:E; [|discriminate]. injection Hd as <-.
    same_sub Hsame. rewrite (ev_agree o u env1 env2 e1 Ha E) in H1.
    inversion H1; inversion H2; subst. split; [reflexivity|]. split; [repeat split|]. intros _. exact Ha.
  - (* CRaise *)
    cbn in *. injection Hd as <-. inversion H1; inversion H2; subst. split; [reflexivity|]. split; [exact Hsame|]. discriminate.
Qed.

(* the obligation of the eight writers: every instance register is assigned before it is read *)
Theorem writers_reset_instance_state : forall k, exists u', du (prog_of k) inst_regs = Some u'.
Proof.
  intros k. unfold prog_of, prog_with, reset_line, body_of, is_span_kind.
  destruct (k =? W_DFXP); [eexists; vm_compute; reflexivity|].
  destruct (k =? W_SAMI); [destruct (k =? W_SINGLE); destruct (k =? W_LEGACY); eexists; vm_compute; reflexivity|].
  destruct (k =? W_LEGACY); [destruct (k =? W_SINGLE); eexists; vm_compute; reflexivity|].
  destruct (k =? W_SINGLE); [eexists; vm_compute; reflexivity|].
  destruct (k =? W_VTT); [eexists; vm_compute; reflexivity|].
  destruct (k =? W_SCC); [eexists; vm_compute; reflexivity|].
  eexists; vm_compute; reflexivity.
Qed.

Lemma inst_env_agree : forall i1 i2 s, agree inst_regs (inst_env i1 s) (inst_env i2 s).
Proof.
  intros i1 i2 s r Hr. unfold inst_env. unfold tainted, inst_regs in Hr. simpl in Hr.
  destruct (Nat.eqb r 0); [reflexivity|].
  destruct (Nat.eqb r OPEN); [discriminate|]. destruct (Nat.eqb r LAST); [discriminate|].
  destruct (Nat.eqb r GLOBAL); [discriminate|]. reflexivity.
Qed.

(* ANY program that assigns the instance registers before reading them: what it does to the store, what it emits, its
   footprint, copy count and exit are the same for every instance state at entry *)
Theorem prog_instance_independent : forall p u' o st s i1 i2 lim,
  du p inst_regs = Some u' ->
  let r1 := exec o p (mkH st (inst_env i1 s) lim [] 0 []) in
  let r2 := exec o p (mkH st (inst_env i2 s) lim [] 0 []) in
  snd r1 = snd r2 /\ same_heap (fst r1) (fst r2).
Proof.
  intros p u' o st s i1 i2 lim Hd r1 r2. subst r1 r2.
  destruct (exec o p (mkH st (inst_env i1 s) lim [] 0 [])) as [h1' x1] eqn:X1.
  destruct (exec o p (mkH st (inst_env i2 s) lim [] 0 [])) as [h2' x2] eqn:X2.
  assert (Hs : same_heap (mkH st (inst_env i1 s) lim [] 0 []) (mkH st (inst_env i2 s) lim [] 0 [])) by (repeat split).
  destruct (du_sound o p inst_regs u' _ _ _ _ _ _ Hd Hs (inst_env_agree i1 i2 s) X1 X2) as (A & B & _).
  cbn [fst snd]. auto.
Qed.

(* the write of every writer kind (with the reset line of the repaired code): same object again = a fresh object = an
   object that wrote other sets or raised *)
Theorem writeP_instance_independent : forall c k o i1 i2 st s,
  fix15 c = true ->
  let r1 := writeP c k o i1 st s in
  let r2 := writeP c k o i2 st s in
  wr_store r1 = wr_store r2 /\ wr_result r1 = wr_result r2 /\ wr_fp r1 = wr_fp r2 /\ wr_copies r1 = wr_copies r2.
Proof.
  intros c k o i1 i2 st s Hc. cbv zeta. unfold writeP. rewrite Hc.
  destruct (writers_reset_instance_state k) as [u' Hd]. unfold prog_of in Hd.
  pose proof (prog_instance_independent _ u' o st s i1 i2 (length st) Hd) as P. cbv zeta in P.
  destruct (exec o (prog_with true k) (mkH st (inst_env i1 s) (length st) [] 0 [])) as [h1 e1].
  destruct (exec o (prog_with true k) (mkH st (inst_env i2 s) (length st) [] 0 [])) as [h2 e2].
  cbn [fst snd] in P. destruct P as (E & S1 & S2 & S3 & S4 & S5). subst e2. cbn [wr_store wr_result wr_fp wr_copies].
  rewrite S1, S3, S4, S5. auto.
Qed.

(* in ANY world (= after any history): which writer object performs the write - one that wrote other sets, one that raised,
   a new one - does not matter for the store, the exit, the emitted tokens, the footprint, the copy count *)
Theorem stepP_writer_object_irrelevant : forall c w wid1 wid2 k o si,
  fix15 c = true ->
  let r1 := stepP c w (OWrite wid1 k o si) in
  let r2 := stepP c w (OWrite wid2 k o si) in
  w_st (fst r1) = w_st (fst r2) /\ w_sets (fst r1) = w_sets (fst r2) /\
  mo_err (snd r1) = mo_err (snd r2) /\ mo_tokens (snd r1) = mo_tokens (snd r2) /\
  mo_fp (snd r1) = mo_fp (snd r2) /\ mo_copies (snd r1) = mo_copies (snd r2) /\
  mo_changed_below (snd r1) = mo_changed_below (snd r2).
Proof.
  intros c w wid1 wid2 k o si Hc. cbv zeta. unfold stepP.
  destruct (nth_error (w_sets w) si) as [s|]; [|repeat split].
  set (i1 := match lookup wid1 (w_writers w) with Some x => x | None => winst0 end).
  set (i2 := match lookup wid2 (w_writers w) with Some x => x | None => winst0 end).
  destruct (writeP_instance_independent c k o i1 i2 (w_st w) s Hc) as (A & B & C & D).
  cbn [fst snd w_st w_sets mo_err mo_tokens mo_fp mo_copies mo_changed_below].
  rewrite A, B, C, D. repeat split.
Qed.
