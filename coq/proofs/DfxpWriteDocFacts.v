(* C02 / C08, wave 7: the document the string-level DFXP writer model prints (model/DfxpWriteDoc.v) is a well-formed
   rendering; its timing attributes are the C02 writer model's tokens; read by the string-level reader model it yields
   every caption with both instants floored to the millisecond (C02 o C01 at string level, whole documents). *)
From Coq Require Import List ZArith QArith Lia Bool ZifyBool Arith.
From PV Require Import lib.Sx lib.Str lib.Result lib.Dec.
From PV Require Import model.Base model.TimeRead model.TimeWrite model.TimeTree model.XmlRead model.Chain model.DfxpWriteDoc.
From PV Require Import spec.SpecTime spec.SpecTimeTree spec.SpecXmlDocT spec.SpecChain.
From PV Require Import proofs.TimeReadFacts proofs.TimeTreeFacts proofs.ChainFacts proofs.XmlReadFacts.
Import ListNotations.
Open Scope Z_scope.
#[local] Ltac Zify.zify_post_hook ::= Z.to_euclidean_division_equations.

Definition day : Z := 86400000000.

(* ---- the timing attribute --------------------------------------------------------------------------------------- *)
Lemma ts_texpr_token : forall t, 0 <= t < day -> texpr_render (ts_texpr t) = dfxp_ts (inject_Z t).
Proof.
  intros t Ht. unfold dfxp_ts. rewrite format_ts_int by exact Ht.
  assert (Hh : 0 <= f_h t < 100) by (unfold f_h, day in *; lia).
  rewrite (two_padded (f_h t) Hh). reflexivity.
Qed.

Lemma ts_texpr_dom : forall t, 0 <= t < day -> texpr_dom (ts_texpr t) = true.
Proof.
  intros t Ht. unfold ts_texpr, texpr_dom, digits_ok, day in *. cbv zeta. cbn [forallb length Nat.eqb negb]. lia.
Qed.

Lemma ts_texpr_us : forall t, 0 <= t < day -> us (texpr_instant (ts_texpr t)) = fl 1000 t.
Proof.
  intros t Ht. unfold ts_texpr. cbv zeta. unfold texpr_instant, tail_q, frac_q. rewrite us_split.
  cbn [length pos10 digits_num fold_left].
  change (Zpos (10 * (10 * (10 * 1)))) with 1000.
  unfold secs, fl, day in *. lia.
Qed.

(* ---- the document is well formed --------------------------------------------------------------------------------- *)
Definition wcap_ok (c : wcap) : bool :=
  (0 <=? fst (fst c)) && (fst (fst c) <? day) && (0 <=? snd (fst c)) && (snd (fst c) <? day)
  && existsb has_visible_char (snd c).

Lemma tstr_ok_lits : forall s, tstr_ok (lits s) = true.
Proof. intros s. unfold tstr_ok, lits. induction s as [|c s IH]; [reflexivity|]. cbn [map forallb]. rewrite IH. reflexivity. Qed.

Lemma tstr_val_lits : forall s, tstr_val (lits s) = s.
Proof. intros s. unfold tstr_val, lits. rewrite map_map. cbn [fst]. apply map_id. Qed.

Lemma wcontent_cons2 : forall l l2 t,
  wcontent (l :: l2 :: t) = ((lits (DfxpWriteDoc.nl 4%nat ++ l), PBr []) :: fst (wcontent (l2 :: t)), snd (wcontent (l2 :: t))).
Proof. reflexivity. Qed.

Lemma wcontent_ok : forall lines, content_ok (wcontent lines) = true.
Proof.
  induction lines as [|l t IH]; [reflexivity|]. destruct t as [|l2 t].
  - cbn [wcontent]. unfold content_ok. cbn [fst snd forallb]. apply tstr_ok_lits.
  - rewrite wcontent_cons2.
    unfold content_ok in *. cbn [fst snd forallb pel_ok is_ws]. rewrite tstr_ok_lits. cbn [andb]. exact IH.
Qed.

Lemma wps_ok : forall cs, forallb wcap_ok cs = true -> forest_ok (wps cs) = true.
Proof.
  induction cs as [|c cs IH]; intros H; [reflexivity|].
  cbn [forallb] in H. apply andb_true_iff in H. destruct H as [Hc Hcs].
  unfold wcap_ok in Hc. repeat (apply andb_true_iff in Hc; destruct Hc as [Hc ?]).
  cbn [wps forest_ok]. rewrite (IH Hcs). unfold p_ok. rewrite wcontent_ok.
  unfold wp_attrs. cbn [pattrs_ok app]. unfold dfxp_p_dom. cbn [p_begin p_close].
  rewrite !ts_texpr_dom by lia. rewrite orb_true_r. reflexivity.
Qed.

Lemma wdoc_ok : forall lang cs, forallb wcap_ok cs = true -> xdoc_ok (wdoc lang cs) = true.
Proof.
  intros lang cs H. unfold xdoc_ok, wdoc, whead.
  cbn [xd_pi xd_pre xd_l1 xd_lang xd_l2 xd_e xd_body xd_cw xd_post forest_ok]. rewrite (wps_ok cs H). reflexivity.
Qed.

(* ---- what it denotes ------------------------------------------------------------------------------------------------ *)
Lemma flat_wps : forall chain cs,
  flat chain (wps cs) = ([], map (fun c : wcap => (chain, to_ap (wp_attrs c) (wcontent (snd c)))) cs).
Proof. intros chain. induction cs as [|c cs IH]; [reflexivity|]. cbn [wps flat map]. rewrite IH. reflexivity. Qed.

Lemma has_visible_app : forall a b, has_visible_char (a ++ b) = has_visible_char a || has_visible_char b.
Proof. intros. unfold has_visible_char. apply existsb_app. Qed.

Lemma wcontent_visible : forall lines, existsb has_visible_char lines = true ->
  has_visible_char (content_text (wcontent lines)) = true.
Proof.
  induction lines as [|l t IH]; intros H; [discriminate|]. destruct t as [|l2 t].
  - cbn [existsb] in H. rewrite orb_false_r in H. cbn [wcontent]. unfold content_text. cbn [fst snd flat_map app].
    rewrite tstr_val_lits, !has_visible_app, H, orb_true_r. reflexivity.
  - rewrite wcontent_cons2.
    unfold content_text in *. cbn [fst snd flat_map]. rewrite tstr_val_lits, app_nil_r, <- !app_assoc, !has_visible_app.
    cbn [existsb] in H. apply orb_true_iff in H. destruct H as [H|H].
    + rewrite H, !orb_true_r. reflexivity.
    + rewrite has_visible_app in IH. rewrite (IH H), !orb_true_r. reflexivity.
Qed.

Definition floor_cue (c : wcap) : Z * Z := (fl 1000 (fst (fst c)), fl 1000 (snd (fst c))).

Lemma wdoc_expected : forall default lang cs, cs <> [] -> forallb wcap_ok cs = true ->
  xdoc_expected default (wdoc lang cs) = Ok [(lang, map floor_cue cs)].
Proof.
  intros default lang cs Hne H. unfold xdoc_expected, xdoc_divs, xdoc_ps, xdoc_tt_lang, wdoc, whead.
  cbn [xd_body xd_lang flat fst snd app option_map chain_of]. rewrite flat_wps. cbn [fst snd app].
  unfold doc_expected, doc_expected_with. cbn [map nearest_lang languages_in_order existsb app].
  assert (E : flat_map (fun cp : option (list (option str)) * ap =>
                          match fst cp, snd cp with
                          | Some ch, APText _ t => if str_eqb (nearest_lang default (Some (lit "en")) ch) lang then [dfxp_p_expected t] else []
                          | _, _ => []
                          end)
                       (map (fun c : wcap => (Some [Some lang], to_ap (wp_attrs c) (wcontent (snd c)))) cs)
              = map floor_cue cs).
  { clear Hne. induction cs as [|c cs IH]; [reflexivity|].
    cbn [forallb] in H. apply andb_true_iff in H. destruct H as [Hc Hcs].
    cbn [map flat_map fst snd]. rewrite (IH Hcs).
    unfold wcap_ok in Hc. repeat (apply andb_true_iff in Hc; destruct Hc as [Hc ?]).
    unfold to_ap. rewrite (wcontent_visible _ H). unfold wp_attrs. cbn [nearest_lang]. rewrite str_eqb_refl.
    unfold dfxp_p_expected. cbn [p_begin p_close p_is_dur]. rewrite !ts_texpr_us by lia. reflexivity. }
  rewrite !app_nil_r. rewrite E. unfold set_result. cbn [forallb snd]. destruct cs as [|c cs]; [contradiction|]. reflexivity.
Qed.

(* ---- C02 o C01 at string level, whole documents ------------------------------------------------------------------ *)
Theorem dfxp_document_string : forall default lang cs, cs <> [] -> forallb wcap_ok cs = true ->
  dfxp_read_string default (dfxp_write_doc lang cs) = Ok [(lang, map floor_cue cs)].
Proof.
  intros default lang cs Hne H. unfold dfxp_write_doc.
  rewrite (dfxp_string_exact default (wdoc lang cs) (wdoc_ok lang cs H)). exact (wdoc_expected default lang cs Hne H).
Qed.

(* the begin / end attributes of the document are the tokens of the C02 writer model (TimeWrite.dfxp_tokens) *)
Theorem dfxp_document_tokens : forall (c : wcap), 0 <= fst (fst c) < day -> 0 <= snd (fst c) < day ->
  pattrs_list (wp_attrs c)
  = [mkRa f1 (lit "begin") (dfxp_ts (inject_Z (fst (fst c)))); mkRa f1 (lit "end") (dfxp_ts (inject_Z (snd (fst c))));
     at1 (lit "region") (lit "bottom"); at1 (lit "style") (lit "default")].
Proof.
  intros c Hs He. unfold wp_attrs. cbn [pattrs_list app]. unfold begin_attr, close_attr. cbn [p_begin p_close p_is_dur].
  rewrite (ts_texpr_token _ Hs), (ts_texpr_token _ He). reflexivity.
Qed.
