(* C11 (wave 7, round 2): CLOSURE - what a reader model returns for the payload a writer model wrote (balanced flat spans)
   is again in the writers' domain: texts over XML Char without CR, style dictionaries without colour, spans flat and
   balanced with the end node repeating the start node.  Hence the round-trip theorems compose: DFXP -> SAMI -> DFXP and
   SAMI -> DFXP -> SAMI on the flags of every visible character. *)
From Coq Require Import List ZArith Bool Lia ZifyBool.
From PV Require Import lib.Sx lib.Str model.TextNodes model.TextWrite model.TextRead.
From PV Require Import spec.SpecTextXml spec.SpecTextStyle spec.SpecTextChain.
From PV Require Import proofs.TextStrFacts proofs.TextXmlFacts proofs.TextVttFacts proofs.TextReadFacts proofs.TextPayloadFacts proofs.TextStyleFacts.
From PV Require Import proofs.TextRoundtripFacts.
Import ListNotations.
Open Scope Z_scope.

(* ---- characters of a text node come from the source string (or are the blank that stands for a wrap) ---------------- *)
Section chars.
  Variable P : Z -> bool.
  Hypothesis P32 : P 32 = true.

  Lemma forallb_take_while : forall f (s : str), forallb P s = true -> forallb P (take_while f s) = true.
  Proof.
    intros f s. induction s as [|c s IH]; intros H; [reflexivity|]. cbn [forallb] in H. apply andb_true_iff in H. destruct H as [Hc Hs].
    cbn [take_while]. destruct (f c); [cbn [forallb]; rewrite Hc, (IH Hs); reflexivity|reflexivity].
  Qed.
  Lemma forallb_lstrip_by : forall f (s : str), forallb P s = true -> forallb P (lstrip_by f s) = true.
  Proof.
    intros f s. induction s as [|c s IH]; intros H; [reflexivity|]. cbn [lstrip_by]. destruct (f c); [|exact H].
    cbn [forallb] in H. apply andb_true_iff in H. apply IH. apply H.
  Qed.
  Lemma split_by_aux_chars : forall f s cur, forallb P s = true -> forallb P cur = true ->
    Forall (fun l => forallb P l = true) (split_by_aux f s cur).
  Proof.
    intros f s. induction s as [|c s IH]; intros cur Hs Hc.
    - cbn [split_by_aux]. constructor; [rewrite forallb_rev; exact Hc|constructor].
    - cbn [forallb] in Hs. apply andb_true_iff in Hs. destruct Hs as [Hx Hs]. cbn [split_by_aux]. destruct (f c).
      + constructor; [rewrite forallb_rev; exact Hc|]. apply IH; [exact Hs|reflexivity].
      + apply IH; [exact Hs|]. cbn [forallb]. rewrite Hx, Hc. reflexivity.
  Qed.
  Lemma concat_pieces_chars : forall ls, Forall (fun l => forallb P l = true) ls ->
    forallb P (concat (map (fun l => 32 :: lstrip l) (filter nonblank_b ls))) = true.
  Proof.
    induction ls as [|l ls IH]; intros H; [reflexivity|]. inversion H as [|x y Hl Hls]; subst. cbn [filter].
    destruct (nonblank_b l); [|apply IH; exact Hls]. cbn [map concat]. cbn [forallb app]. rewrite P32. cbn [andb].
    rewrite forallb_app, (IH Hls), andb_true_r. apply forallb_lstrip_by. exact Hl.
  Qed.
  Lemma text_node_chars : forall s t, text_node true s = Some t -> forallb P s = true -> forallb P t = true.
  Proof.
    intros s t H Hs. unfold text_node in H. destruct (text_first s) as [[p first]|] eqn:E; [|discriminate]. injection H as <-.
    unfold text_first in E. destruct (rstrip_by is_lf _) as [|z l]; [discriminate|]. injection E as Ep Ef.
    rewrite forallb_app. apply andb_true_iff. split.
    - rewrite <- Ef. apply forallb_take_while. apply forallb_skipn. exact Hs.
    - apply concat_pieces_chars. apply split_by_aux_chars; [apply forallb_skipn; exact Hs|reflexivity].
  Qed.
End chars.

(* ---- token lists: spans do not nest ------------------------------------------------------------------------------ *)
Fixpoint tfl (toks : list xtok) (open : bool) : option bool :=
  match toks with
  | [] => Some open
  | TkOpen _ _ :: t => if open then None else tfl t true
  | TkClose _ :: t => if open then tfl t false else None
  | _ :: t => tfl t open
  end.
Lemma tfl_app : forall a b o, tfl (a ++ b) o = match tfl a o with Some o' => tfl b o' | None => None end.
Proof. induction a as [|tk a IH]; intros b o; [reflexivity|]. destruct tk; cbn [app tfl]; try apply IH; destruct o; try reflexivity; apply IH. Qed.

Section closure.
  Variable dom : style -> bool.
  Variable atok : style -> option (list (str * str)).

  Definition TokP (tk : xtok) : Prop :=
    match tk with
    | TkText s => forallb xml_text_char s = true
    | TkOpen _ a => exists st, dom st = true /\ atok st = Some a
    | _ => True
    end.
  Definition Inv (a : ast) (open : bool) : Prop :=
    tfl (rev (a_out a)) false = Some open /\ Forall TokP (a_out a) /\ forallb xml_text_char (a_cur a) = true.

  Lemma flush_inv : forall cur out o, tfl (rev out) false = Some o -> Forall TokP out -> forallb xml_text_char cur = true ->
    tfl (rev (flush cur out)) false = Some o /\ Forall TokP (flush cur out).
  Proof.
    intros cur out o H1 H2 H3. unfold flush. destruct cur as [|c cur]; [split; assumption|]. split.
    - cbn [rev]. rewrite tfl_app, H1. reflexivity.
    - constructor; [|exact H2]. cbn [TokP]. rewrite forallb_rev. exact H3.
  Qed.

  Lemma inv_text : forall s a o, forallb xml_text_char s = true -> Inv a o -> Inv (a_text s a) o.
  Proof. intros s a o Hs (H1 & H2 & H3). split; [|split]; try assumption. unfold a_text. cbn [a_cur]. rewrite forallb_app, forallb_rev, Hs, H3. reflexivity. Qed.
  Lemma lit_space_text_char : forall ws, forallb lit_space ws = true -> forallb xml_text_char ws = true.
  Proof.
    induction ws as [|w ws IH]; intros H; [reflexivity|]. cbn [forallb] in *. apply andb_true_iff in H. destruct H as [Hw Hws].
    rewrite (IH Hws), andb_true_r. unfold lit_space in Hw. unfold xml_text_char, xml_char. lia.
  Qed.
  Lemma inv_lit : forall ws a o, forallb lit_space ws = true -> Inv a o -> Inv (a_lit ws a) o.
  Proof. intros ws a o Hs (H1 & H2 & H3). split; [|split]; try assumption. unfold a_lit. cbn [a_cur]. rewrite forallb_app, forallb_rev, (lit_space_text_char ws Hs), H3. reflexivity. Qed.
  Lemma forallb_drop_while : forall (P f : Z -> bool) s, forallb P s = true -> forallb P (drop_while f s) = true.
  Proof.
    intros P f s. induction s as [|c s IH]; intros H; [reflexivity|]. cbn [drop_while]. destruct (f c); [|exact H].
    cbn [forallb] in H. apply andb_true_iff in H. apply IH. apply H.
  Qed.
  Lemma inv_rstrip : forall a o, Inv a o -> Inv (a_rstrip a) o.
  Proof. intros a o (H1 & H2 & H3). split; [|split]; try assumption. unfold a_rstrip. cbn [a_cur]. apply forallb_drop_while. exact H3. Qed.
  Lemma inv_mark : forall tk a o o', Inv a o -> TokP tk -> tfl [tk] o = Some o' -> Inv (a_mark tk a) o'.
  Proof.
    intros tk a o o' (H1 & H2 & H3) Htk Hfl. destruct (flush_inv (a_cur a) (a_out a) o H1 H2 H3) as [F1 F2].
    unfold a_mark. split; [|split]; cbn [a_cur a_out]; [|constructor; assumption|reflexivity].
    cbn [rev]. rewrite tfl_app, F1. exact Hfl.
  Qed.
  Lemma inv_br : forall a o, Inv a o -> Inv (a_br a) o.
  Proof.
    intros a o H. unfold a_br. apply inv_lit; [reflexivity|]. apply (inv_mark _ _ o o); [apply inv_rstrip; exact H|exact I|reflexivity].
  Qed.
  Lemma inv_close : forall a, Inv a true -> Inv (a_close a) false.
  Proof. intros a H. unfold a_close. apply (inv_mark _ _ true false); [exact H|exact I|reflexivity]. Qed.
  Lemma inv_close_sp : forall a, Inv a true -> Inv (a_close_sp a) false.
  Proof.
    intros a H. unfold a_close_sp. apply inv_lit; [reflexivity|]. apply (inv_mark _ _ true false); [apply inv_rstrip; exact H|exact I|reflexivity].
  Qed.

  Lemma abs_run_inv : forall sfx acl, forallb lit_space sfx = true -> (forall a, Inv a true -> Inv (acl a) false) ->
    forall ns a cur, flat_aux ns cur = true -> nodes_ok dom ns = true -> Inv a (flag_of atok cur) ->
    Inv (fst (fold_left (abs_step sfx acl atok) ns (a, flag_of atok cur))) false.
  Proof.
    intros sfx acl Hsfx Hacl. induction ns as [|n ns IH]; intros a cur Hf Hn Ha.
    - cbn [flat_aux] in Hf. destruct cur; [discriminate|]. exact Ha.
    - cbn [fold_left]. destruct n as [s| |[] st]; cbn [flat_aux nodes_ok abs_step] in *.
      + apply andb_true_iff in Hn. destruct Hn as [Hs Hn]. apply (IH _ cur Hf Hn). apply inv_lit; [exact Hsfx|]. apply inv_text; assumption.
      + apply (IH _ cur Hf Hn). apply inv_br. exact Ha.
      + destruct cur as [st0|]; [discriminate|]. apply andb_true_iff in Hn. destruct Hn as [Hd Hn]. cbn [flag_of] in *.
        destruct (atok st) as [attrs|] eqn:E.
        * pose proof (IH (a_mark (TkOpen (lit "span") attrs) a) (Some st) Hf Hn) as Q. cbn [flag_of] in Q. rewrite E in Q.
          apply Q. apply (inv_mark _ _ false true); [exact Ha| |reflexivity]. exists st. split; assumption.
        * pose proof (IH a (Some st) Hf Hn) as Q. cbn [flag_of] in Q. rewrite E in Q. apply Q. exact Ha.
      + destruct cur as [st0|]; [|discriminate]. apply andb_true_iff in Hf. destruct Hf as [_ Hf].
        apply andb_true_iff in Hn. destruct Hn as [_ Hn]. cbn [flag_of] in *.
        destruct (opt_some (atok st0)).
        * apply (IH (acl a) None Hf Hn). apply Hacl. exact Ha.
        * apply (IH a None Hf Hn). exact Ha.
  Qed.

  Lemma abs_tokens_inv : forall sfx acl ns, forallb lit_space sfx = true -> (forall a, Inv a true -> Inv (acl a) false) ->
    flat_balanced ns = true -> nodes_ok dom ns = true ->
    tfl (abs_tokens sfx acl atok ns) false = Some false /\ Forall TokP (abs_tokens sfx acl atok ns).
  Proof.
    intros sfx acl ns Hsfx Hacl Hf Hn. unfold abs_tokens, abs_run.
    pose proof (abs_run_inv sfx acl Hsfx Hacl ns (mkA [] []) None Hf Hn) as Q. cbn [flag_of] in Q.
    assert (I0 : Inv (mkA [] []) false) by (split; [reflexivity|split; [constructor|reflexivity]]). specialize (Q I0). apply inv_rstrip in Q.
    destruct Q as (H1 & H2 & H3). cbv zeta. destruct (flush_inv _ _ _ H1 H2 H3) as [F1 F2].
    split; [exact F1|]. apply Forall_rev. exact F2.
  Qed.

  (* ---- the reader on such tokens ------------------------------------------------------------------------------------ *)
  Variable rd : xnode -> list node.
  Variable est : list (str * str) -> option style.
  Hypothesis rd_text : forall s, rd (XText s) = match text_node true s with Some t => [NText t] | None => [] end.
  Hypothesis est_plain : forall st a, dom st = true -> atok st = Some a ->
    match est a with Some s' => plain_style s' = true | None => True end.

  Definition cur_of (stk : list (option style)) : option style := match stk with [Some st] => Some st | _ => None end.
  Definition stk_ok (stk : list (option style)) (open : bool) : Prop :=
    (open = false /\ stk = []) \/ (open = true /\ exists o, stk = [o] /\ match o with Some s' => plain_style s' = true | None => True end).

  Lemma style_eqb_refl : forall st, style_eqb st st = true.
  Proof.
    intros [i b u c]. unfold style_eqb. cbn [st_i st_b st_u st_color]. rewrite !eqb_reflx. cbn [andb].
    destruct c as [c|]; [|reflexivity]. induction c as [|x c IH]; [reflexivity|]. cbn [str_eqb]. rewrite Z.eqb_refl. exact IH.
  Qed.

  Lemma nodes_ok_app : forall d a b, nodes_ok d (a ++ b) = nodes_ok d a && nodes_ok d b.
  Proof.
    intros d a b. induction a as [|n a IH]; [reflexivity|]. destruct n; cbn [app nodes_ok]; rewrite IH; try reflexivity; apply andb_assoc.
  Qed.

  Lemma rd_text_facts : forall s cur, forallb xml_text_char s = true ->
    nodes_ok plain_style (rd (XText s)) = true /\ (forall rest, flat_aux (rd (XText s) ++ rest) cur = flat_aux rest cur).
  Proof.
    intros s cur Hs. rewrite rd_text. destruct (text_node true s) as [t|] eqn:E; [|split; reflexivity]. split; [|reflexivity].
    cbn [nodes_ok]. rewrite (text_node_chars xml_text_char eq_refl s t E Hs). reflexivity.
  Qed.

  Lemma tok_nodes_closed : forall toks stk open, Forall TokP toks -> tfl toks open = Some false -> stk_ok stk open ->
    nodes_ok plain_style (tok_nodes rd est toks stk) = true /\ flat_aux (tok_nodes rd est toks stk) (cur_of stk) = true.
  Proof.
    induction toks as [|tk toks IH]; intros stk open HP Hfl Hst.
    - cbn [tfl] in Hfl. injection Hfl as ->. destruct Hst as [[_ ->]|[Hc _]]; [split; reflexivity|discriminate].
    - inversion HP as [|x y Htk HPs]; subst. destruct tk as [s|n a|n|n a]; cbn [tfl tok_nodes] in *.
      + destruct (rd_text_facts s (cur_of stk) Htk) as [R1 R2]. destruct (IH stk open HPs Hfl Hst) as [I1 I2].
        rewrite nodes_ok_app, R1, I1, R2. split; [reflexivity|exact I2].
      + destruct open; [discriminate|]. destruct Hst as [[_ ->]|[Hc _]]; [|discriminate].
        destruct Htk as (st & Hd & Ha). pose proof (est_plain st a Hd Ha) as Hp.
        assert (Hst2 : stk_ok [est a] true) by (right; split; [reflexivity|exists (est a); split; [reflexivity|exact Hp]]).
        destruct (IH [est a] true HPs Hfl Hst2) as [I1 I2]. destruct (est a) as [s'|]; cbn [open_piece app nodes_ok flat_aux cur_of] in *.
        * rewrite Hp, I1. split; [reflexivity|exact I2].
        * split; assumption.
      + destruct open; [|discriminate]. destruct Hst as [[Hc _]|[_ (o & -> & Ho)]]; [discriminate|].
        assert (Hst2 : stk_ok [] false) by (left; split; reflexivity).
        destruct (IH [] false HPs Hfl Hst2) as [I1 I2]. cbn [hd tl]. destruct o as [s'|]; cbn [close_piece app nodes_ok flat_aux cur_of] in *.
        * rewrite Ho, I1, style_eqb_refl. split; [reflexivity|exact I2].
        * split; assumption.
      + destruct (IH stk open HPs Hfl Hst) as [I1 I2]. cbn [nodes_ok flat_aux]. split; assumption.
  Qed.
End closure.

(* ---- flags: the comparison is an equivalence, a wider mask implies a narrower one --------------------------------------- *)
Lemma flag3_eqb_eq : forall a b, flag3_eqb a b = true -> a = b.
Proof. intros [[[] []] []] [[[] []] []] H; try reflexivity; discriminate. Qed.

Lemma flags_eqb_trans : forall m A B C, flags_eqb m A B = true -> flags_eqb m B C = true -> flags_eqb m A C = true.
Proof.
  intros m. induction A as [|[c f] A IH]; intros [|[d g] B] [|[e h] C] H1 H2; cbn [flags_eqb] in *; try discriminate; [reflexivity|].
  apply andb_true_iff in H1. destruct H1 as [H1 H1r]. apply andb_true_iff in H1. destruct H1 as [Hc Hf].
  apply andb_true_iff in H2. destruct H2 as [H2 H2r]. apply andb_true_iff in H2. destruct H2 as [Hd Hg].
  apply Z.eqb_eq in Hc. apply Z.eqb_eq in Hd. subst. rewrite Z.eqb_refl. apply flag3_eqb_eq in Hf. apply flag3_eqb_eq in Hg.
  rewrite Hf, Hg, flag3_eqb_refl. cbn [andb]. apply (IH B C H1r H2r).
Qed.

Lemma flags_eqb_weaken : forall A B, flags_eqb m_ibu A B = true -> flags_eqb m_i A B = true.
Proof.
  induction A as [|[c f] A IH]; intros [|[d g] B] H; cbn [flags_eqb] in *; try discriminate; [reflexivity|].
  apply andb_true_iff in H. destruct H as [H Hr]. apply andb_true_iff in H. destruct H as [Hc Hf].
  rewrite Hc, (IH B Hr). cbn [andb]. rewrite andb_true_r.
  destruct f as [[[] []] []], g as [[[] []] []]; try reflexivity; discriminate.
Qed.

(* ---- the round trips, with closure ------------------------------------------------------------------------------------ *)
Lemma dfxp_est_plain : forall region st a, plain_style st = true -> dfxp_atok region st = Some a ->
  match dfxp_est a with Some s' => plain_style s' = true | None => True end.
Proof.
  intros region [i b u c] a H E. unfold plain_style in H. cbn [st_color] in H. destruct c; [discriminate|].
  destruct region, i; cbn in E; try discriminate; injection E as <-; reflexivity.
Qed.

Lemma sami_est_plain : forall st a, plain_style st = true -> sami_atok st = Some a ->
  match sami_span_args a with Some s' => plain_style s' = true | None => True end.
Proof.
  intros [i b u c] a H E. unfold plain_style in H. cbn [st_color] in H. destruct c; [discriminate|].
  destruct i, b, u; vm_compute in E; try discriminate; injection E as <-; vm_compute; reflexivity.
Qed.

Theorem dfxp_roundtrip_closed : forall region ns, nodes_ok plain_style ns = true -> flat_balanced ns = true ->
  exists t, content_parse (dfxp_payload (extra_of region) ns) = Some t /\
            nodes_ok plain_style (flat_map (dfxp_nodes true) t) = true /\
            flat_balanced (flat_map (dfxp_nodes true) t) = true /\
            ok_flags m_i ns (flat_map (dfxp_nodes true) t) = true.
Proof.
  intros region ns Hn Hf.
  destruct (abs_tokens_balanced [] a_close (dfxp_atok region) ns a_ok_close Hf) as [Hs Hd].
  destruct (xbuild_ok _ [] [] Hs (Forall_nil _) Hd) as [t Ht]. exists t.
  split; [rewrite dfxp_payload_parse by exact Hn; exact Ht|].
  destruct (dfxp_roundtrip_flags region ns Hn Hf) as (t' & Hp & Hfl & _).
  rewrite dfxp_payload_parse in Hp by exact Hn. rewrite Ht in Hp. injection Hp as <-.
  destruct (abs_tokens_inv plain_style (dfxp_atok region) [] a_close ns eq_refl (inv_close plain_style (dfxp_atok region)) Hf Hn) as [T1 T2].
  rewrite (xbuild_nodes (dfxp_nodes true) dfxp_est dfxp_rd_br dfxp_rd_span _ [] [] t Hs (Forall_nil _) Ht).
  cbn [unwind_nodes rev flat_map app map].
  destruct (tok_nodes_closed plain_style (dfxp_atok region) (dfxp_nodes true) dfxp_est dfxp_rd_text (dfxp_est_plain region)
              _ [] false T2 T1 (or_introl (conj eq_refl eq_refl))) as [C1 C2].
  split; [exact C1|]. split; [exact C2|].
  rewrite (xbuild_nodes (dfxp_nodes true) dfxp_est dfxp_rd_br dfxp_rd_span _ [] [] t Hs (Forall_nil _) Ht) in Hfl.
  exact Hfl.
Qed.

Theorem sami_roundtrip_closed : forall ns, nodes_ok plain_style ns = true -> flat_balanced ns = true ->
  exists t, content_parse (sami_payload ns) = Some t /\
            nodes_ok plain_style (flat_map (sami_nodes true) t) = true /\
            flat_balanced (flat_map (sami_nodes true) t) = true /\
            ok_flags m_ibu ns (flat_map (sami_nodes true) t) = true.
Proof.
  intros ns Hn Hf.
  assert (Hp : content_parse (sami_payload ns) = xbuild (abs_tokens (lit " ") a_close_sp sami_atok ns) [] []).
  { unfold content_parse. rewrite (sami_payload_tokens ns Hn), (sami_abs_tokens_flat ns Hf). reflexivity. }
  destruct (abs_tokens_balanced (lit " ") a_close_sp sami_atok ns a_ok_close_sp Hf) as [Hs Hd].
  destruct (xbuild_ok _ [] [] Hs (Forall_nil _) Hd) as [t Ht]. exists t. split; [rewrite Hp; exact Ht|].
  destruct (sami_roundtrip_flags ns Hn Hf) as (t' & Hp' & _ & Hfl & _). rewrite Hp, Ht in Hp'. injection Hp' as <-.
  destruct (abs_tokens_inv plain_style sami_atok (lit " ") a_close_sp ns eq_refl (inv_close_sp plain_style sami_atok) Hf Hn) as [T1 T2].
  rewrite (xbuild_nodes (sami_nodes true) sami_span_args sami_rd_br sami_rd_span _ [] [] t Hs (Forall_nil _) Ht) in *.
  cbn [unwind_nodes rev flat_map app map] in *.
  destruct (tok_nodes_closed plain_style sami_atok (sami_nodes true) sami_span_args sami_rd_text sami_est_plain
              _ [] false T2 T1 (or_introl (conj eq_refl eq_refl))) as [C1 C2].
  split; [exact C1|]. split; [exact C2|exact Hfl].
Qed.

(* ---- chains: DFXP -> SAMI -> DFXP and SAMI -> DFXP -> SAMI, italic flags of every visible character --------------------- *)

Theorem chain_dfxp_sami_dfxp : forall r1 r2 ns, nodes_ok plain_style ns = true -> flat_balanced ns = true ->
  exists n1 n2 n3,
    rd_dfxp (dfxp_payload (extra_of r1) ns) = Some n1 /\
    rd_sami (sami_payload n1) = Some n2 /\
    rd_dfxp (dfxp_payload (extra_of r2) n2) = Some n3 /\
    ok_flags m_i ns n2 = true /\ ok_flags m_i ns n3 = true /\ flat_balanced n3 = true /\ nodes_ok plain_style n3 = true.
Proof.
  intros r1 r2 ns Hn Hf.
  destruct (dfxp_roundtrip_closed r1 ns Hn Hf) as (t1 & P1 & N1 & F1 & G1).
  destruct (sami_roundtrip_closed _ N1 F1) as (t2 & P2 & N2 & F2 & G2).
  destruct (dfxp_roundtrip_closed r2 _ N2 F2) as (t3 & P3 & N3 & F3 & G3).
  exists (flat_map (dfxp_nodes true) t1), (flat_map (sami_nodes true) t2), (flat_map (dfxp_nodes true) t3).
  unfold rd_dfxp, rd_sami. rewrite P1, P2, P3. cbn [option_map]. repeat split; try assumption.
  - unfold ok_flags in *. apply (flags_eqb_trans m_i _ _ _ G1). apply flags_eqb_weaken. exact G2.
  - unfold ok_flags in *. apply (flags_eqb_trans m_i _ _ _ G1). apply (flags_eqb_trans m_i _ _ _ (flags_eqb_weaken _ _ G2)). exact G3.
Qed.

Theorem chain_sami_dfxp_sami : forall r ns, nodes_ok plain_style ns = true -> flat_balanced ns = true ->
  exists n1 n2 n3,
    rd_sami (sami_payload ns) = Some n1 /\
    rd_dfxp (dfxp_payload (extra_of r) n1) = Some n2 /\
    rd_sami (sami_payload n2) = Some n3 /\
    ok_flags m_ibu ns n1 = true /\ ok_flags m_i ns n2 = true /\ ok_flags m_i ns n3 = true /\
    flat_balanced n3 = true /\ nodes_ok plain_style n3 = true.
Proof.
  intros r ns Hn Hf.
  destruct (sami_roundtrip_closed ns Hn Hf) as (t1 & P1 & N1 & F1 & G1).
  destruct (dfxp_roundtrip_closed r _ N1 F1) as (t2 & P2 & N2 & F2 & G2).
  destruct (sami_roundtrip_closed _ N2 F2) as (t3 & P3 & N3 & F3 & G3).
  exists (flat_map (sami_nodes true) t1), (flat_map (dfxp_nodes true) t2), (flat_map (sami_nodes true) t3).
  unfold rd_dfxp, rd_sami. rewrite P1, P2, P3. cbn [option_map]. repeat split; try assumption.
  - unfold ok_flags in *. apply (flags_eqb_trans m_i _ _ _ (flags_eqb_weaken _ _ G1)). exact G2.
  - unfold ok_flags in *. apply (flags_eqb_trans m_i _ _ _ (flags_eqb_weaken _ _ G1)). apply (flags_eqb_trans m_i _ _ _ G2).
    apply flags_eqb_weaken. exact G3.
Qed.

(* the same as statements about the executable chain functions (spec/SpecTextChain.v) *)
Corollary chain_dsd_flags : forall r1 r2 ns, nodes_ok plain_style ns = true -> flat_balanced ns = true ->
  exists n3, chain_dsd (extra_of r1) (extra_of r2) ns = Some n3 /\ ok_flags m_i ns n3 = true /\ flat_balanced n3 = true.
Proof.
  intros r1 r2 ns Hn Hf. destruct (chain_dfxp_sami_dfxp r1 r2 ns Hn Hf) as (n1 & n2 & n3 & E1 & E2 & E3 & _ & G & F & _).
  exists n3. unfold chain_dsd, obind. rewrite E1, E2, E3. repeat split; assumption.
Qed.

Corollary chain_sds_flags : forall r ns, nodes_ok plain_style ns = true -> flat_balanced ns = true ->
  exists n3, chain_sds (extra_of r) ns = Some n3 /\ ok_flags m_i ns n3 = true /\ flat_balanced n3 = true.
Proof.
  intros r ns Hn Hf. destruct (chain_sami_dfxp_sami r ns Hn Hf) as (n1 & n2 & n3 & E1 & E2 & E3 & _ & _ & G & F & _).
  exists n3. unfold chain_sds, obind. rewrite E1, E2, E3. repeat split; assumption.
Qed.
