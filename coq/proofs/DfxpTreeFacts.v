(* C12: the DFXP round trip at tree level: nearest ancestor wins; write then read gives every word the expected
   effective layout. *)
From Coq Require Import List ZArith QArith Qabs Bool Lia.
From PV Require Import lib.Sx lib.Str lib.Result model.Geometry model.Positioning model.DfxpTree spec.SpecGeom spec.SpecPos.
From PV Require Import proofs.GeomStr proofs.GeomEq proofs.GeomPrint proofs.GeomFacts proofs.PosFacts proofs.Pos12Facts.
Import ListNotations.
Open Scope Z_scope.

(* ---- region resolution on read ---------------------------------------------------------------------------- *)
(* the element's own region attribute wins *)
Lemma determine_own : forall r anc ds, determine_region (Some r) anc ds = Some r.
Proof. reflexivity. Qed.

(* NEAREST ancestor wins: ancestors without a region attribute are skipped, the first one that has it decides,
   whatever the ancestors further out (and the descendants) say *)
Theorem nearest_ancestor_wins : forall pre r outer ds,
  Forall (fun a => a = None) pre ->
  determine_region None (pre ++ Some r :: outer) ds = Some r.
Proof.
  intros pre r outer ds H. unfold determine_region.
  assert (E : region_from_ancestors (pre ++ Some r :: outer) = Some r).
  { induction H as [|a pre Ha _ IH]; [reflexivity|]. subst a. exact IH. }
  rewrite E. reflexivity.
Qed.

(* in particular: a <span> without region inside <p region=rp> inside <div region=rd> resolves to rp, not rd *)
Corollary span_resolves_to_p : forall rp rd ds, determine_region None [Some rp; Some rd] ds = Some rp.
Proof. intros. exact (nearest_ancestor_wins [] rp [Some rd] ds (Forall_nil _)). Qed.

(* the descendants are consulted only when neither the element nor any ancestor has a region *)
Lemma determine_descendants : forall anc ds, Forall (fun a => a = None) anc ->
  determine_region None anc ds = region_from_descendants ds.
Proof.
  intros anc ds H. unfold determine_region.
  assert (E : region_from_ancestors anc = None).
  { induction H as [|a anc Ha _ IH]; [reflexivity|]. subst a. exact IH. }
  rewrite E. reflexivity.
Qed.

(* ---- region table of the written document ----------------------------------------------------------------- *)
Definition ids_unique (m : list (layout * region_id)) : Prop :=
  forall k k' i, In (k, i) m -> In (k', i) m -> k = k'.

Lemma number_regions_rid : forall s seed k i, In (k, i) (number_regions s seed) -> exists n, i = RId n.
Proof.
  induction s as [|x t IH]; intros seed k i H; [destruct H|]. cbn [number_regions] in H.
  destruct (has_region x); [destruct H as [H|H]; [inversion H; eauto|]|]; eauto.
Qed.

Lemma region_map_ids_unique : forall ls, ids_unique (region_map ls).
Proof.
  intros ls k k' i H H'. unfold region_map in *. apply in_app_or in H, H'.
  destruct H as [H|[H|[]]], H' as [H'|[H'|[]]].
  - destruct (number_regions_rid _ _ _ _ H) as [n ->]. eapply number_regions_unique; eassumption.
  - inversion H'; subst. destruct (number_regions_rid _ _ _ _ H) as [n Hn]. discriminate.
  - inversion H; subst. destruct (number_regions_rid _ _ _ _ H') as [n Hn]. discriminate.
  - congruence.
Qed.

Lemma region_id_eqb_eq : forall a b, region_id_eqb a b = true <-> a = b.
Proof.
  intros [|x] [|y]; cbn [region_id_eqb]; split; intros H; try reflexivity; try discriminate.
  - f_equal. lia. - inversion H. lia.
Qed.

Lemma find_by_id : forall m k id, ids_unique m -> In (k, id) m ->
  List.find (fun kv => region_id_eqb (fst kv) id) (map (fun kv => (snd kv, layout_attrs (fst kv))) m)
  = Some (id, layout_attrs k).
Proof.
  induction m as [|[k0 i0] m IH]; intros k id U H; [destruct H|].
  cbn [map List.find fst snd]. destruct (region_id_eqb i0 id) eqn:E.
  - apply region_id_eqb_eq in E. subst i0. assert (k0 = k) by (eapply U; [left; reflexivity|exact H]). subst. reflexivity.
  - destruct H as [H|H]; [inversion H; subst; rewrite (proj2 (region_id_eqb_eq id id) eq_refl) in E; discriminate|].
    apply IH; [|exact H]. intros a b i Ha Hb. eapply U; right; eassumption.
Qed.

Lemma number_regions_has : forall s seed k i, In (k, i) (number_regions s seed) -> has_region k = true.
Proof.
  induction s as [|x t IH]; intros seed k i H; [destruct H|]. cbn [number_regions] in H.
  destruct (has_region x) eqn:E; [destruct H as [H|H]; [inversion H; subst; exact E|]|]; eauto.
Qed.

Lemma region_map_has : forall ls k i, In (k, i) (region_map ls) -> has_region k = true.
Proof.
  intros ls k i H. unfold region_map in H. apply in_app_or in H. destruct H as [H|[H|[]]].
  - eapply number_regions_has; eauto.
  - inversion H; subst. reflexivity.
Qed.

Lemma region_map_default : forall ls, In (dfxp_default_region, RDefault) (region_map ls).
Proof. intros. unfold region_map. apply in_or_app. right. left. reflexivity. Qed.

(* printing respects layout equality: equal layouts give identical region attributes *)
Lemma layout_attrs_compat : forall k e, layout_eqb k e = true -> layout_attrs k = layout_attrs e.
Proof.
  intros [o e p al w] [o' e' p' al' w'] H. apply layout_eqb_iff in H. destruct H as (Ho & He & Hp & Ha).
  cbn [l_origin l_extent l_padding l_alignment] in *. unfold layout_attrs. cbn [l_origin l_extent l_padding l_alignment].
  assert (A1 : option_map point_attr o = option_map point_attr o').
  { destruct o as [x|], o' as [y|]; cbn [opt_rel] in Ho; try contradiction; [|reflexivity].
    destruct Ho as [H1 H2]. cbn [option_map]. unfold point_attr. rewrite (size_str_compat _ _ H1), (size_str_compat _ _ H2). reflexivity. }
  assert (A2 : option_map stretch_attr e = option_map stretch_attr e').
  { destruct e as [x|], e' as [y|]; cbn [opt_rel] in He; try contradiction; [|reflexivity].
    destruct He as [H1 H2]. cbn [option_map]. unfold stretch_attr. rewrite (size_str_compat _ _ H1), (size_str_compat _ _ H2). reflexivity. }
  assert (A3 : option_map padding_attr p = option_map padding_attr p').
  { destruct p as [x|], p' as [y|]; cbn [opt_rel] in Hp; try contradiction; [|reflexivity].
    destruct Hp as (H1 & H2 & H3 & H4). cbn [option_map]. unfold padding_attr.
    rewrite (size_str_compat _ _ H1), (size_str_compat _ _ H2), (size_str_compat _ _ H3), (size_str_compat _ _ H4). reflexivity. }
  assert (A4 : align_attrs al = align_attrs al').
  { destruct al as [x|], al' as [y|]; cbn [opt_rel] in Ha; try contradiction; [|reflexivity].
    destruct Ha as [H1 H2]. unfold align_attrs. rewrite H1, H2. reflexivity. }
  rewrite A1, A2, A3, A4. reflexivity.
Qed.

(* what the reader finds for the region the writer assigned to a layout of the caption set *)
Definition exp_of (o : option layout) : layout :=
  match o with
  | Some e => if has_region e then spec_read_back e else spec_default_read
  | None => spec_default_read
  end.

Definition opt_nonneg (o : option layout) : Prop := match o with Some e => nonneg_layout e | None => True end.

Lemma layout_equiv_refl' : forall l, layout_equiv l l.
Proof. exact layout_equiv_refl. Qed.

Lemma resolve_default : forall ls,
  resolve (map (fun kv => (snd kv, layout_attrs (fst kv))) (region_map ls)) (Some RDefault) = Ok spec_default_read.
Proof.
  intros ls. unfold resolve.
  rewrite (find_by_id _ _ _ (region_map_ids_unique ls) (region_map_default ls)). reflexivity.
Qed.

Theorem resolve_written_region : forall ls o, (o = None \/ In o ls) -> opt_nonneg o ->
  exists r, resolve (map (fun kv => (snd kv, layout_attrs (fst kv))) (region_map ls)) (Some (region_lookup (region_map ls) o)) = Ok r
            /\ layout_equiv r (exp_of o).
Proof.
  intros ls o Hin N. destruct o as [e|].
  2:{ cbn [region_lookup exp_of]. rewrite resolve_default. eexists. split; [reflexivity|apply layout_equiv_refl]. }
  destruct Hin as [Hin|Hin]; [discriminate|]. cbn [opt_nonneg] in N. cbn [region_lookup exp_of].
  destruct (List.find (fun kv => layout_eqb (fst kv) e) (region_map ls)) as [[k id]|] eqn:F.
  - apply find_some in F. destruct F as [Ik Ek]. cbn [fst snd] in *.
    unfold resolve. rewrite (find_by_id _ _ _ (region_map_ids_unique ls) Ik). cbn [snd].
    rewrite (layout_attrs_compat _ _ Ek).
    assert (R : has_region e = true) by (rewrite <- (has_region_eqb _ _ Ek); eapply region_map_has; eauto).
    rewrite R. apply dfxp_attr_roundtrip. exact N.
  - rewrite resolve_default. eexists. split; [reflexivity|].
    destruct (has_region e) eqn:R; [|apply layout_equiv_refl]. exfalso.
    destruct (layout_eqb e dfxp_default_region) eqn:D.
    + pose proof (find_none _ _ F _ (region_map_default ls)) as K. cbn [fst] in K. rewrite layout_eqb_sym in K. congruence.
    + destruct (region_lookup_total ls e Hin R D) as (k & id & _ & _ & L). unfold region_lookup in L. rewrite F in L. discriminate.
Qed.

(* ---- structured captions (the shape readers produce and the statement talks about): plain words / breaks, and
        style spans (with or without a layout of their own) around words / breaks; no nesting ------------------- *)
Inductive gitem := GWord (w : Z) | GBreak.
(* GNest: a style span (st, lay) holding plain items `pre`, ONE inner style span (ist, ilay, ibody), plain items `post` *)
Inductive gseg :=
| GPlain (i : gitem)
| GSpan (styled : bool) (lay : option layout) (body : list gitem)
| GNest (st : bool) (lay : option layout) (pre : list gitem) (ist : bool) (ilay : option layout) (ibody post : list gitem).
Record gcap := mkGcap { gc_layout : option layout; gc_segs : list gseg }.
Record glang := mkGlang { gl_layout : option layout; gl_caps : list gcap }.

Definition item_node (own : option layout) (i : gitem) : dnode :=
  match i with GWord w => mkD 1 false false own w | GBreak => mkD 3 false false None 0 end.
Definition seg_nodes (s : gseg) : list dnode :=
  match s with
  | GPlain i => [item_node None i]
  | GSpan st lay body => mkD 2 true st lay 0 :: map (item_node lay) body ++ [mkD 2 false st lay 0]
  | GNest st lay pre ist ilay ibody post =>
      mkD 2 true st lay 0 :: map (item_node lay) pre ++ mkD 2 true ist ilay 0 :: map (item_node ilay) ibody
      ++ mkD 2 false ist ilay 0 :: map (item_node lay) post ++ [mkD 2 false st lay 0]
  end.
Definition seg_layouts (s : gseg) : list (option layout) :=
  match s with GPlain _ => [] | GSpan _ lay _ => [lay] | GNest _ lay _ _ ilay _ _ => [lay; ilay] end.
(* the domain on which the writer's flattening of nested spans (an inner span start closes the outer span; any style end
   closes whatever is open) loses no layout: the outer span carries no layout, or nothing follows the inner span inside the
   outer one and the inner span has a layout of its own or is not written as a <span> at all *)
Definition seg_harmless (s : gseg) : Prop :=
  match s with
  | GNest st lay pre ist ilay ibody post =>
      opt_layout_truthy lay = false \/ (post = [] /\ (opt_layout_truthy ilay = true \/ ist = false))
  | _ => True
  end.
Definition to_dcap (c : gcap) : dcap := mkDcap (gc_layout c) (flat_map seg_nodes (gc_segs c)).
Definition to_dlang (l : glang) : dlang := mkDlang (gl_layout l) (map to_dcap (gl_caps l)).

(* what the writer assembles *)
Definition item_x (i : gitem) : xitem := match i with GWord w => XText w | GBreak => XBr end.
Definition seg_items (reg : option layout -> region_id) (s : gseg) : list xitem :=
  match s with
  | GPlain i => [item_x i]
  | GSpan st lay body =>
      if st || opt_layout_truthy lay
      then [XSpan (if opt_layout_truthy lay then Some (reg lay) else None) (map item_x body)]
      else map item_x body
  | GNest st lay pre ist ilay ibody post =>
      let ro := if opt_layout_truthy lay then Some (reg lay) else None in
      let ri := if opt_layout_truthy ilay then Some (reg ilay) else None in
      if st || opt_layout_truthy lay then
        if ist || opt_layout_truthy ilay
        then XSpan ro (map item_x pre) :: XSpan ri (map item_x ibody) :: map item_x post   (* the outer span is closed early *)
        else XSpan ro (map item_x pre ++ map item_x ibody) :: map item_x post              (* the inner END closes the outer span *)
      else
        if ist || opt_layout_truthy ilay
        then map item_x pre ++ XSpan ri (map item_x ibody) :: map item_x post
        else map item_x pre ++ map item_x ibody ++ map item_x post
  end.

Lemma write_body_open : forall reg lay body rest r acc out,
  write_nodes reg (map (item_node lay) body ++ rest) (Some (r, acc)) out
  = write_nodes reg rest (Some (r, rev (map item_x body) ++ acc)) out.
Proof.
  induction body as [|i body IH]; intros rest r acc out; [reflexivity|].
  destruct i; cbn [map app item_node write_nodes d_kind d_word Z.eqb Pos.eqb]; rewrite IH; cbn [item_x rev];
    rewrite <- app_assoc; reflexivity.
Qed.

Lemma write_body_closed : forall reg lay body rest out,
  write_nodes reg (map (item_node lay) body ++ rest) None out
  = write_nodes reg rest None (rev (map item_x body) ++ out).
Proof.
  induction body as [|i body IH]; intros rest out; [reflexivity|].
  destruct i; cbn [map app item_node write_nodes d_kind d_word Z.eqb Pos.eqb]; rewrite IH; cbn [item_x rev];
    rewrite <- app_assoc; reflexivity.
Qed.

Lemma nest_app : forall (a b c d : dnode) l1 l2 l3 tl,
  (a :: l1 ++ b :: l2 ++ c :: l3 ++ [d]) ++ tl = a :: l1 ++ b :: l2 ++ c :: l3 ++ d :: tl.
Proof. intros. cbn [app]. rewrite <- app_assoc. cbn [app]. rewrite <- app_assoc. cbn [app]. rewrite <- app_assoc. reflexivity. Qed.

Lemma write_segs : forall reg segs out,
  write_nodes reg (flat_map seg_nodes segs) None out = rev out ++ flat_map (seg_items reg) segs.
Proof.
  induction segs as [|s segs IH]; intros out.
  - cbn [flat_map write_nodes close_span]. rewrite app_nil_r. reflexivity.
  - cbn [flat_map]. destruct s as [i|st lay body|st lay pre ist ilay ibody post].
    3: { cbn [seg_nodes]. rewrite nest_app.
         cbn [write_nodes d_kind d_start d_styled d_layout Z.eqb Pos.eqb close_span]. cbn [seg_items].
         destruct (st || opt_layout_truthy lay) eqn:A; destruct (ist || opt_layout_truthy ilay) eqn:B.
         - rewrite write_body_open. cbn [write_nodes d_kind d_start d_styled d_layout Z.eqb Pos.eqb close_span]. rewrite B.
           rewrite write_body_open. cbn [write_nodes d_kind d_start d_styled d_layout Z.eqb Pos.eqb close_span].
           rewrite write_body_closed. cbn [write_nodes d_kind d_start d_styled d_layout Z.eqb Pos.eqb close_span].
           rewrite IH. rewrite ?app_nil_r, ?rev_app_distr, ?rev_involutive. cbn [rev app]. rewrite <- ?app_assoc. cbn [app]. rewrite ?rev_app_distr, ?rev_involutive, <- ?app_assoc. cbn [app]. reflexivity.
         - rewrite write_body_open. cbn [write_nodes d_kind d_start d_styled d_layout Z.eqb Pos.eqb close_span]. rewrite B.
           rewrite write_body_open. cbn [write_nodes d_kind d_start d_styled d_layout Z.eqb Pos.eqb close_span].
           rewrite write_body_closed. cbn [write_nodes d_kind d_start d_styled d_layout Z.eqb Pos.eqb close_span].
           rewrite IH. rewrite ?app_nil_r, ?rev_app_distr, ?rev_involutive. cbn [rev app]. rewrite <- ?app_assoc. cbn [app]. rewrite ?rev_app_distr, ?rev_involutive, <- ?app_assoc. cbn [app]. reflexivity.
         - rewrite write_body_closed. cbn [write_nodes d_kind d_start d_styled d_layout Z.eqb Pos.eqb close_span]. rewrite B.
           rewrite write_body_open. cbn [write_nodes d_kind d_start d_styled d_layout Z.eqb Pos.eqb close_span].
           rewrite write_body_closed. cbn [write_nodes d_kind d_start d_styled d_layout Z.eqb Pos.eqb close_span].
           rewrite IH. rewrite ?app_nil_r, ?rev_app_distr, ?rev_involutive. cbn [rev app]. rewrite <- ?app_assoc. cbn [app]. rewrite ?rev_app_distr, ?rev_involutive, <- ?app_assoc. cbn [app]. reflexivity.
         - rewrite write_body_closed. cbn [write_nodes d_kind d_start d_styled d_layout Z.eqb Pos.eqb close_span]. rewrite B.
           rewrite write_body_closed. cbn [write_nodes d_kind d_start d_styled d_layout Z.eqb Pos.eqb close_span].
           rewrite write_body_closed. cbn [write_nodes d_kind d_start d_styled d_layout Z.eqb Pos.eqb close_span].
           rewrite IH. rewrite ?app_nil_r, ?rev_app_distr, ?rev_involutive. cbn [rev app]. rewrite <- ?app_assoc. cbn [app]. rewrite ?rev_app_distr, ?rev_involutive, <- ?app_assoc. cbn [app]. reflexivity. }
    + destruct i; cbn [seg_nodes item_node app write_nodes d_kind d_word Z.eqb Pos.eqb]; rewrite IH; cbn [rev seg_items item_x app];
        rewrite <- app_assoc; reflexivity.
    + cbn [seg_nodes app write_nodes d_kind d_start d_styled d_layout Z.eqb Pos.eqb close_span]. rewrite <- app_assoc.
      cbn [seg_items]. destruct (st || opt_layout_truthy lay) eqn:A.
      * rewrite write_body_open. cbn [app write_nodes d_kind d_start Z.eqb Pos.eqb close_span].
        rewrite IH. cbn [rev]. rewrite app_nil_r, rev_involutive, <- app_assoc. reflexivity.
      * rewrite write_body_closed. cbn [app write_nodes d_kind d_start Z.eqb Pos.eqb].
        rewrite IH. rewrite rev_app_distr, rev_involutive, <- app_assoc. reflexivity.
Qed.

(* ---- reading what was written ---------------------------------------------------------------------------------- *)
Lemma read_item_span_unfold : forall regs anc parent r body,
  read_item regs anc parent (XSpan r body) =
  (do lay <- resolve regs (determine_region r anc (flat_map elem_regions body));
   do ws <- res_map (read_item regs (r :: anc) lay) body; Ok (concat ws)).
Proof.
  intros regs anc parent r body. cbn [read_item]. destruct (resolve regs _) as [lay|]; [|reflexivity]. cbn [bind].
  assert (E : forall l,
    (fix go (l : list xitem) : result (list (list (Z * layout))) :=
       match l with
       | [] => Ok []
       | x :: t => do a <- read_item regs (r :: anc) lay x; do b <- go t; Ok (a :: b)
       end) l = res_map (read_item regs (r :: anc) lay) l).
  { induction l as [|x t IH]; [reflexivity|]. cbn [res_map]. rewrite IH. reflexivity. }
  rewrite E. reflexivity.
Qed.

Definition item_words (lay : layout) (i : gitem) : list (Z * layout) :=
  match i with GWord w => [(w, lay)] | GBreak => [] end.

Lemma read_flat_body : forall regs anc lay body,
  res_map (read_item regs anc lay) (map item_x body) = Ok (map (item_words lay) body).
Proof.
  induction body as [|i body IH]; [reflexivity|]. cbn [map res_map]. rewrite IH. destruct i; reflexivity.
Qed.

(* words of a caption as the statement expects them: (word, expected effective layout) *)
Definition seg_expected (lang cap : option layout) (s : gseg) : list (Z * layout) :=
  match s with
  | GPlain i => item_words (expected_effective lang cap None) i
  | GSpan _ lay body => flat_map (item_words (expected_effective lang cap lay)) body
  | GNest _ lay pre _ ilay ibody post =>
      (* node level: the nearest enclosing span that has a layout *)
      flat_map (item_words (expected_effective lang cap lay)) pre
      ++ flat_map (item_words (expected_effective lang cap (if opt_layout_truthy ilay then ilay else lay))) ibody
      ++ flat_map (item_words (expected_effective lang cap lay)) post
  end.

Definition words_rel (a b : list (Z * layout)) : Prop :=
  Forall2 (fun x y => fst x = fst y /\ layout_equiv (snd x) (snd y)) a b.

Lemma words_rel_items : forall r e body, layout_equiv r e ->
  words_rel (concat (map (item_words r) body)) (flat_map (item_words e) body).
Proof.
  intros r e body H. induction body as [|i body IH]; [constructor|]. cbn [map concat flat_map].
  destruct i; cbn [item_words app]; [constructor; [split; [reflexivity|exact H]|exact IH]|exact IH].
Qed.

Lemma words_rel_app : forall a b c d, words_rel a b -> words_rel c d -> words_rel (a ++ c) (b ++ d).
Proof. intros. apply Forall2_app; assumption. Qed.

Lemma has_region_truthy : forall e, has_region e = true -> layout_truthy e = true.
Proof. intros [o e p al w] H. unfold has_region, layout_truthy in *. cbn in *. destruct o, e, p, al; try discriminate; reflexivity. Qed.

(* exp_of of the writer's choice is the statement's expected effective layout *)
Lemma exp_of_choice : forall l c n, exp_of (dfxp_choice None l c n) = expected_effective l c n.
Proof.
  intros l c n. rewrite dfxp_choice_is_spec. unfold exp_of. destruct (dfxp_choice None l c n) as [e|]; [|reflexivity].
  destruct (has_region e) eqn:R; [rewrite (has_region_truthy _ R); reflexivity|rewrite andb_false_r; reflexivity].
Qed.

Lemma choice_truthy_node : forall l c e, layout_truthy e = true -> dfxp_choice None l c (Some e) = Some e.
Proof.
  intros l c e T. unfold dfxp_choice. cbn zeta. cbn [opt_layout_truthy].
  repeat (rewrite T; cbn iota beta; cbn [opt_layout_truthy]). reflexivity.
Qed.

Lemma choice_falsy_node : forall l c n, opt_layout_truthy n = false -> dfxp_choice None l c n = dfxp_choice None l c None.
Proof. intros l c n T. unfold dfxp_choice. rewrite T. reflexivity. Qed.

Lemma expected_falsy_node : forall l c n, opt_layout_truthy n = false -> expected_effective l c n = expected_effective l c None.
Proof. intros l c n T. rewrite <- !exp_of_choice, (choice_falsy_node _ _ _ T). reflexivity. Qed.

Lemma res_map_app : forall {A B} (f : A -> result B) l1 l2 w1 w2,
  res_map f l1 = Ok w1 -> res_map f l2 = Ok w2 -> res_map f (l1 ++ l2) = Ok (w1 ++ w2).
Proof.
  intros A B f. induction l1 as [|x t IH]; intros l2 w1 w2 E1 E2.
  - cbn [res_map] in E1. inversion E1; subst. exact E2.
  - cbn [app res_map] in *. destruct (f x) as [a|]; [|discriminate]. cbn [bind] in *.
    destruct (res_map f t) as [b|] eqn:Eb; [|discriminate]. cbn [bind] in E1. inversion E1; subst.
    rewrite (IH l2 b w2 eq_refl E2). reflexivity.
Qed.

Lemma concat_item_words : forall r body, concat (map (item_words r) body) = flat_map (item_words r) body.
Proof. intros. rewrite flat_map_concat_map. reflexivity. Qed.

Section OneDocument.
  Variable ls : list (option layout).
  Hypothesis NN : Forall opt_nonneg ls.
  Let m := region_map ls.
  Let regs := map (fun kv : layout * region_id => (snd kv, layout_attrs (fst kv))) m.

  Lemma resolve_in : forall o, (o = None \/ In o ls) ->
    exists r, resolve regs (Some (region_lookup m o)) = Ok r /\ layout_equiv r (exp_of o).
  Proof.
    intros o H. apply resolve_written_region; [exact H|].
    destruct H as [->|H]; [exact I|]. rewrite Forall_forall in NN. apply NN. exact H.
  Qed.

  Lemma choice_in : forall l c, In l ls -> (c = None \/ In c ls) ->
    dfxp_choice None l c None = None \/ In (dfxp_choice None l c None) ls.
  Proof.
    intros l c Hl [->|Hc].
    { unfold dfxp_choice. cbn zeta. cbn [opt_layout_truthy].
      destruct (opt_layout_truthy l) eqn:Tl; [right; exact Hl|left; reflexivity]. } unfold dfxp_choice. cbn zeta. cbn [opt_layout_truthy].
    destruct (opt_layout_truthy c) eqn:Tc; [rewrite Tc; right; exact Hc|].
    destruct (opt_layout_truthy l) eqn:Tl; [right; exact Hl|left; reflexivity].
  Qed.

  (* one segment, read inside <p region=rp> inside <div region=rd>, the p having layout rlay *)
  Lemma read_seg : forall lang cap rp rd rlay s,
    In lang ls -> In cap ls -> (forall l, In l (seg_layouts s) -> In l ls) -> seg_harmless s ->
    rp = region_lookup m (dfxp_choice None lang cap None) ->
    resolve regs (Some rp) = Ok rlay -> layout_equiv rlay (expected_effective lang cap None) ->
    exists ws, res_map (read_item regs [Some rp; Some rd] rlay) (seg_items (region_lookup m) s) = Ok ws
               /\ words_rel (concat ws) (seg_expected lang cap s).
  Proof.
    intros lang cap rp rd rlay s Hl Hc Hs Hh Erp Hr Hq. destruct s as [i|st lay body|st lay pre ist ilay ibody post].
    3: { (* nested spans, flattened by the writer *)
      assert (Hlay : In lay ls) by (apply Hs; left; reflexivity).
      assert (Hilay : In ilay ls) by (apply Hs; right; left; reflexivity).
      (* reading a written span with region of `x` (truthy) / without region (falsy: nearest ancestor = the <p>) *)
      assert (Span : forall x body, In x ls ->
                exists w, read_item regs [Some rp; Some rd] rlay
                            (XSpan (if opt_layout_truthy x then Some (region_lookup m x) else None) (map item_x body)) = Ok w
                          /\ words_rel w (flat_map (item_words (expected_effective lang cap x)) body)).
      { intros x body Hx. rewrite read_item_span_unfold. destruct (opt_layout_truthy x) eqn:T.
        - rewrite determine_own. destruct (resolve_in x (or_intror Hx)) as (r & Er & Qr). rewrite Er. cbn [bind].
          rewrite read_flat_body. cbn [bind]. eexists. split; [reflexivity|]. apply words_rel_items.
          destruct x as [e|]; [|discriminate]. cbn [opt_layout_truthy] in T.
          rewrite <- exp_of_choice, (choice_truthy_node _ _ _ T). exact Qr.
        - rewrite span_resolves_to_p, Hr. cbn [bind]. rewrite read_flat_body. cbn [bind]. eexists. split; [reflexivity|].
          rewrite (expected_falsy_node _ _ _ T). apply words_rel_items. exact Hq. }
      assert (Bare : forall body, res_map (read_item regs [Some rp; Some rd] rlay) (map item_x body) = Ok (map (item_words rlay) body)
                                  /\ words_rel (concat (map (item_words rlay) body)) (flat_map (item_words (expected_effective lang cap None)) body)).
      { intros body. split; [apply read_flat_body|apply words_rel_items; exact Hq]. }
      cbn [seg_items seg_expected seg_harmless] in *.
      destruct (opt_layout_truthy lay) eqn:TL.
      - (* the outer span has a layout: nothing follows the inner span, which has its own layout or is not written *)
        destruct Hh as [Hh|(-> & Hi)]; [discriminate|]. rewrite orb_true_r. cbn [map flat_map]. rewrite !app_nil_r.
        destruct Hi as [TI| ->].
        + rewrite TI, orb_true_r.
          destruct (Span lay pre Hlay) as (w1 & E1 & Q1). destruct (Span ilay ibody Hilay) as (w2 & E2 & Q2).
          rewrite TL in E1. rewrite TI in E2. cbn [res_map]. rewrite E1. cbn [bind]. rewrite E2. cbn [bind].
          eexists. split; [reflexivity|]. cbn [concat]. rewrite app_nil_r. apply words_rel_app; assumption.
        + cbn [orb]. destruct (opt_layout_truthy ilay) eqn:TI.
          * destruct (Span lay pre Hlay) as (w1 & E1 & Q1). destruct (Span ilay ibody Hilay) as (w2 & E2 & Q2).
            rewrite TL in E1. rewrite TI in E2. cbn [res_map]. rewrite E1. cbn [bind]. rewrite E2. cbn [bind].
            eexists. split; [reflexivity|]. cbn [concat]. rewrite app_nil_r. apply words_rel_app; assumption.
          * (* the inner span is not written: its words sit in the outer span *)
            destruct (Span lay (pre ++ ibody) Hlay) as (w1 & E1 & Q1). rewrite TL, map_app in E1.
            cbn [res_map]. rewrite E1. cbn [bind]. eexists. split; [reflexivity|]. cbn [concat]. rewrite app_nil_r.
            rewrite flat_map_app in Q1. exact Q1.
      - (* the outer span has no layout: every word not in a span with its own region resolves to the <p> *)
        rewrite orb_false_r. rewrite (expected_falsy_node _ _ _ TL).
        assert (EI : expected_effective lang cap (if opt_layout_truthy ilay then ilay else lay) = expected_effective lang cap ilay).
        { destruct (opt_layout_truthy ilay) eqn:TI; [reflexivity|].
          rewrite (expected_falsy_node _ _ _ TL), (expected_falsy_node _ _ _ TI). reflexivity. }
        rewrite EI.
        destruct (Span lay pre Hlay) as (w1 & E1 & Q1). rewrite TL in E1. rewrite (expected_falsy_node _ _ _ TL) in Q1.
        destruct (Span ilay ibody Hilay) as (w2 & E2 & Q2).
        destruct (Bare pre) as (Bp & Qp). destruct (Bare ibody) as (Bi & Qi). destruct (Bare post) as (Bo & Qo).
        destruct st; cbn [orb].
        + destruct (ist || opt_layout_truthy ilay) eqn:B.
          * cbn [res_map]. rewrite E1. cbn [bind].
            assert (E2' : read_item regs [Some rp; Some rd] rlay
                     (XSpan (if opt_layout_truthy ilay then Some (region_lookup m ilay) else None) (map item_x ibody)) = Ok w2) by exact E2.
            rewrite E2'. cbn [bind]. rewrite Bo. cbn [bind]. eexists. split; [reflexivity|]. cbn [concat].
            apply words_rel_app; [exact Q1|]. apply words_rel_app; [exact Q2|exact Qo].
          * apply orb_false_iff in B. destruct B as [-> TI].
            destruct (Span lay (pre ++ ibody) Hlay) as (w3 & E3 & Q3). rewrite TL, map_app in E3.
            rewrite (expected_falsy_node _ _ _ TL), flat_map_app in Q3. rewrite (expected_falsy_node _ _ _ TI).
            cbn [res_map]. rewrite E3. cbn [bind]. rewrite Bo. cbn [bind]. eexists. split; [reflexivity|]. cbn [concat].
            rewrite app_assoc. apply words_rel_app; [exact Q3|exact Qo].
        + destruct (ist || opt_layout_truthy ilay) eqn:B.
          * assert (R2 : res_map (read_item regs [Some rp; Some rd] rlay)
                           (XSpan (if opt_layout_truthy ilay then Some (region_lookup m ilay) else None) (map item_x ibody) :: map item_x post)
                         = Ok (w2 :: map (item_words rlay) post)).
            { cbn [res_map]. rewrite E2. cbn [bind]. rewrite Bo. reflexivity. }
            rewrite (res_map_app _ _ _ _ _ Bp R2). eexists. split; [reflexivity|]. rewrite concat_app. cbn [concat].
            apply words_rel_app; [exact Qp|]. apply words_rel_app; [exact Q2|exact Qo].
          * apply orb_false_iff in B. destruct B as [-> TI]. rewrite (expected_falsy_node _ _ _ TI).
            rewrite (res_map_app _ _ _ _ _ Bp (res_map_app _ _ _ _ _ Bi Bo)). eexists. split; [reflexivity|].
            rewrite !concat_app. apply words_rel_app; [exact Qp|]. apply words_rel_app; [exact Qi|exact Qo]. }
    - cbn [seg_items seg_expected res_map]. destruct i; cbn [item_x read_item bind res_map concat item_words app].
      + eexists. split; [reflexivity|]. constructor; [split; [reflexivity|exact Hq]|constructor].
      + eexists. split; [reflexivity|]. constructor.
    - assert (Hs' : In lay ls) by (apply Hs; left; reflexivity). clear Hs. rename Hs' into Hs. cbn [seg_items seg_expected].
      destruct (opt_layout_truthy lay) eqn:T.
      + (* the span carries its own region *)
        rewrite orb_true_r. cbn [res_map]. rewrite read_item_span_unfold, determine_own.
        destruct (resolve_in lay (or_intror Hs)) as (r & Er & Qr). rewrite Er. cbn [bind].
        rewrite read_flat_body. cbn [bind]. eexists. split; [reflexivity|]. cbn [concat]. rewrite app_nil_r.
        apply words_rel_items. destruct lay as [e|]; [|discriminate]. cbn [opt_layout_truthy] in T.
        rewrite <- exp_of_choice, (choice_truthy_node _ _ _ T). exact Qr.
      + rewrite orb_false_r. rewrite (expected_falsy_node _ _ _ T). destruct st.
        * (* a span without region: NEAREST ancestor = the <p> *)
          cbn [res_map]. rewrite read_item_span_unfold, span_resolves_to_p, Hr. cbn [bind].
          rewrite read_flat_body. cbn [bind]. eexists. split; [reflexivity|]. cbn [concat]. rewrite app_nil_r.
          apply words_rel_items. exact Hq.
        * (* no span is written: the words are children of the <p> *)
          rewrite read_flat_body. eexists. split; [reflexivity|]. apply words_rel_items. exact Hq.
  Qed.

  Lemma read_segs : forall lang cap rp rd rlay segs,
    In lang ls -> In cap ls -> (forall s l, In s segs -> In l (seg_layouts s) -> In l ls) -> Forall seg_harmless segs ->
    rp = region_lookup m (dfxp_choice None lang cap None) ->
    resolve regs (Some rp) = Ok rlay -> layout_equiv rlay (expected_effective lang cap None) ->
    exists ws, res_map (read_item regs [Some rp; Some rd] rlay) (flat_map (seg_items (region_lookup m)) segs) = Ok ws
               /\ words_rel (concat ws) (flat_map (seg_expected lang cap) segs).
  Proof.
    intros lang cap rp rd rlay segs Hl Hc Hs Hh Erp Hr Hq. induction segs as [|s segs IH].
    - exists []. split; [reflexivity|constructor].
    - cbn [flat_map]. pose proof (Forall_inv Hh) as Hh1. pose proof (Forall_inv_tail Hh) as Hh2.
      destruct (read_seg lang cap rp rd rlay s Hl Hc (fun l E => Hs s l (or_introl eq_refl) E) Hh1 Erp Hr Hq)
        as (w1 & E1 & Q1).
      destruct IH as (w2 & E2 & Q2). { intros s0 l Hi E. eapply Hs; [right; exact Hi|exact E]. } { exact Hh2. }
      exists (w1 ++ w2). split.
      + exact (res_map_app _ _ _ _ _ E1 E2).
      + rewrite concat_app. apply words_rel_app; assumption.
  Qed.
End OneDocument.

(* ---- the whole document ---------------------------------------------------------------------------------------- *)
Definition cap_rel (lang : option layout) (rc : rcap) (gc : gcap) : Prop :=
  layout_equiv (rc_layout rc) (expected_effective lang (gc_layout gc) None)
  /\ words_rel (rc_words rc) (flat_map (seg_expected lang (gc_layout gc)) (gc_segs gc)).
Definition lang_rel (rl : rlang) (gl : glang) : Prop :=
  layout_equiv (rl_layout rl) (expected_effective (gl_layout gl) None None)
  /\ Forall2 (cap_rel (gl_layout gl)) (rl_caps rl) (gl_caps gl).

Lemma res_map_map_F2 : forall {A B C} (f : B -> result C) (g : A -> B) (R : C -> A -> Prop) l,
  (forall x, In x l -> exists y, f (g x) = Ok y /\ R y x) ->
  exists ys, res_map f (map g l) = Ok ys /\ Forall2 R ys l.
Proof.
  intros A B C f g R. induction l as [|x l IH]; intros H.
  - exists []. split; [reflexivity|constructor].
  - destruct (H x (or_introl eq_refl)) as (y & Ey & Ry).
    destruct IH as (ys & Eys & Rys). { intros x0 Hx0. apply H. right. exact Hx0. }
    exists (y :: ys). split; [cbn [map res_map]; rewrite Ey, Eys; reflexivity|constructor; assumption].
Qed.

Lemma in_set_lang : forall langs gl, In gl langs -> In (gl_layout gl) (set_layouts (map to_dlang langs)).
Proof.
  intros langs gl H. unfold set_layouts. apply in_flat_map. exists (to_dlang gl). split; [apply in_map; exact H|].
  left. reflexivity.
Qed.

Lemma in_set_cap : forall langs gl gc, In gl langs -> In gc (gl_caps gl) -> In (gc_layout gc) (set_layouts (map to_dlang langs)).
Proof.
  intros langs gl gc H Hc. unfold set_layouts. apply in_flat_map. exists (to_dlang gl). split; [apply in_map; exact H|].
  right. apply in_flat_map. exists (to_dcap gc). split; [cbn [to_dlang dl_caps]; apply in_map; exact Hc|]. left. reflexivity.
Qed.

Lemma in_set_span : forall langs gl gc s l, In gl langs -> In gc (gl_caps gl) -> In s (gc_segs gc) -> In l (seg_layouts s) ->
  In l (set_layouts (map to_dlang langs)).
Proof.
  intros langs gl gc s l H Hc Hs Hl. unfold set_layouts. apply in_flat_map. exists (to_dlang gl). split; [apply in_map; exact H|].
  right. apply in_flat_map. exists (to_dcap gc). split; [cbn [to_dlang dl_caps]; apply in_map; exact Hc|]. right.
  cbn [to_dcap dc_nodes]. apply in_map_iff.
  destruct s as [i|st lay body|st lay pre ist ilay ibody post]; cbn [seg_layouts] in Hl.
  - destruct Hl.
  - destruct Hl as [<-|[]]. exists (mkD 2 true st lay 0). split; [reflexivity|].
    apply in_flat_map. exists (GSpan st lay body). split; [exact Hs|]. left. reflexivity.
  - destruct Hl as [<-|[<-|[]]].
    + exists (mkD 2 true st lay 0). split; [reflexivity|].
      apply in_flat_map. exists (GNest st lay pre ist ilay ibody post). split; [exact Hs|]. left. reflexivity.
    + exists (mkD 2 true ist ilay 0). split; [reflexivity|].
      apply in_flat_map. exists (GNest st lay pre ist ilay ibody post). split; [exact Hs|]. cbn [seg_nodes]. right.
      apply in_or_app. right. left. reflexivity.
Qed.

(* DFXP write then read: the language-level layout, every caption's layout and every word's layout are the expected
   effective layouts (node > caption > language, two-decimal values, defaults start / after) *)
Definition lang_harmless (gl : glang) : Prop := Forall (fun gc => Forall seg_harmless (gc_segs gc)) (gl_caps gl).

Theorem dfxp_layout_roundtrip : forall langs, Forall opt_nonneg (set_layouts (map to_dlang langs)) ->
  Forall lang_harmless langs ->
  exists obs, dfxp_roundtrip None (map to_dlang langs) = Ok obs /\ Forall2 lang_rel obs langs.
Proof.
  intros langs NN HH. unfold dfxp_roundtrip, write_doc, read_doc. cbn [x_regions x_divs].
  set (ls := set_layouts (map to_dlang langs)) in *. set (m := region_map ls).
  set (regs := map (fun kv : layout * region_id => (snd kv, layout_attrs (fst kv))) m).
  rewrite map_map. apply res_map_map_F2. intros gl Hgl.
  pose proof (in_set_lang langs gl Hgl) as Hl. fold ls in Hl.
  unfold read_div, write_lang. cbn [xd_region xd_ps to_dlang dl_layout dl_caps]. rewrite determine_own.
  destruct (resolve_in ls NN _ (choice_in ls (gl_layout gl) None Hl (or_introl eq_refl))) as (rd_lay & Erd & Qrd).
  fold m regs in Erd. rewrite Erd. cbn [bind]. rewrite exp_of_choice in Qrd.
  set (rd := region_lookup m (dfxp_choice None (gl_layout gl) None None)).
  assert (Caps : exists cs, res_map (read_p regs (Some rd)) (map (write_cap m None (gl_layout gl)) (map to_dcap (gl_caps gl))) = Ok cs
                            /\ Forall2 (cap_rel (gl_layout gl)) cs (gl_caps gl)).
  { rewrite map_map. apply res_map_map_F2. intros gc Hgc.
    pose proof (in_set_cap langs gl gc Hgl Hgc) as Hc. fold ls in Hc.
    unfold read_p, write_cap. cbn [xp_region xp_items to_dcap dc_layout dc_nodes]. rewrite determine_own.
    destruct (resolve_in ls NN _ (choice_in ls (gl_layout gl) (gc_layout gc) Hl (or_intror Hc))) as (rlay & Er & Qr).
    fold m regs in Er. rewrite Er. cbn [bind]. rewrite exp_of_choice in Qr.
    pose proof (write_segs (region_lookup m) (gc_segs gc) []) as W. cbn [rev app] in W. rewrite W.
    destruct (read_segs ls NN (gl_layout gl) (gc_layout gc) (region_lookup m (dfxp_choice None (gl_layout gl) (gc_layout gc) None))
                        rd rlay (gc_segs gc) Hl Hc) as (ws & Ews & Qws).
    - intros s l Hs E. exact (in_set_span langs gl gc s l Hgl Hgc Hs E).
    - rewrite Forall_forall in HH. specialize (HH gl Hgl). unfold lang_harmless in HH. rewrite Forall_forall in HH. exact (HH gc Hgc).
    - reflexivity.
    - exact Er.
    - exact Qr.
    - fold m regs in Ews. rewrite Ews. cbn [bind]. eexists. split; [reflexivity|]. split; [exact Qr|exact Qws]. }
  destruct Caps as (cs & Ecs & Qcs). rewrite Ecs. cbn [bind]. eexists. split; [reflexivity|]. split; [exact Qrd|exact Qcs].
Qed.
