(* C17, wave 7 (part 2): builder sccr's reader model (model/SccDecoder.v: translate_word with the double-command filter,
   the position tracker, the node creator) run on the words of ONE load line of the SCC writer's layout
       ENM ENM RCL RCL  { PAC_r PAC_r  characters of row r in pairs (filler 0x80) }  r = first .. first+n-1   EDM EDM EOC EOC
   for ARBITRARY rows of basic characters on consecutive rows within 1..15 (the writer's PACs are the indent form with
   indent 0, see proofs/SccwBridgeFacts.v).  Result (`load_line_run`): the caption displayed before is closed at the
   instant of the first EDM, and - unless all rows are blank - a plain buffer (text and break nodes only) whose words are
   the words of the rows is queued with the instant of the first EOC as its start. *)
From Coq Require Import List ZArith QArith Lia Bool ZifyBool.
From PV Require Import lib.Sx lib.Str lib.Result model.GenScc model.SccLen model.SccTime model.SccStash model.SccDecoder.
From PV Require Import model.GenSccw model.SccWrap model.SccWrite spec.SpecSccw model.SccRoundTrip.
From PV Require Import proofs.SccDecodeFacts proofs.SccWriteFacts proofs.SccDocFacts proofs.SccwBridgeFacts proofs.SccRereadNodes proofs.SccRereadLines.
From PV Require proofs.SccTableFacts proofs.SccDoubleFacts proofs.SccPoponStage1 proofs.SccPoponStage2 proofs.SccWordsFacts
     spec.SpecScc05.
Import ListNotations.
Open Scope Z_scope.

Module S1 := SccPoponStage1.
Module S2 := SccPoponStage2.

Ltac proj_red :=
  cbn [r_stash r_tk r_last r_dstart r_pop r_paint r_roll r_active r_queue r_time r_tc r_frames r_offset r_err
       set_dbl set_buf set_tk set_stash set_active set_queue set_time set_clock set_err buf bump
       andb orb negb fst snd].

(* ---- the writer's preamble address codes, as the reader's tables see them ---------------------------------------- *)
Definition wpac (row : Z) : Z := word_z (pacw row).
Definition rows15 : list Z := map Z.of_nat (seq 1 15).

Lemma wpac_table :
  forallb (fun row => let w := wpac row in
             match pac_pos w with Some (r, c) => (r =? row) && (c =? 0) | None => false end
             && is_pac w && negb (w =? w_bs) && negb (memz w S1.ctl_words)
             && negb (memz w scc_background_color_codes) && negb (memz w scc_mid_row_codes)
             && negb (memz w scc_italics_commands)) rows15 = true.
Proof. vm_compute. reflexivity. Qed.

Lemma wpac_facts : forall row, 1 <= row <= 15 ->
  pac_pos (wpac row) = Some (row, 0) /\ is_pac (wpac row) = true /\ (wpac row =? w_bs) = false
  /\ ~ In (wpac row) S1.ctl_words /\ memz (wpac row) scc_background_color_codes = false
  /\ memz (wpac row) scc_mid_row_codes = false /\ memz (wpac row) scc_italics_commands = false.
Proof.
  intros row H. pose proof wpac_table as T. rewrite forallb_forall in T.
  assert (I : In row rows15).
  { unfold rows15. apply in_map_iff. exists (Z.to_nat row). split; [lia|]. apply in_seq. lia. }
  specialize (T row I). cbv zeta in T.
  repeat (apply andb_prop in T; let X := fresh "X" in destruct T as [T X]).
  destruct (pac_pos (wpac row)) as [[r c]|]; [|discriminate]. apply andb_prop in T. destruct T as [T1 T2].
  assert (r = row) by lia. assert (c = 0) by lia. subst.
  repeat split; try (apply negb_true_iff; assumption); try assumption.
  apply SccTableFacts.memz_notIn. apply negb_true_iff. assumption.
Qed.

(* a PAC without italics on a buffer without style only moves the cursor *)
Lemma interp_pac_plain : forall tk nodes w n, (w =? w_bs) = false -> memz w scc_background_color_codes = false ->
  memz w scc_mid_row_codes = false -> memz w scc_italics_commands = false ->
  interpret_command tk (mkCr nodes SNone) w n = (update_positioning tk (mkCr nodes SNone) w, mkCr nodes SNone, None).
Proof.
  intros tk nodes w n Hbs Hbg Hmid Hit. unfold interpret_command. cbv zeta. rewrite Hbs, Hbg, Hit, Hmid.
  destruct (memz w scc_style_setting_commands); cbn [cr_style cr_nodes andb];
    destruct (prev_text nodes) as [[x y]|]; reflexivity.
Qed.

(* ---- what the double-command filter remembers between our words ---------------------------------------------------- *)
Definition lok (l : lastcmd) : Prop :=
  l = LNone \/ exists w a b, l = LWord w /\ char_of (hi w) = Some a /\ char_of (lo w) = Some b.

Lemma lok_not_code : forall l w, lok l -> (is_command w || is_pac w) = true -> last_contains l w = false /\ last_is l w = false.
Proof.
  intros l w [->|(x & a & b & -> & Ha & Hb)] H; [split; reflexivity|].
  destruct (S1.char_word_class x a b Ha Hb) as (Hc & Hp & _). cbn [last_contains last_is].
  destruct (Z.eqb_spec x w) as [->|]; [|split; reflexivity]. rewrite Hc, Hp in H. discriminate.
Qed.

(* ---- a control code met for the first time / repeated ------------------------------------------------------------------ *)
Lemma hd_first : forall s w, is_pac w = false -> tab_of w = None -> last_is (r_last s) w = false ->
  handle_double s w = (false, set_dbl s (LWord w) (if is_cue_start w then false else r_dstart s)).
Proof.
  intros s w Hp Ht Hl. unfold handle_double. cbv zeta. rewrite Hp, Ht, Hl. rewrite !andb_false_r. cbn [negb andb].
  rewrite andb_true_r. reflexivity.
Qed.

Lemma tw_cmd_first : forall s w n, r_err s = None -> is_command w = true -> is_pac w = false -> tab_of w = None ->
  last_is (r_last s) w = false ->
  translate_word s w n
  = let s1 := translate_command (set_dbl s (LWord w) (if is_cue_start w then false else r_dstart s)) w n in
    match r_err s1 with Some _ => s1 | None => bump s1 end.
Proof.
  intros s w n He Hc Hp Ht Hl. unfold translate_word. rewrite He, (hd_first s w Hp Ht Hl). cbv iota. rewrite Hc. reflexivity.
Qed.

Lemma ctl_facts : forall w, In w [w_enm; w_rcl; w_edm; w_eoc] ->
  is_command w = true /\ is_pac w = false /\ tab_of w = None.
Proof. intros w H. cbn [In] in H. destruct H as [<-|[<-|[<-|[<-|[]]]]]; vm_compute; repeat split. Qed.

Lemma edm_facts : (w_edm =? w_bs) = false /\ memz w_edm scc_background_color_codes = false
  /\ memz w_edm scc_style_setting_commands = false /\ memz w_edm scc_mid_row_codes = false
  /\ tab_of w_edm = None /\ pac_pos w_edm = None.
Proof. vm_compute. repeat split. Qed.

Section Load.
Variables (pa ro : creator) (off : Q).

Definition ST (st : stash) (tk : tracker) (l : lastcmd) (ds : bool) (nodes : list inode) (q : option (creator * Q))
              (tm : Q) (tc : str) (fr : Z) : rstate :=
  mkR st tk l ds (mkCr nodes SNone) pa ro MPop q tm tc fr off None.

(* ---- one word of characters ---------------------------------------------------------------------------------------- *)
Lemma tw_chars : forall st tk l ds nodes q tm tc fr w a b n,
  char_of (hi w) = Some a -> char_of (lo w) = Some b -> tk_repos tk = false -> plain nodes = true ->
  forallb tame_node nodes = true -> tame (a ++ b) = true ->
  exists nodes', translate_word (ST st tk l ds nodes q tm tc fr) w n
                 = ST st (mkTk (tk_pos tk) None false (tk_default tk)) (LWord w) ds nodes' q tm tc (fr + 1)
                 /\ plain nodes' = true /\ last_text nodes' = true /\ ntext nodes' = ntext nodes ++ brk_str tk ++ a ++ b
                 /\ forallb tame_node nodes' = true.
Proof.
  intros st tk l ds nodes q tm tc fr w a b n Ha Hb R P TN TS.
  destruct (S1.char_word_class w a b Ha Hb) as (Hc & Hp & Hs & He & Ht & Hq & Hbs).
  destruct (add_chars_plain tk nodes (a ++ b) R P TN TS) as (nodes' & E & P' & L' & N' & T').
  exists nodes'. split; [|auto]. unfold ST, translate_word. proj_red. unfold handle_double. proj_red. rewrite Hc, Hp, Hs, He, Ht, Hq.
  proj_red. rewrite ?andb_false_r. proj_red. rewrite Ha, Hb. unfold add_to_buf. proj_red. rewrite E. proj_red. reflexivity.
Qed.

(* ---- the characters of one row --------------------------------------------------------------------------------------- *)
Definition acked (tk : tracker) : tracker := mkTk (tk_pos tk) None false (tk_default tk).
Definition tk_after (tk : tracker) (cs : str) : tracker := match cs with [] => tk | _ => acked tk end.

Definition row_goal (st : stash) (ds : bool) (q : option (creator * Q)) (tm : Q) (tc : str) (nx : option Z)
                    (bs : list Z) (cs : str) : Prop :=
  forall tk l nodes fr, tk_repos tk = false -> plain nodes = true -> forallb tame_node nodes = true -> lok l ->
  exists l' nodes',
    S1.tws (ST st tk l ds nodes q tm tc fr) (map word_z (pair_up bs)) nx
      = ST st (tk_after tk cs) l' ds nodes' q tm tc (fr + Z.of_nat (length (pair_up bs)))
    /\ plain nodes' = true /\ forallb tame_node nodes' = true /\ lok l'
    /\ match cs with
       | [] => nodes' = nodes
       | _ => last_text nodes' = true /\ ntext nodes' = ntext nodes ++ brk_str tk ++ cs
       end.

Definition carries (b c : Z) : Prop := S1.carries b c /\ tame [c] = true.

Lemma row_run : forall st ds q tm tc nx bs cs, Forall2 carries bs cs ->
  row_goal st ds q tm tc nx bs cs /\ (forall b0 c0, carries b0 c0 -> row_goal st ds q tm tc nx (b0 :: bs) (c0 :: cs)).
Proof.
  intros st ds q tm tc nx bs cs F. induction F as [|b c bs cs [[Rg Hc] Tc] F IH].
  - split.
    + intros tk l nodes fr R P T L. exists l, nodes. cbn [pair_up map S1.tws length tk_after]. rewrite Z.add_0_r. split; [reflexivity|]. split; [exact P|]. split; [exact T|]. split; [exact L|reflexivity].
    + intros b0 c0 [[Rg0 Hc0] Tc0] tk l nodes fr R P T L. cbn [pair_up map S1.tws length tk_after].
      assert (Ha : char_of (hi (word_z (b0, 128))) = Some [c0]) by (unfold word_z, SccRoundTrip.word_z; cbn [fst snd]; rewrite S1.hi_word by lia; exact Hc0).
      assert (Hl : char_of (lo (word_z (b0, 128))) = Some []) by (unfold word_z, SccRoundTrip.word_z; cbn [fst snd]; rewrite S1.lo_word by lia; exact S1.char_of_pad).
      destruct (tw_chars st tk l ds nodes q tm tc fr _ _ _ nx Ha Hl R P T) as (nodes' & E & P' & L' & N' & T').
      { rewrite app_nil_r. exact Tc0. }
      rewrite E. eexists _, nodes'. split; [reflexivity|]. rewrite app_nil_r in N'.
      repeat split; try assumption. right. exists (word_z (b0, 128)), [c0], []. split; [reflexivity|split; assumption].
  - destruct IH as [IHa IHb]. split.
    + apply IHb. split; [split|]; assumption.
    + intros b0 c0 [[Rg0 Hc0] Tc0] tk l nodes fr R P T L. cbn [pair_up map S1.tws length tk_after].
      set (rest := map word_z (pair_up bs)).
      assert (Ha : char_of (hi (word_z (b0, b))) = Some [c0]) by (unfold word_z, SccRoundTrip.word_z; cbn [fst snd]; rewrite S1.hi_word by exact Rg; exact Hc0).
      assert (Hl : char_of (lo (word_z (b0, b))) = Some [c]) by (unfold word_z, SccRoundTrip.word_z; cbn [fst snd]; rewrite S1.lo_word by exact Rg; exact Hc).
      assert (T2 : tame ([c0] ++ [c]) = true).
      { unfold tame in *. cbn [app forallb] in *. rewrite andb_true_r in Tc0, Tc. rewrite Tc0, Tc. reflexivity. }
      destruct (tw_chars st tk l ds nodes q tm tc fr _ _ _ (S1.nxt rest nx) Ha Hl R P T T2) as (nodes1 & E & P1 & L1 & N1 & T1).
      fold (S1.nxt rest nx). rewrite E. fold (acked tk).
      assert (Lk : lok (LWord (word_z (b0, b)))) by (right; exists (word_z (b0, b)), [c0], [c]; split; [reflexivity|split; assumption]).
      destruct (IHa (acked tk) (LWord (word_z (b0, b))) nodes1 (fr + 1) eq_refl P1 T1 Lk) as (l' & nodes' & E' & P' & T' & L' & C').
      exists l', nodes'. split; [|split; [exact P'|split; [exact T'|split; [exact L'|]]]].
      * unfold rest. rewrite E'. replace (tk_after (acked tk) cs) with (acked tk) by (destruct cs; reflexivity).
        f_equal. lia.
      * destruct cs as [|c1 cs'].
        -- subst nodes'. split; [exact L1|]. rewrite N1. reflexivity.
        -- destruct C' as [C1 C2]. split; [exact C1|]. rewrite C2, N1. change (brk_str (acked tk)) with (@nil Z).
           rewrite <- !app_assoc. reflexivity.
Qed.

(* ---- PAC PAC ---------------------------------------------------------------------------------------------------------- *)
Lemma tw_pac_pair : forall st tk l ds nodes q tm tc fr row nx, 1 <= row <= 15 -> lok l ->
  S1.tws (ST st tk l ds nodes q tm tc fr) [wpac row; wpac row] nx
  = ST st (tracker_update (match nodes with [] => tracker_reset tk | _ => tk end) (row, 0)) LNone ds nodes q tm tc (fr + 2).
Proof.
  intros st tk l ds nodes q tm tc fr row nx H L. destruct (wpac_facts row H) as (Hp & Hpac & Hbs & Hctl & Hbg & Hmid & Hit).
  destruct (SccDoubleFacts.pac_facts _ Hpac) as [Ht Hq].
  assert (Hcp : (is_command (wpac row) || is_pac (wpac row)) = true) by (rewrite Hpac; apply orb_true_r).
  destruct (lok_not_code l _ L Hcp) as [Hl _].
  cbn [S1.tws]. unfold ST.
  rewrite (S2.tw_cmd st tk l ds (mkCr nodes SNone) pa ro q tm tc fr off (wpac row) (Some (wpac row)) (LWord (wpac row)) _ _ Hcp Hctl
             (S1.hd_pac st tk l ds (mkCr nodes SNone) pa ro q tm tc fr off (wpac row) Hpac Hl)
             (interp_pac_plain tk nodes _ _ Hbs Hbg Hmid Hit)).
  rewrite SccDoubleFacts.pac_second; [|reflexivity|exact Hpac|cbn [r_last last_contains]; apply Z.eqb_refl].
  rewrite (S1.up_pac_gen _ _ _ _ Ht Hp). unfold bump, set_dbl, set_clock. proj_red. cbn [cr_nodes]. f_equal. lia.
Qed.

Lemma last_some_snoc_pos : forall (l : list pos) p, last (map Some (l ++ [p])) None = Some p.
Proof.
  induction l as [|a t IH]; intros p; [reflexivity|]. cbn [app map]. specialize (IH p).
  destruct (map Some (t ++ [p])) as [|x r] eqn:E; [destruct t; discriminate|].
  change (last (Some a :: x :: r) None) with (last (x :: r) None). exact IH.
Qed.

Lemma tracker_next_row : forall tk ps r c r', tk_pos tk = ps ++ [(r, c)] -> tk_repos tk = false -> r' = r + 1 ->
  exists c', tracker_update tk (r', 0) = mkTk (tk_pos tk ++ [(r', c')]) (Some 0) false (r', 0).
Proof.
  intros [tp tb tr td] ps r c r' E R ->. cbn [tk_pos tk_repos] in *. subst. unfold tracker_update.
  cbn [tk_pos tk_break tk_repos tk_default]. rewrite last_some_snoc_pos. rewrite Z.eqb_refl. eexists. reflexivity.
Qed.

(* ---- the rows of a load ------------------------------------------------------------------------------------------------ *)
Definition rinv (r : Z) (tk : tracker) (nodes : list inode) : Prop :=
  tk_repos tk = false /\ (nodes = [] \/ (last_text nodes = true /\ exists ps c, tk_pos tk = ps ++ [(r, c)])).

Lemma basic_carries : forall line, forallb is_basic line = true -> Forall2 carries (map byte_of line) line.
Proof.
  induction line as [|c t IH]; intros H; [constructor|]. cbn [forallb] in H. apply andb_prop in H. destruct H as [Hc Ht].
  cbn [map]. constructor; [|exact (IH Ht)]. destruct (basic_facts c Hc) as [Eb Hb]. rewrite Eb. split.
  - exact (S1.carries_bc c Hb).
  - unfold tame. cbn [forallb]. rewrite andb_true_r. destruct (is_space c) eqn:Es; [|reflexivity].
    rewrite (S1.basic_space c Hb Es). reflexivity.
Qed.

Lemma basic_no_nl : forall line, forallb is_basic line = true -> no_nl line = true.
Proof.
  induction line as [|c t IH]; intros H; [reflexivity|]. cbn [forallb] in H. apply andb_prop in H. destruct H as [Hc Ht].
  cbn [no_nl forallb]. fold (no_nl t). rewrite (IH Ht), andb_true_r. destruct (Z.eqb_spec c 10) as [->|]; [|reflexivity].
  vm_compute in Hc. discriminate.
Qed.

Definition rows_short (lines : list str) : Prop := Forall (fun line : str => (length line <= 32)%nat) lines.

Lemma rows_run : forall lines st ds q tm tc nx first tk l nodes fr,
  1 <= first -> first + Z.of_nat (length lines) <= 16 ->
  Forall (fun line => forallb is_basic line = true) lines ->
  rinv (first - 1) tk nodes -> plain nodes = true -> forallb tame_node nodes = true -> lok l ->
  exists tk' l' nodes',
    S1.tws (ST st tk l ds nodes q tm tc fr) (map word_z (flat_map roww (number_rows first lines))) nx
    = ST st tk' l' ds nodes' q tm tc (fr + Z.of_nat (length (flat_map roww (number_rows first lines))))
    /\ rinv (first + Z.of_nat (length lines) - 1) tk' nodes' /\ plain nodes' = true /\ forallb tame_node nodes' = true /\ lok l'
    /\ words (ntext nodes') = words (ntext nodes) ++ flat_map words lines
    /\ (short (ntext nodes) = true -> rows_short lines -> short (ntext nodes') = true).
Proof.
  induction lines as [|line t IH]; intros st ds q tm tc nx first tk l nodes fr H1 H2 B I P T L.
  - exists tk, l, nodes. cbn [number_rows flat_map map S1.tws length]. rewrite !Z.add_0_r, app_nil_r. auto 10.
  - inversion B as [|? ? Bl Bt]; subst. cbn [number_rows flat_map length] in *.
    change (roww (first, line)) with (pacw first :: pacw first :: pair_up (map byte_of line)). rewrite !map_app.
    change (map word_z (pacw first :: pacw first :: pair_up (map byte_of line)))
      with ([wpac first; wpac first] ++ map word_z (pair_up (map byte_of line))).
    rewrite <- app_assoc. rewrite (S1.tws_app [wpac first; wpac first]), (S1.tws_app (map word_z (pair_up (map byte_of line)))).
    rewrite (tw_pac_pair st tk l ds nodes q tm tc fr first _ ltac:(lia) L).
    set (tk1 := tracker_update (match nodes with [] => tracker_reset tk | _ => tk end) (first, 0)).
    destruct I as [R I].
    assert (K : tk_repos tk1 = false /\ (exists ps c, tk_pos tk1 = ps ++ [(first, c)])
                /\ brk_str tk1 = match nodes with [] => [] | _ => [10] end).
    { destruct I as [->|(Lt & ps & c & E)].
      - unfold tk1. rewrite S1.tracker_reset_first. split; [reflexivity|]. split; [exists [], 0; reflexivity|reflexivity].
      - assert (Nn : nodes <> []) by (intros ->; discriminate).
        destruct (tracker_next_row tk ps (first - 1) c first E R ltac:(lia)) as (c' & E').
        unfold tk1. destruct nodes as [|n0 nt]; [congruence|]. rewrite E'. split; [reflexivity|]. split; [|reflexivity].
        exists (tk_pos tk), c'. reflexivity. }
    destruct K as (R1 & (ps1 & c1 & E1) & Bk).
    destruct (proj1 (row_run st ds q tm tc (S1.nxt (map word_z (flat_map roww (number_rows (first + 1) t))) nx) _ _ (basic_carries line Bl))
                tk1 LNone nodes (fr + 2) R1 P T (or_introl eq_refl)) as (l2 & nodes2 & E2 & P2 & T2 & L2 & C2).
    rewrite E2.
    assert (I2 : rinv (first + 1 - 1) (tk_after tk1 line) nodes2).
    { replace (first + 1 - 1) with first by lia. split; [destruct line; [exact R1|reflexivity]|].
      destruct line as [|c0 cs].
      - subst nodes2. destruct I as [->|(Lt & _)]; [left; reflexivity|right]. split; [exact Lt|]. exists ps1, c1. exact E1.
      - right. split; [exact (proj1 C2)|]. exists ps1, c1. exact E1. }
    destruct (IH st ds q tm tc nx (first + 1) (tk_after tk1 line) l2 nodes2 (fr + 2 + Z.of_nat (length (pair_up (map byte_of line))))
                ltac:(lia) ltac:(lia) Bt I2 P2 T2 L2) as (tk' & l' & nodes' & E' & I' & P' & T' & L' & W' & S').
    exists tk', l', nodes'. rewrite E'. split; [|split; [|split; [exact P'|split; [exact T'|split; [exact L'|split]]]]].
    + f_equal. rewrite !app_length. cbn [length]. lia.
    + replace (first + Z.of_nat (S (length t)) - 1) with (first + 1 + Z.of_nat (length t) - 1) by lia. exact I'.
    + rewrite W'. rewrite app_assoc. f_equal. destruct line as [|c0 cs].
      * subst nodes2. cbn. rewrite app_nil_r. reflexivity.
      * destruct C2 as [_ ->]. rewrite Bk. destruct I as [->|(Lt & _)].
        -- reflexivity.
        -- destruct nodes as [|n0 nt]; [discriminate|]. change ([10] ++ c0 :: cs) with (10 :: c0 :: cs).
           apply SccWordsFacts.words_nl.
    + intros Sh Fl. inversion Fl as [|? ? Fl1 Flt]; subst. apply S'; [|exact Flt]. destruct line as [|c0 cs].
      * subst nodes2. exact Sh.
      * destruct C2 as [_ ->]. rewrite Bk. pose proof (basic_no_nl _ Bl) as Nn. destruct I as [->|(Lt & _)].
        -- cbn [ntext map concat app]. apply runs_ok_line; [exact Nn|cbn [length] in *; lia].
        -- destruct nodes as [|n0 nt]; [discriminate|]. change ([10] ++ c0 :: cs) with (10 :: c0 :: cs). unfold short.
           rewrite runs_ok_app_nl. unfold short in Sh. rewrite Sh. apply runs_ok_line; [exact Nn|cbn [length] in *; lia].
Qed.

(* ---- the framing words ---------------------------------------------------------------------------------------------------- *)
Lemma tw_second_ctl : forall st tk ds nodes q tm tc fr w n, In w [w_enm; w_rcl; w_edm; w_eoc] ->
  exists ds', translate_word (ST st tk (LWord w) ds nodes q tm tc fr) w n = ST st tk LNone ds' nodes q tm tc (fr + 1).
Proof.
  intros st tk ds nodes q tm tc fr w n H. destruct (ctl_facts w H) as (Hc & _). eexists.
  rewrite S1.tw_second; [|reflexivity|reflexivity|unfold SccDoubleFacts.doubled_type; rewrite Hc; reflexivity].
  unfold ST, bump, set_dbl, set_clock. proj_red. reflexivity.
Qed.

Lemma pair_enm : forall st tk ds nodes q tm tc fr nx, exists ds',
  S1.tws (ST st tk LNone ds nodes q tm tc fr) [w_enm; w_enm] nx = ST st (tracker_reset tk) LNone ds' [] q tm tc (fr + 2).
Proof.
  intros. destruct (ctl_facts w_enm ltac:(cbn [In]; tauto)) as (Hc & Hp & Ht). cbn [S1.tws].
  rewrite (tw_cmd_first (ST st tk LNone ds nodes q tm tc fr) w_enm (Some w_enm)); [|reflexivity|exact Hc|exact Hp|exact Ht|reflexivity]. cbv zeta.
  change (translate_command (set_dbl (ST st tk LNone ds nodes q tm tc fr) (LWord w_enm)
            (if is_cue_start w_enm then false else r_dstart (ST st tk LNone ds nodes q tm tc fr))) w_enm (Some w_enm))
    with (ST st (tracker_reset tk) (LWord w_enm) (if is_cue_start w_enm then false else ds) [] q tm tc fr).
  change (bump (ST st (tracker_reset tk) (LWord w_enm) (if is_cue_start w_enm then false else ds) [] q tm tc fr))
    with (ST st (tracker_reset tk) (LWord w_enm) (if is_cue_start w_enm then false else ds) [] q tm tc (fr + 1)).
  cbn [r_err ST].
  destruct (tw_second_ctl st (tracker_reset tk) (if is_cue_start w_enm then false else ds) [] q tm tc (fr + 1) w_enm nx ltac:(cbn [In]; tauto))
    as (ds' & E). exists ds'. rewrite E. f_equal. lia.
Qed.

Lemma pair_rcl : forall st tk ds nodes q tm tc fr nx, exists ds',
  S1.tws (ST st tk LNone ds nodes q tm tc fr) [w_rcl; w_rcl] nx = ST st tk LNone ds' nodes q tm tc (fr + 2).
Proof.
  intros. destruct (ctl_facts w_rcl ltac:(cbn [In]; tauto)) as (Hc & Hp & Ht). cbn [S1.tws].
  rewrite (tw_cmd_first (ST st tk LNone ds nodes q tm tc fr) w_rcl (Some w_rcl)); [|reflexivity|exact Hc|exact Hp|exact Ht|reflexivity]. cbv zeta.
  change (translate_command (set_dbl (ST st tk LNone ds nodes q tm tc fr) (LWord w_rcl)
            (if is_cue_start w_rcl then false else r_dstart (ST st tk LNone ds nodes q tm tc fr))) w_rcl (Some w_rcl))
    with (ST st tk (LWord w_rcl) (if is_cue_start w_rcl then false else ds) nodes q tm tc fr).
  change (bump (ST st tk (LWord w_rcl) (if is_cue_start w_rcl then false else ds) nodes q tm tc fr))
    with (ST st tk (LWord w_rcl) (if is_cue_start w_rcl then false else ds) nodes q tm tc (fr + 1)).
  cbn [r_err ST].
  destruct (tw_second_ctl st tk (if is_cue_start w_rcl then false else ds) nodes q tm tc (fr + 1) w_rcl nx ltac:(cbn [In]; tauto))
    as (ds' & E). exists ds'. rewrite E. f_equal. lia.
Qed.

(* Erase-Displayed-Memory: the caption on display (if any) is closed at this instant *)
Definition closed (st : stash) (q : option (creator * Q)) (t : Q) : stash :=
  match q with Some (c0, a) => create_and_store st c0 a t | None => st end.

Lemma pair_edm : forall st tk l ds nodes q tm tc fr nx t1, lok l -> get_time tc fr off = Ok t1 -> exists ds',
  S1.tws (ST st tk l ds nodes q tm tc fr) [w_edm; w_edm] nx = ST (closed st q t1) tk LNone ds' nodes None tm tc (fr + 2).
Proof.
  intros st tk l ds nodes q tm tc fr nx t1 L G. destruct (ctl_facts w_edm ltac:(cbn [In]; tauto)) as (Hc & Hp & Ht).
  destruct (lok_not_code l w_edm L ltac:(rewrite Hc; reflexivity)) as [_ Hl]. cbn [S1.tws].
  rewrite (tw_cmd_first (ST st tk l ds nodes q tm tc fr) w_edm (Some w_edm)); [|reflexivity|exact Hc|exact Hp|exact Ht|exact Hl]. cbv zeta.
  set (ds1 := if is_cue_start w_edm then false else r_dstart (ST st tk l ds nodes q tm tc fr)).
  assert (E1 : translate_command (set_dbl (ST st tk l ds nodes q tm tc fr) (LWord w_edm) ds1) w_edm (Some w_edm)
               = ST (closed st q t1) tk (LWord w_edm) ds1 nodes None tm tc fr).
  { destruct q as [[c0 a]|].
    - unfold translate_command. cbn [Z.eqb Pos.eqb w_edm w_rcl w_rdc w_ru2 w_ru3 w_ru4 w_enm w_eoc w_cr orb andb r_queue ST set_dbl].
      unfold with_time, ST. proj_red. rewrite G. reflexivity.
    - unfold translate_command. cbn [Z.eqb Pos.eqb w_edm w_rcl w_rdc w_ru2 w_ru3 w_ru4 w_enm w_eoc w_cr orb andb r_queue ST set_dbl].
      unfold do_interpret, ST. proj_red. destruct edm_facts as (A & B & C & D & E & F).
      rewrite (S2.interp_plain tk (mkCr nodes SNone) w_edm (Some w_edm) A B C D). unfold update_positioning. rewrite E, F. reflexivity. }
  rewrite E1.
  change (bump (ST (closed st q t1) tk (LWord w_edm) ds1 nodes None tm tc fr))
    with (ST (closed st q t1) tk (LWord w_edm) ds1 nodes None tm tc (fr + 1)).
  cbn [r_err ST].
  destruct (tw_second_ctl (closed st q t1) tk ds1 nodes None tm tc (fr + 1) w_edm nx ltac:(cbn [In]; tauto)) as (ds' & E).
  exists ds'. rewrite E. f_equal. lia.
Qed.

(* End-Of-Caption with nothing on display: the buffer is queued with this instant as its start *)
Definition queued (nodes : list inode) (t : Q) : option (creator * Q) :=
  if cr_is_empty (mkCr nodes SNone) then None else Some (mkCr nodes SNone, t).
Definition after_eoc (nodes : list inode) : list inode := if cr_is_empty (mkCr nodes SNone) then nodes else [].

Lemma pair_eoc : forall st tk ds nodes tm tc fr nx t2, get_time tc fr off = Ok t2 -> exists ds',
  S1.tws (ST st tk LNone ds nodes None tm tc fr) [w_eoc; w_eoc] nx
  = ST st tk LNone ds' (after_eoc nodes) (queued nodes t2) t2 tc (fr + 2).
Proof.
  intros st tk ds nodes tm tc fr nx t2 G. destruct (ctl_facts w_eoc ltac:(cbn [In]; tauto)) as (Hc & Hp & Ht). cbn [S1.tws].
  rewrite (tw_cmd_first (ST st tk LNone ds nodes None tm tc fr) w_eoc (Some w_eoc)); [|reflexivity|exact Hc|exact Hp|exact Ht|reflexivity]. cbv zeta.
  set (ds1 := if is_cue_start w_eoc then false else r_dstart (ST st tk LNone ds nodes None tm tc fr)).
  assert (E1 : translate_command (set_dbl (ST st tk LNone ds nodes None tm tc fr) (LWord w_eoc) ds1) w_eoc (Some w_eoc)
               = ST st tk (LWord w_eoc) ds1 (after_eoc nodes) (queued nodes t2) t2 tc fr).
  { rewrite S1.translate_command_eoc. unfold with_time, ST, after_eoc, queued. proj_red. rewrite G. proj_red.
    destruct (cr_is_empty (mkCr nodes SNone)); reflexivity. }
  rewrite E1.
  change (bump (ST st tk (LWord w_eoc) ds1 (after_eoc nodes) (queued nodes t2) t2 tc fr))
    with (ST st tk (LWord w_eoc) ds1 (after_eoc nodes) (queued nodes t2) t2 tc (fr + 1)).
  cbn [r_err ST].
  destruct (tw_second_ctl st tk ds1 (after_eoc nodes) (queued nodes t2) t2 tc (fr + 1) w_eoc nx ltac:(cbn [In]; tauto)) as (ds' & E).
  exists ds'. rewrite E. f_equal. lia.
Qed.

(* ---- the whole load line ------------------------------------------------------------------------------------------------- *)
Definition load_words (first : Z) (lines : list str) : list Z :=
  map word_z ((pre4 ++ flat_map roww (number_rows first lines) ++ post3) ++ [EOC]).

Lemma load_words_eq : forall first lines,
  load_words first lines
  = [w_enm; w_enm] ++ [w_rcl; w_rcl] ++ map word_z (flat_map roww (number_rows first lines)) ++ [w_edm; w_edm] ++ [w_eoc; w_eoc].
Proof.
  intros. unfold load_words. rewrite !map_app. change (map word_z pre4) with ([w_enm; w_enm] ++ [w_rcl; w_rcl]).
  change (map word_z post3) with ([w_edm; w_edm] ++ [w_eoc]). change (map word_z [EOC]) with [w_eoc].
  rewrite <- !app_assoc. reflexivity.
Qed.

Lemma load_line_run : forall lines first st tk ds nodes0 q tm tc0 fr0 tc t1 t2,
  1 <= first -> first + Z.of_nat (length lines) <= 16 ->
  Forall (fun line => forallb is_basic line = true) lines ->
  get_time tc (Z.of_nat (length (flat_map roww (number_rows first lines))) + 4) off = Ok t1 ->
  get_time tc (Z.of_nat (length (flat_map roww (number_rows first lines))) + 6) off = Ok t2 ->
  exists tk' ds' nodes,
    translate_line (ST st tk LNone ds nodes0 q tm tc0 fr0) (tc, load_words first lines)
    = ST (closed st q t1) tk' LNone ds' (after_eoc nodes) (queued nodes t2) t2 tc
         (Z.of_nat (length (flat_map roww (number_rows first lines))) + 8)
    /\ plain nodes = true /\ forallb tame_node nodes = true /\ words (ntext nodes) = flat_map words lines
    /\ (rows_short lines -> short (ntext nodes) = true).
Proof.
  intros lines first st tk ds nodes0 q tm tc0 fr0 tc t1 t2 H1 H2 B G1 G2.
  set (rw := flat_map roww (number_rows first lines)) in *. set (n := Z.of_nat (length rw)) in *.
  unfold translate_line. cbn [r_err ST fst snd].
  change (set_clock (ST st tk LNone ds nodes0 q tm tc0 fr0) tc 0) with (ST st tk LNone ds nodes0 q tm tc 0).
  rewrite S1.tws_words, load_words_eq. fold rw.
  rewrite (S1.tws_app [w_enm; w_enm]), (S1.tws_app [w_rcl; w_rcl]), (S1.tws_app (map word_z rw)), (S1.tws_app [w_edm; w_edm]).
  destruct (pair_enm st tk ds nodes0 q tm tc 0 (S1.nxt ([w_rcl; w_rcl] ++ map word_z rw ++ [w_edm; w_edm] ++ [w_eoc; w_eoc]) None)) as (d1 & ->).
  destruct (pair_rcl st (tracker_reset tk) d1 [] q tm tc (0 + 2) (S1.nxt (map word_z rw ++ [w_edm; w_edm] ++ [w_eoc; w_eoc]) None)) as (d2 & ->).
  destruct (rows_run lines st d2 q tm tc (S1.nxt ([w_edm; w_edm] ++ [w_eoc; w_eoc]) None) first (tracker_reset tk) LNone [] (0 + 2 + 2)
              H1 H2 B (conj eq_refl (or_introl eq_refl)) eq_refl eq_refl (or_introl eq_refl))
    as (tk' & l' & nodes & E & _ & P & T & L & W & Sh).
  fold rw in E. rewrite E. fold n. replace (0 + 2 + 2 + n) with (n + 4) by lia.
  destruct (pair_edm st tk' l' d2 nodes q tm tc (n + 4) (S1.nxt [w_eoc; w_eoc] None) t1 L G1) as (d3 & ->).
  replace (n + 4 + 2) with (n + 6) by lia.
  destruct (pair_eoc (closed st q t1) tk' d3 nodes tm tc (n + 6) None t2 G2) as (d4 & ->).
  exists tk', d4, nodes. split; [f_equal; lia|]. split; [exact P|]. split; [exact T|]. split; [rewrite W; reflexivity|].
  intros Fl. apply Sh; [reflexivity|exact Fl].
Qed.

(* a clear line  EDM EDM *)
Lemma clear_line_run : forall st tk ds nodes q tm tc0 fr0 tc t, get_time tc 0 off = Ok t -> exists ds',
  translate_line (ST st tk LNone ds nodes q tm tc0 fr0) (tc, [w_edm; w_edm]) = ST (closed st q t) tk LNone ds' nodes None tm tc 2.
Proof.
  intros st tk ds nodes q tm tc0 fr0 tc t G. unfold translate_line. cbn [r_err ST fst snd].
  change (set_clock (ST st tk LNone ds nodes q tm tc0 fr0) tc 0) with (ST st tk LNone ds nodes q tm tc 0).
  rewrite S1.tws_words. destruct (pair_edm st tk LNone ds nodes q tm tc 0 None t (or_introl eq_refl) G) as (d & ->).
  exists d. reflexivity.
Qed.
End Load.
