(* C04, DFXP at tree level, on the models: the tree-building library (BeautifulSoup / html.parser) is the stated
   boundary - its result is the spec tree `tree_of` (compared with the real library in the harness, counted).
   From there on: tree -> DFXPReader walk -> nodes keeps every displayed non-white-space character and every line break,
   in order.  WEAKER than the oracle ok_lines_a: white space is filtered, so words glued at a source wrap (known finding)
   are invisible to this statement. *)
From Coq Require Import List ZArith Bool Lia.
From PV Require Import lib.Sx lib.Str model.TextNodes model.TextRead spec.SpecTextXml.
From PV Require Import spec.SpecTextRead proofs.TextReadFacts proofs.TextRoundtripFacts.
Import ListNotations.
Open Scope Z_scope.

(* what the cue shows, as one string with a mark for every line break *)
Definition item_flat1 (it : item) : str :=
  match it with
  | ITxt cs => chars cs
  | IWrap n => wrap_text n
  | IEnt _ c => [c]
  | IBr => [brk_mark]
  | _ => []
  end.
Definition item_flat (items : list item) : str := flat_map item_flat1 items.

Lemma bs4_space_is_space : forall c, bs4_space c = true -> is_space c = true.
Proof.
  intros c H. unfold bs4_space in H.
  repeat (apply orb_true_iff in H; destruct H as [H|H]); apply Z.eqb_eq in H; subst; reflexivity.
Qed.
Lemma vis_all_space : forall s, forallb bs4_space s = true -> vis s = [].
Proof.
  induction s as [|c s IH]; intros H; [reflexivity|]. cbn [forallb] in H. apply andb_true_iff in H. destruct H as [Hc Hs].
  unfold vis in *. cbn [filter]. rewrite (bs4_space_is_space c Hc). cbn [negb]. apply IH, Hs.
Qed.
Lemma bs4_vis : forall s, vis (bs4_string s) = vis s.
Proof.
  intros s. unfold bs4_string. destruct (forallb bs4_space s) eqn:E; [|reflexivity].
  rewrite (vis_all_space s E). destruct (existsb (fun c => c =? 10) s); reflexivity.
Qed.

Lemma tok_flat_snoc : forall l x, tok_flat (l ++ [x]) = tok_flat l ++ tok_flat1 x.
Proof. intros. unfold tok_flat. rewrite flat_map_app. cbn [flat_map]. rewrite app_nil_r. reflexivity. Qed.

Lemma flush_flat : forall cur out,
  vis (tok_flat (rev (flush_text cur out))) = vis (tok_flat (rev out)) ++ vis (rev cur).
Proof.
  intros cur out. unfold flush_text. destruct cur as [|c cur]; [cbn [rev vis filter]; rewrite app_nil_r; reflexivity|].
  cbn [rev]. rewrite tok_flat_snoc, vis_app. cbn [tok_flat1]. rewrite bs4_vis. reflexivity.
Qed.

Lemma toks_flat : forall items cur out,
  vis (tok_flat (toks_aux F_DFXP items cur out)) = vis (tok_flat (rev out)) ++ vis (rev cur) ++ vis (item_flat items).
Proof.
  unfold item_flat. induction items as [|it items IH]; intros cur out.
  - cbn [toks_aux flat_map]. rewrite flush_flat. cbn [vis filter]. rewrite app_nil_r. reflexivity.
  - cbn [flat_map]. rewrite vis_app.
    assert (B : forall x, vis (tok_flat (rev (x :: flush_text cur out))) = (vis (tok_flat (rev out)) ++ vis (rev cur)) ++ vis (tok_flat1 x)).
    { intros x. cbn [rev]. rewrite tok_flat_snoc, vis_app, flush_flat. reflexivity. }
    destruct it as [cs|n|nm c| |k|k|cls nm|s|cl nm|s|s]; cbn [toks_aux item_flat1].
    + rewrite IH, rev_app_distr, rev_involutive, vis_app, <- !app_assoc. reflexivity.
    + rewrite IH, rev_app_distr, rev_involutive, vis_app, <- !app_assoc. reflexivity.
    + rewrite IH. cbn [rev]. rewrite vis_app, <- !app_assoc. reflexivity.
    + rewrite IH, B. cbn [rev tok_flat1]. change (vis []) with (@nil Z). cbn [app]. rewrite <- !app_assoc. reflexivity.
    + destruct (tag_of F_DFXP k) as [n a]. rewrite IH, B. cbn [rev tok_flat1 vis filter app]. rewrite !app_nil_r, <- ?app_assoc. reflexivity.
    + rewrite IH, B. cbn [rev tok_flat1 vis filter app]. rewrite !app_nil_r, <- ?app_assoc. reflexivity.
    + rewrite IH. cbn [vis filter app]. reflexivity.
    + rewrite IH. cbn [vis filter app]. reflexivity.
    + rewrite IH. cbn [vis filter app]. reflexivity.
    + rewrite IH, flush_flat. cbn [rev vis filter app]. rewrite ?app_nil_r, <- ?app_assoc. reflexivity.
    + rewrite IH, flush_flat. cbn [rev vis filter app]. rewrite ?app_nil_r, <- ?app_assoc. reflexivity.
Qed.

Lemma flush_span : forall cur out, forallb span_tok out = true -> forallb span_tok (flush_text cur out) = true.
Proof. intros cur out H. unfold flush_text. destruct cur; [exact H|]. cbn [forallb span_tok]. exact H. Qed.

Lemma toks_span : forall items cur out, forallb span_tok out = true -> forallb span_tok (toks_aux F_DFXP items cur out) = true.
Proof.
  induction items as [|it items IH]; intros cur out H.
  - cbn [toks_aux]. rewrite forallb_forall. intros x Hx. apply in_rev in Hx. pose proof (flush_span cur out H) as F.
    rewrite forallb_forall in F. apply F, Hx.
  - destruct it as [cs|n|nm c| |k|k|cls nm|s|cl nm|s|s]; cbn [toks_aux]; try (apply IH; exact H).
    + apply IH. cbn [forallb span_tok]. rewrite (flush_span cur out H). reflexivity.
    + assert (E : exists a, tag_of F_DFXP k = (lit "span", a)) by (unfold tag_of; change (F_DFXP =? F_DFXP) with true; cbv iota; eexists; reflexivity).
      destruct E as [a ->]. apply IH. cbn [forallb span_tok]. rewrite (flush_span cur out H). reflexivity.
    + assert (E : fst (tag_of F_DFXP k) = lit "span") by reflexivity. rewrite E.
      apply IH. cbn [forallb span_tok]. rewrite (flush_span cur out H). reflexivity.
    + apply IH. apply flush_span, H.
    + apply IH. apply flush_span, H.
Qed.

(* DFXP, tree level: every node list the reader model returns for the spec tree of the cue shows the cue's
   non-white-space characters and its line breaks, in order *)
Theorem dfxp_tree_visible : forall items ns, read_dfxp true items = Some ns ->
  vis (node_flat ns) = vis (item_flat items).
Proof.
  intros items ns H. unfold read_dfxp in H. destruct (tree_of F_DFXP items) as [t|] eqn:T; [|discriminate].
  injection H as <-. unfold tree_of, toks_of in T.
  pose proof (xbuild_flat _ [] [] t (toks_span items [] [] eq_refl) (Forall_nil _) T) as F.
  cbn [unwind_flat rev flat_map app] in F.
  rewrite (vis_flat_map_kids (dfxp_nodes true) t) by (apply Forall_forall; intros x _; apply dfxp_walk_visible).
  rewrite F, toks_flat. reflexivity.
Qed.

Example dfxp_tree_example :
  read_dfxp true [ITxt [(97, 0); (38, 1)]; IWrap 3; IOpen 0; ITxt [(98, 2)]; IClose 0; IBr; ICom (lit " c "); IEnt (lit "x") 99]
  = Some [NText (lit "a&"); NStyle true (mkStyle true false false None); NText (lit "b"); NStyle false (mkStyle true false false None);
          NBreak; NText (lit "c")].
Proof. vm_compute. reflexivity. Qed.
