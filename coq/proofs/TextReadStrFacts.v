(* C04 (wave 7, round 2): read_p (render_p lines) = the shown lines, for every list of lines of the domain (line_ok):
   strict XML content parser + DFXP reader model on the rendered string.  Pieces: the text-node matcher on a wrapped
   line (text_node_wrapped, EXACT), the tokenizer on escaped lines separated by <br/> (simulation Rel of
   proofs/TextPayloadFacts.v), the tree builder on tag-free tokens, node_lines. *)
From Coq Require Import List ZArith Bool Lia ZifyBool.
From PV Require Import lib.Sx lib.Str model.TextNodes model.TextWrite model.TextRead spec.SpecTextXml spec.SpecTextDfxpStr.
From PV Require Import proofs.TextStrFacts proofs.TextXmlFacts proofs.TextPayloadFacts proofs.TextAttrFacts.
Import ListNotations.
Open Scope Z_scope.

(* ---- the text-node matcher on a wrapped line ------------------------------------------------------------------- *)
Definition nonl (c : Z) : bool := negb (is_nl_cr c).
Definition wtail_ok (tail : list (str * str)) : Prop :=
  Forall (fun e => forallb is_space (fst e) = true /\ forallb nonl (fst e) = true /\
                   forallb nonl (snd e) = true /\ exists c w', snd e = c :: w' /\ is_space c = false) tail.

Definition rof (tail : list (str * str)) : str := concat (map (fun e => 10 :: fst e ++ snd e) tail).
Definition piece (x : str) : str := if nonblank_b x then 32 :: lstrip x else [].

Lemma split_by_aux_app : forall f a b cur, forallb (fun c => negb (f c)) a = true ->
  split_by_aux f (a ++ b) cur = split_by_aux f b (rev a ++ cur).
Proof.
  intros f a. induction a as [|c a IH]; intros b cur H; [reflexivity|].
  cbn [forallb] in H. apply andb_true_iff in H. destruct H as [Hc Ha]. apply negb_true_iff in Hc.
  cbn [app split_by_aux]. rewrite Hc, (IH b (c :: cur) Ha). cbn [rev]. rewrite <- app_assoc. reflexivity.
Qed.

Lemma split_tail : forall tail cur, wtail_ok tail ->
  concat (map (fun l => 32 :: lstrip l) (filter nonblank_b (split_by_aux is_nl_cr (rof tail) cur))) =
  piece (rev cur) ++ concat (map (fun e => 32 :: snd e) tail).
Proof.
  induction tail as [|[ind w] tail IH]; intros cur H.
  - cbn [rof map concat split_by_aux filter]. unfold piece. destruct (nonblank_b (rev cur)); cbn; rewrite ?app_nil_r; reflexivity.
  - inversion H as [|e l He Hl]; subst. cbn [fst snd] in He. destruct He as (Hi & Hin & Hwn & c & w' & Hw & Hc).
    unfold rof. cbn [map concat fst snd]. fold (rof tail). cbn [app split_by_aux]. change (is_nl_cr 10) with true. cbv iota.
    cbn [filter]. assert (E : forall X, concat (map (fun l => 32 :: lstrip l) ((if nonblank_b (rev cur) then rev cur :: X else X))) =
                            piece (rev cur) ++ concat (map (fun l => 32 :: lstrip l) X)).
    { intros X. unfold piece. destruct (nonblank_b (rev cur)); reflexivity. }
    rewrite E. f_equal. rewrite <- app_assoc.
    rewrite (split_by_aux_app is_nl_cr ind _ [] Hin), (split_by_aux_app is_nl_cr w _ _ Hwn).
    rewrite (IH _ Hl). cbn [map concat snd]. f_equal.
    rewrite app_nil_r, <- rev_app_distr, rev_involutive. unfold piece.
    assert (Hnb : nonblank_b (ind ++ w) = true).
    { unfold nonblank_b. rewrite forallb_app, Hw. cbn [forallb]. rewrite Hc, andb_false_r. reflexivity. }
    rewrite Hnb. unfold lstrip. rewrite Hw. rewrite (lstrip_by_app_nonspace is_space ind c w' Hc Hi). reflexivity.
Qed.

Lemma take_while_all : forall f (s : str), forallb f s = true -> take_while f s = s.
Proof. intros f s. induction s as [|c s IH]; intros H; [reflexivity|]. cbn [forallb] in H. apply andb_true_iff in H. destruct H as [Hc Hs]. cbn [take_while]. rewrite Hc, (IH Hs). reflexivity. Qed.

Lemma skipn_app_len : forall (a b : str), skipn (length a) (a ++ b) = b.
Proof. induction a as [|c a IH]; intros b; [reflexivity|]. cbn [length app skipn]. apply IH. Qed.

Lemma nonl_not_lf : forall w, forallb nonl w = true -> forallb not_lf w = true.
Proof.
  induction w as [|c w IH]; intros H; [reflexivity|]. cbn [forallb] in *. apply andb_true_iff in H. destruct H as [Hc Hw].
  rewrite (IH Hw), andb_true_r. unfold nonl, is_nl_cr in Hc. unfold not_lf. lia.
Qed.

Theorem text_node_wrapped : forall c w' tail, is_space c = false -> forallb nonl (c :: w') = true -> wtail_ok tail ->
  text_node true ((c :: w') ++ rof tail) = Some ((c :: w') ++ concat (map (fun e => 32 :: snd e) tail)).
Proof.
  intros c w' tail Hc Hw Ht.
  assert (Hcn : is_nl_cr c = false) by (unfold is_nl_cr; unfold is_space in Hc; lia).
  assert (Hlf : forallb not_lf (c :: w') = true) by (apply nonl_not_lf; exact Hw).
  assert (Hfirst : take_while not_lf ((c :: w') ++ rof tail) = c :: w').
  { destruct tail as [|[ind w] tail].
    - cbn [rof map concat]. rewrite app_nil_r. apply take_while_all. exact Hlf.
    - unfold rof. cbn [map concat fst snd app]. change (c :: w' ++ 10 :: (ind ++ w) ++ concat (map (fun e => 10 :: fst e ++ snd e) tail))
        with ((c :: w') ++ 10 :: (ind ++ w) ++ concat (map (fun e => 10 :: fst e ++ snd e) tail)).
      apply take_while_stop; [exact Hlf|reflexivity]. }
  unfold text_node, text_first. cbn [app take_while]. rewrite Hcn. cbn [length firstn].
  assert (Hr : rstrip_by is_lf [c] = [c]).
  { unfold rstrip_by. cbn [rev app lstrip_by]. assert (is_lf c = false) by (unfold is_lf; unfold is_nl_cr in Hcn; lia). rewrite H. reflexivity. }
  rewrite Hr. cbn [length Nat.sub skipn].
  change (c :: w' ++ rof tail) with ((c :: w') ++ rof tail). rewrite Hfirst.
  change (0 + length (c :: w'))%nat with (length (c :: w')). rewrite skipn_app_len.
  unfold split_by. rewrite (split_tail tail [] Ht). reflexivity.
Qed.

(* a line end free, non-empty string is one text node, unchanged *)
Corollary text_node_plain : forall c w', is_space c = false -> forallb nonl (c :: w') = true ->
  text_node true (c :: w') = Some (c :: w').
Proof.
  intros c w' Hc Hw. pose proof (text_node_wrapped c w' [] Hc Hw (Forall_nil _)) as Q.
  cbn [rof map concat] in Q. rewrite !app_nil_r in Q. exact Q.
Qed.

(* ---- the tokenizer on escaped lines separated by <br/> --------------------------------------------------------------- *)
Definition txt_tok (l : str) : list xtok := match l with [] => [] | _ => [TkText l] end.
Fixpoint line_toks (ls : list str) : list xtok :=
  match ls with
  | [] => []
  | [l] => txt_tok l
  | l :: t => txt_tok l ++ TkEmpty (lit "br") [] :: line_toks t
  end.

Fixpoint abs_lines (ls : list str) (a : ast) : ast :=
  match ls with
  | [] => a
  | [l] => a_text l a
  | l :: t => abs_lines t (a_mark (TkEmpty (lit "br") []) (a_text l a))
  end.

Lemma Rel_lines : forall ls L a, Rel L a -> Forall (fun l => forallb xml_text_char l = true) ls ->
  Rel (L ++ join (lit "<br/>") (map xml_escape ls)) (abs_lines ls a).
Proof.
  induction ls as [|l ls IH]; intros L a HR H.
  - cbn. rewrite app_nil_r. exact HR.
  - inversion H as [|x y Hl Hls]; subst. destruct ls as [|l2 ls].
    + cbn [map join abs_lines]. apply Rel_text; assumption.
    + change (join (lit "<br/>") (map xml_escape (l :: l2 :: ls)))
        with (xml_escape l ++ lit "<br/>" ++ join (lit "<br/>") (map xml_escape (l2 :: ls))).
      change (abs_lines (l :: l2 :: ls) a) with (abs_lines (l2 :: ls) (a_mark (TkEmpty (lit "br") []) (a_text l a))).
      replace (L ++ xml_escape l ++ lit "<br/>" ++ join (lit "<br/>") (map xml_escape (l2 :: ls)))
        with (((L ++ xml_escape l) ++ lit "<br/>") ++ join (lit "<br/>") (map xml_escape (l2 :: ls)))
        by (rewrite <- !app_assoc; reflexivity).
      apply IH; [|exact Hls]. apply (Rel_mark _ (a_text l a)); [|exact markup_br]. apply Rel_text; assumption.
Qed.

Lemma flush_rev : forall l out, flush (rev l) out = rev (txt_tok l) ++ out.
Proof.
  intros l out. unfold flush, txt_tok. destruct l as [|c l]; [reflexivity|].
  destruct (rev (c :: l)) eqn:E.
  - apply (f_equal (@length Z)) in E. rewrite rev_length in E. discriminate.
  - rewrite <- E, rev_involutive. reflexivity.
Qed.

Lemma abs_lines_toks : forall ls a, a_cur a = [] -> ls <> [] ->
  rev (flush (a_cur (abs_lines ls a)) (a_out (abs_lines ls a))) = rev (a_out a) ++ line_toks ls.
Proof.
  induction ls as [|l ls IH]; intros a Ha Hne; [congruence|]. destruct ls as [|l2 ls].
  - cbn [abs_lines line_toks]. unfold a_text. cbn [a_cur a_out]. rewrite Ha, app_nil_r, flush_rev, rev_app_distr, rev_involutive. reflexivity.
  - change (abs_lines (l :: l2 :: ls) a) with (abs_lines (l2 :: ls) (a_mark (TkEmpty (lit "br") []) (a_text l a))).
    change (line_toks (l :: l2 :: ls)) with (txt_tok l ++ TkEmpty (lit "br") [] :: line_toks (l2 :: ls)).
    rewrite IH; [|reflexivity|discriminate].
    unfold a_mark, a_text. cbn [a_cur a_out rev]. rewrite Ha, app_nil_r, flush_rev, rev_app_distr, rev_involutive, <- !app_assoc. reflexivity.
Qed.

Theorem lines_tokens : forall ls, ls <> [] -> Forall (fun l => forallb xml_text_char l = true) ls ->
  xtokens (join (lit "<br/>") (map xml_escape ls)) = Some (line_toks ls).
Proof.
  intros ls Hne H. pose proof (Rel_lines ls [] (mkA [] []) Rel_init H) as HR. cbn [app] in HR.
  destruct HR as ([nbr Ht] & _ & _). unfold xtokens. unfold str in *. rewrite Ht. unfold t_finish. cbn [ts_mode ts_cur ts_out].
  rewrite (abs_lines_toks ls (mkA [] []) eq_refl Hne). reflexivity.
Qed.

(* ---- tree builder and reader on tag-free tokens ------------------------------------------------------------------------ *)
Definition tok_node (tk : xtok) : list xnode :=
  match tk with TkText s => [XText s] | TkEmpty n a => [XElem n a []] | _ => [] end.
Definition flat_tok (tk : xtok) : bool := match tk with TkText _ | TkEmpty _ _ => true | _ => false end.

Lemma xbuild_flat_toks : forall toks cur, forallb flat_tok toks = true ->
  xbuild toks [] cur = Some (rev cur ++ flat_map tok_node toks).
Proof.
  induction toks as [|tk toks IH]; intros cur H.
  - cbn. rewrite app_nil_r. reflexivity.
  - cbn [forallb] in H. apply andb_true_iff in H. destruct H as [Htk H]. destruct tk; try discriminate; cbn [xbuild flat_map tok_node].
    + rewrite (IH _ H). cbn [rev]. rewrite <- app_assoc. reflexivity.
    + rewrite (IH _ H). cbn [rev]. rewrite <- app_assoc. reflexivity.
Qed.

Lemma line_toks_flat : forall ls, forallb flat_tok (line_toks ls) = true.
Proof.
  induction ls as [|l ls IH]; [reflexivity|]. destruct ls as [|l2 ls].
  - cbn [line_toks]. destruct l; reflexivity.
  - change (line_toks (l :: l2 :: ls)) with (txt_tok l ++ TkEmpty (lit "br") [] :: line_toks (l2 :: ls)).
    rewrite forallb_app. cbn [forallb flat_tok]. rewrite IH. destruct l; reflexivity.
Qed.

(* the nodes the reader model returns for the lines, and their lines *)
Definition tn (s : str) : list node := match s with [] => [] | _ => [NText s] end.
Fixpoint nodes_of (ss : list str) : list node :=
  match ss with
  | [] => []
  | [s] => tn s
  | s :: t => tn s ++ NBreak :: nodes_of t
  end.

Lemma node_lines_aux_app : forall a b cur, (forall n, In n a -> exists s, n = NText s) ->
  node_lines_aux (a ++ b) cur = node_lines_aux b (cur ++ concat (map (fun n => match n with NText s => s | _ => [] end) a)).
Proof.
  induction a as [|n a IH]; intros b cur H; [cbn; rewrite app_nil_r; reflexivity|].
  destruct (H n (or_introl eq_refl)) as [s ->]. cbn [app node_lines_aux map concat]. rewrite IH; [rewrite <- app_assoc; reflexivity|].
  intros m Hm. apply H. right. exact Hm.
Qed.

Lemma node_lines_tn : forall s b cur, node_lines_aux (tn s ++ b) cur = node_lines_aux b (cur ++ s).
Proof. intros s b cur. destruct s as [|c s]; cbn [tn app]; [rewrite app_nil_r; reflexivity|reflexivity]. Qed.

Lemma node_lines_nodes_of : forall ss cur, ss <> [] -> node_lines_aux (nodes_of ss) cur = (cur ++ hd [] ss) :: tl ss.
Proof.
  induction ss as [|s ss IH]; intros cur Hne; [congruence|]. destruct ss as [|s2 ss].
  - cbn [nodes_of hd tl]. rewrite <- (app_nil_r (tn s)), node_lines_tn. reflexivity.
  - change (nodes_of (s :: s2 :: ss)) with (tn s ++ NBreak :: nodes_of (s2 :: ss)). cbn [hd tl].
    rewrite node_lines_tn. cbn [node_lines_aux]. rewrite IH by discriminate. reflexivity.
Qed.

(* ---- the domain, unfolded ---------------------------------------------------------------------------------------------- *)
Lemma text_char_nonl : forall w, forallb text_char w = true -> forallb (fun c => negb (c =? 10)) w = true -> forallb nonl w = true.
Proof.
  induction w as [|c w IH]; intros H1 H2; [reflexivity|]. cbn [forallb] in *.
  apply andb_true_iff in H1. apply andb_true_iff in H2. destruct H1 as [Hc H1]. destruct H2 as [Hd H2].
  rewrite (IH H1 H2), andb_true_r. unfold text_char in Hc. unfold nonl, is_nl_cr. lia.
Qed.

Lemma text_char_xml : forall w, forallb text_char w = true -> forallb xml_text_char w = true.
Proof. intros w H. exact H. Qed.

Lemma word_ok_inv : forall w, word_ok w = true ->
  exists c w', w = c :: w' /\ is_space c = false /\ forallb nonl w = true /\ forallb xml_text_char w = true.
Proof.
  intros w H. unfold word_ok in H. apply andb_true_iff in H. destruct H as [H H10]. apply andb_true_iff in H. destruct H as [Hc Ht].
  destruct w as [|c w']; [discriminate|]. exists c, w'. repeat split; [apply negb_true_iff; exact Hc|apply text_char_nonl; assumption|exact Ht].
Qed.

Lemma tail_ok_inv : forall tail, forallb (fun e => ind_ok (fst e) && word_ok (snd e)) tail = true ->
  wtail_ok tail /\ forallb xml_text_char (rof tail) = true.
Proof.
  induction tail as [|[ind w] tail IH]; intros H; [split; [constructor|reflexivity]|].
  cbn [forallb fst snd] in H. apply andb_true_iff in H. destruct H as [H Ht]. apply andb_true_iff in H. destruct H as [Hi Hw].
  destruct (IH Ht) as [IH1 IH2]. destruct (word_ok_inv w Hw) as (c & w' & E & Hc & Hn & Hx).
  unfold ind_ok in Hi. apply andb_true_iff in Hi. destruct Hi as [Hi Hi10]. apply andb_true_iff in Hi. destruct Hi as [Hsp Hit].
  split.
  - constructor; [|exact IH1]. cbn [fst snd]. repeat split; [exact Hsp|apply text_char_nonl; assumption|exact Hn|]. exists c, w'. split; assumption.
  - unfold rof. cbn [map concat fst snd]. fold (rof tail). change (forallb xml_text_char ind = true) in Hit.
    change (10 :: ind ++ w) with ([10] ++ ind ++ w). rewrite !forallb_app, IH2, Hx, Hit. reflexivity.
Qed.

Lemma line_ok_inv : forall l, line_ok l = true ->
  forallb xml_text_char (raw_line l) = true /\
  flat_map (dfxp_nodes true) (flat_map tok_node (txt_tok (raw_line l))) = tn (shown_line l).
Proof.
  intros [w tail] H. unfold line_ok in H. destruct w as [|c w'].
  - destruct tail; [split; reflexivity|]. cbn in H. discriminate.
  - apply andb_true_iff in H. destruct H as [Hw Ht]. destruct (word_ok_inv _ Hw) as (c0 & w0 & E & Hc & Hn & Hx). injection E as <- <-.
    destruct (tail_ok_inv tail Ht) as [Hto Htx]. unfold raw_line, shown_line. cbn [fst snd]. fold (rof tail). split.
    + rewrite forallb_app, Htx. unfold str in *. rewrite Hx. reflexivity.
    + cbn [app txt_tok flat_map tok_node dfxp_nodes]. change (c :: w' ++ rof tail) with ((c :: w') ++ rof tail).
      rewrite (text_node_wrapped c w' tail Hc Hn Hto). reflexivity.
Qed.

Lemma read_line_toks : forall ls, Forall (fun l => line_ok l = true) ls ->
  flat_map (dfxp_nodes true) (flat_map tok_node (line_toks (map raw_line ls))) = nodes_of (map shown_line ls).
Proof.
  induction ls as [|l ls IH]; intros H; [reflexivity|]. inversion H as [|x y Hl Hls]; subst.
  destruct (line_ok_inv l Hl) as [_ Hn]. destruct ls as [|l2 ls].
  - cbn [map line_toks nodes_of]. exact Hn.
  - change (line_toks (map raw_line (l :: l2 :: ls))) with (txt_tok (raw_line l) ++ TkEmpty (lit "br") [] :: line_toks (map raw_line (l2 :: ls))).
    change (nodes_of (map shown_line (l :: l2 :: ls))) with (tn (shown_line l) ++ NBreak :: nodes_of (map shown_line (l2 :: ls))).
    rewrite !flat_map_app, Hn. cbn [flat_map tok_node dfxp_nodes app].
    change (str_eqb (lit "br") (lit "br")) with true. cbv iota. cbn [app]. f_equal. f_equal. apply (IH Hls).
Qed.

(* ---- END TO END ------------------------------------------------------------------------------------------------------- *)
Theorem dfxp_str_end_to_end : forall ls, ls <> [] -> Forall (fun l => line_ok l = true) ls ->
  read_p (render_p ls) = Some (map shown_line ls).
Proof.
  intros ls Hne H. unfold read_p, render_p, content_parse.
  assert (Hx : Forall (fun l => forallb xml_text_char l = true) (map raw_line ls)).
  { apply Forall_forall. intros x Hin. apply in_map_iff in Hin. destruct Hin as (l & <- & Hl).
    rewrite Forall_forall in H. apply (line_ok_inv l (H l Hl)). }
  rewrite <- (map_map raw_line xml_escape).
  rewrite (lines_tokens (map raw_line ls)); [|destruct ls; [congruence|discriminate]|exact Hx].
  rewrite (xbuild_flat_toks _ [] (line_toks_flat _)). cbn [rev app option_map].
  rewrite (read_line_toks ls H). unfold node_lines. rewrite node_lines_nodes_of by (destruct ls; [congruence|discriminate]).
  cbn [app]. destruct ls; [congruence|reflexivity].
Qed.
